package main

import (
	"bufio"
	"encoding/json"
	"fmt"
	"math/big"
	"math/rand"
	"os"

	"github.com/bartossh/Computantis/src/spice"
)

const e18 = uint64(1000000000000000000)

type spiceSummary struct {
	Evaluations     int               `json:"evaluations"`
	Canonical       int               `json:"canonical_cases"`
	Branches        map[string]int    `json:"branches"`
	DistinctNontriv int               `json:"distinct_nontrivial"`
	Violations      []json.RawMessage `json:"violations"`
	Samples         []string          `json:"samples"`
	Exhaustive      map[string]string `json:"exhaustive_sets"`
}

func val(m spice.Melange) *big.Int {
	v := new(big.Int).SetUint64(m.Currency)
	v.Mul(v, new(big.Int).SetUint64(e18))
	return v.Add(v, new(big.Int).SetUint64(m.SupplementaryCurrency))
}

func canon(m spice.Melange) bool { return m.SupplementaryCurrency < e18 }

var limit = new(big.Int).Mul(new(big.Int).Lsh(big.NewInt(1), 64), new(big.Int).SetUint64(e18))

func errs(err error) string {
	switch err {
	case nil:
		return "ok"
	case spice.ErrValueOverflow:
		return "overflow"
	case spice.ErrNoSufficientFounds:
		return "nofunds"
	}
	return "other:" + err.Error()
}

func runSpice(tier string, seed int64, summaryPath, outPath string) {
	w := bufio.NewWriterSize(os.Stdout, 1<<20)
	if outPath != "" {
		f, err := os.Create(outPath)
		if err != nil {
			panic(err)
		}
		defer f.Close()
		w = bufio.NewWriterSize(f, 1<<20)
	}
	defer w.Flush()
	sum := spiceSummary{Branches: map[string]int{}, Exhaustive: map[string]string{}}
	rng := rand.New(rand.NewSource(seed))

	max := ^uint64(0)
	full := []uint64{0, 1, 2, e18 / 2, e18 - 2, e18 - 1, e18, e18 + 1, e18 + 2, 1<<63 - 1, 1 << 63, 1<<63 + 1,
		max - e18 - 1 + 1, max - e18 + 1, max - e18 + 2, max - 1, max}
	curSmall := []uint64{0, 1, 2, 1 << 63, max - 1, max}
	supSmall := []uint64{0, 1, e18 / 2, e18 - 1, e18, e18 + 1, max - e18 + 1, max - 1, max}
	curMid := []uint64{0, 1, 2, e18, 1 << 63, max - 1, max}

	violation := func(kind string, detail map[string]any) {
		detail["kind"] = kind
		b, _ := json.Marshal(detail)
		if len(sum.Violations) < 50 {
			sum.Violations = append(sum.Violations, b)
		}
	}
	nontriv := 0
	doSupply := func(m, a spice.Melange) {
		m0 := m
		err := m.Supply(a)
		fmt.Fprintf(w, "S %d %d %d %d | %s %d %d\n", m0.Currency, m0.SupplementaryCurrency, a.Currency, a.SupplementaryCurrency,
			errs(err), m.Currency, m.SupplementaryCurrency)
		sum.Evaluations++
		if err != nil && m != m0 {
			violation("supply-failure-mutates", map[string]any{"op": "supply", "m": m0, "a": a, "got": m, "err": errs(err)})
		}
		if canon(m0) && canon(a) {
			sum.Canonical++
			want := new(big.Int).Add(val(m0), val(a))
			fits := want.Cmp(limit) < 0
			carry := m0.SupplementaryCurrency+a.SupplementaryCurrency >= e18
			switch {
			case fits && carry:
				sum.Branches["supply.ok.carry"]++
				nontriv++
			case fits:
				sum.Branches["supply.ok"]++
			default:
				sum.Branches["supply.overflow"]++
				nontriv++
			}
			if fits && (err != nil || !canon(m) || val(m).Cmp(want) != 0) {
				violation("supply-not-exact", map[string]any{"op": "supply", "m": m0, "a": a, "got": m, "err": errs(err), "want_value": want.String()})
			}
			if !fits && err == nil {
				violation("supply-overflow-accepted", map[string]any{"op": "supply", "m": m0, "a": a, "got": m, "err": errs(err), "want_value": want.String()})
			}
		}
	}
	doTransfer := func(a, f, t spice.Melange, viaDrain bool) {
		f0, t0 := f, t
		var err error
		if viaDrain {
			err = f.Drain(a, &t)
		} else {
			err = spice.Transfer(a, &f, &t)
		}
		fmt.Fprintf(w, "T %d %d %d %d %d %d | %s %d %d %d %d\n", a.Currency, a.SupplementaryCurrency, f0.Currency, f0.SupplementaryCurrency,
			t0.Currency, t0.SupplementaryCurrency, errs(err), f.Currency, f.SupplementaryCurrency, t.Currency, t.SupplementaryCurrency)
		sum.Evaluations++
		if err != nil && (f != f0 || t != t0) {
			violation("transfer-failure-mutates", map[string]any{"op": "transfer", "a": a, "f": f0, "t": t0, "gotf": f, "gott": t, "err": errs(err)})
		}
		if canon(a) && canon(f0) && canon(t0) {
			sum.Canonical++
			wantT := new(big.Int).Add(val(t0), val(a))
			wantF := new(big.Int).Sub(val(f0), val(a))
			okk := wantF.Sign() >= 0 && wantT.Cmp(limit) < 0
			borrow := a.SupplementaryCurrency > f0.SupplementaryCurrency
			carry := t0.SupplementaryCurrency+a.SupplementaryCurrency >= e18
			switch {
			case okk && borrow && carry:
				sum.Branches["transfer.ok.borrow+carry"]++
				nontriv++
			case okk && borrow:
				sum.Branches["transfer.ok.borrow"]++
				nontriv++
			case okk && carry:
				sum.Branches["transfer.ok.carry"]++
				nontriv++
			case okk:
				sum.Branches["transfer.ok"]++
			case wantF.Sign() < 0:
				sum.Branches["transfer.nofunds"]++
				nontriv++
			default:
				sum.Branches["transfer.overflow"]++
				nontriv++
			}
			if okk && (err != nil || !canon(f) || !canon(t) || val(f).Cmp(wantF) != 0 || val(t).Cmp(wantT) != 0) {
				violation("transfer-not-exact", map[string]any{"op": "transfer", "a": a, "f": f0, "t": t0, "gotf": f, "gott": t, "err": errs(err)})
			}
			if !okk && err == nil {
				violation("transfer-bad-accepted", map[string]any{"op": "transfer", "a": a, "f": f0, "t": t0, "gotf": f, "gott": t, "err": errs(err)})
			}
		}
	}
	doNew := func(c, s uint64) {
		m := spice.New(c, s)
		fmt.Fprintf(w, "N %d %d | %d %d\n", c, s, m.Currency, m.SupplementaryCurrency)
		sum.Evaluations++
		if s < 2*e18 && c < max {
			want := new(big.Int).Add(new(big.Int).Mul(new(big.Int).SetUint64(c), new(big.Int).SetUint64(e18)), new(big.Int).SetUint64(s))
			if !canon(m) || val(m).Cmp(want) != 0 {
				violation("new-not-exact", map[string]any{"op": "new", "c": c, "s": s, "got": m})
			}
		}
	}

	// Supply: exhaustive over the full boundary product, both tiers.
	for _, mc := range full {
		for _, ms := range full {
			for _, ac := range full {
				for _, as := range full {
					doSupply(spice.Melange{Currency: mc, SupplementaryCurrency: ms}, spice.Melange{Currency: ac, SupplementaryCurrency: as})
				}
			}
		}
	}
	sum.Exhaustive["supply"] = fmt.Sprintf("%d^4 boundary product", len(full))
	for _, c := range full {
		for _, s := range full {
			doNew(c, s)
		}
	}
	// Transfer: boundary product; size by tier.
	tc, ts := curSmall, supSmall
	if tier == "thorough" {
		tc, ts = curMid, full
	}
	for _, ac := range tc {
		for _, as := range ts {
			for _, fc := range tc {
				for _, fs := range ts {
					for _, tcur := range tc {
						for i, tsup := range ts {
							doTransfer(spice.Melange{Currency: ac, SupplementaryCurrency: as}, spice.Melange{Currency: fc, SupplementaryCurrency: fs},
								spice.Melange{Currency: tcur, SupplementaryCurrency: tsup}, i%2 == 1)
						}
					}
				}
			}
		}
	}
	sum.Exhaustive["transfer"] = fmt.Sprintf("(%d cur x %d sup)^3 boundary product", len(tc), len(ts))
	// Random: mostly canonical, near-boundary perturbations, plus raw 64-bit.
	nr := 100000
	if tier == "thorough" {
		nr = 1500000
	}
	pick := func(canonical bool) spice.Melange {
		var c, s uint64
		switch rng.Intn(4) {
		case 0:
			c = full[rng.Intn(len(full))]
		case 1:
			c = rng.Uint64()
		case 2:
			c = uint64(rng.Intn(1000))
		default:
			c = max - uint64(rng.Intn(1000))
		}
		switch rng.Intn(4) {
		case 0:
			s = full[rng.Intn(len(full))]
		case 1:
			s = rng.Uint64()
		case 2:
			s = uint64(rng.Intn(1000))
		default:
			s = e18 - 1 - uint64(rng.Intn(1000))
		}
		if canonical {
			s %= e18
		}
		return spice.Melange{Currency: c, SupplementaryCurrency: s}
	}
	for i := 0; i < nr; i++ {
		canonical := rng.Intn(10) != 0
		if i%2 == 0 {
			doSupply(pick(canonical), pick(canonical))
		} else {
			doTransfer(pick(canonical), pick(canonical), pick(canonical), i%4 == 1)
		}
	}
	sum.DistinctNontriv = nontriv // boundary-product cases are distinct by construction; random ones may repeat (rare), see rule
	sum.Samples = []string{
		"S m=(2^64-1, 5e17) a=(0, 5e17) -> must be overflow, unchanged",
		"T a=(0,1) f=(1,0) t=(0, 1e18-1) -> borrow on from, carry on to",
	}
	if summaryPath != "" {
		b, _ := json.MarshalIndent(sum, "", " ")
		os.WriteFile(summaryPath, b, 0644)
	}
}
