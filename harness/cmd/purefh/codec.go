package main

import (
	"encoding/hex"
	"bytes"
	"encoding/json"
	"fmt"
	"hash/fnv"
	"math"
	"math/rand"
	"os"
	"strings"
	"time"
	"unicode/utf8"

	"github.com/bartossh/Computantis/src/accountant"
	"github.com/bartossh/Computantis/src/gossip"
	"github.com/bartossh/Computantis/src/protobufcompiled"
	"github.com/bartossh/Computantis/src/spice"
	"github.com/bartossh/Computantis/src/transaction"
	"github.com/bartossh/Computantis/src/transformers"
	"github.com/bartossh/Computantis/src/wallet"
	msgpackv2 "github.com/shamaton/msgpack/v2"
	"github.com/vmihailenco/msgpack"
	"google.golang.org/protobuf/encoding/protowire"
	"google.golang.org/protobuf/proto"
)

type codecSummary struct {
	Evaluations int               `json:"evaluations"`
	Nontrivial  int               `json:"distinct_nontrivial"`
	Kinds       map[string]int    `json:"kinds"`
	Violations  []json.RawMessage `json:"violations"`
	Samples     []string          `json:"samples"`
	Exhaustive  string            `json:"exhaustive"`
}

func fp(b []byte) uint64 { // fingerprint of a byte string the mapping only copies: length + fnv
	h := fnv.New64a()
	h.Write(b)
	return (h.Sum64() >> 20) ^ uint64(len(b))<<40 // keep it well inside Coq's comfortable range
}

func avtxCoq(v *accountant.Vertex, wireTimes bool, vt, tt uint64) string {
	ct, ctt := fmt.Sprint(v.CreatedAt.UnixNano()), fmt.Sprint(v.Transaction.CreatedAt.UnixNano())
	if wireTimes {
		ct, ctt = fmt.Sprint(vt), fmt.Sprint(tt)
	}
	z := func(s string) string {
		if strings.HasPrefix(s, "-") {
			return "(" + s + ")"
		}
		return s
	}
	return fmt.Sprintf("(AVtx %d%%N %s %d%%N %d%%N %d%%N %d%%N %d %s %d%%N %d%%N %d%%N %d%%N %d%%N %d%%N %d%%N %d %d)",
		fp([]byte(v.SignerPublicAddress)), z(ct), fp(v.Signature), fp(v.Hash[:]), fp(v.LeftParentHash[:]), fp(v.RightParentHash[:]), v.Weight,
		z(ctt), fp([]byte(v.Transaction.IssuerAddress)), fp([]byte(v.Transaction.ReceiverAddress)), fp([]byte(v.Transaction.Subject)),
		fp(v.Transaction.Data), fp(v.Transaction.IssuerSignature), fp(v.Transaction.ReceiverSignature), fp(v.Transaction.Hash[:]),
		v.Transaction.Spice.Currency, v.Transaction.Spice.SupplementaryCurrency)
}

func sameSigned(a, b *accountant.Vertex) string {
	switch {
	case a.SignerPublicAddress != b.SignerPublicAddress:
		return "signer_address"
	case a.CreatedAt.UnixNano() != b.CreatedAt.UnixNano():
		return "vertex.created_at"
	case !bytes.Equal(a.Signature, b.Signature):
		return "vertex.signature"
	case a.Hash != b.Hash:
		return "vertex.hash"
	case a.LeftParentHash != b.LeftParentHash || a.RightParentHash != b.RightParentHash:
		return "parents"
	case a.Weight != b.Weight:
		return "weight"
	}
	return sameSignedTrx(&a.Transaction, &b.Transaction)
}
func sameSignedTrx(a, b *transaction.Transaction) string {
	switch {
	case a.CreatedAt.UnixNano() != b.CreatedAt.UnixNano():
		return "trx.created_at"
	case a.IssuerAddress != b.IssuerAddress:
		return "trx.issuer"
	case a.ReceiverAddress != b.ReceiverAddress:
		return "trx.receiver"
	case a.Subject != b.Subject:
		return "trx.subject"
	case !bytes.Equal(a.Data, b.Data):
		return "trx.data"
	case !bytes.Equal(a.IssuerSignature, b.IssuerSignature):
		return "trx.issuer_signature"
	case !bytes.Equal(a.ReceiverSignature, b.ReceiverSignature):
		return "trx.receiver_signature"
	case a.Hash != b.Hash:
		return "trx.hash"
	case a.Spice != b.Spice:
		return "trx.spice"
	case !bytes.Equal(a.GetMessage(), b.GetMessage()):
		return "trx.message"
	}
	return ""
}

func runCodec(tier string, seed int64, summaryPath, outPath string) {
	rng := rand.New(rand.NewSource(seed))
	sum := codecSummary{Kinds: map[string]int{}}
	ver := wallet.NewVerifier()
	viol := func(kind string, d map[string]any) {
		d["kind"] = kind
		b, _ := json.Marshal(d)
		if len(sum.Violations) < 60 {
			sum.Violations = append(sum.Violations, b)
		}
	}
	lens := []int{0, 1, 31, 32, 33, 255, 256, 65535, 65536}
	ints := []uint64{0, 1, 127, 128, 255, 256, 65535, 65536, 1<<32 - 1, 1 << 32, 1<<63 - 1, 1 << 63, math.MaxUint64}
	secs := []int64{0, 1, 1<<32 - 1, 1 << 32, 1<<34 - 1, 1 << 34, -1, -(1 << 31), math.MinInt64 / 1000000000, math.MaxInt64/1000000000 - 1, time.Now().Unix()}
	nsecs := []int64{0, 1, 999999999}
	fill := func(n int, utf bool) []byte {
		if n >= 2048 { // large fields: a pattern the Coq side regenerates (segment G), so that no 64 kB literal has to be parsed
			g := genSpec{n: n, seed: uint64(rng.Intn(256)), mode: 0}
			if utf {
				g.mode = 1
			}
			g.b = make([]byte, n)
			for i := range g.b {
				u := uint64(i)
				if g.mode == 0 {
					g.b[i] = byte((g.seed + u*131 + (u/256)*7) % 256)
				} else {
					g.b[i] = byte(97 + (g.seed+u*7+u/256)%26)
				}
			}
			curGens = append(curGens, g)
			return g.b
		}
		b := make([]byte, n)
		for i := range b {
			if utf {
				b[i] = byte('a' + rng.Intn(26))
			} else {
				b[i] = byte(rng.Intn(256))
			}
		}
		return b
	}
	var protoCases, u64Cases, timeCases, mpCases, refusedCases []string
	w0, _ := wallet.New()
	w1, _ := wallet.New()
	ws, _ := wallet.New()
	nRandom := 60
	if tier == "thorough" {
		nRandom = 600
	}
	type cfg struct {
		subj, data, isig, rsig int
		cur, sup, weight       uint64
		vsec, tsec, nsec       int64
		utf                    bool
	}
	var cfgs []cfg
	// boundary product, one dimension at a time around a base point (full product is 9^4*13^3*11^2*3: sampled below)
	base := cfg{subj: 8, data: 0, isig: 64, rsig: 0, cur: 1, sup: 5, weight: 3, vsec: time.Now().Unix(), tsec: time.Now().Unix(), nsec: 1, utf: true}
	// a contract that moves no spice (data only, amount 0.0) and a pure zero amount: the all-zero sub-message is where "omitted" and
	// "zero" are easily confused
	{
		c := base
		c.data, c.cur, c.sup = 5, 0, 0
		cfgs = append(cfgs, c)
		c.rsig = 64
		cfgs = append(cfgs, c)
	}
	for _, l := range lens {
		c := base
		c.subj = l
		cfgs = append(cfgs, c)
		c = base
		c.data = l
		cfgs = append(cfgs, c)
		c = base
		c.isig = l
		cfgs = append(cfgs, c)
		c = base
		c.rsig = l
		cfgs = append(cfgs, c)
	}
	for _, x := range ints {
		c := base
		c.cur = x
		cfgs = append(cfgs, c)
		c = base
		c.sup = x
		cfgs = append(cfgs, c)
		c = base
		c.weight = x
		cfgs = append(cfgs, c)
	}
	for _, s := range secs {
		for _, ns := range nsecs {
			c := base
			c.vsec, c.nsec = s, ns
			cfgs = append(cfgs, c)
			c = base
			c.tsec, c.nsec = s, ns
			cfgs = append(cfgs, c)
		}
	}
	for i := 0; i < nRandom; i++ {
		cfgs = append(cfgs, cfg{subj: lens[rng.Intn(7)], data: lens[rng.Intn(len(lens))], isig: lens[rng.Intn(7)], rsig: lens[rng.Intn(7)],
			cur: ints[rng.Intn(len(ints))], sup: ints[rng.Intn(len(ints))], weight: ints[rng.Intn(len(ints))],
			vsec: secs[rng.Intn(len(secs))], tsec: secs[rng.Intn(len(secs))], nsec: nsecs[rng.Intn(3)], utf: rng.Intn(5) != 0})
	}
	// a genuinely signed vertex too: the verification result must survive
	realT, _ := transaction.New("real", spice.New(3, 4), []byte("d"), w1.Address(), &w0)
	realV, _ := accountant.NewVertex(realT, [32]byte{1}, [32]byte{2}, 9, &ws)
	var prevTrxEnc, prevVtxEnc []byte
	var prevTrx, prevDecoded transaction.Transaction
	var prevVtx accountant.Vertex
	for ci, c := range append([]cfg{{}}, cfgs...) {
		var v accountant.Vertex
		curGens = nil
		if ci == 0 {
			v = realV
		} else {
			inRange := func(s int64) bool { return s > math.MinInt64/1000000000 && s < math.MaxInt64/1000000000 }
			if !inRange(c.vsec) {
				c.vsec = math.MinInt64/1000000000 + 1
			}
			if !inRange(c.tsec) {
				c.tsec = math.MinInt64/1000000000 + 1
			}
			v = accountant.Vertex{SignerPublicAddress: string(fill(50, true)), CreatedAt: time.Unix(c.vsec, c.nsec), Signature: fill(64, false), Weight: c.weight,
				Transaction: transaction.Transaction{CreatedAt: time.Unix(c.tsec, c.nsec), IssuerAddress: string(fill(50, true)), ReceiverAddress: string(fill(51, true)),
					Subject: string(fill(c.subj, c.utf)), Data: fill(c.data, false), IssuerSignature: fill(c.isig, false), ReceiverSignature: fill(c.rsig, false),
					Spice: spice.Melange{Currency: c.cur, SupplementaryCurrency: c.sup}}}
			rng.Read(v.Hash[:])
			rng.Read(v.LeftParentHash[:])
			rng.Read(v.RightParentHash[:])
			rng.Read(v.Transaction.Hash[:])
			if c.data == 0 {
				v.Transaction.Data = nil
			}
		}
		// ---- protobuf: real mapping -> real Marshal -> real Unmarshal -> real mapping back
		pv := gossip.VerifMapVertexToProto(&v)
		raw, err := proto.Marshal(pv)
		pbErr := err
		sum.Evaluations++
		if err != nil {
			sum.Kinds["proto.marshal_error"]++
			if !utf8.ValidString(v.Transaction.Subject) {
				if h := hvCoq(&v); len(refusedCases) < 12 && len(h) < 40000 {
					refusedCases = append(refusedCases, h)
					sum.Kinds["protowire.marshal_refusal_compared"]++
				}
				viol("proto-nonutf8-rejected", map[string]any{"field": "subject", "len": len(v.Transaction.Subject), "err": err.Error()})
			} else {
				viol("proto-marshal-failed", map[string]any{"err": err.Error()})
			}
		} else {
			var back protobufcompiled.Vertex
			if err := proto.Unmarshal(raw, &back); err != nil {
				viol("proto-unmarshal-failed", map[string]any{"err": err.Error()})
			} else {
				var got accountant.Vertex
				mapPanic := ""
				func() {
					defer func() {
						if r := recover(); r != nil {
							mapPanic = fmt.Sprint(r)
						}
					}()
					got = gossip.VerifMapProtoToVertex(&back)
				}()
				if mapPanic != "" {
					viol("proto-mapping-panics", map[string]any{"case": ci, "panic": mapPanic, "what": "the wire form of a vertex this node produced cannot be mapped back (a peer would crash or refuse it)",
						"currency": v.Transaction.Spice.Currency, "supplementary": v.Transaction.Spice.SupplementaryCurrency, "data_len": len(v.Transaction.Data)})
					continue
				}
				sum.Kinds["proto.roundtrip"]++
				sum.Nontrivial++
				if f := sameSigned(&v, &got); f != "" {
					viol("proto-field-changed:"+f, map[string]any{"field": f, "case": ci})
				}
				if !bytes.Equal(v.VerifInitData(), got.VerifInitData()) {
					viol("proto-vertex-message-changed", map[string]any{"case": ci})
				}
				if (v.VerifVerify(ver) == nil) != (got.VerifVerify(ver) == nil) {
					viol("proto-verification-changed", map[string]any{"case": ci})
				}
				if len(protoCases) < 400 {
					protoCases = append(protoCases, fmt.Sprintf("(%s, %s, %s)", avtxCoq(&v, false, 0, 0), avtxCoq(&v, true, pv.CreatedAt, pv.Transaction.CreatedAt), avtxCoq(&got, false, 0, 0)))
				}
			}
		}
		// ---- transaction <-> protobuf through transformers
		if ptx, err := transformers.TrxToProtoTrx(v.Transaction); err == nil {
			if raw, err := proto.Marshal(ptx); err == nil {
				var back protobufcompiled.Transaction
				proto.Unmarshal(raw, &back)
				got, err := transformers.ProtoTrxToTrx(&back)
				sum.Evaluations++
				sum.Kinds["prototrx.roundtrip"]++
				if err != nil {
					if v.Transaction.CreatedAt.UnixNano() == 0 {
						viol("prototrx-epoch-timestamp-rejected", map[string]any{"err": err.Error(), "created_at_unixnano": 0})
					} else {
						viol("prototrx-back-failed", map[string]any{"err": err.Error()})
					}
				} else if f := sameSignedTrx(&v.Transaction, &got); f != "" {
					viol("prototrx-field-changed:"+f, map[string]any{"field": f, "case": ci})
				}
			}
		} else {
			sum.Kinds["prototrx.guard_rejected"]++
		}
		// ---- msgpack: vmihailenco encode, shamaton decode (storage and cache codecs)
		sum.Evaluations++
		if enc, err := v.VerifEncode(); err != nil {
			viol("msgpack-vertex-encode-failed", map[string]any{"err": err.Error()})
		} else if got, err := accountant.VerifDecodeVertex(enc); err != nil {
			viol("msgpack-vertex-decode-failed", map[string]any{"err": err.Error(), "case": ci})
		} else {
			sum.Kinds["msgpack.vertex"]++
			sum.Nontrivial++
			if tenc, terr := v.Transaction.Encode(); terr == nil {
				// the quick tier compares a subset byte by byte (Coq reads literals at ~10 kB/s): every boundary sweep case, 20 random ones,
				// and of the 64 kB fields the str16/str32 and bin16/bin32 boundaries of subject and data; the thorough tier compares all
				sweep := ci <= len(cfgs)-nRandom
				take := tier == "thorough" || (len(curGens) == 0 && (sweep || ci%3 == 0)) || (len(curGens) > 0 && sweep && c.isig < 2048 && c.rsig < 2048)
				if !take {
					sum.Kinds["msgpack.byte_exact_left_to_thorough"]++
				} else if c := mvtxCoq(&v, enc, tenc, pbWire(pv, raw, pbErr, &sum, viol, ci)); len(c) < 40000 {
					mpCases = append(mpCases, c)
					sum.Kinds["msgpack.byte_exact_cases"]++
					if len(curGens) > 0 {
						sum.Kinds["msgpack.byte_exact_cases_with_64k_field"]++
					}
				} else {
					sum.Kinds["msgpack.byte_exact_skipped_unsegmentable"]++
				}
			}
			if f := sameSigned(&v, &got); f != "" {
				viol("msgpack-vertex-field-changed:"+f, map[string]any{"field": f, "case": ci})
			}
			if (v.VerifVerify(ver) == nil) != (got.VerifVerify(ver) == nil) {
				viol("msgpack-verification-changed", map[string]any{"case": ci})
			}
		}
		if enc, err := v.Transaction.Encode(); err != nil {
			viol("msgpack-trx-encode-failed", map[string]any{"err": err.Error()})
		} else if got, err := transaction.Decode(enc); err != nil {
			viol("msgpack-trx-decode-failed", map[string]any{"err": err.Error(), "case": ci})
		} else {
			sum.Kinds["msgpack.trx"]++
			if f := sameSignedTrx(&v.Transaction, &got); f != "" {
				viol("msgpack-trx-field-changed:"+f, map[string]any{"field": f, "case": ci})
			}
		}
		// the encoded form must stay what it was when later values are encoded (it is kept in caches and stores) and a value
		// decoded earlier must not change either
		if prevTrxEnc != nil {
			if got, err := safeTrxDecode(prevTrxEnc); err != nil {
				viol("msgpack-encoded-form-unstable", map[string]any{"case": ci - 1, "err": err.Error()})
			} else if f := sameSignedTrx(&prevTrx, &got); f != "" {
				viol("msgpack-encoded-form-unstable", map[string]any{"case": ci - 1, "field": f, "what": "bytes returned by an earlier Encode decode differently after later Encode calls"})
			}
			if f := sameSignedTrx(&prevTrx, &prevDecoded); f != "" {
				viol("msgpack-decoded-value-unstable", map[string]any{"case": ci - 1, "field": f, "what": "a value decoded earlier changed after later Encode calls"})
			}
			if prevVtxEnc != nil {
				if got, err := safeVtxDecode(prevVtxEnc); err != nil || sameSigned(&prevVtx, &got) != "" {
					viol("msgpack-encoded-form-unstable", map[string]any{"case": ci - 1, "what": "vertex bytes of an earlier encode decode differently now", "err": fmt.Sprint(err)})
				}
			}
			sum.Kinds["msgpack.stability_checked"]++
		}
		if enc, err := v.VerifEncode(); err == nil {
			prevVtxEnc, prevVtx = enc, v
		}
		if enc, err := v.Transaction.Encode(); err == nil {
			if got, err := transaction.Decode(enc); err == nil {
				prevTrxEnc, prevTrx, prevDecoded = enc, v.Transaction, got
			}
		}
		m := v.Transaction.Spice
		if enc, err := m.Encode(); err == nil {
			if got, err := spice.Decode(enc); err != nil || got != m {
				viol("msgpack-melange-changed", map[string]any{"m": m, "got": got, "err": fmt.Sprint(err)})
			}
			sum.Kinds["msgpack.melange"]++
		}
		bal := accountant.NewBalance(v.SignerPublicAddress, m)
		bal.AccountedAt = v.CreatedAt
		if enc, err := bal.VerifEncode(); err == nil {
			if got, err := accountant.VerifDecodeBalance(enc); err != nil || got.Spice != m || got.WalletPublicAddress != bal.WalletPublicAddress || got.AccountedAt.UnixNano() != bal.AccountedAt.UnixNano() {
				viol("msgpack-balance-changed", map[string]any{"err": fmt.Sprint(err), "case": ci})
			}
			sum.Kinds["msgpack.balance"]++
		}
	}
	// ---- msgpack primitives, byte-exact against the Coq model
	for _, x := range append(append([]uint64{}, ints...), rng.Uint64(), rng.Uint64()>>20) {
		type one struct {
			X uint64 `msgpack:"x"`
		}
		enc, _ := msgpack.Marshal(one{x})
		// fixmap(1) fixstr(1) 'x' then the value
		val := enc[3:]
		var back one
		err := msgpackv2.Unmarshal(enc, &back)
		sum.Evaluations++
		sum.Kinds["msgpack.u64"]++
		if err != nil || back.X != x {
			viol("msgpack-u64-changed", map[string]any{"x": x, "got": back.X, "err": fmt.Sprint(err)})
		}
		u64Cases = append(u64Cases, fmt.Sprintf("(%d, %s)", x, coqBytes(val)))
	}
	for _, s := range secs {
		for _, ns := range nsecs {
			tm := time.Unix(s, ns)
			type one struct {
				T time.Time `msgpack:"t"`
			}
			enc, _ := msgpack.Marshal(one{tm})
			val := enc[3:]
			var back one
			err := msgpackv2.Unmarshal(enc, &back)
			sum.Evaluations++
			sum.Kinds["msgpack.time"]++
			if err != nil || !back.T.Equal(tm) {
				viol("msgpack-time-changed", map[string]any{"sec": s, "nsec": ns, "got": back.T.String(), "err": fmt.Sprint(err)})
			}
			z := fmt.Sprint(s)
			if s < 0 {
				z = "(" + z + ")"
			}
			timeCases = append(timeCases, fmt.Sprintf("(%s, %d, %s)", z, ns, coqBytes(val)))
		}
	}
	sum.Samples = []string{"subject of 65536 bytes", "weight 2^64-1", "created_at = time.Unix(2^34, 999999999)", "non-UTF-8 subject (protobuf string field)"}
	sum.Exhaustive = "each boundary value of each dimension around a base point + seeded random combinations; msgpack primitives on every boundary integer and timestamp"
	var b bytes.Buffer
	b.WriteString("From Coq Require Import List Arith NArith ZArith Bool.\nFrom Verif Require Import WalletFile Msg Codec Msgpack CheckCodec.\nImport ListNotations.\nLocal Open Scope Z_scope.\n")
	b.WriteString(`Definition aeq (a b : avtx N) : bool :=
  N.eqb (a_signer a) (a_signer b) && Z.eqb (a_created a) (a_created b) && N.eqb (a_sig a) (a_sig b) && N.eqb (a_hash a) (a_hash b) &&
  N.eqb (a_left a) (a_left b) && N.eqb (a_right a) (a_right b) && Z.eqb (a_weight a) (a_weight b) && Z.eqb (at_created a) (at_created b) &&
  N.eqb (at_issuer a) (at_issuer b) && N.eqb (at_receiver a) (at_receiver b) && N.eqb (at_subject a) (at_subject b) && N.eqb (at_data a) (at_data b) &&
  N.eqb (at_isig a) (at_isig b) && N.eqb (at_rsig a) (at_rsig b) && N.eqb (at_hash a) (at_hash b) && Z.eqb (at_cur a) (at_cur b) && Z.eqb (at_sup a) (at_sup b).
`)
	b.WriteString("Definition proto_cases : list (avtx N * avtx N * avtx N) := [\n" + strings.Join(protoCases, ";\n") + "].\n")
	b.WriteString("Definition u64_cases : list (Z * bytes) := [\n" + strings.Join(u64Cases, ";\n") + "].\n")
	b.WriteString("Definition time_cases : list (Z * Z * bytes) := [\n" + strings.Join(timeCases, ";\n") + "].\n")
	b.WriteString("Definition bad_proto := map fst (filter (fun p => match snd p with (v, w, g) => negb (aeq (to_proto v) w && aeq (of_proto w) g) end) (combine (seq 0 (length proto_cases)) proto_cases)).\n")
	b.WriteString("Definition bad_u64 := map fst (filter (fun p => match snd p with (x, e) => negb (bytes_eqb (enc_u64 x) e && match dec_u64 e with Some (y, []) => Z.eqb x y | _ => false end) end) (combine (seq 1000 (length u64_cases)) u64_cases)).\n")
	b.WriteString("Definition bad_time := map fst (filter (fun p => match snd p with (s, n, e) => negb (bytes_eqb (enc_time s n) e && match dec_time e with Some (s', n') => Z.eqb s s' && Z.eqb n n' | None => false end) end) (combine (seq 2000 (length time_cases)) time_cases)).\n")
	b.WriteString("Import Coq.Strings.String.\nDefinition mp_cases : list mpcase := [\n" + strings.Join(mpCases, ";\n") + "].\n")
	b.WriteString("Definition refused_cases : list mvtx := [\n" + strings.Join(refusedCases, ";\n") + "].\n")
	b.WriteString("Definition bad := Eval vm_compute in (app (app (app (app bad_proto bad_u64) bad_time) (bad_msgpack 3000 mp_cases)) (bad_refused 5000 refused_cases)).\nPrint bad.\n")
	os.WriteFile(outPath, b.Bytes(), 0644)
	js, _ := json.MarshalIndent(sum, "", " ")
	os.WriteFile(summaryPath, js, 0644)
}

// the decoders of bytes that the code under test may have overwritten: a panic inside the library is a decode failure
func safeTrxDecode(b []byte) (t transaction.Transaction, err error) {
	defer func() {
		if r := recover(); r != nil {
			err = fmt.Errorf("decoder panics: %v", r)
		}
	}()
	return transaction.Decode(b)
}

func safeVtxDecode(b []byte) (v accountant.Vertex, err error) {
	defer func() {
		if r := recover(); r != nil {
			err = fmt.Errorf("decoder panics: %v", r)
		}
	}()
	return accountant.VerifDecodeVertex(b)
}

type genSpec struct {
	n    int
	seed uint64
	mode int
	b    []byte
}

var curGens []genSpec

// coqSegs: a byte string as segments - literal hex and generated runs (the large pattern fields of this case)
func coqSegs(b []byte) string {
	var parts []string
	rest := b
	for len(rest) > 0 {
		best, which := -1, -1
		for gi, g := range curGens {
			if idx := bytes.Index(rest, g.b); idx >= 0 && (best < 0 || idx < best) {
				best, which = idx, gi
			}
		}
		if best < 0 {
			parts = append(parts, "L \""+hex.EncodeToString(rest)+"\"")
			break
		}
		if best > 0 {
			parts = append(parts, "L \""+hex.EncodeToString(rest[:best])+"\"")
		}
		g := curGens[which]
		parts = append(parts, fmt.Sprintf("G %d %d %d", g.n, g.seed, g.mode))
		rest = rest[best+len(g.b):]
	}
	return "[" + strings.Join(parts, "; ") + "]"
}

func coqOSegs(b []byte) string {
	if b == nil {
		return "None"
	}
	return "(SomeS " + coqSegs(b) + ")"
}

func coqZ(x int64) string {
	if x < 0 {
		return fmt.Sprintf("(%d)%%Z", x)
	}
	return fmt.Sprintf("%d%%Z", x)
}

// pbWire: the protobuf wire bytes of the mapped vertex (proto.Marshal), the same records in reverse order followed by an unknown
// field (what proto.Unmarshal must read as the same message), and for small messages the verdict of proto.Unmarshal on every proper prefix
type pbw struct {
	raw, alt []byte
	mask     string
	muts     []string
	wrap     string
}

// pbEnvelope: the two gossip envelopes around this vertex / its transaction with a list of gossiper entries (0-3, one with an empty digest)
func pbEnvelope(pv *protobufcompiled.Vertex, rng *rand.Rand, sum *codecSummary) string {
	var gl []*protobufcompiled.Gossiper
	var rows []string
	n := 1 + rng.Intn(3)
	if rng.Intn(6) == 0 {
		n = 0
	}
	for k := n; k > 0; k-- {
		addr := make([]byte, 40+rng.Intn(12))
		for i := range addr {
			addr[i] = byte('a' + rng.Intn(26))
		}
		dig := make([]byte, 32)
		rng.Read(dig)
		if rng.Intn(4) == 0 {
			dig = nil
		}
		sg := make([]byte, 64)
		rng.Read(sg)
		gl = append(gl, &protobufcompiled.Gossiper{Address: string(addr), Digest: dig, Signature: sg})
		rows = append(rows, fmt.Sprintf("GS %s %s %s", coqSegs(addr), coqSegs(dig), coqSegs(sg)))
	}
	vm, err1 := proto.Marshal(&protobufcompiled.VrxMsgGossip{Vertex: pv, Gossipers: gl})
	tm, err2 := proto.Marshal(&protobufcompiled.TrxMsgGossip{Trx: pv.Transaction, Gossipers: gl})
	if err1 != nil || err2 != nil {
		return ""
	}
	sum.Kinds["protowire.envelopes_byte_exact"] += 2
	sum.Kinds[fmt.Sprintf("protowire.envelope_gossipers_%d", len(gl))]++
	return fmt.Sprintf("GW [%s] %s %s", strings.Join(rows, "; "), coqSegs(vm), coqSegs(tm))
}

// hasGroup: does a message the library accepted carry a start-group record at a level the library parses (top level, Transaction = field 4,
// Spice = field 9 of it)? Groups are the one part of the wire grammar the model does not cover.
func hasGroup(b []byte, level int) bool {
	for len(b) > 0 {
		num, typ, n := protowire.ConsumeTag(b)
		if n < 0 {
			return false
		}
		if typ == protowire.StartGroupType {
			return true
		}
		m := protowire.ConsumeFieldValue(num, typ, b[n:])
		if m < 0 {
			return false
		}
		if typ == protowire.BytesType && ((level == 0 && num == 4) || (level == 1 && num == 9)) {
			if body, k := protowire.ConsumeBytes(b[n:]); k >= 0 && hasGroup(body, level+1) {
				return true
			}
		}
		b = b[n+m:]
	}
	return false
}

func fnv1a(b []byte) uint64 {
	h := fnv.New64a()
	h.Write(b)
	return h.Sum64()
}

// pbMutants: edits of the real bytes (bit flips, a byte of a string made 0xff, inserted fixed32/fixed64 records, a duplicated record, a
// changed length) with what proto.Unmarshal makes of each: refused, or the canonical bytes of the message it read (unknown fields dropped)
func pbMutants(raw []byte, recs [][]byte, rng *rand.Rand, sum *codecSummary) []string {
	var out []string
	bounds := []int{0}
	for _, r := range recs {
		bounds = append(bounds, bounds[len(bounds)-1]+len(r))
	}
	for k := 0; k < 48; k++ {
		pos, del := 0, 0
		var ins []byte
		kind := ""
		switch k % 6 {
		case 0:
			pos, del = rng.Intn(len(raw)), 1
			ins = []byte{raw[pos] ^ byte(1<<uint(rng.Intn(8)))}
			kind = "bit_flip"
		case 1: // the head of a record: tag, length, first bytes of an embedded message
			i := rng.Intn(len(recs))
			h := len(recs[i])
			if h > 8 {
				h = 8
			}
			pos, del = bounds[i]+rng.Intn(h), 1
			ins = []byte{raw[pos] ^ byte(1<<uint(rng.Intn(8)))}
			kind = "bit_flip_record_head"
		case 2:
			pos, del = rng.Intn(len(raw)), 1
			ins = []byte{0xff}
			kind = "byte_ff"
		case 3:
			pos = bounds[rng.Intn(len(bounds))]
			num := protowire.Number(1 + rng.Intn(12))
			if rng.Intn(2) == 0 {
				ins = protowire.AppendFixed64(protowire.AppendTag(nil, num, protowire.Fixed64Type), rng.Uint64())
			} else {
				ins = protowire.AppendFixed32(protowire.AppendTag(nil, num, protowire.Fixed32Type), rng.Uint32())
			}
			kind = "fixed_record_inserted"
		case 4:
			i := rng.Intn(len(recs))
			pos = bounds[rng.Intn(len(bounds))]
			ins = recs[i]
			kind = "record_duplicated"
		case 5:
			i := rng.Intn(len(recs))
			h := len(recs[i])
			if h > 6 {
				h = 6
			}
			pos, del = bounds[i]+rng.Intn(h), 1
			ins = []byte{raw[pos] + byte(1+rng.Intn(3))}
			kind = "byte_incremented"
		}
		mut := append(append(append([]byte{}, raw[:pos]...), ins...), raw[pos+del:]...)
		var p protobufcompiled.Vertex
		ex := "NOEX"
		if err := proto.Unmarshal(mut, &p); err == nil {
			if hasGroup(mut, 0) {
				sum.Kinds["protowire.mutant_skipped_group"]++
				continue
			}
			p.ProtoReflect().SetUnknown(nil)
			if p.Transaction != nil {
				p.Transaction.ProtoReflect().SetUnknown(nil)
				if p.Transaction.Spice != nil {
					p.Transaction.Spice.ProtoReflect().SetUnknown(nil)
				}
			}
			canon, err := proto.Marshal(&p)
			if err != nil {
				continue
			}
			ex = fmt.Sprintf("(EX %d %d)", len(canon), fnv1a(canon))
			sum.Kinds["protowire.mutant_accepted."+kind]++
		} else {
			sum.Kinds["protowire.mutant_refused."+kind]++
		}
		out = append(out, fmt.Sprintf("MU %d %d \"%s\" %s", pos, del, hex.EncodeToString(ins), ex))
	}
	return out
}

func pbWire(pv *protobufcompiled.Vertex, raw []byte, merr error, sum *codecSummary, viol func(string, map[string]any), ci int) *pbw {
	if merr != nil || raw == nil {
		return nil
	}
	w := &pbw{raw: raw}
	var recs [][]byte
	for rest := raw; len(rest) > 0; {
		_, _, n := protowire.ConsumeField(rest)
		if n < 0 {
			viol("protowire-own-output-not-parsable", map[string]any{"case": ci})
			return nil
		}
		recs = append(recs, rest[:n])
		rest = rest[n:]
	}
	for i := len(recs) - 1; i >= 0; i-- {
		w.alt = append(w.alt, recs[i]...)
	}
	w.alt = protowire.AppendTag(w.alt, 15, protowire.VarintType)
	w.alt = protowire.AppendVarint(w.alt, 7)
	var back protobufcompiled.Vertex
	if err := proto.Unmarshal(w.alt, &back); err != nil {
		viol("protowire-reordered-records-refused", map[string]any{"case": ci, "err": err.Error()})
		return nil
	}
	back.ProtoReflect().SetUnknown(nil)
	if again, err := proto.Marshal(&back); err != nil || !bytes.Equal(again, raw) {
		viol("protowire-reordered-records-read-differently", map[string]any{"case": ci})
		return nil
	}
	sum.Kinds["protowire.byte_exact_cases"]++
	sum.Kinds["protowire.reordered_plus_unknown_field"]++
	if len(raw) <= 700 && sum.Kinds["protowire.prefix_swept_cases"] < 6 {
		var m strings.Builder
		for i := 0; i < len(raw); i++ {
			var p protobufcompiled.Vertex
			if proto.Unmarshal(raw[:i], &p) == nil {
				m.WriteByte('1')
				sum.Kinds["protowire.prefixes_accepted"]++
			} else {
				m.WriteByte('0')
				sum.Kinds["protowire.prefixes_refused"]++
			}
		}
		w.mask = m.String()
		sum.Kinds["protowire.prefix_swept_cases"]++
		w.muts = pbMutants(raw, recs, rand.New(rand.NewSource(int64(ci)*7919+1)), sum)
		w.wrap = pbEnvelope(pv, rand.New(rand.NewSource(int64(ci)*104729+3)), sum)
	}
	return w
}

// mvtxCoq: a vertex as model fields next to the bytes the real encoders produced
func mvtxCoq(v *accountant.Vertex, venc, tenc []byte, w *pbw) string {
	head, tail := "MC", ""
	if w != nil {
		head = "MCP"
		tail = fmt.Sprintf(" %s %s \"%s\" [%s] [%s]", coqSegs(w.raw), coqSegs(w.alt), w.mask, strings.Join(w.muts, "; "), w.wrap)
	}
	return fmt.Sprintf("(%s %s %s %s%s)", head, hvCoq(v), coqSegs(venc), coqSegs(tenc), tail)
}

func hvCoq(v *accountant.Vertex) string {
	t := &v.Transaction
	return fmt.Sprintf("(HV %s %s %s %s %s %s %s %s %s %s %s %s %s %d%%Z %d%%Z %s %s %s %d%%Z)",
		coqSegs([]byte(v.SignerPublicAddress)), coqZ(v.CreatedAt.Unix()), coqZ(int64(v.CreatedAt.Nanosecond())), coqOSegs(v.Signature),
		coqZ(t.CreatedAt.Unix()), coqZ(int64(t.CreatedAt.Nanosecond())), coqSegs([]byte(t.IssuerAddress)), coqSegs([]byte(t.ReceiverAddress)), coqSegs([]byte(t.Subject)),
		coqOSegs(t.Data), coqOSegs(t.IssuerSignature), coqOSegs(t.ReceiverSignature), coqSegs(t.Hash[:]), t.Spice.Currency, t.Spice.SupplementaryCurrency,
		coqSegs(v.Hash[:]), coqSegs(v.LeftParentHash[:]), coqSegs(v.RightParentHash[:]), v.Weight)
}
