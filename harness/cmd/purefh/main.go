// purefh: harness for the pure-function properties (C05 spice, later C04/C19/C20).
// Usage: purefh <mode> -tier quick|thorough -seed N -summary file.json   (cases go to stdout)
package main

import (
	"flag"
	"fmt"
	"os"
)

func main() {
	if len(os.Args) < 2 {
		fmt.Fprintln(os.Stderr, "usage: purefh <mode> [flags]")
		os.Exit(2)
	}
	mode := os.Args[1]
	fs := flag.NewFlagSet(mode, flag.ExitOnError)
	tier := fs.String("tier", "quick", "quick|thorough")
	seed := fs.Int64("seed", 1, "seed")
	summary := fs.String("summary", "", "summary json path")
	out := fs.String("out", "", "cases output path (default stdout)")
	fs.Parse(os.Args[2:])
	switch mode {
	case "spice":
		runSpice(*tier, *seed, *summary, *out)
	case "wallet":
		runWallet(*tier, *seed, *summary, *out)
	case "tamper":
		runTamper(*tier, *seed, *summary, *out)
	case "codec":
		runCodec(*tier, *seed, *summary, *out)
	case "cache":
		runCache(*tier, *seed, *summary, *out)
	default:
		fmt.Fprintln(os.Stderr, "unknown mode", mode)
		os.Exit(2)
	}
}
