package main

import (
	"bytes"
	"encoding/json"
	"errors"
	"fmt"
	"math/rand"
	"os"
	"sort"
	"strings"
	"sync"
	"time"

	"github.com/bartossh/Computantis/src/cache"
	"github.com/bartossh/Computantis/src/spice"
	"github.com/bartossh/Computantis/src/transaction"
)

type cacheSummary struct {
	Evaluations int               `json:"evaluations"`
	Nontrivial  int               `json:"distinct_nontrivial"`
	Kinds       map[string]int    `json:"kinds"`
	Violations  []json.RawMessage `json:"violations"`
	Samples     []string          `json:"samples"`
	Exhaustive  string            `json:"exhaustive"`
}

func runCache(tier string, seed int64, summaryPath, outPath string) {
	rng := rand.New(rand.NewSource(seed))
	sum := cacheSummary{Kinds: map[string]int{}}
	viol := func(kind string, d map[string]any) {
		d["kind"] = kind
		b, _ := json.Marshal(d)
		if len(sum.Violations) < 40 {
			sum.Violations = append(sum.Violations, b)
		}
	}
	nSeq, nOps, nConc := 40, 60, 30
	if tier == "thorough" {
		nSeq, nOps, nConc = 400, 120, 300
	}
	addrs := []string{"addr-A-0000000000000000000000000000000000000000000000", "addr-B-1111111111111111111111111111111111111111111111",
		"addr-C-2222222222222222222222222222222222222222222222", "addr-D-3333333333333333333333333333333333333333333333"}
	aid := func(a string) int {
		for i, x := range addrs {
			if x == a {
				return i + 1
			}
		}
		return 99
	}
	cls := func(err error) string {
		switch {
		case err == nil:
			return "COk"
		case errors.Is(err, cache.ErrTrxAlreadyExists):
			return "CExists"
		case errors.Is(err, cache.ErrTransactionNotFound):
			return "CNotFound"
		case errors.Is(err, cache.ErrUnauthorized):
			return "CUnauthorized"
		}
		return "COther:" + err.Error()
	}
	var traces []string
	seen := map[string]bool{}
	for ti := 0; ti < nSeq; ti++ {
		h, err := cache.New(512, 16)
		if err != nil {
			panic(err)
		}
		var steps, human []string
		type rec struct {
			t  transaction.Transaction
			id int
		}
		var saved []rec
		ref := map[int]rec{} // reference: saved and not removed
		next := 1
		for k := 0; k < nOps; k++ {
			switch x := rng.Intn(10); {
			case x < 4: // save (sometimes issuer == receiver, sometimes a repeat)
				var r rec
				if len(saved) > 0 && rng.Intn(6) == 0 {
					r = saved[rng.Intn(len(saved))]
				} else {
					i := rng.Intn(len(addrs))
					j := rng.Intn(len(addrs))
					if rng.Intn(6) == 0 {
						j = i
					}
					r = rec{id: next, t: transaction.Transaction{CreatedAt: time.Now(), IssuerAddress: addrs[i], ReceiverAddress: addrs[j], Subject: "s",
						Data: []byte{byte(next)}, Spice: spice.Melange{Currency: uint64(next)}}}
					r.t.Hash[0], r.t.Hash[1], r.t.Hash[31] = byte(next), byte(next>>8), 7
					next++
					saved = append(saved, r)
				}
				e := h.SaveAwaitedTransaction(&r.t)
				c := cls(e)
				if c == "COk" {
					ref[r.id] = r
				}
				steps = append(steps, fmt.Sprintf("BSave (ATrx %d %d %d) %s", r.id, aid(r.t.IssuerAddress), aid(r.t.ReceiverAddress), c))
				human = append(human, fmt.Sprintf("save %d %d->%d = %s", r.id, aid(r.t.IssuerAddress), aid(r.t.ReceiverAddress), c))
				sum.Kinds["save."+c]++
			case x < 7: // remove by receiver, by somebody else, unknown hash
				if len(saved) == 0 {
					continue
				}
				r := saved[rng.Intn(len(saved))]
				who := r.t.ReceiverAddress
				if rng.Intn(3) == 0 {
					who = addrs[rng.Intn(len(addrs))]
				}
				hash := r.t.Hash
				id := r.id
				if rng.Intn(8) == 0 {
					hash[5] ^= 0x55
					id = 1000 + id
				}
				_, e := h.RemoveAwaitedTransaction(hash, who)
				c := cls(e)
				if c == "COk" {
					delete(ref, r.id)
				}
				steps = append(steps, fmt.Sprintf("BRemove %d %d %s", id, aid(who), c))
				human = append(human, fmt.Sprintf("remove %d by %d = %s", id, aid(who), c))
				sum.Kinds["remove."+c]++
			default:
			}
			// after every operation: the listing of every address against the reference (the property itself)
			for _, a := range addrs {
				trxs, e := h.ReadTransactions(a)
				var got, want []int
				for _, t := range trxs {
					got = append(got, int(t.Hash[0])|int(t.Hash[1])<<8)
				}
				for id, r := range ref {
					if r.t.IssuerAddress == a || r.t.ReceiverAddress == a {
						want = append(want, id)
					}
				}
				sort.Ints(got)
				sort.Ints(want)
				sum.Evaluations++
				if fmt.Sprint(got) != fmt.Sprint(want) {
					viol("listing-differs", map[string]any{"address": aid(a), "listed": got, "saved_and_not_removed": want, "err": fmt.Sprint(e), "history": human})
				}
				l := make([]string, len(got))
				for i, g := range got {
					l[i] = fmt.Sprint(g)
				}
				steps = append(steps, fmt.Sprintf("BRead %d [%s]", aid(a), strings.Join(l, ";")))
			}
		}
		h.Close()
		key := strings.Join(human, "|")
		if !seen[key] && len(ref) > 0 {
			seen[key] = true
			sum.Nontrivial++
		}
		traces = append(traces, "["+strings.Join(steps, ";\n ")+"]")
		if ti == 0 {
			sum.Samples = append(sum.Samples, strings.Join(human[:min(12, len(human))], "; "))
		}
	}
	// concurrent rounds: many saves / removes / reads touching the same receiver (failing-input search)
	for round := 0; round < nConc; round++ {
		h, _ := cache.New(512, 16)
		const n = 16
		var wg sync.WaitGroup
		ts := make([]transaction.Transaction, n)
		for i := range ts {
			ts[i] = transaction.Transaction{CreatedAt: time.Now(), IssuerAddress: addrs[i%3], ReceiverAddress: addrs[3], Subject: "c", Data: []byte{1}, Spice: spice.Melange{Currency: 1}}
			ts[i].Hash[0], ts[i].Hash[2] = byte(i+1), byte(round)
		}
		for i := range ts {
			wg.Add(1)
			go func(i int) {
				defer wg.Done()
				h.SaveAwaitedTransaction(&ts[i])
				if i%4 == 0 {
					h.ReadTransactions(addrs[3])
				}
			}(i)
		}
		wg.Wait()
		// half of them removed concurrently
		for i := 0; i < n; i += 2 {
			wg.Add(1)
			go func(i int) {
				defer wg.Done()
				h.RemoveAwaitedTransaction(ts[i].Hash, addrs[3])
			}(i)
		}
		wg.Wait()
		trxs, _ := h.ReadTransactions(addrs[3])
		var got []int
		for _, t := range trxs {
			got = append(got, int(t.Hash[0]))
		}
		sort.Ints(got)
		var want []int
		for i := 1; i < n; i += 2 {
			want = append(want, i+1)
		}
		sum.Evaluations++
		sum.Kinds["concurrent.round"]++
		if fmt.Sprint(got) != fmt.Sprint(want) {
			viol("concurrent-lost-or-invented-entry", map[string]any{"round": round, "listed": got, "expected": want})
		}
		h.Close()
	}
	sum.Exhaustive = "sequential part: seeded op sequences; concurrent part: 16 goroutines per round on one receiver (search, not proof)"
	var b bytes.Buffer
	b.WriteString("From Coq Require Import List Arith NArith Bool.\nFrom Verif Require Import Cache CheckCache.\nImport ListNotations.\nLocal Open Scope N_scope.\n")
	b.WriteString("Definition traces : list (list cobs) := [\n" + strings.Join(traces, ";\n") + "].\n")
	b.WriteString("Definition bad := Eval vm_compute in cmismatches traces.\nPrint bad.\n")
	os.WriteFile(outPath, b.Bytes(), 0644)
	js, _ := json.MarshalIndent(sum, "", " ")
	os.WriteFile(summaryPath, js, 0644)
}
