package main

import (
	"bytes"
	"encoding/json"
	"errors"
	"fmt"
	"math/rand"
	"os"
	"sort"
	"strings"
	"sync"
	"sync/atomic"
	"time"

	"github.com/bartossh/Computantis/src/cache"
	"github.com/bartossh/Computantis/src/spice"
	"github.com/bartossh/Computantis/src/transaction"
)

type cacheSummary struct {
	Evaluations int               `json:"evaluations"`
	Nontrivial  int               `json:"distinct_nontrivial"`
	Kinds       map[string]int    `json:"kinds"`
	Violations  []json.RawMessage `json:"violations"`
	Samples     []string          `json:"samples"`
	Exhaustive  string            `json:"exhaustive"`
}

func runCache(tier string, seed int64, summaryPath, outPath string) {
	rng := rand.New(rand.NewSource(seed))
	sum := cacheSummary{Kinds: map[string]int{}}
	viol := func(kind string, d map[string]any) {
		d["kind"] = kind
		b, _ := json.Marshal(d)
		if len(sum.Violations) < 40 {
			sum.Violations = append(sum.Violations, b)
		}
	}
	nSeq, nOps, nConc := 40, 60, 30
	if tier == "thorough" {
		nSeq, nOps, nConc = 400, 120, 300
	}
	addrs := []string{"addr-A-0000000000000000000000000000000000000000000000", "addr-B-1111111111111111111111111111111111111111111111",
		"addr-C-2222222222222222222222222222222222222222222222", "addr-D-3333333333333333333333333333333333333333333333"}
	aid := func(a string) int {
		for i, x := range addrs {
			if x == a {
				return i + 1
			}
		}
		return 99
	}
	cls := func(err error) string {
		switch {
		case err == nil:
			return "COk"
		case errors.Is(err, cache.ErrTrxAlreadyExists):
			return "CExists"
		case errors.Is(err, cache.ErrTransactionNotFound):
			return "CNotFound"
		case errors.Is(err, cache.ErrUnauthorized):
			return "CUnauthorized"
		}
		return "COther:" + err.Error()
	}
	var traces []string
	seen := map[string]bool{}
	for ti := 0; ti < nSeq; ti++ {
		h, err := cache.New(512, 16)
		if err != nil {
			panic(err)
		}
		var steps, human []string
		type rec struct {
			t  transaction.Transaction
			id int
		}
		var saved []rec
		ref := map[int]rec{} // reference: saved and not removed
		next := 1
		for k := 0; k < nOps; k++ {
			switch x := rng.Intn(10); {
			case x < 4: // save (sometimes issuer == receiver, sometimes a repeat)
				var r rec
				if len(saved) > 0 && rng.Intn(6) == 0 {
					r = saved[rng.Intn(len(saved))]
				} else {
					i := rng.Intn(len(addrs))
					j := rng.Intn(len(addrs))
					if rng.Intn(6) == 0 {
						j = i
					}
					r = rec{id: next, t: transaction.Transaction{CreatedAt: time.Now(), IssuerAddress: addrs[i], ReceiverAddress: addrs[j], Subject: "s",
						Data: []byte{byte(next)}, Spice: spice.Melange{Currency: uint64(next)}}}
					r.t.Hash[0], r.t.Hash[1], r.t.Hash[31] = byte(next), byte(next>>8), 7
					next++
					saved = append(saved, r)
				}
				e := h.SaveAwaitedTransaction(&r.t)
				c := cls(e)
				if c == "COk" {
					ref[r.id] = r
				}
				steps = append(steps, fmt.Sprintf("BSave (ATrx %d %d %d) %s", r.id, aid(r.t.IssuerAddress), aid(r.t.ReceiverAddress), c))
				human = append(human, fmt.Sprintf("save %d %d->%d = %s", r.id, aid(r.t.IssuerAddress), aid(r.t.ReceiverAddress), c))
				sum.Kinds["save."+c]++
			case x < 7: // remove by receiver, by somebody else, unknown hash
				if len(saved) == 0 {
					continue
				}
				r := saved[rng.Intn(len(saved))]
				who := r.t.ReceiverAddress
				if rng.Intn(3) == 0 {
					who = addrs[rng.Intn(len(addrs))]
				}
				hash := r.t.Hash
				id := r.id
				if rng.Intn(8) == 0 {
					hash[5] ^= 0x55
					id = 1000 + id
				}
				_, e := h.RemoveAwaitedTransaction(hash, who)
				c := cls(e)
				if c == "COk" {
					delete(ref, r.id)
				}
				steps = append(steps, fmt.Sprintf("BRemove %d %d %s", id, aid(who), c))
				human = append(human, fmt.Sprintf("remove %d by %d = %s", id, aid(who), c))
				sum.Kinds["remove."+c]++
			default:
			}
			// after every operation: the listing of every address against the reference (the property itself)
			for _, a := range addrs {
				trxs, e := h.ReadTransactions(a)
				var got, want []int
				for _, t := range trxs {
					got = append(got, int(t.Hash[0])|int(t.Hash[1])<<8)
				}
				for id, r := range ref {
					if r.t.IssuerAddress == a || r.t.ReceiverAddress == a {
						want = append(want, id)
					}
				}
				sort.Ints(got)
				sort.Ints(want)
				sum.Evaluations++
				if fmt.Sprint(got) != fmt.Sprint(want) {
					viol("listing-differs", map[string]any{"address": aid(a), "listed": got, "saved_and_not_removed": want, "err": fmt.Sprint(e), "history": human})
				}
				l := make([]string, len(got))
				for i, g := range got {
					l[i] = fmt.Sprint(g)
				}
				steps = append(steps, fmt.Sprintf("BRead %d [%s]", aid(a), strings.Join(l, ";")))
			}
		}
		h.Close()
		key := strings.Join(human, "|")
		if !seen[key] && len(ref) > 0 {
			seen[key] = true
			sum.Nontrivial++
		}
		traces = append(traces, "["+strings.Join(steps, ";\n ")+"]")
		if ti == 0 {
			sum.Samples = append(sum.Samples, strings.Join(human[:min(12, len(human))], "; "))
		}
	}
	// concurrent rounds: many saves / removes / reads touching the same receiver (failing-input search)
	for round := 0; round < nConc; round++ {
		h, _ := cache.New(512, 16)
		const n = 16
		var wg sync.WaitGroup
		ts := make([]transaction.Transaction, n)
		for i := range ts {
			ts[i] = transaction.Transaction{CreatedAt: time.Now(), IssuerAddress: addrs[i%3], ReceiverAddress: addrs[3], Subject: "c", Data: []byte{1}, Spice: spice.Melange{Currency: 1}}
			ts[i].Hash[0], ts[i].Hash[2] = byte(i+1), byte(round)
		}
		for i := range ts {
			wg.Add(1)
			go func(i int) {
				defer wg.Done()
				h.SaveAwaitedTransaction(&ts[i])
				if i%4 == 0 {
					h.ReadTransactions(addrs[3])
				}
			}(i)
		}
		wg.Wait()
		// half of them removed concurrently
		for i := 0; i < n; i += 2 {
			wg.Add(1)
			go func(i int) {
				defer wg.Done()
				h.RemoveAwaitedTransaction(ts[i].Hash, addrs[3])
			}(i)
		}
		wg.Wait()
		trxs, _ := h.ReadTransactions(addrs[3])
		var got []int
		for _, t := range trxs {
			got = append(got, int(t.Hash[0]))
		}
		sort.Ints(got)
		var want []int
		for i := 1; i < n; i += 2 {
			want = append(want, i+1)
		}
		sum.Evaluations++
		sum.Kinds["concurrent.round"]++
		if fmt.Sprint(got) != fmt.Sprint(want) {
			viol("concurrent-lost-or-invented-entry", map[string]any{"round": round, "listed": got, "expected": want})
		}
		h.Close()
	}
	// mixed rounds: savers, an authorised remover and polling readers all at once on one issuer/receiver pair; afterwards the
	// listing of BOTH addresses must be exactly saved-and-not-removed (every interleaving of atomic operations ends there)
	nMixed := nConc / 5
	if nMixed < 8 {
		nMixed = 8
	}
	for round := 0; round < nMixed; round++ {
		h, _ := cache.New(32*10_000, 128) // the node's own sizing (cmd/node): no capacity eviction at these volumes
		const n = 40
		ts := make([]transaction.Transaction, n)
		for i := range ts {
			ts[i] = transaction.Transaction{CreatedAt: time.Now(), IssuerAddress: addrs[0], ReceiverAddress: addrs[3], Subject: "m", Data: []byte{1}, Spice: spice.Melange{Currency: 1}}
			ts[i].Hash[0], ts[i].Hash[1], ts[i].Hash[2] = byte(i+1), 0x77, byte(round)
		}
		var wg sync.WaitGroup
		saved := make(chan int, n)
		stop := make(chan struct{})
		removed := make([]bool, n)
		savedOK := make([]bool, n)
		wg.Add(1)
		go func() { // saver
			defer wg.Done()
			for i := range ts {
				if h.SaveAwaitedTransaction(&ts[i]) == nil {
					savedOK[i] = true
					saved <- i
				}
			}
			close(saved)
		}()
		wg.Add(1)
		go func() { // the receiver removes every second transaction as soon as it is saved
			defer wg.Done()
			for i := range saved {
				if i%2 == 0 {
					if _, err := h.RemoveAwaitedTransaction(ts[i].Hash, addrs[3]); err == nil {
						removed[i] = true
					}
				}
			}
		}()
		var rg sync.WaitGroup
		for r := 0; r < 6; r++ {
			rg.Add(1)
			go func(r int) {
				defer rg.Done()
				for {
					select {
					case <-stop:
						return
					default:
						h.ReadTransactions(addrs[(r%2)*3])
					}
				}
			}(r)
		}
		wg.Wait()
		close(stop)
		rg.Wait()
		for _, a := range []string{addrs[0], addrs[3]} {
			trxs, _ := h.ReadTransactions(a)
			cnt := map[int]int{}
			for _, t := range trxs {
				cnt[int(t.Hash[0])-1]++
			}
			lost, invented := 0, 0
			for i := range ts {
				switch {
				case savedOK[i] && !removed[i] && cnt[i] == 0:
					lost++
				case (removed[i] || !savedOK[i]) && cnt[i] > 0, cnt[i] > 1:
					invented++
				}
			}
			if lost+invented > 0 {
				viol("concurrent-lost-or-invented-entry", map[string]any{"round": round, "kind": "mixed save/remove/read", "lost": lost, "invented_or_duplicated": invented})
			}
		}
		sum.Evaluations++
		sum.Kinds["concurrent.mixed_round"]++
		h.Close()
	}
	// fan rounds: ONE issuer, two receivers. The first receiver removes what it was sent while the issuer's transfers to the second
	// receiver are being saved: the two operations share only the ISSUER's list (a per-address locking scheme that takes the caller's
	// address alone lets the removal rewrite that list under a concurrent save). Afterwards every listing is saved-and-not-removed.
	for round := 0; round < nMixed; round++ {
		h, _ := cache.New(32*10_000, 128)
		const n = 24
		first := make([]transaction.Transaction, n)
		second := make([]transaction.Transaction, n)
		for i := range first {
			first[i] = transaction.Transaction{CreatedAt: time.Now(), IssuerAddress: addrs[0], ReceiverAddress: addrs[3], Subject: "f", Data: []byte{1}, Spice: spice.Melange{Currency: 1}}
			first[i].Hash[0], first[i].Hash[1], first[i].Hash[2] = byte(i+1), 0x55, byte(round)
			second[i] = transaction.Transaction{CreatedAt: time.Now(), IssuerAddress: addrs[0], ReceiverAddress: addrs[2], Subject: "f", Data: []byte{2}, Spice: spice.Melange{Currency: 1}}
			second[i].Hash[0], second[i].Hash[1], second[i].Hash[2] = byte(i+1), 0x66, byte(round)
			h.SaveAwaitedTransaction(&first[i])
		}
		var wg sync.WaitGroup
		start := make(chan struct{})
		removedF := make([]bool, n)
		savedS := make([]bool, n)
		for g := 0; g < 4; g++ {
			wg.Add(2)
			go func(g int) { // the first receiver removes its quarter
				defer wg.Done()
				<-start
				for i := g; i < n; i += 4 {
					if _, err := h.RemoveAwaitedTransaction(first[i].Hash, addrs[3]); err == nil {
						removedF[i] = true
					}
				}
			}(g)
			go func(g int) { // the issuer's transfers to the second receiver arrive
				defer wg.Done()
				<-start
				for i := g; i < n; i += 4 {
					if h.SaveAwaitedTransaction(&second[i]) == nil {
						savedS[i] = true
					}
				}
			}(g)
		}
		close(start)
		wg.Wait()
		want := map[string]map[[32]byte]bool{addrs[0]: {}, addrs[3]: {}, addrs[2]: {}}
		for i := 0; i < n; i++ {
			if !removedF[i] {
				want[addrs[0]][first[i].Hash] = true
				want[addrs[3]][first[i].Hash] = true
			}
			if savedS[i] {
				want[addrs[0]][second[i].Hash] = true
				want[addrs[2]][second[i].Hash] = true
			}
		}
		for _, a := range []string{addrs[0], addrs[3], addrs[2]} {
			trxs, _ := h.ReadTransactions(a)
			cnt := map[[32]byte]int{}
			for _, t := range trxs {
				cnt[t.Hash]++
			}
			lost, invented := 0, 0
			for hsh := range want[a] {
				if cnt[hsh] == 0 {
					lost++
				}
			}
			for hsh, c := range cnt {
				if !want[a][hsh] || c > 1 {
					invented++
				}
			}
			if lost+invented > 0 {
				viol("concurrent-lost-or-invented-entry", map[string]any{"round": round, "kind": "one issuer, receiver A removing while transfers to receiver B are saved", "address_index": a == addrs[0], "lost": lost, "invented_or_duplicated": invented})
			}
		}
		sum.Evaluations++
		sum.Kinds["concurrent.fan_round"]++
		h.Close()
	}
	// duplicate rounds: the SAME transaction saved by 8 goroutines at once: one must win, it is listed once
	var h *cache.Hippocampus
	for round := 0; round < nConc*4; round++ {
		if round%20 == 0 {
			if h != nil {
				h.Close()
			}
			h, _ = cache.New(32*10_000, 128) // the node's own sizing (cmd/node): no capacity eviction at these volumes
		}
		t := transaction.Transaction{CreatedAt: time.Now(), IssuerAddress: addrs[1], ReceiverAddress: addrs[3], Subject: "d", Data: []byte{1}, Spice: spice.Melange{Currency: 1}}
		t.Hash[0], t.Hash[1], t.Hash[2] = 1, 0x99, byte(round)
		var wg sync.WaitGroup
		var okCount int32
		start := make(chan struct{})
		for g := 0; g < 8; g++ {
			wg.Add(1)
			go func() {
				defer wg.Done()
				cp := t
				<-start
				if h.SaveAwaitedTransaction(&cp) == nil {
					atomic.AddInt32(&okCount, 1)
				}
			}()
		}
		close(start)
		wg.Wait()
		for _, a := range []string{addrs[1], addrs[3]} {
			trxs, _ := h.ReadTransactions(a)
			listed := 0
			for _, x := range trxs {
				if x.Hash == t.Hash {
					listed++
				}
			}
			if listed != 1 {
				viol("concurrent-lost-or-invented-entry", map[string]any{"round": round, "kind": "same transaction saved concurrently", "listed": listed, "saves_ok": okCount})
			}
		}
		if okCount != 1 {
			viol("concurrent-duplicate-save-accepted", map[string]any{"round": round, "saves_ok": okCount})
		}
		sum.Evaluations++
		sum.Kinds["concurrent.duplicate_round"]++
	}
	if h != nil {
		h.Close()
	}
	// re-save rounds: a transaction that is already awaiting is delivered again (gossip re-delivery) while its receiver removes it and
	// readers hold the lock: every sequential order ends with "stored and listed once for both parties" or "gone from everywhere"
	{
		h, _ := cache.New(32*10_000, 128)
		for round := 0; round < nConc*20; round++ {
			t := transaction.Transaction{CreatedAt: time.Now(), IssuerAddress: addrs[2], ReceiverAddress: addrs[3], Subject: "r", Data: []byte{1}, Spice: spice.Melange{Currency: 1}}
			t.Hash[0], t.Hash[1], t.Hash[2], t.Hash[3] = 1, 0x55, byte(round), byte(round>>8)
			h.SaveAwaitedTransaction(&t)
			var wg sync.WaitGroup
			start := make(chan struct{})
			stop := make(chan struct{})
			var rg sync.WaitGroup
			for r := 0; r < 3; r++ {
				rg.Add(1)
				go func(r int) {
					defer rg.Done()
					<-start
					for {
						select {
						case <-stop:
							return
						default:
							h.ReadTransactions(addrs[2+r%2])
						}
					}
				}(r)
			}
			wg.Add(2)
			go func() { defer wg.Done(); <-start; cp := t; h.SaveAwaitedTransaction(&cp) }()
			go func() { defer wg.Done(); <-start; h.RemoveAwaitedTransaction(t.Hash, addrs[3]) }()
			close(start)
			wg.Wait()
			close(stop)
			rg.Wait()
			count := func(a string) int {
				trxs, _ := h.ReadTransactions(a)
				n := 0
				for _, x := range trxs {
					if x.Hash == t.Hash {
						n++
					}
				}
				return n
			}
			li, lr := count(addrs[2]), count(addrs[3])
			cp := t
			stored := errors.Is(h.SaveAwaitedTransaction(&cp), cache.ErrTrxAlreadyExists)
			want := 0
			if stored {
				want = 1
			}
			if li != want || lr != want {
				viol("concurrent-lost-or-invented-entry", map[string]any{"round": round, "kind": "re-save racing with removal", "stored": stored, "listed_for_issuer": li, "listed_for_receiver": lr})
			}
			if !stored { // the probing save above stored it again: clean up for the next round
				h.RemoveAwaitedTransaction(t.Hash, addrs[3])
			}
			sum.Evaluations++
			sum.Kinds["concurrent.resave_round"]++
		}
		h.Close()
	}
	sum.Exhaustive = "sequential part: seeded op sequences; concurrent part: phased rounds (16 savers, then 8 removers), mixed rounds (saver + remover + 6 polling readers) fan rounds (one issuer: receiver A removing while transfers to receiver B are saved), duplicate rounds (one transaction saved by 8 goroutines) and re-save rounds (re-delivery racing with the receiver's removal under polling readers) on one receiver (search, not proof)"
	var b bytes.Buffer
	b.WriteString("From Coq Require Import List Arith NArith Bool.\nFrom Verif Require Import Cache CheckCache.\nImport ListNotations.\nLocal Open Scope N_scope.\n")
	b.WriteString("Definition traces : list (list cobs) := [\n" + strings.Join(traces, ";\n") + "].\n")
	b.WriteString("Definition bad := Eval vm_compute in cmismatches traces.\nPrint bad.\n")
	os.WriteFile(outPath, b.Bytes(), 0644)
	js, _ := json.MarshalIndent(sum, "", " ")
	os.WriteFile(summaryPath, js, 0644)
}
