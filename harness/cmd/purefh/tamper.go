package main

import (
	"bytes"
	"context"
	"crypto/ed25519"
	"crypto/sha256"
	"encoding/binary"
	"encoding/json"
	"fmt"
	"math/rand"
	"os"
	"strings"
	"time"

	"github.com/bartossh/Computantis/src/accountant"
	"github.com/bartossh/Computantis/src/spice"
	"github.com/bartossh/Computantis/src/transaction"
	"github.com/bartossh/Computantis/src/wallet"
	"github.com/mr-tron/base58"
)

type nolog struct{}

func (nolog) Debug(string) {}
func (nolog) Info(string)  {}
func (nolog) Warn(string)  {}
func (nolog) Error(string) {}
func (nolog) Fatal(string) {}

type tamperSummary struct {
	Evaluations int               `json:"evaluations"`
	Nontrivial  int               `json:"distinct_nontrivial"`
	Kinds       map[string]int    `json:"kinds"`
	Violations  []json.RawMessage `json:"violations"`
	Samples     []string          `json:"samples"`
	Exhaustive  string            `json:"exhaustive"`
}

// independent re-implementations used as ground truth (NOT the code under test)
func refTrxMsg(t *transaction.Transaction) []byte {
	var b []byte
	b = append(b, t.Subject...)
	b = append(b, t.Data...)
	b = append(b, t.IssuerAddress...)
	b = append(b, t.ReceiverAddress...)
	b = binary.LittleEndian.AppendUint64(b, uint64(t.CreatedAt.UnixNano()))
	b = binary.LittleEndian.AppendUint64(b, t.Spice.Currency)
	b = binary.LittleEndian.AppendUint64(b, t.Spice.SupplementaryCurrency)
	return b
}
func refVtxMsg(v *accountant.Vertex) []byte {
	var b []byte
	b = append(b, v.Transaction.Hash[:]...)
	b = append(b, v.LeftParentHash[:]...)
	b = append(b, v.RightParentHash[:]...)
	b = binary.LittleEndian.AppendUint64(b, uint64(v.CreatedAt.UnixNano()))
	b = binary.LittleEndian.AppendUint64(b, v.Weight)
	return b
}
func refAddrKey(a string) ([]byte, bool) {
	raw, err := base58.Decode(a)
	if err != nil || len(raw) < 5 {
		return nil, false
	}
	payload, cs := raw[:len(raw)-4], raw[len(raw)-4:]
	h1 := sha256.Sum256(payload)
	h2 := sha256.Sum256(h1[:])
	if !bytes.Equal(cs, h2[:4]) {
		return nil, false
	}
	key := payload[1:]
	if len(key) != ed25519.PublicKeySize {
		return nil, false
	}
	return key, true
}
func refSigOK(addr string, msg, sig []byte) (addrOK, sigOK bool) {
	k, ok := refAddrKey(addr)
	if !ok {
		return false, false
	}
	d := sha256.Sum256(msg)
	return true, ed25519.Verify(k, d[:], sig)
}
func mkAddr(payload []byte) string {
	p := append([]byte{0}, payload...)
	h1 := sha256.Sum256(p)
	h2 := sha256.Sum256(h1[:])
	return base58.Encode(append(p, h2[:4]...))
}

func coqBytes(b []byte) string {
	s := make([]string, len(b))
	for i, x := range b {
		s[i] = fmt.Sprint(x)
	}
	return "[" + strings.Join(s, ";") + "]%N"
}

type mutant struct {
	kind   string
	v      accountant.Vertex
	signed bool // does the mutation change a signed field / a signature (must then be rejected)?
}

func runTamper(tier string, seed int64, summaryPath, outPath string) {
	rng := rand.New(rand.NewSource(seed))
	sum := tamperSummary{Kinds: map[string]int{}}
	ver := wallet.NewVerifier()
	nBase, reps := 3, 2
	if tier == "thorough" {
		nBase, reps = 12, 6
	}
	viol := func(kind string, d map[string]any) {
		d["kind"] = kind
		b, _ := json.Marshal(d)
		if len(sum.Violations) < 60 {
			sum.Violations = append(sum.Violations, b)
		}
	}
	var factCases, layoutCases []string
	for bi := 0; bi < nBase; bi++ {
		gw, _ := wallet.New() // node / genesis
		iw, _ := wallet.New() // issuer
		rw, _ := wallet.New() // receiver
		sw, _ := wallet.New() // sealing node
		xw, _ := wallet.New() // bystander
		newBook := func() (*accountant.AccountingBook, accountant.Vertex, func()) {
			ctx, cancel := context.WithCancel(context.Background())
			ab, err := accountant.NewAccountingBook(ctx, accountant.Config{Truncate: 1 << 62}, ver, &gw, nolog{})
			if err != nil {
				panic(err)
			}
			ab.VerifDetachRepeater()
			g, err := ab.CreateGenesis("Genesis Vertex", spice.New(1000, 0), []byte{}, iw.Address())
			if err != nil {
				panic(err)
			}
			return ab, g, func() { cancel(); ab.VerifClose() }
		}
		ab, g, closeBook := newBook()
		mkBase := func(withData, countersigned bool, k int) accountant.Vertex {
			var data []byte
			if withData {
				data = []byte(fmt.Sprintf("contract-%d-%d", bi, k))
			}
			t, err := transaction.New(fmt.Sprintf("transfer-%d-%d", bi, k), spice.New(uint64(1+rng.Intn(5)), uint64(rng.Int63n(1e18))), data, rw.Address(), &iw)
			if err != nil {
				panic(err)
			}
			if countersigned {
				if _, err := t.Sign(&rw, ver); err != nil {
					panic(err)
				}
			}
			v, _ := accountant.NewVertex(t, g.Hash, g.Hash, g.Weight+1, &sw)
			return v
		}
		mkSelf := func(salt int) accountant.Vertex {
			t, err := transaction.New(fmt.Sprintf("self-%d-%d", bi, salt), spice.New(0, 0), []byte("self-addressed contract"), iw.Address(), &iw)
			if err != nil {
				panic(err)
			}
			if _, err := t.Sign(&iw, ver); err != nil {
				panic(err)
			}
			v, _ := accountant.NewVertex(t, g.Hash, g.Hash, g.Weight+1, &sw)
			return v
		}
		for k := 0; k < 3; k++ {
			withData, counter := k >= 1 || bi%2 == 1, k >= 1
			v0 := mkBase(withData, counter, k)
			if k == 2 { // a countersigned transaction whose issuer is also its receiver (self-addressed contract)
				v0 = mkSelf(k)
			}
			v1 := mkBase(true, counter, k+10)
			var ms []mutant
			add := func(kind string, signed bool, f func(v *accountant.Vertex)) {
				v := v0
				v.Signature = append([]byte{}, v0.Signature...)
				v.Transaction.Data = append([]byte{}, v0.Transaction.Data...)
				v.Transaction.IssuerSignature = append([]byte{}, v0.Transaction.IssuerSignature...)
				v.Transaction.ReceiverSignature = append([]byte{}, v0.Transaction.ReceiverSignature...)
				f(&v)
				ms = append(ms, mutant{kind, v, signed})
			}
			flipStr := func(s string) string {
				if len(s) == 0 {
					return "x"
				}
				b := []byte(s)
				i := rng.Intn(len(b))
				alphabet := "123456789ABCDEFGHJKLMNPQRSTUVWXYZabcdefghijkmnopqrstuvwxyz"
				c := alphabet[rng.Intn(len(alphabet))]
				for c == b[i] {
					c = alphabet[rng.Intn(len(alphabet))]
				}
				b[i] = c
				return string(b)
			}
			add("identity", false, func(v *accountant.Vertex) {})
			for r := 0; r < reps; r++ {
				// 1. vertex-level fields
				add("flip.vertex.hash", true, func(v *accountant.Vertex) { v.Hash[rng.Intn(32)] ^= 1 << uint(rng.Intn(8)) })
				add("flip.vertex.signature", true, func(v *accountant.Vertex) { v.Signature[rng.Intn(len(v.Signature))] ^= 1 << uint(rng.Intn(8)) })
				add("flip.vertex.signer_address", true, func(v *accountant.Vertex) { v.SignerPublicAddress = flipStr(v.SignerPublicAddress) })
				add("flip.vertex.created_at", true, func(v *accountant.Vertex) { v.CreatedAt = v.CreatedAt.Add(time.Duration(1 + rng.Intn(1000))) })
				add("flip.vertex.left_parent", true, func(v *accountant.Vertex) { v.LeftParentHash[rng.Intn(32)] ^= 1 << uint(rng.Intn(8)) })
				add("flip.vertex.right_parent", true, func(v *accountant.Vertex) { v.RightParentHash[rng.Intn(32)] ^= 1 << uint(rng.Intn(8)) })
				add("flip.vertex.weight", true, func(v *accountant.Vertex) { v.Weight += uint64(1 + rng.Intn(3)) })
				// 2. transaction-level fields
				add("flip.trx.subject", true, func(v *accountant.Vertex) { v.Transaction.Subject = flipStr(v.Transaction.Subject) })
				if len(v0.Transaction.Data) > 0 {
					add("flip.trx.data", true, func(v *accountant.Vertex) {
						v.Transaction.Data[rng.Intn(len(v.Transaction.Data))] ^= 1 << uint(rng.Intn(8))
					})
				}
				add("flip.trx.issuer_address", true, func(v *accountant.Vertex) { v.Transaction.IssuerAddress = flipStr(v.Transaction.IssuerAddress) })
				add("flip.trx.receiver_address", true, func(v *accountant.Vertex) { v.Transaction.ReceiverAddress = flipStr(v.Transaction.ReceiverAddress) })
				add("flip.trx.created_at", true, func(v *accountant.Vertex) {
					v.Transaction.CreatedAt = v.Transaction.CreatedAt.Add(time.Duration(1 + rng.Intn(1000)))
				})
				add("flip.trx.currency", true, func(v *accountant.Vertex) { v.Transaction.Spice.Currency ^= 1 << uint(rng.Intn(64)) })
				add("flip.trx.supplementary", true, func(v *accountant.Vertex) { v.Transaction.Spice.SupplementaryCurrency ^= 1 << uint(rng.Intn(59)) })
				add("flip.trx.hash", true, func(v *accountant.Vertex) { v.Transaction.Hash[rng.Intn(32)] ^= 1 << uint(rng.Intn(8)) })
				add("flip.trx.issuer_signature", true, func(v *accountant.Vertex) {
					v.Transaction.IssuerSignature[rng.Intn(len(v.Transaction.IssuerSignature))] ^= 1 << uint(rng.Intn(8))
				})
				if counter {
					add("flip.trx.receiver_signature", true, func(v *accountant.Vertex) {
						v.Transaction.ReceiverSignature[rng.Intn(len(v.Transaction.ReceiverSignature))] ^= 1 << uint(rng.Intn(8))
					})
				}
			}
			// 3. truncation / extension of byte fields
			add("len.trx.subject.drop_last", true, func(v *accountant.Vertex) {
				v.Transaction.Subject = v.Transaction.Subject[:len(v.Transaction.Subject)-1]
			})
			add("len.trx.subject.extend", true, func(v *accountant.Vertex) { v.Transaction.Subject += "x" })
			add("len.trx.data.extend", true, func(v *accountant.Vertex) { v.Transaction.Data = append(v.Transaction.Data, 7) })
			if len(v0.Transaction.Data) > 0 {
				add("len.trx.data.drop_last", true, func(v *accountant.Vertex) { v.Transaction.Data = v.Transaction.Data[:len(v.Transaction.Data)-1] })
			}
			add("len.vertex.signature.drop_last", true, func(v *accountant.Vertex) { v.Signature = v.Signature[:len(v.Signature)-1] })
			add("len.vertex.signature.extend", true, func(v *accountant.Vertex) { v.Signature = append(v.Signature, 0) })
			add("len.vertex.signature.empty", true, func(v *accountant.Vertex) { v.Signature = nil })
			add("len.trx.issuer_signature.drop_last", true, func(v *accountant.Vertex) {
				v.Transaction.IssuerSignature = v.Transaction.IssuerSignature[:len(v.Transaction.IssuerSignature)-1]
			})
			add("len.trx.issuer_signature.empty", true, func(v *accountant.Vertex) { v.Transaction.IssuerSignature = nil })
			// 4. moving bytes across adjacent boundaries of the unframed transaction message
			add("shift.subject>data", true, func(v *accountant.Vertex) {
				s := v.Transaction.Subject
				v.Transaction.Data = append([]byte{s[len(s)-1]}, v.Transaction.Data...)
				v.Transaction.Subject = s[:len(s)-1]
			})
			if len(v0.Transaction.Data) > 0 {
				add("shift.data>subject", true, func(v *accountant.Vertex) {
					v.Transaction.Subject += string(v.Transaction.Data[0])
					v.Transaction.Data = v.Transaction.Data[1:]
				})
			}
			add("shift.issuer>data", true, func(v *accountant.Vertex) {
				a := v.Transaction.IssuerAddress
				v.Transaction.Data = append(v.Transaction.Data, a[0])
				v.Transaction.IssuerAddress = a[1:]
			})
			add("shift.issuer>receiver", true, func(v *accountant.Vertex) {
				a := v.Transaction.IssuerAddress
				v.Transaction.ReceiverAddress = string(a[len(a)-1]) + v.Transaction.ReceiverAddress
				v.Transaction.IssuerAddress = a[:len(a)-1]
			})
			add("shift.receiver>issuer", true, func(v *accountant.Vertex) {
				a := v.Transaction.ReceiverAddress
				v.Transaction.IssuerAddress += string(a[0])
				v.Transaction.ReceiverAddress = a[1:]
			})
			// 5. swapping fields between two valid vertices
			add("swap.transaction", true, func(v *accountant.Vertex) { v.Transaction = v1.Transaction })
			add("swap.vertex_signature", true, func(v *accountant.Vertex) { v.Signature = v1.Signature })
			add("swap.vertex_hash", true, func(v *accountant.Vertex) { v.Hash = v1.Hash })
			add("swap.trx.issuer_signature", true, func(v *accountant.Vertex) { v.Transaction.IssuerSignature = v1.Transaction.IssuerSignature })
			add("swap.trx.hash", true, func(v *accountant.Vertex) { v.Transaction.Hash = v1.Transaction.Hash })
			add("swap.trx.subject", true, func(v *accountant.Vertex) { v.Transaction.Subject = v1.Transaction.Subject })
			add("swap.parents", true, func(v *accountant.Vertex) { v.LeftParentHash = v1.Hash })
			// 6. signatures / addresses of another wallet
			add("replace.signer_address.other_wallet", true, func(v *accountant.Vertex) { v.SignerPublicAddress = xw.Address() })
			add("replace.issuer_address.other_wallet", true, func(v *accountant.Vertex) { v.Transaction.IssuerAddress = xw.Address() })
			add("replace.receiver_address.other_wallet", true, func(v *accountant.Vertex) { v.Transaction.ReceiverAddress = xw.Address() })
			add("replace.issuer_signature.other_wallet", true, func(v *accountant.Vertex) {
				_, s := xw.Sign(v.Transaction.GetMessage())
				v.Transaction.IssuerSignature = s
			})
			add("replace.vertex_signature.other_wallet", true, func(v *accountant.Vertex) {
				_, s := xw.Sign(v.VerifInitData())
				v.Signature = s
			})
			// 7. receiver signature removed / replaced
			if counter {
				add("strip.receiver_signature", true, func(v *accountant.Vertex) { v.Transaction.ReceiverSignature = []byte{} })
				add("replace.receiver_signature.other_wallet", true, func(v *accountant.Vertex) {
					_, s := xw.Sign(v.Transaction.GetMessage())
					v.Transaction.ReceiverSignature = s
				})
			} else {
				add("add.receiver_signature.other_wallet", true, func(v *accountant.Vertex) {
					_, s := xw.Sign(v.Transaction.GetMessage())
					v.Transaction.ReceiverSignature = s
				})
			}
			// 8. well-checksummed addresses of keys of the wrong length
			for _, n := range []int{0, 1, 31, 33, 64} {
				n := n
				add(fmt.Sprintf("keylen%d.signer_address", n), true, func(v *accountant.Vertex) {
					p := make([]byte, n)
					copy(p, sw.Public)
					v.SignerPublicAddress = mkAddr(p)
				})
				add(fmt.Sprintf("keylen%d.issuer_address", n), true, func(v *accountant.Vertex) {
					p := make([]byte, n)
					copy(p, iw.Public)
					v.Transaction.IssuerAddress = mkAddr(p)
				})
			}
			add("keylen31.receiver_address", true, func(v *accountant.Vertex) { v.Transaction.ReceiverAddress = mkAddr(rw.Public[:31]) })
			// 9. byte-level corruption of the DECODED address (version byte, key bytes, checksum bytes, leading zero) re-encoded
			//    without repairing the checksum: every such string must be refused as an address
			rawMut := func(a string, f func(raw []byte) []byte) string {
				raw, err := base58.Decode(a)
				if err != nil {
					return a + "x"
				}
				return base58.Encode(f(append([]byte{}, raw...)))
			}
			type addrField struct {
				name string
				get  func(v *accountant.Vertex) *string
			}
			fields := []addrField{
				{"signer_address", func(v *accountant.Vertex) *string { return &v.SignerPublicAddress }},
				{"issuer_address", func(v *accountant.Vertex) *string { return &v.Transaction.IssuerAddress }},
			}
			if counter {
				fields = append(fields, addrField{"receiver_address", func(v *accountant.Vertex) *string { return &v.Transaction.ReceiverAddress }})
			}
			for _, fld := range fields {
				fld := fld
				for _, vb := range []byte{0x01, 0x80, 0xff} {
					vb := vb
					add(fmt.Sprintf("rawaddr.version_%02x.%s", vb, fld.name), true, func(v *accountant.Vertex) {
						p := fld.get(v)
						*p = rawMut(*p, func(raw []byte) []byte { raw[0] = vb; return raw })
					})
				}
				add("rawaddr.key_bit."+fld.name, true, func(v *accountant.Vertex) {
					p := fld.get(v)
					*p = rawMut(*p, func(raw []byte) []byte { raw[1+rng.Intn(32)] ^= 1 << uint(rng.Intn(8)); return raw })
				})
				add("rawaddr.checksum_bit."+fld.name, true, func(v *accountant.Vertex) {
					p := fld.get(v)
					*p = rawMut(*p, func(raw []byte) []byte { raw[len(raw)-1-rng.Intn(4)] ^= 1 << uint(rng.Intn(8)); return raw })
				})
				add("rawaddr.extra_leading_zero."+fld.name, true, func(v *accountant.Vertex) { p := fld.get(v); *p = "1" + *p })
				add("rawaddr.extra_trailing_byte."+fld.name, true, func(v *accountant.Vertex) {
					p := fld.get(v)
					*p = rawMut(*p, func(raw []byte) []byte { return append(raw, 0) })
				})
			}
			for _, m := range ms {
				v := m.v
				// ground truth
				tm := refTrxMsg(&v.Transaction)
				th := sha256.Sum256(tm)
				ia, is := refSigOK(v.Transaction.IssuerAddress, tm, v.Transaction.IssuerSignature)
				ra, rs := refSigOK(v.Transaction.ReceiverAddress, tm, v.Transaction.ReceiverSignature)
				vm := refVtxMsg(&v)
				vh := sha256.Sum256(vm)
				sa, ss := refSigOK(v.SignerPublicAddress, vm, v.Signature)
				// observed
				cls := "true"
				func() {
					defer func() {
						if r := recover(); r != nil {
							cls = "panic"
						}
					}()
					if err := v.VerifVerify(ver); err != nil {
						cls = "false"
					}
				}()
				sum.Evaluations++
				sum.Kinds[strings.SplitN(m.kind, ".", 2)[0]+"."+cls]++
				if m.kind != "identity" {
					sum.Nontrivial++
				}
				if cls == "panic" {
					viol("verify-panics", map[string]any{"mutation": m.kind})
					cls = "false"
				}
				factCases = append(factCases, fmt.Sprintf("(Facts %v %v %v %v %v %v %v %v %v, %s)", th == v.Transaction.Hash, ia, is,
					len(v.Transaction.ReceiverSignature) != 0, ra, rs, vh == v.Hash, sa, ss, cls))
				if len(layoutCases) < 40 && rng.Intn(6) == 0 {
					layoutCases = append(layoutCases, fmt.Sprintf("(Vtxb (Trxb %s %s %s %s %d %d %d %s [] []) %s %s %d %d [] [] [], %s, %s)",
						coqBytes([]byte(v.Transaction.Subject)), coqBytes(v.Transaction.Data), coqBytes([]byte(v.Transaction.IssuerAddress)),
						coqBytes([]byte(v.Transaction.ReceiverAddress)), uint64(v.Transaction.CreatedAt.UnixNano()), v.Transaction.Spice.Currency,
						v.Transaction.Spice.SupplementaryCurrency, coqBytes(v.Transaction.Hash[:]), coqBytes(v.LeftParentHash[:]), coqBytes(v.RightParentHash[:]),
						uint64(v.CreatedAt.UnixNano()), v.Weight, coqBytes(v.Transaction.GetMessage()), coqBytes(v.VerifInitData())))
				}
				// the property itself, on the gossip entry point of a real ledger
				before := fmt.Sprint(canonSnap(ab))
				vv := v
				var aerr error
				func() {
					defer func() {
						if r := recover(); r != nil {
							aerr = fmt.Errorf("panic: %v", r)
							viol("addleaf-panics", map[string]any{"mutation": m.kind, "panic": fmt.Sprint(r)})
						}
					}()
					aerr = ab.AddLeaf(context.Background(), &vv)
				}()
				after := fmt.Sprint(canonSnap(ab))
				if m.signed {
					if cls == "true" || aerr == nil {
						viol("mutant-admitted:"+m.kind, map[string]any{"mutation": m.kind, "verify": cls, "addleaf_err": fmt.Sprint(aerr)})
					} else if before != after {
						viol("rejected-mutant-changed-ledger", map[string]any{"mutation": m.kind, "addleaf_err": fmt.Sprint(aerr)})
					}
				} else if cls != "true" || aerr != nil {
					viol("valid-vertex-rejected", map[string]any{"mutation": m.kind, "verify": cls, "addleaf_err": fmt.Sprint(aerr)})
				}
				if aerr == nil { // the ledger now holds a vertex: start from a fresh one
					closeBook()
					ab, g, closeBook = newBook()
					_ = g
				}
			}
			// fresh ledger for the next base vertex (parents are that ledger's genesis)
			closeBook()
			ab, g, closeBook = newBook()
		}
		closeBook()
	}
	sum.Samples = []string{"flip one bit of the vertex hash", "move the last byte of subject to the front of data", "replace the issuer signature by another wallet's signature over the same message",
		"address = base58(version|31-byte key|valid checksum)"}
	sum.Exhaustive = "every mutation class of the property's quantifier is instantiated for every base vertex (with/without data, with/without receiver signature)"
	var b bytes.Buffer
	b.WriteString("From Coq Require Import List Arith NArith ZArith Bool.\nFrom Verif Require Import WalletFile Msg.\nImport ListNotations.\nLocal Open Scope Z_scope.\n")
	b.WriteString("Definition fact_cases : list (facts * bool) := [\n" + strings.Join(factCases, ";\n") + "].\n")
	b.WriteString("Definition layout_cases : list (vtxb * bytes * bytes) := [\n" + strings.Join(layoutCases, ";\n") + "].\n")
	b.WriteString("Definition bad_facts := map fst (filter (fun p => negb (Bool.eqb (verify_dec (fst (snd p))) (snd (snd p)))) (combine (seq 0 (length fact_cases)) fact_cases)).\n")
	b.WriteString("Definition bad_layout := map fst (filter (fun p => match snd p with (v, tm, vm) => negb (bytes_eqb (trx_msg (vb_trx v)) tm && bytes_eqb (vtx_msg v) vm) end) (combine (seq 100000 (length layout_cases)) layout_cases)).\n")
	b.WriteString("Definition bad := Eval vm_compute in (bad_facts ++ bad_layout).\nPrint bad.\n")
	os.WriteFile(outPath, b.Bytes(), 0644)
	js, _ := json.MarshalIndent(sum, "", " ")
	os.WriteFile(summaryPath, js, 0644)
}

func min(a, b int) int {
	if a < b {
		return a
	}
	return b
}

// canonSnap: order-independent rendering of the ledger state (for "rejected => unchanged")
func canonSnap(ab *accountant.AccountingBook) []string {
	s := ab.VerifSnapshot()
	var out []string
	for i := range s.Vertices {
		out = append(out, fmt.Sprintf("v%x", s.Vertices[i].Hash))
	}
	for _, e := range s.Edges {
		out = append(out, fmt.Sprintf("e%x>%x", e[0], e[1]))
	}
	for k, v := range s.Index {
		out = append(out, fmt.Sprintf("i%x>%x", k, v))
	}
	for _, p := range s.Parked {
		out = append(out, fmt.Sprintf("p%x/%d", p.Hash, p.Repeated))
	}
	out = append(out, fmt.Sprintf("w%d/%d", s.Weight, s.Throughput))
	sortStrings(out)
	return out
}

func sortStrings(a []string) {
	for i := 1; i < len(a); i++ {
		for j := i; j > 0 && a[j] < a[j-1]; j-- {
			a[j], a[j-1] = a[j-1], a[j]
		}
	}
}
