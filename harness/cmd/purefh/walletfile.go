package main

import (
	"bytes"
	"encoding/hex"
	"encoding/json"
	"fmt"
	"math/rand"
	"os"
	"path/filepath"

	"github.com/bartossh/Computantis/src/aeswrapper"
	"github.com/bartossh/Computantis/src/fileoperations"
	"github.com/bartossh/Computantis/src/wallet"
)

type wfSummary struct {
	Evaluations int               `json:"evaluations"`
	Nontrivial  int               `json:"distinct_nontrivial"`
	Kinds       map[string]int    `json:"kinds"`
	Violations  []json.RawMessage `json:"violations"`
	Samples     []string          `json:"samples"`
	Exhaustive  string            `json:"exhaustive"`
}

// runWallet: real SaveWallet / ReadWallet / SaveToPem / ReadFromPem over seeded wallets and keys, every truncation
// length, every single-byte position x 3 values, wrong keys of valid and invalid sizes. Emits Coq cases for the
// decision list read_class and evaluates the property directly (monitor).
func runWallet(tier string, seed int64, summaryPath, outPath string) {
	rng := rand.New(rand.NewSource(seed))
	sum := wfSummary{Kinds: map[string]int{}}
	dir, _ := os.MkdirTemp("", "verif-wallet")
	defer os.RemoveAll(dir)
	var cases []string
	viol := func(kind string, d map[string]any) {
		d["kind"] = kind
		b, _ := json.Marshal(d)
		if len(sum.Violations) < 40 {
			sum.Violations = append(sum.Violations, b)
		}
	}
	// one sealer shared by every handler, as in cmd/wallet: whatever it remembers between calls must not let another key open a file
	sealer := aeswrapper.New()
	nW := 2
	vals := 3
	if tier == "thorough" {
		nW, vals = 6, 8
	}
	read := func(path, passwd string) (w wallet.Wallet, cls string) {
		defer func() {
			if r := recover(); r != nil {
				cls = "CPanic"
			}
		}()
		h := fileoperations.New(fileoperations.Config{WalletPath: path, WalletPasswd: passwd}, sealer)
		w, err := h.ReadWallet()
		if err != nil {
			return w, "CErr"
		}
		return w, "CWallet"
	}
	emit := func(kind string, klen, flen int, opens bool, cls string) {
		sum.Evaluations++
		sum.Kinds[kind+"."+cls]++
		cases = append(cases, fmt.Sprintf("(%d, %d, %v, %s)", klen, flen, opens, cls))
	}
	for wi := 0; wi < nW; wi++ {
		w, _ := wallet.New()
		for _, ks := range []int{16, 32} {
			key := make([]byte, ks)
			rng.Read(key)
			passwd := hex.EncodeToString(key)
			path := filepath.Join(dir, fmt.Sprintf("w%d_%d", wi, ks))
			h := fileoperations.New(fileoperations.Config{WalletPath: path, WalletPasswd: passwd, WalletPemPath: path + ".pem"}, sealer)
			if wi%2 == 1 { // the wallet path already holds a (longer) file: saving must replace it entirely
				os.WriteFile(path, bytes.Repeat([]byte{0xAB}, 300+rng.Intn(200)), 0644)
				sum.Kinds["save.over_existing_longer_file"]++
			}
			// the path held ANOTHER wallet before, saved through the real code under another key: replacing a wallet must leave nothing
			// behind that a damaged file, or the old key, could bring back
			wOld, _ := wallet.New()
			oldKey := make([]byte, ks)
			rng.Read(oldKey)
			hOld := fileoperations.New(fileoperations.Config{WalletPath: path, WalletPasswd: hex.EncodeToString(oldKey)}, sealer)
			if err := hOld.SaveWallet(&wOld); err == nil {
				sum.Kinds["save.replaces_an_older_wallet"]++
			}
			if err := h.SaveWallet(&w); err != nil {
				viol("save-failed", map[string]any{"err": err.Error()})
				continue
			}
			file, _ := os.ReadFile(path)
			// round trip
			got, cls := read(path, passwd)
			emit("roundtrip", ks, len(file), true, cls)
			if cls != "CWallet" || !bytes.Equal(got.Private, w.Private) || !bytes.Equal(got.Public, w.Public) || got.Address() != w.Address() {
				viol("roundtrip-differs", map[string]any{"keysize": ks, "class": cls})
			}
			// PEM round trip
			if err := h.SaveToPem(&w); err != nil {
				viol("pem-save-failed", map[string]any{"err": err.Error()})
			} else if pw, err := h.ReadFromPem(); err != nil || !bytes.Equal(pw.Private, w.Private) || !bytes.Equal(pw.Public, w.Public) {
				viol("pem-roundtrip-differs", map[string]any{"err": fmt.Sprint(err)})
			}
			sum.Evaluations++
			sum.Kinds["pem.roundtrip"]++
			tmp := path // damage happens to the wallet file itself, where it lives
			defer os.WriteFile(path, file, 0644)
			check := func(kind string, data []byte, pw string, klen int, detail map[string]any) {
				os.WriteFile(tmp, data, 0644)
				got, cls := read(tmp, pw)
				emit(kind, klen, len(data), false, cls)
				if cls == "CPanic" {
					detail["class"] = cls
					viol(kind+"-panics", detail)
				} else if cls == "CWallet" {
					detail["same_wallet"] = bytes.Equal(got.Private, w.Private)
					detail["the_replaced_wallet"] = bytes.Equal(got.Private, wOld.Private)
					viol(kind+"-yields-wallet", detail)
				}
				sum.Nontrivial++
			}
			// all truncation lengths 0..len-1
			for n := 0; n < len(file); n++ {
				check("truncated", file[:n], passwd, ks, map[string]any{"length": n, "of": len(file), "keysize": ks})
			}
			// every byte position x `vals` different values
			for pos := 0; pos < len(file); pos++ {
				for v := 0; v < vals; v++ {
					m := append([]byte{}, file...)
					d := byte(1 << uint(rng.Intn(8)))
					if v == 1 {
						d = 0xff
					} else if v >= 2 {
						d = byte(1 + rng.Intn(255))
					}
					m[pos] ^= d
					check("corrupted", m, passwd, ks, map[string]any{"pos": pos, "xor": d, "keysize": ks})
				}
			}
			// extension
			check("extended", append(append([]byte{}, file...), 0), passwd, ks, map[string]any{"keysize": ks})
			// wrong keys: same size, the other valid size, invalid sizes
			for _, ws := range []int{ks, 48 - ks, 0, 1, 15, 17, 24, 31, 33, 64} {
				wk := make([]byte, ws)
				rng.Read(wk)
				check("wrongkey", file, hex.EncodeToString(wk), ws, map[string]any{"wrong_key_size": ws, "keysize": ks})
			}
			// wrong keys DERIVED from the right one: zero-padded / truncated / repeated to every other valid AES key size,
			// a trailing or leading zero byte appended, the key reversed (related-key confusions of a key-normalising wrapper)
			derived := map[string][]byte{}
			for _, sz := range []int{16, 24, 32} {
				if sz > ks {
					derived[fmt.Sprintf("zero_padded_to_%d", sz)] = append(append([]byte{}, key...), make([]byte, sz-ks)...)
					rep := append([]byte{}, key...)
					for len(rep) < sz {
						rep = append(rep, key...)
					}
					derived[fmt.Sprintf("repeated_to_%d", sz)] = rep[:sz]
					derived[fmt.Sprintf("zero_prefixed_to_%d", sz)] = append(make([]byte, sz-ks), key...)
				}
				if sz < ks {
					derived[fmt.Sprintf("truncated_to_%d", sz)] = append([]byte{}, key[:sz]...)
					derived[fmt.Sprintf("tail_%d", sz)] = append([]byte{}, key[ks-sz:]...)
				}
			}
			rev := make([]byte, ks)
			for i := range key {
				rev[ks-1-i] = key[i]
			}
			derived["reversed"] = rev
			for name, dk := range derived {
				if bytes.Equal(dk, key) {
					continue
				}
				check("wrongkey", file, hex.EncodeToString(dk), len(dk), map[string]any{"derived_key": name, "keysize": ks})
			}
			// the key of the wallet that was at this path before
			check("wrongkey", file, hex.EncodeToString(oldKey), ks, map[string]any{"key_of_replaced_wallet": true, "keysize": ks})
			// one flipped key bit
			fk := append([]byte{}, key...)
			fk[rng.Intn(len(fk))] ^= 1
			check("wrongkey", file, hex.EncodeToString(fk), ks, map[string]any{"key_bit_flip": true, "keysize": ks})
		}
	}
	sum.Exhaustive = "all truncation lengths and all byte positions of every generated file"
	sum.Samples = []string{"truncated to 0..len-1 bytes; byte i xor {1 bit, 0xff, random}; keys of size 0,1,15,16,17,24,31,32,33,64, keys derived from the right one (zero-padded/prefixed, repeated, truncated, tail, reversed); +1 byte"}
	// Coq cases
	var b bytes.Buffer
	b.WriteString("From Coq Require Import List Arith Bool.\nFrom Verif Require Import WalletFile.\nImport ListNotations.\n")
	b.WriteString("Definition cls_eqb (a b : cls) : bool := match a, b with CWallet, CWallet | CErr, CErr | CPanic, CPanic => true | _, _ => false end.\n")
	b.WriteString("Definition cases : list (nat * nat * bool * cls) := [\n")
	for i, c := range cases {
		if i > 0 {
			b.WriteString(";\n")
		}
		b.WriteString(c)
	}
	b.WriteString("].\nDefinition bad := Eval vm_compute in filter (fun c => match c with (k, f, o, cl) => negb (cls_eqb (read_class k f o o) cl) end) cases.\nPrint bad.\n")
	os.WriteFile(outPath, b.Bytes(), 0644)
	js, _ := json.MarshalIndent(sum, "", " ")
	os.WriteFile(summaryPath, js, 0644)
}
