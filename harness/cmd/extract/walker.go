// extract walker: every consumer of the graph walker (dag.AncestorsWalker) in src/accountant, and every call that
// mutates the graph, with the facts the Coq theorems of C08 are stated over  ->  coq/Gen/WalkerSites.v
package main

import (
	"fmt"
	"go/ast"
	"go/printer"
	"go/token"
	"os"
	"path/filepath"
	"sort"
	"strings"
)

var graphWriters = map[string]bool{"AddVertex": true, "AddVertexByID": true, "AddEdge": true, "DeleteVertex": true, "DeleteEdge": true, "ReduceTransitively": true, "FlushCaches": true}

func isCallTo(e ast.Expr, fn string, arg string) bool {
	call, ok := e.(*ast.CallExpr)
	if !ok {
		return false
	}
	id, ok := call.Fun.(*ast.Ident)
	if !ok || id.Name != fn || len(call.Args) != 1 {
		return false
	}
	a, ok := call.Args[0].(*ast.Ident)
	return ok && a.Name == arg
}

type wsite struct {
	fn                                       string
	line                                     int
	deferDrain                               bool
	undrained, signalUses, otherUses, ranges int
	ledger                                   int
	errChecked                               bool
}

// exitsOf counts the ways control can leave the range loop `loop` without the statement just before being drainWalker(ids)
func undrainedExits(loop *ast.RangeStmt, loopLabel string, ids string, drainedAfterLoop bool) int {
	n := 0
	var walkBlock func(list []ast.Stmt, breakTargetsLoop bool)
	var walkStmt func(s ast.Stmt, prev ast.Stmt, breakTargetsLoop bool)
	drained := func(prev ast.Stmt) bool {
		if es, ok := prev.(*ast.ExprStmt); ok {
			return isCallTo(es.X, "drainWalker", ids) || callsDrainClosure(es.X)
		}
		return false
	}
	walkBlock = func(list []ast.Stmt, bt bool) {
		var prev ast.Stmt
		for _, s := range list {
			walkStmt(s, prev, bt)
			prev = s
		}
	}
	walkStmt = func(s ast.Stmt, prev ast.Stmt, bt bool) {
		switch x := s.(type) {
		case *ast.ReturnStmt:
			viaClosure := false // return abandon(err): a local closure that drains first
			for _, r := range x.Results {
				if callsDrainClosure(r) {
					viaClosure = true
				}
			}
			if !viaClosure && (prev == nil || !drained(prev)) {
				n++
			}
		case *ast.BranchStmt:
			leaves := false
			switch x.Tok {
			case token.BREAK:
				if x.Label == nil {
					leaves = bt
				} else {
					leaves = x.Label.Name != "" && !innerLabels[x.Label.Name]
					if x.Label.Name == loopLabel {
						leaves = true
					}
				}
			case token.GOTO:
				leaves = true
			case token.CONTINUE:
				if x.Label != nil && x.Label.Name != loopLabel && !innerLabels[x.Label.Name] {
					leaves = true // continue of an outer loop abandons this walk
				}
			}
			if leaves && x.Tok == token.BREAK && drainedAfterLoop && (x.Label == nil || x.Label.Name == loopLabel) {
				leaves = false // control continues right after the loop, where the walker is drained first
			}
			if leaves && (prev == nil || !drained(prev)) {
				n++
			}
		case *ast.BlockStmt:
			walkBlock(x.List, bt)
		case *ast.IfStmt:
			walkBlock(x.Body.List, bt)
			if x.Else != nil {
				walkStmt(x.Else, nil, bt)
			}
		case *ast.ForStmt:
			walkBlock(x.Body.List, false)
		case *ast.RangeStmt:
			walkBlock(x.Body.List, false)
		case *ast.SwitchStmt:
			for _, c := range x.Body.List {
				walkBlock(c.(*ast.CaseClause).Body, false)
			}
		case *ast.TypeSwitchStmt:
			for _, c := range x.Body.List {
				walkBlock(c.(*ast.CaseClause).Body, false)
			}
		case *ast.SelectStmt:
			for _, c := range x.Body.List {
				walkBlock(c.(*ast.CommClause).Body, false)
			}
		case *ast.LabeledStmt:
			walkStmt(x.Stmt, prev, bt)
		}
	}
	walkBlock(loop.Body.List, true)
	return n
}

var innerLabels map[string]bool

// drainClosures: local closures `name := func(...) ... { drainWalker(ids); ... }` of the walk being analysed
var drainClosures map[string]bool

func callsDrainClosure(e ast.Expr) bool {
	call, ok := e.(*ast.CallExpr)
	if !ok {
		return false
	}
	id, ok := call.Fun.(*ast.Ident)
	return ok && drainClosures[id.Name]
}

// startsWithDrain: the first statement of the literal's body is drainWalker(ids)
func startsWithDrain(fl *ast.FuncLit, ids string) bool {
	if len(fl.Body.List) == 0 {
		return false
	}
	es, ok := fl.Body.List[0].(*ast.ExprStmt)
	return ok && isCallTo(es.X, "drainWalker", ids)
}

func collectLabels(n ast.Node) map[string]bool {
	m := map[string]bool{}
	ast.Inspect(n, func(nd ast.Node) bool {
		if l, ok := nd.(*ast.LabeledStmt); ok {
			m[l.Label.Name] = true
		}
		return true
	})
	return m
}

// callee: something the walker channel can be handed to
type callee struct {
	params *ast.FieldList
	body   *ast.BlockStmt
}

// pkgCallees: the functions ("name") and methods (".name") of the package, filled by walkerSites
var pkgCallees = map[string]callee{}

// localClosures: name -> callee for every `name := func(...) {...}` of a unit, on top of the package's functions and methods
func localClosures(body *ast.BlockStmt) map[string]callee {
	m := map[string]callee{}
	for k, v := range pkgCallees {
		m[k] = v
	}
	ast.Inspect(body, func(nd ast.Node) bool {
		if da, ok := nd.(*ast.AssignStmt); ok && da.Tok == token.DEFINE && len(da.Lhs) == 1 && len(da.Rhs) == 1 {
			if fl, ok := da.Rhs[0].(*ast.FuncLit); ok {
				if id, ok := da.Lhs[0].(*ast.Ident); ok {
					m[id.Name] = callee{fl.Type.Params, fl.Body}
				}
			}
		}
		return true
	})
	return m
}

// consume: how the statements `rest` (those after the walker was created, or the body of a local closure the walker
// channel was handed to) use the ids channel `ids` and the signal channel `sig`
func consume(rest []ast.Stmt, ids, sig string, s *wsite, rangesOverWalker *[]*ast.RangeStmt, closures map[string]callee) {
	// the channel handed to a local closure as its k-th argument: that closure's body is the consumer
	for _, r := range rest {
		delegated := false
		ast.Inspect(r, func(nd ast.Node) bool {
			call, ok := nd.(*ast.CallExpr)
			if !ok || delegated {
				return true
			}
			// a local closure f(...), a function of the package f(...) or a method x.f(...)
			var fname string
			switch f := call.Fun.(type) {
			case *ast.Ident:
				fname = f.Name
			case *ast.SelectorExpr:
				fname = "." + f.Sel.Name
			default:
				return true
			}
			fl, ok := closures[fname]
			if !ok || fname == "drainWalker" {
				return true
			}
			for k, a := range call.Args {
				if id, ok := a.(*ast.Ident); ok && id.Name == ids {
					var prm string
					i := 0
					for _, f := range fl.params.List {
						for _, n := range f.Names {
							if i == k {
								prm = n.Name
							}
							i++
						}
					}
					if prm != "" && s.ranges == 0 {
						sub := wsite{}
						consume(fl.body.List, prm, "_", &sub, rangesOverWalker, map[string]callee{})
						s.deferDrain = s.deferDrain || sub.deferDrain
						s.undrained += sub.undrained
						s.ranges += sub.ranges
						s.otherUses += sub.otherUses - 1 // the hand-over itself is counted as a use below
						delegated = true
					}
				}
			}
			return true
		})
	}
	drainClosures = map[string]bool{}
	for _, r := range rest {
		if da, ok := r.(*ast.AssignStmt); ok && da.Tok == token.DEFINE && len(da.Lhs) == 1 && len(da.Rhs) == 1 {
			if fl, ok := da.Rhs[0].(*ast.FuncLit); ok && startsWithDrain(fl, ids) {
				if id, ok := da.Lhs[0].(*ast.Ident); ok {
					drainClosures[id.Name] = true
				}
			}
		}
	}
	for ri, r := range rest {
		r0 := r
		label := ""
		if ls, ok := r.(*ast.LabeledStmt); ok {
			label = ls.Label.Name
			r0 = ls.Stmt
		}
		after := false // is the statement right after this one drainWalker(ids)?
		if ri+1 < len(rest) {
			if es, ok := rest[ri+1].(*ast.ExprStmt); ok && isCallTo(es.X, "drainWalker", ids) {
				after = true
			}
		}
		switch y := r0.(type) {
		case *ast.DeferStmt:
			if isCallTo(y.Call, "drainWalker", ids) && s.ranges == 0 {
				s.deferDrain = true
			}
			if fl, ok := y.Call.Fun.(*ast.FuncLit); ok && startsWithDrain(fl, ids) && s.ranges == 0 {
				s.deferDrain = true // defer func() { drainWalker(ids); ... }()
			}
		case *ast.RangeStmt:
			if id, ok := y.X.(*ast.Ident); ok && id.Name == ids {
				s.ranges++
				*rangesOverWalker = append(*rangesOverWalker, y)
				innerLabels = collectLabels(y.Body)
				s.undrained += undrainedExits(y, label, ids, after)
			}
		}
	}
	// uses of the two channels
	for _, r := range rest {
		ast.Inspect(r, func(nd ast.Node) bool {
			switch y := nd.(type) {
			case *ast.CallExpr:
				if isCallTo(y, "drainWalker", ids) {
					return false
				}
			case *ast.RangeStmt:
				if id, ok := y.X.(*ast.Ident); ok && id.Name == ids {
					ast.Inspect(y.Body, func(n2 ast.Node) bool {
						if c, ok := n2.(*ast.CallExpr); ok && isCallTo(c, "drainWalker", ids) {
							return false
						}
						if id, ok := n2.(*ast.Ident); ok {
							if id.Name == ids {
								s.otherUses++
							}
							if sig != "_" && id.Name == sig {
								s.signalUses++
							}
						}
						return true
					})
					return false
				}
			case *ast.Ident:
				if y.Name == ids {
					s.otherUses++
				}
				if sig != "_" && y.Name == sig {
					s.signalUses++
				}
			}
			return true
		})
	}
}

func walkerSites(src, out string) error {
	p, err := loadPkg(filepath.Join(src, "accountant"))
	if err != nil {
		return err
	}
	pkgCallees = map[string]callee{}
	for _, name := range p.order {
		u := p.units[name]
		if u.decl == nil || u.goLit || u.decl.Body == nil {
			continue
		}
		key := u.decl.Name.Name
		if u.decl.Recv != nil {
			key = "." + key
		}
		pkgCallees[key] = callee{u.decl.Type.Params, u.decl.Body}
	}
	var sites []wsite
	type gw struct {
		fn, method string
		line       int
		ledger     int
		inWalk     bool
	}
	var writers []gw
	drainOK := false
	// drainWalker(c): [if c == nil { return }] for range c {}
	if u, ok := p.units["drainWalker"]; ok && len(u.decl.Type.Params.List) == 1 && len(u.decl.Type.Params.List[0].Names) == 1 && len(u.body.List) >= 1 {
		prm := u.decl.Type.Params.List[0].Names[0].Name
		pre := u.body.List[:len(u.body.List)-1]
		preOK := len(pre) == 0
		if len(pre) == 1 {
			if is, ok := pre[0].(*ast.IfStmt); ok && is.Init == nil && is.Else == nil && len(is.Body.List) == 1 {
				if be, ok := is.Cond.(*ast.BinaryExpr); ok && be.Op == token.EQL {
					x, _ := be.X.(*ast.Ident)
					y, _ := be.Y.(*ast.Ident)
					rt, isRet := is.Body.List[0].(*ast.ReturnStmt)
					preOK = x != nil && y != nil && x.Name == prm && y.Name == "nil" && isRet && len(rt.Results) == 0
				}
			}
		}
		if rs, ok := u.body.List[len(u.body.List)-1].(*ast.RangeStmt); ok && preOK && len(rs.Body.List) == 0 {
			if id, ok := rs.X.(*ast.Ident); ok && id.Name == prm {
				drainOK = true
			}
		}
	}
	for _, name := range p.order {
		u := p.units[name]
		// callbacks (function literals that are not goroutines) containing graph writes count as "inside a walk"
		var rangesOverWalker []*ast.RangeStmt
		// find walker creations in any block of the unit
		var visitBlock func(list []ast.Stmt)
		visitBlock = func(list []ast.Stmt) {
			for i, st := range list {
				as, ok := st.(*ast.AssignStmt)
				if !ok || len(as.Rhs) != 1 || len(as.Lhs) < 2 {
					continue
				}
				call, ok := as.Rhs[0].(*ast.CallExpr)
				if !ok {
					continue
				}
				sel, ok := call.Fun.(*ast.SelectorExpr)
				if !ok || sel.Sel.Name != "AncestorsWalker" {
					continue
				}
				ids := as.Lhs[0].(*ast.Ident).Name
				sig := as.Lhs[1].(*ast.Ident).Name
				s := wsite{fn: name, line: p.line(as.Pos()), ledger: u.heldAt(as.Pos())["AccountingBook.mux"]}
				rest := list[i+1:]
				// a failed AncestorsWalker returns a nil channel, and ranging over nil blocks forever: the error must be
				// checked, or the id must have passed a checked dag.IsRoot/GetVertex earlier in the function
				if len(as.Lhs) == 3 {
					if ev, ok := as.Lhs[2].(*ast.Ident); ok && ev.Name != "_" {
						if len(rest) > 0 {
							if is, ok := rest[0].(*ast.IfStmt); ok {
								if be, ok := is.Cond.(*ast.BinaryExpr); ok && be.Op == token.NEQ {
									if x, ok := be.X.(*ast.Ident); ok && x.Name == ev.Name && len(is.Body.List) > 0 {
										switch l := is.Body.List[len(is.Body.List)-1].(type) {
										case *ast.ReturnStmt:
											s.errChecked = true
										case *ast.BranchStmt:
											s.errChecked = l.Tok == token.BREAK || l.Tok == token.CONTINUE
										}
									}
								}
							}
						}
					} else if len(call.Args) == 1 {
						arg := exprText(p.fset, call.Args[0])
						walkUnit(u.body, func(nd ast.Node) bool {
							if c, ok := nd.(*ast.CallExpr); ok && c.Pos() < as.Pos() && len(c.Args) == 1 {
								if sl, ok := c.Fun.(*ast.SelectorExpr); ok && (sl.Sel.Name == "IsRoot" || sl.Sel.Name == "GetVertex") && p.typeOf(u, sl.X) == "dag.DAG" && exprText(p.fset, c.Args[0]) == arg {
									s.errChecked = true
								}
							}
							return true
						})
					}
				}
				consume(rest, ids, sig, &s, &rangesOverWalker, localClosures(u.body))
				sites = append(sites, s)
			}
			for _, st := range list {
				ast.Inspect(st, func(nd ast.Node) bool {
					if gs, ok := nd.(*ast.GoStmt); ok {
						if _, ok := gs.Call.Fun.(*ast.FuncLit); ok {
							return false
						}
					}
					if b, ok := nd.(*ast.BlockStmt); ok {
						visitBlock(b.List)
						return false
					}
					if c, ok := nd.(*ast.CaseClause); ok {
						visitBlock(c.Body)
						return false
					}
					if c, ok := nd.(*ast.CommClause); ok {
						visitBlock(c.Body)
						return false
					}
					return true
				})
			}
		}
		visitBlock(u.body.List)
		inWalk := func(pos token.Pos) bool {
			for _, r := range rangesOverWalker {
				if pos >= r.Body.Pos() && pos <= r.Body.End() {
					return true
				}
			}
			return false
		}
		// function literals that are not launched as goroutines and are not deferred: potential walk callbacks
		var callbacks []*ast.FuncLit
		walkUnit(u.body, func(nd ast.Node) bool {
			if ds, ok := nd.(*ast.DeferStmt); ok {
				if _, ok := ds.Call.Fun.(*ast.FuncLit); ok {
					return false
				}
			}
			if fl, ok := nd.(*ast.FuncLit); ok {
				callbacks = append(callbacks, fl)
			}
			return true
		})
		inCallback := func(pos token.Pos) bool {
			for _, c := range callbacks {
				if pos >= c.Pos() && pos <= c.End() {
					return true
				}
			}
			return false
		}
		walkUnit(u.body, func(nd ast.Node) bool {
			call, ok := nd.(*ast.CallExpr)
			if !ok {
				return true
			}
			sel, ok := call.Fun.(*ast.SelectorExpr)
			if !ok || !graphWriters[sel.Sel.Name] {
				return true
			}
			if p.typeOf(u, sel.X) != "dag.DAG" {
				return true
			}
			writers = append(writers, gw{fn: name, method: sel.Sel.Name, line: p.line(call.Pos()),
				ledger: u.heldAt(call.Pos())["AccountingBook.mux"], inWalk: inWalk(call.Pos()) || inCallback(call.Pos())})
			return true
		})
	}
	sort.Slice(sites, func(i, j int) bool { return sites[i].line < sites[j].line })
	sort.Slice(writers, func(i, j int) bool { return writers[i].line < writers[j].line })
	var b strings.Builder
	b.WriteString("(* GENERATED by harness/cmd/extract walker from /repo/src/accountant — do not edit *)\n")
	b.WriteString("From Coq Require Import List String.\nFrom Verif Require Import WalkerSite.\nImport ListNotations.\nLocal Open Scope string_scope.\n\n")
	fmt.Fprintf(&b, "Definition drain_fn_ok : bool := %s.\n\n", coqBool(drainOK))
	b.WriteString("(* WSite function line defer_drain undrained_exits signal_uses other_channel_uses range_loops ledger_lock(0 none,1 R,2 W) error_checked *)\n")
	b.WriteString("Definition walker_sites : list wsite := [\n")
	for i, s := range sites {
		sep := ";"
		if i == len(sites)-1 {
			sep = ""
		}
		fmt.Fprintf(&b, "  WSite %s %d %s %d %d %d %d %d %s%s\n", coqStr(s.fn), s.line, coqBool(s.deferDrain), s.undrained, s.signalUses, s.otherUses, s.ranges, s.ledger, coqBool(s.errChecked), sep)
	}
	b.WriteString("].\n\n(* GWriter function line method ledger_lock in_walk_or_callback *)\nDefinition graph_writers : list gwriter := [\n")
	for i, w := range writers {
		sep := ";"
		if i == len(writers)-1 {
			sep = ""
		}
		fmt.Fprintf(&b, "  GWriter %s %d %s %d %s%s\n", coqStr(w.fn), w.line, coqStr(w.method), w.ledger, coqBool(w.inWalk), sep)
	}
	b.WriteString("].\n")
	return writeIfChanged(out, b.String())
}

func exprText(fset *token.FileSet, e ast.Expr) string {
	var sb strings.Builder
	printer.Fprint(&sb, fset, e)
	return sb.String()
}

func writeIfChanged(out, s string) error {
	if old, err := os.ReadFile(out); err == nil && string(old) == s {
		return nil
	}
	return os.WriteFile(out, []byte(s), 0644)
}
