// lockan: a syntactic lock-discipline analysis of one Go package (go/ast only, no type checker).
// Units of execution are function declarations and the function literals launched with `go`; other function
// literals (callbacks, deferred closures) belong to the unit that contains them.  A lock is "Type.field"
// acquired with X.field.Lock()/RLock() and released by a deferred Unlock()/RUnlock() in the same block; it is
// held from the acquiring statement to the end of the unit.  Unexported methods that are only called from
// inside the package inherit the locks all their call sites hold (greatest fixed point).
package main

import (
	"fmt"
	"go/ast"
	"go/parser"
	"go/token"
	"os"
	"path/filepath"
	"sort"
	"strings"
)

type lockset map[string]int // lock name -> 1 (read) | 2 (write)

type callsite struct {
	callee string
	pos    token.Pos
	held   lockset // locks acquired by the unit itself before this point
	isGo   bool
}

type unit struct {
	name     string
	file     string
	recvType string
	vars     map[string]string // identifier -> type name (receiver, parameters, captured receiver)
	body     *ast.BlockStmt
	decl     *ast.FuncDecl
	exported bool
	goLit    bool // a `go func(){}` literal
	multi    bool // may run concurrently with another instance of itself
	acq      []acquire
	calls    []callsite
	inherit  lockset
	root     bool
}

type acquire struct {
	lock string
	mode int
	pos  token.Pos
	end  token.Pos // 0: held to the end of the unit (deferred unlock); otherwise the inline Unlock statement
}

type pkgInfo struct {
	fset     *token.FileSet
	files    map[string]*ast.File
	structs  map[string]map[string]string // type -> field -> type expression string
	units    map[string]*unit
	order    []string
	methods  map[string]bool // "Type.method"
	funcs    map[string]bool
	wrappers map[string]acquire // "Type.method" -> the lock a func-valued argument runs under
}

func typeString(e ast.Expr) string {
	switch t := e.(type) {
	case *ast.Ident:
		return t.Name
	case *ast.StarExpr:
		return typeString(t.X)
	case *ast.SelectorExpr:
		return typeString(t.X) + "." + t.Sel.Name
	case *ast.ArrayType:
		return "[]" + typeString(t.Elt)
	case *ast.MapType:
		return "map[" + typeString(t.Key) + "]" + typeString(t.Value)
	case *ast.ChanType:
		return "chan " + typeString(t.Value)
	case *ast.FuncType:
		return "func"
	case *ast.InterfaceType:
		return "interface"
	case *ast.IndexExpr:
		return typeString(t.X)
	}
	return "?"
}

func hasVerifTag(f *ast.File) bool {
	for _, cg := range f.Comments {
		if cg.Pos() > f.Package {
			break
		}
		for _, c := range cg.List {
			if strings.HasPrefix(c.Text, "//go:build") && strings.Contains(c.Text, "verif") {
				return true
			}
		}
	}
	return false
}

func loadPkg(dir string) (*pkgInfo, error) {
	p := &pkgInfo{fset: token.NewFileSet(), files: map[string]*ast.File{}, structs: map[string]map[string]string{},
		units: map[string]*unit{}, methods: map[string]bool{}, funcs: map[string]bool{}}
	ents, err := os.ReadDir(dir)
	if err != nil {
		return nil, err
	}
	for _, e := range ents {
		n := e.Name()
		if !strings.HasSuffix(n, ".go") || strings.HasSuffix(n, "_test.go") {
			continue
		}
		f, err := parser.ParseFile(p.fset, filepath.Join(dir, n), nil, parser.ParseComments)
		if err != nil {
			return nil, err
		}
		if hasVerifTag(f) {
			continue
		}
		p.files[n] = f
	}
	names := make([]string, 0, len(p.files))
	for n := range p.files {
		names = append(names, n)
	}
	sort.Strings(names)
	for _, n := range names {
		for _, d := range p.files[n].Decls {
			switch g := d.(type) {
			case *ast.GenDecl:
				for _, s := range g.Specs {
					if ts, ok := s.(*ast.TypeSpec); ok {
						if st, ok := ts.Type.(*ast.StructType); ok {
							m := map[string]string{}
							for _, fl := range st.Fields.List {
								for _, id := range fl.Names {
									m[id.Name] = typeString(fl.Type)
								}
							}
							p.structs[ts.Name.Name] = m
						}
					}
				}
			case *ast.FuncDecl:
				if g.Body == nil {
					continue
				}
				u := &unit{file: n, body: g.Body, decl: g, vars: map[string]string{}, exported: g.Name.IsExported()}
				if g.Recv != nil && len(g.Recv.List) == 1 {
					u.recvType = typeString(g.Recv.List[0].Type)
					if len(g.Recv.List[0].Names) == 1 {
						u.vars[g.Recv.List[0].Names[0].Name] = u.recvType
					}
					u.name = u.recvType + "." + g.Name.Name
					p.methods[u.name] = true
				} else {
					u.name = g.Name.Name
					p.funcs[u.name] = true
				}
				for _, fl := range g.Type.Params.List {
					for _, id := range fl.Names {
						u.vars[id.Name] = typeString(fl.Type)
					}
				}
				p.units[u.name] = u
				p.order = append(p.order, u.name)
			}
		}
	}
	// go-literals become units of their own
	for _, name := range append([]string{}, p.order...) {
		u := p.units[name]
		k := 0
		ast.Inspect(u.body, func(nd ast.Node) bool {
			if gs, ok := nd.(*ast.GoStmt); ok {
				if fl, ok := gs.Call.Fun.(*ast.FuncLit); ok {
					k++
					g := &unit{name: fmt.Sprintf("%s$go%d", u.name, k), file: u.file, recvType: u.recvType, vars: map[string]string{}, body: fl.Body, goLit: true, root: true}
					for a, b := range u.vars {
						g.vars[a] = b
					}
					for _, f := range fl.Type.Params.List {
						for _, id := range f.Names {
							g.vars[id.Name] = typeString(f.Type)
						}
					}
					g.multi = u.exported // a goroutine started by an API call exists once per call
					p.units[g.name] = g
					p.order = append(p.order, g.name)
				}
			}
			return true
		})
	}
	p.findWrappers()
	for _, name := range p.order {
		p.scan(p.units[name])
	}
	p.solve()
	return p, nil
}

// typeOf resolves the static type name of simple expressions (identifiers and field selections).
func (p *pkgInfo) typeOf(u *unit, e ast.Expr) string {
	switch x := e.(type) {
	case *ast.Ident:
		return strings.TrimPrefix(u.vars[x.Name], "*")
	case *ast.ParenExpr:
		return p.typeOf(u, x.X)
	case *ast.StarExpr:
		return p.typeOf(u, x.X)
	case *ast.SelectorExpr:
		t := p.typeOf(u, x.X)
		if fs, ok := p.structs[t]; ok {
			if ft, ok := fs[x.Sel.Name]; ok {
				return ft
			}
		}
	}
	return ""
}

func lockCall(p *pkgInfo, u *unit, call *ast.CallExpr) (lock string, op string, ok bool) {
	sel, ok1 := call.Fun.(*ast.SelectorExpr)
	if !ok1 {
		return
	}
	switch sel.Sel.Name {
	case "Lock", "RLock", "Unlock", "RUnlock":
	default:
		return
	}
	fsel, ok2 := sel.X.(*ast.SelectorExpr)
	if !ok2 {
		return
	}
	ft := p.typeOf(u, fsel)
	if ft != "sync.RWMutex" && ft != "sync.Mutex" {
		return
	}
	owner := p.typeOf(u, fsel.X)
	if owner == "" {
		return
	}
	return owner + "." + fsel.Sel.Name, sel.Sel.Name, true
}

// isOwnBody reports whether node nd lies in unit u proper (not inside a go-literal, which is another unit).
func walkUnit(body *ast.BlockStmt, f func(ast.Node) bool) {
	ast.Inspect(body, func(nd ast.Node) bool {
		if gs, ok := nd.(*ast.GoStmt); ok {
			if _, ok := gs.Call.Fun.(*ast.FuncLit); ok {
				for _, a := range gs.Call.Args { // arguments are evaluated by the parent
					ast.Inspect(a, f)
				}
				return false
			}
		}
		if nd == nil {
			return false
		}
		return f(nd)
	})
}

// findWrappers: methods of the shape `func (x *T) with(f func()) { x.mu.Lock(); defer x.mu.Unlock(); f() }` (or the
// read-lock variant): a function literal passed to them runs with that lock held.
func (p *pkgInfo) findWrappers() {
	p.wrappers = map[string]acquire{}
	for _, n := range p.order {
		u := p.units[n]
		if u.decl == nil || u.goLit || u.decl.Recv == nil || u.body == nil || len(u.body.List) != 3 {
			continue
		}
		prm := ""
		if pl := u.decl.Type.Params.List; len(pl) == 1 && len(pl[0].Names) == 1 {
			if ft, ok := pl[0].Type.(*ast.FuncType); ok && (ft.Params == nil || len(ft.Params.List) == 0) && (ft.Results == nil || len(ft.Results.List) == 0) {
				prm = pl[0].Names[0].Name
			}
		}
		if prm == "" {
			continue
		}
		es, ok1 := u.body.List[0].(*ast.ExprStmt)
		ds, ok2 := u.body.List[1].(*ast.DeferStmt)
		cs, ok3 := u.body.List[2].(*ast.ExprStmt)
		if !ok1 || !ok2 || !ok3 {
			continue
		}
		lc, ok := es.X.(*ast.CallExpr)
		if !ok {
			continue
		}
		l, op, ok := lockCall(p, u, lc)
		l2, op2, okd := lockCall(p, u, ds.Call)
		fc, okc := cs.X.(*ast.CallExpr)
		if !ok || !okd || !okc || l != l2 || len(fc.Args) != 0 {
			continue
		}
		if id, ok := fc.Fun.(*ast.Ident); !ok || id.Name != prm {
			continue
		}
		switch {
		case op == "Lock" && op2 == "Unlock":
			p.wrappers[n] = acquire{lock: l, mode: 2}
		case op == "RLock" && op2 == "RUnlock":
			p.wrappers[n] = acquire{lock: l, mode: 1}
		}
	}
}

func (p *pkgInfo) scan(u *unit) {
	// function literals handed to a lock wrapper run under its lock
	walkUnit(u.body, func(nd ast.Node) bool {
		if call, ok := nd.(*ast.CallExpr); ok && len(call.Args) == 1 {
			if fl, ok := call.Args[0].(*ast.FuncLit); ok {
				if w, ok := p.wrappers[p.callee(u, call)]; ok {
					u.acq = append(u.acq, acquire{w.lock, w.mode, fl.Body.Lbrace, fl.Body.Rbrace})
				}
			}
		}
		return true
	})
	// local variables built from composite literals of the package's struct types: x := T{...} / &T{...}
	ast.Inspect(u.body, func(nd ast.Node) bool {
		as, ok := nd.(*ast.AssignStmt)
		if !ok || as.Tok != token.DEFINE || len(as.Lhs) != len(as.Rhs) {
			return true
		}
		for i, r := range as.Rhs {
			if ue, ok := r.(*ast.UnaryExpr); ok && ue.Op == token.AND {
				r = ue.X
			}
			if cl, ok := r.(*ast.CompositeLit); ok && cl.Type != nil {
				if id, ok := as.Lhs[i].(*ast.Ident); ok {
					if _, known := p.structs[typeString(cl.Type)]; known {
						if _, shadow := u.vars[id.Name]; !shadow {
							u.vars[id.Name] = typeString(cl.Type)
						}
					}
				}
			}
		}
		return true
	})
	// `defer x.lock()()`: the helper takes the lock and returns the function that releases it; held from here to the end of the unit
	for _, st := range u.body.List {
		ds, ok := st.(*ast.DeferStmt)
		if !ok {
			continue
		}
		inner, ok := ds.Call.Fun.(*ast.CallExpr)
		if !ok {
			continue
		}
		cu, ok := p.units[p.callee(u, inner)]
		if !ok || cu.body == nil {
			continue
		}
		for _, cs := range cu.body.List {
			if es, ok := cs.(*ast.ExprStmt); ok {
				if call, ok := es.X.(*ast.CallExpr); ok {
					if l, op, ok := lockCall(p, cu, call); ok {
						switch op {
						case "Lock":
							u.acq = append(u.acq, acquire{l, 2, st.End(), 0})
						case "RLock":
							u.acq = append(u.acq, acquire{l, 1, st.End(), 0})
						}
					}
				}
			}
		}
	}
	// lock acquisitions: top-level statements "X.mux.Lock()" directly followed (anywhere later at top level) by a deferred unlock
	deferred := map[string]bool{}
	for _, st := range u.body.List {
		if ds, ok := st.(*ast.DeferStmt); ok {
			if l, op, ok := lockCall(p, u, ds.Call); ok && (op == "Unlock" || op == "RUnlock") {
				deferred[l] = true
			}
		}
	}
	for _, st := range u.body.List {
		if es, ok := st.(*ast.ExprStmt); ok {
			if call, ok := es.X.(*ast.CallExpr); ok {
				if l, op, ok := lockCall(p, u, call); ok && deferred[l] {
					switch op {
					case "Lock":
						u.acq = append(u.acq, acquire{l, 2, st.End(), 0})
					case "RLock":
						u.acq = append(u.acq, acquire{l, 1, st.End(), 0})
					}
				}
			}
		}
	}
	// inline regions: X.Lock() ... X.Unlock() as statements of one block (any nesting level)
	var inline func(list []ast.Stmt)
	inline = func(list []ast.Stmt) {
		for i, st := range list {
			es, ok := st.(*ast.ExprStmt)
			if !ok {
				continue
			}
			call, ok := es.X.(*ast.CallExpr)
			if !ok {
				continue
			}
			l, op, ok := lockCall(p, u, call)
			if !ok || (op != "Lock" && op != "RLock") {
				continue
			}
			if deferred[l] && containsStmt(u.body.List, st) {
				continue // handled above
			}
			want, mode := "Unlock", 2
			if op == "RLock" {
				want, mode = "RUnlock", 1
			}
			for _, later := range list[i+1:] {
				if es2, ok := later.(*ast.ExprStmt); ok {
					if c2, ok := es2.X.(*ast.CallExpr); ok {
						if l2, op2, ok := lockCall(p, u, c2); ok && l2 == l && op2 == want {
							u.acq = append(u.acq, acquire{l, mode, st.End(), later.Pos()})
							break
						}
					}
				}
			}
		}
	}
	walkUnit(u.body, func(nd ast.Node) bool {
		switch b := nd.(type) {
		case *ast.BlockStmt:
			inline(b.List)
		case *ast.CaseClause:
			inline(b.Body)
		case *ast.CommClause:
			inline(b.Body)
		}
		return true
	})
	walkUnit(u.body, func(nd ast.Node) bool {
		switch x := nd.(type) {
		case *ast.GoStmt:
			if c := p.callee(u, x.Call); c != "" {
				u.calls = append(u.calls, callsite{callee: c, pos: x.Pos(), held: lockset{}, isGo: true})
			}
			for _, a := range x.Call.Args {
				_ = a
			}
			return false
		case *ast.CallExpr:
			if c := p.callee(u, x); c != "" {
				u.calls = append(u.calls, callsite{callee: c, pos: x.Pos(), held: u.selfHeld(x.Pos())})
			}
		}
		return true
	})
}

func containsStmt(list []ast.Stmt, s ast.Stmt) bool {
	for _, x := range list {
		if x == s {
			return true
		}
	}
	return false
}

func (p *pkgInfo) callee(u *unit, call *ast.CallExpr) string {
	switch f := call.Fun.(type) {
	case *ast.Ident:
		if p.funcs[f.Name] {
			return f.Name
		}
	case *ast.SelectorExpr:
		t := p.typeOf(u, f.X)
		if t != "" && p.methods[t+"."+f.Sel.Name] {
			return t + "." + f.Sel.Name
		}
	}
	return ""
}

func (u *unit) selfHeld(pos token.Pos) lockset {
	ls := lockset{}
	for _, a := range u.acq {
		if pos >= a.pos && (a.end == 0 || pos < a.end) && a.mode > ls[a.lock] {
			ls[a.lock] = a.mode
		}
	}
	return ls
}

func (u *unit) heldAt(pos token.Pos) lockset {
	ls := u.selfHeld(pos)
	for l, m := range u.inherit {
		if m > ls[l] {
			ls[l] = m
		}
	}
	return ls
}

func meet(a, b lockset) lockset {
	r := lockset{}
	for l, m := range a {
		if n, ok := b[l]; ok {
			if n < m {
				m = n
			}
			r[l] = m
		}
	}
	return r
}

// solve computes, for every non-root unit, the locks held at all of its call sites (greatest fixed point).
func (p *pkgInfo) solve() {
	callers := map[string][]struct {
		u *unit
		c callsite
	}{}
	for _, n := range p.order {
		u := p.units[n]
		for _, c := range u.calls {
			callers[c.callee] = append(callers[c.callee], struct {
				u *unit
				c callsite
			}{u, c})
		}
	}
	for _, n := range p.order {
		u := p.units[n]
		if u.goLit {
			continue
		}
		viaGo, goFromMethod := false, false
		for _, c := range callers[n] {
			if c.c.isGo {
				viaGo = true
				if c.u.recvType != "" { // started by a method: once per call, so several instances can be alive
					goFromMethod = true
				}
			}
		}
		u.root = u.exported || len(callers[n]) == 0 || viaGo
		u.multi = u.exported || goFromMethod
	}
	top := lockset{}
	for _, n := range p.order {
		for _, a := range p.units[n].acq {
			top[a.lock] = 2
		}
	}
	for _, n := range p.order {
		u := p.units[n]
		if u.root {
			u.inherit = lockset{}
		} else {
			u.inherit = lockset{}
			for l, m := range top {
				u.inherit[l] = m
			}
		}
	}
	for changed := true; changed; {
		changed = false
		for _, n := range p.order {
			u := p.units[n]
			if u.root {
				continue
			}
			var acc lockset
			for _, c := range callers[n] {
				h := lockset{}
				for l, m := range c.u.inherit {
					h[l] = m
				}
				for l, m := range c.c.held {
					if m > h[l] {
						h[l] = m
					}
				}
				if acc == nil {
					acc = h
				} else {
					acc = meet(acc, h)
				}
			}
			if acc == nil {
				acc = lockset{}
			}
			if len(acc) != len(u.inherit) {
				changed = true
			} else {
				for l, m := range acc {
					if u.inherit[l] != m {
						changed = true
					}
				}
			}
			u.inherit = acc
		}
	}
}

// roots reachable: for every unit the set of root units from which it can be called
func (p *pkgInfo) rootsOf() map[string][]string {
	res := map[string]map[string]bool{}
	var visit func(root string, n string, seen map[string]bool)
	visit = func(root, n string, seen map[string]bool) {
		if seen[n] {
			return
		}
		seen[n] = true
		if res[n] == nil {
			res[n] = map[string]bool{}
		}
		res[n][root] = true
		for _, c := range p.units[n].calls {
			if !c.isGo {
				visit(root, c.callee, seen)
			}
		}
	}
	for _, n := range p.order {
		if p.units[n].root {
			visit(n, n, map[string]bool{})
		}
	}
	out := map[string][]string{}
	for n, m := range res {
		for r := range m {
			out[n] = append(out[n], r)
		}
		sort.Strings(out[n])
	}
	return out
}

func (p *pkgInfo) line(pos token.Pos) int { return p.fset.Position(pos).Line }

func coqStr(s string) string { return "\"" + strings.ReplaceAll(s, "\"", "'") + "\"" }
func coqBool(b bool) string {
	if b {
		return "true"
	}
	return "false"
}
func coqLocks(ls lockset) string {
	ks := make([]string, 0, len(ls))
	for k := range ls {
		ks = append(ks, k)
	}
	sort.Strings(ks)
	parts := []string{}
	for _, k := range ks {
		parts = append(parts, fmt.Sprintf("(%s, %d)", coqStr(k), ls[k]))
	}
	return "[" + strings.Join(parts, "; ") + "]"
}
