package main

// lock leaks: a unit that takes a lock without a deferred unlock must have released it on every way out.
// A may-analysis over the statement tree: the abstract state is the set of locks that MAY be held; `return` (and falling off
// the end of the unit) with a non-empty state is a leak. Branches are joined by union; loops are analysed once with the
// entry state joined into the exit state; panics and os.Exit-like calls are ignored.

import (
	"go/ast"
	"go/token"
	"sort"
)

type leakRec struct {
	unit string
	line int
	lock string
}

type heldSet map[string]bool

func (h heldSet) clone() heldSet {
	c := heldSet{}
	for k := range h {
		c[k] = true
	}
	return c
}
func (h heldSet) join(o heldSet) {
	for k := range o {
		h[k] = true
	}
}

func collectLeaks(p *pkgInfo) []leakRec {
	var out []leakRec
	for _, name := range p.order {
		u := p.units[name]
		if u.body == nil {
			continue
		}
		// a helper that returns a function hands the release to its caller (`defer x.lock()()`): not a leak
		handsOver := false
		if u.decl != nil && u.decl.Type.Results != nil {
			for _, r := range u.decl.Type.Results.List {
				if _, ok := r.Type.(*ast.FuncType); ok {
					handsOver = true
				}
			}
		}
		if handsOver {
			continue
		}
		deferred := map[string]bool{}
		for _, st := range u.body.List {
			if ds, ok := st.(*ast.DeferStmt); ok {
				if l, op, ok := lockCall(p, u, ds.Call); ok && (op == "Unlock" || op == "RUnlock") {
					deferred[l] = true
				}
			}
		}
		report := func(pos token.Pos, h heldSet) {
			var ls []string
			for l := range h {
				ls = append(ls, l)
			}
			sort.Strings(ls)
			for _, l := range ls {
				out = append(out, leakRec{name, p.line(pos), l})
			}
		}
		// returns the state at fall-through and whether fall-through is possible
		var block func(list []ast.Stmt, h heldSet) (heldSet, bool)
		var stmt func(s ast.Stmt, h heldSet) (heldSet, bool)
		block = func(list []ast.Stmt, h heldSet) (heldSet, bool) {
			cur := h.clone()
			for _, s := range list {
				var ft bool
				cur, ft = stmt(s, cur)
				if !ft {
					return cur, false
				}
			}
			return cur, true
		}
		stmt = func(s ast.Stmt, h heldSet) (heldSet, bool) {
			switch x := s.(type) {
			case *ast.ExprStmt:
				if call, ok := x.X.(*ast.CallExpr); ok {
					if l, op, ok := lockCall(p, u, call); ok && !deferred[l] {
						switch op {
						case "Lock", "RLock":
							h[l] = true
						case "Unlock", "RUnlock":
							delete(h, l)
						}
					}
					if id, ok := call.Fun.(*ast.Ident); ok && id.Name == "panic" {
						return h, false
					}
				}
				return h, true
			case *ast.ReturnStmt:
				if len(h) > 0 {
					report(x.Pos(), h)
				}
				return h, false
			case *ast.BranchStmt:
				// break / continue / goto: the state flows to the loop exit or head; approximated by the loop handling below
				return h, false
			case *ast.BlockStmt:
				return block(x.List, h)
			case *ast.LabeledStmt:
				return stmt(x.Stmt, h)
			case *ast.IfStmt:
				a, fa := block(x.Body.List, h)
				res := heldSet{}
				ft := false
				if fa {
					res.join(a)
					ft = true
				}
				if x.Else != nil {
					b, fb := stmt(x.Else, h.clone())
					if fb {
						res.join(b)
						ft = true
					}
				} else {
					res.join(h)
					ft = true
				}
				return res, ft
			case *ast.ForStmt:
				a, _ := block(x.Body.List, h)
				res := h.clone()
				res.join(a) // a break inside carries the body's state out: over-approximated by the body's fall-through state
				return res, true
			case *ast.RangeStmt:
				a, _ := block(x.Body.List, h)
				res := h.clone()
				res.join(a)
				return res, true
			case *ast.SwitchStmt, *ast.TypeSwitchStmt, *ast.SelectStmt:
				var clauses []ast.Stmt
				hasDefault := false
				switch y := x.(type) {
				case *ast.SwitchStmt:
					clauses = y.Body.List
				case *ast.TypeSwitchStmt:
					clauses = y.Body.List
				case *ast.SelectStmt:
					clauses = y.Body.List
					hasDefault = true // a select always takes one of its clauses
				}
				res := heldSet{}
				ft := false
				for _, c := range clauses {
					var body []ast.Stmt
					switch cc := c.(type) {
					case *ast.CaseClause:
						body = cc.Body
						if cc.List == nil {
							hasDefault = true
						}
					case *ast.CommClause:
						body = cc.Body
					}
					a, fa := block(body, h)
					if fa {
						res.join(a)
						ft = true
					}
					// `break` out of a clause continues after the switch with the clause's state: approximated by the entry state
					ast.Inspect(&ast.BlockStmt{List: body}, func(nd ast.Node) bool {
						if b, ok := nd.(*ast.BranchStmt); ok && b.Tok == token.BREAK {
							res.join(h)
							ft = true
						}
						return true
					})
				}
				if !hasDefault {
					res.join(h)
					ft = true
				}
				return res, ft
			}
			return h, true
		}
		end, ft := block(u.body.List, heldSet{})
		if ft && len(end) > 0 {
			report(u.body.Rbrace, end)
		}
	}
	return out
}
