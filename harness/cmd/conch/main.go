// conch: concurrency harness.
//
//	conch wedge  — C08: every ledger operation with the caller's context cancelled after k polls (k = 0..n+1),
//	               truncation, DAG streaming with slow / vanishing consumers while proposals arrive; after each
//	               scenario a probe operation must complete and no goroutine may be parked in the graph walker.
//	conch race   — C18 (binary built with -race): pairs of ledger operations run concurrently on one node;
//	               the race detector's reports go to GORACE log files which the runner parses.
package main

import (
	"context"
	"encoding/json"
	"flag"
	"fmt"
	"math/rand"
	"os"
	"runtime"
	"strings"
	"sync"
	"syscall"
	"time"

	"google.golang.org/grpc"
	"google.golang.org/protobuf/types/known/emptypb"

	"github.com/bartossh/Computantis/src/accountant"
	"github.com/bartossh/Computantis/src/cache"
	"github.com/bartossh/Computantis/src/gossip"
	"github.com/bartossh/Computantis/src/pipe"
	"github.com/bartossh/Computantis/src/protobufcompiled"
	"github.com/bartossh/Computantis/src/spice"
	"github.com/bartossh/Computantis/src/transaction"
	"github.com/bartossh/Computantis/src/transformers"
	"github.com/bartossh/Computantis/src/wallet"
)

type nolog struct{}

func (nolog) Debug(string) {}
func (nolog) Info(string)  {}
func (nolog) Warn(string)  {}
func (nolog) Error(string) {}
func (nolog) Fatal(string) {}

type Violation struct {
	Key  string `json:"key"`
	What string `json:"what"`
}

type countCtx struct {
	context.Context
	mu   sync.Mutex
	left int
}

var closedCh = func() chan struct{} { c := make(chan struct{}); close(c); return c }()

func (c *countCtx) Done() <-chan struct{} {
	c.mu.Lock()
	defer c.mu.Unlock()
	if c.left < 0 {
		return nil
	}
	if c.left == 0 {
		return closedCh
	}
	c.left--
	return nil
}
// Err is a poll too: code may ask `ctx.Err() != nil` instead of selecting on Done()
func (c *countCtx) Err() error {
	c.mu.Lock()
	defer c.mu.Unlock()
	if c.left == 0 {
		return context.Canceled
	}
	if c.left > 0 {
		c.left--
	}
	return nil
}
func budget(k int) context.Context { return &countCtx{Context: context.Background(), left: k} }

type env struct {
	ab      *accountant.AccountingBook
	node    *wallet.Wallet
	issuer  *wallet.Wallet
	recv    *wallet.Wallet
	sealer  *wallet.Wallet
	cancel  context.CancelFunc
	counter int
	lastMu  sync.Mutex
	last    accountant.Vertex // the most recently created vertex (harness-side bookkeeping, so that the race run needs no snapshot hook)
}

func (e *env) setLast(v accountant.Vertex) { e.lastMu.Lock(); e.last = v; e.lastMu.Unlock() }
func (e *env) getLast() accountant.Vertex  { e.lastMu.Lock(); defer e.lastMu.Unlock(); return e.last }

func newEnv(chain int) *env {
	ver := wallet.NewVerifier()
	mk := func() *wallet.Wallet { w, _ := wallet.New(); return &w }
	e := &env{node: mk(), issuer: mk(), recv: mk(), sealer: mk()}
	ctx, cancel := context.WithCancel(context.Background())
	e.cancel = cancel
	ab, err := accountant.NewAccountingBook(ctx, accountant.Config{Truncate: 1 << 62}, ver, e.node, nolog{})
	if err != nil {
		panic(err)
	}
	e.ab = ab
	g, err := ab.CreateGenesis("Genesis Vertex", spice.New(1<<40, 0), []byte{}, e.issuer.Address())
	if err != nil {
		panic(err)
	}
	e.last = g
	for i := 0; i < chain; i++ {
		v, err := ab.CreateLeaf(context.Background(), e.trx())
		if err != nil {
			panic(err)
		}
		e.last = v
	}
	return e
}
func (e *env) close() { e.cancel(); e.ab.VerifClose() }
func (e *env) trx() *transaction.Transaction {
	e.counter++
	t, err := transaction.New(fmt.Sprintf("t%d", e.counter), spice.New(1, 0), nil, e.recv.Address(), e.issuer)
	if err != nil {
		panic(err)
	}
	return &t
}

func walkersParked() int {
	buf := make([]byte, 1<<22)
	n := runtime.Stack(buf, true)
	return strings.Count(string(buf[:n]), "walkAncestors")
}

// within: run f, report whether it returned before the deadline
func within(d time.Duration, f func()) bool {
	done := make(chan struct{})
	go func() { defer close(done); defer func() { recover() }(); f() }()
	select {
	case <-done:
		return true
	case <-time.After(d):
		return false
	}
}

func wedge(tier string, seed int64) (evals, nontriv int, kinds map[string]int, viol []Violation, samples []string) {
	kinds = map[string]int{}
	rng := rand.New(rand.NewSource(seed))
	n := 24
	reps := 2
	if tier == "thorough" {
		n, reps = 60, 6
	}
	base := 0 // walkers already parked by nodes that were abandoned after a violation
	add := func(k, w string) { viol = append(viol, Violation{k, w}) }
	probe := func(e *env, fam, what string) {
		if !within(5*time.Second, func() { e.ab.CreateLeaf(context.Background(), e.trx()) }) {
			add("node-wedged-after:"+fam, "a proposal issued after "+what+" did not return within 5 s")
		}
		time.Sleep(time.Millisecond)
		for i := 0; i < 50 && walkersParked() > base; i++ {
			time.Sleep(2 * time.Millisecond)
		}
		if p := walkersParked() - base; p > 0 {
			base += p
			add("walker-goroutine-leaked-after:"+fam, fmt.Sprintf("%d goroutine(s) still parked in dag.walkAncestors after %s returned (they hold the graph read lock)", p, what))
		}
	}
	ops := []struct {
		name string
		run  func(e *env, ctx context.Context)
	}{
		{"CreateLeaf", func(e *env, ctx context.Context) { e.ab.CreateLeaf(ctx, e.trx()) }},
		{"AddLeaf", func(e *env, ctx context.Context) {
			s := e.ab.VerifSnapshot()
			if len(s.Leaves) == 0 {
				return
			}
			var w uint64
			for i := range s.Vertices {
				if s.Vertices[i].Hash == s.Leaves[0] {
					w = s.Vertices[i].Weight
				}
			}
			v, _ := accountant.NewVertex(*e.trx(), s.Leaves[0], s.Leaves[0], w+1, e.sealer)
			e.ab.AddLeaf(ctx, &v)
		}},
		{"CalculateBalance", func(e *env, ctx context.Context) { e.ab.CalculateBalance(ctx, e.issuer.Address()) }},
		{"ReadDAGTransactionsByAddress", func(e *env, ctx context.Context) { e.ab.ReadDAGTransactionsByAddress(ctx, e.recv.Address()) }},
		{"ValidateLeaf", func(e *env, ctx context.Context) {
			s := e.ab.VerifSnapshot()
			for i := range s.Vertices {
				if len(s.Leaves) > 0 && s.Vertices[i].Hash == s.Leaves[0] {
					v := s.Vertices[i]
					e.ab.VerifValidateLeaf(ctx, &v)
				}
			}
		}},
	}
	for r := 0; r < reps; r++ {
		for _, op := range ops {
			e := newEnv(n)
			before := len(viol)
			for k := 0; k <= n+2 && len(viol) == before; k++ {
				what := fmt.Sprintf("%s cancelled after %d polls (history %d)", op.name, k, n)
				if !within(5*time.Second, func() { op.run(e, budget(k)) }) {
					add("operation-hangs:"+op.name, what+" did not return within 5 s")
				}
				evals++
				kinds["cancel."+op.name]++
				probe(e, op.name+"-cancelled", what)
				// a cancelled validation may have dropped tips (the code deletes a tip whose validation was cancelled): rebuild some history
				if len(viol) != before {
					break
				}
				for i := 0; i < 2; i++ {
					e.ab.CreateLeaf(context.Background(), e.trx())
				}
			}
			if len(viol) == before {
				e.close() // a wedged node is abandoned, not closed
			}
		}
		nontriv += len(ops) * (n + 3)
	}
	samples = append(samples, fmt.Sprintf("CalculateBalance with ctx.Done() reporting cancellation at its 7th poll on a %d-vertex history, then a probe proposal", n))
	// truncation (early exit of the first internal walk at the 1000th ancestor), then a probe
	for r := 0; r < 1+reps/3; r++ {
		e := newEnv(1003 + rng.Intn(40))
		if !within(60*time.Second, func() { e.ab.VerifTruncate(context.Background()) }) {
			add("operation-hangs:truncate", "truncate of a 1000+ vertex history did not return within 60 s")
		}
		evals++
		kinds["truncate"]++
		before := len(viol)
		probe(e, "truncate", "truncate")
		// truncation with a context that is cancelled inside its walks
		for _, k := range []int{0, 1, 500, 999, 1000, 1001} {
			if len(viol) > 0 {
				break
			}
			if !within(60*time.Second, func() { e.ab.VerifTruncate(budget(k)) }) {
				add("operation-hangs:truncate", fmt.Sprintf("truncate cancelled after %d polls did not return", k))
			}
			evals++
			kinds["truncate.cancelled"]++
			probe(e, "truncate-cancelled", fmt.Sprintf("truncate cancelled after %d polls", k))
		}
		if len(viol) == before {
			e.close()
		}
	}
	// streaming the DAG to a slow consumer while proposals keep arriving; and to a consumer that goes away
	for r := 0; r < reps; r++ {
		e := newEnv(150)
		var wg sync.WaitGroup
		ctx, cancel := context.WithCancel(context.Background())
		ch := e.ab.StreamDAG(ctx)
		wg.Add(1)
		go func() {
			defer wg.Done()
			for range ch {
				time.Sleep(300 * time.Microsecond)
			}
		}()
		ok := within(20*time.Second, func() {
			for i := 0; i < 30; i++ {
				e.ab.CreateLeaf(context.Background(), e.trx())
			}
			wg.Wait()
		})
		cancel()
		evals++
		kinds["stream.slow_consumer+writers"]++
		if !ok {
			add("stream-deadlocks-with-writers", "streaming the DAG to a slow consumer while 30 proposals arrive: streamer and/or writers did not finish within 20 s")
		}
		probe(e, "stream-slow-consumer", "StreamDAG with a slow consumer and concurrent proposals")
		if len(viol) > 0 {
			break
		}
		// consumer that vanishes after a few vertices
		ctx2, cancel2 := context.WithCancel(context.Background())
		ch2 := e.ab.StreamDAG(ctx2)
		for i := 0; i < 3; i++ {
			<-ch2
		}
		cancel2()
		evals++
		kinds["stream.consumer_vanishes"]++
		probe(e, "stream-consumer-vanished", "StreamDAG whose consumer went away")
		if len(viol) == 0 {
			e.close()
		}
	}
	nontriv += 6
	// failing operations must release what they hold: the SAME transaction / vertex submitted several times at once while a DAG stream
	// with a non-reading consumer keeps the ledger lock busy (every submission passes the unlocked "already known" look-up, then all but
	// one fail under the lock), plus proposals that fail for the other reasons; after each burst the node must still answer
	for r := 0; r < reps && len(viol) == 0; r++ {
		e := newEnv(130) // more vertices than the stream channel buffers: the streamer blocks holding the ledger lock
		ctxS, cancelS := context.WithCancel(context.Background())
		ch := e.ab.StreamDAG(ctxS)
		time.Sleep(20 * time.Millisecond)
		dup := e.trx()
		var wg sync.WaitGroup
		for g := 0; g < 4; g++ {
			wg.Add(1)
			go func() { defer wg.Done(); cp := *dup; e.ab.CreateLeaf(context.Background(), &cp) }()
		}
		// the same sealed vertex delivered four times at once
		sn := e.getLast()
		dv, _ := accountant.NewVertex(*e.trx(), sn.Hash, sn.Hash, sn.Weight+1, e.sealer)
		for g := 0; g < 4; g++ {
			wg.Add(1)
			go func() { defer wg.Done(); cp := dv; e.ab.AddLeaf(context.Background(), &cp) }()
		}
		time.Sleep(30 * time.Millisecond) // all of them are queued behind the streamer's lock now
		cancelS()
		for range ch {
		}
		ok := within(10*time.Second, wg.Wait)
		evals++
		kinds["errors.duplicate_submissions_behind_lock"]++
		if !ok {
			add("operation-hangs:duplicate-submissions", "four identical proposals and four identical deliveries queued behind a DAG stream did not all return within 10 s")
		}
		probe(e, "duplicate-submissions", "identical proposals / deliveries raced behind the ledger lock (all but one fail under the lock)")
		if len(viol) == 0 {
			// proposals refused for the other reasons: empty, issued by the node itself, already sealed
			empty, _ := transaction.New("empty", spice.New(0, 0), nil, e.recv.Address(), e.issuer)
			e.ab.CreateLeaf(context.Background(), &empty)
			own, _ := transaction.New("own", spice.New(0, 0), []byte("d"), e.recv.Address(), e.node)
			e.ab.CreateLeaf(context.Background(), &own)
			cp := *dup
			e.ab.CreateLeaf(context.Background(), &cp)
			evals++
			kinds["errors.refused_proposals"]++
			probe(e, "refused-proposals", "proposals refused as empty / own / already sealed")
		}
		if len(viol) == 0 {
			e.close()
		}
	}
	nontriv += 2
	// the node's OWN truncation loop (not the synchronous hook): weights are announced on a bounded channel while the ledger lock is
	// held, and the loop takes the ledger lock to truncate - proposals keep arriving from several goroutines across the trigger point
	if len(viol) == 0 {
		ver := wallet.NewVerifier()
		mk := func() *wallet.Wallet { w, _ := wallet.New(); return &w }
		e := &env{node: mk(), issuer: mk(), recv: mk(), sealer: mk()}
		ctx, cancelAll := context.WithCancel(context.Background())
		e.cancel = cancelAll
		ab, err := accountant.NewAccountingBook(ctx, accountant.Config{Truncate: 2000}, ver, e.node, nolog{})
		if err != nil {
			panic(err)
		}
		e.ab = ab
		if _, err := ab.CreateGenesis("Genesis Vertex", spice.New(1<<40, 0), []byte{}, e.issuer.Address()); err != nil {
			panic(err)
		}
		ab.AddTrustedNode(e.node.Address())
		var wg sync.WaitGroup
		var made int64
		var mu sync.Mutex
		finished := within(60*time.Second, func() {
			for g := 0; g < 4; g++ {
				wg.Add(1)
				go func(g int) {
					defer wg.Done()
					for {
						mu.Lock()
						made++
						k := made
						mu.Unlock()
						if k > 3300 {
							return
						}
						t, _ := transaction.New(fmt.Sprintf("auto-%d", k), spice.New(0, 0), []byte("d"), e.recv.Address(), e.issuer)
						e.ab.CreateLeaf(context.Background(), &t)
					}
				}(g)
			}
			wg.Wait()
		})
		evals++
		kinds["auto-truncation.concurrent_proposals"]++
		if !finished {
			add("node-wedged-after:own-truncation-loop", "3300 proposals from 4 goroutines across the node's own truncation trigger (Config.Truncate = 2000) did not complete within 60 s")
		}
		if finished {
			time.Sleep(300 * time.Millisecond)
			probe(e, "own-truncation-loop", "the node's own truncation loop ran under concurrent proposals")
		}
		if len(viol) == 0 { // a wedged node is abandoned: its lock is held for good
			sn := e.ab.VerifSnapshot()
			kinds[fmt.Sprintf("auto-truncation.checkpointed_vertices>0=%v", len(sn.StoredVertices) > 0)]++
			e.close()
		}
	}
	return
}

// race workload: every pair of operations concurrently on one node (the race detector judges)
func race(tier string, seed int64) (evals int, kinds map[string]int) {
	kinds = map[string]int{}
	rounds := 2
	if tier == "thorough" {
		rounds = 10
	}
	type op struct {
		name string
		run  func(e *env)
	}
	var seq int64
	ops := []op{
		{"propose", func(e *env) {
			t, _ := transaction.New(fmt.Sprintf("r%d-%d", time.Now().UnixNano(), rand.Int63()), spice.New(1, 0), nil, e.recv.Address(), e.issuer)
			if v, err := e.ab.CreateLeaf(context.Background(), &t); err == nil {
				e.setLast(v)
			}
		}},
		{"gossip-add", func(e *env) {
			l := e.getLast()
			t, _ := transaction.New(fmt.Sprintf("g%d-%d", time.Now().UnixNano(), rand.Int63()), spice.New(1, 0), nil, e.recv.Address(), e.issuer)
			v, _ := accountant.NewVertex(t, l.Hash, l.Hash, l.Weight+1, e.sealer)
			if e.ab.AddLeaf(context.Background(), &v) == nil {
				e.setLast(v)
			}
		}},
		{"park", func(e *env) { // a vertex with an unknown parent is parked in the replier buffer
			t, _ := transaction.New(fmt.Sprintf("p%d-%d", time.Now().UnixNano(), rand.Int63()), spice.New(1, 0), nil, e.recv.Address(), e.issuer)
			var h [32]byte
			rand.Read(h[:])
			v, _ := accountant.NewVertex(t, h, h, 2, e.sealer)
			e.ab.AddLeaf(context.Background(), &v)
		}},
		{"retry", func(e *env) { e.ab.VerifRetryOne(context.Background()) }},
		{"balance", func(e *env) { e.ab.CalculateBalance(context.Background(), e.issuer.Address()) }},
		{"history", func(e *env) { e.ab.ReadDAGTransactionsByAddress(context.Background(), e.recv.Address()) }},
		{"read", func(e *env) {
			l := e.getLast()
			e.ab.ReadVertex(context.Background(), l.Hash)
			e.ab.ReadTransactionByHash(context.Background(), l.Transaction.Hash)
		}},
		{"stream", func(e *env) {
			ctx, cancel := context.WithCancel(context.Background())
			for range e.ab.StreamDAG(ctx) {
			}
			cancel()
		}},
		{"loaded?", func(e *env) { e.ab.DagLoaded() }},
		{"trust", func(e *env) { e.ab.AddTrustedNode(e.sealer.Address()); e.ab.RemoveTrustedNode(e.sealer.Address()) }},
	}
	_ = seq
	// the real retry ticker (2 s period) against the admission path: park vertices, let the ticker fire twice while more are parked
	{
		e := newEnv(6)
		stop := time.Now().Add(4500 * time.Millisecond)
		if tier == "thorough" {
			stop = time.Now().Add(12 * time.Second)
		}
		for time.Now().Before(stop) {
			ops[2].run(e)
			ops[0].run(e)
			time.Sleep(20 * time.Millisecond)
		}
		evals++
		kinds["park|real-retry-ticker"]++
		e.close()
	}
	for r := 0; r < rounds; r++ {
		e := newEnv(12)
		for i := range ops {
			for j := i; j < len(ops); j++ {
				var wg sync.WaitGroup
				for _, o := range []op{ops[i], ops[j]} {
					wg.Add(1)
					go func(o op) {
						defer wg.Done()
						defer func() { recover() }()
						for k := 0; k < 6; k++ {
							o.run(e)
						}
					}(o)
				}
				wg.Wait()
				evals++
				kinds[ops[i].name+"|"+ops[j].name]++
			}
		}
		// everything at once
		var wg sync.WaitGroup
		for w := 0; w < 8; w++ {
			wg.Add(1)
			go func(w int) {
				defer wg.Done()
				defer func() { recover() }()
				rg := rand.New(rand.NewSource(seed*1000 + int64(r*8+w)))
				for k := 0; k < 20; k++ {
					ops[rg.Intn(len(ops))].run(e)
				}
			}(w)
		}
		wg.Wait()
		evals++
		kinds["mixed-8-goroutines"]++
		e.close()
	}
	if tier == "thorough" {
		// the node's own truncation loop (Config.Truncate = 2000) crossed by concurrent proposals and reads
		ver := wallet.NewVerifier()
		mk := func() *wallet.Wallet { w, _ := wallet.New(); return &w }
		a := &env{node: mk(), issuer: mk(), recv: mk(), sealer: mk()}
		ctx, cancelAll := context.WithCancel(context.Background())
		a.cancel = cancelAll
		ab, err := accountant.NewAccountingBook(ctx, accountant.Config{Truncate: 2000}, ver, a.node, nolog{})
		if err == nil {
			a.ab = ab
			ab.CreateGenesis("Genesis Vertex", spice.New(1<<40, 0), []byte{}, a.issuer.Address())
			ab.AddTrustedNode(a.node.Address())
			var wg sync.WaitGroup
			var mu sync.Mutex
			made := 0
			for g := 0; g < 3; g++ {
				wg.Add(1)
				go func() {
					defer wg.Done()
					for {
						mu.Lock()
						made++
						k := made
						mu.Unlock()
						if k > 3200 {
							return
						}
						t, _ := transaction.New(fmt.Sprintf("rauto-%d", k), spice.New(0, 0), []byte("d"), a.recv.Address(), a.issuer)
						a.ab.CreateLeaf(context.Background(), &t)
						if k%200 == 0 {
							a.ab.CalculateBalance(context.Background(), a.issuer.Address())
						}
					}
				}()
			}
			wg.Wait()
			time.Sleep(200 * time.Millisecond)
			evals++
			kinds["own-truncation-loop|propose|balance"]++
			a.close()
		}
	}
	// truncation concurrently with reads and proposals (one long history)
	e := newEnv(1010)
	var wg sync.WaitGroup
	for _, f := range []func(){
		func() { e.ab.VerifTruncate(context.Background()) },
		func() {
			for k := 0; k < 5; k++ {
				e.ab.CalculateBalance(context.Background(), e.issuer.Address())
			}
		},
		func() {
			for k := 0; k < 5; k++ {
				e.ab.CreateLeaf(context.Background(), e.trx())
			}
		},
	} {
		wg.Add(1)
		go func(f func()) { defer wg.Done(); defer func() { recover() }(); f() }(f)
	}
	wg.Wait()
	evals++
	kinds["truncate|balance|propose"]++
	e.close()
	return
}

// a peer that answers nothing useful
type deadPeer struct{}

func (deadPeer) Alive(context.Context, *emptypb.Empty, ...grpc.CallOption) (*protobufcompiled.AliveData, error) {
	return &protobufcompiled.AliveData{}, nil
}
func (deadPeer) LoadDag(context.Context, *emptypb.Empty, ...grpc.CallOption) (protobufcompiled.GossipAPI_LoadDagClient, error) {
	return nil, fmt.Errorf("unavailable")
}
func (deadPeer) Announce(context.Context, *protobufcompiled.ConnectionData, ...grpc.CallOption) (*emptypb.Empty, error) {
	return &emptypb.Empty{}, nil
}
func (deadPeer) Discover(context.Context, *protobufcompiled.ConnectionData, ...grpc.CallOption) (*protobufcompiled.ConnectedNodes, error) {
	return &protobufcompiled.ConnectedNodes{}, nil
}
func (deadPeer) GossipVrx(context.Context, *protobufcompiled.VrxMsgGossip, ...grpc.CallOption) (*emptypb.Empty, error) {
	return &emptypb.Empty{}, nil
}
func (deadPeer) GossipTrx(context.Context, *protobufcompiled.TrxMsgGossip, ...grpc.CallOption) (*emptypb.Empty, error) {
	return &emptypb.Empty{}, nil
}
func (deadPeer) GetVertex(context.Context, *protobufcompiled.SignedHash, ...grpc.CallOption) (*protobufcompiled.Vertex, error) {
	return nil, fmt.Errorf("unknown vertex")
}

// gossip node: peers announcing themselves while missing parents are being fetched and vertices gossiped on
func raceGossip(rounds int) (evals int, kinds map[string]int) {
	kinds = map[string]int{}
	e := newEnv(4)
	defer e.close()
	ver := wallet.NewVerifier()
	hip, _ := cache.New(512, 16)
	fl, _ := cache.NewFlash()
	peerW, _ := wallet.New()
	g := gossip.VerifNewGossiper(nolog{}, time.Second, e.node, ver, e.ab, hip, fl, pipe.New(16, 16), "self",
		map[string]protobufcompiled.GossipAPIClient{peerW.Address(): deadPeer{}})
	announce := func(i int) {
		w, _ := wallet.New()
		url := fmt.Sprintf("127.0.0.1:%d", 1+i%3)
		data := gossip.VerifConnectionData(w.Address(), url, uint64(i))
		d, sig := w.Sign(data)
		g.Server().Announce(context.Background(), &protobufcompiled.ConnectionData{PublicAddress: w.Address(), Url: url, CreatedAt: uint64(i), Digest: d[:], Signature: sig})
	}
	discover := func(i int) {
		w, _ := wallet.New()
		url := fmt.Sprintf("127.0.0.1:%d", 1+i%3)
		data := gossip.VerifConnectionData(w.Address(), url, uint64(i))
		d, sig := w.Sign(data)
		g.Server().Discover(context.Background(), &protobufcompiled.ConnectionData{PublicAddress: w.Address(), Url: url, CreatedAt: uint64(i), Digest: d[:], Signature: sig})
	}
	fetch := func(i int) {
		var h [32]byte
		rand.Read(h[:])
		g.ProcessLackingParent(context.Background(), h)
	}
	gossipOn := func(i int) { // a vertex with an unknown parent arriving by gossip: parked + parent fetch in the background
		t, _ := transaction.New(fmt.Sprintf("gg%d-%d", i, rand.Int63()), spice.New(1, 0), nil, e.recv.Address(), e.issuer)
		var h [32]byte
		rand.Read(h[:])
		v, _ := accountant.NewVertex(t, h, h, 2, e.sealer)
		g.Server().GossipVrx(context.Background(), &protobufcompiled.VrxMsgGossip{Vertex: gossip.VerifMapVertexToProto(&v)})
	}
	type gop struct {
		name string
		f    func(int)
	}
	// the origin loop fanning a locally created vertex out to several peers (one goroutine per peer)
	g2 := gossip.VerifNewGossiper(nolog{}, time.Second, e.node, ver, e.ab, hip, fl, pipe.New(16, 16), "fan",
		map[string]protobufcompiled.GossipAPIClient{"p1": deadPeer{}, "p2": deadPeer{}, "p3": deadPeer{}, "p4": deadPeer{}})
	fanCtx, fanStop := context.WithCancel(context.Background())
	defer fanStop()
	jug := pipe.New(16, 16)
	g3 := gossip.VerifNewGossiper(nolog{}, time.Second, e.node, ver, e.ab, hip, fl, jug, "fan-origin",
		map[string]protobufcompiled.GossipAPIClient{"p1": deadPeer{}, "p2": deadPeer{}, "p3": deadPeer{}, "p4": deadPeer{}})
	go g3.RunVertexGossip(fanCtx)
	go g3.RunTransactionGossip(fanCtx)
	fanOut := func(i int) {
		t, _ := transaction.New(fmt.Sprintf("fan%d-%d", i, rand.Int63()), spice.New(1, 0), nil, e.recv.Address(), e.issuer)
		if v, err := e.ab.CreateLeaf(context.Background(), &t); err == nil {
			jug.SendVrx(&v)
			// and the relay path: an accepted gossiped vertex is forwarded to every peer not yet listed
			t2, _ := transaction.New(fmt.Sprintf("rel%d-%d", i, rand.Int63()), spice.New(1, 0), nil, e.recv.Address(), e.issuer)
			v2, _ := accountant.NewVertex(t2, v.Hash, v.Hash, v.Weight+1, e.sealer)
			g2.Server().GossipVrx(context.Background(), &protobufcompiled.VrxMsgGossip{Vertex: gossip.VerifMapVertexToProto(&v2)})
		}
		tt, _ := transaction.New(fmt.Sprintf("fant%d-%d", i, rand.Int63()), spice.New(1, 0), []byte("d"), e.recv.Address(), e.issuer)
		if pt, err := transformers.TrxToProtoTrx(tt); err == nil {
			jug.SendTrx(pt)
		}
		time.Sleep(2 * time.Millisecond)
	}
	gops := []gop{{"announce", announce}, {"discover", discover}, {"fetch-parent", fetch}, {"gossip-vertex", gossipOn}, {"fan-out", fanOut}}
	for r := 0; r < rounds; r++ {
		for i := range gops {
			for j := i; j < len(gops); j++ {
				var wg sync.WaitGroup
				for _, o := range []gop{gops[i], gops[j]} {
					wg.Add(1)
					go func(o gop) {
						defer wg.Done()
						defer func() { recover() }()
						for k := 0; k < 8; k++ {
							o.f(k)
						}
					}(o)
				}
				wg.Wait()
				evals++
				kinds["gossip:"+gops[i].name+"|"+gops[j].name]++
			}
		}
	}
	time.Sleep(100 * time.Millisecond)
	return
}

func main() {
	mode := ""
	if len(os.Args) > 1 {
		mode = os.Args[1]
		os.Args = append(os.Args[:1], os.Args[2:]...)
	}
	tier := flag.String("tier", "quick", "")
	seed := flag.Int64("seed", 1, "")
	summary := flag.String("summary", "", "")
	flag.Parse()
	if mode != "race" { // keep stderr for the race detector's reports
		if dn, err := os.OpenFile("/dev/null", os.O_WRONLY, 0); err == nil {
			syscall.Dup2(int(dn.Fd()), 2)
		}
	}
	type Summary struct {
		Evaluations int            `json:"evaluations"`
		Nontrivial  int            `json:"distinct_nontrivial"`
		Kinds       map[string]int `json:"kinds"`
		Violations  []Violation    `json:"violations"`
		Samples     []string       `json:"samples"`
	}
	var sum Summary
	switch mode {
	case "wedge":
		sum.Evaluations, sum.Nontrivial, sum.Kinds, sum.Violations, sum.Samples = wedge(*tier, *seed)
	case "race":
		sum.Evaluations, sum.Kinds = race(*tier, *seed)
		gr := 2
		if *tier == "thorough" {
			gr = 10
		}
		ge, gk := raceGossip(gr)
		sum.Evaluations += ge
		for k, v := range gk {
			sum.Kinds[k] = v
		}
		sum.Nontrivial = len(sum.Kinds)
		sum.Samples = []string{"propose || retry-tick on one node, 6 iterations each, under the Go race detector"}
	default:
		fmt.Fprintln(os.Stderr, "usage: conch wedge|race")
		os.Exit(2)
	}
	js, _ := json.MarshalIndent(sum, "", " ")
	os.WriteFile(*summary, js, 0644)
	fmt.Printf("mode=%s evaluations=%d violations=%d\n", mode, sum.Evaluations, len(sum.Violations))
}
