package main

import (
	"fmt"
	"time"

	"github.com/bartossh/Computantis/src/spice"
	"github.com/bartossh/Computantis/src/transaction"
)

func main() {
	t := transaction.Transaction{CreatedAt: time.Unix(1700000000, 123456789), IssuerAddress: "iss", ReceiverAddress: "", Subject: string(make([]byte, 40)), Data: nil, IssuerSignature: []byte{1, 2, 3}, ReceiverSignature: make([]byte, 300), Spice: spice.Melange{Currency: 5, SupplementaryCurrency: 1 << 40}}
	t.Hash[0] = 200
	b, err := t.Encode()
	fmt.Printf("%v\n%x\n", err, b)
}
