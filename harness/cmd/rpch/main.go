// rpch: the RPC handlers of the notary, gossip and webhook services (real handler code, constructed
// through the verif hooks) driven with EVERY combination of shape classes per field (absent / short /
// exact / long bytes, present / absent sub-messages) and every outcome of their dependencies
// (programmable stubs), under recover().  Output: outcome class + the mutating dependency calls made,
// for the Coq model (coq/Model/Handlers.v) and for the C15 monitor.
package main

import (
	"bufio"
	"context"
	"crypto/sha256"
	"encoding/json"
	"errors"
	"flag"
	"fmt"
	"github.com/bartossh/Computantis/src/wallet"
	"github.com/mr-tron/base58"
	"google.golang.org/grpc"
	"os"
	"sort"
	"strings"
	"syscall"
	"time"

	"github.com/bartossh/Computantis/src/accountant"
	"github.com/bartossh/Computantis/src/cache"
	"github.com/bartossh/Computantis/src/gossip"
	"github.com/bartossh/Computantis/src/notaryserver"
	"github.com/bartossh/Computantis/src/protobufcompiled"
	"github.com/bartossh/Computantis/src/spice"
	"github.com/bartossh/Computantis/src/transaction"
	"github.com/bartossh/Computantis/src/webhooks"
	"github.com/bartossh/Computantis/src/webhooksserver"
	"google.golang.org/protobuf/types/known/emptypb"
)

type nolog struct{}

func (nolog) Debug(string) {}
func (nolog) Info(string)  {}
func (nolog) Warn(string)  {}
func (nolog) Error(string) {}
func (nolog) Fatal(string) {}

// ---- programmable dependencies. oracle[i] = does call class i succeed; muts = mutating calls that took effect
type deps struct {
	oracle  map[int]bool
	muts    []int
	verifyN int
	fixed   [][2]int // oracle outcomes that the call itself determines (reported with the case)
}

const (
	oVerify1     = 0
	oVerify2     = 1
	oSave        = 2
	oRemove      = 3
	oSeal        = 4
	oChall       = 5
	oFlash       = 6 // true = the flash memory already holds the key
	oRead        = 7
	oBalHit      = 8
	oHook        = 9
	oGossiperSig = 10
	oDial        = 11
	mSave        = 0
	mRemove      = 1
	mSeal        = 2
	mChall       = 3
	mPeer        = 4
	mHook        = 5
)

var errStub = errors.New("stub failure")

func (d *deps) Verify(message, signature []byte, hash [32]byte, address string) error {
	if address == "peer" { // a gossiper list entry
		if d.oracle[oGossiperSig] {
			return nil
		}
		return errStub
	}
	d.verifyN++
	k := oVerify1
	if d.verifyN >= 2 {
		k = oVerify2
	}
	if d.oracle[k] {
		return nil
	}
	return errStub
}

// notary accounter
func (d *deps) Address() string { return "node-address" }
func (d *deps) CreateLeaf(ctx context.Context, trx *transaction.Transaction) (accountant.Vertex, error) {
	if d.oracle[oSeal] {
		d.muts = append(d.muts, mSeal)
		return accountant.Vertex{}, nil
	}
	return accountant.Vertex{}, errStub
}
func (d *deps) ReadTransactionByHash(ctx context.Context, h [32]byte) (transaction.Transaction, error) {
	if d.oracle[oRead] {
		t := transaction.Transaction{Subject: "s", IssuerAddress: "i", ReceiverAddress: "r", CreatedAt: time.Now(), IssuerSignature: []byte{1}}
		t.Hash[0] = 1
		return t, nil
	}
	return transaction.Transaction{}, errStub
}
func (d *deps) ReadDAGTransactionsByAddress(ctx context.Context, address string) ([]transaction.Transaction, error) {
	if d.oracle[oRead] {
		return nil, nil
	}
	return nil, errStub
}
func (d *deps) CalculateBalance(ctx context.Context, a string) (accountant.Balance, error) {
	if d.oracle[oRead] {
		return accountant.Balance{}, nil
	}
	return accountant.Balance{}, errStub
}

// gossip accounter
func (d *deps) CreateGenesis(subject string, spc spice.Melange, data []byte, publicAddress string) (accountant.Vertex, error) {
	return accountant.Vertex{}, nil
}
func (d *deps) AddLeaf(ctx context.Context, leaf *accountant.Vertex) error {
	if d.oracle[oSeal] {
		d.muts = append(d.muts, mSeal)
		return nil
	}
	return errStub
}
func (d *deps) StreamDAG(ctx context.Context) <-chan *accountant.Vertex {
	c := make(chan *accountant.Vertex)
	close(c)
	return c
}
func (d *deps) LoadDag(cancelF context.CancelCauseFunc, cVrx <-chan *accountant.Vertex) {}
func (d *deps) DagLoaded() bool                                                         { return true }
func (d *deps) ReadVertex(ctx context.Context, h [32]byte) (accountant.Vertex, error) {
	if d.oracle[oRead] {
		return accountant.Vertex{}, nil
	}
	return accountant.Vertex{}, errStub
}

// cache
func (d *deps) SaveAwaitedTransaction(trx *transaction.Transaction) error {
	if d.oracle[oSave] {
		d.muts = append(d.muts, mSave)
		return nil
	}
	return errStub
}
func (d *deps) RemoveAwaitedTransaction(hash [32]byte, address string) (transaction.Transaction, error) {
	if d.oracle[oRemove] {
		d.muts = append(d.muts, mRemove)
		return transaction.Transaction{Subject: "s", Data: []byte{1}}, nil
	}
	return transaction.Transaction{}, errors.Join(cache.ErrTransactionNotFound, errStub)
}
func (d *deps) ReadTransactions(address string) ([]transaction.Transaction, error) { return nil, nil }
func (d *deps) SaveBalance(a string, s spice.Melange) error                        { return nil }
func (d *deps) ReadBalance(a string) (spice.Melange, error) {
	if d.oracle[oBalHit] {
		return spice.Melange{}, nil
	}
	return spice.Melange{}, errStub
}
func (d *deps) RemoveBalance(a string) error { return nil }

// flash
func (d *deps) HasAddress(a string) (bool, error) { return d.oracle[oFlash], nil }
func (d *deps) HasHash(h []byte) (bool, error) {
	if len(h) != 32 {
		return false, cache.ErrWrongHashSizeInFlash
	}
	return d.oracle[oFlash], nil
}
func (d *deps) RemoveAddress(a string) error { return nil }

// challenge store
func (d *deps) ProvideData(address string) []byte {
	d.muts = append(d.muts, mChall)
	return []byte{1, 2, 3}
}
func (d *deps) ValidateData(address string, data []byte) bool { return d.oracle[oChall] }

// telemetry, piper, webhooks
func (d *deps) CreateUpdateObservableHistogram(name, description string)     {}
func (d *deps) RecordHistogramTime(name string, t time.Duration) bool        { return true }
func (d *deps) RecordHistogramValue(name string, f float64) bool             { return true }
func (d *deps) SendTrx(trx *protobufcompiled.Transaction) bool               { return true }
func (d *deps) SendVrx(vrx *accountant.Vertex) bool                          { return true }
func (d *deps) SubscribeToTrx() <-chan *protobufcompiled.Transaction         { return nil }
func (d *deps) SubscribeToVrx() <-chan *accountant.Vertex                    { return nil }
func (d *deps) Sign(message []byte) (digest [32]byte, signature []byte)      { return [32]byte{}, []byte{1} }
func (d *deps) PostWebhookNewTransaction(publicAddresses []string, u string) {}
func (d *deps) RemoveWebhook(trigger byte, address string, h webhooks.Hook) error {
	return nil
}
func (d *deps) CreateWebhook(trigger byte, address string, h webhooks.Hook) error {
	if d.oracle[oHook] {
		d.muts = append(d.muts, mHook)
		return nil
	}
	return errStub
}

// ---- shapes
func bytesOf(n int) []byte {
	if n == 0 {
		return nil
	}
	b := make([]byte, n)
	for i := range b {
		b[i] = byte('a' + i%26)
	}
	return b
}
func strOf(n int) string { return string(bytesOf(n)) }

type field struct {
	id   int
	lens []int
}
type handlerSpec struct {
	id      int
	name    string
	fields  []field
	subs    []int
	oracles []int
	call    func(d *deps, l map[int]int, s map[int]bool) error
}

var hashLens = []int{0, 1, 31, 32, 33, 100}
var hashLens3 = []int{0, 31, 32}
var strLens = []int{0, 3}

func trxOf(l map[int]int, s map[int]bool) *protobufcompiled.Transaction {
	t := &protobufcompiled.Transaction{Subject: strOf(l[0]), IssuerAddress: strOf(l[1]), ReceiverAddress: strOf(l[2]), Hash: bytesOf(l[3]),
		CreatedAt: uint64(l[4]), IssuerSignature: bytesOf(l[5]), Data: bytesOf(l[6]), ReceiverSignature: bytesOf(l[7])}
	if s[0] {
		t.Spice = &protobufcompiled.Spice{Currency: 1}
	}
	return t
}
func shOf(l map[int]int) *protobufcompiled.SignedHash {
	return &protobufcompiled.SignedHash{Address: strOf(l[10]), Data: bytesOf(l[11]), Hash: bytesOf(l[12]), Signature: bytesOf(l[13])}
}
func vertexOf(l map[int]int, s map[int]bool) *protobufcompiled.Vertex {
	if !s[2] {
		return nil
	}
	v := &protobufcompiled.Vertex{SignerPublicAddress: strOf(l[24]), CreatedAt: 1, Signature: bytesOf(l[23]), Hash: bytesOf(l[20]),
		LeftParentHash: bytesOf(l[21]), RightParentHash: bytesOf(l[22]), Weight: 1}
	if s[1] {
		v.Transaction = trxOf(l, s)
	}
	return v
}
func gossipersOf(l map[int]int, s map[int]bool) []*protobufcompiled.Gossiper {
	if !s[3] {
		return nil
	}
	return []*protobufcompiled.Gossiper{{Address: "peer", Digest: bytesOf(l[30]), Signature: []byte{1}}}
}

func specs() []handlerSpec {
	trxFields := []field{{0, strLens}, {1, strLens}, {2, strLens}, {3, hashLens}, {4, []int{0, 1}}, {5, []int{0, 64}}, {6, []int{0, 5, 1100}}}
	shFields := []field{{10, strLens}, {11, hashLens}, {12, hashLens}, {13, []int{0, 64}}}
	notary := func(d *deps) protobufcompiled.NotaryAPIServer {
		return notaryserver.VerifNewServer(d, d, nolog{}, d, d, d, d, d, 1024)
	}
	gsp := func(d *deps) protobufcompiled.GossipAPIServer {
		return gossip.VerifNewGossiper(nolog{}, time.Second, d, d, d, d, d, d, "url", nil).Server()
	}
	ctx := context.Background()
	return []handlerSpec{
		{1, "notary.Propose", trxFields, []int{0}, []int{oVerify1, oSave, oSeal}, func(d *deps, l map[int]int, s map[int]bool) error {
			_, err := notary(d).Propose(ctx, trxOf(l, s))
			return err
		}},
		{2, "notary.Confirm", append(append([]field{}, trxFields...), field{7, []int{0, 64}}), []int{0}, []int{oVerify1, oVerify2, oRemove, oSeal},
			func(d *deps, l map[int]int, s map[int]bool) error {
				_, err := notary(d).Confirm(ctx, trxOf(l, s))
				return err
			}},
		{3, "notary.Reject", shFields, nil, []int{oVerify1, oRemove, oSeal}, func(d *deps, l map[int]int, s map[int]bool) error {
			_, err := notary(d).Reject(ctx, shOf(l))
			return err
		}},
		{4, "notary.Waiting", shFields, nil, []int{oChall, oVerify1}, func(d *deps, l map[int]int, s map[int]bool) error {
			_, err := notary(d).Waiting(ctx, shOf(l))
			return err
		}},
		{5, "notary.Saved", shFields, nil, []int{oVerify1, oRead}, func(d *deps, l map[int]int, s map[int]bool) error {
			_, err := notary(d).Saved(ctx, shOf(l))
			return err
		}},
		{6, "notary.Data", []field{{50, strLens}}, nil, nil, func(d *deps, l map[int]int, s map[int]bool) error {
			_, err := notary(d).Data(ctx, &protobufcompiled.Address{Public: strOf(l[50])})
			return err
		}},
		{7, "notary.Balance", []field{{10, strLens}, {11, []int{0, 3, 32}}, {12, hashLens}, {13, []int{0, 64}}}, nil, []int{oFlash, oVerify1, oBalHit, oRead},
			func(d *deps, l map[int]int, s map[int]bool) error {
				_, err := notary(d).Balance(ctx, shOf(l))
				return err
			}},
		{8, "notary.TransactionsInDAG", shFields, nil, []int{oFlash, oChall, oVerify1, oRead}, func(d *deps, l map[int]int, s map[int]bool) error {
			_, err := notary(d).TransactionsInDAG(ctx, shOf(l))
			return err
		}},
		{9, "notary.Alive", nil, nil, nil, func(d *deps, l map[int]int, s map[int]bool) error {
			_, err := notary(d).Alive(ctx, &emptypb.Empty{})
			return err
		}},
		{10, "gossip.GossipVrx", []field{{20, hashLens}, {21, hashLens3}, {22, hashLens3}, {3, hashLens3}, {30, hashLens3}}, []int{0, 1, 2, 3}, []int{oFlash, oGossiperSig, oSeal, oRemove},
			func(d *deps, l map[int]int, s map[int]bool) error {
				l[0], l[1], l[2], l[4], l[5] = 3, 3, 3, 1, 64
				_, err := gsp(d).GossipVrx(ctx, &protobufcompiled.VrxMsgGossip{Vertex: vertexOf(l, s), Gossipers: gossipersOf(l, s)})
				return err
			}},
		{11, "gossip.GossipTrx", []field{{0, strLens}, {1, strLens}, {2, []int{3}}, {3, hashLens}, {4, []int{0, 1}}, {5, []int{0, 64}}, {30, hashLens3}}, []int{0, 3, 4}, []int{oFlash, oGossiperSig, oVerify1, oSave},
			func(d *deps, l map[int]int, s map[int]bool) error {
				var t *protobufcompiled.Transaction
				if s[4] {
					t = trxOf(l, s)
				}
				_, err := gsp(d).GossipTrx(ctx, &protobufcompiled.TrxMsgGossip{Trx: t, Gossipers: gossipersOf(l, s)})
				return err
			}},
		{12, "gossip.GetVertex", shFields, nil, []int{oVerify1, oRead}, func(d *deps, l map[int]int, s map[int]bool) error {
			_, err := gsp(d).GetVertex(ctx, shOf(l))
			return err
		}},
		{13, "gossip.Announce", []field{{40, hashLens}, {10, strLens}}, nil, []int{oVerify1}, func(d *deps, l map[int]int, s map[int]bool) error {
			vg := gossip.VerifNewGossiper(nolog{}, time.Second, d, d, d, d, d, d, "url", nil)
			d.fixed = [][2]int{{oDial, 1}} // the test node dials lazily and without TLS: dialing a syntactically valid target succeeds
			_, err := vg.Server().Announce(ctx, &protobufcompiled.ConnectionData{PublicAddress: strOf(l[10]), Url: "127.0.0.1:1", CreatedAt: 1, Digest: bytesOf(l[40]), Signature: []byte{1}})
			if len(vg.PeerAddresses()) > 0 {
				d.muts = append(d.muts, mPeer)
			}
			return err
		}},
		{14, "gossip.Discover", []field{{40, hashLens}, {10, strLens}}, nil, []int{oVerify1}, func(d *deps, l map[int]int, s map[int]bool) error {
			vg := gossip.VerifNewGossiper(nolog{}, time.Second, d, d, d, d, d, d, "url", nil)
			d.fixed = [][2]int{{oDial, 1}} // the test node dials lazily and without TLS: dialing a syntactically valid target succeeds
			_, err := vg.Server().Discover(ctx, &protobufcompiled.ConnectionData{PublicAddress: strOf(l[10]), Url: "127.0.0.1:1", CreatedAt: 1, Digest: bytesOf(l[40]), Signature: []byte{1}})
			if len(vg.PeerAddresses()) > 0 {
				d.muts = append(d.muts, mPeer)
			}
			return err
		}},
		{15, "gossip.Alive", nil, nil, nil, func(d *deps, l map[int]int, s map[int]bool) error {
			_, err := gsp(d).Alive(ctx, &emptypb.Empty{})
			return err
		}},
		{16, "webhooks.Webhooks", shFields, nil, []int{oVerify1, oHook}, func(d *deps, l map[int]int, s map[int]bool) error {
			_, err := webhooksserver.VerifNewApp(nolog{}, d, d).Webhooks(ctx, shOf(l))
			return err
		}},
		{17, "gossip.mapProtoVertex(sync/fetch ingress)", []field{{20, hashLens}, {21, hashLens}, {22, hashLens}, {3, hashLens}}, []int{0, 1}, nil,
			func(d *deps, l map[int]int, s map[int]bool) error {
				s[2] = true
				l[0], l[1], l[2], l[4], l[5] = 3, 3, 3, 1, 64
				_, err := gossip.VerifIngestPeerVertex(vertexOf(l, s))
				return err
			}},
		{18, "gossip.processLackingParent(fetch ingress)", []field{{20, hashLens}, {21, hashLens}, {22, hashLens}, {3, hashLens}}, []int{0, 1, 2}, []int{oSeal},
			func(d *deps, l map[int]int, s map[int]bool) error {
				l[0], l[1], l[2], l[4], l[5] = 3, 3, 3, 1, 64
				var answer *protobufcompiled.Vertex
				if s[2] { // the peer answers with a vertex (otherwise: an error)
					answer = vertexOf(l, s)
				}
				vg := gossip.VerifNewGossiper(nolog{}, time.Second, d, d, d, d, d, d, "url",
					map[string]protobufcompiled.GossipAPIClient{"peer": &fetchPeer{answer: answer}})
				var h [32]byte
				h[0] = 7
				vg.ProcessLackingParent(ctx, h) // the REAL function (it returns nothing: a normal return is outcome 0)
				return nil
			}},
	}
}

// fetchPeer answers GetVertex with a fixed vertex (as decoded from the wire) or an error; everything else is unused
type fetchPeer struct {
	protobufcompiled.GossipAPIClient
	answer *protobufcompiled.Vertex
}

func (p *fetchPeer) GetVertex(ctx context.Context, in *protobufcompiled.SignedHash, opts ...grpc.CallOption) (*protobufcompiled.Vertex, error) {
	if p.answer == nil {
		return nil, errStub
	}
	return p.answer, nil
}

type caseOut struct {
	handler int
	lens    [][2]int
	subs    [][2]int
	orc     [][2]int
	outcome int
	muts    []int
}

func b2i(b bool) int {
	if b {
		return 1
	}
	return 0
}

func main() {
	tier := flag.String("tier", "quick", "")
	seed := flag.Int64("seed", 1, "")
	summary := flag.String("summary", "", "")
	outp := flag.String("out", "", "")
	flag.Parse()
	_ = seed
	_ = tier
	if dn, err := os.OpenFile("/dev/null", os.O_WRONLY, 0); err == nil {
		syscall.Dup2(int(dn.Fd()), 2)
	}
	type Violation struct {
		Key  string `json:"key"`
		What string `json:"what"`
	}
	type Summary struct {
		Evaluations int            `json:"evaluations"`
		Nontrivial  int            `json:"distinct_nontrivial"`
		Kinds       map[string]int `json:"kinds"`
		Violations  []Violation    `json:"violations"`
		Samples     []string       `json:"samples"`
		Exhaustive  bool           `json:"exhaustive"`
	}
	sum := Summary{Kinds: map[string]int{}, Exhaustive: true}
	violSeen := map[string]bool{}
	of, _ := os.Create(*outp)
	defer of.Close()
	w := bufio.NewWriterSize(of, 1<<20)
	for _, h := range specs() {
		// enumerate the full product of field length classes x sub-message presence x oracle outcomes
		nf, ns, no := len(h.fields), len(h.subs), len(h.oracles)
		idx := make([]int, nf)
		for {
			for sm := 0; sm < 1<<ns; sm++ {
				for om := 0; om < 1<<no; om++ {
					l, s := map[int]int{}, map[int]bool{}
					d := &deps{oracle: map[int]bool{}}
					co := caseOut{handler: h.id}
					for i, f := range h.fields {
						l[f.id] = f.lens[idx[i]]
						co.lens = append(co.lens, [2]int{f.id, f.lens[idx[i]]})
					}
					for i, sid := range h.subs {
						s[sid] = sm>>i&1 == 1
						co.subs = append(co.subs, [2]int{sid, sm >> i & 1})
					}
					for i, oid := range h.oracles {
						d.oracle[oid] = om>>i&1 == 1
						co.orc = append(co.orc, [2]int{oid, om >> i & 1})
					}
					var err error
					panicked := ""
					func() {
						defer func() {
							if r := recover(); r != nil {
								panicked = fmt.Sprint(r)
							}
						}()
						err = h.call(d, l, s)
					}()
					time.Sleep(0)
					switch {
					case panicked != "":
						co.outcome = 2
					case err != nil:
						co.outcome = 1
					}
					co.muts = append([]int{}, d.muts...)
					sort.Ints(co.muts)
					co.orc = append(co.orc, d.fixed...)
					sum.Evaluations++
					sum.Kinds[fmt.Sprintf("%s.%d", h.name, co.outcome)]++
					if co.outcome != 0 {
						sum.Nontrivial++
					}
					// ---- C15 monitor: no panic; a rejected request mutated nothing
					if co.outcome == 2 {
						key := "panic:" + h.name
						if !violSeen[key] {
							violSeen[key] = true
							sum.Violations = append(sum.Violations, Violation{key, fmt.Sprintf("%s panics (%s) on field lengths %v sub-messages %v", h.name, panicked, co.lens, co.subs)})
						}
					}
					if co.outcome == 1 && len(co.muts) > 0 {
						key := fmt.Sprintf("rejected-request-mutated:%s:%v", h.name, co.muts)
						if !violSeen[key] {
							violSeen[key] = true
							sum.Violations = append(sum.Violations, Violation{key, fmt.Sprintf("%s returned an error after mutating calls %v (lengths %v oracles %v)", h.name, co.muts, co.lens, co.orc)})
						}
					}
					pr := func(x [][2]int) string {
						p := make([]string, len(x))
						for i, e := range x {
							p[i] = fmt.Sprintf("%d:%d", e[0], e[1])
						}
						return strings.Join(p, " ")
					}
					ms := make([]string, len(co.muts))
					for i, m := range co.muts {
						ms[i] = fmt.Sprint(m)
					}
					fmt.Fprintf(w, "H%d ; %s ; %s ; %s ; %d ; %s\n", co.handler, pr(co.lens), pr(co.subs), pr(co.orc), co.outcome, strings.Join(ms, " "))
				}
			}
			// next index vector
			k := 0
			for k < nf {
				idx[k]++
				if idx[k] < len(h.fields[k].lens) {
					break
				}
				idx[k] = 0
				k++
			}
			if k == nf {
				break
			}
		}
	}
	// ---- the REAL signature verifier behind every handler (the handlers above run against a stub of it): caller-supplied
	// address strings whose base58 decoding has every short length, with a digest that matches the data (the verifier looks at the
	// address only then), a few signature lengths; the verifier may refuse, it must not panic
	{
		ver := wallet.NewVerifier()
		data := []byte("request")
		digest := sha256.Sum256(data)
		for n := 0; n <= 40; n++ {
			for fill := 0; fill < 3; fill++ {
				raw := make([]byte, n)
				for i := range raw {
					raw[i] = byte(fill * 127)
				}
				addr := base58.Encode(raw)
				for _, sl := range []int{0, 1, 63, 64, 65} {
					panicked := ""
					func() {
						defer func() {
							if r := recover(); r != nil {
								panicked = fmt.Sprint(r)
							}
						}()
						ver.Verify(data, make([]byte, sl), digest, addr)
					}()
					sum.Evaluations++
					sum.Kinds["verifier.address_sweep"]++
					if panicked != "" && !violSeen["panic:verifier"] {
						violSeen["panic:verifier"] = true
						sum.Violations = append(sum.Violations, Violation{"panic:verifier", fmt.Sprintf("the signature verifier every handler calls panics (%s) on the caller-supplied address %q (decodes to %d bytes), signature of %d bytes", panicked, addr, n, sl)})
					}
				}
			}
		}
	}
	sum.Samples = []string{"notary.Reject with hash of 31 bytes, data of 32 bytes, verifier ok, cache remove ok, sealing fails",
		"gossip.GossipVrx with vertex present, transaction absent, one gossiper entry with a 1-byte digest"}
	w.Flush()
	js, _ := json.MarshalIndent(sum, "", " ")
	os.WriteFile(*summary, js, 0644)
	fmt.Printf("cases=%d violations=%d\n", sum.Evaluations, len(sum.Violations))
}
