// notaryh: seeded call sequences by honest and dishonest clients against the REAL notary server object
// (verif hook) over a real awaiting cache, challenge store, flash memory and ledger. Responses and the
// (awaiting, sealed) state after every call are recorded for the Coq acceptor (Run/CheckNotary.v) and the
// C16 monitors are evaluated on the implementation.
package main

import (
	"bytes"
	"context"
	"encoding/json"
	"errors"
	"flag"
	"fmt"
	"math/rand"
	"os"
	"sort"
	"strings"
	"sync"
	"syscall"
	"time"

	"github.com/bartossh/Computantis/src/accountant"
	"github.com/bartossh/Computantis/src/cache"
	"github.com/bartossh/Computantis/src/dataprovider"
	"github.com/bartossh/Computantis/src/notaryserver"
	"github.com/bartossh/Computantis/src/pipe"
	"github.com/bartossh/Computantis/src/protobufcompiled"
	"github.com/bartossh/Computantis/src/spice"
	"github.com/bartossh/Computantis/src/transaction"
	"github.com/bartossh/Computantis/src/transformers"
	"github.com/bartossh/Computantis/src/wallet"
)

type nolog struct{}

func (nolog) Debug(string) {}
func (nolog) Info(string)  {}
func (nolog) Warn(string)  {}
func (nolog) Error(string) {}
func (nolog) Fatal(string) {}

type tele struct{}

func (tele) CreateUpdateObservableHistogram(name, description string) {}
func (tele) RecordHistogramTime(name string, t time.Duration) bool    { return true }
func (tele) RecordHistogramValue(name string, f float64) bool         { return true }

type Violation struct {
	Key  string `json:"key"`
	What string `json:"what"`
}

type run struct {
	steps []string
	human []string
	viol  []Violation
	stats map[string]int
}

func scenario(seed int64, idx int, withExpiry bool) run {
	rng := rand.New(rand.NewSource(seed*7919 + int64(idx)))
	out := run{stats: map[string]int{}}
	ver := wallet.NewVerifier()
	mk := func() *wallet.Wallet { w, _ := wallet.New(); return &w }
	node, issuer, recv, other := mk(), mk(), mk(), mk()
	ws := []*wallet.Wallet{issuer, recv, other}
	aid := func(a string) int {
		for i, w := range ws {
			if w.Address() == a {
				return i + 1
			}
		}
		return 9
	}
	ctx, cancel := context.WithCancel(context.Background())
	defer cancel()
	ab, err := accountant.NewAccountingBook(ctx, accountant.Config{Truncate: 1 << 62}, ver, node, nolog{})
	if err != nil {
		panic(err)
	}
	defer ab.VerifClose()
	ab.VerifDetachRepeater()
	if _, err := ab.CreateGenesis("Genesis Vertex", spice.New(100000, 0), []byte{}, issuer.Address()); err != nil {
		panic(err)
	}
	hip, _ := cache.New(4096, 16)
	defer hip.Close()
	fl, _ := cache.NewFlash()
	defer fl.Close()
	dp := dataprovider.New(ctx, dataprovider.Config{Longevity: 1})
	jug := pipe.New(64, 64)
	go func() { // drain the pipe as the gossiper would
		for {
			select {
			case <-ctx.Done():
				return
			case <-jug.SubscribeToTrx():
			case <-jug.SubscribeToVrx():
			}
		}
	}()
	srv := notaryserver.VerifNewServer(dp, tele{}, nolog{}, ver, ab, hip, fl, jug, 1024)
	bg := context.Background()

	type item struct {
		t    transaction.Transaction
		id   int
		data bool
	}
	var items []item
	next := 1
	hid := map[[32]byte]int{}
	newTrx := func(data bool, from, to *wallet.Wallet) item {
		var d []byte
		amt := spice.New(1, 0)
		if data {
			d = []byte(fmt.Sprintf("contract %d", next))
			if rng.Intn(2) == 0 {
				amt = spice.Melange{}
			}
		}
		t, err := transaction.New(fmt.Sprintf("s%d", next), amt, d, to.Address(), from)
		if err != nil {
			panic(err)
		}
		it := item{t: t, id: next, data: data}
		hid[t.Hash] = next
		next++
		items = append(items, it)
		return it
	}
	coqT := func(it item) string {
		return fmt.Sprintf("(NTrx %d %d %d %v)", it.id, aid(it.t.IssuerAddress), aid(it.t.ReceiverAddress), it.data)
	}
	isSealed := func(it item) bool {
		_, err := ab.ReadTransactionByHash(bg, it.t.Hash)
		return err == nil
	}
	// reference for the monitors
	awaitingRef := map[int]bool{}
	receiverActed := map[int]bool{}
	snapshot := func() string {
		var aw, se []string
		for _, a := range ws {
			trxs, _ := hip.ReadTransactions(a.Address())
			var ids []int
			for _, t := range trxs {
				ids = append(ids, hid[t.Hash])
			}
			sort.Ints(ids)
			aw = append(aw, fmt.Sprintf("(%d, %s)", aid(a.Address()), strings.ReplaceAll(strings.ReplaceAll(fmt.Sprint(ids), " ", ";"), "[]", "[]")))
		}
		for _, it := range items {
			if isSealed(it) {
				se = append(se, fmt.Sprint(it.id))
			}
		}
		return fmt.Sprintf("[%s], [%s]", strings.Join(aw, ";"), strings.Join(se, ";"))
	}
	record := func(op, res, human string) {
		out.steps = append(out.steps, fmt.Sprintf("(%s, %s, %s)", op, res, snapshot()))
		out.human = append(out.human, human+" -> "+res)
	}
	violate := func(k, w string) { out.viol = append(out.viol, Violation{k, w}) }
	// C19 on the read replies: every transaction of a reply, mapped back from its wire form, is one of the saved transactions with every
	// signed field intact (so it still verifies) and no two entries of one reply are the same transaction
	checkWire := func(arr []*protobufcompiled.Transaction, where string) {
		seen := map[[32]byte]bool{}
		for k, pt := range arr {
			got, err := transformers.ProtoTrxToTrx(pt)
			if err != nil {
				violate("wire-form-changed-in-reply", fmt.Sprintf("%s: entry %d of %d does not convert back: %v", where, k, len(arr), err))
				return
			}
			id, known := hid[got.Hash]
			if !known || seen[got.Hash] {
				violate("wire-form-changed-in-reply", fmt.Sprintf("%s: entry %d of %d carries a hash that is unknown or repeated in the reply", where, k, len(arr)))
				return
			}
			seen[got.Hash] = true
			var orig transaction.Transaction
			for _, it := range items {
				if it.id == id {
					orig = it.t
				}
			}
			if got.IssuerAddress != orig.IssuerAddress || got.ReceiverAddress != orig.ReceiverAddress || got.Subject != orig.Subject || !bytes.Equal(got.Data, orig.Data) ||
				!bytes.Equal(got.IssuerSignature, orig.IssuerSignature) || got.Spice != orig.Spice || got.CreatedAt.UnixNano() != orig.CreatedAt.UnixNano() ||
				got.VerifyIssuer(wallet.NewVerifier()) != nil {
				violate("wire-form-changed-in-reply", fmt.Sprintf("%s: transaction %d came back with a changed signed field or no longer verifies", where, id))
				return
			}
		}
		if len(arr) >= 2 {
			out.stats["wire.reply_with_several_transactions"]++
		}
	}
	blobs := map[string][]byte{}
	blobID := map[string]int{}
	nextBlob := 1
	nOps := 14 + rng.Intn(14)
	for k := 0; k < nOps; k++ {
		before := snapshot()
		switch x := rng.Intn(100); {
		case x < 22: // propose: contract or pure transfer, honest or with a corrupted issuer signature
			data := rng.Intn(3) != 0
			to := recv
			if rng.Intn(6) == 0 { // a transaction addressed to its own issuer: the receiver's action is still required for a contract
				to = issuer
				out.stats["propose.self_addressed"]++
			}
			it := newTrx(data, issuer, to)
			pt, _ := transformers.TrxToProtoTrx(it.t)
			honest := rng.Intn(5) != 0
			if !honest {
				pt.IssuerSignature = append([]byte{}, pt.IssuerSignature...)
				pt.IssuerSignature[3] ^= 1
			}
			_, err := srv.Propose(bg, pt)
			sealedNow := isSealed(it)
			record(fmt.Sprintf("NPropose %s %v %v", coqT(it), honest, sealedNow || data), resOf(err), fmt.Sprintf("propose %d data=%v honest=%v", it.id, data, honest))
			if err == nil && data {
				awaitingRef[it.id] = true
			}
			if !honest && (err == nil || snapshot() != before) {
				violate("bad-signature-changed-state", fmt.Sprintf("Propose with a corrupted issuer signature: err=%v, state %s -> %s", err, before, snapshot()))
			}
			if data && sealedNow {
				violate("contract-sealed-without-receiver", fmt.Sprintf("Propose sealed the data-carrying transaction %d", it.id))
			}
			out.stats["propose"]++
		case x < 44: // confirm
			if len(items) == 0 {
				continue
			}
			it := items[rng.Intn(len(items))]
			t := it.t
			kind := rng.Intn(5)
			recv := recv
			if t.ReceiverAddress == issuer.Address() {
				recv = issuer
			}
			signer := recv
			if kind == 0 {
				signer = other // somebody else countersigns: Sign refuses (address differs), so forge the field instead
			}
			rsigOK := true
			if _, err := t.Sign(recv, ver); err != nil {
				continue
			}
			if kind == 0 {
				_, s := signer.Sign(t.GetMessage())
				t.ReceiverSignature = s
				rsigOK = false
			}
			if kind == 1 {
				t.ReceiverSignature = nil
				rsigOK = false
			}
			pt, _ := transformers.TrxToProtoTrx(t)
			wasSealed := isSealed(it)
			_, err := srv.Confirm(bg, pt)
			sealedNow := isSealed(it)
			record(fmt.Sprintf("NConfirm %s true %v %v", coqT(it), rsigOK, sealedNow && !wasSealed), resOf(err), fmt.Sprintf("confirm %d receiver-signature-valid=%v", it.id, rsigOK))
			if !rsigOK && (err == nil || snapshot() != before) {
				violate("bad-signature-changed-state", fmt.Sprintf("Confirm without a valid receiver signature: err=%v, state %s -> %s", err, before, snapshot()))
			}
			if sealedNow && !wasSealed {
				if it.data && !(rsigOK && awaitingRef[it.id]) {
					violate("contract-sealed-without-receiver", fmt.Sprintf("Confirm sealed contract %d (receiver signature valid=%v, awaiting=%v)", it.id, rsigOK, awaitingRef[it.id]))
				}
				receiverActed[it.id] = true
			}
			if err == nil || rsigOK && awaitingRef[it.id] {
				delete(awaitingRef, it.id)
			}
			out.stats["confirm"]++
		case x < 60: // reject
			if len(items) == 0 {
				continue
			}
			it := items[rng.Intn(len(items))]
			recv := recv
			if it.t.ReceiverAddress == issuer.Address() {
				recv = issuer
			}
			who := recv
			switch rng.Intn(5) {
			case 0:
				who = other
			case 1:
				who = issuer
			}
			d, s := who.Sign(it.t.Hash[:])
			sigOK := true
			if rng.Intn(6) == 0 {
				s = append([]byte{}, s...)
				s[0] ^= 1
				sigOK = false
			}
			wasSealed := isSealed(it)
			_, err := srv.Reject(bg, &protobufcompiled.SignedHash{Address: who.Address(), Data: it.t.Hash[:], Hash: d[:], Signature: s})
			sealedNow := isSealed(it)
			record(fmt.Sprintf("NReject %d %d %v %v", it.id, aid(who.Address()), sigOK, sealedNow && !wasSealed), resOf(err), fmt.Sprintf("reject %d by %d signature-valid=%v", it.id, aid(who.Address()), sigOK))
			if (!sigOK || who != recv) && (err == nil || snapshot() != before) {
				violate("bad-signature-changed-state", fmt.Sprintf("Reject by %d (signature valid=%v): err=%v, state %s -> %s", aid(who.Address()), sigOK, err, before, snapshot()))
			}
			if sealedNow && !wasSealed && it.data && !(sigOK && who == recv && awaitingRef[it.id]) {
				violate("contract-sealed-without-receiver", fmt.Sprintf("Reject by %d sealed contract %d", aid(who.Address()), it.id))
			}
			if sigOK && who == recv && awaitingRef[it.id] {
				delete(awaitingRef, it.id)
			}
			out.stats["reject"]++
		case x < 72: // challenge
			a := ws[rng.Intn(len(ws))]
			b, err := srv.Data(bg, &protobufcompiled.Address{Public: a.Address()})
			if err != nil {
				continue
			}
			blobs[a.Address()] = b.Blob
			blobID[a.Address()] = nextBlob
			record(fmt.Sprintf("NData %d %d", aid(a.Address()), nextBlob), "NOk", fmt.Sprintf("data for %d = blob %d", aid(a.Address()), nextBlob))
			nextBlob++
			out.stats["data"]++
		case x < 90: // waiting: own valid challenge, stale / foreign challenge, wrong key
			a := ws[rng.Intn(len(ws))]
			signer := a
			blobOwner := a
			replay := ""
			switch rng.Intn(8) {
			case 0:
				signer = ws[(aid(a.Address()))%len(ws)] // wrong key
			case 1:
				blobOwner = ws[(aid(a.Address()))%len(ws)] // foreign challenge
			case 5:
				replay = "balance" // a captured Balance request of the same wallet (its own signature over its own address), replayed here
			case 6, 7:
				replay = "hash" // a captured Saved / Reject request (its own signature over a 32-byte transaction hash), replayed here
			}
			blob, ok := blobs[blobOwner.Address()]
			if !ok {
				blob = []byte{1, 2, 3}
			}
			bid := blobID[blobOwner.Address()]
			if blobOwner != a {
				bid += 1000
			}
			switch replay {
			case "balance":
				blob, bid = []byte(a.Address()), 900001
			case "hash":
				h := make([]byte, 32)
				rng.Read(h)
				blob, bid = h, 900002
			}
			d, s := signer.Sign(blob)
			resp, err := srv.Waiting(bg, &protobufcompiled.SignedHash{Address: a.Address(), Data: blob, Hash: d[:], Signature: s})
			res := "NErr"
			if err == nil {
				checkWire(resp.Array, "Waiting")
				var ids []int
				for _, t := range resp.Array {
					ids = append(ids, hid[[32]byte(t.Hash)])
				}
				sort.Ints(ids)
				res = fmt.Sprintf("(NList %s)", strings.ReplaceAll(fmt.Sprint(ids), " ", ";"))
				if signer != a || blobOwner != a {
					violate("read-without-proof-of-ownership", fmt.Sprintf("Waiting for %d answered a request signed by %d over the challenge of %d", aid(a.Address()), aid(signer.Address()), aid(blobOwner.Address())))
				}
				if replay != "" {
					violate("read-without-challenge", fmt.Sprintf("Waiting for %d answered a replayed %s request: the signed data is not a challenge this server issued", aid(a.Address()), replay))
				}
			}
			if replay != "" {
				out.stats["waiting.replayed_"+replay]++
			}
			record(fmt.Sprintf("NWaiting %d %d %v", aid(a.Address()), bid, signer == a), res, fmt.Sprintf("waiting %d blob-of=%d signed-by=%d", aid(a.Address()), aid(blobOwner.Address()), aid(signer.Address())))
			out.stats["waiting"]++
		case x < 93 && withExpiry && len(blobs) > 0: // a challenge used once while valid stays bound to its ORIGINAL expiry
			var a *wallet.Wallet
			for _, wl := range ws {
				if _, ok := blobs[wl.Address()]; ok {
					a = wl
				}
			}
			blob := blobs[a.Address()]
			d, sg := a.Sign(blob)
			// a fresh challenge so that its age is known: issued now, longevity 1 s
			if b, err := srv.Data(bg, &protobufcompiled.Address{Public: a.Address()}); err == nil {
				blobs[a.Address()], blobID[a.Address()] = b.Blob, nextBlob
				record(fmt.Sprintf("NData %d %d", aid(a.Address()), nextBlob), "NOk", fmt.Sprintf("data for %d = blob %d", aid(a.Address()), nextBlob))
				nextBlob++
				blob = b.Blob
				d, sg = a.Sign(blob)
			}
			use := func(note string) {
				resp, err := srv.Waiting(bg, &protobufcompiled.SignedHash{Address: a.Address(), Data: blob, Hash: d[:], Signature: sg})
				res := "NErr"
				if err == nil {
					var ids []int
					for _, t := range resp.Array {
						ids = append(ids, hid[[32]byte(t.Hash)])
					}
					sort.Ints(ids)
					res = fmt.Sprintf("(NList %s)", strings.ReplaceAll(fmt.Sprint(ids), " ", ";"))
				}
				record(fmt.Sprintf("NWaiting %d %d %v", aid(a.Address()), blobID[a.Address()], true), res, fmt.Sprintf("waiting %d own challenge %s", aid(a.Address()), note))
				if note == "after its expiry" && err == nil {
					violate("stale-challenge-accepted", fmt.Sprintf("Waiting for %d accepted a challenge %s (issued 1.3 s ago, longevity 1 s, used once at 0.65 s)", aid(a.Address()), note))
				}
			}
			time.Sleep(650 * time.Millisecond)
			use("at 0.65 s")
			time.Sleep(650 * time.Millisecond)
			for _, wl := range ws {
				if _, ok := blobs[wl.Address()]; ok {
					record(fmt.Sprintf("NExpire %d", aid(wl.Address())), "NOk", fmt.Sprintf("challenge of %d expires", aid(wl.Address())))
				}
			}
			use("after its expiry")
			out.stats["expiry_slide"]++
		case x < 96 && withExpiry: // let every challenge expire
			time.Sleep(1100 * time.Millisecond)
			for _, a := range ws {
				if _, ok := blobs[a.Address()]; ok {
					record(fmt.Sprintf("NExpire %d", aid(a.Address())), "NOk", fmt.Sprintf("challenge of %d expires", aid(a.Address())))
				}
			}
			out.stats["expire"]++
		default: // balance with own address signed by own / other key
			a := ws[rng.Intn(len(ws))]
			signer := a
			if rng.Intn(3) == 0 {
				signer = other
			}
			data := []byte(a.Address())
			if rng.Intn(5) == 0 {
				data = []byte(other.Address())
			}
			d, s := signer.Sign(data)
			if rng.Intn(2) == 0 { // the read-throttle window of this address has passed (the flash memory is the harness's own object)
				fl.RemoveAddress(a.Address())
				out.stats["balance.after_throttle_window"]++
			}
			_, err := srv.Balance(bg, &protobufcompiled.SignedHash{Address: a.Address(), Data: data, Hash: d[:], Signature: s})
			throttled := errors.Is(err, notaryserver.ErrThrottle)
			if err == nil && (signer != a || string(data) != a.Address()) {
				violate("read-without-proof-of-ownership", fmt.Sprintf("Balance of %d answered a request signed by %d", aid(a.Address()), aid(signer.Address())))
			}
			record(fmt.Sprintf("NBalance %d %v %v %v", aid(a.Address()), string(data) == a.Address(), signer == a, throttled), resOf(err), fmt.Sprintf("balance %d signed-by=%d", aid(a.Address()), aid(signer.Address())))
			out.stats["balance"]++
		}
		time.Sleep(2 * time.Millisecond) // let the handler's fire-and-forget goroutines (flash / balance cache cleanup) finish
	}
	return out
}

func resOf(err error) string {
	if err == nil {
		return "NOk"
	}
	return "NErr"
}

func main() {
	tier := flag.String("tier", "quick", "")
	seed := flag.Int64("seed", 1, "")
	summary := flag.String("summary", "", "")
	outp := flag.String("out", "", "")
	flag.Parse()
	if dn, err := os.OpenFile("/dev/null", os.O_WRONLY, 0); err == nil {
		syscall.Dup2(int(dn.Fd()), 2)
	}
	n := 40
	if *tier == "thorough" {
		n = 500
	}
	runs := make([]run, n)
	var wg sync.WaitGroup
	sem := make(chan struct{}, 10)
	for i := 0; i < n; i++ {
		wg.Add(1)
		sem <- struct{}{}
		go func(i int) {
			defer wg.Done()
			defer func() { <-sem }()
			defer func() {
				if r := recover(); r != nil {
					runs[i] = run{viol: []Violation{{"harness-panic", fmt.Sprint(r)}}, stats: map[string]int{}}
				}
			}()
			runs[i] = scenario(*seed, i, i%8 == 0)
		}(i)
	}
	wg.Wait()
	type Summary struct {
		Evaluations int            `json:"evaluations"`
		Nontrivial  int            `json:"distinct_nontrivial"`
		Kinds       map[string]int `json:"kinds"`
		Violations  []Violation    `json:"violations"`
		Samples     [][]string     `json:"samples"`
	}
	sum := Summary{Kinds: map[string]int{}}
	var traces []string
	seen := map[string]bool{}
	for _, r := range runs {
		sum.Evaluations += len(r.steps)
		for k, v := range r.stats {
			sum.Kinds[k] += v
		}
		sum.Violations = append(sum.Violations, r.viol...)
		key := strings.Join(r.human, "|")
		if len(r.steps) > 5 && !seen[key] && r.stats["confirm"]+r.stats["reject"] > 0 {
			seen[key] = true
			sum.Nontrivial++
		}
		traces = append(traces, "["+strings.Join(r.steps, ";\n ")+"]")
		if len(sum.Samples) < 2 && len(r.human) > 6 {
			sum.Samples = append(sum.Samples, r.human)
		}
	}
	var b strings.Builder
	b.WriteString("From Coq Require Import List Arith NArith Bool.\nFrom Verif Require Import Notary CheckNotary.\nImport ListNotations.\nLocal Open Scope N_scope.\n")
	b.WriteString("Definition traces : list (list nobs) := [\n" + strings.Join(traces, ";\n") + "].\n")
	b.WriteString("Definition bad := Eval vm_compute in nmismatches traces.\nPrint bad.\n")
	os.WriteFile(*outp, []byte(b.String()), 0644)
	js, _ := json.MarshalIndent(sum, "", " ")
	os.WriteFile(*summary, js, 0644)
	fmt.Printf("runs=%d calls=%d violations=%d\n", n, sum.Evaluations, len(sum.Violations))
}
