// ledgerh: drives real AccountingBook instances through generated histories, evaluates the property
// monitors on the implementation's snapshots, and writes the traces as Coq terms for the acceptor
// (coq/Run/CheckLedger.v).
package main

import (
	"encoding/json"
	"flag"
	"fmt"
	"os"
	"os/exec"
	"runtime"
	"runtime/pprof"
	"sort"
	"sync"
	"syscall"
)

type Summary struct {
	Scenarios  int                   `json:"scenarios"`
	Traces     int                   `json:"traces"`
	Steps      int                   `json:"steps"`
	NonTrivial int                   `json:"distinct_nontrivial"`
	Stats      map[string]int        `json:"stats"`
	Violations []Violation           `json:"violations"`
	Samples    [][]string            `json:"samples"`
	Shards     []string              `json:"shards"`
	TraceNames []string              `json:"trace_names"`
	ByKind     map[string]int        `json:"scenarios_by_kind"`
	ShardOps   map[string][][]string `json:"shard_ops"`
}

type job struct {
	kind string
	idx  int
	a, b int
}

func main() {
	tier := flag.String("tier", "quick", "")
	seed := flag.Int64("seed", 1, "")
	outDir := flag.String("out", ".", "directory for cases_<k>.v and summary.json")
	shards := flag.Int("shards", 16, "")
	only := flag.String("only", "", "run only this scenario kind")
	chunk := flag.String("chunk", "", "internal: run jobs lo:hi and write their outputs as JSON to -raw")
	raw := flag.String("raw", "", "internal")
	flag.Parse()
	// badger logs to stderr at INFO: silence it
	if dn, err := os.OpenFile("/dev/null", os.O_WRONLY, 0); err == nil {
		syscall.Dup2(int(dn.Fd()), 2)
	}
	os.MkdirAll(*outDir, 0755)
	var jobs []job
	nRand, nOps := 120, 45
	if *tier == "thorough" {
		nRand, nOps = 1500, 70
	}
	for i := 0; i < nRand; i++ {
		nodes := 1 + i%3
		jobs = append(jobs, job{"random", i, nodes, 10 + (i*7)%nOps})
	}
	jobs = append(jobs, extraJobs(*tier)...)
	if *only != "" {
		var f []job
		for _, j := range jobs {
			if j.kind == *only {
				f = append(f, j)
			}
		}
		jobs = f
	}
	outs := make([]ScenarioOut, len(jobs))
	var wg sync.WaitGroup
	// A closed ledger's three badger stores stay referenced by their GC goroutine until its next 5-minute tick
	// (src/accountant/storage.go), ~40 MB each: a process that creates thousands of ledgers does not fit in memory.
	// So the jobs run in child processes of at most chunkSize jobs; their memory goes away with them.
	const chunkSize = 40
	if *chunk != "" {
		var lo, hi int
		fmt.Sscanf(*chunk, "%d:%d", &lo, &hi)
		sem := make(chan struct{}, 3)
		for i := lo; i < hi && i < len(jobs); i++ {
			wg.Add(1)
			sem <- struct{}{}
			go func(i int) {
				defer wg.Done()
				defer func() { <-sem }()
				outs[i] = runJob(*seed, jobs[i])
			}(i)
		}
		wg.Wait()
		b, _ := json.Marshal(outs[lo:min(hi, len(jobs))])
		if err := os.WriteFile(*raw, b, 0644); err != nil {
			fmt.Println(err)
			os.Exit(3)
		}
		return
	}
	var chunkErr error
	var emu sync.Mutex
	sem := make(chan struct{}, 5)
	for lo := 0; lo < len(jobs); lo += chunkSize {
		wg.Add(1)
		sem <- struct{}{}
		go func(lo int) {
			defer wg.Done()
			defer func() { <-sem }()
			hi := min(lo+chunkSize, len(jobs))
			rawf := fmt.Sprintf("%s/.chunk_%d.json", *outDir, lo)
			cmd := exec.Command(os.Args[0], "-tier", *tier, "-seed", fmt.Sprint(*seed), "-out", *outDir, "-only", *only, "-chunk", fmt.Sprintf("%d:%d", lo, hi), "-raw", rawf)
			cmd.Dir = *outDir
			outb, err := cmd.CombinedOutput()
			var part []ScenarioOut
			if err == nil {
				var b []byte
				if b, err = os.ReadFile(rawf); err == nil {
					err = json.Unmarshal(b, &part)
				}
			}
			os.Remove(rawf)
			if err != nil || len(part) != hi-lo {
				emu.Lock()
				chunkErr = fmt.Errorf("chunk %d:%d failed: %v %s", lo, hi, err, string(outb[max(0, len(outb)-400):]))
				emu.Unlock()
				return
			}
			copy(outs[lo:hi], part)
		}(lo)
	}
	wg.Wait()
	if chunkErr != nil {
		fmt.Println(chunkErr)
		os.Exit(3)
	}
	if mp := os.Getenv("VERIF_MEMPROF"); mp != "" {
		if f, err := os.Create(mp); err == nil {
			pprof.WriteHeapProfile(f)
			f.Close()
		}
		var ms runtime.MemStats
		runtime.ReadMemStats(&ms)
		fmt.Printf("heap_alloc=%dMB heap_sys=%dMB goroutines=%d\n", ms.HeapAlloc>>20, ms.HeapSys>>20, runtime.NumGoroutine())
	}
	sum := Summary{Stats: map[string]int{}, ByKind: map[string]int{}}
	seen := map[string]bool{}
	shardTraces := make([][]string, *shards)
	shardOps := make([][][]string, *shards)
	k := 0
	for i, o := range outs {
		sum.Scenarios++
		sum.ByKind[jobs[i].kind]++
		sum.Steps += o.Steps
		for ti, t := range o.Traces {
			sum.Traces++
			shardTraces[k%*shards] = append(shardTraces[k%*shards], t)
			shardOps[k%*shards] = append(shardOps[k%*shards], o.Human[ti])
			sum.TraceNames = append(sum.TraceNames, fmt.Sprintf("%s#%d@shard%d:%d", o.Name, jobs[i].idx, k%*shards, len(shardTraces[k%*shards])-1))
			k++
		}
		for kk, v := range o.Stats {
			sum.Stats[kk] += v
		}
		sum.Violations = append(sum.Violations, o.Viol...)
		if o.NonTriv {
			key := fmt.Sprint(o.Human)
			if !seen[key] {
				seen[key] = true
				sum.NonTrivial++
			}
		}
		if len(sum.Samples) < 3 && len(o.Human) > 0 && len(o.Human[0]) > 5 {
			h := o.Human[0]
			if len(h) > 25 {
				h = h[:25]
			}
			sum.Samples = append(sum.Samples, h)
		}
	}
	for s := 0; s < *shards; s++ {
		if len(shardTraces[s]) == 0 {
			continue
		}
		name := fmt.Sprintf("cases_%d.v", s)
		f, _ := os.Create(*outDir + "/" + name)
		fmt.Fprintln(f, "From Verif Require Import U64 Spice Ledger CheckLedger.\nFrom Coq Require Import NArith.\nOpen Scope N_scope.")
		fmt.Fprintln(f, "Definition traces : list trace := [")
		for i, t := range shardTraces[s] {
			sep := ";"
			if i == len(shardTraces[s])-1 {
				sep = ""
			}
			fmt.Fprintln(f, t+sep)
		}
		fmt.Fprintln(f, "].\nDefinition M := Eval vm_compute in mismatches traces.\nPrint M.")
		f.Close()
		sum.Shards = append(sum.Shards, name)
		if sum.ShardOps == nil {
			sum.ShardOps = map[string][][]string{}
		}
		sum.ShardOps[name] = shardOps[s]
	}
	sort.Slice(sum.Violations, func(i, j int) bool { return sum.Violations[i].Key < sum.Violations[j].Key })
	b, _ := json.MarshalIndent(sum, "", " ")
	os.WriteFile(*outDir+"/summary.json", b, 0644)
	fmt.Printf("scenarios=%d traces=%d steps=%d violations=%d\n", sum.Scenarios, sum.Traces, sum.Steps, len(sum.Violations))
}

func runJob(seed int64, j job) (o ScenarioOut) {
	defer func() {
		if r := recover(); r != nil {
			o = ScenarioOut{Name: j.kind, Stats: map[string]int{"harness.panic": 1},
				Viol: []Violation{{Prop: "HARNESS", Key: "harness-panic", What: fmt.Sprint(r), Trace: fmt.Sprintf("%s#%d", j.kind, j.idx)}}}
		}
	}()
	switch j.kind {
	case "random":
		return scenarioRandom(seed, j.idx, j.a, j.b)
	}
	return runExtra(seed, j)
}
