package main

import (
	"context"
	"errors"
	"fmt"
	"math/big"
	"math/rand"
	"sort"
	"strings"

	"github.com/bartossh/Computantis/src/accountant"
	"github.com/bartossh/Computantis/src/spice"
	"github.com/bartossh/Computantis/src/transaction"
	"github.com/bartossh/Computantis/src/wallet"
)

type nolog struct{}

func (nolog) Debug(string) {}
func (nolog) Info(string)  {}
func (nolog) Warn(string)  {}
func (nolog) Error(string) {}
func (nolog) Fatal(string) {}

// World: wallets and the canonicalisation of hashes / addresses to small numbers (first appearance).
type World struct {
	rng     *rand.Rand
	ver     wallet.Helper
	wallets []*wallet.Wallet
	addrID  map[string]int
	hashID  map[[32]byte]int
	all     map[[32]byte]*accountant.Vertex // every vertex the harness ever created or received
	vok     map[[32]byte]bool              // Vertex.verify result of each
	order   [][32]byte                     // creation order of vertices (for topological hints)
}

func newWorld(seed int64, nWallets int) *World {
	w := &World{rng: rand.New(rand.NewSource(seed)), ver: wallet.NewVerifier(),
		addrID: map[string]int{"": 0}, hashID: map[[32]byte]int{{}: 0},
		all: map[[32]byte]*accountant.Vertex{}, vok: map[[32]byte]bool{}}
	for i := 0; i < nWallets; i++ {
		wl, err := wallet.New()
		if err != nil {
			panic(err)
		}
		w.wallets = append(w.wallets, &wl)
		w.A(wl.Address())
	}
	return w
}

func (w *World) A(a string) int {
	if id, ok := w.addrID[a]; ok {
		return id
	}
	id := len(w.addrID)
	w.addrID[a] = id
	return id
}

func (w *World) H(h [32]byte) int {
	if id, ok := w.hashID[h]; ok {
		return id
	}
	id := len(w.hashID)
	w.hashID[h] = id
	return id
}

func (w *World) remember(v *accountant.Vertex) bool {
	if _, ok := w.all[v.Hash]; !ok {
		cp := *v
		w.all[v.Hash] = &cp
		w.order = append(w.order, v.Hash)
		w.vok[v.Hash] = cp.VerifVerify(w.ver) == nil
	}
	return w.vok[v.Hash]
}

// ---- Coq text

func coqMel(m spice.Melange) string {
	return fmt.Sprintf("(Mel %d%%Z %d%%Z)", m.Currency, m.SupplementaryCurrency)
}

func coqBool(b bool) string {
	if b {
		return "true"
	}
	return "false"
}

func (w *World) coqTrx(t *transaction.Transaction) string {
	return fmt.Sprintf("(Trx %d %d %d %s %s)", w.H(t.Hash), w.A(t.IssuerAddress), w.A(t.ReceiverAddress),
		coqMel(t.Spice), coqBool(len(t.Data) != 0))
}

func (w *World) coqVtx(v *accountant.Vertex, ok bool) string {
	return fmt.Sprintf("(Vtx %d %d %d %d%%Z %d %s %s)", w.H(v.Hash), w.H(v.LeftParentHash), w.H(v.RightParentHash),
		v.Weight, w.A(v.SignerPublicAddress), coqBool(ok), w.coqTrx(&v.Transaction))
}

func coqBudget(k int) string {
	if k < 0 {
		return "None"
	}
	return fmt.Sprintf("(Some %d%%nat)", k)
}

func coqList(items []string) string {
	return "[" + strings.Join(items, "; ") + "]"
}

// canonical snapshot
type CSnap struct {
	Dag        []int
	Edges      [][2]int
	Leaves     []int
	Index      [][2]int
	Stv        []int
	Funds      []CFund
	Trusted    []int
	Genesis    int
	Loaded     bool
	Weight     uint64
	Throughput uint64
	Parked     [][2]int
}
type CFund struct {
	Addr int
	M    spice.Melange
}

func (w *World) canon(s *accountant.VerifSnapshot) CSnap {
	c := CSnap{Genesis: w.A(s.Genesis), Loaded: s.Loaded, Weight: s.Weight, Throughput: s.Throughput}
	for i := range s.Vertices {
		c.Dag = append(c.Dag, w.H(s.Vertices[i].Hash))
	}
	sort.Ints(c.Dag)
	for _, e := range s.Edges {
		c.Edges = append(c.Edges, [2]int{w.H(e[0]), w.H(e[1])})
	}
	sortPairs(c.Edges)
	for _, l := range s.Leaves {
		c.Leaves = append(c.Leaves, w.H(l))
	}
	sort.Ints(c.Leaves)
	for k, v := range s.Index {
		var vh [32]byte
		copy(vh[:], v)
		c.Index = append(c.Index, [2]int{w.H(k), w.H(vh)})
	}
	sortPairs(c.Index)
	for i := range s.StoredVertices {
		c.Stv = append(c.Stv, w.H(s.StoredVertices[i].Hash))
	}
	sort.Ints(c.Stv)
	for a, m := range s.StoredFunds {
		c.Funds = append(c.Funds, CFund{w.A(a), m})
	}
	sort.Slice(c.Funds, func(i, j int) bool { return c.Funds[i].Addr < c.Funds[j].Addr })
	for _, t := range s.Trusted {
		c.Trusted = append(c.Trusted, w.A(t))
	}
	sort.Ints(c.Trusted)
	for _, p := range s.Parked {
		c.Parked = append(c.Parked, [2]int{w.H(p.Hash), p.Repeated})
	}
	return c
}

func sortPairs(p [][2]int) {
	sort.Slice(p, func(i, j int) bool {
		if p[i][0] != p[j][0] {
			return p[i][0] < p[j][0]
		}
		return p[i][1] < p[j][1]
	})
}

func ints(l []int) string {
	s := make([]string, len(l))
	for i, x := range l {
		s[i] = fmt.Sprint(x)
	}
	return coqList(s)
}
func pairs(l [][2]int) string {
	s := make([]string, len(l))
	for i, x := range l {
		s[i] = fmt.Sprintf("(%d, %d)", x[0], x[1])
	}
	return coqList(s)
}

func (c *CSnap) coq() string {
	f := make([]string, len(c.Funds))
	for i, x := range c.Funds {
		f[i] = fmt.Sprintf("(%d, %s)", x.Addr, coqMel(x.M))
	}
	pk := make([]string, len(c.Parked))
	for i, x := range c.Parked {
		pk[i] = fmt.Sprintf("(%d, %d%%Z)", x[0], x[1])
	}
	return fmt.Sprintf("(Snap %s %s %s %s %s %s %s %d %s %d%%Z %d%%Z %s)", ints(c.Dag), pairs(c.Edges), ints(c.Leaves),
		pairs(c.Index), ints(c.Stv), coqList(f), ints(c.Trusted), c.Genesis, coqBool(c.Loaded), c.Weight, c.Throughput, coqList(pk))
}

// ---- error classes (projected observable)

func classify(err error) string {
	switch {
	case err == nil:
		return "ROk"
	case errors.Is(err, accountant.ErrDagIsNotLoaded):
		return "RNotLoaded"
	case errors.Is(err, accountant.ErrTrxIsEmpty):
		return "REmpty"
	case errors.Is(err, accountant.ErrCannotTransferFoundsViaOwnedNode):
		return "ROwnNode"
	case errors.Is(err, accountant.ErrCannotTransferFoundsFromGenesisWallet):
		return "RGenesisIssuer"
	case errors.Is(err, accountant.ErrLeafAlreadyExists):
		return "RVertexExists"
	case errors.Is(err, accountant.ErrTrxInVertexAlreadyExists):
		return "RTrxExists"
	case errors.Is(err, accountant.ErrParentDoesNotExists):
		return "RParentMissing"
	}
	return "RRejected"
}

// ---- counting context: the k-th poll of Done() reports cancellation

type countCtx struct {
	context.Context
	left int
}

var closedCh = func() chan struct{} { c := make(chan struct{}); close(c); return c }()

func (c *countCtx) Done() <-chan struct{} {
	if c.left < 0 {
		return nil
	}
	if c.left == 0 {
		return closedCh
	}
	c.left--
	return nil
}
// Err is a poll too: code may ask `ctx.Err() != nil` instead of selecting on Done()
func (c *countCtx) Err() error {
	if c.left == 0 {
		return context.Canceled
	}
	if c.left > 0 {
		c.left--
	}
	return nil
}

func ctxWithBudget(k int) context.Context {
	return &countCtx{Context: context.Background(), left: k}
}

// ---- big integer helpers for the monitors

var e18big = new(big.Int).SetUint64(1000000000000000000)
var limitBig = new(big.Int).Mul(new(big.Int).Lsh(big.NewInt(1), 64), e18big)

func valBig(m spice.Melange) *big.Int {
	v := new(big.Int).SetUint64(m.Currency)
	v.Mul(v, e18big)
	return v.Add(v, new(big.Int).SetUint64(m.SupplementaryCurrency))
}
