package main

import (
	"context"
	"fmt"
	"math/big"
	"sort"
	"time"

	"github.com/bartossh/Computantis/src/accountant"
)

// streamOf runs the real StreamDAG of a node to completion (with a watchdog).
func streamOf(src *Node) []*accountant.Vertex {
	ctx, cancel := context.WithCancel(context.Background())
	defer cancel()
	ch := src.ab.StreamDAG(ctx)
	var out []*accountant.Vertex
	timeout := time.After(60 * time.Second)
	for {
		select {
		case v, ok := <-ch:
			if !ok {
				return out
			}
			if v == nil {
				return out
			}
			cp := *v
			out = append(out, &cp)
		case <-timeout:
			src.violate("C08", "stream-hangs", "StreamDAG did not finish within 60 s")
			return out
		}
	}
}

// loadInto feeds a stream into the real LoadDag of dst and records the step.
func loadInto(dst *Node, stream []*accountant.Vertex, w *World) bool {
	ch := make(chan *accountant.Vertex, len(stream)+1)
	for _, v := range stream {
		cp := *v
		ch <- &cp
	}
	close(ch)
	_, cancel := context.WithCancelCause(context.Background())
	done := make(chan struct{})
	go func() {
		defer close(done)
		defer func() { recover() }()
		dst.ab.LoadDag(cancel, ch)
	}()
	select {
	case <-done:
	case <-time.After(60 * time.Second):
		dst.violate("C08", "load-hangs", "LoadDag did not finish within 60 s")
		return false
	}
	ok := dst.ab.DagLoaded()
	var sv, tv []string
	idx := map[[32]byte]int{}
	for _, v := range stream {
		vok := w.remember(v)
		sv = append(sv, w.coqVtx(v, vok))
	}
	for i, h := range w.order {
		idx[h] = i
	}
	topo := append([]*accountant.Vertex{}, stream...)
	sort.SliceStable(topo, func(i, j int) bool { return idx[topo[i].Hash] > idx[topo[j].Hash] })
	for _, v := range topo {
		tv = append(tv, w.coqVtx(v, w.vok[v.Hash]))
	}
	dst.record(fmt.Sprintf("(OLoad %s %s)", coqList(sv), coqList(tv)), "(BBool "+coqBool(ok)+")",
		fmt.Sprintf("load %d vertices -> loaded=%v", len(stream), ok), "load", nil)
	dst.stats[fmt.Sprintf("res.load.%v", ok)]++
	return ok
}

// monQuiescent: ledger-wide monitors at the end of a scenario (C02, C06 across nodes)
func (s *sim) monQuiescent() {
	w := s.w
	for _, n := range s.nodes {
		snap := n.prev
		vw := mkView(&snap)
		if snap.Genesis == "" {
			continue
		}
		// confirmed = has a child or checkpointed
		var confirmed []*accountant.Vertex
		trustedSealed := false
		for h, v := range vw.live {
			if vw.child[h] {
				confirmed = append(confirmed, v)
			}
		}
		for _, v := range vw.stored {
			confirmed = append(confirmed, v)
		}
		var supply *big.Int
		for _, v := range confirmed {
			if isTrusted(&snap, v.SignerPublicAddress) || n.everTrusted[v.SignerPublicAddress] {
				trustedSealed = true // sealed (possibly) under the trusted-node exemption: outside the property's confirmed set
			}
			if v.Transaction.IssuerAddress == snap.Genesis && v.LeftParentHash == [32]byte{} {
				if supply == nil {
					supply = new(big.Int)
				}
				supply.Add(supply, valBig(v.Transaction.Spice))
			}
		}
		n.stats["c02.quiescent_checked"]++
		if trustedSealed || supply == nil {
			n.stats["c02.skipped_trusted_or_no_genesis"]++
			continue
		}
		bal := map[string]*big.Int{}
		get := func(a string) *big.Int {
			if bal[a] == nil {
				bal[a] = new(big.Int)
			}
			return bal[a]
		}
		toGenesis := new(big.Int)
		for _, v := range confirmed {
			if !v.Transaction.IsSpiceTransfer() {
				continue
			}
			get(v.Transaction.IssuerAddress).Sub(get(v.Transaction.IssuerAddress), valBig(v.Transaction.Spice))
			get(v.Transaction.ReceiverAddress).Add(get(v.Transaction.ReceiverAddress), valBig(v.Transaction.Spice))
			if v.Transaction.ReceiverAddress == snap.Genesis && v.Transaction.IssuerAddress != snap.Genesis {
				toGenesis.Add(toGenesis, valBig(v.Transaction.Spice))
			}
		}
		total := new(big.Int)
		overdrawn := ""
		for a, b := range bal {
			if a == snap.Genesis {
				continue
			}
			total.Add(total, b)
			if b.Sign() < 0 {
				overdrawn = a
			}
		}
		if overdrawn != "" {
			// classify: does every confirmed vertex pass the cover test in its OWN history (C01 holds)?
			ownOK := true
			// checkpointed funds recomputed from the stored vertices themselves (not read from the implementation's store)
			storedNet := map[string]*big.Int{}
			for _, sv := range vw.stored {
				if !sv.Transaction.IsSpiceTransfer() {
					continue
				}
				for _, a := range []string{sv.Transaction.IssuerAddress, sv.Transaction.ReceiverAddress} {
					if storedNet[a] == nil {
						storedNet[a] = new(big.Int)
					}
				}
				storedNet[sv.Transaction.IssuerAddress].Sub(storedNet[sv.Transaction.IssuerAddress], valBig(sv.Transaction.Spice))
				storedNet[sv.Transaction.ReceiverAddress].Add(storedNet[sv.Transaction.ReceiverAddress], valBig(sv.Transaction.Spice))
			}
			for _, v := range confirmed {
				if _, live := vw.live[v.Hash]; !live || !v.Transaction.IsSpiceTransfer() || (v.Transaction.IssuerAddress == snap.Genesis && v.LeftParentHash == [32]byte{}) {
					continue
				}
				in, out := flows(v.Transaction.IssuerAddress, vw.history(v.Hash))
				if m, ok := storedNet[v.Transaction.IssuerAddress]; ok {
					in.Add(in, m)
				}
				if in.Cmp(out) < 0 {
					ownOK = false
				}
			}
			key := "overdrawn-wallet-in-own-history"
			if ownOK {
				key = "merge-double-spend"
			}
			n.violate("C02", key, fmt.Sprintf("wallet %d is overdrawn over the confirmed set (balance %s) on node %s", w.A(overdrawn), bal[overdrawn], n.name))
		}
		if total.Cmp(supply) > 0 {
			n.violate("C02", "supply-grew", fmt.Sprintf("balances sum to %s > genesis supply %s", total, supply))
		}
		if total.Cmp(supply) < 0 {
			diff := new(big.Int).Sub(supply, total)
			if diff.Cmp(toGenesis) == 0 {
				n.violate("C02", "burn-to-genesis", fmt.Sprintf("%s units were transferred to the genesis wallet and left the counted set", toGenesis))
			} else {
				n.violate("C02", "supply-shrank", fmt.Sprintf("balances sum to %s < genesis supply %s", total, supply))
			}
		}
	}
}
