package main

import (
	"fmt"
	"time"

	"github.com/bartossh/Computantis/src/accountant"
	"github.com/bartossh/Computantis/src/spice"
	"github.com/bartossh/Computantis/src/transaction"
	"github.com/bartossh/Computantis/src/wallet"
)

const e18 = uint64(1000000000000000000)

// Scenario result handed to main.
type ScenarioOut struct {
	Name     string
	Traces   []string // coq traces (one per node)
	Human    [][]string
	Viol     []Violation
	Stats    map[string]int
	NonTriv  bool
	Steps    int
}

// craft a transaction signed by `issuer` without the constructor's checks
func craftTrx(issuer *wallet.Wallet, recv string, subject string, data []byte, amt spice.Melange, at time.Time) transaction.Transaction {
	t := transaction.Transaction{CreatedAt: at, IssuerAddress: issuer.Address(), ReceiverAddress: recv, Subject: subject, Data: data, Spice: amt,
		ReceiverSignature: []byte{}}
	msg := t.GetMessage()
	t.Hash, t.IssuerSignature = issuer.Sign(msg)
	return t
}

type sim struct {
	w       *World
	nodes   []*Node
	bal     map[string]int64 // rough reference balance (whole currency units), only to steer generation
	pending map[int][]*accountant.Vertex // vertices not yet delivered, per node index
	created []*accountant.Vertex
	trxs    []*transaction.Transaction
	genesisSigner *wallet.Wallet
	recvRich *wallet.Wallet
	users   []*wallet.Wallet
	clock   time.Time
	lastCrafted *accountant.Vertex
	lastCls string
}

func (s *sim) now() time.Time {
	s.clock = s.clock.Add(time.Millisecond)
	return s.clock
}

func (s *sim) amount(maxCur int64) spice.Melange {
	r := s.w.rng
	if maxCur < 1 {
		maxCur = 1
	}
	cur := uint64(r.Int63n(maxCur))
	var sup uint64
	switch r.Intn(6) {
	case 0:
		sup = 0
	case 1:
		sup = e18 - 1
	case 2:
		sup = e18 / 2
	case 3:
		sup = 1
	default:
		sup = uint64(r.Int63n(int64(e18)))
	}
	if cur == 0 && sup == 0 {
		cur = 1
	}
	return spice.Melange{Currency: cur, SupplementaryCurrency: sup}
}

// random history on 1..3 nodes
func scenarioRandom(seed int64, idx int, nNodes, nOps int) ScenarioOut {
	w := newWorld(seed*1000003+int64(idx), 7)
	s := &sim{w: w, bal: map[string]int64{}, pending: map[int][]*accountant.Vertex{}, clock: time.Now().Add(-time.Hour)}
	r := w.rng
	s.genesisSigner = w.wallets[0]
	s.recvRich = w.wallets[1]
	s.users = w.wallets[1:5]
	nodeSigners := []*wallet.Wallet{w.wallets[0], w.wallets[5], w.wallets[6]}
	for i := 0; i < nNodes; i++ {
		s.nodes = append(s.nodes, newNode(w, fmt.Sprintf("rand%d.n%d", idx, i), nodeSigners[i]))
	}
	defer func() {
		for _, n := range s.nodes {
			n.close()
		}
	}()
	n0 := s.nodes[0]
	// a few operations before the DAG is loaded
	if r.Intn(4) == 0 {
		t := craftTrx(s.users[0], s.users[1].Address(), "early", nil, spice.Melange{Currency: 1}, s.now())
		n0.create(&t, -1)
		v, _ := accountant.NewVertex(t, [32]byte{}, [32]byte{}, 1, nodeSigners[1])
		n0.add(&v, -1)
	}
	if r.Intn(8) == 0 {
		n0.genesis(s.genesisSigner.Address(), spice.Melange{Currency: 10}) // receiver = issuer: rejected
	}
	gAmt := spice.Melange{Currency: uint64(100 + r.Intn(900)), SupplementaryCurrency: 0}
	if r.Intn(5) == 0 {
		gAmt.SupplementaryCurrency = e18 - 1
	}
	gv, _ := n0.genesis(s.recvRich.Address(), gAmt)
	if gv == nil {
		return s.out("random", false)
	}
	s.bal[s.recvRich.Address()] = int64(gAmt.Currency)
	// other nodes sync from node 0 (LoadDag of the real stream)
	for i := 1; i < nNodes; i++ {
		s.loadFrom(s.nodes[i], n0, false)
	}
	if r.Intn(3) == 0 && nNodes > 1 {
		n0.trust(nodeSigners[1].Address(), true)
	}
	for k := 0; k < nOps; k++ {
		ni := r.Intn(nNodes)
		n := s.nodes[ni]
		budget := -1
		if r.Intn(12) == 0 {
			budget = r.Intn(4)
		}
		switch x := r.Intn(100); {
		case x < 38: // proposal, mostly valid
			issuer := s.users[r.Intn(len(s.users))]
			if r.Intn(3) != 0 { // prefer an issuer that holds something
				for _, u := range s.users {
					if s.bal[u.Address()] > 0 {
						issuer = u
						break
					}
				}
			}
			recv := w.wallets[r.Intn(len(w.wallets))]
			b := s.bal[issuer.Address()]
			if b < 0 {
				b = 0
			}
			var amt spice.Melange
			switch r.Intn(10) {
			case 0: // overdraft
				amt = spice.Melange{Currency: uint64(b + 1 + r.Int63n(5))}
			case 1: // exactly everything
				amt = spice.Melange{Currency: uint64(b)}
				if b == 0 {
					amt = spice.Melange{SupplementaryCurrency: 1}
				}
			default:
				amt = s.amount(b/2 + 1)
			}
			var data []byte
			if r.Intn(6) == 0 {
				data = []byte("contract")
			}
			if r.Intn(12) == 0 {
				amt = spice.Melange{} // data only or empty
			}
			t := craftTrx(issuer, recv.Address(), "transfer", data, amt, s.now())
			v, cls := n.create(&t, budget)
			s.trxs = append(s.trxs, &t)
			if cls == "ROk" {
				s.bal[issuer.Address()] -= int64(amt.Currency)
				s.bal[recv.Address()] += int64(amt.Currency)
				s.created = append(s.created, v)
				for j := range s.nodes {
					if j != ni {
						s.pending[j] = append(s.pending[j], v)
					}
				}
			}
		case x < 44: // guard cases: issuer is the node itself / the genesis wallet / replayed transaction
			var t transaction.Transaction
			switch r.Intn(3) {
			case 0:
				t = craftTrx(n.signer, s.users[0].Address(), "own", nil, spice.Melange{Currency: 1}, s.now())
			case 1:
				t = craftTrx(s.genesisSigner, s.users[0].Address(), "gen", nil, spice.Melange{Currency: 1}, s.now())
			default:
				if len(s.trxs) == 0 {
					continue
				}
				t = *s.trxs[r.Intn(len(s.trxs))]
			}
			if v, cls := n.create(&t, -1); cls == "ROk" {
				s.created = append(s.created, v)
				for j := range s.nodes {
					if j != ni {
						s.pending[j] = append(s.pending[j], v)
					}
				}
			}
		case x < 66: // gossip delivery, any order
			p := s.pending[ni]
			if len(p) == 0 {
				continue
			}
			j := r.Intn(len(p))
			if r.Intn(3) != 0 {
				j = 0 // mostly in creation order
			}
			v := p[j]
			s.pending[ni] = append(append([]*accountant.Vertex{}, p[:j]...), p[j+1:]...)
			n.add(v, budget)
		case x < 70: // duplicate delivery of something already seen
			if len(s.created) == 0 {
				continue
			}
			n.add(s.created[r.Intn(len(s.created))], -1)
		case x < 84: // crafted vertex
			s.crafted(n, ni, budget)
		case x < 90:
			n.retry(budget)
		case x < 96:
			a := w.wallets[r.Intn(len(w.wallets))].Address()
			if r.Intn(10) == 0 {
				a = "unknown-address-that-never-appears-in-the-ledger-000000"
			}
			bq := -1
			if r.Intn(6) == 0 {
				bq = r.Intn(3)
			}
			n.balance(a, bq)
		case x < 98:
			n.trust(nodeSigners[r.Intn(len(nodeSigners))].Address(), r.Intn(2) == 0)
		default:
			if len(s.created) > 0 {
				v := s.created[r.Intn(len(s.created))]
				n.readVertex(v.Hash)
				n.readTrx(v.Transaction.Hash)
			}
		}
	}
	// quiescence: deliver everything, retry until the buffers are empty, query all balances
	for ni, n := range s.nodes {
		for _, v := range s.pending[ni] {
			n.add(v, -1)
		}
		for i := 0; i < 60; i++ {
			if had, _ := n.retry(-1); !had {
				break
			}
		}
		for _, wl := range w.wallets {
			n.balance(wl.Address(), -1)
		}
	}
	s.monQuiescent()
	return s.out("random", true)
}

// crafted vertices through the gossip entry: arbitrary parents, weights, sealers, corruptions
func (s *sim) crafted(n *Node, ni int, budget int) {
	w, r := s.w, s.w.rng
	snap := n.prev
	if len(snap.Vertices) == 0 {
		return
	}
	pick := func() [32]byte {
		switch r.Intn(10) {
		case 0:
			var h [32]byte
			r.Read(h[:])
			return h // unknown parent
		case 1, 2, 3:
			if len(snap.Leaves) > 0 {
				return snap.Leaves[r.Intn(len(snap.Leaves))]
			}
		case 4:
			if len(snap.StoredVertices) > 0 {
				return snap.StoredVertices[r.Intn(len(snap.StoredVertices))].Hash
			}
		}
		return snap.Vertices[r.Intn(len(snap.Vertices))].Hash
	}
	l, rr := pick(), pick()
	if r.Intn(4) == 0 {
		rr = l
	}
	var mw uint64
	for i := range snap.Vertices {
		if snap.Vertices[i].Hash == l || snap.Vertices[i].Hash == rr {
			if snap.Vertices[i].Weight > mw {
				mw = snap.Vertices[i].Weight
			}
		}
	}
	weight := mw + 1
	switch r.Intn(40) {
	case 0, 1, 2, 3:
		weight = 0
	case 4:
		weight = ^uint64(0) // unvalidated: lifts the node's weight mark, every other tip then fails the window
	case 5, 6:
		weight = mw + 2 + uint64(r.Intn(5))
	}
	sealers := []*wallet.Wallet{w.wallets[5], w.wallets[6], w.wallets[4]}
	sealer := sealers[r.Intn(len(sealers))]
	issuer := s.users[r.Intn(len(s.users))]
	recv := w.wallets[r.Intn(len(w.wallets))]
	b := s.bal[issuer.Address()]
	if b < 0 {
		b = 0
	}
	amt := s.amount(b/2 + 1)
	if r.Intn(6) == 0 {
		amt = spice.Melange{Currency: uint64(b + 1 + r.Int63n(100))}
	}
	var data []byte
	if r.Intn(8) == 0 {
		data = []byte("d")
		if r.Intn(2) == 0 {
			amt = spice.Melange{}
		}
	}
	kind := r.Intn(12)
	if r.Intn(25) == 0 { // non-canonical amount straight from the wire
		amt.SupplementaryCurrency = e18 + uint64(r.Intn(3))
		if r.Intn(2) == 0 {
			amt.SupplementaryCurrency = ^uint64(0) - uint64(r.Intn(3))
		}
	}
	switch kind {
	case 0:
		issuer = sealer // self sealed
	case 1:
		issuer = s.genesisSigner
	case 2:
		amt, data = spice.Melange{}, nil // empty
	}
	var t transaction.Transaction
	if kind == 3 && len(s.trxs) > 0 {
		t = *s.trxs[r.Intn(len(s.trxs))] // replay a known transaction inside a new vertex
	} else {
		t = craftTrx(issuer, recv.Address(), "crafted", data, amt, s.now())
		s.trxs = append(s.trxs, &t)
	}
	v, _ := accountant.NewVertex(t, l, rr, weight, sealer)
	switch kind {
	case 4:
		v.Signature = append([]byte{}, v.Signature...)
		v.Signature[r.Intn(len(v.Signature))] ^= 1
	case 5:
		v.Weight++ // signed field altered after sealing
	case 6:
		v.Transaction.Spice.Currency++ // transaction altered after signing
	}
	cls := n.add(&v, budget)
	s.lastCrafted, s.lastCls = &v, cls
	if cls == "ROk" || cls == "RParentMissing" {
		if cls == "ROk" {
			s.bal[t.IssuerAddress] -= int64(t.Spice.Currency)
			s.bal[t.ReceiverAddress] += int64(t.Spice.Currency)
		}
		s.created = append(s.created, &v)
		for j := range s.nodes {
			if j != ni && r.Intn(2) == 0 {
				s.pending[j] = append(s.pending[j], &v)
			}
		}
	}
}

// LoadDag of src's real stream into dst (dst must be fresh). corrupt: not used here.
func (s *sim) loadFrom(dst, src *Node, _ bool) bool {
	stream := streamOf(src)
	ok := loadInto(dst, stream, s.w)
	return ok
}

func (s *sim) out(name string, nontriv bool) ScenarioOut {
	o := ScenarioOut{Name: name, Stats: map[string]int{}}
	admitted, rejected, twoParents := 0, 0, false
	for _, n := range s.nodes {
		o.Traces = append(o.Traces, n.coqTrace())
		o.Human = append(o.Human, n.ops)
		o.Viol = append(o.Viol, n.viol...)
		o.Steps += len(n.steps)
		for k, v := range n.stats {
			o.Stats[k] += v
			if len(k) > 4 && k[:4] == "res." {
				if k[len(k)-3:] == "ROk" {
					admitted += v
				} else {
					rejected += v
				}
			}
		}
		for i := range n.prev.Vertices {
			v := &n.prev.Vertices[i]
			if v.LeftParentHash != v.RightParentHash {
				twoParents = true
			}
		}
	}
	o.NonTriv = nontriv && admitted > 0 && rejected > 0 && twoParents
	return o
}
