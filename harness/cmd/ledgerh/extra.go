package main

func extraJobs(tier string) []job { return nil }

func runExtra(seed int64, j job) ScenarioOut { return ScenarioOut{Name: j.kind, Stats: map[string]int{}} }
