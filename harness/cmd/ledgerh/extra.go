package main

import (
	"context"
	"fmt"
	"math/big"
	"sort"
	"sync"
	"time"

	"github.com/bartossh/Computantis/src/accountant"
	"github.com/bartossh/Computantis/src/spice"
	"github.com/bartossh/Computantis/src/transaction"
	"github.com/bartossh/Computantis/src/wallet"
)

func extraJobs(tier string) []job {
	var j []job
	nTrunc, nPerm, nLoad, nStale := 2, 24, 16, 6
	if tier == "thorough" {
		nTrunc, nPerm, nLoad, nStale = 12, 400, 200, 60
	}
	for i := 0; i < nTrunc; i++ {
		j = append(j, job{"truncate", i, 0, 0})
	}
	for i := 0; i < nPerm; i++ {
		j = append(j, job{"perm", i, 0, 0})
	}
	for i := 0; i < nLoad; i++ {
		j = append(j, job{"load", i, 0, 0})
	}
	for i := 0; i < nStale; i++ {
		j = append(j, job{"stale", i, 0, 0})
	}
	for i := 0; i < 2; i++ {
		j = append(j, job{"heavy", i, 0, 0})
	}
	for i := 0; i < 4; i++ {
		j = append(j, job{"revoke", i, 0, 0})
	}
	for i := 0; i < 2; i++ {
		j = append(j, job{"interrupt", i, 0, 0})
	}
	for i := 0; i < 4; i++ {
		j = append(j, job{"repropose", i, 0, 0})
	}
	return j
}

func runExtra(seed int64, j job) ScenarioOut {
	switch j.kind {
	case "truncate":
		return scenarioTruncate(seed, j.idx)
	case "perm":
		return scenarioPerm(seed, j.idx)
	case "load":
		return scenarioLoad(seed, j.idx)
	case "stale":
		return scenarioStale(seed, j.idx)
	case "heavy":
		return scenarioHeavy(seed, j.idx)
	case "revoke":
		return scenarioRevoke(seed, j.idx)
	case "interrupt":
		return scenarioInterrupt(seed, j.idx)
	case "repropose":
		return scenarioRepropose(seed, j.idx)
	}
	return ScenarioOut{Name: j.kind, Stats: map[string]int{}}
}

// ---------------------------------------------------------------- model state injection

// coqLedger renders a snapshot as a model ledger (dag newest first by creation order).
func (w *World) coqLedger(s *accountant.VerifSnapshot, self string) string {
	idx := map[[32]byte]int{}
	for i, h := range w.order {
		idx[h] = i
	}
	vs := make([]*accountant.Vertex, 0, len(s.Vertices))
	for i := range s.Vertices {
		vs = append(vs, &s.Vertices[i])
	}
	sort.SliceStable(vs, func(i, j int) bool { return idx[vs[i].Hash] > idx[vs[j].Hash] })
	inb := map[[32]byte][]int{}
	for _, e := range s.Edges {
		inb[e[1]] = append(inb[e[1]], w.H(e[0]))
	}
	nodes := make([]string, len(vs))
	for i, v := range vs {
		p := inb[v.Hash]
		// keep declared order left, right
		var lp []int
		for _, d := range []int{w.H(v.LeftParentHash), w.H(v.RightParentHash)} {
			for _, x := range p {
				if x == d && (len(lp) == 0 || lp[len(lp)-1] != d) {
					lp = append(lp, d)
				}
			}
		}
		nodes[i] = fmt.Sprintf("(Node %s %s)", w.coqVtx(v, w.remember(v)), ints(lp))
	}
	c := w.canon(s)
	stv := make([]string, len(s.StoredVertices))
	for i := range s.StoredVertices {
		stv[i] = w.coqVtx(&s.StoredVertices[i], w.remember(&s.StoredVertices[i]))
	}
	f := make([]string, len(c.Funds))
	for i, x := range c.Funds {
		f[i] = fmt.Sprintf("(%d, %s)", x.Addr, coqMel(x.M))
	}
	pk := "[]"
	return fmt.Sprintf("(Ledger %s %s %s %s %s %d %s %d%%Z %d%%Z %s %d)", coqList(nodes), pairs(c.Index), coqList(stv), coqList(f),
		ints(c.Trusted), c.Genesis, coqBool(c.Loaded), c.Weight, c.Throughput, pk, w.A(self))
}

// ---------------------------------------------------------------- truncation histories (C07, C08, C14-after-truncation)

func scenarioTruncate(seed int64, idx int) ScenarioOut {
	w := newWorld(seed*7000003+int64(idx), 8)
	r := w.rng
	s := &sim{w: w, bal: map[string]int64{}, pending: map[int][]*accountant.Vertex{}, clock: time.Now().Add(-time.Hour)}
	s.genesisSigner, s.recvRich, s.users = w.wallets[0], w.wallets[1], w.wallets[1:5]
	n := newNode(w, fmt.Sprintf("trunc%d", idx), w.wallets[0])
	n.snapEvery = false
	s.nodes = []*Node{n}
	defer n.close()
	gAmt := spice.Melange{Currency: 1000000}
	if gv, _ := n.genesis(s.recvRich.Address(), gAmt); gv == nil {
		return s.out("truncate", false)
	}
	ref := map[string]*big.Int{s.recvRich.Address(): valBig(gAmt)}
	get := func(a string) *big.Int {
		if ref[a] == nil {
			ref[a] = new(big.Int)
		}
		return ref[a]
	}
	braid := idx%2 == 1
	sealer := w.wallets[5]
	build := func(target int) {
		for k := 0; k < target; k++ {
			// pick an issuer that holds funds (on the reference), small amounts so nobody runs dry
			issuer := s.users[r.Intn(len(s.users))]
			for tries := 0; tries < 8 && get(issuer.Address()).Cmp(big.NewInt(2e18)) < 0; tries++ {
				issuer = s.users[r.Intn(len(s.users))]
			}
			if get(issuer.Address()).Cmp(big.NewInt(2e18)) < 0 {
				issuer = s.recvRich
			}
			recv := w.wallets[1+r.Intn(4)]
			amt := spice.Melange{Currency: uint64(r.Intn(2)), SupplementaryCurrency: uint64(1 + r.Int63n(int64(e18)-1))}
			var data []byte
			if r.Intn(20) == 0 {
				data, amt = []byte("note"), spice.Melange{}
			}
			t := craftTrx(issuer, recv.Address(), "t", data, amt, s.now())
			ok := false
			if braid && k%3 == 2 && len(n.prev.Leaves) >= 1 {
				// a gossiped vertex on top of the current tip(s): widens the DAG
				sn := n.ab.VerifSnapshot()
				l := sn.Leaves[r.Intn(len(sn.Leaves))]
				rr := sn.Leaves[r.Intn(len(sn.Leaves))]
				var mw uint64
				for i := range sn.Vertices {
					if (sn.Vertices[i].Hash == l || sn.Vertices[i].Hash == rr) && sn.Vertices[i].Weight > mw {
						mw = sn.Vertices[i].Weight
					}
				}
				v, _ := accountant.NewVertex(t, l, rr, mw+1, sealer)
				ok = n.addQuiet(&v) == "ROk"
			} else {
				_, cls := n.createQuiet(&t)
				ok = cls == "ROk"
			}
			if ok && amt.Currency+amt.SupplementaryCurrency > 0 {
				get(issuer.Address()).Sub(get(issuer.Address()), valBig(amt))
				get(recv.Address()).Add(get(recv.Address()), valBig(amt))
			}
		}
	}
	// a wallet that is paid once at the very beginning (so the payment is checkpointed by the first truncation), spends exactly
	// everything after it and is never paid again: at the second truncation its checkpoint must go back to exactly zero
	drainer := w.wallets[7]
	{
		amt := spice.Melange{Currency: 3, SupplementaryCurrency: 7}
		t := craftTrx(s.recvRich, drainer.Address(), "to-drainer", nil, amt, s.now())
		if _, cls := n.createQuiet(&t); cls == "ROk" {
			get(s.recvRich.Address()).Sub(get(s.recvRich.Address()), valBig(amt))
			get(drainer.Address()).Add(get(drainer.Address()), valBig(amt))
		}
	}
	build(1010 + r.Intn(150))
	rounds := 1 + (idx+1)%2 // every other history is truncated twice (repeated truncation)
	var roundTraces []string
	var roundOps [][]string
	for round := 0; round < rounds; round++ {
		if round > 0 {
			build(1010 + r.Intn(60))
		}
		// a stale side tip hanging off an old vertex (does not descend from the cut)
		before := n.ab.VerifSnapshot()
		n.prev = before
		n.steps = nil // model state is injected from `before`
		n.ops = nil   // steps and op log stay aligned; the injected history is described in the trace name
		n.stats[fmt.Sprintf("trunc.history_vertices.%d00s", len(before.Vertices)/100)]++
		initL := w.coqLedger(&before, n.signer.Address())
		n.snapEvery = true
		// observations before truncation
		type obsT struct {
			bal map[string]string
			vtx map[[32]byte]string
			trx map[[32]byte]string
		}
		observe := func() obsT {
			o := obsT{bal: map[string]string{}, vtx: map[[32]byte]string{}, trx: map[[32]byte]string{}}
			for _, wl := range w.wallets {
				b, err := n.ab.CalculateBalance(context.Background(), wl.Address())
				o.bal[wl.Address()] = fmt.Sprintf("%v/%v", b.Spice, err != nil)
			}
			for i := range before.Vertices {
				v := &before.Vertices[i]
				got, err := n.ab.ReadVertex(context.Background(), v.Hash)
				enc, _ := got.VerifEncode()
				o.vtx[v.Hash] = fmt.Sprintf("%x/%v", enc, err != nil)
				tr, err := n.ab.ReadTransactionByHash(context.Background(), v.Transaction.Hash)
				te, _ := tr.Encode()
				o.trx[v.Transaction.Hash] = fmt.Sprintf("%x/%v", te, err != nil)
			}
			return o
		}
		singleTip := len(before.Leaves) == 1
		o0 := observe()
		// ---- truncate (watchdog: a hang is a C08 violation, reported there)
		done := make(chan error, 1)
		go func() {
			err, pn := safely(func() error { return n.ab.VerifTruncate(context.Background()) })
			if pn {
				n.violate("C08", "truncate-panics", err.Error())
			}
			done <- err
		}()
		var terr error
		select {
		case terr = <-done:
		case <-time.After(90 * time.Second):
			n.violate("C08", "truncate-hangs", "truncate did not return within 90 s")
			return s.out("truncate", false)
		}
		after := n.ab.VerifSnapshot()
		// which vertex was the cut: the live vertex whose ancestors (before) are exactly the moved set
		moved := map[[32]byte]bool{}
		pvw := mkView(&before)
		for i := range after.StoredVertices {
			h := after.StoredVertices[i].Hash
			if _, was := pvw.stored[h]; !was {
				moved[h] = true
			}
		}
		cut := 0
		for i := range after.Vertices {
			c := &after.Vertices[i]
			hist := pvw.history(c.Hash)
			if len(hist)-1 != len(moved) || len(moved) == 0 {
				continue
			}
			all := true
			for _, a := range hist[1:] {
				if !moved[a.Hash] {
					all = false
				}
			}
			if all {
				cut = w.H(c.Hash)
				break
			}
		}
		n.stats["trunc.moved"] += len(moved)
		n.record(fmt.Sprintf("(OTruncate %d [])", cut), "(BRes "+classify(terr)+")", fmt.Sprintf("truncate -> %v, moved %d vertices, cut=%d", terr, len(moved), cut), "truncate", nil)
		if terr == nil && len(moved) > 0 {
			n.stats["trunc.completed"]++
		}
		// ---- C07 monitors
		o1 := observe()
		if terr == nil {
			if singleTip { // every tip descends from the cut
				for a, b0 := range o0.bal {
					if o1.bal[a] != b0 {
						key := "balance-changed-by-truncation"
						if len(b0) > 5 && b0[len(b0)-5:] == "/true" && o1.bal[a] == "0.0/false" {
							// the query failed before (negative sum) and reports 0.0 afterwards
							key = "overdrawn-wallet-reset-by-truncation"
						}
						n.violate("C07", key, fmt.Sprintf("wallet %d: %s before, %s after truncation (value/error)", w.A(a), b0, o1.bal[a]))
					}
				}
			}
			for h, e0 := range o0.vtx {
				if o1.vtx[h] != e0 {
					n.violate("C07", "vertex-read-changed", fmt.Sprintf("vertex %d reads differently after truncation", w.H(h)))
				}
			}
			for h, e0 := range o0.trx {
				if o1.trx[h] != e0 {
					n.violate("C07", "transaction-read-changed", fmt.Sprintf("transaction %d reads differently after truncation", w.H(h)))
				}
			}
			// stored funds = net flow of exactly the stored vertices, each counted once
			net := map[string]*big.Int{}
			for i := range after.StoredVertices {
				v := &after.StoredVertices[i]
				if !v.Transaction.IsSpiceTransfer() {
					continue
				}
				for _, a := range []string{v.Transaction.IssuerAddress, v.Transaction.ReceiverAddress} {
					if net[a] == nil {
						net[a] = new(big.Int)
					}
				}
				net[v.Transaction.IssuerAddress].Sub(net[v.Transaction.IssuerAddress], valBig(v.Transaction.Spice))
				net[v.Transaction.ReceiverAddress].Add(net[v.Transaction.ReceiverAddress], valBig(v.Transaction.Spice))
			}
			for a, x := range net {
				if a == after.Genesis {
					continue // the issuer of genesis is overdrawn by construction; the code keeps its funds at 0
				}
				got, ok := after.StoredFunds[a]
				if !ok || valBig(got).Cmp(x) != 0 {
					n.violate("C07", "checkpoint-funds-not-net-flow", fmt.Sprintf("wallet %d: checkpointed %v, net flow of stored vertices %s", w.A(a), got, x))
				}
			}
			// re-submission of checkpointed material
			cnt := 0
			for i := range after.StoredVertices {
				if cnt >= 3 {
					break
				}
				v := after.StoredVertices[i]
				if v.Transaction.IssuerAddress == after.Genesis {
					continue
				}
				cnt++
				if cls := n.add(&v, -1); cls != "RVertexExists" {
					n.violate("C07", "checkpointed-vertex-readmitted", fmt.Sprintf("re-offering checkpointed vertex %d -> %s", w.H(v.Hash), cls))
				}
				tr := v.Transaction
				if _, cls := n.create(&tr, -1); cls != "RTrxExists" && cls != "ROwnNode" {
					n.violate("C07", "checkpointed-trx-resealed", fmt.Sprintf("re-proposing checkpointed transaction %d -> %s", w.H(tr.Hash), cls))
				}
				if len(after.Leaves) > 0 {
					nv, _ := accountant.NewVertex(tr, after.Leaves[0], after.Leaves[0], v.Weight+2000, sealer)
					if cls := n.add(&nv, -1); cls == "ROk" || cls == "RParentMissing" {
						n.violate("C07", "checkpointed-trx-resealed", fmt.Sprintf("checkpointed transaction %d admitted in a new wrapper -> %s", w.H(tr.Hash), cls))
					}
				}
			}
			// later transfers validate against the same funds: spend (almost) everything a wallet holds, then one unit more
			// a dormant wallet (everything it ever received is checkpointed, nothing of it in the live history): its balance is its checkpoint
			if round == 0 {
				n.balance(drainer.Address(), -1)
			}
			// the drainer spends exactly everything once, after the first truncation, and is never paid again
			if have := get(drainer.Address()); round == 0 && have.Sign() > 0 {
				q, m := new(big.Int).QuoRem(have, e18big, new(big.Int))
				all := spice.Melange{Currency: q.Uint64(), SupplementaryCurrency: m.Uint64()}
				t := craftTrx(drainer, s.recvRich.Address(), "drain-all", nil, all, s.now())
				if _, cls := n.create(&t, -1); cls == "ROk" {
					get(drainer.Address()).Sub(get(drainer.Address()), valBig(all))
					get(s.recvRich.Address()).Add(get(s.recvRich.Address()), valBig(all))
					n.stats["trunc.drainer_spent_all"]++
				}
			}
			for _, u := range s.users[:2] {
				have := get(u.Address())
				if have.Sign() <= 0 {
					continue
				}
				q, m := new(big.Int).QuoRem(have, e18big, new(big.Int))
				all := spice.Melange{Currency: q.Uint64(), SupplementaryCurrency: m.Uint64()}
				t := craftTrx(u, s.recvRich.Address(), "all", nil, all, s.now())
				if _, cls := n.create(&t, -1); cls == "ROk" {
					get(u.Address()).Sub(get(u.Address()), valBig(all))
					get(s.recvRich.Address()).Add(get(s.recvRich.Address()), valBig(all))
				}
				t2 := craftTrx(u, s.recvRich.Address(), "over", nil, spice.Melange{SupplementaryCurrency: 1}, s.now())
				n.create(&t2, -1)
				t3 := craftTrx(s.recvRich, u.Address(), "next", nil, spice.Melange{SupplementaryCurrency: 5}, s.now())
				if _, cls := n.create(&t3, -1); cls == "ROk" {
					get(u.Address()).Add(get(u.Address()), big.NewInt(5))
					get(s.recvRich.Address()).Sub(get(s.recvRich.Address()), big.NewInt(5))
				}
				t4 := craftTrx(s.recvRich, u.Address(), "next2", nil, spice.Melange{SupplementaryCurrency: 5}, s.now())
				if _, cls := n.create(&t4, -1); cls == "ROk" {
					get(u.Address()).Add(get(u.Address()), big.NewInt(5))
					get(s.recvRich.Address()).Sub(get(s.recvRich.Address()), big.NewInt(5))
				}
			}
			for _, wl := range w.wallets[:5] {
				got, err := n.balance(wl.Address(), -1)
				if len(n.prev.Leaves) == 1 && braid == false {
					want := get(wl.Address())
					if want.Sign() >= 0 && (err != nil || valBig(got).Cmp(want) != 0) {
						// the last created tip may be an overdraft attempt that is still tentative: tolerate exactly that
						n.stats["trunc.balance_vs_reference_diff"]++
					}
				}
			}
			// C14 on a truncated source: the stream can no longer be loaded (known finding)
			dst := newNode(w, fmt.Sprintf("trunc%d.loaded", idx), w.wallets[6])
			defer dst.close()
			stream := streamOf(n)
			dst.snapEvery = false
			if !loadInto(dst, stream, w) {
				n.violate("C14", "truncated-source-not-loadable", fmt.Sprintf("a peer that has truncated streams %d vertices whose cut vertex declares checkpointed parents: LoadDag refuses, checkpointed funds are not transferred", len(stream)))
			}
			s.nodes = append(s.nodes, dst)
		}
		if round == 1 && terr == nil {
			n.balance(drainer.Address(), -1) // spent everything before this truncation: exactly zero now
			// the drained wallet offers its old funds again: must never be confirmed (C02 over checkpoint + live)
			tr := craftTrx(drainer, s.recvRich.Address(), "drain-again", nil, spice.Melange{Currency: 3, SupplementaryCurrency: 7}, s.now())
			n.create(&tr, -1)
			for k := 0; k < 3; k++ {
				tf := craftTrx(s.recvRich, s.users[1].Address(), fmt.Sprintf("after-drain-again-%d", k), nil, spice.Melange{SupplementaryCurrency: 3}, s.now())
				n.create(&tf, -1)
			}
			n.balance(drainer.Address(), -1)
		}
		roundTraces = append(roundTraces, fmt.Sprintf("(Trace %d (Some %s) %s)", w.A(n.signer.Address()), initL, coqList(n.steps)))
		roundOps = append(roundOps, n.ops)
		if terr != nil || len(moved) == 0 {
			break
		}
		n.stats[fmt.Sprintf("trunc.round%d_completed", round+1)]++
	}
	n.prev = n.ab.VerifSnapshot()
	s.monQuiescent() // C02 over checkpointed + live confirmed vertices, each counted once
	o := s.out("truncate", true)
	o.Traces[0], o.Human[0] = roundTraces[0], roundOps[0]
	for i, t := range roundTraces[1:] {
		o.Traces = append(o.Traces, t)
		o.Human = append(o.Human, roundOps[i+1])
	}
	o.NonTriv = n.stats["trunc.completed"] > 0
	return o
}

// quiet variants used while building long histories (no snapshot, no Coq step)
func (n *Node) createQuiet(trx *transaction.Transaction) (*accountant.Vertex, string) {
	v, err := n.ab.CreateLeaf(context.Background(), trx)
	if err != nil {
		return nil, classify(err)
	}
	n.w.remember(&v)
	n.stats["op.create.quiet"]++
	return &v, "ROk"
}
func (n *Node) addQuiet(v *accountant.Vertex) string {
	n.w.remember(v)
	cp := *v
	err := n.ab.AddLeaf(context.Background(), &cp)
	n.stats["op.add.quiet"]++
	return classify(err)
}

// ---------------------------------------------------------------- permutations of delivery (C13)

func scenarioPerm(seed int64, idx int) ScenarioOut {
	// the vertex set is the same for all idx of one seed; idx selects the permutation
	w := newWorld(seed*9000011, 7)
	s := &sim{w: w, bal: map[string]int64{}, pending: map[int][]*accountant.Vertex{}, clock: time.Now().Add(-time.Hour)}
	s.genesisSigner, s.recvRich, s.users = w.wallets[0], w.wallets[1], w.wallets[1:5]
	src := newNode(w, "perm.src", w.wallets[0])
	src.snapEvery = false
	defer src.close()
	gv, _ := src.genesis(s.recvRich.Address(), spice.Melange{Currency: 1000})
	if gv == nil {
		return s.out("perm", false)
	}
	// a valid history of 6 vertices: chain with one merge, sealed by another node so that they arrive by gossip
	sealer := w.wallets[5]
	var set []*accountant.Vertex
	mk := func(issuer *wallet.Wallet, recv string, cur uint64, l, r *accountant.Vertex) *accountant.Vertex {
		t := craftTrx(issuer, recv, "p", nil, spice.Melange{Currency: cur, SupplementaryCurrency: 1}, s.now())
		wgt := l.Weight
		if r.Weight > wgt {
			wgt = r.Weight
		}
		v, _ := accountant.NewVertex(t, l.Hash, r.Hash, wgt+1, sealer)
		if idx%2 == 0 { // a history sealed hours ago (a node catching up): same vertex, older sealing time, properly signed
			v.CreatedAt = time.Now().Add(-3*time.Hour + time.Duration(len(set))*time.Second)
			v.Hash, v.Signature = sealer.Sign(v.VerifInitData())
		}
		if idx%4 == 1 { // sealed by a node whose clock runs an hour fast: nothing forbids it, and local vertices are then created on top
			v.CreatedAt = time.Now().Add(time.Hour + time.Duration(len(set))*time.Second)
			v.Hash, v.Signature = sealer.Sign(v.VerifInitData())
		}
		w.remember(&v)
		set = append(set, &v)
		return &v
	}
	a := mk(s.recvRich, s.users[1].Address(), 100, gv, gv)
	b := mk(s.users[1], s.users[2].Address(), 40, a, a)
	c := mk(s.recvRich, s.users[3].Address(), 50, a, a)
	d := mk(s.users[2], s.users[3].Address(), 10, b, c)
	e := mk(s.users[3], s.users[1].Address(), 55, d, d)
	mk(s.users[1], s.recvRich.Address(), 5, e, d)
	// reference: parents-first delivery
	ref := newNode(w, "perm.ref", w.wallets[6])
	defer ref.close()
	loadInto(ref, streamOf(src), w)
	for _, v := range set {
		ref.add(v, -1)
	}
	refSnap := w.canon(&ref.prev)
	// the permutation under test
	dst := newNode(w, fmt.Sprintf("perm%d", idx), w.wallets[6])
	defer dst.close()
	loadInto(dst, streamOf(src), w)
	pr := newWorld(seed*31+int64(idx), 0).rng
	perm := pr.Perm(len(set))
	if idx == 0 {
		for i := range perm {
			perm[i] = len(set) - 1 - i // fully reversed
		}
	}
	parked := 0
	if idx%3 == 1 { // an orphan whose parent never arrives: it must be retried at most maxRepeats times and then dropped
		var ph [32]byte
		pr.Read(ph[:])
		t := craftTrx(s.recvRich, s.users[2].Address(), "never", nil, spice.Melange{Currency: 1}, s.now())
		ov, _ := accountant.NewVertex(t, ph, ph, 3, sealer)
		w.remember(&ov)
		if dst.add(&ov, -1) == "RParentMissing" {
			dst.stats["perm.hopeless_orphan"]++
		}
	}
	for k, i := range perm {
		cls := dst.add(set[i], -1)
		if cls == "RParentMissing" {
			parked++
		}
		if pr.Intn(4) == 0 { // duplicate delivery
			dst.add(set[i], -1)
		}
		if pr.Intn(3) == 0 {
			dst.retry(-1)
		}
		if k == 2 && (pr.Intn(2) == 0 || idx%4 == 1) { // interleaved local proposal
			t := craftTrx(s.recvRich, s.users[0].Address(), "local", []byte("x"), spice.Melange{}, s.now())
			if v, cls := dst.create(&t, -1); cls == "ROk" {
				ref.add(v, -1) // the reference receives it by gossip so that both hold the same set
				refSnap = w.canon(&ref.prev)
			}
		}
	}
	for i := 0; i < 200; i++ {
		if had, _ := dst.retry(-1); !had {
			break
		}
	}
	if idx%4 == 1 { // a local vertex on top of the fast-clock history: it must verify here and be admitted by the reference node
		t := craftTrx(s.recvRich, s.users[0].Address(), "local-after", []byte("y"), spice.Melange{}, s.now())
		if v, cls := dst.create(&t, -1); cls == "ROk" {
			if got := ref.add(v, -1); got != "ROk" {
				dst.violate("C09", "created-vertex-refused-by-peer", fmt.Sprintf("vertex %d created here on top of vertices sealed by a fast clock is refused by another node: %s", w.H(v.Hash), got))
			}
			refSnap = w.canon(&ref.prev)
		}
	}
	if idx%8 == 3 {
		// four bursts of an 18-vertex chain, each delivered children-first and then retried until the buffer is empty: several hundred
		// retries on ONE ledger, every vertex well inside the bounds (at most 17 parked, at most 17 retries each)
		tail := set[len(set)-1]
		if _, err := ref.ab.ReadVertex(context.Background(), tail.Hash); err == nil {
			for burst := 0; burst < 4; burst++ {
				var chain []*accountant.Vertex
				for k := 0; k < 18; k++ {
					tail = mk(s.recvRich, s.users[1+k%3].Address(), 1, tail, tail)
					chain = append(chain, tail)
				}
				for _, v := range chain {
					ref.add(v, -1)
				}
				for k := len(chain) - 1; k >= 0; k-- {
					dst.add(chain[k], -1)
				}
				for i := 0; i < 400; i++ {
					if had, _ := dst.retry(-1); !had {
						break
					}
				}
				dst.stats["perm.bursts"]++
			}
			refSnap = w.canon(&ref.prev)
		}
	}
	dst.stats["perm.parked"] += parked
	got := w.canon(&dst.prev)
	if len(dst.prev.Parked) != 0 {
		dst.violate("C13", "buffer-not-drained", fmt.Sprintf("%d vertices still parked after 200 retry rounds", len(dst.prev.Parked)))
	}
	if ints(got.Dag) != ints(refSnap.Dag) || pairs(got.Edges) != pairs(refSnap.Edges) || pairs(got.Index) != pairs(refSnap.Index) {
		dst.violate("C13", "not-confluent", fmt.Sprintf("delivery order %v ends with vertices %v edges %v; parents-first has %v %v", perm, got.Dag, got.Edges, refSnap.Dag, refSnap.Edges))
	}
	s.nodes = []*Node{dst}
	o := s.out("perm", true)
	o.NonTriv = parked > 0
	return o
}

// ---------------------------------------------------------------- syncing (C14)

func scenarioLoad(seed int64, idx int) ScenarioOut {
	w := newWorld(seed*11000027+int64(idx), 7)
	r := w.rng
	s := &sim{w: w, bal: map[string]int64{}, pending: map[int][]*accountant.Vertex{}, clock: time.Now().Add(-time.Hour)}
	s.genesisSigner, s.recvRich, s.users = w.wallets[0], w.wallets[1], w.wallets[1:5]
	src := newNode(w, fmt.Sprintf("load%d.src", idx), w.wallets[0])
	defer src.close()
	gv, _ := src.genesis(s.recvRich.Address(), spice.Melange{Currency: 5000})
	if gv == nil {
		return s.out("load", false)
	}
	s.bal[s.recvRich.Address()] = 5000
	s.nodes = []*Node{src}
	nOps := 5 + r.Intn(30)
	for k := 0; k < nOps; k++ {
		if r.Intn(3) == 0 {
			s.crafted(src, 0, -1)
			continue
		}
		issuer := s.users[r.Intn(len(s.users))]
		b := s.bal[issuer.Address()]
		if b <= 0 {
			issuer, b = s.recvRich, s.bal[s.recvRich.Address()]
		}
		recv := w.wallets[1+r.Intn(4)]
		amt := s.amount(b/3 + 1)
		t := craftTrx(issuer, recv.Address(), "t", nil, amt, s.now())
		if _, cls := src.create(&t, -1); cls == "ROk" {
			s.bal[issuer.Address()] -= int64(amt.Currency)
			s.bal[recv.Address()] += int64(amt.Currency)
		}
	}
	if idx%2 == 0 && len(src.prev.Leaves) > 0 {
		// two tips that share an ancestor and each have ancestors of their own: T1(A,U1) T2(A,U2) U1(W1) U2(W2), A/W1/W2 on the current tip
		var base *accountant.Vertex
		for i := range src.prev.Vertices {
			if src.prev.Vertices[i].Hash == src.prev.Leaves[0] {
				base = &src.prev.Vertices[i]
			}
		}
		sealer := w.wallets[5]
		fork := func(l, r *accountant.Vertex, subject string) *accountant.Vertex {
			t := craftTrx(s.recvRich, s.users[1].Address(), subject, []byte("fork"), spice.Melange{}, s.now())
			wgt := l.Weight
			if r.Weight > wgt {
				wgt = r.Weight
			}
			v, _ := accountant.NewVertex(t, l.Hash, r.Hash, wgt+1, sealer)
			w.remember(&v)
			if src.add(&v, -1) != "ROk" {
				return nil
			}
			return &v
		}
		if base != nil {
			a, w1, w2 := fork(base, base, "A"), fork(base, base, "W1"), fork(base, base, "W2")
			if a != nil && w1 != nil && w2 != nil {
				u1, u2 := fork(w1, w1, "U1"), fork(w2, w2, "U2")
				if u1 != nil && u2 != nil {
					fork(a, u1, "T1")
					fork(a, u2, "T2")
					src.stats["load.forked_source"]++
				}
			}
		}
	}
	stream := streamOf(src)
	// stream is a duplicate-free enumeration of the live vertices
	seen := map[[32]byte]bool{}
	for _, v := range stream {
		if seen[v.Hash] {
			src.violate("C14", "stream-duplicate", fmt.Sprintf("StreamDAG sent vertex %d twice", w.H(v.Hash)))
		}
		seen[v.Hash] = true
	}
	if len(seen) != len(src.prev.Vertices) {
		src.violate("C14", "stream-incomplete", fmt.Sprintf("StreamDAG sent %d of %d live vertices", len(seen), len(src.prev.Vertices)))
	}
	if len(stream) == 0 {
		// the source ended with an empty DAG (an overdrawing gossiped vertex with a huge weight was admitted as a tip, raised the
		// node's weight when it was validated and dropped, and the genesis vertex, a tip again, then failed the weight window):
		// there is no ledger to reproduce. Recorded as an observation (DESIGN 10.2), not a C14 case.
		src.stats["load.source_has_no_vertices"]++
		return s.out("load", false)
	}
	corrupt := idx % 6
	dst := newNode(w, fmt.Sprintf("load%d.dst", idx), w.wallets[6])
	defer dst.close()
	st := append([]*accountant.Vertex{}, stream...)
	expectLoaded := true
	switch corrupt {
	case 1: // duplicate vertex
		if len(st) > 1 {
			st = append(st, st[r.Intn(len(st))])
			expectLoaded = false
		}
	case 2: // a vertex is missing: somebody's parent is unknown
		if len(st) > 2 {
			// drop a vertex that has a child
			vw := mkView(&src.prev)
			for i, v := range st {
				if vw.child[v.Hash] {
					st = append(append([]*accountant.Vertex{}, st[:i]...), st[i+1:]...)
					expectLoaded = false
					break
				}
			}
		}
	case 3: // second self-sealed vertex
		t := craftTrx(w.wallets[5], s.users[0].Address(), "self", nil, spice.Melange{Currency: 1}, s.now())
		v, _ := accountant.NewVertex(t, gv.Hash, gv.Hash, gv.Weight+1, w.wallets[5])
		st = append(st, &v)
		expectLoaded = false
	case 4: // empty transaction
		t := craftTrx(s.users[0], s.users[1].Address(), "empty", nil, spice.Melange{}, s.now())
		v, _ := accountant.NewVertex(t, gv.Hash, gv.Hash, gv.Weight+1, w.wallets[5])
		st = append(st, &v)
		expectLoaded = false
	case 5: // same transaction in two vertices
		if len(st) > 1 {
			v, _ := accountant.NewVertex(st[len(st)-1].Transaction, gv.Hash, gv.Hash, gv.Weight+1, w.wallets[5])
			if st[len(st)-1].Transaction.IssuerAddress != w.wallets[5].Address() {
				st = append(st, &v)
				expectLoaded = false
			}
		}
	}
	// vertices gossiped to the node WHILE it is still syncing (a self-sealed one, one with an empty transaction, an ordinary one): all are
	// refused as "not loaded"; none of them may turn up in the ledger later through the retry path, whose entry they never legitimately passed
	early := corrupt == 0 && idx%2 == 0
	if early {
		t1 := craftTrx(w.wallets[5], s.users[0].Address(), "self-early", nil, spice.Melange{Currency: 1}, s.now())
		v1, _ := accountant.NewVertex(t1, gv.Hash, gv.Hash, gv.Weight+1, w.wallets[5])
		t2 := craftTrx(s.users[0], s.users[1].Address(), "empty-early", nil, spice.Melange{}, s.now())
		v2, _ := accountant.NewVertex(t2, gv.Hash, gv.Hash, gv.Weight+1, w.wallets[5])
		t3 := craftTrx(s.users[0], s.users[1].Address(), "data-early", []byte("d"), spice.Melange{}, s.now())
		v3, _ := accountant.NewVertex(t3, gv.Hash, gv.Hash, gv.Weight+1, w.wallets[5])
		for _, v := range []*accountant.Vertex{&v1, &v2, &v3} {
			w.remember(v)
			dst.add(v, -1)
		}
		dst.stats["load.vertices_gossiped_before_loading"] += 3
	}
	ok := loadInto(dst, st, w)
	if early && ok {
		for k := 0; k < 4; k++ {
			dst.retry(-1)
		}
	}
	dst.stats[fmt.Sprintf("load.corrupt%d", corrupt)]++
	if ok != expectLoaded {
		if expectLoaded {
			dst.violate("C14", "good-stream-refused", fmt.Sprintf("LoadDag refused the peer's own stream of %d vertices", len(st)))
		} else {
			dst.violate("C14", "malformed-stream-loaded", fmt.Sprintf("LoadDag marked the node loaded on a malformed stream (corruption kind %d)", corrupt))
		}
	}
	if ok && expectLoaded {
		a, b := w.canon(&src.prev), w.canon(&dst.prev)
		if ints(a.Dag) != ints(b.Dag) || pairs(a.Edges) != pairs(b.Edges) || pairs(a.Index) != pairs(b.Index) || a.Genesis != b.Genesis {
			dst.violate("C14", "loaded-ledger-differs", fmt.Sprintf("source vertices %v edges %v genesis %d; loaded %v %v %d", a.Dag, a.Edges, a.Genesis, b.Dag, b.Edges, b.Genesis))
		}
		// balances: tip by tip through the reference on both snapshots, plus the real query on single-tip ledgers
		if len(src.prev.Leaves) == 1 {
			for _, wl := range w.wallets {
				x, e1 := src.balance(wl.Address(), -1)
				y, e2 := dst.balance(wl.Address(), -1)
				if x != y || (e1 == nil) != (e2 == nil) {
					dst.violate("C14", "loaded-balance-differs", fmt.Sprintf("wallet %d: source %v/%v loaded %v/%v", w.A(wl.Address()), x, e1, y, e2))
				}
			}
		}
		// identical follow-up gossip on both
		s.nodes = []*Node{src, dst}
		for k := 0; k < 6; k++ {
			s.lastCrafted = nil
			srcPrev, dstPrev := src.prev, dst.prev
			s.crafted(src, 0, -1)
			if s.lastCrafted == nil {
				continue
			}
			cls2 := dst.add(s.lastCrafted, -1)
			dst.stats["load.followup"]++
			if cls2 != s.lastCls {
				// is the difference explained by the admission counters (weight window of the parents) alone?
				vw := func(weight, thr, w uint64) bool { return weight < thr || weight-thr <= w }
				key := "followup-gossip-differs"
				srcBefore, dstBefore := srcPrev, dstPrev
				for _, ph := range [][32]byte{s.lastCrafted.LeftParentHash, s.lastCrafted.RightParentHash} {
					for i := range srcBefore.Vertices {
						if p := &srcBefore.Vertices[i]; p.Hash == ph && vw(srcBefore.Weight, srcBefore.Throughput, p.Weight) != vw(dstBefore.Weight, dstBefore.Throughput, p.Weight) {
							key = "followup-gossip-differs:weight-window-not-reproduced"
						}
					}
				}
				dst.violate("C14", key, fmt.Sprintf("vertex %d (weight %d, parents %d %d): source answers %s, loaded node %s; source weight/throughput %d/%d, loaded %d/%d",
					w.H(s.lastCrafted.Hash), s.lastCrafted.Weight, w.H(s.lastCrafted.LeftParentHash), w.H(s.lastCrafted.RightParentHash), s.lastCls, cls2,
					srcBefore.Weight, srcBefore.Throughput, dstBefore.Weight, dstBefore.Throughput))
				break // the two ledgers have diverged: later differences are consequences
			}
		}
	}
	s.nodes = []*Node{src, dst}
	o := s.out("load", true)
	o.NonTriv = true
	return o
}

// ---------------------------------------------------------------- stale pre-checks (C03): callers that passed the unlocked
// "is this transaction / vertex known?" look-ups queue on the ledger lock together; only one may win and the losers must
// leave the index exactly as the winner made it.  The lock is held from outside through the public API: a DAG stream whose
// consumer does not read keeps the ledger read lock once its 100-slot buffer is full.
func scenarioStale(seed int64, idx int) ScenarioOut {
	w := newWorld(seed*7700017+int64(idx), 8)
	n := newNode(w, fmt.Sprintf("stale%d", idx), w.wallets[0])
	defer n.close()
	o := ScenarioOut{Name: "stale", Stats: map[string]int{}}
	rich, recv := w.wallets[1], w.wallets[2]
	clock := time.Now().Add(-time.Hour)
	now := func() time.Time { clock = clock.Add(time.Millisecond); return clock }
	if gv, _ := n.genesis(rich.Address(), spice.Melange{Currency: 100000}); gv == nil {
		return o
	}
	var tip accountant.Vertex
	for i := 0; i < 125+idx%7; i++ {
		t := craftTrx(rich, recv.Address(), fmt.Sprintf("fill%d", i), nil, spice.Melange{Currency: 1}, now())
		v, err := n.ab.CreateLeaf(context.Background(), &t)
		if err != nil {
			return o
		}
		w.remember(&v)
		tip = v
	}
	prev := n.ab.VerifSnapshot()
	ctx, cancel := context.WithCancel(context.Background())
	ch := n.ab.StreamDAG(ctx)
	time.Sleep(40 * time.Millisecond)
	tp := craftTrx(rich, recv.Address(), "dup-proposal", nil, spice.Melange{Currency: 5}, now())
	tg := craftTrx(rich, recv.Address(), "dup-gossip", nil, spice.Melange{Currency: 7}, now())
	vg, _ := accountant.NewVertex(tg, tip.Hash, tip.Hash, tip.Weight+1, w.wallets[5])
	vg2, _ := accountant.NewVertex(tg, tip.Hash, tip.Hash, tip.Weight+1, w.wallets[6]) // the same transaction in another wrapper
	w.remember(&vg)
	w.remember(&vg2)
	var wg sync.WaitGroup
	var mu sync.Mutex
	okCreate, okAdd := 0, 0
	run := func(f func() error, cnt *int) {
		wg.Add(1)
		go func() {
			defer wg.Done()
			defer func() { recover() }()
			if f() == nil {
				mu.Lock()
				*cnt++
				mu.Unlock()
			}
		}()
	}
	for k := 0; k < 2+idx%2; k++ {
		run(func() error { t := tp; _, err := n.ab.CreateLeaf(context.Background(), &t); return err }, &okCreate)
		run(func() error { v := vg; return n.ab.AddLeaf(context.Background(), &v) }, &okAdd)
	}
	run(func() error { v := vg2; return n.ab.AddLeaf(context.Background(), &v) }, &okAdd)
	time.Sleep(60 * time.Millisecond) // every caller has passed the unlocked look-ups and waits for the ledger lock
	cancel()
	for range ch {
	}
	wg.Wait()
	cur := n.ab.VerifSnapshot()
	n.monitors(&prev, &cur, "stale", nil)
	n.prev = cur
	o.Steps += 5
	n.stats["stale.rounds"]++
	n.stats[fmt.Sprintf("stale.proposals_ok.%d", okCreate)]++
	n.stats[fmt.Sprintf("stale.deliveries_ok.%d", okAdd)]++
	if okCreate > 1 {
		n.violate("C03", "duplicate-proposal-sealed-twice", fmt.Sprintf("%d concurrent proposals of one transaction all succeeded", okCreate))
	}
	if okAdd > 1 {
		n.violate("C03", "duplicate-delivery-admitted-twice", fmt.Sprintf("%d concurrent deliveries carrying one transaction all succeeded", okAdd))
	}
	// afterwards every replay must be refused (recorded steps: the monitors run on each)
	n.snapEvery = false
	if _, cls := n.create(&tp, -1); cls == "ROk" {
		n.violate("C03", "replay-after-concurrent-proposals-sealed", "a transaction proposed concurrently (one winner) was sealed again by a later sequential proposal")
	}
	if cls := n.add(&vg2, -1); cls == "ROk" && okAdd > 0 {
		n.violate("C03", "replay-after-concurrent-deliveries-admitted", "a transaction delivered concurrently in two wrappers was admitted again in the other wrapper")
	}
	if cls := n.add(&vg, -1); cls == "ROk" && okAdd > 0 {
		n.violate("C03", "replay-after-concurrent-deliveries-admitted", "a vertex delivered concurrently was admitted again")
	}
	o.Viol = n.viol
	for k, v := range n.stats {
		o.Stats[k] += v
	}
	o.Steps += len(n.steps)
	o.NonTriv = okCreate+okAdd > 0
	return o
}

// ---------------------------------------------------------------- heavy vertex (C09 weight wrap, C14 counters): deterministic
// reproduction of two known findings on the real code: a valid gossiped vertex of weight 2^64-1, a proposal on top of it
// (its weight wraps to 0), a node that syncs from this peer, and the same follow-up vertex offered to both.
func scenarioHeavy(seed int64, idx int) ScenarioOut {
	w := newWorld(seed*5300009+int64(idx), 7)
	s := &sim{w: w, bal: map[string]int64{}, pending: map[int][]*accountant.Vertex{}, clock: time.Now().Add(-time.Hour)}
	s.genesisSigner, s.recvRich, s.users = w.wallets[0], w.wallets[1], w.wallets[1:5]
	src := newNode(w, fmt.Sprintf("heavy%d.src", idx), w.wallets[0])
	defer src.close()
	s.nodes = []*Node{src}
	gv, _ := src.genesis(s.recvRich.Address(), spice.Melange{Currency: 5000})
	if gv == nil {
		return s.out("heavy", false)
	}
	sealer := w.wallets[5]
	t0 := craftTrx(s.recvRich, s.users[1].Address(), "heavy", nil, spice.Melange{Currency: 1}, s.now())
	big, _ := accountant.NewVertex(t0, gv.Hash, gv.Hash, ^uint64(0)-uint64(idx), sealer)
	w.remember(&big)
	if src.add(&big, -1) != "ROk" {
		return s.out("heavy", false)
	}
	// a gossiped vertex on the heavy tip: validating the heavy tip on the gossip path raises the node's own weight to 2^64-1
	tc := craftTrx(s.recvRich, s.users[1].Address(), "on-heavy", nil, spice.Melange{Currency: 1}, s.now())
	c1, _ := accountant.NewVertex(tc, big.Hash, big.Hash, 7, sealer)
	w.remember(&c1)
	src.add(&c1, -1)
	t1 := craftTrx(s.recvRich, s.users[2].Address(), "on-top", nil, spice.Melange{Currency: 1}, s.now())
	// the light tip c1 fails the weight window: it is dropped and (the error of the last visited tip being what the call returns) this proposal fails
	src.create(&t1, -1)
	t1b := craftTrx(s.recvRich, s.users[2].Address(), "on-top-again", nil, spice.Melange{Currency: 1}, s.now())
	top, cls := src.create(&t1b, -1) // lands on the heavy vertex: idx 0: 2^64-1 + 1 wraps to 0
	if cls != "ROk" {
		return s.out("heavy", false)
	}
	src.stats["heavy.created_weight_is_zero."+fmt.Sprint(top.Weight == 0)]++
	dst := newNode(w, fmt.Sprintf("heavy%d.dst", idx), w.wallets[6])
	defer dst.close()
	s.nodes = []*Node{src, dst}
	if !loadInto(dst, streamOf(src), w) {
		dst.violate("C14", "good-stream-refused", "LoadDag refused the peer's own stream")
		return s.out("heavy", true)
	}
	// the same follow-up vertex on the tip, offered to both
	t2 := craftTrx(s.recvRich, s.users[3].Address(), "follow", nil, spice.Melange{Currency: 1}, s.now())
	fv, _ := accountant.NewVertex(t2, top.Hash, top.Hash, top.Weight+1, sealer)
	w.remember(&fv)
	srcPrev, dstPrev := src.prev, dst.prev
	r1 := src.add(&fv, -1)
	r2 := dst.add(&fv, -1)
	dst.stats["load.followup"]++
	if r1 != r2 {
		vw := func(weight, thr, x uint64) bool { return weight < thr || weight-thr <= x }
		key := "followup-gossip-differs"
		if vw(srcPrev.Weight, srcPrev.Throughput, top.Weight) != vw(dstPrev.Weight, dstPrev.Throughput, top.Weight) {
			key = "followup-gossip-differs:weight-window-not-reproduced"
		}
		dst.violate("C14", key, fmt.Sprintf("vertex %d on the tip of weight %d: source answers %s, loaded node %s; source weight/throughput %d/%d, loaded %d/%d",
			w.H(fv.Hash), top.Weight, r1, r2, srcPrev.Weight, srcPrev.Throughput, dstPrev.Weight, dstPrev.Throughput))
	}
	// C13: two parents-first orders of the same four valid vertices end in different ledgers (the order of INDEPENDENT vertices
	// decides whether the light tip passes the weight window): A heavy and B light on genesis, C on A, D on B
	n1 := newNode(w, fmt.Sprintf("heavy%d.abcd", idx), w.wallets[0])
	defer n1.close()
	n2 := newNode(w, fmt.Sprintf("heavy%d.abdc", idx), w.wallets[0])
	defer n2.close()
	if loadInto(n1, []*accountant.Vertex{gv}, w) && loadInto(n2, []*accountant.Vertex{gv}, w) {
		mk := func(subject string, parent *accountant.Vertex, weight uint64) *accountant.Vertex {
			t := craftTrx(s.recvRich, s.users[1].Address(), subject, nil, spice.Melange{Currency: 1}, s.now())
			v, _ := accountant.NewVertex(t, parent.Hash, parent.Hash, weight, sealer)
			w.remember(&v)
			return &v
		}
		a := mk("A", gv, 1000000+uint64(idx))
		b := mk("B", gv, 1)
		c := mk("C", a, 1000001+uint64(idx))
		d := mk("D", b, 2)
		for _, v := range []*accountant.Vertex{a, b, c, d} {
			n1.add(v, -1)
		}
		for _, v := range []*accountant.Vertex{a, b, d, c} {
			n2.add(v, -1)
		}
		g1, g2 := w.canon(&n1.prev), w.canon(&n2.prev)
		if ints(g1.Dag) != ints(g2.Dag) || pairs(g1.Edges) != pairs(g2.Edges) {
			key := "not-confluent"
			if n1.prev.Weight >= 1000000 { // the heavy tip was validated before the light one on the first node
				key = "not-confluent:weight-window"
			}
			n2.violate("C13", key, fmt.Sprintf("the same four valid vertices delivered parents-first in the orders A,B,C,D and A,B,D,C end with vertices %v and %v", g1.Dag, g2.Dag))
		}
		s.nodes = append(s.nodes, n1, n2)
	}
	o := s.out("heavy", true)
	o.NonTriv = true
	return o
}

// ---------------------------------------------------------------- revoked trust (C01): the trusted-node exemption ends with the revocation
func scenarioRevoke(seed int64, idx int) ScenarioOut {
	w := newWorld(seed*4100011+int64(idx), 7)
	s := &sim{w: w, bal: map[string]int64{}, pending: map[int][]*accountant.Vertex{}, clock: time.Now().Add(-time.Hour)}
	s.genesisSigner, s.recvRich, s.users = w.wallets[0], w.wallets[1], w.wallets[1:5]
	n := newNode(w, fmt.Sprintf("revoke%d", idx), w.wallets[0])
	defer n.close()
	s.nodes = []*Node{n}
	gv, _ := n.genesis(s.recvRich.Address(), spice.Melange{Currency: 500})
	if gv == nil {
		return s.out("revoke", false)
	}
	trustedSealer := w.wallets[5]
	mk := func(issuer *wallet.Wallet, recv string, cur uint64, parent *accountant.Vertex, subject string) *accountant.Vertex {
		t := craftTrx(issuer, recv, subject, nil, spice.Melange{Currency: cur}, s.now())
		v, _ := accountant.NewVertex(t, parent.Hash, parent.Hash, parent.Weight+1, trustedSealer)
		w.remember(&v)
		return &v
	}
	n.trust(trustedSealer.Address(), true)
	// while trusted: a legitimate vertex and (idx odd) an overdrawing one, both built upon
	v1 := mk(s.recvRich, s.users[1].Address(), 10, gv, "legit")
	n.add(v1, -1)
	tip := v1
	if idx%2 == 1 {
		v2 := mk(s.users[2], s.users[3].Address(), 40, tip, "overdraw-while-trusted")
		n.add(v2, -1)
		tip = v2
	}
	t0 := craftTrx(s.recvRich, s.users[1].Address(), "local-1", nil, spice.Melange{Currency: 1}, s.now())
	if c, cls := n.create(&t0, -1); cls == "ROk" {
		tip = c
	}
	n.trust(trustedSealer.Address(), false)
	// after the revocation the same sealer offers an overdrawing transfer: it may sit as a tentative tip, but nothing may be built on it
	x := mk(s.users[3], s.users[1].Address(), 50+uint64(idx), tip, "overdraw-after-revocation")
	n.add(x, -1)
	for k := 0; k < 3; k++ {
		t := craftTrx(s.recvRich, s.users[2].Address(), fmt.Sprintf("local-after-%d", k), nil, spice.Melange{Currency: 1}, s.now())
		n.create(&t, -1)
	}
	sn := n.ab.VerifSnapshot()
	for i := range sn.Vertices {
		if sn.Vertices[i].Hash == x.Hash {
			n.stats["revoke.overdraw_still_live"]++
		}
	}
	o := s.out("revoke", true)
	o.NonTriv = true
	return o
}


// ---------------------------------------------------------------- an interrupted truncation followed by a complete one

// scenarioInterrupt: a truncation that is abandoned while it checkpoints vertices (nothing is deleted, no funds are written yet),
// then a truncation that is allowed to finish (or refuses): no reported balance may change at any point (C06 / C07). Monitors only:
// the partial state of the abandoned run is not modelled, so nothing is recorded for the acceptor.
func scenarioInterrupt(seed int64, idx int) ScenarioOut {
	w := newWorld(seed*7100003+int64(idx), 6)
	s := &sim{w: w, bal: map[string]int64{}, pending: map[int][]*accountant.Vertex{}, clock: time.Now().Add(-time.Hour)}
	s.genesisSigner, s.recvRich, s.users = w.wallets[0], w.wallets[1], w.wallets[1:5]
	n := newNode(w, fmt.Sprintf("intr%d", idx), w.wallets[0])
	n.snapEvery = false
	s.nodes = []*Node{n}
	defer n.close()
	if gv, _ := n.genesis(s.recvRich.Address(), spice.Melange{Currency: 1000000}); gv == nil {
		return s.out("interrupt", false)
	}
	// payments that end up below the cut, then fillers
	// 150 fillers, three payments, 1010 fillers: the cut lies 1000 vertices below the tip, so the payments sit about ten vertices
	// below the cut - among the first vertices the abandoned run checkpoints
	for k := 0; k < 150; k++ {
		t := craftTrx(s.recvRich, w.wallets[5].Address(), "f", []byte("n"), spice.Melange{}, s.now())
		n.createQuiet(&t)
	}
	for k, u := range s.users[1:] {
		t := craftTrx(s.recvRich, u.Address(), "pay", nil, spice.Melange{Currency: uint64(5 + k), SupplementaryCurrency: uint64(1 + k)}, s.now())
		n.createQuiet(&t)
	}
	for k := 0; k < 1010; k++ {
		t := craftTrx(s.recvRich, w.wallets[5].Address(), "f", []byte("n"), spice.Melange{}, s.now())
		n.createQuiet(&t)
	}
	observe := func() map[string]string {
		o := map[string]string{}
		for _, wl := range w.wallets {
			b, err := n.ab.CalculateBalance(context.Background(), wl.Address())
			o[wl.Address()] = fmt.Sprintf("%v/%v", b.Spice, err != nil)
		}
		return o
	}
	cmp := func(o0, o1 map[string]string, when string) {
		for a, b0 := range o0 {
			if o1[a] != b0 {
				what := fmt.Sprintf("wallet %d: %s before, %s %s (value/error)", w.A(a), b0, o1[a], when)
				if len(b0) > 5 && b0[len(b0)-5:] == "/true" && o1[a] == "0.0/false" {
					// the query failed before (negative sum: the genesis issuer) and reports 0.0 once a truncation completed: the known finding
					n.violate("C07", "overdrawn-wallet-reset-by-truncation", what)
					continue
				}
				n.violate("C06", "balance-changed-around-interrupted-truncation", what)
				n.violate("C07", "balance-changed-around-interrupted-truncation", what)
			}
		}
	}
	o0 := observe()
	run := func(ctx context.Context) (err error, hung bool) {
		done := make(chan error, 1)
		go func() {
			e, pn := safely(func() error { return n.ab.VerifTruncate(ctx) })
			if pn {
				n.violate("C08", "truncate-panics", e.Error())
			}
			done <- e
		}()
		select {
		case err = <-done:
			return err, false
		case <-time.After(90 * time.Second):
			n.violate("C08", "truncate-hangs", "truncate did not return within 90 s")
			return nil, true
		}
	}
	k := 1000 + 20 + idx*13 // (truncateDiff = 1000 walked vertices to find the cut) the caller goes away while the vertices below the cut are being checkpointed
	err1, hung := run(ctxWithBudget(k))
	if hung {
		return s.out("interrupt", false)
	}
	n.stats[fmt.Sprintf("interrupt.first_truncation_err=%v", err1 != nil)]++
	cmp(o0, observe(), "after an interrupted truncation")
	err2, hung := run(context.Background())
	if hung {
		return s.out("interrupt", false)
	}
	n.stats[fmt.Sprintf("interrupt.second_truncation_err=%v", err2 != nil)]++
	cmp(o0, observe(), "after the truncation that followed an interrupted one")
	return s.out("interrupt", true)
}

// ---------------------------------------------------------------- a dropped tip frees its transaction (C03): an overdrawing transfer is sealed
// in a tentative tip, a PEER's vertex names that tip as its parent (the tip is examined in the gossip path, found uncovered and dropped), and
// the same transaction is then proposed again: nothing holds it any more, so "already sealed" is no reason to refuse it
func scenarioRepropose(seed int64, idx int) ScenarioOut {
	w := newWorld(seed*5200013+int64(idx), 7)
	s := &sim{w: w, bal: map[string]int64{}, pending: map[int][]*accountant.Vertex{}, clock: time.Now().Add(-time.Hour)}
	s.genesisSigner, s.recvRich, s.users = w.wallets[0], w.wallets[1], w.wallets[1:5]
	n := newNode(w, fmt.Sprintf("repropose%d", idx), w.wallets[0])
	defer n.close()
	s.nodes = []*Node{n}
	gv, _ := n.genesis(s.recvRich.Address(), spice.Melange{Currency: 500})
	if gv == nil {
		return s.out("repropose", false)
	}
	for k := 0; k < 1+idx%3; k++ {
		t := craftTrx(s.recvRich, s.users[1].Address(), fmt.Sprintf("pre-%d", k), nil, spice.Melange{Currency: 5}, s.now())
		n.create(&t, -1)
	}
	bad := craftTrx(s.users[2], s.users[3].Address(), "overdraw", nil, spice.Melange{Currency: 40 + uint64(idx)}, s.now())
	vb, _ := n.create(&bad, -1)
	if vb == nil {
		return s.out("repropose", true)
	}
	peer := w.wallets[5]
	pt := craftTrx(s.recvRich, s.users[1].Address(), "peer", nil, spice.Melange{Currency: 1}, s.now())
	pv, err := accountant.NewVertex(pt, vb.Hash, vb.Hash, vb.Weight+1, peer)
	if err != nil {
		return s.out("repropose", true)
	}
	w.remember(&pv)
	n.add(&pv, -1)
	sn := n.ab.VerifSnapshot()
	dropped := true
	for i := range sn.Vertices {
		if sn.Vertices[i].Hash == vb.Hash {
			dropped = false
		}
	}
	if dropped {
		n.stats["repropose.tip_dropped"]++
	}
	n.create(&bad, -1)
	for k := 0; k < 2; k++ {
		t := craftTrx(s.recvRich, s.users[2].Address(), fmt.Sprintf("after-%d", k), nil, spice.Melange{Currency: 1}, s.now())
		n.create(&t, -1)
	}
	o := s.out("repropose", true)
	o.NonTriv = true
	return o
}
