package main

import (
	"context"
	"fmt"
	"math/big"
	"sort"

	"github.com/bartossh/Computantis/src/accountant"
	"github.com/bartossh/Computantis/src/spice"
	"github.com/bartossh/Computantis/src/transaction"
	"github.com/bartossh/Computantis/src/wallet"
)

type Violation struct {
	Prop   string `json:"prop"`
	Key    string `json:"key"`
	What   string `json:"what"`
	Trace  string `json:"trace"`
	StepNo int    `json:"step"`
}

// Node wraps one real AccountingBook and records the trace for the Coq acceptor.
type Node struct {
	w      *World
	name   string
	signer *wallet.Wallet
	ab     *accountant.AccountingBook
	cancel context.CancelFunc
	steps  []string
	ops    []string // human-readable op log (replay / samples)
	prev   accountant.VerifSnapshot
	viol   []Violation
	snapEvery bool
	stats  map[string]int
	seenOK map[[32]byte]bool
	everTrusted map[string]bool // sealers that were in this node's trusted set at any time (the exemption applies when a vertex is validated)
}

func newNode(w *World, name string, signer *wallet.Wallet) *Node {
	ctx, cancel := context.WithCancel(context.Background())
	ab, err := accountant.NewAccountingBook(ctx, accountant.Config{Truncate: 1 << 62}, w.ver, signer, nolog{})
	if err != nil {
		panic(err)
	}
	ab.VerifDetachRepeater()
	n := &Node{w: w, name: name, signer: signer, ab: ab, cancel: cancel, snapEvery: true, stats: map[string]int{}, seenOK: map[[32]byte]bool{}, everTrusted: map[string]bool{}}
	n.prev = ab.VerifSnapshot()
	return n
}

func (n *Node) close() {
	n.cancel()
	n.ab.VerifClose()
}

func (n *Node) violate(prop, key, what string) {
	n.viol = append(n.viol, Violation{Prop: prop, Key: key, What: what, Trace: n.name, StepNo: len(n.steps)})
}

func (n *Node) coqTrace() string {
	return fmt.Sprintf("(Trace %d None %s)", n.w.A(n.signer.Address()), coqList(n.steps))
}

// record one step and run the per-step monitors
func (n *Node) record(op, obs, human string, opKind string, created *accountant.Vertex) {
	s := n.ab.VerifSnapshot()
	c := n.w.canon(&s)
	snap := "None"
	if n.snapEvery {
		snap = "(Some " + c.coq() + ")"
	}
	n.steps = append(n.steps, fmt.Sprintf("(Step %s %s %s)", op, obs, snap))
	n.ops = append(n.ops, human)
	n.stats["op."+opKind]++
	for _, a := range s.Trusted {
		n.everTrusted[a] = true
	}
	n.monitors(&n.prev, &s, opKind, created)
	n.prev = s
}

func safely(f func() error) (err error, panicked bool) {
	defer func() {
		if r := recover(); r != nil {
			panicked = true
			err = fmt.Errorf("panic: %v", r)
		}
	}()
	return f(), false
}

func resClass(err error, panicked bool) string {
	if panicked {
		return "RPanic"
	}
	return classify(err)
}

// ---------------------------------------------------------------- operations

func (n *Node) genesis(recv string, amt spice.Melange) (*accountant.Vertex, string) {
	var v accountant.Vertex
	err, pn := safely(func() error {
		var e error
		v, e = n.ab.CreateGenesis("Genesis Vertex", amt, []byte{}, recv)
		return e
	})
	cls := resClass(err, pn)
	ok := false
	if err == nil {
		ok = n.w.remember(&v)
	}
	th, h := 0, 0
	if err == nil {
		th, h = n.w.H(v.Transaction.Hash), n.w.H(v.Hash)
	}
	n.record(fmt.Sprintf("(OGenesis %d %s false %d %d %s)", n.w.A(recv), coqMel(amt), th, h, coqBool(ok)), "(BRes "+cls+")",
		fmt.Sprintf("genesis recv=%d amt=%v -> %s", n.w.A(recv), amt, cls), "genesis", nil)
	n.stats["res.genesis."+cls]++
	if err != nil {
		return nil, cls
	}
	return &v, cls
}

func (n *Node) create(trx *transaction.Transaction, budget int) (*accountant.Vertex, string) {
	var v accountant.Vertex
	err, pn := safely(func() error {
		var e error
		v, e = n.ab.CreateLeaf(ctxWithBudget(budget), trx)
		return e
	})
	cls := resClass(err, pn)
	newh, vok := 0, false
	var created *accountant.Vertex
	if err == nil {
		vok = n.w.remember(&v)
		newh = n.w.H(v.Hash)
		created = &v
	}
	n.record(fmt.Sprintf("(OCreate %s %d %s %s)", n.w.coqTrx(trx), newh, coqBool(vok), coqBudget(budget)), "(BRes "+cls+")",
		fmt.Sprintf("create trx=%d issuer=%d recv=%d amt=%v data=%v budget=%d -> %s", n.w.H(trx.Hash), n.w.A(trx.IssuerAddress),
			n.w.A(trx.ReceiverAddress), trx.Spice, len(trx.Data) != 0, budget, cls), "create", created)
	n.stats["res.create."+cls]++
	if pn {
		n.violate("C15", "createleaf-panic", "CreateLeaf panicked: "+err.Error()+" ops="+fmt.Sprint(n.ops))
	}
	if cls == "RTrxExists" && n.prev.Loaded {
		// C03: "already sealed" is only a reason while some vertex holds the transaction (or the index still points at one): a transaction
		// whose tentative vertex was dropped as invalid can be proposed again
		_, indexed := n.prev.Index[trx.Hash]
		held := false
		for i := range n.prev.Vertices {
			held = held || n.prev.Vertices[i].Transaction.Hash == trx.Hash
		}
		for i := range n.prev.StoredVertices {
			held = held || n.prev.StoredVertices[i].Transaction.Hash == trx.Hash
		}
		n.stats["monitor.refused_as_sealed_checked"]++
		if !indexed && !held {
			n.violate("C03", "free-transaction-refused-as-sealed", fmt.Sprintf("proposal of transaction %d refused as already sealed although no vertex holds it and the index has no entry for it (its vertex was dropped)", n.w.H(trx.Hash)))
		}
	}
	return created, cls
}

func (n *Node) add(v *accountant.Vertex, budget int) string {
	ok := n.w.remember(v)
	cp := *v
	err, pn := safely(func() error { return n.ab.AddLeaf(ctxWithBudget(budget), &cp) })
	cls := resClass(err, pn)
	n.record(fmt.Sprintf("(OAdd %s %s)", n.w.coqVtx(v, ok), coqBudget(budget)), "(BRes "+cls+")",
		fmt.Sprintf("add vtx=%d l=%d r=%d w=%d signer=%d ok=%v trx=%d issuer=%d recv=%d amt=%v budget=%d -> %s", n.w.H(v.Hash), n.w.H(v.LeftParentHash),
			n.w.H(v.RightParentHash), v.Weight, n.w.A(v.SignerPublicAddress), ok, n.w.H(v.Transaction.Hash), n.w.A(v.Transaction.IssuerAddress),
			n.w.A(v.Transaction.ReceiverAddress), v.Transaction.Spice, budget, cls), "add", nil)
	n.stats["res.add."+cls]++
	return cls
}

func (n *Node) retry(budget int) (bool, string) {
	var had bool
	err, pn := safely(func() error {
		var e error
		had, _, e = n.ab.VerifRetryOne(ctxWithBudget(budget))
		return e
	})
	obs := "(BRetry None)"
	cls := "none"
	if had || pn {
		cls = resClass(err, pn)
		obs = "(BRetry (Some " + cls + "))"
	}
	n.record(fmt.Sprintf("(ORetry %s)", coqBudget(budget)), obs, fmt.Sprintf("retry budget=%d -> %s", budget, cls), "retry", nil)
	n.stats["res.retry."+cls]++
	return had, cls
}

func (n *Node) trust(addr string, on bool) {
	if on {
		n.ab.AddTrustedNode(addr)
		n.record(fmt.Sprintf("(OTrust %d)", n.w.A(addr)), "(BBool true)", fmt.Sprintf("trust %d", n.w.A(addr)), "trust", nil)
	} else {
		n.ab.RemoveTrustedNode(addr)
		n.record(fmt.Sprintf("(OUntrust %d)", n.w.A(addr)), "(BBool true)", fmt.Sprintf("untrust %d", n.w.A(addr)), "untrust", nil)
	}
}

func (n *Node) balance(addr string, budget int) (spice.Melange, error) {
	var b accountant.Balance
	err, pn := safely(func() error {
		var e error
		b, e = n.ab.CalculateBalance(ctxWithBudget(budget), addr)
		return e
	})
	obs := "(BBal None)"
	if err == nil {
		obs = "(BBal (Some " + coqMel(b.Spice) + "))"
	}
	if pn {
		n.violate("C06", "balance-panic", "CalculateBalance panicked: "+err.Error())
	}
	before := n.prev
	n.record(fmt.Sprintf("(OBalance %d %s)", n.w.A(addr), coqBudget(budget)), obs,
		fmt.Sprintf("balance addr=%d budget=%d -> %v %v", n.w.A(addr), budget, b.Spice, err), "balance", nil)
	n.monBalance(&before, addr, budget, b.Spice, err)
	return b.Spice, err
}

func (n *Node) readVertex(h [32]byte) bool {
	_, err := n.ab.ReadVertex(context.Background(), h)
	n.record(fmt.Sprintf("(ORead %d)", n.w.H(h)), "(BBool "+coqBool(err == nil)+")", fmt.Sprintf("read %d -> %v", n.w.H(h), err == nil), "read", nil)
	return err == nil
}

func (n *Node) readTrx(h [32]byte) bool {
	_, err := n.ab.ReadTransactionByHash(context.Background(), h)
	n.record(fmt.Sprintf("(OReadTrx %d)", n.w.H(h)), "(BBool "+coqBool(err == nil)+")", fmt.Sprintf("readtrx %d -> %v", n.w.H(h), err == nil), "readtrx", nil)
	return err == nil
}

// ---------------------------------------------------------------- monitors (properties evaluated on the implementation)

type view struct {
	live   map[[32]byte]*accountant.Vertex
	stored map[[32]byte]*accountant.Vertex
	child  map[[32]byte]bool        // has a child edge
	inb    map[[32]byte][][32]byte  // inbound edges (parents) as the graph holds them
}

func mkView(s *accountant.VerifSnapshot) *view {
	v := &view{live: map[[32]byte]*accountant.Vertex{}, stored: map[[32]byte]*accountant.Vertex{}, child: map[[32]byte]bool{}, inb: map[[32]byte][][32]byte{}}
	for i := range s.Vertices {
		v.live[s.Vertices[i].Hash] = &s.Vertices[i]
	}
	for i := range s.StoredVertices {
		v.stored[s.StoredVertices[i].Hash] = &s.StoredVertices[i]
	}
	for _, e := range s.Edges {
		v.child[e[0]] = true
		v.inb[e[1]] = append(v.inb[e[1]], e[0])
	}
	return v
}

// history of a vertex: itself + ancestors over DECLARED parents that are live
func (vw *view) history(h [32]byte) []*accountant.Vertex {
	seen := map[[32]byte]bool{}
	var out []*accountant.Vertex
	q := [][32]byte{h}
	for len(q) > 0 {
		x := q[0]
		q = q[1:]
		if seen[x] {
			continue
		}
		seen[x] = true
		v, ok := vw.live[x]
		if !ok {
			continue
		}
		out = append(out, v)
		q = append(q, v.LeftParentHash, v.RightParentHash)
	}
	return out
}

func flows(addr string, hist []*accountant.Vertex) (in, out *big.Int) {
	in, out = new(big.Int), new(big.Int)
	for _, v := range hist {
		if !v.Transaction.IsSpiceTransfer() {
			continue
		}
		if v.Transaction.IssuerAddress == addr {
			out.Add(out, valBig(v.Transaction.Spice))
		}
		if v.Transaction.ReceiverAddress == addr {
			in.Add(in, valBig(v.Transaction.Spice))
		}
	}
	return
}

func isTrusted(s *accountant.VerifSnapshot, a string) bool {
	i := sort.SearchStrings(s.Trusted, a)
	return i < len(s.Trusted) && s.Trusted[i] == a
}

func (n *Node) monitors(prev, cur *accountant.VerifSnapshot, opKind string, created *accountant.Vertex) {
	if !cur.Loaded {
		return // a node that is not (or not successfully) loaded serves nothing; C14 checks the flag itself
	}
	pv, cv := mkView(prev), mkView(cur)
	w := n.w
	// ---- C01: newly confirmed spice transfers of non-trusted sealers are covered in their own history
	for h, v := range cv.live {
		newly := cv.child[h] && !pv.child[h]
		if !newly {
			continue
		}
		if _, was := pv.live[h]; !was {
			continue // appeared and got a child within one operation: cannot happen through the API
		}
		n.stats["c01.newly_confirmed"]++
		if !v.Transaction.IsSpiceTransfer() || isTrusted(prev, v.SignerPublicAddress) || len(pv.inb[h]) == 0 {
			continue
		}
		hist := cv.history(h)
		in, out := flows(v.Transaction.IssuerAddress, hist)
		if m, ok := prev.StoredFunds[v.Transaction.IssuerAddress]; ok {
			in.Add(in, valBig(m))
		}
		n.stats["c01.covered_checked"]++
		if in.Cmp(out) < 0 {
			n.violate("C01", "confirmed-overdraw", fmt.Sprintf("vertex %d (issuer %d) became confirmed with funds %s < spends %s in its own history",
				w.H(h), w.A(v.Transaction.IssuerAddress), in, out))
		}
	}
	for h := range cv.stored {
		if _, was := pv.stored[h]; !was {
			if !pv.child[h] {
				n.violate("C01", "checkpointed-unconfirmed", fmt.Sprintf("vertex %d was checkpointed without ever having a child", w.H(h)))
			}
		}
	}
	// dropped tips lose their index entry
	for h, v := range pv.live {
		if _, still := cv.live[h]; still {
			continue
		}
		if _, st := cv.stored[h]; st {
			continue
		}
		n.stats["c01.dropped_tips"]++
		if vh, ok := cur.Index[v.Transaction.Hash]; ok && string(vh) == string(h[:]) {
			n.violate("C01", "dropped-tip-keeps-index", fmt.Sprintf("vertex %d was dropped but its transaction %d is still indexed", w.H(h), w.H(v.Transaction.Hash)))
			n.violate("C03", "dropped-tip-keeps-index", fmt.Sprintf("vertex %d was dropped but its transaction %d is still indexed", w.H(h), w.H(v.Transaction.Hash)))
		}
		if pv.child[h] {
			n.violate("C01", "confirmed-vertex-dropped", fmt.Sprintf("vertex %d had a child and was deleted without being checkpointed", w.H(h)))
		}
	}
	// ---- C03: uniqueness + index exactness
	trxHolder := map[[32]byte][32]byte{}
	for _, set := range []map[[32]byte]*accountant.Vertex{cv.live, cv.stored} {
		for h, v := range set {
			if o, dup := trxHolder[v.Transaction.Hash]; dup && o != h {
				n.violate("C03", "trx-in-two-vertices", fmt.Sprintf("transaction %d sealed in vertices %d and %d", w.H(v.Transaction.Hash), w.H(o), w.H(h)))
			}
			trxHolder[v.Transaction.Hash] = h
			vh, ok := cur.Index[v.Transaction.Hash]
			if !ok || string(vh) != string(h[:]) {
				n.violate("C03", "index-misses-holder", fmt.Sprintf("index does not point transaction %d at its vertex %d", w.H(v.Transaction.Hash), w.H(h)))
			}
		}
	}
	for h := range cv.live {
		if _, both := cv.stored[h]; both {
			n.violate("C03", "vertex-live-and-stored", fmt.Sprintf("vertex %d is both live and checkpointed", w.H(h)))
		}
	}
	if len(cur.Vertices) != len(cv.live) || len(cur.StoredVertices) != len(cv.stored) {
		n.violate("C03", "vertex-hash-twice", "a vertex hash occurs twice in the ledger")
	}
	for th, vh := range cur.Index {
		var k [32]byte
		copy(k[:], vh)
		v, ok := cv.live[k]
		if !ok {
			v, ok = cv.stored[k]
		}
		if !ok || v.Transaction.Hash != th {
			n.violate("C03", "index-dangling", fmt.Sprintf("index entry %d -> %d has no holder", w.H(th), w.H(k)))
		}
	}
	// ---- C09: edges = declared live parents; absent parents are checkpointed; ids = hashes; signatures
	for id, hh := range cur.IDs {
		if id != hh {
			n.violate("C09", "id-not-hash", fmt.Sprintf("vertex stored under id %d carries hash %d", w.H(id), w.H(hh)))
		}
	}
	for h, v := range cv.live {
		want := map[[32]byte]bool{}
		for _, p := range [][32]byte{v.LeftParentHash, v.RightParentHash} {
			if _, ok := cv.live[p]; ok {
				want[p] = true
			} else if _, ok := cv.stored[p]; !ok {
				isGenesis := v.LeftParentHash == [32]byte{} && v.RightParentHash == [32]byte{}
				if !isGenesis {
					n.violate("C09", "parent-neither-live-nor-stored", fmt.Sprintf("vertex %d declares parent %d which is neither live nor checkpointed", w.H(h), w.H(p)))
				}
			}
		}
		got := map[[32]byte]bool{}
		for _, p := range cv.inb[h] {
			got[p] = true
		}
		if len(got) != len(want) {
			n.violate("C09", "edges-not-declared-parents", fmt.Sprintf("vertex %d: %d edges vs %d declared live parents", w.H(h), len(got), len(want)))
		} else {
			for p := range want {
				if !got[p] {
					n.violate("C09", "edges-not-declared-parents", fmt.Sprintf("vertex %d lacks the edge from declared parent %d", w.H(h), w.H(p)))
				}
			}
		}
		if !n.seenOK[h] {
			if err := v.VerifVerify(w.ver); err != nil {
				n.violate("C09", "unverifiable-vertex-admitted", fmt.Sprintf("vertex %d in the ledger does not verify: %v", w.H(h), err))
				n.violate("C04", "unverifiable-vertex-admitted", fmt.Sprintf("vertex %d in the ledger does not verify: %v", w.H(h), err))
			}
			if v.Transaction.Spice.SupplementaryCurrency >= 1000000000000000000 {
				n.violate("C05", "noncanonical-amount-in-ledger", fmt.Sprintf("vertex %d carries non-canonical amount %v", w.H(h), v.Transaction.Spice))
			}
			n.seenOK[h] = true
		}
	}
	if created != nil {
		l, lok := pv.live[created.LeftParentHash]
		r, rok := pv.live[created.RightParentHash]
		if !lok || !rok || pv.child[created.LeftParentHash] || pv.child[created.RightParentHash] {
			n.violate("C09", "created-on-non-tip", fmt.Sprintf("created vertex %d references a parent that was not a tip", w.H(created.Hash)))
		} else {
			mx := l.Weight
			if r.Weight > mx {
				mx = r.Weight
			}
			if mx == ^uint64(0) { // max(parent weights)+1 is not a uint64: the code wraps it to 0
				n.violate("C09", "created-weight-wrapped", fmt.Sprintf("created vertex %d has weight %d on a parent of weight 2^64-1 (max+1 wrapped)", w.H(created.Hash), created.Weight))
			} else if created.Weight != mx+1 {
				n.violate("C09", "created-weight", fmt.Sprintf("created vertex %d has weight %d, parents max %d", w.H(created.Hash), created.Weight, mx))
			}
		}
	}
	// ---- C10: sealing rules
	for _, set := range []map[[32]byte]*accountant.Vertex{cv.live, cv.stored} {
		for h, v := range set {
			isGenesis := v.LeftParentHash == [32]byte{} && v.RightParentHash == [32]byte{} && v.SignerPublicAddress == cur.Genesis
			if isGenesis {
				if v.Transaction.ReceiverAddress == v.Transaction.IssuerAddress {
					n.violate("C10", "genesis-to-self", "genesis names its own issuer as receiver")
				}
				continue
			}
			if v.Transaction.IssuerAddress == v.SignerPublicAddress {
				n.violate("C10", "self-sealed", fmt.Sprintf("vertex %d seals a transaction issued by its own sealer %d", w.H(h), w.A(v.SignerPublicAddress)))
			}
			if cur.Genesis != "" && v.Transaction.IssuerAddress == cur.Genesis {
				n.violate("C10", "genesis-wallet-spends", fmt.Sprintf("vertex %d is issued by the genesis wallet", w.H(h)))
			}
			if v.Transaction.IsEmpty() {
				n.violate("C10", "empty-transaction-sealed", fmt.Sprintf("vertex %d seals an empty transaction", w.H(h)))
			}
		}
	}
}

// C06: the reported balance equals the reference over one tip; errors only when negative; query is pure
func (n *Node) monBalance(before *accountant.VerifSnapshot, addr string, budget int, got spice.Melange, err error) {
	cur := n.prev // snapshot after the query
	if c1, c2 := n.w.canon(before), n.w.canon(&cur); c1.coq() != c2.coq() {
		n.violate("C06", "query-mutates", "balance query changed the ledger")
	}
	if budget >= 0 {
		return
	}
	vw := mkView(before)
	okSome := false
	var cands []string
	for _, l := range before.Leaves {
		hist := vw.history(l)
		in, out := flows(addr, hist)
		if m, ok := before.StoredFunds[addr]; ok {
			in.Add(in, valBig(m))
		}
		d := new(big.Int).Sub(in, out)
		cands = append(cands, d.String())
		if in.Cmp(limitBig) >= 0 || out.Cmp(limitBig) >= 0 {
			okSome = true // accumulated flows not representable in 2^64 currency units: an error is the only possible answer
			continue
		}
		if d.Sign() < 0 {
			if err != nil {
				okSome = true
			}
		} else if err == nil && valBig(got).Cmp(d) == 0 && got.SupplementaryCurrency < 1000000000000000000 {
			okSome = true
		}
	}
	// single tip: the answer is the wallet's exact balance over ALL confirmed vertices, checkpointed ones included -
	// recomputed here from the stored vertices themselves, not from the implementation's funds store
	if len(before.Leaves) == 1 && len(before.StoredVertices) > 0 && addr != before.Genesis {
		net := new(big.Int)
		for i := range before.StoredVertices {
			sv := &before.StoredVertices[i]
			if !sv.Transaction.IsSpiceTransfer() {
				continue
			}
			if sv.Transaction.IssuerAddress == addr {
				net.Sub(net, valBig(sv.Transaction.Spice))
			}
			if sv.Transaction.ReceiverAddress == addr {
				net.Add(net, valBig(sv.Transaction.Spice))
			}
		}
		if net.Sign() >= 0 { // a wallet overdrawn below the cut is the C07 known finding
			in, out := flows(addr, vw.history(before.Leaves[0]))
			d := new(big.Int).Add(net, new(big.Int).Sub(in, out))
			n.stats["c06.balance_checked_against_all_confirmed"]++
			if d.Sign() >= 0 && d.Cmp(limitBig) < 0 && (err != nil || valBig(got).Cmp(d) != 0) {
				n.violate("C06", "balance-not-exact-over-confirmed", fmt.Sprintf("single tip: balance of %d reported %v (err %v); checkpointed vertices + live history give %s", n.w.A(addr), got, err, d))
			}
		}
	}
	n.stats["c06.balance_checked"]++
	if len(before.Leaves) > 1 {
		n.stats["c06.balance_multi_tip"]++
	}
	if !okSome && len(before.Leaves) > 0 {
		n.violate("C06", "balance-not-reference", fmt.Sprintf("balance of %d reported %v (err %v); reference per tip %v", n.w.A(addr), got, err, cands))
	}
}
