// gossiph: a virtual network of REAL gossiper objects (src/gossip, built through the verif hook) over REAL
// ledgers, caches and flash memories. Peers are stubs that put outgoing GossipVrx/GossipTrx calls into a
// harness-owned multiset; the harness is the scheduler (any order, duplicates, forged gossiper entries,
// corrupted copies). Every delivery is recorded for the Coq acceptor (coq/Run/CheckGossip.v) and the
// property monitors (C11, C12) are evaluated on the implementation.
package main

import (
	"context"
	"encoding/json"
	"flag"
	"fmt"
	"math/rand"
	"os"
	"sort"
	"strings"
	"sync"
	"syscall"
	"time"

	"github.com/bartossh/Computantis/src/accountant"
	"github.com/bartossh/Computantis/src/cache"
	"github.com/bartossh/Computantis/src/gossip"
	"github.com/bartossh/Computantis/src/pipe"
	"github.com/bartossh/Computantis/src/protobufcompiled"
	"github.com/bartossh/Computantis/src/spice"
	"github.com/bartossh/Computantis/src/transaction"
	"github.com/bartossh/Computantis/src/transformers"
	"github.com/bartossh/Computantis/src/wallet"
	"google.golang.org/grpc"
	"google.golang.org/protobuf/proto"
	"google.golang.org/protobuf/types/known/emptypb"
)

type nolog struct{}

func (nolog) Debug(string) {}
func (nolog) Info(string)  {}
func (nolog) Warn(string)  {}
func (nolog) Error(string) {}
func (nolog) Fatal(string) {}

type Violation struct {
	Prop string `json:"prop"`
	Key  string `json:"key"`
	What string `json:"what"`
}

type msg struct {
	src, dst int
	vrx      *protobufcompiled.VrxMsgGossip
	trx      *protobufcompiled.TrxMsgGossip
}

type net struct {
	mu    sync.Mutex
	queue []msg
	nodes []*node
	sent  int
}

type node struct {
	idx    int
	w      *wallet.Wallet
	ab     *accountant.AccountingBook
	hip    *cache.Hippocampus
	flash  *flashW
	jug    *pipe.Juggler
	g      *gossip.VerifGossiper
	cancel context.CancelFunc
	fwd    int // number of forwarding rounds observed (a round = one handler call that sent something)
}

// flashW: the node's recent-hash memory with a switch that makes the next look-up behave as if its 20 s window had passed
type flashW struct {
	*cache.Flashback
	mu      sync.Mutex
	expired bool
}

func (f *flashW) HasHash(h []byte) (bool, error) {
	f.mu.Lock()
	e := f.expired
	f.expired = false
	f.mu.Unlock()
	seen, err := f.Flashback.HasHash(h)
	if e {
		return false, err
	}
	return seen, err
}

// stub peer: enqueue instead of dialing
type stub struct {
	n        *net
	src, dst int
}

func (s *stub) Alive(ctx context.Context, in *emptypb.Empty, opts ...grpc.CallOption) (*protobufcompiled.AliveData, error) {
	return &protobufcompiled.AliveData{}, nil
}
func (s *stub) LoadDag(ctx context.Context, in *emptypb.Empty, opts ...grpc.CallOption) (protobufcompiled.GossipAPI_LoadDagClient, error) {
	return nil, fmt.Errorf("not available in the virtual network")
}
func (s *stub) Announce(ctx context.Context, in *protobufcompiled.ConnectionData, opts ...grpc.CallOption) (*emptypb.Empty, error) {
	return &emptypb.Empty{}, nil
}
func (s *stub) Discover(ctx context.Context, in *protobufcompiled.ConnectionData, opts ...grpc.CallOption) (*protobufcompiled.ConnectedNodes, error) {
	return &protobufcompiled.ConnectedNodes{}, nil
}
// transport: a call takes a little while and is abandoned when the caller's context ends first - what a real gRPC
// client does (measured with real servers on the loopback interface: harness/cmd/grpcx)
func transport(ctx context.Context) error {
	select {
	case <-ctx.Done():
		return fmt.Errorf("rpc error: code = Canceled desc = %v", ctx.Err())
	case <-time.After(300 * time.Microsecond):
		return nil
	}
}

// serve runs a handler the way the real server does: with a request context that ends when the handler returns
func serve(f func(ctx context.Context)) {
	ctx, cancel := context.WithCancel(context.Background())
	defer cancel()
	f(ctx)
}

func (s *stub) GossipVrx(ctx context.Context, in *protobufcompiled.VrxMsgGossip, opts ...grpc.CallOption) (*emptypb.Empty, error) {
	if err := transport(ctx); err != nil {
		return nil, err
	}
	cp := proto.Clone(in).(*protobufcompiled.VrxMsgGossip)
	s.n.mu.Lock()
	s.n.queue = append(s.n.queue, msg{src: s.src, dst: s.dst, vrx: cp})
	s.n.sent++
	s.n.mu.Unlock()
	return &emptypb.Empty{}, nil
}
func (s *stub) GossipTrx(ctx context.Context, in *protobufcompiled.TrxMsgGossip, opts ...grpc.CallOption) (*emptypb.Empty, error) {
	if err := transport(ctx); err != nil {
		return nil, err
	}
	cp := proto.Clone(in).(*protobufcompiled.TrxMsgGossip)
	s.n.mu.Lock()
	s.n.queue = append(s.n.queue, msg{src: s.src, dst: s.dst, trx: cp})
	s.n.sent++
	s.n.mu.Unlock()
	return &emptypb.Empty{}, nil
}
func (s *stub) GetVertex(ctx context.Context, in *protobufcompiled.SignedHash, opts ...grpc.CallOption) (*protobufcompiled.Vertex, error) {
	if err := transport(ctx); err != nil {
		return nil, err
	}
	return s.n.nodes[s.dst].g.Server().GetVertex(ctx, in)
}

func (n *net) qlen() int {
	n.mu.Lock()
	defer n.mu.Unlock()
	return len(n.queue)
}

// wait until at least `want` messages are queued, then until the queue is stable (extra sends are observed too)
func (n *net) settle(want int) {
	deadline := time.Now().Add(3 * time.Second)
	for n.qlen() < want && time.Now().Before(deadline) {
		time.Sleep(200 * time.Microsecond)
	}
	last, stable := n.qlen(), 0
	for stable < 12 {
		time.Sleep(time.Millisecond)
		if l := n.qlen(); l == last {
			stable++
		} else {
			last, stable = l, 0
		}
	}
}

type scenarioOut struct {
	trace2  string
	trace   string
	viol    []Violation
	stats   map[string]int
	human   []string
	nontriv bool
}

func connectedGraphs(nn int, rng *rand.Rand) [][]int {
	// random connected undirected graph as adjacency lists (peer relation symmetric, as Discover/Announce build it)
	adj := make([][]int, nn)
	has := func(a, b int) bool {
		for _, x := range adj[a] {
			if x == b {
				return true
			}
		}
		return false
	}
	link := func(a, b int) {
		if a != b && !has(a, b) {
			adj[a] = append(adj[a], b)
			adj[b] = append(adj[b], a)
		}
	}
	perm := rng.Perm(nn)
	for i := 1; i < nn; i++ {
		link(perm[i], perm[rng.Intn(i)])
	}
	extra := rng.Intn(nn + 1)
	for i := 0; i < extra; i++ {
		link(rng.Intn(nn), rng.Intn(nn))
	}
	return adj
}

func runScenario(seed int64, idx int, kind string) (out scenarioOut) {
	out.stats = map[string]int{}
	rng := rand.New(rand.NewSource(seed*1000033 + int64(idx)))
	nn := 2 + rng.Intn(3) // 2..4 nodes
	if idx%5 == 4 {
		nn = 5 + rng.Intn(4)
	}
	adj := connectedGraphs(nn, rng)
	if kind == "poison" {
		nn = 4
		adj = [][]int{{1, 2}, {0, 3}, {0, 3}, {1, 2}}
	}
	viol := func(prop, key, what string) { out.viol = append(out.viol, Violation{prop, key, what}) }
	ver := wallet.NewVerifier()
	nw := &net{}
	users := make([]*wallet.Wallet, 3)
	for i := range users {
		w, _ := wallet.New()
		users[i] = &w
	}
	for i := 0; i < nn; i++ {
		w, _ := wallet.New()
		ctx, cancel := context.WithCancel(context.Background())
		ab, err := accountant.NewAccountingBook(ctx, accountant.Config{Truncate: 1 << 62}, ver, &w, nolog{})
		if err != nil {
			panic(err)
		}
		ab.VerifDetachRepeater()
		hip, _ := cache.New(4096, 128) // 128 KB per shard as on a real node: no capacity eviction at these volumes
		fl, _ := cache.NewFlash()
		nw.nodes = append(nw.nodes, &node{idx: i, w: &w, ab: ab, hip: hip, flash: &flashW{Flashback: fl}, jug: pipe.New(16, 16), cancel: cancel})
	}
	defer func() {
		for _, n := range nw.nodes {
			n.cancel()
			n.ab.VerifClose()
			n.hip.Close()
			n.flash.Close()
		}
	}()
	addrIdx := map[string]int{}
	for i, n := range nw.nodes {
		addrIdx[n.w.Address()] = i
	}
	for i, n := range nw.nodes {
		peers := map[string]protobufcompiled.GossipAPIClient{}
		for _, j := range adj[i] {
			peers[nw.nodes[j].w.Address()] = &stub{n: nw, src: i, dst: j}
		}
		n.g = gossip.VerifNewGossiper(nolog{}, time.Second, n.w, ver, n.ab, n.hip, n.flash, n.jug, fmt.Sprintf("node%d", i), peers)
	}
	// ledgers: node 0 creates genesis, everybody else syncs from it: the item's parents are everywhere
	if _, err := nw.nodes[0].ab.CreateGenesis("Genesis Vertex", spice.New(1000, 0), []byte{}, users[0].Address()); err != nil {
		panic(err)
	}
	for i := 1; i < nn; i++ {
		ch := make(chan *accountant.Vertex, 8)
		ctx, cancel := context.WithCancel(context.Background())
		for v := range nw.nodes[0].ab.StreamDAG(ctx) {
			cp := *v
			ch <- &cp
		}
		cancel()
		close(ch)
		_, cf := context.WithCancelCause(context.Background())
		nw.nodes[i].ab.LoadDag(cf, ch)
		if !nw.nodes[i].ab.DagLoaded() {
			panic("load failed")
		}
	}
	// warm-up: every node sees (and verifies) every other node's gossiper entry for a DECOY transaction; the forged
	// "signed for another item" entries below replay exactly those signatures on the real item
	decoy, err := transaction.New("decoy", spice.New(0, 0), []byte("decoy"), users[1].Address(), users[2])
	if err != nil {
		panic(err)
	}
	decoyEntry := make([]*protobufcompiled.Gossiper, nn)
	for i, x := range nw.nodes {
		d, sg := x.w.Sign(gossip.VerifGossiperMessage(x.w.Address(), decoy.Hash))
		decoyEntry[i] = &protobufcompiled.Gossiper{Address: x.w.Address(), Digest: d[:], Signature: sg}
	}
	if kind != "poison" {
		pd, _ := transformers.TrxToProtoTrx(decoy)
		for i, x := range nw.nodes {
			var gl []*protobufcompiled.Gossiper
			for j := range nw.nodes {
				if j != i {
					gl = append(gl, decoyEntry[j])
				}
			}
			func() {
				defer func() { recover() }()
				serve(func(ctx context.Context) {
					x.g.Server().GossipTrx(ctx, &protobufcompiled.TrxMsgGossip{Trx: proto.Clone(pd).(*protobufcompiled.Transaction), Gossipers: gl})
				})
			}()
		}
		nw.settle(0)
		nw.mu.Lock()
		nw.queue = nil
		nw.sent = 0
		nw.mu.Unlock()
		out.stats["decoy_warmups"] += nn
	}
	origin := rng.Intn(nn)
	if kind == "poison" {
		origin = 0
	}
	if kind == "burst" {
		// more awaiting transactions handed to the origin's gossiper at once than its pipe holds (capacity 16): every one must still reach every node
		on := nw.nodes[origin]
		ctxB, stopB := context.WithCancel(context.Background())
		defer stopB()
		const nBurst = 40
		var hashes [][32]byte
		for i := 0; i < nBurst; i++ {
			t, err := transaction.New(fmt.Sprintf("burst-%d", i), spice.New(1, 0), []byte("data"), users[1].Address(), users[0])
			if err != nil {
				panic(err)
			}
			hashes = append(hashes, t.Hash)
			pt, _ := transformers.TrxToProtoTrx(t)
			on.hip.SaveAwaitedTransaction(&t)
			on.jug.SendTrx(pt)
		}
		time.Sleep(5 * time.Millisecond)
		go on.g.RunTransactionGossip(ctxB) // the gossip loop gets to the pipe only now (it was busy): nothing handed over may be lost
		nw.settle(nBurst * len(adj[origin]))
		n := 0
		quiet := func() bool { // nothing in flight: the queue stays empty for 300 ms (forwards are made by goroutines)
			for k := 0; k < 30; k++ {
				if nw.qlen() > 0 {
					return false
				}
				time.Sleep(10 * time.Millisecond)
			}
			return true
		}
		for n < 6000 && !(nw.qlen() == 0 && quiet()) {
			if nw.qlen() == 0 {
				continue
			}
			nw.mu.Lock()
			i := rng.Intn(len(nw.queue))
			m := nw.queue[i]
			nw.queue = append(nw.queue[:i], nw.queue[i+1:]...)
			nw.mu.Unlock()
			before := nw.qlen()
			func() {
				defer func() { recover() }()
				serve(func(ctx context.Context) {
					nw.nodes[m.dst].g.Server().GossipTrx(ctx, proto.Clone(m.trx).(*protobufcompiled.TrxMsgGossip))
				})
			}()
			nw.settle(before)
			n++
		}
		for i := range nw.nodes {
			trxs, _ := nw.nodes[i].hip.ReadTransactions(users[1].Address())
			got := map[[32]byte]bool{}
			for _, t := range trxs {
				got[t.Hash] = true
			}
			missing := 0
			for _, h := range hashes {
				if !got[h] {
					missing++
				}
			}
			if missing > 0 {
				viol("C11", "burst-items-lost", fmt.Sprintf("node %d never received %d of %d awaiting transactions handed to the origin %d in one burst", i, missing, nBurst, origin))
			}
		}
		out.stats["deliveries"] = n
		out.stats["kind.burst"]++
		out.stats["nodes"] = nn
		out.nontriv = nn >= 3
		return out
	}
	isTrx := kind == "trx"
	var itemHash [32]byte
	var vertex accountant.Vertex
	ctxRun, stopRun := context.WithCancel(context.Background())
	defer stopRun()
	on := nw.nodes[origin]
	var trxItem transaction.Transaction
	if isTrx {
		t, err := transaction.New("contract", spice.New(1, 0), []byte("data"), users[1].Address(), users[0])
		if err != nil {
			panic(err)
		}
		trxItem = t
		itemHash = t.Hash
		pt, _ := transformers.TrxToProtoTrx(t)
		on.hip.SaveAwaitedTransaction(&t) // as notary.Propose does before handing it to the gossiper
		go on.g.RunTransactionGossip(ctxRun)
		on.jug.SendTrx(pt)
	} else {
		t, err := transaction.New("transfer", spice.New(1, 5), nil, users[1].Address(), users[0])
		if err != nil {
			panic(err)
		}
		if kind == "orphan" { // the item's parent exists at the origin only
			tp, err := transaction.New("parent", spice.New(1, 0), nil, users[1].Address(), users[0])
			if err != nil {
				panic(err)
			}
			if _, err := on.ab.CreateLeaf(context.Background(), &tp); err != nil {
				panic(err)
			}
		}
		v, err := on.ab.CreateLeaf(context.Background(), &t)
		if err != nil {
			panic(err)
		}
		vertex, itemHash = v, v.Hash
		go on.g.RunVertexGossip(ctxRun)
		on.jug.SendVrx(&v)
	}
	originDests := 0
	for range adj[origin] {
		originDests++
	}
	nw.settle(originDests)
	has := func(i int) bool {
		if isTrx {
			trxs, _ := nw.nodes[i].hip.ReadTransactions(users[1].Address())
			for _, t := range trxs {
				if t.Hash == itemHash {
					return true
				}
			}
			return false
		}
		_, err := nw.nodes[i].ab.ReadVertex(context.Background(), itemHash)
		return err == nil
	}
	gossipersOf := func(m msg) []*protobufcompiled.Gossiper {
		if m.vrx != nil {
			return m.vrx.Gossipers
		}
		return m.trx.Gossipers
	}
	validEntry := func(g *protobufcompiled.Gossiper) bool {
		if len(g.Digest) != 32 {
			return false
		}
		var d [32]byte
		copy(d[:], g.Digest)
		return ver.Verify(gossip.VerifGossiperMessage(g.Address, itemHash), g.Signature, d, g.Address) == nil
	}
	var steps []string
	delivered := 0
	forged := 0
	processedOrder := []int{origin}
	coqList := func(g []*protobufcompiled.Gossiper) (string, []int) {
		var s []string
		var valid []int
		for _, e := range g {
			i, ok := addrIdx[e.Address]
			if !ok {
				i = 90 + len(s) // an address outside the network
			}
			v := validEntry(e)
			if v {
				valid = append(valid, i)
			}
			s = append(s, fmt.Sprintf("(%d, %v)", i, v))
		}
		return "[" + strings.Join(s, "; ") + "]", valid
	}
	contacted := map[int]bool{origin: true}
	poisoned := -1
	firstMsg := map[int]msg{}
	recordStep := true
	deliver := func(m msg, note string) {
		if _, ok := firstMsg[m.dst]; !ok {
			firstMsg[m.dst] = m
		}
		n := nw.nodes[m.dst]
		before := nw.qlen()
		hadBefore := has(m.dst)
		gl, valid := coqList(gossipersOf(m))
		var err error
		func() {
			defer func() {
				if r := recover(); r != nil {
					err = fmt.Errorf("panic: %v", r)
					viol("C15", "gossip-handler-panics", fmt.Sprint(r))
				}
			}()
			serve(func(ctx context.Context) {
				if m.vrx != nil {
					_, err = n.g.Server().GossipVrx(ctx, proto.Clone(m.vrx).(*protobufcompiled.VrxMsgGossip))
				} else {
					_, err = n.g.Server().GossipTrx(ctx, proto.Clone(m.trx).(*protobufcompiled.TrxMsgGossip))
				}
			})
		}()
		nw.settle(before)
		nw.mu.Lock()
		newMsgs := append([]msg{}, nw.queue[before:]...)
		nw.mu.Unlock()
		admitted := !hadBefore && has(m.dst)
		var dests []int
		for _, x := range newMsgs {
			dests = append(dests, x.dst)
			// C11: never to a node already listed as a verified gossiper
			_, vs := coqList(gossipersOf(x))
			self := false
			for _, vi := range vs {
				if vi == x.dst {
					viol("C11", "forwarded-to-listed-node", fmt.Sprintf("node %d forwarded to node %d which is in the verified gossiper list", m.dst, x.dst))
				}
				if vi == m.dst {
					self = true
				}
			}
			if !self { // the next hop could not know that this node has the item: it would be sent back here
				viol("C11", "forwarder-omits-own-entry", fmt.Sprintf("node %d forwarded to node %d without its own valid gossiper entry", m.dst, x.dst))
			}
		}
		sort.Ints(dests)
		// C12: entries that do not verify for THIS item must be ignored
		invalidNamed := map[int]bool{}
		validNamed := map[int]bool{}
		for _, e := range gossipersOf(m) {
			if i, ok := addrIdx[e.Address]; ok {
				if validEntry(e) {
					validNamed[i] = true
				} else {
					invalidNamed[i] = true
				}
			}
		}
		if len(dests) > 0 {
			sent := map[int]bool{}
			for _, d := range dests {
				sent[d] = true
			}
			for _, p := range adj[m.dst] {
				if !sent[p] && invalidNamed[p] && !validNamed[p] {
					viol("C12", "forged-entry-suppressed-forward", fmt.Sprintf("node %d did not forward to its peer %d, which the incoming list names only in an entry that does not verify for this item (%s)", m.dst, p, note))
				}
			}
		}
		if !contacted[m.dst] && !hadBefore && !admitted && err == nil && invalidNamed[m.dst] && !validNamed[m.dst] && m.dst != poisoned && kind != "orphan" {
			viol("C12", "forged-self-entry-skipped-processing", fmt.Sprintf("node %d answered OK without processing the item: the incoming list names it in an entry that does not verify (%s)", m.dst, note))
		}
		contacted[m.dst] = true
		if len(dests) > 0 {
			n.fwd++
			if n.fwd > 1 {
				viol("C11", "node-forwarded-twice", fmt.Sprintf("node %d forwarded the item in %d separate handler calls", m.dst, n.fwd))
			}
			if !admitted && !isTrx {
				viol("C11", "forwarded-without-admitting", fmt.Sprintf("node %d forwarded to %v although its ledger did not admit the vertex (err %v)", m.dst, dests, err))
			}
		}
		if admitted {
			processedOrder = append(processedOrder, m.dst)
		}
		ds := make([]string, len(dests))
		for i, d := range dests {
			ds[i] = fmt.Sprint(d)
		}
		if recordStep {
			steps = append(steps, fmt.Sprintf("GDeliver %d %s %v [%s]", m.dst, gl, admitted, strings.Join(ds, ";")))
		}
		out.human = append(out.human, fmt.Sprintf("deliver %d->%d gossipers=%s%s -> admitted=%v forwards=%v err=%v", m.src, m.dst, gl, note, admitted, dests, err != nil))
		_ = valid
		delivered++
	}
	pop := func(i int) msg {
		nw.mu.Lock()
		defer nw.mu.Unlock()
		m := nw.queue[i]
		nw.queue = append(nw.queue[:i], nw.queue[i+1:]...)
		return m
	}
	// optional adversary: a corrupted copy with the same hash reaches a node first (flash poisoning)
	if kind == "poison" && !isTrx {
		// node 2 is the Byzantine relay; its victim is node 3, which also has the honest path 0-1-3
		victim := 3
		bad := gossip.VerifMapVertexToProto(&vertex)
		bad.Signature = append([]byte{}, bad.Signature...)
		bad.Signature[0] ^= 0xff
		var err error
		serve(func(ctx context.Context) {
			_, err = nw.nodes[victim].g.Server().GossipVrx(ctx, &protobufcompiled.VrxMsgGossip{Vertex: bad})
		})
		steps = append(steps, fmt.Sprintf("GCorrupt %d", victim))
		out.human = append(out.human, fmt.Sprintf("corrupted copy (same hash, bad seal) handed to node %d -> err=%v", victim, err != nil))
		poisoned = victim
	}
	phase := func() string {
		budget := delivered + 400
		for nw.qlen() > 0 && delivered < budget {
			i := rng.Intn(nw.qlen())
			m := pop(i)
			note := ""
			// forged gossiper entries (C12): unsigned, signed for another item, signed by another key
			if rng.Intn(3) == 0 {
				victim := nw.nodes[rng.Intn(nn)]
				var e *protobufcompiled.Gossiper
				switch rng.Intn(3) {
				case 0:
					e = &protobufcompiled.Gossiper{Address: victim.w.Address(), Digest: make([]byte, 32), Signature: make([]byte, 64)}
					note = " +forged(unsigned)"
				case 1:
					if rng.Intn(2) == 0 { // a signature this node has verified before, on the decoy item
						e = proto.Clone(decoyEntry[victim.idx]).(*protobufcompiled.Gossiper)
						note = " +forged(replayed entry of another item)"
					} else {
						var other [32]byte
						rng.Read(other[:])
						d, s := victim.w.Sign(gossip.VerifGossiperMessage(victim.w.Address(), other))
						e = &protobufcompiled.Gossiper{Address: victim.w.Address(), Digest: d[:], Signature: s}
						note = " +forged(other item)"
					}
				default:
					d, s := users[2].Sign(gossip.VerifGossiperMessage(victim.w.Address(), itemHash))
					e = &protobufcompiled.Gossiper{Address: victim.w.Address(), Digest: d[:], Signature: s}
					note = " +forged(other key)"
				}
				if m.vrx != nil {
					m.vrx.Gossipers = append(m.vrx.Gossipers, e)
				} else {
					m.trx.Gossipers = append(m.trx.Gossipers, e)
				}
				forged++
			}
			deliver(m, note)
			if rng.Intn(5) == 0 { // the network duplicates the message
				deliver(m, note+" (duplicate)")
				out.stats["dup"]++
			}
		}
		// ---- quiescence monitors
		reach := map[int]bool{origin: true}
		stack := []int{origin}
		for len(stack) > 0 {
			u := stack[len(stack)-1]
			stack = stack[:len(stack)-1]
			for _, v := range adj[u] {
				if !reach[v] {
					reach[v] = true
					stack = append(stack, v)
				}
			}
		}
		for i := 0; i < nn; i++ {
			if kind == "orphan" {
				if i != origin && has(i) {
					viol("C11", "admitted-without-parent", fmt.Sprintf("node %d admitted a vertex whose parent it does not hold", i))
				}
				continue
			}
			if reach[i] && !has(i) {
				if i == poisoned {
					viol("C12", "flash-poisoning", fmt.Sprintf("node %d saw a corrupted copy first and then dropped the genuine copies: it never admitted the vertex although it has an honest path to the origin", i))
				} else {
					viol("C11", "node-not-reached", fmt.Sprintf("node %d is reachable from origin %d but never admitted the item", i, origin))
				}
			}
		}
		// a late duplicate: the very message a relay processed first reaches it again after its recent-hash window has passed; the
		// ledger knows the vertex, so nothing may be forwarded a second time (monitor node-forwarded-twice inside deliver)
		if !isTrx && (kind == "vrx" || kind == "trx") && len(out.viol) == 0 {
			for i := 0; i < nn; i++ {
				m, ok := firstMsg[i]
				if !ok || m.vrx == nil || nw.nodes[i].fwd != 1 {
					continue
				}
				nw.nodes[i].flash.mu.Lock()
				nw.nodes[i].flash.expired = true
				nw.nodes[i].flash.mu.Unlock()
				recordStep = false
				deliver(m, " +late-duplicate")
				recordStep = true
				nw.mu.Lock()
				nw.queue = nil // whatever a broken node sent again is not part of the trace
				nw.mu.Unlock()
				out.stats["late_duplicates"]++
				break
			}
		}
		cnt := map[int]int{}
		for _, p := range processedOrder {
			cnt[p]++
			if cnt[p] > 1 {
				viol("C11", "admitted-twice", fmt.Sprintf("node %d admitted the item twice", p))
			}
		}
		out.stats["deliveries"] = delivered
		out.stats["forged_entries"] = forged
		out.stats["nodes"] = nn
		var tab []string
		for i, a := range adj {
			s := make([]string, len(a))
			for k, x := range a {
				s[k] = fmt.Sprint(x)
			}
			tab = append(tab, fmt.Sprintf("(%d, [%s])", i, strings.Join(s, ";")))
		}
		var fin []string
		for i := 0; i < nn; i++ {
			if has(i) {
				fin = append(fin, fmt.Sprint(i))
			}
		}
		var refusing []string
		if kind == "orphan" {
			for i := 0; i < nn; i++ {
				if i != origin {
					refusing = append(refusing, fmt.Sprint(i))
				}
			}
		}
		return fmt.Sprintf("GTrace [%s] %d [%s] [%s] %d%%nat [%s]", strings.Join(tab, ";"), origin, strings.Join(steps, ";\n  "), strings.Join(fin, ";"), nw.qlen(), strings.Join(refusing, ";"))
	}
	out.stats["kind."+kind]++
	out.trace = phase()
	if kind == "trx" && (idx/4)%2 == 0 {
		// the awaited transaction is now sealed in a vertex at the origin (the normal contract flow) and the vertex is gossiped while
		// the transaction's hash is still in every node's duplicate-suppression memory: it is a different item and must reach everybody
		if v, err := on.ab.CreateLeaf(context.Background(), &trxItem); err == nil {
			isTrx, vertex, itemHash = false, v, v.Hash
			for _, n := range nw.nodes {
				n.fwd = 0
			}
			processedOrder, steps = []int{origin}, nil
			for k := range contacted {
				delete(contacted, k)
			}
			contacted[origin] = true
			go on.g.RunVertexGossip(ctxRun)
			on.jug.SendVrx(&v)
			nw.settle(originDests)
			out.trace2 = phase()
			out.stats["trx_then_vertex"]++
		}
	}
	out.nontriv = delivered >= 2 && nn >= 3
	return out
}

func main() {
	tier := flag.String("tier", "quick", "")
	seed := flag.Int64("seed", 1, "")
	summary := flag.String("summary", "", "")
	outp := flag.String("out", "", "")
	flag.Parse()
	if dn, err := os.OpenFile("/dev/null", os.O_WRONLY, 0); err == nil {
		syscall.Dup2(int(dn.Fd()), 2)
	}
	n := 36
	if *tier == "thorough" {
		n = 400
	}
	type res struct {
		scenarioOut
		idx int
	}
	outs := make([]scenarioOut, n)
	var wg sync.WaitGroup
	sem := make(chan struct{}, 8)
	for i := 0; i < n; i++ {
		kind := "vrx"
		if i%4 == 3 {
			kind = "trx"
		}
		if i%9 == 8 {
			kind = "poison"
		}
		if i%9 == 5 {
			kind = "orphan"
		}
		if i%18 == 1 {
			kind = "burst"
		}
		wg.Add(1)
		sem <- struct{}{}
		go func(i int, kind string) {
			defer wg.Done()
			defer func() { <-sem }()
			defer func() {
				if r := recover(); r != nil {
					outs[i] = scenarioOut{viol: []Violation{{"HARNESS", "harness-panic", fmt.Sprint(r)}}, stats: map[string]int{}}
				}
			}()
			outs[i] = runScenario(*seed, i, kind)
		}(i, kind)
	}
	wg.Wait()
	type Summary struct {
		Evaluations int            `json:"evaluations"`
		Nontrivial  int            `json:"distinct_nontrivial"`
		Kinds       map[string]int `json:"kinds"`
		Violations  []Violation    `json:"violations"`
		Samples     [][]string     `json:"samples"`
	}
	sum := Summary{Kinds: map[string]int{}}
	var traces []string
	seen := map[string]bool{}
	for _, o := range outs {
		if o.trace != "" {
			traces = append(traces, o.trace)
		}
		if o.trace2 != "" {
			traces = append(traces, o.trace2)
		}
		sum.Evaluations += o.stats["deliveries"]
		for k, v := range o.stats {
			sum.Kinds[k] += v
		}
		sum.Violations = append(sum.Violations, o.viol...)
		if o.nontriv && !seen[o.trace] {
			seen[o.trace] = true
			sum.Nontrivial++
		}
		if len(sum.Samples) < 2 && len(o.human) > 3 {
			sum.Samples = append(sum.Samples, o.human)
		}
	}
	var b strings.Builder
	b.WriteString("From Coq Require Import List Arith NArith Bool.\nFrom Verif Require Import Gossip CheckGossip.\nImport ListNotations.\nLocal Open Scope N_scope.\n")
	b.WriteString("Definition traces : list gtrace := [\n" + strings.Join(traces, ";\n") + "].\n")
	b.WriteString("Definition bad := Eval vm_compute in gmismatches traces.\nPrint bad.\n")
	os.WriteFile(*outp, []byte(b.String()), 0644)
	js, _ := json.MarshalIndent(sum, "", " ")
	os.WriteFile(*summary, js, 0644)
	fmt.Printf("scenarios=%d deliveries=%d violations=%d\n", n, sum.Evaluations, len(sum.Violations))
}
