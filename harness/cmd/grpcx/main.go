// grpcx: the gossip handlers behind REAL gRPC servers and clients on the loopback interface (three nodes in a line
// A - B - C): does an item that A originates reach C?  Used to decide whether the context the handlers hand to their
// forwarding goroutines (the incoming request's) survives the handler's return under the real transport.
package main

import (
	"context"
	"fmt"
	"net"
	"os"
	"time"

	"github.com/bartossh/Computantis/src/accountant"
	"github.com/bartossh/Computantis/src/cache"
	"github.com/bartossh/Computantis/src/gossip"
	"github.com/bartossh/Computantis/src/pipe"
	"github.com/bartossh/Computantis/src/protobufcompiled"
	"github.com/bartossh/Computantis/src/spice"
	"github.com/bartossh/Computantis/src/transaction"
	"github.com/bartossh/Computantis/src/transformers"
	"github.com/bartossh/Computantis/src/wallet"
	"google.golang.org/grpc"
	"google.golang.org/grpc/credentials/insecure"
)

type nolog struct{}

func (nolog) Debug(string) {}
func (nolog) Info(string)  {}
func (nolog) Warn(string)  {}
func (nolog) Error(s string) {
	if os.Getenv("GRPCX_LOG") != "" {
		fmt.Println("ERR", s)
	}
}
func (nolog) Fatal(string) {}

type node struct {
	w     *wallet.Wallet
	ab    *accountant.AccountingBook
	hip   *cache.Hippocampus
	flash *cache.Flashback
	jug   *pipe.Juggler
	g     *gossip.VerifGossiper
	lis   net.Listener
	srv   *grpc.Server
}

func main() {
	ver := wallet.NewVerifier()
	const nn = 3
	nodes := make([]*node, nn)
	ctx, cancel := context.WithCancel(context.Background())
	defer cancel()
	for i := range nodes {
		w, _ := wallet.New()
		ab, err := accountant.NewAccountingBook(ctx, accountant.Config{Truncate: 1 << 62}, ver, &w, nolog{})
		if err != nil {
			panic(err)
		}
		hip, _ := cache.New(4096, 128)
		fl, _ := cache.NewFlash()
		lis, err := net.Listen("tcp", "127.0.0.1:0")
		if err != nil {
			panic(err)
		}
		nodes[i] = &node{w: &w, ab: ab, hip: hip, flash: fl, jug: pipe.New(64, 64), lis: lis}
	}
	adj := [][]int{{1}, {0, 2}, {1}}
	for i, n := range nodes {
		peers := map[string]protobufcompiled.GossipAPIClient{}
		for _, j := range adj[i] {
			conn, err := grpc.Dial(nodes[j].lis.Addr().String(), grpc.WithTransportCredentials(insecure.NewCredentials()))
			if err != nil {
				panic(err)
			}
			peers[nodes[j].w.Address()] = protobufcompiled.NewGossipAPIClient(conn)
		}
		n.g = gossip.VerifNewGossiper(nolog{}, time.Second, n.w, ver, n.ab, n.hip, n.flash, n.jug, fmt.Sprintf("node%d", i), peers)
		n.srv = grpc.NewServer()
		protobufcompiled.RegisterGossipAPIServer(n.srv, n.g.Server())
		go n.srv.Serve(n.lis)
	}
	users := make([]*wallet.Wallet, 2)
	for i := range users {
		w, _ := wallet.New()
		users[i] = &w
	}
	if _, err := nodes[0].ab.CreateGenesis("Genesis Vertex", spice.New(1000, 0), []byte{}, users[0].Address()); err != nil {
		panic(err)
	}
	for i := 1; i < nn; i++ {
		ch := make(chan *accountant.Vertex, 8)
		c2, cf := context.WithCancel(context.Background())
		for v := range nodes[0].ab.StreamDAG(c2) {
			cp := *v
			ch <- &cp
		}
		cf()
		close(ch)
		_, cc := context.WithCancelCause(context.Background())
		nodes[i].ab.LoadDag(cc, ch)
	}
	go nodes[0].g.RunTransactionGossip(ctx)
	const rounds = 40
	reachedB, reachedC := 0, 0
	for r := 0; r < rounds; r++ {
		t, err := transaction.New(fmt.Sprintf("item-%d", r), spice.New(1, 0), []byte("data"), users[1].Address(), users[0])
		if err != nil {
			panic(err)
		}
		pt, _ := transformers.TrxToProtoTrx(t)
		nodes[0].hip.SaveAwaitedTransaction(&t)
		nodes[0].jug.SendTrx(pt)
		has := func(n *node) bool {
			for k := 0; k < 100; k++ {
				l, _ := n.hip.ReadTransactions(users[1].Address())
				for _, x := range l {
					if x.Hash == t.Hash {
						return true
					}
				}
				time.Sleep(10 * time.Millisecond)
			}
			return false
		}
		if has(nodes[1]) {
			reachedB++
		}
		if has(nodes[2]) {
			reachedC++
		}
	}
	fmt.Printf("rounds=%d reachedB=%d reachedC=%d\n", rounds, reachedB, reachedC)
	for _, n := range nodes {
		n.srv.Stop()
	}
}
