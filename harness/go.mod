module verifharness

go 1.21

require (
	github.com/bartossh/Computantis/src v0.0.0
	github.com/mr-tron/base58 v1.2.0
)

require (
	github.com/cespare/xxhash/v2 v2.2.0 // indirect
	github.com/dgraph-io/badger/v4 v4.2.0 // indirect
	github.com/dgraph-io/ristretto v0.1.1 // indirect
	github.com/dustin/go-humanize v1.0.0 // indirect
	github.com/emirpasic/gods v1.18.1 // indirect
	github.com/gogo/protobuf v1.3.2 // indirect
	github.com/golang/glog v1.1.0 // indirect
	github.com/golang/groupcache v0.0.0-20190702054246-869f871628b6 // indirect
	github.com/golang/protobuf v1.5.3 // indirect
	github.com/golang/snappy v0.0.3 // indirect
	github.com/google/flatbuffers v1.12.1 // indirect
	github.com/google/uuid v1.5.0 // indirect
	github.com/heimdalr/dag v1.3.1 // indirect
	github.com/klauspost/compress v1.17.1 // indirect
	github.com/pkg/errors v0.9.1 // indirect
	github.com/shamaton/msgpack/v2 v2.1.1 // indirect
	github.com/vmihailenco/msgpack v4.0.4+incompatible // indirect
	go.mongodb.org/mongo-driver v1.12.1 // indirect
	go.opencensus.io v0.22.5 // indirect
	golang.org/x/net v0.23.0 // indirect
	golang.org/x/sys v0.18.0 // indirect
	google.golang.org/protobuf v1.33.0 // indirect
)

replace github.com/bartossh/Computantis/src => /repo/src
