module verifharness

go 1.21

require github.com/bartossh/Computantis/src v0.0.0

require (
	github.com/shamaton/msgpack/v2 v2.1.1 // indirect
	github.com/vmihailenco/msgpack v4.0.4+incompatible // indirect
)

replace github.com/bartossh/Computantis/src => /repo/src
