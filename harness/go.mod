module verifharness

go 1.21

require github.com/bartossh/Computantis/src v0.0.0

require (
	github.com/allegro/bigcache v1.2.1
	github.com/dgraph-io/badger/v4 v4.2.0
	github.com/gofiber/fiber/v2 v2.52.5
	github.com/heimdalr/dag v1.3.1
	github.com/mr-tron/base58 v1.2.0
	github.com/nats-io/nats.go v1.30.2
	github.com/prometheus/client_golang v1.17.0
	github.com/pterm/pterm v0.12.69
	github.com/shamaton/msgpack/v2 v2.1.1
	github.com/stretchr/testify v1.8.4
	github.com/urfave/cli/v2 v2.25.4
	github.com/valyala/fasthttp v1.51.0
	github.com/vmihailenco/msgpack v4.0.4+incompatible
	go.mongodb.org/mongo-driver v1.12.1
	golang.org/x/crypto v0.21.0
	golang.org/x/exp v0.0.0-20231006140011-7918f672742d
	google.golang.org/grpc v1.58.3
	google.golang.org/protobuf v1.33.0
	gopkg.in/yaml.v2 v2.4.0
	gotest.tools/v3 v3.5.0
	atomicgo.dev/cursor v0.2.0 // indirect
	atomicgo.dev/keyboard v0.2.9 // indirect
	atomicgo.dev/schedule v0.1.0 // indirect
	github.com/andybalholm/brotli v1.0.5 // indirect
	github.com/beorn7/perks v1.0.1 // indirect
	github.com/cespare/xxhash/v2 v2.2.0 // indirect
	github.com/containerd/console v1.0.3 // indirect
	github.com/cpuguy83/go-md2man/v2 v2.0.3 // indirect
	github.com/davecgh/go-spew v1.1.1 // indirect
	github.com/dgraph-io/ristretto v0.1.1 // indirect
	github.com/dustin/go-humanize v1.0.0 // indirect
	github.com/emirpasic/gods v1.18.1 // indirect
	github.com/gogo/protobuf v1.3.2 // indirect
	github.com/golang/glog v1.1.0 // indirect
	github.com/golang/groupcache v0.0.0-20190702054246-869f871628b6 // indirect
	github.com/golang/protobuf v1.5.3 // indirect
	github.com/golang/snappy v0.0.3 // indirect
	github.com/google/flatbuffers v1.12.1 // indirect
	github.com/google/go-cmp v0.5.9 // indirect
	github.com/google/uuid v1.5.0 // indirect
	github.com/gookit/color v1.5.4 // indirect
	github.com/klauspost/compress v1.17.1 // indirect
	github.com/kr/text v0.2.0 // indirect
	github.com/lithammer/fuzzysearch v1.1.8 // indirect
	github.com/mattn/go-colorable v0.1.13 // indirect
	github.com/mattn/go-isatty v0.0.20 // indirect
	github.com/mattn/go-runewidth v0.0.15 // indirect
	github.com/matttproud/golang_protobuf_extensions v1.0.4 // indirect
	github.com/nats-io/nats-server/v2 v2.9.23 // indirect
	github.com/nats-io/nkeys v0.4.6 // indirect
	github.com/nats-io/nuid v1.0.1 // indirect
	github.com/pkg/errors v0.9.1 // indirect
	github.com/pmezard/go-difflib v1.0.0 // indirect
	github.com/prometheus/client_model v0.5.0 // indirect
	github.com/prometheus/common v0.44.0 // indirect
	github.com/prometheus/procfs v0.12.0 // indirect
	github.com/rivo/uniseg v0.4.4 // indirect
	github.com/russross/blackfriday/v2 v2.1.0 // indirect
	github.com/valyala/bytebufferpool v1.0.0 // indirect
	github.com/valyala/tcplisten v1.0.0 // indirect
	github.com/xo/terminfo v0.0.0-20220910002029-abceb7e1c41e // indirect
	github.com/xrash/smetrics v0.0.0-20201216005158-039620a65673 // indirect
	go.opencensus.io v0.22.5 // indirect
	golang.org/x/net v0.23.0 // indirect
	golang.org/x/sys v0.18.0 // indirect
	golang.org/x/term v0.18.0 // indirect
	golang.org/x/text v0.14.0 // indirect
	google.golang.org/appengine v1.6.8 // indirect
	google.golang.org/genproto/googleapis/rpc v0.0.0-20230711160842-782d3b101e98 // indirect
	gopkg.in/yaml.v3 v3.0.1 // indirect
)

replace github.com/bartossh/Computantis/src => /repo/src
