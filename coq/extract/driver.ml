(* driver.ml — trusted glue: line protocol between the Go harness and the extracted model.
   Each input line:  <op> <u64 args...> | <expected words...>
   Z values travel as unsigned decimal; conversion through Int64 bit patterns. *)
open Model

let rec pos_of_i64 (n : int64) : positive =
  if Int64.equal n 1L then XH
  else let r = pos_of_i64 (Int64.shift_right_logical n 1) in
       if Int64.equal (Int64.logand n 1L) 0L then XO r else XI r
let z_of_string (s : string) : z =
  let n = Int64.of_string ("0u" ^ s) in
  if Int64.equal n 0L then Z0 else Zpos (pos_of_i64 n)
let rec i64_of_pos (p : positive) : int64 = match p with
  | XH -> 1L
  | XO q -> Int64.shift_left (i64_of_pos q) 1
  | XI q -> Int64.logor (Int64.shift_left (i64_of_pos q) 1) 1L
let string_of_z (x : z) : string = match x with
  | Z0 -> "0" | Zpos p -> Printf.sprintf "%Lu" (i64_of_pos p) | Zneg p -> "-" ^ Printf.sprintf "%Lu" (i64_of_pos p)

let err_s = function None -> "ok" | Some Overflow -> "overflow" | Some NoFunds -> "nofunds"
let mel_s m = string_of_z m.cur ^ " " ^ string_of_z m.sup

let eval (op : string) (a : z array) : string =
  match op with
  | "S" -> let (m, e) = supply {cur=a.(0); sup=a.(1)} {cur=a.(2); sup=a.(3)} in
           err_s e ^ " " ^ mel_s m
  | "T" -> let ((f, t), e) = transfer {cur=a.(0); sup=a.(1)} {cur=a.(2); sup=a.(3)} {cur=a.(4); sup=a.(5)} in
           err_s e ^ " " ^ mel_s f ^ " " ^ mel_s t
  | "N" -> mel_s (mnew a.(0) a.(1))
  | _ -> "unknown-op"

(* handler cases:  H <handler> ; f:l f:l ... ; s:p ... ; o:b ... ; <outcome> ; m m ...   (small naturals only) *)
let rec nat_of_int (n : int) : nat = if n <= 0 then O else S (nat_of_int (n - 1))
let pairs_of (s : string) : (nat * nat) list =
  List.filter_map (fun tok ->
    if tok = "" then None else
    match String.split_on_char ':' tok with
    | [a; b] -> Some (nat_of_int (int_of_string a), nat_of_int (int_of_string b))
    | _ -> None) (String.split_on_char ' ' (String.trim s))
let nats_of (s : string) : nat list =
  List.filter_map (fun tok -> if tok = "" then None else Some (nat_of_int (int_of_string tok))) (String.split_on_char ' ' (String.trim s))
let handler_line (line : string) : bool =
  match String.split_on_char ';' line with
  | [h; lens; subs; orcs; out; muts] ->
    let h = nat_of_int (int_of_string (String.trim (String.sub h 1 (String.length h - 1)))) in
    hcase_ok (((((h, pairs_of lens), pairs_of subs), pairs_of orcs), nat_of_int (int_of_string (String.trim out))), nats_of muts)
  | _ -> false

let () =
  let total = ref 0 and bad = ref 0 in
  (try while true do
    let line = input_line stdin in
    if String.length line > 0 && line.[0] = 'H' then begin
      incr total;
      if not (handler_line line) then begin
        incr bad;
        if !bad <= 20 then Printf.printf "MISMATCH %s\n" line
      end
    end else
    match String.index_opt line '|' with
    | None -> ()
    | Some i ->
      let lhs = String.trim (String.sub line 0 i) in
      let rhs = String.trim (String.sub line (i+1) (String.length line - i - 1)) in
      (match String.split_on_char ' ' lhs with
       | op :: args ->
         let a = Array.of_list (List.map z_of_string (List.filter (fun s -> s <> "") args)) in
         let got = eval op a in
         incr total;
         if got <> rhs then begin
           incr bad;
           if !bad <= 20 then Printf.printf "MISMATCH input=[%s] impl=[%s] model=[%s]\n" lhs rhs got
         end
       | [] -> ())
  done with End_of_file -> ());
  Printf.printf "TOTAL %d MISMATCH %d\n" !total !bad
