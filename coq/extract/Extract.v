(* extract/Extract.v — extraction of executable model functions for volume differential runs.
   Only ExtrOcamlBasic's directives (bool, option, unit, list, prod, sumbool -> OCaml natives);
   Z / positive / N stay as extracted inductives. No Extract Constant. *)
From Verif Require Import U64 Spice Handlers.
Require Extraction.
Require Import ExtrOcamlBasic.
Extraction "model.ml" supply transfer mnew canonb hcase_ok.
