(* Run/CheckLedger.v — the ledger model used as a trace acceptor for the correspondence check.
   A trace is the list of operations the harness ran on one real AccountingBook, each with the
   observed result class and (optionally) the observed snapshot projection.  Hints the code
   leaves to Go's map order are searched over (a few candidates). *)
From Verif Require Import U64 Spice RepoConstants Ledger.
From Coq Require Import NArith Sorting.Mergesort Orders.

(* ---------------------------------------------------------------- sorting for canonical projections *)
Module NOrd <: TotalLeBool.
  Definition t := N.
  Definition leb := N.leb.
  Theorem leb_total : forall a b, leb a b = true \/ leb b a = true.
  Proof. intros a b. unfold leb. rewrite !N.leb_le. lia. Qed.
End NOrd.
Module NSort := Sort NOrd.

Definition pair_leb (a b : N * N) : bool :=
  if N.ltb (fst a) (fst b) then true else if N.eqb (fst a) (fst b) then N.leb (snd a) (snd b) else false.
Module PairOrd <: TotalLeBool.
  Definition t := (N * N)%type.
  Definition leb := pair_leb.
  Theorem leb_total : forall a b, leb a b = true \/ leb b a = true.
  Proof.
    intros [a1 a2] [b1 b2]. unfold leb, pair_leb; cbn [fst snd].
    destruct (N.ltb_spec a1 b1), (N.ltb_spec b1 a1), (N.eqb_spec a1 b1), (N.eqb_spec b1 a1);
      rewrite ?N.leb_le; try lia; auto.
  Qed.
End PairOrd.
Module PSort := Sort PairOrd.

Definition fund_leb (a b : N * mel) : bool := N.leb (fst a) (fst b).
Module FundOrd <: TotalLeBool.
  Definition t := (N * mel)%type.
  Definition leb := fund_leb.
  Theorem leb_total : forall a b, leb a b = true \/ leb b a = true.
  Proof. intros a b. unfold leb, fund_leb. rewrite !N.leb_le. lia. Qed.
End FundOrd.
Module FSort := Sort FundOrd.

(* ---------------------------------------------------------------- snapshot projection *)
Record snap := Snap {
  s_dag : list N; s_edges : list (N * N); s_leaves : list N; s_index : list (N * N);
  s_stv : list N; s_funds : list (N * mel); s_trusted : list N; s_genesis : N; s_loaded : bool;
  s_weight : Z; s_throughput : Z; s_parked : list (N * Z)
}.

Definition edges_of (d : list node) : list (N * N) :=
  flat_map (fun n => map (fun p => (p, nhash n)) (lp n)) d.

Definition project (L : ledger) : snap :=
  Snap (NSort.sort (map nhash (dag L)))
       (PSort.sort (edges_of (dag L)))
       (NSort.sort (map nhash (leaves L)))
       (PSort.sort (index L))
       (NSort.sort (map v_hash (st_vtx L)))
       (FSort.sort (st_funds L))
       (NSort.sort (trusted L))
       (genesis L) (loaded L) (weight L) (throughput L)
       (map (fun p => (v_hash (fst p), snd p)) (parked L)).

Fixpoint list_eqb {A} (e : A -> A -> bool) (a b : list A) : bool :=
  match a, b with
  | [], [] => true
  | x :: a', y :: b' => e x y && list_eqb e a' b'
  | _, _ => false
  end.
Definition pair_eqb (a b : N * N) := N.eqb (fst a) (fst b) && N.eqb (snd a) (snd b).
Definition fund_eqb (a b : N * mel) := N.eqb (fst a) (fst b) && mel_eqb (snd a) (snd b).
Definition nz_eqb (a b : N * Z) := N.eqb (fst a) (fst b) && Z.eqb (snd a) (snd b).

(* which component differs first (0 = equal) — printed in mismatch reports *)
Definition snap_diff (a b : snap) : nat :=
  if negb (list_eqb N.eqb (s_dag a) (s_dag b)) then 1 else
  if negb (list_eqb pair_eqb (s_edges a) (s_edges b)) then 2 else
  if negb (list_eqb N.eqb (s_leaves a) (s_leaves b)) then 3 else
  if negb (list_eqb pair_eqb (s_index a) (s_index b)) then 4 else
  if negb (list_eqb N.eqb (s_stv a) (s_stv b)) then 5 else
  if negb (list_eqb fund_eqb (s_funds a) (s_funds b)) then 6 else
  if negb (list_eqb N.eqb (s_trusted a) (s_trusted b)) then 7 else
  if negb (N.eqb (s_genesis a) (s_genesis b)) then 8 else
  if negb (Bool.eqb (s_loaded a) (s_loaded b)) then 9 else
  if negb (Z.eqb (s_weight a) (s_weight b)) then 10 else
  if negb (Z.eqb (s_throughput a) (s_throughput b)) then 11 else
  if negb (list_eqb nz_eqb (s_parked a) (s_parked b)) then 12 else 0.
Definition snap_eqb (a b : snap) : bool := Nat.eqb (snap_diff a b) 0.

(* ---------------------------------------------------------------- operations and observations *)
Inductive op :=
  | OGenesis (recv : N) (amt : mel) (data : bool) (th h : N) (vok : bool)
  | OCreate (t : trx) (newh : N) (vok : bool) (b : budget)
  | OAdd (v : vertex) (b : budget)
  | ORetry (b : budget)
  | OTruncate (cut : N) (addr32 : list N)
  | OBalance (addr : N) (b : budget)
  | OTrust (a : N)
  | OUntrust (a : N)
  | OLoad (stream topo : list vertex)
  | ORead (h : N)
  | OReadTrx (th : N).

Inductive obs :=
  | BRes (r : res)
  | BRetry (r : option res)
  | BBal (m : option mel)
  | BBool (b : bool).

Record step := Step { s_op : op; s_obs : obs; s_snap : option snap }.

(* permutations, capped by the caller through the number of tips *)
Fixpoint insert_all {A} (x : A) (l : list A) : list (list A) :=
  match l with
  | [] => [[x]]
  | y :: r => (x :: l) :: map (cons y) (insert_all x r)
  end.
Fixpoint perms {A} (l : list A) : list (list A) :=
  match l with
  | [] => [[]]
  | x :: r => flat_map (insert_all x) (perms r)
  end.

Definition snap_ok (L : ledger) (s : option snap) : bool :=
  match s with None => true | Some sn => snap_eqb (project L) sn end.

Definition opt_mel_eqb (a b : option mel) : bool :=
  match a, b with Some x, Some y => mel_eqb x y | None, None => true | _, _ => false end.
Definition opt_res_eqb (a b : option res) : bool :=
  match a, b with Some x, Some y => res_eqb x y | None, None => true | _, _ => false end.

Fixpoint first_some {A B} (f : A -> option B) (l : list A) : option B :=
  match l with [] => None | x :: r => match f x with Some y => Some y | None => first_some f r end end.

(* accept one step: Some L' when some hint explains the observation *)
Definition accept (L : ledger) (st : step) : option ledger :=
  let sn := s_snap st in
  match s_op st, s_obs st with
  | OGenesis recv amt data th h vok, BRes r =>
    let '(L', r') := create_genesis L recv amt data th h vok in
    if res_eqb r r' && snap_ok L' sn then Some L' else None
  | OCreate t newh vok b, BRes r =>
    first_some (fun ord =>
      let '(L', r', _) := create_leaf L t ord (map nhash (leaves (fst (fst (fst (valid_leaves L ord [] false b)))))) newh vok b in
      if res_eqb r r' && snap_ok L' sn then Some L' else None) (perms (map nhash (leaves L)))
  | OAdd v b, BRes r =>
    let '(L', r') := add_leaf L v b in
    if res_eqb r r' && snap_ok L' sn then Some L' else None
  | ORetry b, BRetry r =>
    let '(L', r') := retry_one L b in
    if opt_res_eqb r r' && snap_ok L' sn then Some L' else None
  | OTruncate cut a32, BRes r =>
    match r with
    | ROk =>
      match find_node cut (dag L) with
      | None => if Nat.eqb (length (leaves L)) 0 && snap_ok L sn then Some L else None
      | Some c =>
        first_some (fun tip =>
          let '(L', r') := truncate L tip c a32 in
          if res_eqb r r' && snap_ok L' sn then Some L' else None) (leaves L)
      end
    | _ => (* refused: no tip has truncateDiff ancestors; ledger unchanged *)
      if forallb (fun tip => Z.of_nat (length (ancestors L tip)) <? truncateDiff) (leaves L) && snap_ok L sn
      then Some L else None
    end
  | OBalance addr b, BBal m =>
    match leaves L with
    | [] => match m with None => Some L | _ => None end
    | ls => if existsb (fun tip => opt_mel_eqb (balance L addr tip b) m) ls && snap_ok L sn then Some L else None
    end
  | OTrust a, _ => let L' := add_trusted L a in if snap_ok L' sn then Some L' else None
  | OUntrust a, _ => let L' := remove_trusted L a in if snap_ok L' sn then Some L' else None
  | OLoad s topo, BBool ok =>
    let '(L', ok') := load_dag L s topo in
    if Bool.eqb ok ok' && (negb ok || snap_ok L' sn) then Some L' else None
  | ORead h, BBool found =>
    if Bool.eqb found (match read_vertex L h with Some _ => true | None => false end) then Some L else None
  | OReadTrx th, BBool found =>
    if Bool.eqb found (match read_trx L th with Some _ => true | None => false end) then Some L else None
  | _, _ => None
  end.

(* run a trace; result = None if accepted, Some i = index of the first step not accepted *)
Fixpoint run_trace (L : ledger) (i : nat) (l : list step) : option nat :=
  match l with
  | [] => None
  | st :: r => match accept L st with
               | Some L' => run_trace L' (S i) r
               | None => Some i
               end
  end.

Record trace := Trace { tr_self : N; tr_init : option ledger; tr_steps : list step }.
Definition check_trace (t : trace) : option nat :=
  run_trace (match tr_init t with Some L => L | None => init (tr_self t) end) 0 (tr_steps t).

Fixpoint mismatches_from (i : nat) (l : list trace) : list (nat * nat) :=
  match l with
  | [] => []
  | t :: r => match check_trace t with
              | None => mismatches_from (S i) r
              | Some k => (i, k) :: mismatches_from (S i) r
              end
  end.
Definition mismatches (l : list trace) : list (nat * nat) := mismatches_from 0 l.

(* diagnosis helper: the model's projection after replaying the accepted prefix plus the failing op's
   first candidate, to print next to the implementation's snapshot *)
Fixpoint state_after (L : ledger) (l : list step) : ledger :=
  match l with
  | [] => L
  | st :: r => match accept L st with Some L' => state_after L' r | None => L end
  end.
