(* Run/CheckGossip.v — acceptor for virtual-network traces: the harness delivered real messages between
   real gossiper objects; each step names the message by content (destination + gossiper list with
   validity flags) and records what the real node did (admitted?, set of destinations it forwarded to). *)
From Coq Require Import List Arith NArith Bool.
From Verif Require Import Gossip.
Import ListNotations.

Fixpoint gins (x : N) (l : list N) : list N :=
  match l with [] => [x] | y :: r => if N.leb x y then x :: l else y :: gins x r end.
Definition gsort (l : list N) : list N := fold_right gins [] l.
Fixpoint glist_eqb (a b : list N) : bool :=
  match a, b with [], [] => true | x :: a', y :: b' => N.eqb x y && glist_eqb a' b' | _, _ => false end.
Definition set_eqb (a b : list N) : bool := glist_eqb (gsort a) (gsort b).

Inductive gobs :=
  | GDeliver (dst : N) (g : list (N * bool)) (admitted : bool) (dests : list N)
  | GCorrupt (dst : N).

Definition peers_of (tab : list (N * list N)) (n : N) : list N :=
  match find (fun p => N.eqb (fst p) n) tab with Some p => snd p | None => [] end.

Fixpoint find_msg (d : N) (vs : list N) (l : list (N * list (N * bool))) (i : nat) : option nat :=
  match l with
  | [] => None
  | (d', g') :: r => if N.eqb d d' && set_eqb vs (verified g') then Some i else find_msg d vs r (S i)
  end.

(* a delivery either consumes a matching in-flight message, or is a network duplicate of a message that was
   in flight earlier (the model then handles the same content without consuming anything) *)
Definition gaccept (tab : list (N * list N)) (acc : N -> bool) (st : gstate) (o : gobs) : option gstate :=
  match o with
  | GCorrupt n => Some (gstep (peers_of tab) acc st (Corrupt n))
  | GDeliver d g admitted dests =>
    let st0 := match find_msg d (verified g) (inflight st) 0 with
               | Some i => GState (seen st) (processed st) (remove_nth i (inflight st)) (sent st)
               | None => st
               end in
    let '(st', (adm, ds)) := handle (peers_of tab) acc st0 d g in
    if Bool.eqb adm admitted && set_eqb ds dests then Some st' else None
  end.

(* gt_refusing: nodes whose ledger refuses the item (e.g. its parent is unknown there) *)
Record gtrace := GTrace { gt_peers : list (N * list N); gt_origin : N; gt_steps : list gobs;
                          gt_final_processed : list N; gt_final_inflight : nat; gt_refusing : list N }.

Fixpoint grun_obs tab acc (st : gstate) (i : nat) (l : list gobs) : gstate * option nat :=
  match l with
  | [] => (st, None)
  | o :: r => match gaccept tab acc st o with Some st' => grun_obs tab acc st' (S i) r | None => (st, Some i) end
  end.

Definition gcheck (t : gtrace) : option nat :=
  let acc := fun n => negb (existsb (N.eqb n) (gt_refusing t)) in
  let '(st, bad) := grun_obs (gt_peers t) acc (origin_state (peers_of (gt_peers t)) (gt_origin t)) 0 (gt_steps t) in
  match bad with
  | Some i => Some i
  | None => if set_eqb (processed st) (gt_final_processed t) && Nat.eqb (length (inflight st)) (gt_final_inflight t)
            then None else Some 9999
  end.
Definition gmismatches (ts : list gtrace) : list (nat * nat) :=
  flat_map (fun p => match gcheck (snd p) with None => [] | Some k => [(fst p, k)] end) (combine (seq 0 (length ts)) ts).
