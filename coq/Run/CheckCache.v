(* Run/CheckCache.v — trace acceptor for the awaiting-transaction index. *)
From Coq Require Import List Arith NArith Bool.
From Verif Require Import Cache.
Import ListNotations.

Fixpoint ins (x : N) (l : list N) : list N :=
  match l with [] => [x] | y :: r => if N.leb x y then x :: l else y :: ins x r end.
Definition nsort (l : list N) : list N := fold_right ins [] l.
Fixpoint nlist_eqb (a b : list N) : bool :=
  match a, b with [] , [] => true | x :: a', y :: b' => N.eqb x y && nlist_eqb a' b' | _, _ => false end.
Definition cres_eqb (a b : cres) : bool :=
  match a, b with COk, COk | CExists, CExists | CNotFound, CNotFound | CUnauthorized, CUnauthorized => true | _, _ => false end.

Inductive cobs := BSave (t : atrx) (r : cres) | BRemove (h a : N) (r : cres) | BRead (a : N) (listing : list N).

Definition caccept (c : cache) (o : cobs) : option cache :=
  match o with
  | BSave t r => let '(c', r') := save c t in if cres_eqb r r' then Some c' else None
  | BRemove h a r => let '(c', r') := remove c h a in if cres_eqb r r' then Some c' else None
  | BRead a l =>
    let '(c', r') := read c a in
    let got := match r' with Some x => x | None => [] end in
    if nlist_eqb (nsort got) (nsort l) then Some c' else None
  end.
Fixpoint crun (c : cache) (i : nat) (l : list cobs) : option nat :=
  match l with [] => None | o :: r => match caccept c o with Some c' => crun c' (S i) r | None => Some i end end.
Definition cmismatches (ts : list (list cobs)) : list (nat * nat) :=
  flat_map (fun p => match crun (Cache [] []) 0 (snd p) with None => [] | Some k => [(fst p, k)] end)
           (combine (seq 0 (length ts)) ts).
