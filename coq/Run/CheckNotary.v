(* Run/CheckNotary.v — acceptor for notary call sequences run against the real server object. *)
From Coq Require Import List Arith NArith Bool.
From Verif Require Import Notary.
Import ListNotations.

Fixpoint nins (x : N) (l : list N) : list N :=
  match l with [] => [x] | y :: r => if N.leb x y then x :: l else y :: nins x r end.
Definition nsortN (l : list N) : list N := fold_right nins [] l.
Fixpoint nleqb (a b : list N) : bool :=
  match a, b with [], [] => true | x :: a', y :: b' => N.eqb x y && nleqb a' b' | _, _ => false end.
Definition seteq (a b : list N) : bool := nleqb (nsortN a) (nsortN b).

Definition nobs := (nop * nres * list (N * list N) * list N)%type.

Definition nres_ok (a b : nres) : bool :=
  match a, b with
  | NOk, NOk | NErr, NErr => true
  | NList x, NList y => seteq x y
  | NList [], NErr => true   (* an address with nothing awaiting: the cache reports "not found" and the handler turns it into an error *)
  | _, _ => false
  end.

Definition naccept (st : nstate) (o : nobs) : option nstate :=
  match o with
  | (op, res, aw, se) =>
    let '(st', r) := nstep st op in
    if nres_ok r res
       && forallb (fun p => seteq (map n_hash (filter (involved (fst p)) (awaiting st'))) (snd p)) aw
       && seteq (map (fun p => n_hash (fst p)) (sealed st')) se
    then Some st' else None
  end.
Fixpoint nrun_obs (st : nstate) (i : nat) (l : list nobs) : option nat :=
  match l with [] => None | o :: r => match naccept st o with Some st' => nrun_obs st' (S i) r | None => Some i end end.
Definition nmismatches (ts : list (list nobs)) : list (nat * nat) :=
  flat_map (fun p => match nrun_obs ninit 0 (snd p) with None => [] | Some k => [(fst p, k)] end) (combine (seq 0 (length ts)) ts).
