(* Run/CheckCodec.v — acceptors for the msgpack correspondence: the harness writes each generated vertex as model
   fields (byte strings in hex) next to the bytes the real encoders produced; the model must produce the same bytes
   and decode them back to the same value. *)
From Coq Require Import List Arith NArith ZArith Bool String Ascii.
From Verif Require Import WalletFile Msg Codec Msgpack ProtoWire.
Import ListNotations.

Definition hexv (a : ascii) : N := let n := N_of_ascii a in if (n <? 58)%N then (n - 48)%N else (n - 87)%N.
Fixpoint hex_bytes (s : string) : bytes :=
  match s with
  | String a (String b r) => (16 * hexv a + hexv b)%N :: hex_bytes r
  | _ => []
  end.
(* byte strings are given in segments: literal hex, or a generated run (the harness fills large fields with a
   pattern that is recomputed here, so that no 64 kB literal has to be parsed) *)
Inductive seg := L (s : string) | G (n seed mode : N).
Fixpoint genb (n : nat) (i seed mode : N) : bytes :=
  match n with
  | O => []
  | S k => (if (mode =? 0)%N then (seed + i * 131 + (i / 256) * 7) mod 256 else 97 + (seed + i * 7 + i / 256) mod 26)%N :: genb k (N.succ i) seed mode
  end.
Definition seg_bytes (g : seg) : bytes := match g with L s => hex_bytes s | G n seed mode => genb (N.to_nat n) 0 seed mode end.
Definition sb (l : list seg) : bytes := flat_map seg_bytes l.
Definition osb (o : option (list seg)) : option bytes := option_map sb o.
Definition SomeS (l : list seg) : option (list seg) := Some l.

Definition HV (signer : list seg) (vsec vnsec : Z) (sig : option (list seg)) (tsec tnsec : Z) (iss recv subj : list seg)
  (data isig rsig : option (list seg)) (thash : list seg) (cur sup : Z) (hash left right : list seg) (weight : Z) : mvtx :=
  MVtx (sb signer) (vsec, vnsec) (osb sig)
       (MTrx (tsec, tnsec) (sb iss) (sb recv) (sb subj) (osb data) (osb isig) (osb rsig) (sb thash) (MMel cur sup))
       (sb hash) (sb left) (sb right) weight.

Definition obytes_eqb (a b : option bytes) : bool :=
  match a, b with Some x, Some y => bytes_eqb x y | None, None => true | _, _ => false end.
Definition time_eqb (a b : Z * Z) : bool := Z.eqb (fst a) (fst b) && Z.eqb (snd a) (snd b).
Definition mtrx_eqb (a b : mtrx) : bool :=
  time_eqb (mt_created a) (mt_created b) && bytes_eqb (mt_issuer a) (mt_issuer b) && bytes_eqb (mt_receiver a) (mt_receiver b) &&
  bytes_eqb (mt_subject a) (mt_subject b) && obytes_eqb (mt_data a) (mt_data b) && obytes_eqb (mt_isig a) (mt_isig b) &&
  obytes_eqb (mt_rsig a) (mt_rsig b) && bytes_eqb (mt_hash a) (mt_hash b) &&
  Z.eqb (mm_cur (mt_spice a)) (mm_cur (mt_spice b)) && Z.eqb (mm_sup (mt_spice a)) (mm_sup (mt_spice b)).
Definition mvtx_eqb (a b : mvtx) : bool :=
  bytes_eqb (mv_signer a) (mv_signer b) && time_eqb (mv_created a) (mv_created b) && obytes_eqb (mv_sig a) (mv_sig b) &&
  mtrx_eqb (mv_trx a) (mv_trx b) && bytes_eqb (mv_hash a) (mv_hash b) && bytes_eqb (mv_left a) (mv_left b) &&
  bytes_eqb (mv_right a) (mv_right b) && Z.eqb (mv_weight a) (mv_weight b).

(* the protobuf wire form: the model encoder against proto.Marshal byte for byte; the model decoder against the value on the real
   bytes, on the same records in reverse order followed by an unknown field, and - verdict only - on every proper prefix *)
Definition opt_eqb {A} (e : A -> A -> bool) (a b : option A) : bool :=
  match a, b with Some x, Some y => e x y | None, None => true | _, _ => false end.
Definition pspice_eqb (a b : pspice) : bool := N.eqb (ps_cur a) (ps_cur b) && N.eqb (ps_sup a) (ps_sup b).
Definition ptrx_eqb (a b : ptrx) : bool :=
  bytes_eqb (pt_subject a) (pt_subject b) && bytes_eqb (pt_data a) (pt_data b) && bytes_eqb (pt_hash a) (pt_hash b) &&
  N.eqb (pt_created a) (pt_created b) && bytes_eqb (pt_receiver a) (pt_receiver b) && bytes_eqb (pt_issuer a) (pt_issuer b) &&
  bytes_eqb (pt_rsig a) (pt_rsig b) && bytes_eqb (pt_isig a) (pt_isig b) && opt_eqb pspice_eqb (pt_spice a) (pt_spice b).
Definition pvtx_eqb (a b : pvtx) : bool :=
  bytes_eqb (pv_signer a) (pv_signer b) && N.eqb (pv_created a) (pv_created b) && bytes_eqb (pv_sig a) (pv_sig b) &&
  opt_eqb ptrx_eqb (pv_trx a) (pv_trx b) && bytes_eqb (pv_hash a) (pv_hash b) && bytes_eqb (pv_left a) (pv_left b) &&
  bytes_eqb (pv_right a) (pv_right b) && N.eqb (pv_weight a) (pv_weight b).
Fixpoint mask_ok (raw : bytes) (i : nat) (m : string) : bool :=
  match m with
  | EmptyString => true
  | String c r =>
    Bool.eqb (match dec_pvtx (firstn i raw) with Some _ => true | None => false end) (Ascii.eqb c "1"%char) && mask_ok raw (S i) r
  end.
Definition reads_as (p : pvtx) (b : bytes) : bool := match dec_pvtx b with Some q => pvtx_eqb q p | None => false end.
(* edits of the real bytes with what proto.Unmarshal made of them: refused, or (length, FNV-1a 64) of the canonical bytes of the message read *)
Inductive expect := NOEX | EX (len digest : N).
Inductive mutant := MU (pos del : N) (ins : string) (ex : expect).
Definition fnv1a (b : bytes) : N :=
  fold_left (fun h x => (N.lxor h x * 1099511628211) mod 18446744073709551616)%N b 14695981039346656037%N.
Definition mut_ok (raw : bytes) (m : mutant) : bool :=
  let '(MU pos del ins ex) := m in
  let b := firstn (N.to_nat pos) raw ++ hex_bytes ins ++ skipn (N.to_nat (pos + del)) raw in
  match dec_pvtx b, ex with
  | None, NOEX => true
  | Some p, EX l h => let e := enc_pvtx p in N.eqb (nlen e) l && N.eqb (fnv1a e) h
  | _, _ => false
  end.
(* the gossip envelopes (VrxMsgGossip / TrxMsgGossip) around the vertex / its transaction with a gossiper list *)
Inductive gwrap := GW (gs : list pgos) (vmsg tmsg : list seg).
Definition GS (a d s : list seg) : pgos := PGos (sb a) (sb d) (sb s).
Definition pgos_eqb (a b : pgos) : bool :=
  bytes_eqb (pg_address a) (pg_address b) && bytes_eqb (pg_digest a) (pg_digest b) && bytes_eqb (pg_sig a) (pg_sig b).
Fixpoint list_eqb {A} (e : A -> A -> bool) (a b : list A) : bool :=
  match a, b with [], [] => true | x :: a', y :: b' => e x y && list_eqb e a' b' | _, _ => false end.
Definition wrap_ok (p : pvtx) (w : gwrap) : bool :=
  let '(GW gs vm tm) := w in
  bytes_eqb (enc_pvmsg (PVMsg (Some p) gs)) (sb vm) &&
  match dec_pvmsg (sb vm) with Some m => opt_eqb pvtx_eqb (pm_vertex m) (Some p) && list_eqb pgos_eqb (pm_gossipers m) gs | None => false end &&
  bytes_eqb (enc_ptmsg (PTMsg (pv_trx p) gs)) (sb tm) &&
  match dec_ptmsg (sb tm) with Some m => opt_eqb ptrx_eqb (pq_trx m) (pv_trx p) && list_eqb pgos_eqb (pq_gossipers m) gs | None => false end.
(* the model marshals exactly when the library does: a vertex with a non-UTF-8 string has no wire form (pb = None) *)
Definition pcase_ok (v : mvtx) (pb : option (list seg * list seg * string * list mutant * list gwrap)) : bool :=
  match pb with
  | None => true
  | Some (raw, alt, mask, muts, wraps) =>
    let r := sb raw in let p := to_pvtx v in
    match marshal_pvtx p with Some e => bytes_eqb e r | None => false end &&
    reads_as p r && reads_as p (sb alt) && mask_ok r 0 mask && forallb (mut_ok r) muts && forallb (wrap_ok p) wraps
  end.
Definition refused_ok (v : mvtx) : bool := match marshal_pvtx (to_pvtx v) with None => true | Some _ => false end.

Definition mpcase : Type := mvtx * list seg * list seg * option (list seg * list seg * string * list mutant * list gwrap).
(* a case: the vertex, the bytes of Vertex.encode, the bytes of Transaction.Encode, and the protobuf part *)
Definition vcase_ok (c : mpcase) : bool :=
  let '(v, vb, tb, pb) := c in
  let rv := sb vb in let rt := sb tb in
  bytes_eqb (enc_vtx v) rv && bytes_eqb (enc_trx (mv_trx v)) rt &&
  match dec_vtx rv with Some (w, []) => mvtx_eqb w v | _ => false end &&
  match dec_trx rt with Some (w, []) => mtrx_eqb w (mv_trx v) | _ => false end &&
  pcase_ok v pb.
Definition bad_msgpack (base : nat) (cases : list mpcase) : list nat :=
  map fst (filter (fun p => negb (vcase_ok (snd p))) (combine (seq base (List.length cases)) cases)).
(* constructors with typed arguments, so that the generated file needs no scope delimiters *)
Definition MC (v : mvtx) (vb tb : list seg) : mpcase := (v, vb, tb, None).
Definition MCP (v : mvtx) (vb tb raw alt : list seg) (mask : string) (muts : list mutant) (wraps : list gwrap) : mpcase :=
  (v, vb, tb, Some (raw, alt, mask, muts, wraps)).
(* vertices proto.Marshal refused (invalid UTF-8 in a string field): the model must refuse them too *)
Definition bad_refused (base : nat) (cases : list mvtx) : list nat :=
  map fst (filter (fun p => negb (refused_ok (snd p))) (combine (seq base (List.length cases)) cases)).

