(* Proofs/WalletFileP.v — C20 under explicit AEAD / codec hypotheses. *)
From Coq Require Import List Arith NArith ZArith Lia Bool.
From Verif Require Import RepoConstants WalletFile.
Import ListNotations.
Local Open Scope nat_scope.

Section P.
  Variable wallet : Type.
  Variable seal : bytes -> bytes -> bytes -> bytes.
  Variable open : bytes -> bytes -> bytes -> option bytes.
  Variable gob_enc : wallet -> bytes.
  Variable gob_dec : bytes -> option wallet.

  (* H-aead *)
  Hypothesis open_seal : forall k n p, open k n (seal k n p) = Some p.
  (* authenticity: under key k and nonce n only what the holder of k sealed with n opens; the only thing
     ever sealed under (k, n) is the wallet file's plaintext p0 *)
  Variable k0 n0 p0 : bytes.
  Hypothesis unforgeable : forall n c p, open k0 n c = Some p -> n = n0 /\ c = seal k0 n0 p0.
  Hypothesis wrong_key : forall k n p, k <> k0 -> open k n (seal k0 n0 p0) = Some p -> False.
  (* H-gob *)
  Hypothesis gob_rt : forall w, gob_dec (gob_enc w) = Some w.

  Hypothesis n0_len : length n0 = nonce_len.

  Notation decrypt := (decrypt open).
  Notation read_wallet := (read_wallet wallet open gob_dec).

  Lemma firstn_app_exact {A} (a b : list A) : firstn (length a) (a ++ b) = a.
  Proof. induction a; cbn; [destruct b; reflexivity|f_equal; assumption]. Qed.
  Lemma skipn_app_exact {A} (a b : list A) : skipn (length a) (a ++ b) = b.
  Proof. induction a; cbn; [reflexivity|assumption]. Qed.

  Theorem roundtrip w : key_ok k0 = true -> p0 = gob_enc w ->
    exists f, save_wallet wallet seal gob_enc k0 n0 w = Ok f /\ read_wallet k0 f = Ok w.
  Proof.
    intros Hk Hp. unfold save_wallet, encrypt. rewrite Hk. cbn [negb]. eexists. split; [reflexivity|].
    unfold WalletFile.read_wallet, WalletFile.decrypt. rewrite Hk. cbn [negb].
    assert (Hl : Nat.ltb (length (n0 ++ seal k0 n0 (gob_enc w))) nonce_len = false).
    { apply Nat.ltb_ge. rewrite app_length, n0_len. lia. }
    rewrite Hl. rewrite <- n0_len at 1 2. rewrite firstn_app_exact, skipn_app_exact, open_seal, gob_rt. reflexivity.
  Qed.

  (* never a crash, whatever the key and the file *)
  Theorem never_panics k f : read_wallet k f <> Panic.
  Proof.
    unfold WalletFile.read_wallet, WalletFile.decrypt. destruct (negb (key_ok k)); [discriminate|].
    destruct (Nat.ltb _ _); [discriminate|]. destruct (open _ _ _); [|discriminate]. destruct (gob_dec _); discriminate.
  Qed.

  (* a different key yields an error *)
  Theorem wrong_key_error k : k <> k0 -> read_wallet k (n0 ++ seal k0 n0 p0) = Err.
  Proof.
    intros Hk. unfold WalletFile.read_wallet, WalletFile.decrypt. destruct (negb (key_ok k)); [reflexivity|].
    destruct (Nat.ltb _ _); [reflexivity|]. rewrite <- n0_len at 1 2. rewrite firstn_app_exact, skipn_app_exact.
    destruct (open k n0 (seal k0 n0 p0)) eqn:E; [|reflexivity]. exfalso. eapply wrong_key; eauto.
  Qed.

  (* any file other than the saved one — truncated to any length, or altered in any byte — is an error,
     never a different wallet *)
  Theorem altered_file_error f : f <> n0 ++ seal k0 n0 p0 -> read_wallet k0 f = Err.
  Proof.
    intros Hf. unfold WalletFile.read_wallet, WalletFile.decrypt. destruct (negb (key_ok k0)); [reflexivity|].
    destruct (Nat.ltb (length f) nonce_len) eqn:El; [reflexivity|].
    destruct (open k0 (firstn nonce_len f) (skipn nonce_len f)) eqn:E; [|reflexivity]. exfalso.
    destruct (unforgeable _ _ _ E) as [En Ec]. apply Hf. rewrite <- (firstn_skipn nonce_len f), En, Ec. reflexivity.
  Qed.

  Corollary truncation_error m : m < length (n0 ++ seal k0 n0 p0) -> read_wallet k0 (firstn m (n0 ++ seal k0 n0 p0)) = Err.
  Proof.
    intros Hm. apply altered_file_error. intros E. apply (f_equal (@length N)) in E. rewrite firstn_length in E. lia.
  Qed.
End P.

(* the decision list agrees with the model on the outcome class *)
Lemma read_class_spec (wallet : Type) open gob_dec (k f : bytes) :
  match read_wallet wallet open gob_dec k f with
  | Ok _ => read_class (length k) (length f)
              (match open k (firstn nonce_len f) (skipn nonce_len f) with Some _ => true | None => false end)
              (match open k (firstn nonce_len f) (skipn nonce_len f) with Some p => match gob_dec p with Some _ => true | None => false end | None => false end) = CWallet
  | Err => True
  | Panic => False
  end.
Proof.
  unfold read_wallet, decrypt, read_class, key_ok. destruct (negb _); [exact I|].
  destruct (Nat.ltb _ _); [exact I|]. destruct (open _ _ _); [|exact I]. destruct (gob_dec _); [reflexivity|exact I].
Qed.
