(* Proofs/ListFacts.v — list / association-list facts used by the ledger proofs. *)
From Verif Require Import U64 Spice Ledger.
From Coq Require Import NArith Permutation.

Lemma nmem_In x l : nmem x l = true <-> In x l.
Proof.
  unfold nmem. rewrite existsb_exists. split.
  - intros [y [Hy He]]. apply N.eqb_eq in He. subst. exact Hy.
  - intros H. exists x. split; [exact H|apply N.eqb_refl].
Qed.
Lemma nmem_false x l : nmem x l = false <-> ~ In x l.
Proof. rewrite <- nmem_In. destruct (nmem x l); split; congruence. Qed.

Lemma nremove_In x y l : In y (nremove x l) <-> In y l /\ y <> x.
Proof.
  unfold nremove. rewrite filter_In. split; intros [H1 H2]; split; auto.
  - apply negb_true_iff in H2. apply N.eqb_neq in H2. congruence.
  - apply negb_true_iff. apply N.eqb_neq. congruence.
Qed.

(* ---- assoc *)
Lemma assoc_del_eq {A} k (l : list (N * A)) : assoc k (assoc_del k l) = None.
Proof.
  induction l as [|[k' a] l IH]; cbn; [reflexivity|].
  destruct (N.eqb_spec k k') as [E|E]; cbn; [exact IH|].
  destruct (N.eqb_spec k k'); [contradiction|exact IH].
Qed.
Lemma assoc_del_neq {A} k k' (l : list (N * A)) : k <> k' -> assoc k (assoc_del k' l) = assoc k l.
Proof.
  intros Hn. induction l as [|[k2 a] l IH]; cbn; [reflexivity|].
  destruct (N.eqb_spec k' k2) as [E|E]; cbn.
  - subst. destruct (N.eqb_spec k k2); [contradiction|exact IH].
  - destruct (N.eqb_spec k k2); [reflexivity|exact IH].
Qed.
Lemma assoc_In {A} k (a : A) l : assoc k l = Some a -> In (k, a) l.
Proof.
  induction l as [|[k' a'] l IH]; cbn; [discriminate|].
  destruct (N.eqb_spec k k'); intros H.
  - inversion H; subst. left; reflexivity.
  - right; auto.
Qed.
Lemma assoc_None_notin {A} k (l : list (N * A)) : assoc k l = None -> ~ In k (map fst l).
Proof.
  induction l as [|[k' a'] l IH]; cbn; [tauto|].
  destruct (N.eqb_spec k k'); [discriminate|]. intros H [E|Hin]; [congruence|]. exact (IH H Hin).
Qed.

(* ---- find *)
Lemma find_node_some h d n : find_node h d = Some n -> In n d /\ nhash n = h.
Proof.
  unfold find_node. intros H. apply find_some in H. destruct H as [H1 H2]. apply N.eqb_eq in H2. auto.
Qed.
Lemma find_node_none h d : find_node h d = None -> ~ In h (map nhash d).
Proof.
  unfold find_node. intros H Hin. apply in_map_iff in Hin. destruct Hin as [n [E Hn]].
  pose proof (find_none _ _ H n Hn) as F. cbn in F. rewrite E, N.eqb_refl in F. discriminate.
Qed.
Lemma find_node_in h d : In h (map nhash d) -> exists n, find_node h d = Some n.
Proof.
  intros Hin. destruct (find_node h d) eqn:E; [eauto|]. exfalso. exact (find_node_none _ _ E Hin).
Qed.
Lemma find_vtx_some h l v : find_vtx h l = Some v -> In v l /\ v_hash v = h.
Proof.
  unfold find_vtx. intros H. apply find_some in H. destruct H as [H1 H2]. apply N.eqb_eq in H2. auto.
Qed.
Lemma find_vtx_none h l : find_vtx h l = None -> ~ In h (map v_hash l).
Proof.
  unfold find_vtx. intros H Hin. apply in_map_iff in Hin. destruct Hin as [n [E Hn]].
  pose proof (find_none _ _ H n Hn) as F. cbn in F. rewrite E, N.eqb_refl in F. discriminate.
Qed.

Lemma live_iff L h : live L h = true <-> In h (map nhash (dag L)).
Proof.
  unfold live. destruct (find_node h (dag L)) eqn:E; split; intros H; try reflexivity; try discriminate.
  - apply find_node_some in E. destruct E as [Hi He]. subst. apply in_map. exact Hi.
  - exfalso. exact (find_node_none _ _ E H).
Qed.
Lemma live_false L h : live L h = false <-> ~ In h (map nhash (dag L)).
Proof. rewrite <- live_iff. destruct (live L h); split; congruence. Qed.
Lemma stored_iff L h : stored L h = true <-> In h (map v_hash (st_vtx L)).
Proof.
  unfold stored. destruct (find_vtx h (st_vtx L)) eqn:E; split; intros H; try reflexivity; try discriminate.
  - apply find_vtx_some in E. destruct E as [Hi He]. subst. apply in_map. exact Hi.
  - exfalso. exact (find_vtx_none _ _ E H).
Qed.
Lemma stored_false L h : stored L h = false <-> ~ In h (map v_hash (st_vtx L)).
Proof. rewrite <- stored_iff. destruct (stored L h); split; congruence. Qed.
Lemma has_trx_false L th : has_trx L th = false <-> assoc th (index L) = None.
Proof. unfold has_trx. destruct (assoc th (index L)); split; congruence. Qed.
Lemma has_child_false L h : has_child L h = false <-> forall n, In n (dag L) -> ~ In h (lp n).
Proof.
  unfold has_child. split.
  - intros H n Hn Hin.
    assert (existsb (fun n0 => nmem h (lp n0)) (dag L) = true) as C.
    { apply existsb_exists. exists n. split; [exact Hn|apply nmem_In; exact Hin]. }
    congruence.
  - intros H. destruct (existsb _ _) eqn:E; [|reflexivity]. apply existsb_exists in E.
    destruct E as [n [Hn Hm]]. apply nmem_In in Hm. exfalso. exact (H n Hn Hm).
Qed.

(* ---- NoDup under map *)
Lemma NoDup_map_inj {A B} (f : A -> B) l a b :
  NoDup (map f l) -> In a l -> In b l -> f a = f b -> a = b.
Proof.
  induction l as [|x l IH]; cbn; [tauto|]. intros Hnd Ha Hb E. inversion Hnd as [|? ? Hnx Hnd']; subst.
  destruct Ha as [Ha|Ha], Hb as [Hb|Hb]; subst; auto.
  - exfalso. apply Hnx. rewrite E. apply in_map. exact Hb.
  - exfalso. apply Hnx. rewrite <- E. apply in_map. exact Ha.
Qed.
Lemma NoDup_map_app_disj {A B} (f : A -> B) l1 l2 a b :
  NoDup (map f (l1 ++ l2)) -> In a l1 -> In b l2 -> f a <> f b.
Proof.
  rewrite map_app. intros Hnd Ha Hb E.
  induction l1 as [|x l1 IH]; cbn in *; [tauto|]. inversion Hnd as [|? ? Hnx Hnd']; subst.
  destruct Ha as [Ha|Ha]; subst.
  - apply Hnx. apply in_or_app. right. rewrite E. apply in_map. exact Hb.
  - exact (IH Hnd' Ha).
Qed.
Lemma NoDup_map_filter {A B} (f : A -> B) p l : NoDup (map f l) -> NoDup (map f (filter p l)).
Proof.
  induction l as [|x l IH]; cbn; [auto|]. intros H. inversion H as [|? ? Hnx Hnd]; subst.
  destruct (p x); cbn; [constructor|]; auto.
  intros Hin. apply Hnx. apply in_map_iff in Hin. destruct Hin as [y [E Hy]]. apply filter_In in Hy.
  rewrite <- E. apply in_map. tauto.
Qed.
Lemma NoDup_map_app_filter {A B} (f : A -> B) p l1 l2 :
  NoDup (map f (l1 ++ l2)) -> NoDup (map f (filter p l1 ++ l2)).
Proof.
  intros H. induction l1 as [|x l1 IH]; cbn in *; [exact H|].
  inversion H as [|? ? Hnx Hnd]; subst. destruct (p x); cbn; [constructor|]; auto.
  intros Hin. apply Hnx. rewrite map_app in *. apply in_app_or in Hin. apply in_or_app.
  destruct Hin as [Hin|Hin]; [left|right; exact Hin].
  apply in_map_iff in Hin. destruct Hin as [y [E Hy]]. apply filter_In in Hy. rewrite <- E. apply in_map. tauto.
Qed.

Lemma NoDup_app_filter_l {A B C} (f : A -> C) (g : B -> C) p l1 l2 :
  NoDup (map f l1 ++ map g l2) -> NoDup (map f (filter p l1) ++ map g l2).
Proof.
  induction l1 as [|x l1 IH]; cbn; [auto|]. intros H. inversion H as [|? ? Hnx Hnd]; subst.
  destruct (p x); cbn; [constructor|]; auto.
  intros Hin. apply Hnx. apply in_app_or in Hin. apply in_or_app. destruct Hin as [Hin|Hin]; [left|right; exact Hin].
  apply in_map_iff in Hin. destruct Hin as [y [E Hy]]. apply filter_In in Hy. rewrite <- E. apply in_map. tauto.
Qed.

Lemma NoDup_app_l {A} (l1 l2 : list A) : NoDup (l1 ++ l2) -> NoDup l1.
Proof.
  induction l1 as [|x l1 IH]; cbn; [constructor|]. intros H. inversion H as [|? ? Hnx Hnd]; subst.
  constructor; [|auto]. intros Hin. apply Hnx. apply in_or_app. left. exact Hin.
Qed.
Lemma NoDup_app_r {A} (l1 l2 : list A) : NoDup (l1 ++ l2) -> NoDup l2.
Proof. induction l1 as [|x l1 IH]; cbn; [auto|]. intros H. inversion H; auto. Qed.

(* ---- del_node *)
Lemma del_node_nv h d : map nv (del_node h d) = map nv (filter (fun n => negb (N.eqb (nhash n) h)) d).
Proof. unfold del_node. rewrite map_map. reflexivity. Qed.
Lemma del_node_In h d n' :
  In n' (del_node h d) <-> exists n, In n d /\ nhash n <> h /\ n' = Node (nv n) (nremove h (lp n)).
Proof.
  unfold del_node. rewrite in_map_iff. split.
  - intros [n [E Hn]]. apply filter_In in Hn. destruct Hn as [Hn Hh]. apply negb_true_iff, N.eqb_neq in Hh.
    exists n. auto.
  - intros [n [Hn [Hh E]]]. exists n. split; [auto|]. apply filter_In. split; [exact Hn|].
    apply negb_true_iff, N.eqb_neq. exact Hh.
Qed.
Lemma del_node_hashes h d x : In x (map nhash (del_node h d)) <-> In x (map nhash d) /\ x <> h.
Proof.
  rewrite !in_map_iff. split.
  - intros [n' [E Hn']]. apply del_node_In in Hn'. destruct Hn' as [n [Hn [Hh En]]]. subst n'.
    unfold nhash in *. cbn in E. subst x. split; [exists n; auto|exact Hh].
  - intros [[n [E Hn]] Hx]. exists (Node (nv n) (nremove h (lp n))). split; [exact E|].
    apply del_node_In. exists n. subst x. auto.
Qed.
