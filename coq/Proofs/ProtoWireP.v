(* Proofs/ProtoWireP.v — the protobuf wire form of Spice, Transaction and Vertex decodes back to the same message,
   for all field contents. *)
From Coq Require Import List Arith NArith ZArith Lia Bool ZifyN ZifyNat ZifyBool.
From Verif Require Import WalletFile Msg Codec Msgpack.
From Verif Require Import ProtoWire.
Import ListNotations.
Local Open Scope N_scope.

Ltac Zify.zify_post_hook ::= Z.div_mod_to_equations.

(* ---------------------------------------------------------------- varints *)
Lemma varint_f_roundtrip fuel : forall n rest, n < 128 ^ N.of_nat (S fuel) ->
  dec_varint_f (S fuel) (enc_varint_f (S fuel) n ++ rest) = Some (n, rest).
Proof.
  induction fuel as [|f IH]; intros n rest Hn.
  - change (128 ^ N.of_nat 1) with 128 in Hn. cbn [enc_varint_f dec_varint_f].
    destruct (N.ltb_spec n 128) as [L|L]; [|lia]. cbn [app]. destruct (N.ltb_spec n 128) as [L2|L2]; [reflexivity|lia].
  - remember (S f) as g eqn:G. cbn [enc_varint_f dec_varint_f].
    destruct (N.ltb_spec n 128) as [L|L].
    + cbn [app]. destruct (N.ltb_spec n 128) as [L2|L2]; [reflexivity|lia].
    + cbn [app]. destruct (N.ltb_spec (n mod 128 + 128) 128) as [L2|L2]; [lia|].
      subst g. rewrite IH.
      * f_equal. f_equal. lia.
      * rewrite Nat2N.inj_succ, N.pow_succ_r' in Hn. lia.
Qed.

Lemma varint_roundtrip n rest : n < N64 -> dec_varint (enc_varint n ++ rest) = Some (n, rest).
Proof.
  intros Hn. unfold dec_varint, enc_varint. rewrite varint_f_roundtrip.
  - destruct (N.ltb_spec n N64) as [L|L]; [reflexivity|lia].
  - unfold N64 in Hn. change (128 ^ N.of_nat 10) with 1180591620717411303424. lia.
Qed.

Lemma enc_varint_cons n : exists b r, enc_varint n = b :: r.
Proof. unfold enc_varint. cbn [enc_varint_f]. destruct (n <? 128); eauto. Qed.

(* ---------------------------------------------------------------- the record grammar *)
Definition wf_field (f : wfield) : Prop :=
  1 <= fst f <= max_field_number /\ match snd f with WInt v => v < N64 | WBytes b => nlen b < N64 | WSkip => False end.

Lemma firstn_nlen (b rest : bytes) : firstn (N.to_nat (nlen b)) (b ++ rest) = b.
Proof.
  unfold nlen. rewrite Nat2N.id, firstn_app, Nat.sub_diag, firstn_all. cbn [firstn]. apply app_nil_r.
Qed.
Lemma skipn_nlen (b rest : bytes) : skipn (N.to_nat (nlen b)) (b ++ rest) = rest.
Proof.
  unfold nlen. rewrite Nat2N.id, skipn_app, Nat.sub_diag, skipn_all. reflexivity.
Qed.

Lemma parse_S_nonempty fuel l : l <> [] -> parse (S fuel) l = parse_step (parse fuel) l.
Proof. destruct l; [congruence|reflexivity]. Qed.

Lemma parse_field fuel f rest : wf_field f ->
  parse (S fuel) (enc_field f ++ rest) = option_map (cons f) (parse fuel rest).
Proof.
  intros [[Hk1 Hk2] Hv]. destruct f as [k w]. cbn [fst snd] in *. unfold max_field_number in *.
  destruct w as [v|b|]; [| |contradiction]; unfold enc_field; cbn [fst snd].
  - destruct (enc_varint_cons (k * 8)) as [b0 [r0 E]].
    rewrite parse_S_nonempty by (rewrite E; cbn [app]; discriminate).
    unfold parse_step. rewrite <- !app_assoc.
    rewrite varint_roundtrip by (unfold N64; lia).
    replace (k * 8 / 8) with k by lia. replace (k * 8 mod 8) with 0 by lia.
    destruct (N.eqb_spec k 0) as [Z|_]; [lia|]. unfold max_field_number. destruct (N.ltb_spec 536870911 k) as [Z|_]; [lia|].
    cbn [orb N.eqb].
    rewrite varint_roundtrip by exact Hv. reflexivity.
  - destruct (enc_varint_cons (k * 8 + 2)) as [b0 [r0 E]].
    rewrite parse_S_nonempty by (rewrite E; cbn [app]; discriminate).
    unfold parse_step. rewrite <- !app_assoc.
    rewrite varint_roundtrip by (unfold N64; lia).
    replace ((k * 8 + 2) / 8) with k by lia. replace ((k * 8 + 2) mod 8) with 2 by lia.
    destruct (N.eqb_spec k 0) as [Z|_]; [lia|]. unfold max_field_number. destruct (N.ltb_spec 536870911 k) as [Z|_]; [lia|].
    cbn [orb N.eqb Pos.eqb].
    rewrite varint_roundtrip by exact Hv.
    destruct (N.leb_spec (nlen b) (nlen (b ++ rest))) as [L|L].
    + rewrite firstn_nlen, skipn_nlen. reflexivity.
    + unfold nlen in L. rewrite app_length in L. lia.
Qed.

Lemma parse_fields : forall fs fuel, (List.length fs < fuel)%nat -> Forall wf_field fs ->
  parse fuel (enc_fields fs) = Some fs.
Proof.
  induction fs as [|f fs IH]; intros fuel Hf Hw.
  - destruct fuel; [inversion Hf|]. reflexivity.
  - destruct fuel as [|fuel]; [inversion Hf|]. inversion Hw as [|? ? H1 H2]; subst.
    unfold enc_fields. cbn [flat_map]. fold (enc_fields fs).
    rewrite parse_field by exact H1. rewrite IH; [reflexivity| cbn [List.length] in Hf; lia | exact H2].
Qed.

Lemma enc_field_length f : wf_field f -> (1 <= List.length (enc_field f))%nat.
Proof.
  intros [_ Hw]. destruct f as [k [v|b|]]; unfold enc_field; cbn [fst snd] in *; [| |contradiction].
  - destruct (enc_varint_cons (k * 8)) as [b0 [r0 E]]. rewrite E. cbn [app List.length]. lia.
  - destruct (enc_varint_cons (k * 8 + 2)) as [b0 [r0 E]]. rewrite E. cbn [app List.length]. lia.
Qed.
Lemma enc_fields_length fs : Forall wf_field fs -> (List.length fs <= List.length (enc_fields fs))%nat.
Proof.
  induction fs as [|f fs IH]; intros H; [cbn; lia|]. inversion H as [|? ? H1 H2]; subst.
  unfold enc_fields. cbn [flat_map]. fold (enc_fields fs). rewrite app_length. cbn [List.length].
  pose proof (enc_field_length f H1). specialize (IH H2). lia.
Qed.

Lemma parse_all_fields fs : Forall wf_field fs -> parse_all (enc_fields fs) = Some fs.
Proof. intros H. unfold parse_all. apply parse_fields; [pose proof (enc_fields_length fs H); lia | exact H]. Qed.

(* ---------------------------------------------------------------- look-ups through the presence rules *)
Lemma geti_app k a b acc : geti k (a ++ b) acc = geti k b (geti k a acc).
Proof. revert acc; induction a as [|[n w] a IH]; intros acc; cbn [app geti]; [reflexivity|apply IH]. Qed.
Lemma getb_app k a b acc : getb k (a ++ b) acc = getb k b (getb k a acc).
Proof. revert acc; induction a as [|[n w] a IH]; intros acc; cbn [app getb]; [reflexivity|apply IH]. Qed.
Lemma getm_app k a b : getm k (a ++ b) = getm k a ++ getm k b.
Proof. induction a as [|[n w] a IH]; cbn [app getm]; [reflexivity|]. destruct (n =? k); [destruct w|]; cbn [app]; rewrite IH; reflexivity. Qed.
Lemma strs_ok_app strs a b : strs_ok strs (a ++ b) = strs_ok strs a && strs_ok strs b.
Proof. unfold strs_ok. apply forallb_app. Qed.

Lemma geti_ifield k k' v acc : geti k (ifield k' v) acc = if k' =? k then (if v =? 0 then acc else v) else acc.
Proof. unfold ifield. destruct (v =? 0); cbn [geti]; destruct (k' =? k); reflexivity. Qed.
Lemma geti_bfield k k' b acc : geti k (bfield k' b) acc = acc.
Proof. unfold bfield. destruct b; cbn [geti]; [reflexivity|destruct (k' =? k); reflexivity]. Qed.
Lemma geti_mfield k k' o acc : geti k (mfield k' o) acc = acc.
Proof. unfold mfield. destruct o; cbn [geti]; [destruct (k' =? k); reflexivity|reflexivity]. Qed.
Lemma getb_ifield k k' v acc : getb k (ifield k' v) acc = acc.
Proof. unfold ifield. destruct (v =? 0); cbn [getb]; [reflexivity|destruct (k' =? k); reflexivity]. Qed.
Lemma getb_bfield k k' b acc : getb k (bfield k' b) acc = if k' =? k then (match b with [] => acc | _ :: _ => b end) else acc.
Proof. unfold bfield. destruct b; cbn [getb]; destruct (k' =? k); reflexivity. Qed.
Lemma getb_mfield k k' o acc : getb k (mfield k' o) acc = if k' =? k then (match o with Some b => b | None => acc end) else acc.
Proof. unfold mfield. destruct o; cbn [getb]; destruct (k' =? k); reflexivity. Qed.
Lemma getm_ifield k k' v : getm k (ifield k' v) = [].
Proof. unfold ifield. destruct (v =? 0); cbn [getm]; [reflexivity|destruct (k' =? k); reflexivity]. Qed.
Lemma getm_bfield k k' b : getm k (bfield k' b) = if k' =? k then (match b with [] => [] | _ :: _ => [b] end) else [].
Proof. unfold bfield. destruct b; cbn [getm]; destruct (k' =? k); reflexivity. Qed.
Lemma getm_mfield k k' o : getm k (mfield k' o) = if k' =? k then (match o with Some b => [b] | None => [] end) else [].
Proof. unfold mfield. destruct o; cbn [getm]; destruct (k' =? k); reflexivity. Qed.
Lemma strs_ifield strs k v : strs_ok strs (ifield k v) = true.
Proof. unfold ifield, strs_ok. destruct (v =? 0); reflexivity. Qed.
Lemma strs_bfield strs k b : strs_ok strs (bfield k b) = if mem k strs then utf8_valid b else true.
Proof. unfold bfield, strs_ok. destruct b; cbn [forallb snd fst]; [destruct (mem k strs); reflexivity|]. rewrite andb_true_r. reflexivity. Qed.
Lemma strs_mfield strs k o : strs_ok strs (mfield k o) = match o with Some b => if mem k strs then utf8_valid b else true | None => true end.
Proof. unfold mfield, strs_ok. destruct o; cbn [forallb snd fst]; [rewrite andb_true_r|]; reflexivity. Qed.

Lemma zero_or v : (if v =? 0 then 0 else v) = v.
Proof. destruct (N.eqb_spec v 0); congruence. Qed.
Lemma nil_or (b : bytes) : match b with [] => [] | _ :: _ => b end = b.
Proof. destruct b; reflexivity. Qed.

Ltac gets :=
  rewrite ?geti_app, ?getb_app, ?getm_app, ?strs_ok_app;
  rewrite ?geti_ifield, ?geti_bfield, ?geti_mfield, ?getb_ifield, ?getb_bfield, ?getb_mfield, ?getm_ifield, ?getm_bfield, ?getm_mfield,
    ?strs_ifield, ?strs_bfield, ?strs_mfield;
  cbn [N.eqb Pos.eqb mem existsb trx_strings vtx_strings orb app andb]; rewrite ?zero_or, ?nil_or.

(* ---------------------------------------------------------------- well-formed messages have well-formed records *)
Lemma wf_ifield k v : 1 <= k <= max_field_number -> v < N64 -> Forall wf_field (ifield k v).
Proof. intros Hk Hv. unfold ifield. destruct (v =? 0); constructor; [split; assumption|constructor]. Qed.
Lemma wf_bfield k b : 1 <= k <= max_field_number -> nlen b < N64 -> Forall wf_field (bfield k b).
Proof. intros Hk Hv. unfold bfield. destruct b; constructor; [split; assumption|constructor]. Qed.
Lemma wf_mfield k o : 1 <= k <= max_field_number -> match o with Some b => nlen b < N64 | None => True end -> Forall wf_field (mfield k o).
Proof. intros Hk Hv. unfold mfield. destruct o; constructor; [split; assumption|constructor]. Qed.

Ltac fnum := unfold max_field_number; lia.

(* ---------------------------------------------------------------- Spice *)
Lemma pspice_roundtrip s : wf_pspice s -> dec_pspice (enc_pspice s) = Some s.
Proof.
  intros [H1 H2]. unfold dec_pspice, enc_pspice. rewrite parse_all_fields.
  - unfold spice_wire. gets. destruct s; reflexivity.
  - unfold spice_wire. apply Forall_app; split; apply wf_ifield; try assumption; fnum.
Qed.

Lemma enc_pspice_short s : wf_pspice s -> nlen (enc_pspice s) < N64.
Proof.
  intros _. unfold enc_pspice, spice_wire, ifield, nlen.
  assert (V : forall n, (List.length (enc_varint n) <= 10)%nat).
  { intros n. unfold enc_varint. generalize 10%nat. intros f; revert n; induction f as [|f IH]; intros n; cbn [enc_varint_f]; [cbn; lia|].
    destruct (n <? 128); cbn [List.length]; [lia|]. specialize (IH (n / 128)). lia. }
  destruct (ps_cur s =? 0), (ps_sup s =? 0); cbn [app enc_fields flat_map enc_field fst snd]; rewrite ?app_length; cbn [List.length];
    repeat match goal with |- context [List.length (enc_varint ?n)] => let H := fresh in pose proof (V n) as H; revert H; generalize (List.length (enc_varint n)); intros ? ? end;
    unfold N64; lia.
Qed.

(* ---------------------------------------------------------------- Transaction *)
Lemma dec_sub_one {A} (dec : bytes -> option A) b a : dec b = Some a -> dec_sub dec [b] = Some (Some a).
Proof. intros H. unfold dec_sub. cbn [forallb concat]. rewrite app_nil_r, H. reflexivity. Qed.

Lemma ptrx_roundtrip t : wf_ptrx t -> strings_valid_ptrx t = true -> dec_ptrx (enc_ptrx t) = Some t.
Proof.
  intros (H1 & H2 & H3 & H4 & H5 & H6 & H7 & H8 & H9) V. unfold dec_ptrx, enc_ptrx. rewrite parse_all_fields.
  - unfold trx_wire. destruct t as [a b c d e f g h sp]; cbn [pt_spice pt_subject pt_data pt_hash pt_created pt_receiver pt_issuer pt_rsig pt_isig option_map] in *.
    unfold strings_valid_ptrx in V; cbn [pt_subject pt_receiver pt_issuer] in V.
    apply andb_true_iff in V. destruct V as [V V3]. apply andb_true_iff in V. destruct V as [V1 V2].
    gets. rewrite V1, V2, V3. cbn [andb].
    destruct sp as [s|]; cbn [option_map].
    + rewrite ?app_nil_r. rewrite (dec_sub_one dec_pspice _ s) by (apply pspice_roundtrip; exact H9). reflexivity.
    + reflexivity.
  - unfold trx_wire. repeat (apply Forall_app; split); try (apply wf_bfield; [fnum|assumption]); try (apply wf_ifield; [fnum|assumption]).
    apply wf_mfield; [fnum|]. destruct (pt_spice t) as [s|]; cbn [option_map]; [apply enc_pspice_short; exact H9|exact I].
Qed.

(* ---------------------------------------------------------------- Vertex *)
Theorem pvtx_roundtrip v : wf_pvtx v -> strings_valid_pvtx v = true -> dec_pvtx (enc_pvtx v) = Some v.
Proof.
  intros (H1 & H2 & H3 & H4 & H5 & H6 & H7 & H8) V. unfold dec_pvtx, enc_pvtx. rewrite parse_all_fields.
  - unfold vtx_wire. destruct v as [a b c tr e f g h]; cbn [pv_signer pv_created pv_sig pv_trx pv_hash pv_left pv_right pv_weight option_map] in *.
    unfold strings_valid_pvtx in V; cbn [pv_signer pv_trx] in V. apply andb_true_iff in V. destruct V as [V1 V2].
    gets. rewrite V1. cbn [andb].
    destruct tr as [t|]; cbn [option_map].
    + cbn [app]. rewrite (dec_sub_one dec_ptrx _ t) by (apply ptrx_roundtrip; [apply H4|exact V2]). reflexivity.
    + reflexivity.
  - unfold vtx_wire. repeat (apply Forall_app; split); try (apply wf_bfield; [fnum|assumption]); try (apply wf_ifield; [fnum|assumption]).
    apply wf_mfield; [fnum|]. destruct (pv_trx v) as [t|]; cbn [option_map]; [apply H4|exact I].
Qed.

(* what proto.Marshal hands out, proto.Unmarshal reads back; and Marshal refuses exactly the messages with a string field that is not UTF-8 *)
Theorem marshal_unmarshal v b : wf_pvtx v -> marshal_pvtx v = Some b -> dec_pvtx b = Some v.
Proof.
  intros W M. unfold marshal_pvtx in M. destruct (strings_valid_pvtx v) eqn:V; [|discriminate]. injection M as <-. apply pvtx_roundtrip; assumption.
Qed.
Theorem marshal_refuses_non_utf8 v : strings_valid_pvtx v = false <-> marshal_pvtx v = None.
Proof. unfold marshal_pvtx. destruct (strings_valid_pvtx v); split; congruence. Qed.
(* ... and so does Unmarshal: bytes that carry such a string are not read as a message *)
Theorem unmarshal_refuses_non_utf8 v : wf_pvtx v -> utf8_valid (pv_signer v) = false -> dec_pvtx (enc_pvtx v) = None.
Proof.
  intros (H1 & H2 & H3 & H4 & H5 & H6 & H7 & H8) V. unfold dec_pvtx, enc_pvtx. rewrite parse_all_fields.
  - unfold vtx_wire. gets. rewrite V. reflexivity.
  - unfold vtx_wire. repeat (apply Forall_app; split); try (apply wf_bfield; [fnum|assumption]); try (apply wf_ifield; [fnum|assumption]).
    apply wf_mfield; [fnum|]. destruct (pv_trx v) as [t|]; cbn [option_map]; [apply H4|exact I].
Qed.

(* two different wire structs never share an encoding *)
Corollary pvtx_encoding_injective v w : wf_pvtx v -> wf_pvtx w -> strings_valid_pvtx v = true -> strings_valid_pvtx w = true ->
  enc_pvtx v = enc_pvtx w -> v = w.
Proof.
  intros Hv Hw Sv Sw E. pose proof (pvtx_roundtrip v Hv Sv) as A. rewrite E, (pvtx_roundtrip w Hw Sw) in A. congruence.
Qed.

(* decoding does not depend on the order of the records: any permutation of the records of a message that keeps
   records of the same field number in their relative order (here: all numbers distinct) reads the same. Stated for
   the case a peer sends the fields of a Spice in the other order. *)
Lemma pspice_order_irrelevant s : wf_pspice s ->
  dec_pspice (enc_fields (ifield 2 (ps_sup s) ++ ifield 1 (ps_cur s))) = Some s.
Proof.
  intros [H1 H2]. unfold dec_pspice. rewrite parse_all_fields.
  - gets. destruct s; reflexivity.
  - apply Forall_app; split; apply wf_ifield; try assumption; fnum.
Qed.

(* unknown fields (a newer peer's extension) are skipped *)
Lemma pspice_unknown_field_skipped s k w : wf_pspice s -> wf_field (k, w) -> 3 <= k ->
  dec_pspice (enc_fields (spice_wire s ++ [(k, w)])) = Some s.
Proof.
  intros [H1 H2] Hw Hk. unfold dec_pspice. rewrite parse_all_fields.
  - unfold spice_wire. gets. cbn [geti]. destruct (N.eqb_spec k 1) as [Z|_]; [lia|]. destruct (N.eqb_spec k 2) as [Z|_]; [lia|].
    destruct s; reflexivity.
  - unfold spice_wire. repeat (apply Forall_app; split); try (apply wf_ifield; try assumption; fnum). constructor; [exact Hw|constructor].
Qed.

(* ---------------------------------------------------------------- the gossip mapping lands in the well-formed messages *)
Lemma unixnano_u64_lt t : unixnano_u64 t < N64.
Proof. unfold unixnano_u64, N64, P64. lia. Qed.
Lemma ob_len o : wf_obin o -> nlen (ob o) < N64.
Proof. unfold wf_obin, ob, nlen, zlen, P32', N64. destruct o; cbn [List.length]; lia. Qed.
Lemma zlen_nlen b : (zlen b < P32')%Z -> nlen b < N64.
Proof. unfold zlen, nlen, P32', N64. lia. Qed.

Lemma to_ptrx_wf t : wf_trx t -> wf_ptrx (to_ptrx t).
Proof.
  intros (H1 & H2 & H3 & H4 & H5 & H6 & H7 & H8 & H9 & H10). unfold wf_ptrx, to_ptrx; cbn [pt_subject pt_data pt_hash pt_created pt_receiver pt_issuer pt_rsig pt_isig pt_spice].
  repeat split; try (apply zlen_nlen; assumption); try (apply ob_len; assumption); try apply unixnano_u64_lt.
  - unfold nlen, N64. rewrite H8. lia.
  - cbn [ps_cur]. unfold N64, P64 in *. lia.
  - cbn [ps_sup]. unfold N64, P64 in *. lia.
Qed.

(* ---------------------------------------------------------------- sizes: a transaction with fields below 2^32 bytes is far below 2^64 *)
Lemma varint_len n : nlen (enc_varint n) <= 10.
Proof.
  unfold enc_varint, nlen. assert (V : forall f n, (List.length (enc_varint_f f n) <= f)%nat).
  { intros f; induction f as [|f IH]; intros m; cbn [enc_varint_f]; [cbn; lia|].
    destruct (m <? 128); cbn [List.length]; [lia|]. specialize (IH (m / 128)). lia. }
  specialize (V 10%nat n). lia.
Qed.
Definition payload (f : wfield) : N := match snd f with WBytes b => nlen b | _ => 0 end.
Fixpoint wsize (fs : list wfield) : N := match fs with [] => 0 | f :: r => 20 + payload f + wsize r end.
Lemma nlen_app (a b : bytes) : nlen (a ++ b) = nlen a + nlen b.
Proof. unfold nlen. rewrite app_length. lia. Qed.
Lemma enc_fields_size fs : nlen (enc_fields fs) <= wsize fs.
Proof.
  induction fs as [|[k w] fs IH]; [cbn; lia|].
  unfold enc_fields. cbn [flat_map wsize]. fold (enc_fields fs). rewrite nlen_app. unfold enc_field, payload; cbn [fst snd].
  destruct w as [v|b|]; rewrite ?nlen_app.
  - pose proof (varint_len (k * 8)). pose proof (varint_len v). lia.
  - pose proof (varint_len (k * 8 + 2)). pose proof (varint_len (nlen b)). lia.
  - replace (nlen []) with 0 by reflexivity. lia.
Qed.
Lemma wsize_app a b : wsize (a ++ b) = wsize a + wsize b.
Proof. induction a as [|f a IH]; cbn [app wsize]; lia. Qed.
Lemma wsize_ifield k v : wsize (ifield k v) <= 20.
Proof. unfold ifield. destruct (v =? 0); cbn [wsize payload snd]; lia. Qed.
Lemma wsize_bfield k b : wsize (bfield k b) <= 20 + nlen b.
Proof. unfold bfield. destruct b; cbn [wsize payload snd]; lia. Qed.
Lemma wsize_mfield k o : wsize (mfield k o) <= 20 + match o with Some b => nlen b | None => 0 end.
Proof. unfold mfield. destruct o; cbn [wsize payload snd]; lia. Qed.

Lemma enc_ptrx_size t : nlen (enc_ptrx t) <=
  240 + nlen (pt_subject t) + nlen (pt_data t) + nlen (pt_hash t) + nlen (pt_receiver t) + nlen (pt_issuer t) + nlen (pt_rsig t) + nlen (pt_isig t).
Proof.
  unfold enc_ptrx. pose proof (enc_fields_size (trx_wire t)) as H. unfold trx_wire in *. rewrite !wsize_app in H.
  pose proof (wsize_bfield 1 (pt_subject t)). pose proof (wsize_bfield 2 (pt_data t)). pose proof (wsize_bfield 3 (pt_hash t)).
  pose proof (wsize_ifield 4 (pt_created t)). pose proof (wsize_bfield 5 (pt_receiver t)). pose proof (wsize_bfield 6 (pt_issuer t)).
  pose proof (wsize_bfield 7 (pt_rsig t)). pose proof (wsize_bfield 8 (pt_isig t)).
  pose proof (wsize_mfield 9 (option_map enc_pspice (pt_spice t))) as M.
  assert (S : match option_map enc_pspice (pt_spice t) with Some b => nlen b | None => 0 end <= 40).
  { destruct (pt_spice t) as [s|]; cbn [option_map]; [|lia]. unfold enc_pspice. pose proof (enc_fields_size (spice_wire s)) as Q.
    unfold spice_wire in *. rewrite wsize_app in Q. pose proof (wsize_ifield 1 (ps_cur s)). pose proof (wsize_ifield 2 (ps_sup s)). lia. }
  lia.
Qed.

Lemma ob_len32 o : wf_obin o -> nlen (ob o) < 4294967296.
Proof. unfold wf_obin, ob, nlen, zlen, P32'. destruct o; cbn [List.length]; lia. Qed.
Lemma zlen_nlen32 b : (zlen b < P32')%Z -> nlen b < 4294967296.
Proof. unfold zlen, nlen, P32'. lia. Qed.

Theorem to_pvtx_wf v : wf_vtx v -> wf_pvtx (to_pvtx v).
Proof.
  intros (H1 & H2 & H3 & H4 & H5 & H6 & H7 & H8). unfold wf_pvtx, to_pvtx; cbn [pv_signer pv_created pv_sig pv_trx pv_hash pv_left pv_right pv_weight].
  assert (B32 : forall b, List.length b = 32%nat -> nlen b < N64) by (intros b E; unfold nlen, N64; rewrite E; lia).
  split; [apply zlen_nlen; assumption|]. split; [apply unixnano_u64_lt|]. split; [apply ob_len; assumption|].
  split; [|split; [apply B32; assumption|split; [apply B32; assumption|split; [apply B32; assumption|unfold N64, P64 in *; lia]]]].
  split.
  - apply to_ptrx_wf; exact H4.
  - pose proof (enc_ptrx_size (to_ptrx (mv_trx v))) as S. destruct H4 as (T1 & T2 & T3 & T4 & T5 & T6 & T7 & T8 & T9).
    remember (nlen (enc_ptrx (to_ptrx (mv_trx v)))) as X eqn:EX. clear EX.
    unfold to_ptrx in S; cbn [pt_subject pt_data pt_hash pt_receiver pt_issuer pt_rsig pt_isig] in S.
    pose proof (zlen_nlen32 _ T2). pose proof (zlen_nlen32 _ T3). pose proof (zlen_nlen32 _ T4).
    pose proof (ob_len32 _ T5). pose proof (ob_len32 _ T6). pose proof (ob_len32 _ T7).
    assert (nlen (mt_hash (mv_trx v)) = 32) by (unfold nlen; rewrite T8; reflexivity).
    unfold N64. lia.
Qed.

(* every vertex a node can hold crosses the wire unchanged: the bytes proto.Marshal writes for its wire struct decode
   back to exactly that struct *)
Theorem vertex_wire_roundtrip v : wf_vtx v -> strings_valid_pvtx (to_pvtx v) = true -> dec_pvtx (enc_pvtx (to_pvtx v)) = Some (to_pvtx v).
Proof. intros H V. apply pvtx_roundtrip; [apply to_pvtx_wf, H|exact V]. Qed.

(* ---------------------------------------------------------------- the gossip envelopes *)
Lemma pgos_roundtrip g : wf_pgos g -> dec_pgos (enc_pgos g) = Some g.
Proof.
  intros (H1 & H2 & H3 & U & _). unfold dec_pgos, enc_pgos. rewrite parse_all_fields.
  - unfold gos_wire. gets. cbn [gos_strings mem existsb N.eqb Pos.eqb orb]. rewrite U. destruct g; reflexivity.
  - unfold gos_wire. repeat (apply Forall_app; split); apply wf_bfield; try assumption; fnum.
Qed.
Lemma getm_rfield_same k l : getm k (rfield k l) = l.
Proof. induction l as [|b l IH]; cbn [rfield map getm]; [reflexivity|]. rewrite N.eqb_refl. fold (rfield k l). rewrite IH. reflexivity. Qed.
Lemma getm_rfield_other k k' l : k' <> k -> getm k (rfield k' l) = [].
Proof. intros D. induction l as [|b l IH]; cbn [rfield map getm]; [reflexivity|]. destruct (N.eqb_spec k' k); [contradiction|exact IH]. Qed.
Lemma dec_all_map (gs : list pgos) : Forall wf_pgos gs -> dec_all dec_pgos (map enc_pgos gs) = Some gs.
Proof.
  induction 1 as [|g gs Hg _ IH]; cbn [map dec_all]; [reflexivity|]. rewrite pgos_roundtrip by exact Hg. rewrite IH. reflexivity.
Qed.
Lemma wf_rfield k (gs : list pgos) : 1 <= k <= max_field_number -> Forall wf_pgos gs -> Forall wf_field (rfield k (map enc_pgos gs)).
Proof.
  intros Hk. induction 1 as [|g gs Hg _ IH]; cbn [map rfield]; constructor; [|exact IH].
  split; [exact Hk|]. cbn [snd]. apply Hg.
Qed.

Theorem pvmsg_roundtrip m : wf_pvmsg m -> dec_pvmsg (enc_pvmsg m) = Some m.
Proof.
  intros [Hv Hg]. unfold dec_pvmsg, enc_pvmsg. rewrite parse_all_fields.
  - unfold vmsg_wire. rewrite !getm_app, !getm_mfield, getm_rfield_same, (getm_rfield_other 1 2) by discriminate.
    cbn [N.eqb Pos.eqb app]. rewrite app_nil_r, dec_all_map by exact Hg.
    destruct m as [[v|] gs]; cbn [pm_vertex pm_gossipers option_map app] in *.
    + rewrite (dec_sub_one dec_pvtx _ v) by (apply pvtx_roundtrip; apply Hv). reflexivity.
    + reflexivity.
  - unfold vmsg_wire. apply Forall_app; split; [|apply wf_rfield; [fnum|exact Hg]].
    apply wf_mfield; [fnum|]. destruct (pm_vertex m) as [v|]; cbn [option_map]; [apply Hv|exact I].
Qed.
Theorem ptmsg_roundtrip m : wf_ptmsg m -> dec_ptmsg (enc_ptmsg m) = Some m.
Proof.
  intros [Hv Hg]. unfold dec_ptmsg, enc_ptmsg. rewrite parse_all_fields.
  - unfold tmsg_wire. rewrite !getm_app, !getm_mfield, getm_rfield_same, (getm_rfield_other 1 2) by discriminate.
    cbn [N.eqb Pos.eqb app]. rewrite app_nil_r, dec_all_map by exact Hg.
    destruct m as [[t|] gs]; cbn [pq_trx pq_gossipers option_map app] in *.
    + rewrite (dec_sub_one dec_ptrx _ t) by (apply ptrx_roundtrip; apply Hv). reflexivity.
    + reflexivity.
  - unfold tmsg_wire. apply Forall_app; split; [|apply wf_rfield; [fnum|exact Hg]].
    apply wf_mfield; [fnum|]. destruct (pq_trx m) as [t|]; cbn [option_map]; [apply Hv|exact I].
Qed.
(* the gossiper list crosses the wire as it is: same entries, same order, none added, none dropped *)
Corollary gossiper_list_preserved m m' : wf_pvmsg m -> dec_pvmsg (enc_pvmsg m) = Some m' -> pm_gossipers m' = pm_gossipers m.
Proof. intros W D. rewrite (pvmsg_roundtrip m W) in D. congruence. Qed.
