(* Proofs/LedgerReach.v — reachable ledgers: every sequence of entry-point calls with arbitrary
   arguments and arbitrary hints.  Whatever the rest of the network does reaches one node as such
   a sequence (DESIGN 1), so an invariant of all reachable ledgers holds on every node of every
   network under every schedule (given the atomicity of the locked regions). *)
From Verif Require Import U64 Spice SpiceP RepoConstants Ledger ListFacts LedgerInv LedgerGraph LedgerFunds.
From Coq Require Import NArith Permutation.

Inductive lop :=
  | LGenesis (recv : N) (amt : mel) (data : bool) (th h : N) (vok : bool)
  | LCreate (t : trx) (o1 o2 : list N) (newh : N) (vok : bool) (b : budget)
  | LAdd (v : vertex) (b : budget)
  | LRetry (b : budget)
  | LTruncate (tip cut : node) (a32 : list N)
  | LTrust (a : N)
  | LUntrust (a : N).

Definition lstep (L : ledger) (o : lop) : ledger :=
  match o with
  | LGenesis recv amt data th h vok => fst (create_genesis L recv amt data th h vok)
  | LCreate t o1 o2 newh vok b => fst (fst (create_leaf L t o1 o2 newh vok b))
  | LAdd v b => fst (add_leaf L v b)
  | LRetry b => fst (retry_one L b)
  | LTruncate tip cut a32 => fst (truncate L tip cut a32)
  | LTrust a => add_trusted L a
  | LUntrust a => remove_trusted L a
  end.

(* side conditions on hints: a hash produced by the node itself is new (sha256 collision freeness,
   H-sha), no vertex carries the all-zero hash (it marks "no parent"; not a sha256 digest of any
   message that occurs), and CreateGenesis is the start-up call of a node that has no ledger yet *)
Definition lop_ok (L : ledger) (o : lop) : Prop :=
  match o with
  | LGenesis _ _ _ _ h _ => loaded L = false /\ h <> 0%N
  | LCreate _ _ _ newh _ _ => fresh L newh /\ newh <> 0%N
  | LAdd v _ => v_hash v <> 0%N
  | _ => True
  end.

Inductive reach (me : N) : ledger -> Prop :=
  | reach_init : reach me (init me)
  | reach_step : forall L o, reach me L -> lop_ok L o -> reach me (lstep L o).

Lemma lstep_Inv L o : Inv L -> lop_ok L o -> Inv (lstep L o).
Proof.
  intros I Hok. destruct o; cbn [lstep lop_ok] in *.
  - destruct (create_genesis L recv amt data th h vok) eqn:E. eapply create_genesis_inv; [exact I|apply Hok|exact E].
  - destruct (create_leaf L t o1 o2 newh vok b) as [[L' r] ov] eqn:E. eapply create_leaf_inv; [exact I|apply Hok|exact E].
  - destruct (add_leaf L v b) eqn:E. eapply add_leaf_inv; eauto.
  - destruct (retry_one L b) eqn:E. eapply retry_one_inv; eauto.
  - destruct (truncate L tip cut a32) eqn:E. eapply truncate_inv; eauto.
  - apply Inv_set_trusted. exact I.
  - apply Inv_set_trusted. exact I.
Qed.

Theorem reach_Inv me L : reach me L -> Inv L.
Proof. induction 1; [apply Inv_init|apply lstep_Inv; assumption]. Qed.

Lemma lstep_InvG L o : Inv L -> InvG L -> lop_ok L o -> InvG (lstep L o).
Proof.
  intros I G Hok. destruct o; cbn [lstep lop_ok] in *.
  - destruct Hok as [Hl Hz]. destruct (inv_unl _ I Hl) as [Hd [Hs [Hp _]]].
    destruct (create_genesis L recv amt data th h vok) eqn:E. eapply create_genesis_invG; eauto.
  - destruct Hok as [Hf Hz]. destruct (create_leaf L t o1 o2 newh vok b) as [[L' r] ov] eqn:E.
    eapply create_leaf_invG; [exact G|exact Hz| |exact E].
    intros Hin. apply Hf. unfold vertices. rewrite map_app. apply in_or_app. right. exact Hin.
  - destruct (add_leaf L v b) eqn:E. eapply add_leaf_invG; eauto.
  - destruct (retry_one L b) eqn:E. eapply retry_one_invG; eauto.
  - destruct (truncate L tip cut a32) eqn:E. eapply InvG_truncate; eauto.
  - eapply InvG_ext; [| | |exact G]; reflexivity.
  - eapply InvG_ext; [| | |exact G]; reflexivity.
Qed.

Theorem reach_InvG me L : reach me L -> InvG L.
Proof.
  induction 1; [apply InvG_init|]. apply lstep_InvG; [eapply reach_Inv; eauto|assumption|assumption].
Qed.

(* ---------------------------------------------------------------- acyclicity from the list order *)
Fixpoint pos (h : N) (l : list N) : nat :=
  match l with [] => 0 | x :: r => if N.eqb x h then 0 else S (pos h r) end.

Definition edge (L : ledger) (p c : N) : Prop := exists n, In n (dag L) /\ nhash n = c /\ In p (lp n).

Lemma ordered_pos l : ordered l -> NoDup (map nhash l) ->
  forall n p, In n l -> In p (lp n) -> (pos (nhash n) (map nhash l) < pos p (map nhash l))%nat.
Proof.
  induction l as [|m r IH]; cbn; [tauto|]. intros [Ho Hr] Hnd n p Hn Hp.
  inversion Hnd as [|? ? Hm Hndr]; subst.
  destruct Hn as [En|Hn].
  - subst m. rewrite N.eqb_refl. destruct (N.eqb_spec (nhash n) p) as [E|E]; [|lia].
    exfalso. apply Hm. rewrite E. apply Ho. exact Hp.
  - assert (Hne : nhash m <> nhash n) by (intros E; apply Hm; rewrite E; apply in_map; exact Hn).
    destruct (N.eqb_spec (nhash m) (nhash n)); [contradiction|].
    assert (Hpr : In p (map nhash r)).
    { clear -Hr Hn Hp. induction r as [|x r IHr]; cbn in *; [tauto|]. destruct Hr as [Hx Hr].
      destruct Hn as [E|Hn]; [subst x; right; apply Hx; exact Hp|right; apply IHr; assumption]. }
    destruct (N.eqb_spec (nhash m) p) as [E|E]; [exfalso; apply Hm; rewrite E; exact Hpr|].
    apply -> Nat.succ_lt_mono. apply IH; assumption.
Qed.

Lemma reach_edges_ranked me L : reach me L ->
  forall p c, edge L p c -> (pos c (map nhash (dag L)) < pos p (map nhash (dag L)))%nat.
Proof.
  intros R p c [n [Hn [Ec Hp]]]. subst c.
  apply ordered_pos; [exact (g_order _ (reach_InvG _ _ R))|exact (Inv_nodup_dag _ (reach_Inv _ _ R))|exact Hn|exact Hp].
Qed.

From Coq Require Import Relations.
Lemma reach_acyclic me L : reach me L -> forall h, ~ clos_trans N (edge L) h h.
Proof.
  intros R h Hc.
  assert (Hlt : forall a b, clos_trans N (edge L) a b -> (pos b (map nhash (dag L)) < pos a (map nhash (dag L)))%nat).
  { intros a b Hab. induction Hab as [a b Hab|a b c _ IH1 _ IH2]; [eapply reach_edges_ranked; eauto|lia]. }
  specialize (Hlt h h Hc). lia.
Qed.

(* edges are exactly the declared parents that are live; absent parents are checkpointed *)
Lemma reach_edges_exact me L : reach me L -> forall n, In n (dag L) ->
  NoDup (lp n) /\
  (forall p, In p (lp n) <-> In p (decl (nv n)) /\ live L p = true) /\
  (forall p, In p (decl (nv n)) -> live L p = false ->
     stored L p = true \/ (v_left (nv n) = 0 /\ v_right (nv n) = 0 /\ lp n = [])%N).
Proof.
  intros R n Hn. pose proof (reach_InvG _ _ R) as G. split; [exact (g_nodup _ G n Hn)|]. split.
  - intros p. split; [apply (g_sound _ G n Hn)|intros [H1 H2]; apply (g_complete _ G n Hn); assumption].
  - apply (g_absent _ G n Hn).
Qed.

(* a created vertex references tips of the ledger it is inserted into and weighs max + 1 *)
Lemma created_vertex_shape L t o1 o2 newh vok b L' v :
  create_leaf L t o1 o2 newh vok b = (L', ROk, Some v) ->
  exists l r L2, In l (dag L2) /\ In r (dag L2) /\ has_child L2 (nhash l) = false /\ has_child L2 (nhash r) = false /\
    L' = insert L2 v (dedup2 (nhash l) (nhash r)) /\
    v_left v = nhash l /\ v_right v = nhash r /\ v_signer v = self L /\ v_trx v = t /\ v_hash v = newh /\
    v_weight v = wrap (Z.max (v_weight (nv l)) (v_weight (nv r)) + 1).
Proof.
  unfold create_leaf.
  destruct (loaded L); cbn [negb]; [|discriminate].
  destruct (is_empty_trx t); [discriminate|].
  destruct (canonb _); cbn [negb]; [|discriminate].
  destruct (N.eqb _ (self L)); [discriminate|].
  destruct (N.eqb _ (genesis L)); [discriminate|].
  destruct (_ && _); [discriminate|].
  destruct (has_trx L _); [discriminate|].
  assert (Fin : forall L2 l r0, In l (dag L2) /\ has_child L2 (nhash l) = false -> In r0 (dag L2) /\ has_child L2 (nhash r0) = false ->
    (let v0 := Vtx newh (nhash l) (nhash r0) (wrap (Z.max (v_weight (nv l)) (v_weight (nv r0)) + 1)) (self L) vok t in
      if has_trx L2 (t_hash t) then (L2, RRejected, None) else
      if live L2 newh then (L2, RRejected, None) else
      (insert L2 v0 (dedup2 (nhash l) (nhash r0)), ROk, Some v0)) = (L', ROk, Some v) ->
    exists l r L2, In l (dag L2) /\ In r (dag L2) /\ has_child L2 (nhash l) = false /\ has_child L2 (nhash r) = false /\
    L' = insert L2 v (dedup2 (nhash l) (nhash r)) /\
    v_left v = nhash l /\ v_right v = nhash r /\ v_signer v = self L /\ v_trx v = t /\ v_hash v = newh /\
    v_weight v = wrap (Z.max (v_weight (nv l)) (v_weight (nv r)) + 1)).
  { intros L2 l r0 [Hl1 Hl2] [Hr1 Hr2]. cbn zeta.
    destruct (has_trx L2 _); [discriminate|]. destruct (live L2 newh); [discriminate|].
    intros H; inversion H; subst. exists l, r0, L2. repeat split; auto. }
  destruct (valid_leaves L o1 [] false b) as [[[L1 acc] e1] b1] eqn:Ev1.
  pose proof (valid_leaves_acc _ _ _ _ _ _ _ _ _ (fun m (F : In m []) => match F with end) Ev1) as Hacc1.
  destruct e1; [discriminate|].
  destruct acc as [|l [|r0 rest]].
  - destruct (valid_leaves L1 o2 [] false b1) as [[[L2 acc2] e2] b2] eqn:Ev2.
    pose proof (valid_leaves_acc _ _ _ _ _ _ _ _ _ (fun m (F : In m []) => match F with end) Ev2) as Hacc2.
    destruct e2, acc2 as [|l [|r0 rest]]; try discriminate; intros H; eapply Fin; try exact H; apply Hacc2; cbn; auto.
  - intros H; eapply Fin; try exact H; apply Hacc1; cbn; auto.
  - intros H; eapply Fin; try exact H; apply Hacc1; cbn; auto.
Qed.

(* ---------------------------------------------------------------- consequences stated property by property *)

(* C03 *)
Lemma reach_unique me L : reach me L ->
  NoDup (map v_hash (vertices L)) /\ NoDup (map thash (vertices L)) /\
  (forall v, In v (vertices L) -> assoc (thash v) (index L) = Some (v_hash v)) /\
  (forall th vh, assoc th (index L) = Some vh -> exists v, In v (vertices L) /\ thash v = th /\ v_hash v = vh).
Proof. intros R. destruct (reach_Inv _ _ R). auto. Qed.

(* re-offering something the ledger holds is refused and changes nothing *)
Lemma replay_vertex_rejected L v b :
  Inv L -> loaded L = true -> In v (vertices L) -> adm_ok v -> t_issuer (v_trx v) <> genesis L ->
  ~ (t_receiver (v_trx v) = genesis L /\ is_spice (v_trx v) = true) ->
  add_leaf L v b = (L, RVertexExists).
Proof.
  intros I Hl Hv [A1 [A2 A3]] Hg Hr. unfold add_leaf. rewrite Hl. cbn [negb].
  destruct (N.eqb_spec (t_issuer (v_trx v)) (v_signer v)); [contradiction|].
  rewrite A2, A3. cbn [negb]. unfold add_leaf_mem.
  destruct (N.eqb_spec (t_issuer (v_trx v)) (genesis L)); [contradiction|].
  destruct (N.eqb_spec (t_receiver (v_trx v)) (genesis L)) as [Er|Er]; cbn [andb].
  - destruct (is_spice (v_trx v)) eqn:Es; [exfalso; apply Hr; auto|].
    assert (X : live L (v_hash v) || stored L (v_hash v) = true).
    { unfold vertices in Hv. apply in_app_or in Hv. apply orb_true_iff. destruct Hv as [Hv|Hv].
      - left. apply live_iff. apply in_map_iff in Hv. destruct Hv as [nn [E Hn]]. apply in_map_iff. exists nn. unfold nhash. rewrite E. auto.
      - right. apply stored_iff. apply in_map. exact Hv. }
    rewrite X. reflexivity.
  - assert (X : live L (v_hash v) || stored L (v_hash v) = true).
    { unfold vertices in Hv. apply in_app_or in Hv. apply orb_true_iff. destruct Hv as [Hv|Hv].
      - left. apply live_iff. apply in_map_iff in Hv. destruct Hv as [nn [E Hn]]. apply in_map_iff. exists nn. unfold nhash. rewrite E. auto.
      - right. apply stored_iff. apply in_map. exact Hv. }
    rewrite X. reflexivity.
Qed.

(* a held transaction wrapped in a NEW vertex (any sealer, any parents) is refused, ledger unchanged *)
Lemma replay_trx_in_new_vertex_rejected L v u b :
  Inv L -> In u (vertices L) -> thash v = thash u -> ~ In (v_hash v) (map v_hash (vertices L)) ->
  exists r, add_leaf L v b = (L, r) /\ r <> ROk /\ r <> RParentMissing.
Proof.
  intros I Hu Et Hf. unfold add_leaf.
  destruct (loaded L); cbn [negb]; [|eexists; split; [reflexivity|split; discriminate]].
  destruct (N.eqb _ (v_signer v)); [eexists; split; [reflexivity|split; discriminate]|].
  destruct (is_empty_trx _); [eexists; split; [reflexivity|split; discriminate]|].
  destruct (canonb _); cbn [negb]; [|eexists; split; [reflexivity|split; discriminate]].
  unfold add_leaf_mem.
  destruct (N.eqb _ (genesis L)); [eexists; split; [reflexivity|split; discriminate]|].
  destruct (_ && _); [eexists; split; [reflexivity|split; discriminate]|].
  destruct (_ || _); [eexists; split; [reflexivity|split; discriminate]|].
  assert (X : has_trx L (t_hash (v_trx v)) = true).
  { unfold has_trx. fold (thash v). rewrite Et. rewrite (inv_idx1 _ I _ Hu). reflexivity. }
  rewrite X. eexists; split; [reflexivity|split; discriminate].
Qed.

Lemma replay_proposal_rejected L t u o1 o2 newh vok b :
  Inv L -> In u (vertices L) -> t_hash t = thash u ->
  exists r, create_leaf L t o1 o2 newh vok b = (L, r, None) /\ r <> ROk.
Proof.
  intros I Hu Et. unfold create_leaf.
  destruct (loaded L); cbn [negb]; [|eexists; split; [reflexivity|discriminate]].
  destruct (is_empty_trx t); [eexists; split; [reflexivity|discriminate]|].
  destruct (canonb _); cbn [negb]; [|eexists; split; [reflexivity|discriminate]].
  destruct (N.eqb _ (self L)); [eexists; split; [reflexivity|discriminate]|].
  destruct (N.eqb _ (genesis L)); [eexists; split; [reflexivity|discriminate]|].
  destruct (_ && _); [eexists; split; [reflexivity|discriminate]|].
  assert (X : has_trx L (t_hash t) = true).
  { unfold has_trx. rewrite Et. rewrite (inv_idx1 _ I _ Hu). reflexivity. }
  rewrite X. eexists; split; [reflexivity|discriminate].
Qed.

(* a transaction whose tentative vertex was dropped can be proposed again *)
Lemma dropped_trx_free L n : Inv L -> In n (dag L) ->
  has_trx (drop_tip L n) (thash (nv n)) = false /\ live (drop_tip L n) (nhash n) = false.
Proof.
  intros I Hn. split.
  - unfold has_trx, drop_tip, rm_tip, bump, thash. cbn [index set_index set_dag set_wt]. rewrite assoc_del_eq. reflexivity.
  - apply live_false. unfold drop_tip, rm_tip, bump. cbn. intros Hin. apply del_node_hashes in Hin. destruct Hin as [_ Hne].
    apply Hne. reflexivity.
Qed.

(* C10 / C05 (ledger part) *)
Lemma reach_sealing me L : reach me L -> forall v, In v (vertices L) -> seal_ok (genesis L) v.
Proof. intros R. exact (inv_seal _ (reach_Inv _ _ R)). Qed.

Lemma reach_canonical me L : reach me L -> forall v, In v (vertices L) -> canon (t_spice (v_trx v)).
Proof.
  intros R v Hv. destruct (reach_sealing _ _ R v Hv) as [Hc _].
  unfold canonb in Hc. unfold canon. repeat (apply andb_true_iff in Hc; destruct Hc as [Hc ?]).
  repeat match goal with H : (_ <=? _) = true |- _ => apply Z.leb_le in H | H : (_ <? _) = true |- _ => apply Z.ltb_lt in H end.
  lia.
Qed.

(* the admission guards as implications on the entry points (any state) *)
Lemma gossip_guards : forall L v b L' r, add_leaf L v b = (L', r) ->
  (t_issuer (v_trx v) = v_signer v \/ is_empty_trx (v_trx v) = true) -> L' = L /\ r <> ROk.
Proof.
  intros L v b L' r H Hbad. unfold add_leaf in H.
  destruct (loaded L); cbn [negb] in H; [|inversion H; split; [reflexivity|discriminate]].
  destruct (N.eqb_spec (t_issuer (v_trx v)) (v_signer v)) as [E|E]; [inversion H; split; [reflexivity|discriminate]|].
  destruct (is_empty_trx (v_trx v)) eqn:Ee; [inversion H; split; [reflexivity|discriminate]|].
  destruct Hbad; [contradiction|discriminate].
Qed.

Lemma proposal_guards : forall L t o1 o2 h vok b L' r ov, create_leaf L t o1 o2 h vok b = (L', r, ov) ->
  (t_issuer t = self L \/ t_issuer t = genesis L \/ is_empty_trx t = true) -> L' = L /\ r <> ROk /\ ov = None.
Proof.
  intros L t o1 o2 h vok b L' r ov H Hbad. unfold create_leaf in H.
  destruct (loaded L); cbn [negb] in H; [|inversion H; repeat split; discriminate].
  destruct (is_empty_trx t) eqn:Ee; [inversion H; repeat split; discriminate|].
  destruct (canonb (t_spice t)); cbn [negb] in H; [|inversion H; repeat split; discriminate].
  destruct (N.eqb_spec (t_issuer t) (self L)); [inversion H; repeat split; discriminate|].
  destruct (N.eqb_spec (t_issuer t) (genesis L)); [inversion H; repeat split; discriminate|].
  destruct Hbad as [?|[?|?]]; [contradiction|contradiction|discriminate].
Qed.

Lemma genesis_receiver_not_issuer : forall L amt data th h vok L' r,
  create_genesis L (self L) amt data th h vok = (L', r) -> L' = L /\ r = RRejected.
Proof.
  intros L amt data th h vok L' r H. unfold create_genesis in H. rewrite N.eqb_refl in H. inversion H. auto.
Qed.

(* a vertex that does not verify is refused before anything is touched: never admitted, never parked *)
Lemma unverified_rejected L v b : v_ok v = false ->
  exists r, add_leaf L v b = (L, r) /\ r <> ROk /\ r <> RParentMissing.
Proof.
  intros Hv. unfold add_leaf.
  destruct (loaded L); cbn [negb]; [|eexists; split; [reflexivity|split; discriminate]].
  destruct (N.eqb _ (v_signer v)); [eexists; split; [reflexivity|split; discriminate]|].
  destruct (is_empty_trx _); [eexists; split; [reflexivity|split; discriminate]|].
  destruct (canonb _); cbn [negb]; [|eexists; split; [reflexivity|split; discriminate]].
  unfold add_leaf_mem.
  destruct (N.eqb _ (genesis L)); [eexists; split; [reflexivity|split; discriminate]|].
  destruct (_ && _); [eexists; split; [reflexivity|split; discriminate]|].
  destruct (_ || _); [eexists; split; [reflexivity|split; discriminate]|].
  destruct (has_trx L _); [eexists; split; [reflexivity|split; discriminate]|].
  rewrite Hv. cbn [negb]. eexists; split; [reflexivity|split; discriminate].
Qed.

Lemma retry_unverified_rejected L v rep b : v_ok v = false ->
  exists r, add_leaf_mem L v rep b = (L, r) /\ r <> ROk /\ r <> RParentMissing.
Proof.
  intros Hv. unfold add_leaf_mem.
  destruct (N.eqb _ (genesis L)); [eexists; split; [reflexivity|split; discriminate]|].
  destruct (_ && _); [eexists; split; [reflexivity|split; discriminate]|].
  destruct (_ || _); [eexists; split; [reflexivity|split; discriminate]|].
  destruct (has_trx L _); [eexists; split; [reflexivity|split; discriminate]|].
  rewrite Hv. cbn [negb]. eexists; split; [reflexivity|split; discriminate].
Qed.

Lemma unverified_never_admitted L v b : v_ok v = false ->
  (exists r, add_leaf L v b = (L, r) /\ r <> ROk /\ r <> RParentMissing) /\
  (forall rep, exists r, add_leaf_mem L v rep b = (L, r) /\ r <> ROk /\ r <> RParentMissing).
Proof. intros H. split; [apply unverified_rejected|intros rep; apply retry_unverified_rejected]; exact H. Qed.

(* ---------------------------------------------------------------- amounts held by reachable ledgers are canonical *)
Lemma lstep_funds_canon L o : Inv L -> funds_canon (st_funds L) -> funds_canon (st_funds (lstep L o)).
Proof.
  intros I Hf. destruct o; cbn [lstep].
  - unfold create_genesis. destruct (N.eqb _ _); [exact Hf|]. destruct (canonb _); cbn [negb]; [|exact Hf].
    destruct (has_trx _ _); [exact Hf|]. destruct (live _ _); exact Hf.
  - destruct (create_leaf L t o1 o2 newh vok b) as [[L' r] ov] eqn:E. cbn.
    unfold create_leaf in E.
    destruct (loaded L); cbn [negb] in E; [|inversion E; subst; exact Hf].
    destruct (is_empty_trx t); [inversion E; subst; exact Hf|].
    destruct (canonb _); cbn [negb] in E; [|inversion E; subst; exact Hf].
    destruct (N.eqb _ (self L)); [inversion E; subst; exact Hf|].
    destruct (N.eqb _ (genesis L)); [inversion E; subst; exact Hf|].
    destruct (_ && _); [inversion E; subst; exact Hf|].
    destruct (has_trx L _); [inversion E; subst; exact Hf|].
    destruct (valid_leaves L o1 [] false b) as [[[L1 acc] e1] b1] eqn:Ev1.
    destruct (valid_leaves_store _ _ _ _ _ _ _ _ _ Ev1) as [_ [S1 _]].
    assert (Fin : forall L2 l r0, st_funds L2 = st_funds L ->
      (let v := Vtx newh (nhash l) (nhash r0) (wrap (Z.max (v_weight (nv l)) (v_weight (nv r0)) + 1)) (self L) vok t in
        if has_trx L2 (t_hash t) then (L2, RRejected, None) else
        if live L2 newh then (L2, RRejected, None) else
        (insert L2 v (dedup2 (nhash l) (nhash r0)), ROk, Some v)) = (L', r, ov) -> funds_canon (st_funds L')).
    { intros L2 l r0 S2. cbn zeta. destruct (has_trx L2 _); [intros X; inversion X; subst; rewrite S2; exact Hf|].
      destruct (live L2 newh); intros X; inversion X; subst; cbn; rewrite S2; exact Hf. }
    destruct e1; [inversion E; subst; rewrite S1; exact Hf|].
    destruct acc as [|l [|r0 rest]]; [|eapply Fin; eauto|eapply Fin; eauto].
    destruct (valid_leaves L1 o2 [] false b1) as [[[L2 acc2] e2] b2] eqn:Ev2.
    destruct (valid_leaves_store _ _ _ _ _ _ _ _ _ Ev2) as [_ [S2 _]].
    destruct e2, acc2 as [|l [|r0 rest]]; try (inversion E; subst; rewrite S2, S1; exact Hf); eapply Fin; try exact E; congruence.
  - destruct (add_leaf L v b) as [L' r] eqn:E. cbn. unfold add_leaf in E.
    destruct (loaded L) eqn:Hl; cbn [negb] in E; [|inversion E; subst; exact Hf].
    destruct (N.eqb_spec (t_issuer (v_trx v)) (v_signer v)); [inversion E; subst; exact Hf|].
    destruct (is_empty_trx _) eqn:Ee; [inversion E; subst; exact Hf|].
    destruct (canonb _) eqn:Ec; cbn [negb] in E; [|inversion E; subst; exact Hf].
    destruct (add_leaf_mem_inv _ _ _ _ _ _ I Hl (conj n (conj Ee Ec)) E) as [_ [_ [_ [_ [_ [S _]]]]]]. rewrite S. exact Hf.
  - destruct (retry_one L b) as [L' r] eqn:E. cbn. unfold retry_one in E.
    destruct (parked L) as [|[v rep] rest] eqn:Ep; [inversion E; subst; exact Hf|].
    destruct (add_leaf_mem (set_parked L rest) v rep b) as [L1 r1] eqn:Ea. inversion E; subst.
    assert (Hl : loaded L = true).
    { destruct (loaded L) eqn:Hl; [reflexivity|]. destruct (inv_unl _ I Hl) as [_ [_ [Hp _]]]. congruence. }
    assert (Hv : adm_ok v) by (eapply inv_park; [exact I|rewrite Ep; left; reflexivity]).
    assert (I' : Inv (set_parked L rest)).
    { apply Inv_set_parked; auto. intros u r Hin. eapply inv_park; [exact I|rewrite Ep; right; exact Hin]. }
    destruct (add_leaf_mem_inv _ _ _ _ _ _ I' Hl Hv Ea) as [_ [_ [_ [_ [_ [S _]]]]]]. rewrite S. exact Hf.
  - destruct (truncate L tip cut a32) as [L' r] eqn:E. cbn. eapply truncate_funds_canon; [exact Hf| |exact E].
    intros m Hm. assert (Hv : In (nv m) (vertices L)) by (unfold vertices; apply in_or_app; left; apply in_map; exact Hm).
    destruct (inv_seal _ I _ Hv) as [Hc _]. unfold canonb in Hc. unfold canon.
    repeat (apply andb_true_iff in Hc; destruct Hc as [Hc ?]).
    repeat match goal with H : (_ <=? _) = true |- _ => apply Z.leb_le in H | H : (_ <? _) = true |- _ => apply Z.ltb_lt in H end. lia.
  - exact Hf.
  - exact Hf.
Qed.

Lemma reach_amounts_canon me L : reach me L -> amounts_canon L.
Proof.
  intros R. split.
  - intros m Hm. apply (reach_canonical _ _ R). unfold vertices. apply in_or_app. left. apply in_map. exact Hm.
  - apply funds_of_canon. induction R as [|L o R IH Hok]; [intros a m []|].
    apply lstep_funds_canon; [eapply reach_Inv; eauto|exact IH].
Qed.

(* ---------------------------------------------------------------- C01: a tip gets a child only if it is covered in its own history *)
Lemma gossip_confirms_only_covered me L v b L' : reach me L -> add_leaf L v b = (L', ROk) ->
  forall h p, In h (decl v) -> find_node h (dag L) = Some p -> has_child L h = false -> covered L p.
Proof.
  intros R H h p Hin Hf Hc. unfold add_leaf in H.
  destruct (loaded L); cbn [negb] in H; [|inversion H].
  destruct (N.eqb _ (v_signer v)); [inversion H|]. destruct (is_empty_trx _); [inversion H|].
  destruct (canonb _); cbn [negb] in H; [|inversion H]. unfold add_leaf_mem in H.
  destruct (N.eqb _ (genesis L)); [inversion H|]. destruct (_ && _); [inversion H|].
  destruct (_ || _); [inversion H|]. destruct (has_trx L _); [inversion H|].
  destruct (v_ok v); cbn [negb] in H; [|inversion H].
  destruct (link_parents L v 0 [v_left v; v_right v] [] b) as [[[L1 r1] ps] b1] eqn:El.
  destruct r1; try (inversion H; fail).
  eapply link_parents_covered; [apply (reach_amounts_canon _ _ R)|exact El|exact Hin|exact Hf|exact Hc].
Qed.

Lemma retry_confirms_only_covered me L v rep b L' : reach me L -> add_leaf_mem L v rep b = (L', ROk) ->
  forall h p, In h (decl v) -> find_node h (dag L) = Some p -> has_child L h = false -> covered L p.
Proof.
  intros R H h p Hin Hf Hc. unfold add_leaf_mem in H.
  destruct (N.eqb _ (genesis L)); [inversion H|]. destruct (_ && _); [inversion H|].
  destruct (_ || _); [inversion H|]. destruct (has_trx L _); [inversion H|].
  destruct (v_ok v); cbn [negb] in H; [|inversion H].
  destruct (link_parents L v rep [v_left v; v_right v] [] b) as [[[L1 r1] ps] b1] eqn:El.
  destruct r1; try (inversion H; fail).
  eapply link_parents_covered; [apply (reach_amounts_canon _ _ R)|exact El|exact Hin|exact Hf|exact Hc].
Qed.

Lemma proposal_confirms_only_covered me L t o1 o2 newh vok b L' v : reach me L ->
  create_leaf L t o1 o2 newh vok b = (L', ROk, Some v) ->
  exists l r L2, L' = insert L2 v (dedup2 (nhash l) (nhash r)) /\ v_left v = nhash l /\ v_right v = nhash r /\
    In l (dag L2) /\ In r (dag L2) /\ has_child L2 (nhash l) = false /\ has_child L2 (nhash r) = false /\
    covered L2 l /\ covered L2 r.
Proof.
  intros R. pose proof (reach_amounts_canon _ _ R) as Hc. unfold create_leaf.
  destruct (loaded L); cbn [negb]; [|discriminate].
  destruct (is_empty_trx t); [discriminate|].
  destruct (canonb _); cbn [negb]; [|discriminate].
  destruct (N.eqb _ (self L)); [discriminate|].
  destruct (N.eqb _ (genesis L)); [discriminate|].
  destruct (_ && _); [discriminate|].
  destruct (has_trx L _); [discriminate|].
  assert (Fin : forall L2 l r0,
    (In l (dag L2) /\ has_child L2 (nhash l) = false /\ covered L2 l) ->
    (In r0 (dag L2) /\ has_child L2 (nhash r0) = false /\ covered L2 r0) ->
    (let v0 := Vtx newh (nhash l) (nhash r0) (wrap (Z.max (v_weight (nv l)) (v_weight (nv r0)) + 1)) (self L) vok t in
      if has_trx L2 (t_hash t) then (L2, RRejected, None) else
      if live L2 newh then (L2, RRejected, None) else
      (insert L2 v0 (dedup2 (nhash l) (nhash r0)), ROk, Some v0)) = (L', ROk, Some v) ->
    exists l r L2, L' = insert L2 v (dedup2 (nhash l) (nhash r)) /\ v_left v = nhash l /\ v_right v = nhash r /\
      In l (dag L2) /\ In r (dag L2) /\ has_child L2 (nhash l) = false /\ has_child L2 (nhash r) = false /\
      covered L2 l /\ covered L2 r).
  { intros L2 l r0 [A1 [A2 A3]] [B1 [B2 B3]]. cbn zeta.
    destruct (has_trx L2 _); [discriminate|]. destruct (live L2 newh); [discriminate|].
    intros H; inversion H; subst. exists l, r0, L2. repeat split; auto. }
  destruct (valid_leaves L o1 [] false b) as [[[L1 acc] e1] b1] eqn:Ev1.
  destruct (valid_leaves_covered _ _ _ _ _ _ _ _ _ Hc (fun m (F : In m []) => match F with end) Ev1) as [Hc1 Hacc1].
  destruct e1; [discriminate|].
  destruct acc as [|l [|r0 rest]].
  - destruct (valid_leaves L1 o2 [] false b1) as [[[L2 acc2] e2] b2] eqn:Ev2.
    destruct (valid_leaves_covered _ _ _ _ _ _ _ _ _ Hc1 (fun m (F : In m []) => match F with end) Ev2) as [Hc2 Hacc2].
    destruct e2, acc2 as [|l [|r0 rest]]; try discriminate; intros H; eapply Fin; try exact H; apply Hacc2; cbn; auto.
  - intros H; eapply Fin; try exact H; apply Hacc1; cbn; auto.
  - intros H; eapply Fin; try exact H; apply Hacc1; cbn; auto.
Qed.

(* a tip that fails the test is dropped (vertex, edges, index entry) instead of being built upon *)
Lemma failing_tip_dropped L n b r b' e :
  find_node (nhash n) (dag L) = Some n -> has_child L (nhash n) = false -> validate L n b = (r, b') -> r <> VOk ->
  valid_leaves L [nhash n] [] e b = (((drop_tip L n, []), true), b').
Proof.
  intros Hf Hc Hv Hr. cbn [valid_leaves length Nat.leb]. rewrite Hf, Hc. cbn [orb nmem map existsb]. rewrite Hv.
  destruct r; try reflexivity. contradiction.
Qed.

(* truncation checkpoints only vertices that already had a child *)
Lemma anc_pass_wanted l : forall w m, In m (anc_pass w l) -> In (nhash m) w \/ exists x, In x l /\ In (nhash m) (lp x).
Proof.
  induction l as [|x r IH]; intros w m Hm; cbn [anc_pass] in Hm; [destruct Hm|].
  destruct (nmem (nhash x) w) eqn:Ew.
  - destruct Hm as [E|Hm]; [subst m; left; apply nmem_In; exact Ew|].
    destruct (IH _ _ Hm) as [Hin|[y [Hy Hp]]].
    + apply in_app_or in Hin. destruct Hin as [Hin|Hin]; [right; exists x; split; [left; reflexivity|exact Hin]|left; exact Hin].
    + right. exists y. split; [right; exact Hy|exact Hp].
  - destruct (IH _ _ Hm) as [Hin|[y [Hy Hp]]]; [left; exact Hin|right; exists y; split; [right; exact Hy|exact Hp]].
Qed.
Lemma anc_from_has_child h l m : In m (anc_from h l) -> exists x, In x l /\ In (nhash m) (lp x).
Proof.
  induction l as [|x r IH]; cbn [anc_from]; [intros []|]. destruct (N.eqb (nhash x) h).
  - intros Hm. destruct (anc_pass_wanted _ _ _ Hm) as [Hin|[y [Hy Hp]]].
    + exists x. split; [left; reflexivity|exact Hin].
    + exists y. split; [right; exact Hy|exact Hp].
  - intros Hm. destruct (IH Hm) as [y [Hy Hp]]. exists y. split; [right; exact Hy|exact Hp].
Qed.
Lemma truncate_checkpoints_confirmed L tip cut a32 L' r : truncate L tip cut a32 = (L', r) ->
  forall v, In v (st_vtx L') -> In v (st_vtx L) \/ exists n, In n (dag L) /\ nv n = v /\ has_child L (nhash n) = true.
Proof.
  intros H v Hv. unfold truncate in H. destruct (leaves L) as [|lf0 lfs0]; [inversion H; subst; left; exact Hv|].
  destruct (_ || _); [inversion H; subst; left; exact Hv|]. destruct (existsb _ _); inversion H; subst; [left; exact Hv|].
  cbn [st_vtx set_dag set_store] in Hv. apply in_app_or in Hv. destruct Hv as [Hv|Hv]; [left; exact Hv|right].
  apply in_map_iff in Hv. destruct Hv as [n [E Hn]]. exists n. split; [eapply ancestors_sub; eauto|]. split; [exact E|].
  destruct (anc_from_has_child _ _ _ Hn) as [x [Hx Hp]]. unfold has_child. apply existsb_exists. exists x.
  split; [exact Hx|apply nmem_In; exact Hp].
Qed.

From Coq Require Import Permutation.
Lemma sumZ_perm f a b : Permutation a b -> sumZ f a = sumZ f b.
Proof. unfold sumZ. induction 1; cbn; lia. Qed.
(* on a chain (the tip's history is the whole live graph) coverage is the wallet's solvency over everything *)
Lemma covers_on_chain L n : Permutation (history L n) (map nv (dag L)) -> coversZ L n ->
  let a := t_issuer (v_trx (nv n)) in
  valZ (funds_of L a) + sumZ (inZ a) (map nv (dag L)) >= sumZ (outZ a) (map nv (dag L)).
Proof. intros P H. unfold coversZ in H. cbn zeta in *. rewrite <- !(sumZ_perm _ _ _ P). exact H. Qed.
