(* Proofs/LedgerReach.v — reachable ledgers: every sequence of entry-point calls with arbitrary
   arguments and arbitrary hints.  Whatever the rest of the network does reaches one node as such
   a sequence (DESIGN 1), so an invariant of all reachable ledgers holds on every node of every
   network under every schedule (given the atomicity of the locked regions). *)
From Verif Require Import U64 Spice RepoConstants Ledger ListFacts LedgerInv.
From Coq Require Import NArith Permutation.

Inductive lop :=
  | LGenesis (recv : N) (amt : mel) (data : bool) (th h : N) (vok : bool)
  | LCreate (t : trx) (o1 o2 : list N) (newh : N) (vok : bool) (b : budget)
  | LAdd (v : vertex) (b : budget)
  | LRetry (b : budget)
  | LTruncate (tip cut : node) (a32 : list N)
  | LTrust (a : N)
  | LUntrust (a : N).

Definition lstep (L : ledger) (o : lop) : ledger :=
  match o with
  | LGenesis recv amt data th h vok => fst (create_genesis L recv amt data th h vok)
  | LCreate t o1 o2 newh vok b => fst (fst (create_leaf L t o1 o2 newh vok b))
  | LAdd v b => fst (add_leaf L v b)
  | LRetry b => fst (retry_one L b)
  | LTruncate tip cut a32 => fst (truncate L tip cut a32)
  | LTrust a => add_trusted L a
  | LUntrust a => remove_trusted L a
  end.

(* side conditions on hints: a hash produced by the node itself is new (sha256 collision freeness,
   H-sha), and CreateGenesis is the start-up call of a node that has no ledger yet *)
Definition lop_ok (L : ledger) (o : lop) : Prop :=
  match o with
  | LGenesis _ _ _ _ _ _ => loaded L = false
  | LCreate _ _ _ newh _ _ => fresh L newh
  | _ => True
  end.

Inductive reach (me : N) : ledger -> Prop :=
  | reach_init : reach me (init me)
  | reach_step : forall L o, reach me L -> lop_ok L o -> reach me (lstep L o).

Lemma lstep_Inv L o : Inv L -> lop_ok L o -> Inv (lstep L o).
Proof.
  intros I Hok. destruct o; cbn [lstep lop_ok] in *.
  - destruct (create_genesis L recv amt data th h vok) eqn:E. eapply create_genesis_inv; eauto.
  - destruct (create_leaf L t o1 o2 newh vok b) as [[L' r] ov] eqn:E. eapply create_leaf_inv; eauto.
  - destruct (add_leaf L v b) eqn:E. eapply add_leaf_inv; eauto.
  - destruct (retry_one L b) eqn:E. eapply retry_one_inv; eauto.
  - destruct (truncate L tip cut a32) eqn:E. eapply truncate_inv; eauto.
  - apply Inv_set_trusted. exact I.
  - apply Inv_set_trusted. exact I.
Qed.

Theorem reach_Inv me L : reach me L -> Inv L.
Proof. induction 1; [apply Inv_init|apply lstep_Inv; assumption]. Qed.

(* ---------------------------------------------------------------- consequences stated property by property *)

(* C03 *)
Lemma reach_unique me L : reach me L ->
  NoDup (map v_hash (vertices L)) /\ NoDup (map thash (vertices L)) /\
  (forall v, In v (vertices L) -> assoc (thash v) (index L) = Some (v_hash v)) /\
  (forall th vh, assoc th (index L) = Some vh -> exists v, In v (vertices L) /\ thash v = th /\ v_hash v = vh).
Proof. intros R. destruct (reach_Inv _ _ R). auto. Qed.

(* re-offering something the ledger holds is refused and changes nothing *)
Lemma replay_vertex_rejected L v b :
  Inv L -> loaded L = true -> In v (vertices L) -> adm_ok v -> t_issuer (v_trx v) <> genesis L ->
  ~ (t_receiver (v_trx v) = genesis L /\ is_spice (v_trx v) = true) ->
  add_leaf L v b = (L, RVertexExists).
Proof.
  intros I Hl Hv [A1 [A2 A3]] Hg Hr. unfold add_leaf. rewrite Hl. cbn [negb].
  destruct (N.eqb_spec (t_issuer (v_trx v)) (v_signer v)); [contradiction|].
  rewrite A2, A3. cbn [negb]. unfold add_leaf_mem.
  destruct (N.eqb_spec (t_issuer (v_trx v)) (genesis L)); [contradiction|].
  destruct (N.eqb_spec (t_receiver (v_trx v)) (genesis L)) as [Er|Er]; cbn [andb].
  - destruct (is_spice (v_trx v)) eqn:Es; [exfalso; apply Hr; auto|].
    assert (X : live L (v_hash v) || stored L (v_hash v) = true).
    { unfold vertices in Hv. apply in_app_or in Hv. apply orb_true_iff. destruct Hv as [Hv|Hv].
      - left. apply live_iff. apply in_map_iff in Hv. destruct Hv as [nn [E Hn]]. apply in_map_iff. exists nn. unfold nhash. rewrite E. auto.
      - right. apply stored_iff. apply in_map. exact Hv. }
    rewrite X. reflexivity.
  - assert (X : live L (v_hash v) || stored L (v_hash v) = true).
    { unfold vertices in Hv. apply in_app_or in Hv. apply orb_true_iff. destruct Hv as [Hv|Hv].
      - left. apply live_iff. apply in_map_iff in Hv. destruct Hv as [nn [E Hn]]. apply in_map_iff. exists nn. unfold nhash. rewrite E. auto.
      - right. apply stored_iff. apply in_map. exact Hv. }
    rewrite X. reflexivity.
Qed.

(* a held transaction wrapped in a NEW vertex (any sealer, any parents) is refused, ledger unchanged *)
Lemma replay_trx_in_new_vertex_rejected L v u b :
  Inv L -> In u (vertices L) -> thash v = thash u -> ~ In (v_hash v) (map v_hash (vertices L)) ->
  exists r, add_leaf L v b = (L, r) /\ r <> ROk /\ r <> RParentMissing.
Proof.
  intros I Hu Et Hf. unfold add_leaf.
  destruct (loaded L); cbn [negb]; [|eexists; split; [reflexivity|split; discriminate]].
  destruct (N.eqb _ (v_signer v)); [eexists; split; [reflexivity|split; discriminate]|].
  destruct (is_empty_trx _); [eexists; split; [reflexivity|split; discriminate]|].
  destruct (canonb _); cbn [negb]; [|eexists; split; [reflexivity|split; discriminate]].
  unfold add_leaf_mem.
  destruct (N.eqb _ (genesis L)); [eexists; split; [reflexivity|split; discriminate]|].
  destruct (_ && _); [eexists; split; [reflexivity|split; discriminate]|].
  destruct (_ || _); [eexists; split; [reflexivity|split; discriminate]|].
  assert (X : has_trx L (t_hash (v_trx v)) = true).
  { unfold has_trx. fold (thash v). rewrite Et. rewrite (inv_idx1 _ I _ Hu). reflexivity. }
  rewrite X. eexists; split; [reflexivity|split; discriminate].
Qed.

Lemma replay_proposal_rejected L t u o1 o2 newh vok b :
  Inv L -> In u (vertices L) -> t_hash t = thash u ->
  exists r, create_leaf L t o1 o2 newh vok b = (L, r, None) /\ r <> ROk.
Proof.
  intros I Hu Et. unfold create_leaf.
  destruct (loaded L); cbn [negb]; [|eexists; split; [reflexivity|discriminate]].
  destruct (is_empty_trx t); [eexists; split; [reflexivity|discriminate]|].
  destruct (canonb _); cbn [negb]; [|eexists; split; [reflexivity|discriminate]].
  destruct (N.eqb _ (self L)); [eexists; split; [reflexivity|discriminate]|].
  destruct (N.eqb _ (genesis L)); [eexists; split; [reflexivity|discriminate]|].
  destruct (_ && _); [eexists; split; [reflexivity|discriminate]|].
  assert (X : has_trx L (t_hash t) = true).
  { unfold has_trx. rewrite Et. rewrite (inv_idx1 _ I _ Hu). reflexivity. }
  rewrite X. eexists; split; [reflexivity|discriminate].
Qed.

(* a transaction whose tentative vertex was dropped can be proposed again *)
Lemma dropped_trx_free L n : Inv L -> In n (dag L) ->
  has_trx (drop_tip L n) (thash (nv n)) = false /\ live (drop_tip L n) (nhash n) = false.
Proof.
  intros I Hn. split.
  - unfold has_trx, drop_tip, rm_tip, bump, thash. cbn [index set_index set_dag set_wt]. rewrite assoc_del_eq. reflexivity.
  - apply live_false. unfold drop_tip, rm_tip, bump. cbn. intros Hin. apply del_node_hashes in Hin. destruct Hin as [_ Hne].
    apply Hne. reflexivity.
Qed.

(* C10 / C05 (ledger part) *)
Lemma reach_sealing me L : reach me L -> forall v, In v (vertices L) -> seal_ok (genesis L) v.
Proof. intros R. exact (inv_seal _ (reach_Inv _ _ R)). Qed.

Lemma reach_canonical me L : reach me L -> forall v, In v (vertices L) -> canon (t_spice (v_trx v)).
Proof.
  intros R v Hv. destruct (reach_sealing _ _ R v Hv) as [Hc _].
  unfold canonb in Hc. unfold canon. repeat (apply andb_true_iff in Hc; destruct Hc as [Hc ?]).
  repeat match goal with H : (_ <=? _) = true |- _ => apply Z.leb_le in H | H : (_ <? _) = true |- _ => apply Z.ltb_lt in H end.
  lia.
Qed.

(* the admission guards as implications on the entry points (any state) *)
Lemma gossip_guards : forall L v b L' r, add_leaf L v b = (L', r) ->
  (t_issuer (v_trx v) = v_signer v \/ is_empty_trx (v_trx v) = true) -> L' = L /\ r <> ROk.
Proof.
  intros L v b L' r H Hbad. unfold add_leaf in H.
  destruct (loaded L); cbn [negb] in H; [|inversion H; split; [reflexivity|discriminate]].
  destruct (N.eqb_spec (t_issuer (v_trx v)) (v_signer v)) as [E|E]; [inversion H; split; [reflexivity|discriminate]|].
  destruct (is_empty_trx (v_trx v)) eqn:Ee; [inversion H; split; [reflexivity|discriminate]|].
  destruct Hbad; [contradiction|discriminate].
Qed.

Lemma proposal_guards : forall L t o1 o2 h vok b L' r ov, create_leaf L t o1 o2 h vok b = (L', r, ov) ->
  (t_issuer t = self L \/ t_issuer t = genesis L \/ is_empty_trx t = true) -> L' = L /\ r <> ROk /\ ov = None.
Proof.
  intros L t o1 o2 h vok b L' r ov H Hbad. unfold create_leaf in H.
  destruct (loaded L); cbn [negb] in H; [|inversion H; repeat split; discriminate].
  destruct (is_empty_trx t) eqn:Ee; [inversion H; repeat split; discriminate|].
  destruct (canonb (t_spice t)); cbn [negb] in H; [|inversion H; repeat split; discriminate].
  destruct (N.eqb_spec (t_issuer t) (self L)); [inversion H; repeat split; discriminate|].
  destruct (N.eqb_spec (t_issuer t) (genesis L)); [inversion H; repeat split; discriminate|].
  destruct Hbad as [?|[?|?]]; [contradiction|contradiction|discriminate].
Qed.

Lemma genesis_receiver_not_issuer : forall L amt data th h vok L' r,
  create_genesis L (self L) amt data th h vok = (L', r) -> L' = L /\ r = RRejected.
Proof.
  intros L amt data th h vok L' r H. unfold create_genesis in H. rewrite N.eqb_refl in H. inversion H. auto.
Qed.
