(* Proofs/WalkerP.v — C08: draining consumers can never leave the walker holding the graph read lock. *)
From Coq Require Import List Arith Bool Lia.
From Verif Require Import Walker.
Import ListNotations.

(* ---------------------------------------------------------------- the draining strategy: for every n, k and interleaving *)
Section Drain.
  Variable n k : nat.
  Notation step := (step n k Drain).
  Notation reach := (reach n k Drain).

  (* invariant of the draining system *)
  Definition dinv (s : sys) : Prop :=
    sig s = false /\
    match w s with WPoll i | WSend i => i <= n | WDone => True end /\
    match c s with CSignal | CPanic => False | _ => True end /\
    (match w s with WSend i => i < n | _ => True end) /\
    (c s = CExit -> w s = WDone).

  Lemma dinv_init : dinv (init_sys k Drain).
  Proof. unfold init_sys, dinv. cbn. destruct (Nat.eqb k 0); cbn; repeat split; try lia; discriminate. Qed.
  Lemma dinv_step s s' : dinv s -> step s s' -> dinv s'.
  Proof.
    intros [H1 [H2 [H3 [H4 H5]]]] St. inversion St; subst; cbn in *; unfold dinv, after_recv; cbn; try discriminate;
      repeat match goal with |- context [if ?b then _ else _] => destruct b end; cbn;
      repeat split; try lia; try exact I; try contradiction; try assumption; try (subst; reflexivity); try discriminate;
      try (intros Hx; specialize (H5 Hx); discriminate).
  Qed.
  Lemma dinv_reach s : reach s -> dinv s.
  Proof. induction 1; [apply dinv_init|eapply dinv_step; eauto]. Qed.

  (* progress: a reachable state that is not the good end can always step — no deadlock, no stuck walker *)
  Theorem drain_progress s : reach s -> good_end s \/ exists s', step s s'.
  Proof.
    intros R. pose proof (dinv_reach s R) as [H1 [H2 [H3 [H4 H5]]]]. destruct s as [w0 c0 s0]. cbn in *. subst s0.
    destruct w0 as [i|i|].
    - right. destruct (Nat.eq_dec i n) as [E|E]; [subst; eexists; apply s_finish|]. eexists. apply s_poll_go. lia.
    - right. destruct c0; try contradiction.
      + eexists. apply s_rendezvous.
      + eexists. apply s_drain_recv.
      + specialize (H5 eq_refl). discriminate.
    - destruct c0; try contradiction.
      + right. eexists. apply s_closed_recv.
      + right. eexists. apply s_closed_drain.
      + left. split; reflexivity.
  Qed.

  (* termination: a measure that strictly decreases with every step *)
  Definition measure (s : sys) : nat :=
    match w s with WPoll i => 3 * (n - i) + 3 | WSend i => 3 * (n - i) + 2 | WDone => 0 end +
    match c s with CExit => 0 | _ => 1 end.
  Theorem drain_terminates s s' : dinv s -> step s s' -> measure s' < measure s.
  Proof.
    intros [H1 [H2 [H3 [H4 H5]]]] St. inversion St; subst; cbn in *; unfold measure, after_recv; cbn; try discriminate;
      repeat match goal with |- context [if ?b then _ else _] => destruct b end; cbn; try lia; try contradiction.
  Qed.

  (* hence: every maximal run from the initial state is finite and ends with the walker done (read lock
     released, channels closed) and the consumer returned *)
  Corollary drain_safe s : reach s -> terminal n k Drain s -> good_end s.
  Proof. intros R T. destruct (drain_progress s R) as [G|[s' St]]; [exact G|exfalso; exact (T s' St)]. Qed.
End Drain.

(* running to the end (k >= n) is safe for every strategy: the exit code is never reached *)

(* ---------------------------------------------------------------- the strategies before fix dce7b54 *)
(* signal-then-return: the walker can already be blocked in the next send when the signal arrives: it never
   looks at the signal again and keeps the graph read lock forever *)
Definition stuck_state : sys := Sys (WSend 1) CExit true.
Lemma signal_then_return_leaks_lock :
  reach 2 1 SignalThenReturn stuck_state /\ terminal 2 1 SignalThenReturn stuck_state /\ ~ good_end stuck_state.
Proof.
  split; [|split].
  - unfold stuck_state.
    assert (R0 : reach 2 1 SignalThenReturn (Sys (WPoll 0) (CRecv 0) false)) by apply reach0.
    assert (R1 : reach 2 1 SignalThenReturn (Sys (WSend 0) (CRecv 0) false)) by (eapply reachS; [exact R0|apply s_poll_go; lia]).
    assert (R2 : reach 2 1 SignalThenReturn (Sys (WPoll 1) CSignal false)) by (eapply reachS; [exact R1|apply (s_rendezvous 2 1 SignalThenReturn 0 0 false)]).
    assert (R3 : reach 2 1 SignalThenReturn (Sys (WSend 1) CSignal false)) by (eapply reachS; [exact R2|apply s_poll_go; lia]).
    eapply reachS; [exact R3|]. apply s_signal_ok. discriminate.
  - intros s' St. unfold stuck_state in St. inversion St.
  - unfold good_end, stuck_state. cbn. intros [H _]. discriminate.
Qed.
(* ... or the walker has already finished and closed the channel: the signal is a send on a closed channel *)
Definition panic_state : sys := Sys WDone CPanic false.
Lemma signal_then_return_send_on_closed : reach 1 1 SignalThenReturn panic_state.
Proof.
  unfold panic_state.
  assert (R0 : reach 1 1 SignalThenReturn (Sys (WPoll 0) (CRecv 0) false)) by apply reach0.
  assert (R1 : reach 1 1 SignalThenReturn (Sys (WSend 0) (CRecv 0) false)) by (eapply reachS; [exact R0|apply s_poll_go; lia]).
  assert (R2 : reach 1 1 SignalThenReturn (Sys (WPoll 1) CSignal false)) by (eapply reachS; [exact R1|apply (s_rendezvous 1 1 SignalThenReturn 0 0 false)]).
  assert (R3 : reach 1 1 SignalThenReturn (Sys WDone CSignal false)) by (eapply reachS; [exact R2|apply s_finish]).
  eapply reachS; [exact R3|apply s_signal_closed].
Qed.
(* returning without signaling: the walker blocks in its next send forever *)
Definition abandoned_state : sys := Sys (WSend 1) CExit false.
Lemma return_no_signal_leaks_lock :
  reach 2 1 ReturnNoSignal abandoned_state /\ terminal 2 1 ReturnNoSignal abandoned_state /\ ~ good_end abandoned_state.
Proof.
  split; [|split].
  - unfold abandoned_state.
    assert (R0 : reach 2 1 ReturnNoSignal (Sys (WPoll 0) (CRecv 0) false)) by apply reach0.
    assert (R1 : reach 2 1 ReturnNoSignal (Sys (WSend 0) (CRecv 0) false)) by (eapply reachS; [exact R0|apply s_poll_go; lia]).
    assert (R2 : reach 2 1 ReturnNoSignal (Sys (WPoll 1) CExit false)) by (eapply reachS; [exact R1|apply (s_rendezvous 2 1 ReturnNoSignal 0 0 false)]).
    eapply reachS; [exact R2|apply s_poll_go; lia].
  - intros s' St. unfold abandoned_state in St. inversion St.
  - unfold good_end, abandoned_state. cbn. intros [H _]. discriminate.
Qed.
