(* Proofs/CacheP.v — C17: the index refines the map-based specification. *)
From Coq Require Import List Arith NArith Bool Lia.
From Verif Require Import Cache.
Import ListNotations.

Lemma cassoc_cset_eq {A} k (a : A) l : cassoc k (cset k a l) = Some a.
Proof. unfold cset. cbn. rewrite N.eqb_refl. reflexivity. Qed.
Lemma cassoc_cdel_neq {A} k k' (l : list (N * A)) : k <> k' -> cassoc k (cdel k' l) = cassoc k l.
Proof.
  intros Hn. induction l as [|[k2 a] l IH]; cbn; [reflexivity|].
  destruct (N.eqb_spec k' k2) as [E|E]; cbn.
  - subst. destruct (N.eqb_spec k k2); [contradiction|exact IH].
  - destruct (N.eqb_spec k k2); [reflexivity|exact IH].
Qed.
Lemma cassoc_cdel_eq {A} k (l : list (N * A)) : cassoc k (cdel k l) = None.
Proof.
  induction l as [|[k2 a] l IH]; cbn; [reflexivity|].
  destruct (N.eqb_spec k k2) as [E|E]; cbn; [exact IH|]. destruct (N.eqb_spec k k2); [contradiction|exact IH].
Qed.
Lemma cassoc_cset_neq {A} k k' (a : A) l : k <> k' -> cassoc k (cset k' a l) = cassoc k l.
Proof. intros Hn. unfold cset. cbn. destruct (N.eqb_spec k k'); [contradiction|]. apply cassoc_cdel_neq. exact Hn. Qed.

Lemma listed_set a l c a' : listed (set_addr a l c) a' = if N.eqb a' a then tok_read l else listed c a'.
Proof.
  unfold listed, set_addr. cbn [addrs]. destruct (N.eqb_spec a' a) as [E|E].
  - subst. rewrite cassoc_cset_eq. reflexivity.
  - rewrite cassoc_cset_neq by exact E. reflexivity.
Qed.
Lemma listed_del a c a' : listed (del_addr a c) a' = if N.eqb a' a then [] else listed c a'.
Proof.
  unfold listed, del_addr. cbn [addrs]. destruct (N.eqb_spec a' a) as [E|E].
  - subst. rewrite cassoc_cdel_eq. reflexivity.
  - rewrite cassoc_cdel_neq by exact E. reflexivity.
Qed.

Lemma tok_read_app l1 l2 : tok_read (l1 ++ l2) = tok_read l1 ++ tok_read l2.
Proof. induction l1 as [|[h|] l1 IH]; cbn; [reflexivity|rewrite IH; reflexivity|exact IH]. Qed.
Lemma tok_read_add l h : tok_read (tok_add l h) = tok_read l ++ [h].
Proof. unfold tok_add. destruct l; [reflexivity|]. rewrite tok_read_app. reflexivity. Qed.
Lemma tok_read_filter l h :
  tok_read (filter (fun t => negb (tok_eqb t (Some h))) l) = filter (fun x => negb (N.eqb x h)) (tok_read l).
Proof.
  induction l as [|[x|] l IH]; cbn; [reflexivity| |exact IH].
  destruct (N.eqb x h); cbn; [exact IH|rewrite IH; reflexivity].
Qed.
Lemma tok_read_remove l h : tok_read (tok_remove l h) = filter (fun x => negb (N.eqb x h)) (tok_read l).
Proof.
  unfold tok_remove. rewrite <- tok_read_filter. destruct (filter _ l); reflexivity.
Qed.

(* ---------------------------------------------------------------- the invariant: what is listed is exactly what is saved *)
Definition CInv (c : cache) : Prop :=
  NoDup (map c_hash (trxs c)) /\
  forall a h, In h (listed c a) <-> In h (listing c a).

Lemma CInv_empty : CInv (Cache [] []).
Proof. split; [constructor|]. intros a h. cbn. tauto. Qed.

Lemma find_trx_some h c t : find_trx h c = Some t -> In t (trxs c) /\ c_hash t = h.
Proof. unfold find_trx. intros H. apply find_some in H. destruct H as [H1 H2]. apply N.eqb_eq in H2. auto. Qed.
Lemma find_trx_none h c : find_trx h c = None -> ~ In h (map c_hash (trxs c)).
Proof.
  unfold find_trx. intros H Hin. apply in_map_iff in Hin. destruct Hin as [t [E Ht]].
  pose proof (find_none _ _ H t Ht) as F. cbn in F. rewrite E, N.eqb_refl in F. discriminate.
Qed.

Lemma listing_spec c a h : In h (listing c a) <-> exists t, In t (trxs c) /\ c_hash t = h /\ involves t a = true.
Proof.
  unfold listing. rewrite in_map_iff. split.
  - intros [t [E Ht]]. apply filter_In in Ht. exists t. tauto.
  - intros [t [Ht [E Hi]]]. exists t. split; [exact E|]. apply filter_In. auto.
Qed.

Lemma listed_save_addr h c a a' : listed (save_addr h c a) a' = if N.eqb a' a then listed c a ++ [h] else listed c a'.
Proof.
  unfold save_addr. destruct (cassoc a (addrs c)) as [l|] eqn:E; rewrite listed_set; destruct (N.eqb_spec a' a) as [Ea|Ea]; try reflexivity.
  - rewrite tok_read_add. unfold listed. rewrite E. reflexivity.
  - unfold listed. rewrite E. reflexivity.
Qed.
Lemma trxs_save_addr h c a : trxs (save_addr h c a) = trxs c.
Proof. unfold save_addr. destruct (cassoc a (addrs c)); reflexivity. Qed.

Definition amem (x : N) (l : list N) : bool := existsb (N.eqb x) l.

Lemma listed_fold_save h al : forall c a', NoDup al ->
  listed (fold_left (save_addr h) al c) a' = if amem a' al then listed c a' ++ [h] else listed c a'.
Proof.
  induction al as [|a al IH]; intros c a' Hnd; cbn [fold_left amem existsb]; [reflexivity|].
  inversion Hnd as [|? ? Ha Hnd']; subst. rewrite IH by exact Hnd'. rewrite listed_save_addr.
  destruct (N.eqb_spec a' a) as [E|E]; cbn [orb].
  - subst a'. assert (X : amem a al = false).
    { unfold amem. destruct (existsb (N.eqb a) al) eqn:Ex; [|reflexivity]. apply existsb_exists in Ex.
      destruct Ex as [y [Hy Ey]]. apply N.eqb_eq in Ey. subst y. contradiction. }
    rewrite X. reflexivity.
  - reflexivity.
Qed.
Lemma trxs_fold_save h al : forall c, trxs (fold_left (save_addr h) al c) = trxs c.
Proof. induction al as [|a al IH]; intros c; cbn [fold_left]; [reflexivity|]. rewrite IH, trxs_save_addr. reflexivity. Qed.

Definition save_addrs (t : atrx) : list N :=
  if N.eqb (c_issuer t) (c_receiver t) then [c_receiver t] else [c_issuer t; c_receiver t].
Lemma save_addrs_spec t : NoDup (save_addrs t) /\ forall a, amem a (save_addrs t) = involves t a.
Proof.
  unfold save_addrs, involves, amem. destruct (N.eqb_spec (c_issuer t) (c_receiver t)) as [E|E].
  - split; [repeat constructor; cbn; tauto|]. intros a. cbn. rewrite E, orb_false_r. rewrite (N.eqb_sym a).
    destruct (N.eqb (c_receiver t) a); reflexivity.
  - split; [constructor; [cbn; intros [H|[]]; congruence|repeat constructor; cbn; tauto]|].
    intros a. cbn. rewrite orb_false_r, !(N.eqb_sym a). reflexivity.
Qed.

Theorem save_refines c t c' r : CInv c -> save c t = (c', r) ->
  CInv c' /\
  (r = CExists -> c' = c /\ In (c_hash t) (map c_hash (trxs c))) /\
  (r = COk -> ~ In (c_hash t) (map c_hash (trxs c)) /\ trxs c' = t :: trxs c) /\
  (r <> CNotFound /\ r <> CUnauthorized).
Proof.
  intros [Hnd Hl] H. unfold save in H. fold (save_addrs t) in H. destruct (find_trx (c_hash t) c) as [t0|] eqn:Ef.
  - inversion H; subst. apply find_trx_some in Ef. destruct Ef as [Hin Eh].
    split; [split; assumption|]. split; [intros _; split; [reflexivity|rewrite <- Eh; apply in_map; exact Hin]|].
    split; [discriminate|split; discriminate].
  - apply find_trx_none in Ef. inversion H; subst; clear H.
    destruct (save_addrs_spec t) as [Hnda Hmem].
    split; [|split; [discriminate|split; [intros _; split; [exact Ef|rewrite trxs_fold_save; reflexivity]|split; discriminate]]].
    split.
    + rewrite trxs_fold_save. cbn. constructor; assumption.
    + intros a h. rewrite listed_fold_save by exact Hnda. rewrite Hmem. rewrite listing_spec, trxs_fold_save. cbn [trxs].
      assert (Hold : forall x, In x (listed (Cache (t :: trxs c) (addrs c)) a) <-> exists u, In u (trxs c) /\ c_hash u = x /\ involves u a = true).
      { intros x. change (listed (Cache (t :: trxs c) (addrs c)) a) with (listed c a). rewrite Hl. apply listing_spec. }
      destruct (involves t a) eqn:Ei.
      * rewrite in_app_iff, Hold. cbn [In]. split.
        -- intros [[u [Hu Hu2]]|[Eh|[]]]; [exists u; split; [right; exact Hu|exact Hu2]|]. exists t. auto.
        -- intros [u [[Eu|Hu] [Hh Hi]]]; [subst u; right; left; exact Hh|left; exists u; auto].
      * rewrite Hold. split.
        -- intros [u [Hu Hu2]]. exists u. split; [right; exact Hu|exact Hu2].
        -- intros [u [[Eu|Hu] [Hh Hi]]]; [subst u; congruence|exists u; auto].
Qed.

Lemma nodup_hash_inj (l : list atrx) u t : NoDup (map c_hash l) -> In u l -> In t l -> c_hash u = c_hash t -> u = t.
Proof.
  induction l as [|y l IH]; cbn; [tauto|]. intros Hnd [E1|H1] [E2|H2] E; inversion Hnd as [|? ? Hy Hnd']; subst; auto.
  - exfalso. apply Hy. rewrite E. apply in_map. exact H2.
  - exfalso. apply Hy. rewrite <- E. apply in_map. exact H1.
Qed.

(* ---------------------------------------------------------------- remove *)
Lemma listed_remove_addr h c a a' :
  listed (remove_addr h c a) a' = if N.eqb a' a then filter (fun x => negb (N.eqb x h)) (listed c a) else listed c a'.
Proof.
  unfold remove_addr. destruct (cassoc a (addrs c)) as [[|tk l]|] eqn:E.
  - rewrite listed_del. destruct (N.eqb a' a); [unfold listed; rewrite E; reflexivity|reflexivity].
  - rewrite listed_set. destruct (N.eqb a' a); [rewrite tok_read_remove; unfold listed; rewrite E; reflexivity|reflexivity].
  - destruct (N.eqb_spec a' a) as [Ea|Ea]; [subst; unfold listed; rewrite E; reflexivity|reflexivity].
Qed.
Lemma trxs_remove_addr h c a : trxs (remove_addr h c a) = trxs c.
Proof. unfold remove_addr. destruct (cassoc a (addrs c)) as [[|? ?]|]; reflexivity. Qed.

Lemma filter_filter_same {A} (p : A -> bool) l : filter p (filter p l) = filter p l.
Proof. induction l as [|x l IH]; cbn; [reflexivity|]. destruct (p x) eqn:E; cbn; rewrite ?E, IH; reflexivity. Qed.

Theorem remove_refines c h a c' r : CInv c -> remove c h a = (c', r) ->
  CInv c' /\
  (r = CNotFound -> c' = c /\ ~ In h (map c_hash (trxs c))) /\
  (r = CUnauthorized -> c' = c /\ exists t, In t (trxs c) /\ c_hash t = h /\ c_receiver t <> a) /\
  (r = COk -> exists t, In t (trxs c) /\ c_hash t = h /\ c_receiver t = a /\
              trxs c' = filter (fun x => negb (N.eqb (c_hash x) h)) (trxs c)) /\
  r <> CExists.
Proof.
  intros [Hnd Hl] H. unfold remove in H. destruct (find_trx h c) as [t|] eqn:Ef.
  - apply find_trx_some in Ef. destruct Ef as [Hin Eh].
    destruct (N.eqb_spec (c_receiver t) a) as [Er|Er]; cbn [negb] in H.
    + inversion H; subst c' r; clear H. cbn [fold_left].
      set (c1 := Cache (filter (fun x => negb (N.eqb (c_hash x) h)) (trxs c)) (addrs c)).
      split; [|split; [discriminate|split; [discriminate|split; [intros _; exists t; rewrite !trxs_remove_addr; auto|discriminate]]]].
      split.
      * rewrite !trxs_remove_addr. cbn.
        clear -Hnd. induction (trxs c) as [|x l IH]; cbn; [constructor|]. cbn in Hnd. inversion Hnd as [|? ? Hx Hl]; subst.
        destruct (negb (N.eqb (c_hash x) h)); cbn; [constructor; [|auto]|auto].
        intros Hi. apply Hx. apply in_map_iff in Hi. destruct Hi as [y [E Hy]]. apply filter_In in Hy. rewrite <- E. apply in_map. tauto.
      * intros a' x. rewrite !listed_remove_addr, listing_spec, !trxs_remove_addr. cbn [trxs c1].
        assert (Hold : forall y, In y (listed c a') <-> exists u, In u (trxs c) /\ c_hash u = y /\ involves u a' = true).
        { intros y. rewrite Hl. apply listing_spec. }
        assert (Hc1 : forall b, listed c1 b = listed c b) by reflexivity.
        (* in every case the listed set of a' is the old one, minus h when a' is the issuer or the receiver *)
        assert (Hres : In x (if N.eqb a' (c_receiver t) then filter (fun y => negb (N.eqb y h)) (listed (remove_addr h c1 (c_issuer t)) (c_receiver t))
                              else if N.eqb a' (c_issuer t) then filter (fun y => negb (N.eqb y h)) (listed c1 (c_issuer t)) else listed c1 a')
                       <-> (In x (listed c a') /\ (involves t a' = true -> x <> h))).
        { unfold involves. destruct (N.eqb_spec a' (c_receiver t)) as [E1|E1].
          - subst a'. rewrite listed_remove_addr. rewrite N.eqb_refl, orb_true_r.
            destruct (N.eqb_spec (c_receiver t) (c_issuer t)) as [E2|E2].
            + rewrite <- E2, filter_filter_same, filter_In, Hc1. rewrite negb_true_iff, N.eqb_neq. tauto.
            + rewrite filter_In, Hc1, negb_true_iff, N.eqb_neq. tauto.
          - destruct (N.eqb_spec a' (c_issuer t)) as [E2|E2].
            + subst a'. rewrite N.eqb_refl. cbn [orb]. rewrite filter_In, Hc1, negb_true_iff, N.eqb_neq. tauto.
            + destruct (N.eqb_spec (c_issuer t) a'); [congruence|]. destruct (N.eqb_spec (c_receiver t) a'); [congruence|].
              cbn [orb]. rewrite Hc1. split; [intros X; split; [exact X|discriminate]|tauto]. }
        rewrite listed_remove_addr in Hres.
        replace (listed (remove_addr h (remove_addr h c1 (c_issuer t)) (c_receiver t)) a') with
          (if N.eqb a' (c_receiver t) then filter (fun y => negb (N.eqb y h)) (listed (remove_addr h c1 (c_issuer t)) (c_receiver t))
           else if N.eqb a' (c_issuer t) then filter (fun y => negb (N.eqb y h)) (listed c1 (c_issuer t)) else listed c1 a')
          by (rewrite !listed_remove_addr; reflexivity).
        rewrite Hres, Hold. split.
        -- intros [[u [Hu [Hh Hi]]] Hne]. exists u. split; [|auto]. apply filter_In. split; [exact Hu|].
           apply negb_true_iff, N.eqb_neq. intros Ehh.
           assert (u = t) by (eapply nodup_hash_inj; eauto; congruence).
           subst u. apply Hne; [exact Hi|congruence].
        -- intros [u [Hu [Hh Hi]]]. apply filter_In in Hu. destruct Hu as [Hu Hne]. apply negb_true_iff, N.eqb_neq in Hne.
           split; [exists u; auto|]. intros _ Exh. apply Hne. congruence.
    + inversion H; subst. split; [split; assumption|]. split; [discriminate|]. split; [intros _; split; [reflexivity|exists t; auto]|].
      split; [discriminate|discriminate].
  - apply find_trx_none in Ef. inversion H; subst. split; [split; assumption|]. split; [auto|]. split; [discriminate|]. split; discriminate.
Qed.

Lemma filter_none {A} (p : A -> bool) l : (forall x, In x l -> p x = false) -> filter p l = [].
Proof. induction l as [|x l IH]; intros H; cbn; [reflexivity|]. rewrite (H x (or_introl eq_refl)). apply IH. intros y Hy. apply H. right. exact Hy. Qed.

(* ---------------------------------------------------------------- read *)
Theorem read_refines c a c' r : CInv c -> read c a = (c', r) ->
  CInv c' /\ trxs c' = trxs c /\
  match r with
  | Some l => forall h, In h l <-> In h (listing c a)
  | None => listing c a = []
  end.
Proof.
  intros [Hnd Hl] H. unfold read in H.
  assert (Hnil : listed c a = [] -> listing c a = []).
  { intros E. destruct (listing c a) as [|x l] eqn:El; [reflexivity|]. exfalso.
    assert (In x (listed c a)) by (apply Hl; rewrite El; left; reflexivity). rewrite E in H0. exact H0. }
  destruct (cassoc a (addrs c)) as [[|tk l]|] eqn:E.
  - inversion H; subst. split; [split; [exact Hnd|]|split; [reflexivity|apply Hnil; unfold listed; rewrite E; reflexivity]].
    intros a' h. rewrite listed_del. destruct (N.eqb_spec a' a) as [Ea|Ea]; [|apply Hl].
    subst a'. assert (L0 : listed c a = []) by (unfold listed; rewrite E; reflexivity). change (In h [] <-> In h (listing c a)). rewrite (Hnil L0). cbn. tauto.
  - (* every listed hash has its transaction (invariant), so nothing is stale *)
    assert (Hall : forall h, In h (tok_read (tk :: l)) -> find_trx h c <> None).
    { intros h Hh Hf. apply find_trx_none in Hf. assert (In h (listed c a)) by (unfold listed; rewrite E; exact Hh).
      apply Hl in H0. apply listing_spec in H0. destruct H0 as [u [Hu [Eu _]]]. apply Hf. rewrite <- Eu. apply in_map. exact Hu. }
    assert (Hstale : filter (fun h => match find_trx h c with Some _ => false | None => true end) (tok_read (tk :: l)) = []).
    { apply filter_none. intros x Hx. destruct (find_trx x c) eqn:Ex; [reflexivity|exfalso; exact (Hall x Hx Ex)]. }
    rewrite Hstale in H. cbn [fold_left] in H. injection H as <- <-. split; [split; assumption|]. split; [reflexivity|].
    intros h. rewrite filter_In. rewrite <- Hl. unfold listed. rewrite E. split; [tauto|].
    intros Hh. split; [exact Hh|]. destruct (find_trx h c) eqn:Ex; [reflexivity|exfalso; exact (Hall h Hh Ex)].
  - inversion H; subst. split; [split; assumption|]. split; [reflexivity|]. apply Hnil. unfold listed. rewrite E. reflexivity.
Qed.

(* ---------------------------------------------------------------- sequences of operations *)
Inductive cop := OSave (t : atrx) | ORemove (h a : N) | ORead (a : N).
Definition cstep (c : cache) (o : cop) : cache :=
  match o with
  | OSave t => fst (save c t)
  | ORemove h a => fst (remove c h a)
  | ORead a => fst (read c a)
  end.
Theorem CInv_all_sequences ops : CInv (fold_left cstep ops (Cache [] [])).
Proof.
  assert (G : forall c, CInv c -> CInv (fold_left cstep ops c)); [|apply G; apply CInv_empty].
  induction ops as [|o ops IH]; intros c Hc; cbn [fold_left]; [exact Hc|]. apply IH.
  destruct o; cbn [cstep].
  - destruct (save c t) eqn:E. exact (proj1 (save_refines _ _ _ _ Hc E)).
  - destruct (remove c h a) eqn:E. exact (proj1 (remove_refines _ _ _ _ _ Hc E)).
  - destruct (read c a) eqn:E. exact (proj1 (read_refines _ _ _ _ Hc E)).
Qed.

(* ---------------------------------------------------------------- the unsynchronised schedule loses an entry *)
Lemma interleaved_rmw_loses_entry :
  run_rmw 1 2 [AGet true; AGet false; ASet true; ASet false] = [2%N] /\
  run_rmw 1 2 [AGet true; ASet true; AGet false; ASet false] = [1%N; 2%N].
Proof. split; reflexivity. Qed.
