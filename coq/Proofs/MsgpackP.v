(* Proofs/MsgpackP.v — the msgpack form of Melange, Transaction and Vertex decodes back to the same value,
   whatever follows it in the input, for all field contents. *)
From Coq Require Import List Arith NArith ZArith Lia Bool String Ascii.
From Verif Require Import WalletFile Msg Codec CodecP Msgpack.
Import ListNotations.
Local Open Scope Z_scope.

Ltac Zify.zify_post_hook ::= Z.div_mod_to_equations.
Arguments be_bytes : simpl never.

(* ---------------------------------------------------------------- raw runs *)
Lemma take_app s rest n : zlen s = n -> take n (s ++ rest) = Some (s, rest).
Proof.
  intros H. unfold take, zlen in *. rewrite app_length.
  destruct (Z.ltb_spec (Z.of_nat (List.length s + List.length rest)) n) as [L|L]; [lia|].
  assert (E : Z.to_nat n = List.length s) by lia. rewrite E.
  rewrite firstn_app_len, skipn_app_len by reflexivity. reflexivity.
Qed.

Lemma dec_len_be n l r : 0 <= l < 256 ^ Z.of_nat n -> dec_len n (be_bytes n l ++ r) = Some (l, r).
Proof.
  intros H. unfold dec_len.
  assert (Hl : Nat.leb n (List.length (be_bytes n l ++ r)) = true) by (apply Nat.leb_le; rewrite app_length, be_bytes_length; lia).
  rewrite Hl, firstn_app_len, skipn_app_len by apply be_bytes_length. rewrite be_roundtrip by exact H. reflexivity.
Qed.

(* ---------------------------------------------------------------- str *)
Lemma dec_str_fix c r : (160 <= c < 192)%N -> dec_str (c :: r) = take (Z.of_N c - 160) r.
Proof.
  intros H. unfold dec_str. destruct (N.leb_spec 160 c); [|lia]. destruct (N.ltb_spec c 192); [|lia]. reflexivity.
Qed.
Lemma dec_str_217 r : dec_str (217%N :: r) = bind (dec_len 1 r) (fun p => take (fst p) (snd p)). Proof. reflexivity. Qed.
Lemma dec_str_218 r : dec_str (218%N :: r) = bind (dec_len 2 r) (fun p => take (fst p) (snd p)). Proof. reflexivity. Qed.
Lemma dec_str_219 r : dec_str (219%N :: r) = bind (dec_len 4 r) (fun p => take (fst p) (snd p)). Proof. reflexivity. Qed.

Theorem str_roundtrip s rest : zlen s < P32' -> dec_str (enc_str s ++ rest) = Some (s, rest).
Proof.
  intros H. unfold enc_str. assert (H0 : 0 <= zlen s) by (unfold zlen; lia).
  destruct (Z.ltb_spec (zlen s) 32) as [A|A].
  - rewrite <- app_comm_cons. rewrite dec_str_fix by lia.
    apply take_app. rewrite Z2N.id by lia. lia.
  - destruct (Z.ltb_spec (zlen s) 256) as [B|B].
    + rewrite <- app_comm_cons, <- app_assoc, dec_str_217, dec_len_be by (cbn; lia). cbn [bind fst snd]. apply take_app; reflexivity.
    + destruct (Z.ltb_spec (zlen s) 65536) as [C|C].
      * rewrite <- app_comm_cons, <- app_assoc, dec_str_218, dec_len_be by (cbn; lia). cbn [bind fst snd]. apply take_app; reflexivity.
      * rewrite <- app_comm_cons, <- app_assoc, dec_str_219, dec_len_be by (unfold P32' in H; cbn; lia). cbn [bind fst snd]. apply take_app; reflexivity.
Qed.

(* ---------------------------------------------------------------- bin *)
Lemma dec_bin_192 r : dec_bin (192%N :: r) = Some (None, r). Proof. reflexivity. Qed.
Lemma dec_bin_196 r : dec_bin (196%N :: r) = bind (dec_len 1 r) (fun p => option_map some_fst (take (fst p) (snd p))). Proof. reflexivity. Qed.
Lemma dec_bin_197 r : dec_bin (197%N :: r) = bind (dec_len 2 r) (fun p => option_map some_fst (take (fst p) (snd p))). Proof. reflexivity. Qed.
Lemma dec_bin_198 r : dec_bin (198%N :: r) = bind (dec_len 4 r) (fun p => option_map some_fst (take (fst p) (snd p))). Proof. reflexivity. Qed.

Theorem bin_roundtrip o rest : wf_obin o -> dec_bin (enc_bin o ++ rest) = Some (o, rest).
Proof.
  intros H. destruct o as [s|]; [|reflexivity]. cbn [wf_obin] in H. unfold enc_bin.
  assert (H0 : 0 <= zlen s) by (unfold zlen; lia).
  destruct (Z.ltb_spec (zlen s) 256) as [B|B].
  - rewrite <- app_comm_cons, <- app_assoc, dec_bin_196, dec_len_be by (cbn; lia). cbn [bind fst snd].
    rewrite take_app by reflexivity. reflexivity.
  - destruct (Z.ltb_spec (zlen s) 65536) as [C|C].
    + rewrite <- app_comm_cons, <- app_assoc, dec_bin_197, dec_len_be by (cbn; lia). cbn [bind fst snd].
      rewrite take_app by reflexivity. reflexivity.
    + rewrite <- app_comm_cons, <- app_assoc, dec_bin_198, dec_len_be by (unfold P32' in H; cbn; lia). cbn [bind fst snd].
      rewrite take_app by reflexivity. reflexivity.
Qed.

Theorem h32_roundtrip h rest : List.length h = 32%nat -> dec_h32 (enc_h32 h ++ rest) = Some (h, rest).
Proof.
  intros H. unfold dec_h32, enc_h32. rewrite bin_roundtrip by (cbn; unfold zlen, P32'; lia).
  rewrite H. reflexivity.
Qed.

(* ---------------------------------------------------------------- time, with the remaining input *)
Lemma enc_time_shape sec nsec :
  exists c p, enc_time sec nsec = c :: p /\
    ((c = 214%N /\ List.length p = 5%nat) \/ (c = 215%N /\ List.length p = 9%nat) \/ (c = 199%N /\ List.length p = 14%nat)).
Proof.
  unfold enc_time, time_payload.
  destruct (Z.eqb ((sec mod P64) / P34) 0).
  - destruct (Z.eqb ((nsec * P34 + sec mod P64) / P32) 0); rewrite be_bytes_length; cbn [ext_header Nat.eqb app];
      eexists; eexists; (split; [reflexivity|]); cbn [List.length]; rewrite be_bytes_length; auto.
  - rewrite app_length, !be_bytes_length. cbn [plus ext_header Nat.eqb app N.of_nat Pos.of_succ_nat Pos.succ].
    eexists; eexists; (split; [reflexivity|]). cbn [List.length]. rewrite app_length, !be_bytes_length. auto.
Qed.

Theorem time_r_roundtrip t rest : wf_time t -> dec_time_r (enc_time (fst t) (snd t) ++ rest) = Some (t, rest).
Proof.
  intros [Hs Hn]. unfold dec_time_r. rewrite time_roundtrip by assumption.
  destruct (enc_time_shape (fst t) (snd t)) as (c & p & E & Hc). rewrite E.
  assert (L : time_len ((c :: p) ++ rest) = List.length (c :: p)).
  { destruct Hc as [[-> Hl]|[[-> Hl]|[-> Hl]]]; cbn [app time_len List.length]; rewrite Hl; reflexivity. }
  rewrite L.
  assert (Le : Nat.leb (List.length (c :: p)) (List.length ((c :: p) ++ rest)) = true) by (apply Nat.leb_le; rewrite app_length; lia).
  rewrite Le, skipn_app_len by reflexivity. destruct t; reflexivity.
Qed.

(* ---------------------------------------------------------------- keys *)
Lemma strip_app p rest : strip p (p ++ rest) = Some rest.
Proof. induction p as [|x p IH]; cbn [strip app]; [reflexivity|]. rewrite N.eqb_refl. exact IH. Qed.
Lemma key_roundtrip k rest : dec_key k (enc_key k ++ rest) = Some rest.
Proof. apply strip_app. Qed.

(* ---------------------------------------------------------------- structs *)
Ltac norm_app := repeat rewrite <- app_assoc.
Ltac stepk := rewrite key_roundtrip; cbn [bind fst snd].

Theorem mel_roundtrip m rest : wf_mel m -> dec_mel (enc_mel m ++ rest) = Some (m, rest).
Proof.
  intros [H1 H2]. unfold enc_mel. rewrite <- app_comm_cons.
  change (fixmap 2) with 130%N. unfold dec_mel. norm_app.
  stepk. rewrite u64_roundtrip by exact H1. cbn [bind fst snd].
  stepk. rewrite u64_roundtrip by exact H2. cbn [bind fst snd]. destruct m; reflexivity.
Qed.

Theorem trx_roundtrip t rest : wf_trx t -> dec_trx (enc_trx t ++ rest) = Some (t, rest).
Proof.
  intros (Hc & Hi & Hr & Hs & Hd & His & Hrs & Hh & Hm). unfold enc_trx. rewrite <- app_comm_cons.
  change (fixmap 9) with 137%N. unfold dec_trx. norm_app.
  stepk. rewrite time_r_roundtrip by exact Hc. cbn [bind fst snd].
  stepk. rewrite str_roundtrip by exact Hi. cbn [bind fst snd].
  stepk. rewrite str_roundtrip by exact Hr. cbn [bind fst snd].
  stepk. rewrite str_roundtrip by exact Hs. cbn [bind fst snd].
  stepk. rewrite bin_roundtrip by exact Hd. cbn [bind fst snd].
  stepk. rewrite bin_roundtrip by exact His. cbn [bind fst snd].
  stepk. rewrite bin_roundtrip by exact Hrs. cbn [bind fst snd].
  stepk. rewrite h32_roundtrip by exact Hh. cbn [bind fst snd].
  stepk. rewrite mel_roundtrip by exact Hm. cbn [bind fst snd]. destruct t; reflexivity.
Qed.

Theorem vtx_roundtrip v rest : wf_vtx v -> dec_vtx (enc_vtx v ++ rest) = Some (v, rest).
Proof.
  intros (Hs & Hc & Hg & Ht & Hh & Hl & Hr & Hw). unfold enc_vtx. rewrite <- app_comm_cons.
  change (fixmap 8) with 136%N. unfold dec_vtx. norm_app.
  stepk. rewrite str_roundtrip by exact Hs. cbn [bind fst snd].
  stepk. rewrite time_r_roundtrip by exact Hc. cbn [bind fst snd].
  stepk. rewrite bin_roundtrip by exact Hg. cbn [bind fst snd].
  stepk. rewrite trx_roundtrip by exact Ht. cbn [bind fst snd].
  stepk. rewrite h32_roundtrip by exact Hh. cbn [bind fst snd].
  stepk. rewrite h32_roundtrip by exact Hl. cbn [bind fst snd].
  stepk. rewrite h32_roundtrip by exact Hr. cbn [bind fst snd].
  stepk. rewrite u64_roundtrip by exact Hw. cbn [bind fst snd]. destruct v; reflexivity.
Qed.

(* two different well-formed values never share an encoding (so a stored form identifies its value) *)
Corollary vtx_encoding_injective v w : wf_vtx v -> wf_vtx w -> enc_vtx v = enc_vtx w -> v = w.
Proof.
  intros Hv Hw E. pose proof (vtx_roundtrip v [] Hv) as A. pose proof (vtx_roundtrip w [] Hw) as B.
  rewrite E in A. rewrite A in B. injection B. auto.
Qed.
Corollary trx_encoding_injective v w : wf_trx v -> wf_trx w -> enc_trx v = enc_trx w -> v = w.
Proof.
  intros Hv Hw E. pose proof (trx_roundtrip v [] Hv) as A. pose proof (trx_roundtrip w [] Hw) as B.
  rewrite E in A. rewrite A in B. injection B. auto.
Qed.

(* ---------------------------------------------------------------- the encoders are the field tables, read in order *)
Theorem encoders_follow_tables :
  (forall m, enc_mel m = enc_struct mel_fields (mel_vals m) /\ map kind_of (mel_vals m) = map snd mel_fields) /\
  (forall t, enc_trx t = enc_struct trx_fields (trx_vals t) /\ map kind_of (trx_vals t) = map snd trx_fields) /\
  (forall v, enc_vtx v = enc_struct vtx_fields (vtx_vals v) /\ map kind_of (vtx_vals v) = map snd vtx_fields).
Proof.
  repeat split; unfold enc_struct, enc_mel, enc_trx, enc_vtx; cbn [mel_fields trx_fields vtx_fields mel_vals trx_vals vtx_vals map fst combine enc_fields enc_val List.length N.of_nat Pos.of_succ_nat Pos.succ];
    rewrite ?app_nil_r; reflexivity.
Qed.
