(* Proofs/LedgerFunds.v — the accounting of validateLeaf / CalculateBalance equals sums over unbounded
   integers: the two-part uint64 accumulation (modelled Supply/Transfer, wrap-around written out) is
   exact on canonical amounts, so "validation passed" means "funds cover spends" in Z. *)
From Verif Require Import U64 Spice SpiceP RepoConstants Ledger ListFacts LedgerInv LedgerGraph.
From Coq Require Import NArith.

Definition amountZ (v : vertex) : Z := valZ (t_spice (v_trx v)).
Definition inZ (a : N) (v : vertex) : Z :=
  if is_spice (v_trx v) && N.eqb (t_receiver (v_trx v)) a then amountZ v else 0.
Definition outZ (a : N) (v : vertex) : Z :=
  if is_spice (v_trx v) && N.eqb (t_issuer (v_trx v)) a then amountZ v else 0.
Definition sumZ (f : vertex -> Z) (l : list vertex) : Z := fold_right (fun v acc => f v + acc) 0 l.

Lemma sumZ_app f a b : sumZ f (a ++ b) = sumZ f a + sumZ f b.
Proof. unfold sumZ. induction a as [|x a IH]; cbn [app fold_right]; [reflexivity|rewrite IH; lia]. Qed.
Lemma canon_valZ_nonneg m : canon m -> 0 <= valZ m.
Proof. unfold canon, valZ, MX, MaxAmountPerSupplementaryCurrency. intros [[? ?] [? ?]]. nia. Qed.
Lemma inZ_nonneg a v : canon (t_spice (v_trx v)) -> 0 <= inZ a v.
Proof. intros H. unfold inZ, amountZ. destruct (_ && _); [apply canon_valZ_nonneg; exact H|lia]. Qed.
Lemma outZ_nonneg a v : canon (t_spice (v_trx v)) -> 0 <= outZ a v.
Proof. intros H. unfold outZ, amountZ. destruct (_ && _); [apply canon_valZ_nonneg; exact H|lia]. Qed.
Lemma canon_zero : canon zero_mel.
Proof. unfold canon, zero_mel, W, MX, MaxAmountPerSupplementaryCurrency. cbn. lia. Qed.
Lemma valZ_zero : valZ zero_mel = 0. Proof. reflexivity. Qed.

(* supply on canonical operands: success gives the exact sum *)
Lemma supply_some m a m' : canon m -> canon a -> supply m a = (m', None) -> canon m' /\ valZ m' = valZ m + valZ a.
Proof.
  intros Hm Ha H. destruct (Z_lt_le_dec (valZ m + valZ a) LIMIT) as [Hlt|Hge].
  - destruct (supply_ok m a Hm Ha Hlt) as [m2 [E [C V]]]. rewrite E in H. inversion H; subst. auto.
  - rewrite (supply_overflow m a Hm Ha Hge) in H. discriminate.
Qed.

(* pourFunds: one vertex *)
Ltac fin4 := split; [assumption|split; [assumption|split; lia]].
Lemma pour_some a v i o i' o' :
  canon i -> canon o -> canon (t_spice (v_trx v)) ->
  pour a v (i, o) = Some (i', o') ->
  canon i' /\ canon o' /\ valZ i' = valZ i + inZ a v /\ valZ o' = valZ o + outZ a v.
Proof.
  intros Hi Ho Hc. unfold pour, inZ, outZ, amountZ.
  destruct (is_spice (v_trx v)); cbn [negb andb]; [|intros H; inversion H; subst; fin4].
  destruct (N.eqb (t_issuer (v_trx v)) a).
  - destruct (supply o (t_spice (v_trx v))) as [o2 [e|]] eqn:Eo; [discriminate|].
    destruct (supply_some _ _ _ Ho Hc Eo) as [Co Vo].
    destruct (N.eqb (t_receiver (v_trx v)) a).
    + destruct (supply i (t_spice (v_trx v))) as [i2 [e|]] eqn:Ei; [discriminate|].
      destruct (supply_some _ _ _ Hi Hc Ei) as [Ci Vi]. intros H; inversion H; subst. fin4.
    + intros H; inversion H; subst. fin4.
  - destruct (N.eqb (t_receiver (v_trx v)) a).
    + destruct (supply i (t_spice (v_trx v))) as [i2 [e|]] eqn:Ei; [discriminate|].
      destruct (supply_some _ _ _ Hi Hc Ei) as [Ci Vi]. intros H; inversion H; subst. fin4.
    + intros H; inversion H; subst. fin4.
Qed.

(* the walk over the ancestors *)
Lemma pour_walk_some chk a l r ancs : forall i o b i' o' vr b',
  canon i -> canon o -> (forall n, In n ancs -> canon (t_spice (v_trx (nv n)))) ->
  pour_walk chk a l r ancs (i, o) b = ((Some (i', o'), vr), b') ->
  canon i' /\ canon o' /\
  valZ i' = valZ i + sumZ (inZ a) (map nv ancs) /\ valZ o' = valZ o + sumZ (outZ a) (map nv ancs) /\
  (chk = true -> forall n, In n ancs -> (nhash n = l \/ nhash n = r) -> v_ok (nv n) = true).
Proof.
  induction ancs as [|n rest IH]; intros i o b i' o' vr b' Hi Ho Hc H; cbn [pour_walk] in H.
  - inversion H; subst. unfold sumZ. cbn. split; [assumption|split; [assumption|split; [lia|split; [lia|intros _ n []]]]].
  - destruct (poll b) as [b1|]; [|discriminate].
    destruct (chk && ((nhash n =? l)%N || (nhash n =? r)%N) && negb (v_ok (nv n))) eqn:Eg.
    + unfold nhash in Eg. rewrite Eg in H. discriminate.
    + unfold nhash in Eg. rewrite Eg in H.
      destruct (pour a (nv n) (i, o)) as [[i1 o1]|] eqn:Ep; [|discriminate].
      destruct (pour_some _ _ _ _ _ _ Hi Ho (Hc n (or_introl eq_refl)) Ep) as [Ci [Co [Vi Vo]]].
      destruct (IH _ _ _ _ _ _ _ Ci Co (fun m Hm => Hc m (or_intror Hm)) H) as [Ci' [Co' [Vi' [Vo' Hok]]]].
      unfold sumZ in *. cbn [map fold_right]. split; [assumption|split; [assumption|split; [lia|split; [lia|]]]].
      intros Hchk m [Em|Hm] Hlr; [|apply Hok; auto]. subst m. rewrite Hchk in Eg. cbn [andb] in Eg.
      fold (nhash n) in Eg. destruct Hlr as [E|E]; rewrite E, N.eqb_refl in Eg; cbn in Eg;
        [|rewrite orb_true_r in Eg; cbn in Eg]; destruct (v_ok (nv n)); auto; discriminate.
Qed.

Lemma pour_walk_none chk a l r ancs : forall io b vr b',
  pour_walk chk a l r ancs io b = ((None, vr), b') -> vr <> VOk.
Proof.
  induction ancs as [|n rest IH]; intros io b vr b' H; cbn [pour_walk] in H; [inversion H|].
  destruct (poll b) as [b1|]; [|inversion H; discriminate].
  destruct (_ && _); [inversion H; discriminate|].
  destruct (pour a (nv n) io) as [io'|]; [eapply IH; eauto|inversion H; discriminate].
Qed.

(* ---------------------------------------------------------------- the history a tip is validated against *)
Definition history (L : ledger) (n : node) : list vertex := nv n :: map nv (ancestors L n).

Definition coversZ (L : ledger) (n : node) : Prop :=
  let a := t_issuer (v_trx (nv n)) in
  valZ (funds_of L a) + sumZ (inZ a) (history L n) >= sumZ (outZ a) (history L n).

Definition needs_cover (L : ledger) (n : node) : Prop :=
  is_spice (v_trx (nv n)) = true /\ nmem (v_signer (nv n)) (trusted L) = false /\ is_root n = false.

Definition amounts_canon (L : ledger) : Prop :=
  (forall m, In m (dag L) -> canon (t_spice (v_trx (nv m)))) /\ (forall a, canon (funds_of L a)).

Lemma ancestors_sub L n m : In m (ancestors L n) -> In m (dag L).
Proof. apply anc_from_sub. Qed.

(* validateLeaf said yes  ==>  in Z, checkpoint + received >= spent over the tip's own history *)
Theorem validate_ok_covers L n b b' :
  amounts_canon L -> In n (dag L) -> validate L n b = (VOk, b') -> needs_cover L n -> coversZ L n.
Proof.
  intros [Hca Hcf] Hn H [Hs [Ht Hr]]. unfold validate in H.
  destruct (valid_weight L _); cbn [negb] in H; [|inversion H].
  destruct (v_ok (nv n)); cbn [negb] in H; [|inversion H].
  rewrite Hr, Hs, Ht in H. cbn [negb orb] in H.
  set (a := t_issuer (v_trx (nv n))) in *.
  destruct (supply zero_mel (funds_of L a)) as [i0 [e|]] eqn:E0; [inversion H|].
  destruct (supply_some _ _ _ canon_zero (Hcf a) E0) as [Ci0 Vi0]. rewrite valZ_zero in Vi0.
  destruct (pour a (nv n) (i0, zero_mel)) as [[i1 o1]|] eqn:Ep; [|inversion H].
  destruct (pour_some _ _ _ _ _ _ Ci0 canon_zero (Hca n Hn) Ep) as [Ci1 [Co1 [Vi1 Vo1]]]. rewrite valZ_zero in Vo1.
  destruct (pour_walk true a (v_left (nv n)) (v_right (nv n)) (ancestors L n) (i1, o1) b) as [[[[i2 o2]|] vr] b2] eqn:Ew;
    [|inversion H; subst; exfalso; exact (pour_walk_none _ _ _ _ _ _ _ _ _ Ew eq_refl)].
  destruct (pour_walk_some _ _ _ _ _ _ _ _ _ _ _ _ Ci1 Co1 (fun m Hm => Hca m (ancestors_sub _ _ _ Hm)) Ew)
    as [Ci2 [Co2 [Vi2 [Vo2 _]]]].
  destruct (transfer o2 i2 zero_mel) as [[f t] [e|]] eqn:Et; [inversion H|].
  (* transfer succeeded on canonical operands: funds suffice *)
  assert (Hle : valZ o2 <= valZ i2).
  { destruct (Z_le_gt_dec (valZ o2) (valZ i2)) as [Hle|Hgt]; [exact Hle|].
    destruct (transfer_fails o2 i2 zero_mel Co2 Ci2 canon_zero (or_introl (proj1 (Z.gt_lt_iff _ _) Hgt))) as [e Ef].
    rewrite Ef in Et. discriminate. }
  unfold coversZ, history. fold a. unfold sumZ in *. cbn [fold_right]. lia. 
Qed.

(* ---------------------------------------------------------------- dropping another tip does not change a tip's history *)
Lemma anc_pass_filter_tip h l : forall w,
  (forall n, In n l -> ~ In h (lp n)) -> ~ In h w ->
  anc_pass w (filter (fun m => negb (N.eqb (nhash m) h)) l) = anc_pass w l.
Proof.
  induction l as [|m r IH]; intros w Hl Hw; cbn [filter anc_pass]; [reflexivity|].
  destruct (N.eqb_spec (nhash m) h) as [E|E]; cbn [negb].
  - rewrite E. apply nmem_false in Hw. rewrite Hw. apply IH; [intros n Hn; apply Hl; right; exact Hn|apply nmem_false; exact Hw].
  - cbn [anc_pass]. destruct (nmem (nhash m) w).
    + f_equal. apply IH; [intros n Hn; apply Hl; right; exact Hn|].
      intros Hin. apply in_app_or in Hin. destruct Hin as [Hin|Hin]; [exact (Hl m (or_introl eq_refl) Hin)|exact (Hw Hin)].
    + apply IH; [intros n Hn; apply Hl; right; exact Hn|exact Hw].
Qed.
Lemma anc_from_filter_tip h x l :
  (forall n, In n l -> ~ In h (lp n)) -> x <> h ->
  anc_from x (filter (fun m => negb (N.eqb (nhash m) h)) l) = anc_from x l.
Proof.
  induction l as [|m r IH]; intros Hl Hx; cbn [filter anc_from]; [reflexivity|].
  destruct (N.eqb_spec (nhash m) h) as [E|E]; cbn [negb].
  - destruct (N.eqb_spec (nhash m) x) as [E2|E2]; [congruence|]. apply IH; [intros n Hn; apply Hl; right; exact Hn|exact Hx].
  - cbn [anc_from]. destruct (N.eqb (nhash m) x).
    + apply anc_pass_filter_tip; [intros n Hn; apply Hl; right; exact Hn|apply Hl; left; reflexivity].
    + apply IH; [intros n Hn; apply Hl; right; exact Hn|exact Hx].
Qed.

Lemma coversZ_drop_tip L t n :
  has_child L (nhash t) = false -> nhash n <> nhash t -> coversZ (drop_tip L t) n <-> coversZ L n.
Proof.
  intros Hc Hne. unfold coversZ, history, ancestors, funds_of. unfold drop_tip, rm_tip, bump. cbn [dag st_funds set_wt set_index set_dag].
  rewrite del_node_tip by exact Hc. rewrite anc_from_filter_tip; [reflexivity| |exact Hne].
  exact (proj1 (has_child_false L _) Hc).
Qed.
Lemma coversZ_bump L w n : coversZ (bump L w) n <-> coversZ L n.
Proof. reflexivity. Qed.

(* ---------------------------------------------------------------- canonicity is preserved by the arithmetic, failing or not *)
Lemma supply_canon m a : canon m -> canon a -> canon (fst (supply m a)).
Proof.
  intros Hm Ha. destruct (supply m a) as [m' [e|]] eqn:E; cbn.
  - rewrite (supply_err_unchanged _ _ _ _ E). exact Hm.
  - exact (proj1 (supply_some _ _ _ Hm Ha E)).
Qed.
Lemma transfer_canon_from a f t : canon a -> canon f -> canon t -> canon (fst (fst (transfer a f t))).
Proof.
  intros Ha Hf Ht. destruct (transfer a f t) as [[f' t'] [e|]] eqn:E; cbn.
  - pose proof (transfer_err_unchanged _ _ _ _ _ E) as X. inversion X; subst. exact Hf.
  - destruct (Z_le_gt_dec (valZ a) (valZ f)) as [Hle|Hgt].
    + destruct (Z_lt_le_dec (valZ t + valZ a) LIMIT) as [Hlt|Hge].
      * destruct (transfer_ok a f t Ha Hf Ht Hle Hlt) as [f2 [t2 [E2 [C2 _]]]]. rewrite E2 in E. inversion E; subst. exact C2.
      * destruct (transfer_fails a f t Ha Hf Ht (or_intror Hge)) as [e E2]. rewrite E2 in E. discriminate.
    + destruct (transfer_fails a f t Ha Hf Ht (or_introl (proj1 (Z.gt_lt_iff _ _) Hgt))) as [e E2]. rewrite E2 in E. discriminate.
Qed.

Definition funds_canon (sf : list (N * mel)) : Prop := forall a m, In (a, m) sf -> canon m.
Definition fm_canon (m : fm) : Prop := forall a p, In (a, p) m -> canon (fst p) /\ canon (snd p).

Lemma assoc_set_in {A} k (x : A) l a y : In (a, y) (assoc_set k x l) -> (a = k /\ y = x) \/ In (a, y) l.
Proof.
  unfold assoc_set, assoc_del. intros [H|H]; [inversion H; auto|]. apply filter_In in H. tauto.
Qed.
Lemma fm_get_canon a m : fm_canon m -> canon (fst (fm_get a m)) /\ canon (snd (fm_get a m)).
Proof.
  intros H. unfold fm_get. destruct (assoc a m) as [p|] eqn:E; [|cbn; split; apply canon_zero].
  apply assoc_In in E. exact (H _ _ E).
Qed.
Lemma fm_canon_set m a p : fm_canon m -> canon (fst p) -> canon (snd p) -> fm_canon (assoc_set a p m).
Proof.
  intros Hm H1 H2 a' p' Hin. apply assoc_set_in in Hin. destruct Hin as [[_ Ep]|Hin]; [subst p'; auto|exact (Hm _ _ Hin)].
Qed.
Lemma fm_next_canon m v : fm_canon m -> canon (t_spice (v_trx v)) -> fm_canon (fm_next m v).
Proof.
  intros Hm Hc. unfold fm_next. destruct (is_spice (v_trx v)); cbn [negb]; [|exact Hm].
  destruct (fm_get_canon (t_issuer (v_trx v)) m Hm) as [I1 I2].
  set (m1 := assoc_set (t_issuer (v_trx v)) _ m).
  assert (Hm1 : fm_canon m1) by (apply fm_canon_set; cbn; [exact Hm|exact I1|apply supply_canon; assumption]).
  destruct (fm_get_canon (t_receiver (v_trx v)) m1 Hm1) as [R1 R2].
  apply fm_canon_set; cbn; [exact Hm1|apply supply_canon; assumption|exact R2].
Qed.
Lemma fold_fm_next_canon vs : forall m, fm_canon m -> (forall v, In v vs -> canon (t_spice (v_trx v))) ->
  fm_canon (fold_left fm_next vs m).
Proof.
  induction vs as [|v vs IH]; intros m Hm Hc; cbn; [exact Hm|].
  apply IH; [apply fm_next_canon; [exact Hm|apply Hc; left; reflexivity]|intros u Hu; apply Hc; right; exact Hu].
Qed.

Lemma truncate_funds_canon L tip cut a32 L' r :
  funds_canon (st_funds L) -> (forall m, In m (dag L) -> canon (t_spice (v_trx (nv m)))) ->
  truncate L tip cut a32 = (L', r) -> funds_canon (st_funds L').
Proof.
  intros Hf Hd H. unfold truncate in H. destruct (leaves L) as [|lf0 lfs0]; [inversion H; subst; exact Hf|].
  destruct (_ || _); [inversion H; subst; exact Hf|]. destruct (existsb _ _); inversion H; subst; [exact Hf|]. clear H.
  cbn [st_funds set_dag set_store].
  set (m1 := fold_left fm_next _ _).
  assert (Hm1 : fm_canon m1).
  { apply fold_fm_next_canon.
    - intros a p Hin. apply in_map_iff in Hin. destruct Hin as [[a0 x] [E Hx]]. inversion E; subst. cbn.
      apply filter_In in Hx. split; [exact (Hf _ _ (proj1 Hx))|apply canon_zero].
    - intros v Hv. apply in_map_iff in Hv. destruct Hv as [n [E Hn]]. subst v. apply Hd. eapply ancestors_sub; eauto. }
  assert (G : forall l sf, (forall a p, In (a, p) l -> canon (fst p) /\ canon (snd p)) -> funds_canon sf ->
            funds_canon (fold_left (fun acc p => assoc_set (fst p) (fm_result (snd p)) acc) l sf)).
  { induction l as [|[a p] l IHl]; intros sf Hl Hsf; cbn; [exact Hsf|]. apply IHl; [intros a1 p1 Hin1; apply (Hl a1 p1); right; exact Hin1|].
    intros a' x Hin. apply assoc_set_in in Hin. destruct Hin as [[_ Ex]|Hin]; [|exact (Hsf _ _ Hin)].
    subst x. unfold fm_result. destruct (Hl a p (or_introl eq_refl)) as [C1 C2].
    apply transfer_canon_from; [exact C2|exact C1|apply canon_zero]. }
  apply G; [|exact Hf]. intros a p Hin. apply in_rev in Hin. exact (Hm1 _ _ Hin).
Qed.

Lemma funds_of_canon L : funds_canon (st_funds L) -> forall a, canon (funds_of L a).
Proof.
  intros H a. unfold funds_of. destruct (assoc a (st_funds L)) as [m|] eqn:E; [|apply canon_zero].
  apply assoc_In in E. exact (H _ _ E).
Qed.

(* ---------------------------------------------------------------- fields the admission loops never touch (no invariant needed) *)
Definition same_store (L L' : ledger) : Prop :=
  st_vtx L' = st_vtx L /\ st_funds L' = st_funds L /\ trusted L' = trusted L.
Lemma valid_leaves_store order : forall L acc e b L' acc' e' b',
  valid_leaves L order acc e b = (((L', acc'), e'), b') -> same_store L L'.
Proof.
  induction order as [|h rest IH]; intros L acc e b L' acc' e' b' H; cbn [valid_leaves] in H.
  - inversion H; subst. repeat split.
  - destruct (2 <=? length acc)%nat; [inversion H; subst; repeat split|].
    destruct (find_node h (dag L)) as [n|]; [|eapply IH; eauto].
    destruct (_ || _); [eapply IH; eauto|].
    destruct (validate L n b) as [r b1]. destruct r; apply IH in H; exact H.
Qed.
Lemma link_parents_store hs : forall L v rep acc b L' r ps b',
  link_parents L v rep hs acc b = ((L', r, ps), b') -> same_store L L'.
Proof.
  induction hs as [|h rest IH]; intros L v rep acc b L' r ps b' H; cbn [link_parents] in H.
  - inversion H; subst. repeat split.
  - destruct (find_node h (dag L)) as [p|].
    + destruct (negb (has_child L h)); [|eapply IH; eauto].
      destruct (validate L p b) as [vr b1]. destruct vr; [apply IH in H; exact H|..]; inversion H; subst; repeat split.
    + unfold park in H. destruct (_ =? _); [inversion H; subst; repeat split|].
      destruct (_ <? _); inversion H; subst; repeat split.
Qed.

(* ---------------------------------------------------------------- every tip that gets a child was covered *)
Definition covered (L : ledger) (n : node) : Prop := needs_cover L n -> coversZ L n.

Lemma amounts_canon_bump L w : amounts_canon L -> amounts_canon (bump L w).
Proof. intros H. exact H. Qed.
Lemma amounts_canon_drop_tip L n : amounts_canon L -> amounts_canon (drop_tip L n).
Proof.
  intros [H1 H2]. split; [|exact H2]. intros m Hm. unfold drop_tip, rm_tip, bump in Hm. cbn in Hm.
  apply del_node_In in Hm. destruct Hm as [m0 [Hm0 [_ E]]]. subst m. cbn. apply H1. exact Hm0.
Qed.

(* gossip path: each declared parent that was a tip passed validation in a ledger that differs from L
   only in the weight/throughput counters *)
Lemma link_parents_covered hs : forall L v rep acc b L' ps b',
  amounts_canon L -> link_parents L v rep hs acc b = ((L', ROk, ps), b') ->
  forall h p, In h hs -> find_node h (dag L) = Some p -> has_child L h = false -> covered L p.
Proof.
  induction hs as [|h0 rest IH]; intros L v rep acc b L' ps b' Hc H h p Hin Hf Hch; [destruct Hin|].
  cbn [link_parents] in H.
  destruct (find_node h0 (dag L)) as [p0|] eqn:Ef0.
  - destruct (has_child L h0) eqn:Hc0; cbn [negb] in H.
    + destruct Hin as [E|Hin]; [subst h0; congruence|]. eapply IH; eauto.
    + destruct (validate L p0 b) as [vr b1] eqn:Ev. destruct vr; try (inversion H; fail).
      destruct Hin as [E|Hin].
      * subst h0. rewrite Hf in Ef0. inversion Ef0; subst p0. intros Hn.
        eapply validate_ok_covers; eauto. apply find_node_some in Hf. tauto.
      * assert (X : covered (bump L (v_weight (nv p0))) p) by (eapply IH; eauto).
        exact X.
  - unfold park in H. destruct (_ =? _); [inversion H|]. destruct (_ <? _); inversion H.
Qed.

Lemma needs_cover_drop_tip L t n : needs_cover (drop_tip L t) n <-> needs_cover L n.
Proof. reflexivity. Qed.

(* proposal path: the tips handed back by getValidLeaves are covered in the ledger they are handed back in *)
Lemma valid_leaves_covered order : forall L acc e b L' acc' e' b',
  amounts_canon L ->
  (forall m, In m acc -> In m (dag L) /\ has_child L (nhash m) = false /\ covered L m) ->
  valid_leaves L order acc e b = (((L', acc'), e'), b') ->
  amounts_canon L' /\ (forall m, In m acc' -> In m (dag L') /\ has_child L' (nhash m) = false /\ covered L' m).
Proof.
  induction order as [|h rest IH]; intros L acc e b L' acc' e' b' Hc Hacc H; cbn [valid_leaves] in H.
  - inversion H; subst. auto.
  - destruct (2 <=? length acc)%nat; [inversion H; subst; auto|].
    destruct (find_node h (dag L)) as [n|] eqn:Ef; [|eapply IH; eauto].
    destruct (has_child L h) eqn:Hch; cbn [orb] in H; [eapply IH; eauto|].
    destruct (nmem h (map nhash acc)) eqn:Hm; [eapply IH; eauto|].
    apply find_node_some in Ef. destruct Ef as [Hn Eh].
    destruct (validate L n b) as [r b1] eqn:Ev.
    assert (Hdrop : forall m, In m acc -> In m (dag (drop_tip L n)) /\ has_child (drop_tip L n) (nhash m) = false /\ covered (drop_tip L n) m).
    { intros m Hin. destruct (Hacc m Hin) as [H1 [H2 H3]].
      assert (Hne : nhash m <> nhash n).
      { intros Eq. apply nmem_false in Hm. apply Hm. apply in_map_iff. exists m. split; [congruence|exact Hin]. }
      split; [apply in_dag_drop_tip; [rewrite Eh; exact Hch|exact H1|exact Hne]|].
      split; [apply has_child_drop_tip; exact H2|].
      intros Hnc. apply coversZ_drop_tip; [rewrite Eh; exact Hch|exact Hne|]. apply H3. exact Hnc. }
    destruct r; try (eapply IH; [apply amounts_canon_drop_tip; exact Hc|exact Hdrop|exact H]).
    eapply IH; [exact Hc| |exact H]. intros m Hin. apply in_app_or in Hin. destruct Hin as [Hin|[Hin|[]]]; [auto|].
    subst m. split; [exact Hn|]. split; [rewrite Eh; exact Hch|]. intros Hnc. eapply validate_ok_covers; eauto.
Qed.

(* ---------------------------------------------------------------- CalculateBalance *)
Definition flowZ (L : ledger) (a : N) (tip : node) : Z :=
  valZ (funds_of L a) + sumZ (inZ a) (history L tip) - sumZ (outZ a) (history L tip).

(* whatever it returns is the reference sum; in particular a negative sum is never reported as a number *)
Theorem balance_value L a tip b m :
  amounts_canon L -> In tip (dag L) -> balance L a tip b = Some m -> canon m /\ valZ m = flowZ L a tip.
Proof.
  intros [Hca Hcf] Ht H. unfold balance in H.
  destruct (pour a (nv tip) (zero_mel, zero_mel)) as [[i1 o1]|] eqn:Ep; [|discriminate].
  destruct (pour_some _ _ _ _ _ _ canon_zero canon_zero (Hca tip Ht) Ep) as [Ci1 [Co1 [Vi1 Vo1]]]. rewrite valZ_zero in *.
  destruct (pour_walk false a 0 0 (ancestors L tip) (i1, o1) b) as [[[[i2 o2]|] vr] b2] eqn:Ew; [|discriminate].
  destruct (pour_walk_some _ _ _ _ _ _ _ _ _ _ _ _ Ci1 Co1 (fun x Hx => Hca x (ancestors_sub _ _ _ Hx)) Ew)
    as [Ci2 [Co2 [Vi2 [Vo2 _]]]].
  destruct (supply (funds_of L a) i2) as [s [e|]] eqn:Es; [discriminate|].
  destruct (supply_some _ _ _ (Hcf a) Ci2 Es) as [Cs Vs].
  destruct (transfer o2 s zero_mel) as [[s' t'] [e|]] eqn:Et; [discriminate|]. inversion H; subst s'. clear H.
  destruct (Z_le_gt_dec (valZ o2) (valZ s)) as [Hle|Hgt].
  - destruct (Z_lt_le_dec (valZ zero_mel + valZ o2) LIMIT) as [Hlt|Hge].
    + destruct (transfer_ok o2 s zero_mel Co2 Cs canon_zero Hle Hlt) as [f2 [t2 [E2 [C2 [_ [V2 _]]]]]].
      rewrite E2 in Et. inversion Et; subst. split; [exact C2|].
      unfold flowZ, history. unfold sumZ in *. cbn [fold_right]. lia.
    + destruct (transfer_fails o2 s zero_mel Co2 Cs canon_zero (or_intror Hge)) as [e E2]. rewrite E2 in Et. discriminate.
  - destruct (transfer_fails o2 s zero_mel Co2 Cs canon_zero (or_introl (proj1 (Z.gt_lt_iff _ _) Hgt))) as [e E2].
    rewrite E2 in Et. discriminate.
Qed.

Corollary balance_negative_is_error L a tip b :
  amounts_canon L -> In tip (dag L) -> flowZ L a tip < 0 -> balance L a tip b = None.
Proof.
  intros Hc Ht Hneg. destruct (balance L a tip b) as [m|] eqn:E; [|reflexivity].
  destruct (balance_value _ _ _ _ _ Hc Ht E) as [Cm Vm]. pose proof (canon_valZ_nonneg _ Cm). lia.
Qed.

(* canonical amounts are determined by their value *)
Lemma canon_valZ_inj m1 m2 : canon m1 -> canon m2 -> valZ m1 = valZ m2 -> m1 = m2.
Proof.
  destruct m1 as [c1 s1], m2 as [c2 s2]. unfold canon, valZ, MX, MaxAmountPerSupplementaryCurrency. cbn.
  intros [H1 H2] [H3 H4] E. assert (c1 = c2) by nia. subst. f_equal. lia.
Qed.

(* completeness when the caller never cancels and the accumulated flows are representable *)
Lemma supply_total m a : canon m -> canon a -> valZ m + valZ a < LIMIT -> exists m', supply m a = (m', None).
Proof. intros Hm Ha Hl. destruct (supply_ok m a Hm Ha Hl) as [m' [E _]]. eauto. Qed.

Lemma pour_total a v i o : canon i -> canon o -> canon (t_spice (v_trx v)) ->
  valZ i + inZ a v < LIMIT -> valZ o + outZ a v < LIMIT -> exists io', pour a v (i, o) = Some io'.
Proof.
  intros Hi Ho Hc. unfold pour, inZ, outZ, amountZ.
  destruct (is_spice (v_trx v)); cbn [negb andb]; [|eauto].
  destruct (N.eqb (t_issuer (v_trx v)) a), (N.eqb (t_receiver (v_trx v)) a); intros L1 L2.
  - destruct (supply_total o _ Ho Hc L2) as [o' Eo]. rewrite Eo. destruct (supply_total i _ Hi Hc L1) as [i' Ei]. rewrite Ei. eauto.
  - destruct (supply_total o _ Ho Hc L2) as [o' Eo]. rewrite Eo. eauto.
  - destruct (supply_total i _ Hi Hc L1) as [i' Ei]. rewrite Ei. eauto.
  - eauto.
Qed.

Lemma sumZ_nonneg f l : (forall v, In v l -> 0 <= f v) -> 0 <= sumZ f l.
Proof. unfold sumZ. induction l as [|x l IH]; cbn; [lia|]. intros H. pose proof (H x (or_introl eq_refl)). specialize (IH (fun v Hv => H v (or_intror Hv))). lia. Qed.

Lemma pour_walk_total a l r ancs : forall i o,
  canon i -> canon o -> (forall n, In n ancs -> canon (t_spice (v_trx (nv n)))) ->
  valZ i + sumZ (inZ a) (map nv ancs) < LIMIT -> valZ o + sumZ (outZ a) (map nv ancs) < LIMIT ->
  exists io' vr b', pour_walk false a l r ancs (i, o) None = ((Some io', vr), b').
Proof.
  induction ancs as [|n rest IH]; intros i o Hi Ho Hc L1 L2; cbn [pour_walk]; [eauto|].
  cbn [poll andb]. unfold sumZ in L1, L2. cbn [map fold_right] in L1, L2. fold (sumZ (inZ a) (map nv rest)) in L1. fold (sumZ (outZ a) (map nv rest)) in L2.
  assert (N1 : 0 <= sumZ (inZ a) (map nv rest)).
  { apply sumZ_nonneg. intros v Hv. apply in_map_iff in Hv. destruct Hv as [x [E Hx]]. subst v. apply inZ_nonneg. apply Hc. right. exact Hx. }
  assert (N2 : 0 <= sumZ (outZ a) (map nv rest)).
  { apply sumZ_nonneg. intros v Hv. apply in_map_iff in Hv. destruct Hv as [x [E Hx]]. subst v. apply outZ_nonneg. apply Hc. right. exact Hx. }
  destruct (pour_total a (nv n) i o Hi Ho (Hc n (or_introl eq_refl))) as [[i1 o1] Ep]; [lia|lia|].
  rewrite Ep. destruct (pour_some _ _ _ _ _ _ Hi Ho (Hc n (or_introl eq_refl)) Ep) as [Ci [Co [Vi Vo]]].
  apply IH; [exact Ci|exact Co|intros m Hm; apply Hc; right; exact Hm|lia|lia].
Qed.

Theorem balance_complete L a tip :
  amounts_canon L -> In tip (dag L) ->
  valZ (funds_of L a) + sumZ (inZ a) (history L tip) < LIMIT -> sumZ (outZ a) (history L tip) < LIMIT ->
  0 <= flowZ L a tip -> exists m, balance L a tip None = Some m.
Proof.
  intros [Hca Hcf] Ht L1 L2 Hpos. unfold balance, flowZ, history in *. unfold sumZ in L1, L2, Hpos. cbn [fold_right] in L1, L2, Hpos.
  fold (sumZ (inZ a) (map nv (ancestors L tip))) in *. fold (sumZ (outZ a) (map nv (ancestors L tip))) in *.
  assert (Hanc : forall n, In n (ancestors L tip) -> canon (t_spice (v_trx (nv n)))) by (intros n Hn; apply Hca; eapply ancestors_sub; eauto).
  assert (N1 : 0 <= sumZ (inZ a) (map nv (ancestors L tip))).
  { apply sumZ_nonneg. intros v Hv. apply in_map_iff in Hv. destruct Hv as [x [E Hx]]. subst v. apply inZ_nonneg. apply Hanc. exact Hx. }
  assert (N2 : 0 <= sumZ (outZ a) (map nv (ancestors L tip))).
  { apply sumZ_nonneg. intros v Hv. apply in_map_iff in Hv. destruct Hv as [x [E Hx]]. subst v. apply outZ_nonneg. apply Hanc. exact Hx. }
  pose proof (canon_valZ_nonneg _ (Hcf a)) as N0.
  pose proof (inZ_nonneg a (nv tip) (Hca tip Ht)) as N3. pose proof (outZ_nonneg a (nv tip) (Hca tip Ht)) as N4.
  destruct (pour_total a (nv tip) zero_mel zero_mel canon_zero canon_zero (Hca tip Ht)) as [[i1 o1] Ep]; [rewrite valZ_zero; lia|rewrite valZ_zero; lia|].
  rewrite Ep. destruct (pour_some _ _ _ _ _ _ canon_zero canon_zero (Hca tip Ht) Ep) as [Ci1 [Co1 [Vi1 Vo1]]]. rewrite valZ_zero in *.
  destruct (pour_walk_total a 0%N 0%N (ancestors L tip) i1 o1 Ci1 Co1 Hanc) as [[i2 o2] [vr [b' Ew]]]; [lia|lia|].
  rewrite Ew. destruct (pour_walk_some _ _ _ _ _ _ _ _ _ _ _ _ Ci1 Co1 Hanc Ew) as [Ci2 [Co2 [Vi2 [Vo2 _]]]].
  destruct (supply_ok (funds_of L a) i2 (Hcf a) Ci2) as [s [Es [Cs Vs]]]; [lia|]. rewrite Es.
  destruct (transfer_ok o2 s zero_mel Co2 Cs canon_zero) as [f2 [t2 [E2 _]]]; [lia|rewrite valZ_zero; lia|].
  rewrite E2. eauto.
Qed.

(* two ledgers whose tip histories hold the same vertices (in any order) and the same checkpointed funds
   report the same balance *)
Lemma flowZ_perm L1 L2 a t1 t2 :
  Permutation.Permutation (history L1 t1) (history L2 t2) -> funds_of L1 a = funds_of L2 a -> flowZ L1 a t1 = flowZ L2 a t2.
Proof.
  intros P F. unfold flowZ. rewrite F.
  assert (S : forall f, sumZ f (history L1 t1) = sumZ f (history L2 t2)).
  { intros f. unfold sumZ. induction P; cbn; lia. }
  rewrite !S. reflexivity.
Qed.
Theorem balance_set_determined L1 L2 a t1 t2 b1 b2 m1 m2 :
  amounts_canon L1 -> amounts_canon L2 -> In t1 (dag L1) -> In t2 (dag L2) ->
  Permutation.Permutation (history L1 t1) (history L2 t2) -> funds_of L1 a = funds_of L2 a ->
  balance L1 a t1 b1 = Some m1 -> balance L2 a t2 b2 = Some m2 -> m1 = m2.
Proof.
  intros C1 C2 H1 H2 P F B1 B2.
  destruct (balance_value _ _ _ _ _ C1 H1 B1) as [K1 V1]. destruct (balance_value _ _ _ _ _ C2 H2 B2) as [K2 V2].
  apply canon_valZ_inj; auto. rewrite V1, V2. apply flowZ_perm; assumption.
Qed.
