(* Proofs/NotaryP.v — C16 over all sequences of notary calls by honest and dishonest clients. *)
From Coq Require Import List Arith NArith Bool Lia.
From Verif Require Import Notary.
Import ListNotations.

(* the invariant: a transaction carrying data is sealed only through Confirm or Reject; no hash is sealed twice;
   nothing sealed is still awaiting... (the last one is not an invariant of the code and is not claimed) *)
Record NInv (st : nstate) : Prop := {
  ni_contract : forall t k, In (t, k) (sealed st) -> n_data t = true -> k = ByConfirm \/ k = ByReject;
  ni_transfer : forall t, In (t, ByPropose) (sealed st) -> n_data t = false;
  ni_once : NoDup (map (fun p => n_hash (fst p)) (sealed st));
  ni_await_data : forall t, In t (awaiting st) -> n_data t = true
}.

Lemma is_sealed_false h st : is_sealed h st = false -> ~ In h (map (fun p => n_hash (fst p)) (sealed st)).
Proof.
  unfold is_sealed. intros H Hin. apply in_map_iff in Hin. destruct Hin as [p [E Hp]].
  assert (existsb (fun p0 => N.eqb (n_hash (fst p0)) h) (sealed st) = true).
  { apply existsb_exists. exists p. split; [exact Hp|]. rewrite E. apply N.eqb_refl. }
  congruence.
Qed.

Lemma find_await_some h st c : find_await h st = Some c -> In c (awaiting st) /\ n_hash c = h.
Proof. unfold find_await. intros H. apply find_some in H. destruct H as [H1 H2]. apply N.eqb_eq in H2. auto. Qed.

Lemma seal_inv st t k lok s : NInv st -> seal st t k lok = Some s ->
  (n_data t = true -> k = ByConfirm \/ k = ByReject) -> (k = ByPropose -> n_data t = false) ->
  (forall aw, (forall x, In x aw -> n_data x = true) -> NInv (NState aw s (challenges st))).
Proof.
  intros I H Hk1 Hk2 aw Haw. unfold seal in H. destruct (is_sealed (n_hash t) st) eqn:Es; [discriminate|].
  destruct lok; cbn in H; [|discriminate]. inversion H; subst; clear H. destruct I as [A B C D].
  constructor; cbn.
  - intros x kx [E|Hin] Hd; [inversion E; subst; auto|eapply A; eauto].
  - intros x [E|Hin]; [inversion E; subst; auto|apply B; exact Hin].
  - constructor; [apply is_sealed_false; exact Es|exact C].
  - exact Haw.
Qed.

Theorem nstep_inv st o : NInv st -> NInv (fst (nstep st o)).
Proof.
  intros I. pose proof I as [A B C D]. destruct o; cbn [nstep].
  - destruct isig; cbn [negb]; [|exact I]. destruct (n_data t) eqn:Ed.
    + destruct (find_await (n_hash t) st); [exact I|]. cbn. constructor; cbn; auto. intros x [E|Hx]; [subst; exact Ed|apply D; exact Hx].
    + destruct (seal st t ByPropose ledger_ok) as [s|] eqn:Es; [|exact I]. cbn.
      eapply (seal_inv st t ByPropose ledger_ok s I Es); [congruence|auto|exact D].
  - destruct (isig && rsig); cbn [negb]; [|exact I]. destruct (find_await (n_hash t) st) as [c|] eqn:Ef; [|exact I].
    destruct (N.eqb (n_receiver c) (n_receiver t)); cbn [negb]; [|exact I].
    set (st1 := NState (del_await (n_hash t) st) (sealed st) (challenges st)).
    assert (I1 : NInv st1).
    { constructor; cbn; auto. intros x Hx. unfold del_await in Hx. apply filter_In in Hx. apply D. tauto. }
    destruct (seal st1 t ByConfirm ledger_ok) as [s|] eqn:Es; [|exact I1]. cbn.
    eapply (seal_inv st1 t ByConfirm ledger_ok s I1 Es); [auto|discriminate|exact (ni_await_data _ I1)].
  - destruct sig; cbn [negb]; [|exact I]. destruct (find_await h st) as [c|] eqn:Ef; [|exact I].
    destruct (N.eqb (n_receiver c) addr); cbn [negb]; [|exact I].
    set (st1 := NState (del_await h st) (sealed st) (challenges st)).
    assert (I1 : NInv st1).
    { constructor; cbn; auto. intros x Hx. unfold del_await in Hx. apply filter_In in Hx. apply D. tauto. }
    destruct (seal st1 c ByReject ledger_ok) as [s|] eqn:Es; [|exact I1]. cbn.
    eapply (seal_inv st1 c ByReject ledger_ok s I1 Es); [auto|discriminate|exact (ni_await_data _ I1)].
  - constructor; cbn; auto.
  - constructor; cbn; auto.
  - destruct (get_chall addr st); [destruct (_ && _)|]; exact I.
  - destruct throttled; [exact I|]. destruct (get_chall addr st); [destruct (_ && _)|]; exact I.
  - destruct throttled; [exact I|]. destruct (_ && _); exact I.
Qed.

Theorem nrun_inv ops : NInv (nrun ops).
Proof.
  unfold nrun. assert (G : forall st, NInv st -> NInv (fold_left (fun st o => fst (nstep st o)) ops st)).
  { induction ops as [|o ops IH]; intros st I; cbn [fold_left]; [exact I|]. apply IH. apply nstep_inv. exact I. }
  apply G. constructor; cbn; try (intros; contradiction). constructor.
Qed.

(* what it takes for a data-carrying transaction to get sealed by one call *)
Theorem contract_sealed_only_by_receiver_action st o t k :
  ~ In (t, k) (sealed st) -> In (t, k) (sealed (fst (nstep st o))) -> n_data t = true -> NInv st ->
  (exists isig rsig lok, o = NConfirm t isig rsig lok /\ isig = true /\ rsig = true /\
        exists c, find_await (n_hash t) st = Some c /\ n_receiver c = n_receiver t) \/
  (exists addr lok, o = NReject (n_hash t) addr true lok /\ find_await (n_hash t) st = Some t /\ n_receiver t = addr).
Proof.
  intros Hn Hin Hd I. destruct o; cbn [nstep] in Hin.
  - destruct isig; cbn [negb] in Hin; [|contradiction]. destruct (n_data t0) eqn:Ed.
    + destruct (find_await (n_hash t0) st); cbn in Hin; contradiction.
    + unfold seal in Hin. destruct (_ || _); cbn in Hin; [contradiction|]. destruct Hin as [E|Hin]; [inversion E; subst; congruence|contradiction].
  - destruct isig, rsig; cbn [andb negb] in Hin; try contradiction.
    destruct (find_await (n_hash t0) st) as [c|] eqn:Ef; [|contradiction].
    destruct (N.eqb_spec (n_receiver c) (n_receiver t0)) as [Er|Er]; cbn [negb] in Hin; [|contradiction].
    unfold seal in Hin. cbn [sealed] in Hin. destruct (_ || _); cbn in Hin; [contradiction|].
    destruct Hin as [E|Hin]; [|contradiction]. inversion E; subst. left. exists true, true, ledger_ok. repeat split; auto. exists c. auto.
  - destruct sig; cbn [negb] in Hin; [|contradiction]. destruct (find_await h st) as [c|] eqn:Ef; [|contradiction].
    destruct (N.eqb_spec (n_receiver c) addr) as [Er|Er]; cbn [negb] in Hin; [|contradiction].
    unfold seal in Hin. cbn [sealed] in Hin. destruct (_ || _); cbn in Hin; [contradiction|].
    destruct Hin as [E|Hin]; [|contradiction]. inversion E; subst. right.
    destruct (find_await_some _ _ _ Ef) as [_ Eh]. exists (n_receiver t), ledger_ok. rewrite <- Eh. rewrite Eh in *. auto.
  - cbn in Hin. contradiction.
  - cbn in Hin. contradiction.
  - destruct (get_chall addr st); [destruct (_ && _)|]; cbn in Hin; contradiction.
  - destruct throttled; [contradiction|]. destruct (get_chall addr st); [destruct (_ && _)|]; cbn in Hin; contradiction.
  - destruct throttled; [contradiction|]. destruct (_ && _); cbn in Hin; contradiction.
Qed.

(* a request with an invalid signature changes nothing *)
Theorem bad_signature_changes_nothing st :
  (forall t lok, nstep st (NPropose t false lok) = (st, NErr)) /\
  (forall t rsig lok, nstep st (NConfirm t false rsig lok) = (st, NErr)) /\
  (forall t isig lok, nstep st (NConfirm t isig false lok) = (st, NErr)) /\
  (forall h a lok, nstep st (NReject h a false lok) = (st, NErr)).
Proof.
  repeat split; intros; cbn; try reflexivity. destruct isig; reflexivity.
Qed.

(* a pure transfer is sealed on the issuer's signature alone *)
Theorem pure_transfer_sealed_on_issuer_signature st t :
  n_data t = false -> is_sealed (n_hash t) st = false ->
  nstep st (NPropose t true true) = (NState (awaiting st) ((t, ByPropose) :: sealed st) (challenges st), NOk).
Proof. intros Hd Hs. cbn. rewrite Hd. unfold seal. rewrite Hs. reflexivity. Qed.

(* waiting lists and history are returned only against the unexpired challenge issued for that address, signed *)
Theorem reads_need_the_challenge st addr blob sig l :
  snd (nstep st (NWaiting addr blob sig)) = NList l -> get_chall addr st = Some blob /\ sig = true.
Proof.
  cbn. destruct (get_chall addr st) as [b|]; [|discriminate]. destruct (N.eqb_spec b blob) as [E|E]; cbn [andb]; [|discriminate].
  destruct sig; [|discriminate]. subst. auto.
Qed.
Theorem history_needs_the_challenge st addr blob sig thr :
  snd (nstep st (NHistory addr blob sig thr)) = NOk -> get_chall addr st = Some blob /\ sig = true.
Proof.
  cbn. destruct thr; [discriminate|]. destruct (get_chall addr st) as [b|]; [|discriminate].
  destruct (N.eqb_spec b blob) as [E|E]; cbn [andb]; [|discriminate]. destruct sig; [|discriminate]. subst. auto.
Qed.
Theorem balance_needs_own_signature st addr d sig thr :
  snd (nstep st (NBalance addr d sig thr)) = NOk -> d = true /\ sig = true.
Proof. cbn. destruct thr; [discriminate|]. destruct d, sig; cbn; try discriminate. auto. Qed.
Theorem expired_challenge_is_refused st addr blob sig :
  snd (nstep (fst (nstep st (NExpire addr))) (NWaiting addr blob sig)) = NErr.
Proof.
  cbn. unfold get_chall. cbn.
  destruct (find (fun p => N.eqb (fst p) addr) (filter (fun p => negb (N.eqb (fst p) addr)) (challenges st))) as [p|] eqn:E; [|reflexivity].
  apply find_some in E. destruct E as [E1 E2]. apply filter_In in E1. destruct E1 as [_ E1]. rewrite E2 in E1. discriminate.
Qed.
