(* Proofs/TruncateFunds.v — C07: truncation changes no balance and checkpoints exactly the net flow of what it moves.
   Graph side: deleting an ancestor-closed set from the DAG leaves every surviving vertex with exactly its surviving
   ancestors (same one-pass walk, same order), and the deleted part of the history of a descendant of the cut is
   exactly the moved set.  Funds side: the in/out map built over the moved vertices holds, per address, the stored
   funds plus the exact sums in Z, and what is written back is their difference. *)
From Verif Require Import U64 Spice SpiceP RepoConstants Ledger ListFacts LedgerInv LedgerGraph Ancestors LedgerFunds LedgerReach.
From Coq Require Import NArith Permutation.

(* ---------------------------------------------------------------- walks over the stripped graph *)
Definition keep (Hs : list N) (h : N) : bool := negb (nmem h Hs).
Definition closed_in (Hs : list N) (d : list node) : Prop :=
  forall m, In m d -> In (nhash m) Hs -> forall p, In p (lp m) -> In p Hs.

Lemma nmem_filter_keep Hs h w : nmem h (filter (keep Hs) w) = nmem h w && keep Hs h.
Proof.
  induction w as [|x w IH]; cbn [filter]; [reflexivity|]. destruct (keep Hs x) eqn:Ex.
  - unfold nmem in *. cbn [existsb]. rewrite IH. destruct (N.eqb_spec h x) as [->|Ne]; cbn [orb andb]; [rewrite Ex; reflexivity|reflexivity].
  - rewrite IH. unfold nmem. cbn [existsb]. destruct (N.eqb_spec h x) as [->|Ne]; cbn [orb andb]; [rewrite Ex, andb_false_r; reflexivity|reflexivity].
Qed.

Lemma filter_keep_all_in Hs l : (forall p, In p l -> In p Hs) -> filter (keep Hs) l = [].
Proof.
  induction l as [|x l IH]; cbn [filter]; [reflexivity|]. intros H.
  assert (Hx : keep Hs x = false) by (unfold keep; apply negb_false_iff; apply nmem_In; apply H; left; reflexivity).
  rewrite Hx. apply IH. intros p Hp. apply H. right. exact Hp.
Qed.

Definition stripped (Hs : list N) (d : list node) : list node :=
  map (strip Hs) (filter (fun n => keep Hs (nhash n)) d).

Lemma anc_pass_stripped Hs d : closed_in Hs d -> forall w,
  map nv (anc_pass (filter (keep Hs) w) (stripped Hs d)) = map nv (filter (fun n => keep Hs (nhash n)) (anc_pass w d)).
Proof.
  unfold stripped. induction d as [|x r IH]; intros Hc w; cbn [filter map anc_pass]; [reflexivity|].
  assert (Hcr : closed_in Hs r) by (intros m Hm; apply Hc; right; exact Hm).
  destruct (keep Hs (nhash x)) eqn:Ek.
  - cbn [map anc_pass]. unfold strip at 1. unfold nhash at 1. cbn [nv]. fold (nhash x).
    rewrite nmem_filter_keep, Ek, andb_true_r.
    destruct (nmem (nhash x) w); cbn [filter].
    + rewrite Ek. cbn [map]. f_equal.
      replace (lp (strip Hs x) ++ filter (keep Hs) w) with (filter (keep Hs) (lp x ++ w)) by (rewrite filter_app; reflexivity).
      apply IH. exact Hcr.
    + apply IH. exact Hcr.
  - destruct (nmem (nhash x) w); cbn [filter].
    + rewrite Ek. rewrite <- (IH Hcr). f_equal. f_equal. rewrite filter_app.
      rewrite (filter_keep_all_in Hs (lp x)); [reflexivity|].
      intros p Hp. apply (Hc x (or_introl eq_refl)); [|exact Hp].
      unfold keep in Ek. apply negb_false_iff in Ek. apply nmem_In. exact Ek.
    + apply IH. exact Hcr.
Qed.

Lemma anc_from_stripped Hs d h : closed_in Hs d -> keep Hs h = true ->
  map nv (anc_from h (stripped Hs d)) = map nv (filter (fun n => keep Hs (nhash n)) (anc_from h d)).
Proof.
  unfold stripped. induction d as [|x r IH]; intros Hc Hk; cbn [filter map anc_from]; [reflexivity|].
  assert (Hcr : closed_in Hs r) by (intros m Hm; apply Hc; right; exact Hm).
  destruct (keep Hs (nhash x)) eqn:Ek.
  - cbn [map anc_from]. unfold strip at 1. unfold nhash at 1. cbn [nv]. fold (nhash x).
    destruct (N.eqb (nhash x) h).
    + replace (lp (strip Hs x)) with (filter (keep Hs) (lp x)) by reflexivity. apply (anc_pass_stripped Hs r Hcr).
    + apply IH; assumption.
  - destruct (N.eqb_spec (nhash x) h) as [E|E]; [rewrite E in Ek; congruence|]. apply IH; assumption.
Qed.

(* ---------------------------------------------------------------- sums over a split history *)
Lemma sumZ_filter_split f (p : vertex -> bool) l :
  sumZ f l = sumZ f (filter p l) + sumZ f (filter (fun v => negb (p v)) l).
Proof. unfold sumZ. induction l as [|x l IH]; cbn; [reflexivity|]. destruct (p x); cbn; lia. Qed.
Lemma sumZ_perm f a b : Permutation a b -> sumZ f a = sumZ f b.
Proof. unfold sumZ. induction 1; cbn; lia. Qed.
Lemma sumZ_map_filter f (q : node -> bool) l :
  sumZ f (map nv l) = sumZ f (map nv (filter q l)) + sumZ f (map nv (filter (fun n => negb (q n)) l)).
Proof. unfold sumZ. induction l as [|x l IH]; cbn; [reflexivity|]. destruct (q x); cbn; lia. Qed.

Lemma anc_pass_nodup l : NoDup (map nhash l) -> forall w, NoDup (map nhash (anc_pass w l)).
Proof.
  induction l as [|x r IH]; cbn; intros Hn w; [constructor|]. inversion Hn as [|? ? Hx Hr]; subst.
  destruct (nmem (nhash x) w); cbn; [|apply IH; exact Hr].
  constructor; [|apply IH; exact Hr]. intros Hin. apply Hx. apply in_map_iff in Hin. destruct Hin as [y [E Hy]].
  apply in_map_iff. exists y. split; [exact E|]. eapply anc_pass_sub; eauto.
Qed.
Lemma anc_from_nodup h l : NoDup (map nhash l) -> NoDup (map nhash (anc_from h l)).
Proof.
  induction l as [|x r IH]; cbn; intros Hn; [constructor|]. inversion Hn; subst.
  destruct (N.eqb (nhash x) h); [apply anc_pass_nodup; assumption|apply IH; assumption].
Qed.

(* the removed part of a descendant's history is exactly the moved set *)
Lemma removed_part_is_moved L n cut :
  ordered (dag L) -> NoDup (map nhash (dag L)) -> In n (dag L) -> In cut (dag L) ->
  (nhash n = nhash cut \/ anc (dag L) (nhash n) (nhash cut)) ->
  let Hs := map nhash (ancestors L cut) in
  Permutation (filter (fun m => negb (keep Hs (nhash m))) (ancestors L n)) (ancestors L cut).
Proof.
  intros Ho Hnd Hn Hc Hrel Hs.
  apply NoDup_Permutation.
  - apply (NoDup_map_inv nhash). assert (Hnn := anc_from_nodup (nhash n) (dag L) Hnd).
    fold (ancestors L n) in Hnn. clear - Hnn. induction (ancestors L n) as [|x l IH]; cbn; [constructor|].
    inversion Hnn as [|? ? Hx Hl]; subst. destruct (negb (keep Hs (nhash x))); cbn; [|apply IH; exact Hl].
    constructor; [|apply IH; exact Hl]. intros Hin. apply Hx. apply in_map_iff in Hin. destruct Hin as [y [E Hy]].
    apply in_map_iff. exists y. split; [exact E|]. apply filter_In in Hy. tauto.
  - apply (NoDup_map_inv nhash). apply anc_from_nodup. exact Hnd.
  - intros m. rewrite filter_In. split.
    + intros [Hm Hk]. unfold keep in Hk. rewrite negb_involutive in Hk. apply nmem_In in Hk.
      apply in_map_iff in Hk. destruct Hk as [m' [E Hm']].
      assert (m' = m); [|subst; exact Hm'].
      apply (NoDup_hash_eq (dag L)); auto; [eapply ancestors_sub; eauto|eapply ancestors_sub; eauto].
    + intros Hm. split.
      * apply (ancestors_spec L n m Ho Hnd Hn). apply (ancestors_spec L cut m Ho Hnd Hc) in Hm. destruct Hm as [Hmd Ha].
        split; [exact Hmd|]. destruct Hrel as [E|Hrel]; [rewrite E; exact Ha|eapply anc_tr; eauto].
      * unfold keep. rewrite negb_involutive. apply nmem_In. apply in_map. exact Hm.
Qed.

Lemma moved_closed L cut : ordered (dag L) -> NoDup (map nhash (dag L)) -> In cut (dag L) ->
  (forall n, In n (dag L) -> forall p, In p (lp n) -> In p (map nhash (dag L))) ->
  closed_in (map nhash (ancestors L cut)) (dag L).
Proof.
  intros Ho Hnd Hc Hlive m Hm Hin p Hp.
  apply in_map_iff in Hin. destruct Hin as [m' [E Hm']].
  assert (m' = m) by (apply (NoDup_hash_eq (dag L)); auto; eapply ancestors_sub; eauto). subst m'.
  apply (ancestors_spec L cut m Ho Hnd Hc) in Hm'. destruct Hm' as [_ Ha].
  pose proof (Hlive m Hm p Hp) as Hpl. apply in_map_iff in Hpl. destruct Hpl as [q [Eq Hq]].
  apply in_map_iff. exists q. split; [exact Eq|].
  apply (ancestors_spec L cut q Ho Hnd Hc). split; [exact Hq|]. rewrite Eq.
  eapply anc_tr; [exact Ha|]. apply anc_par; assumption.
Qed.

(* ---------------------------------------------------------------- the in/out map of truncate, per address, in Z *)
Lemma assoc_del_other {A} a k (l : list (N * A)) : a <> k -> assoc a (assoc_del k l) = assoc a l.
Proof.
  intros Ne. unfold assoc_del. induction l as [|[k' x] l IH]; cbn; [reflexivity|].
  destruct (N.eqb_spec k k') as [E|E]; cbn.
  - subst k'. destruct (N.eqb_spec a k); [contradiction|exact IH].
  - destruct (N.eqb a k'); [reflexivity|exact IH].
Qed.
Lemma assoc_set_get {A} a k (x : A) l : assoc a (assoc_set k x l) = if N.eqb a k then Some x else assoc a l.
Proof.
  unfold assoc_set. cbn. destruct (N.eqb_spec a k) as [E|E]; [reflexivity|]. apply assoc_del_other. exact E.
Qed.
Lemma fm_get_set a k p m : fm_get a (assoc_set k p m) = if N.eqb a k then p else fm_get a m.
Proof. unfold fm_get. rewrite assoc_set_get. destruct (N.eqb a k); reflexivity. Qed.

Ltac split4 := split; [|split; [|split]].

(* one vertex: the entry of address a moves by exactly inZ / outZ *)
Lemma fm_next_get a m v :
  canon (t_spice (v_trx v)) ->
  let p := fm_get a m in let p' := fm_get a (fm_next m v) in
  canon (fst p) -> canon (snd p) -> valZ (fst p) + inZ a v < LIMIT -> valZ (snd p) + outZ a v < LIMIT ->
  canon (fst p') /\ canon (snd p') /\ valZ (fst p') = valZ (fst p) + inZ a v /\ valZ (snd p') = valZ (snd p) + outZ a v.
Proof.
  intros Hc p p' C1 C2 L1 L2. subst p p'. unfold fm_next, inZ, outZ, amountZ in *.
  destruct (is_spice (v_trx v)) eqn:Es; cbn [negb andb] in *; [|split4; try assumption; lia].
  set (iss := t_issuer (v_trx v)) in *. set (rcv := t_receiver (v_trx v)) in *. set (amt := t_spice (v_trx v)) in *.
  clearbody iss rcv amt. rewrite !fm_get_set.
  destruct (N.eqb_spec rcv a) as [Er|Er]; destruct (N.eqb_spec iss a) as [Ei|Ei].
  - (* self transfer *)
    subst rcv iss. rewrite !N.eqb_refl. cbn [fst snd].
    destruct (supply_ok (snd (fm_get a m)) amt C2 Hc L2) as [o' [Eo [Co Vo]]].
    destruct (supply_ok (fst (fm_get a m)) amt C1 Hc L1) as [i' [Ei' [Ci Vi]]].
    rewrite Eo, Ei'. cbn [fst]. split4; assumption.
  - subst rcv. rewrite !N.eqb_refl. rewrite (proj2 (N.eqb_neq a iss)) by congruence. cbn [fst snd].
    destruct (supply_ok (fst (fm_get a m)) amt C1 Hc L1) as [i' [Ei' [Ci Vi]]].
    rewrite Ei'. cbn [fst]. split4; try assumption; lia.
  - subst iss. rewrite (proj2 (N.eqb_neq a rcv)) by congruence. rewrite !N.eqb_refl. cbn [fst snd].
    destruct (supply_ok (snd (fm_get a m)) amt C2 Hc L2) as [o' [Eo [Co Vo]]].
    rewrite Eo. cbn [fst]. split4; try assumption; lia.
  - rewrite (proj2 (N.eqb_neq a rcv)) by congruence. rewrite (proj2 (N.eqb_neq a iss)) by congruence.
    split4; try assumption; lia.
Qed.

Lemma fm_fold_get a vs : forall m,
  (forall v, In v vs -> canon (t_spice (v_trx v))) ->
  canon (fst (fm_get a m)) -> canon (snd (fm_get a m)) ->
  valZ (fst (fm_get a m)) + sumZ (inZ a) vs < LIMIT -> valZ (snd (fm_get a m)) + sumZ (outZ a) vs < LIMIT ->
  let p' := fm_get a (fold_left fm_next vs m) in
  canon (fst p') /\ canon (snd p') /\
  valZ (fst p') = valZ (fst (fm_get a m)) + sumZ (inZ a) vs /\ valZ (snd p') = valZ (snd (fm_get a m)) + sumZ (outZ a) vs.
Proof.
  induction vs as [|v vs IH]; intros m Hc C1 C2 L1 L2; cbn [fold_left].
  - unfold sumZ in *. cbn in *. split4; try assumption; lia.
  - unfold sumZ in L1, L2 |- *. cbn [fold_right] in L1, L2 |- *. fold (sumZ (inZ a) vs) in *. fold (sumZ (outZ a) vs) in *.
    assert (N1 : 0 <= sumZ (inZ a) vs) by (apply sumZ_nonneg; intros u Hu; apply inZ_nonneg; apply Hc; right; exact Hu).
    assert (N2 : 0 <= sumZ (outZ a) vs) by (apply sumZ_nonneg; intros u Hu; apply outZ_nonneg; apply Hc; right; exact Hu).
    destruct (fm_next_get a m v (Hc v (or_introl eq_refl)) C1 C2) as [C1' [C2' [V1 V2]]]; [lia|lia|].
    destruct (IH (fm_next m v) (fun u Hu => Hc u (or_intror Hu)) C1' C2') as [D1 [D2 [W1 W2]]]; [lia|lia|].
    split4; try assumption; lia.
Qed.

(* keys only grow *)
Lemma fm_next_none a m v : assoc a (fm_next m v) = None -> assoc a m = None.
Proof.
  unfold fm_next. destruct (is_spice (v_trx v)); cbn [negb]; [|auto]. rewrite !assoc_set_get.
  destruct (N.eqb a (t_receiver (v_trx v))); [discriminate|]. destruct (N.eqb a (t_issuer (v_trx v))); [discriminate|auto].
Qed.
Lemma fm_fold_none a vs : forall m, assoc a (fold_left fm_next vs m) = None -> assoc a m = None.
Proof. induction vs as [|v vs IH]; intros m H; cbn in *; [exact H|]. apply (fm_next_none a m v). apply IH. exact H. Qed.

Lemma assoc_m0 a (sf : list (N * mel)) a32 : nmem a a32 = false ->
  assoc a (map (fun p => (fst p, (snd p, zero_mel))) (filter (fun p => negb (nmem (fst p) a32)) sf))
  = option_map (fun x => (x, zero_mel)) (assoc a sf).
Proof.
  intros Ha. induction sf as [|[k x] sf IH]; cbn [filter map assoc fst snd]; [reflexivity|].
  destruct (N.eqb_spec a k) as [E|E].
  - subst k. rewrite Ha. cbn [negb map assoc fst snd]. rewrite N.eqb_refl. reflexivity.
  - destruct (negb (nmem k a32)); cbn [map assoc fst snd]; [|exact IH].
    destruct (N.eqb_spec a k); [contradiction|exact IH].
Qed.

Lemma fold_result_get a (m : fm) : forall s,
  assoc a (fold_left (fun acc p => assoc_set (fst p) (fm_result (snd p)) acc) (rev m) s)
  = match assoc a m with Some p => Some (fm_result p) | None => assoc a s end.
Proof.
  induction m as [|[k p] m IH]; intros s; cbn [rev assoc]; [reflexivity|].
  rewrite fold_left_app. cbn [fold_left fst snd]. rewrite assoc_set_get.
  destruct (N.eqb a k); [reflexivity|apply IH].
Qed.

(* what truncate writes back for address a *)
Theorem truncate_funds_value L tip cut a32 L' a :
  truncate L tip cut a32 = (L', ROk) -> leaves L <> [] -> amounts_canon L -> nmem a a32 = false ->
  let vs := map nv (ancestors L cut) in
  valZ (funds_of L a) + sumZ (inZ a) vs < LIMIT -> sumZ (outZ a) vs < LIMIT ->
  sumZ (outZ a) vs <= valZ (funds_of L a) + sumZ (inZ a) vs ->
  canon (funds_of L' a) /\ valZ (funds_of L' a) = valZ (funds_of L a) + sumZ (inZ a) vs - sumZ (outZ a) vs.
Proof.
  intros H Hlv [Hca Hcf] Ha vs L1 L2 Hsolv. unfold truncate in H.
  destruct (leaves L) as [|lf0 lfs0]; [contradiction|].
  destruct (_ || _); [inversion H|]. destruct (existsb _ _); inversion H; subst. clear H.
  set (m0 := map (fun p => (fst p, (snd p, zero_mel))) (filter (fun p => negb (nmem (fst p) a32)) (st_funds L))).
  fold vs. set (m1 := fold_left fm_next vs m0).
  match goal with |- canon (funds_of ?X a) /\ _ => set (L' := X) end.
  assert (E' : funds_of L' a = match assoc a m1 with Some p => fm_result p | None => funds_of L a end).
  { unfold funds_of, L'. cbn [st_funds set_dag set_store]. rewrite fold_result_get. destruct (assoc a m1); reflexivity. }
  rewrite E'. clear E'.
  assert (Hvs : forall v, In v vs -> canon (t_spice (v_trx v))).
  { intros v Hv. apply in_map_iff in Hv. destruct Hv as [n [E Hn]]. subst v. apply Hca. eapply ancestors_sub; eauto. }
  assert (G0 : fm_get a m0 = (funds_of L a, zero_mel)).
  { unfold fm_get, m0. rewrite (assoc_m0 a (st_funds L) a32 Ha). unfold funds_of. destruct (assoc a (st_funds L)); reflexivity. }
  assert (N2 : 0 <= sumZ (outZ a) vs) by (apply sumZ_nonneg; intros u Hu; apply outZ_nonneg; apply Hvs; exact Hu).
  assert (N1 : 0 <= sumZ (inZ a) vs) by (apply sumZ_nonneg; intros u Hu; apply inZ_nonneg; apply Hvs; exact Hu).
  pose proof (canon_valZ_nonneg _ (Hcf a)) as N0.
  destruct (fm_fold_get a vs m0 Hvs) as [C1 [C2 [V1 V2]]]; rewrite ?G0; cbn [fst snd]; try (apply Hcf); try (apply canon_zero); try (rewrite valZ_zero); try lia.
  fold m1 in C1, C2, V1, V2. rewrite G0 in V1, V2. cbn [fst snd] in V1, V2. rewrite valZ_zero in V2.
  destruct (assoc a m1) as [p|] eqn:E1.
  - assert (Ep : fm_get a m1 = p) by (unfold fm_get; rewrite E1; reflexivity). rewrite Ep in *.
    unfold fm_result.
    destruct (transfer_ok (snd p) (fst p) zero_mel C2 C1 canon_zero) as [f' [t' [Et [Cf [_ [Vf _]]]]]]; [lia|rewrite valZ_zero; lia|].
    rewrite Et. cbn [fst]. split; [exact Cf|lia].
  - (* a appears nowhere: nothing stored, nothing moved *)
    assert (Ep : fm_get a m1 = (zero_mel, zero_mel)) by (unfold fm_get; rewrite E1; reflexivity). rewrite Ep in *. cbn [fst snd] in *.
    rewrite valZ_zero in *. split; [apply Hcf|lia].
Qed.

(* ---------------------------------------------------------------- balances survive truncation *)
Lemma truncate_dag L tip cut a32 L' :
  truncate L tip cut a32 = (L', ROk) -> leaves L <> [] ->
  dag L' = stripped (map nhash (ancestors L cut)) (dag L).
Proof.
  intros H Hlv. unfold truncate in H. destruct (leaves L) as [|lf0 lfs0]; [contradiction|].
  destruct (_ || _); [inversion H|]. destruct (existsb _ _); inversion H; subst. clear H.
  cbn [dag set_dag]. rewrite fold_del_char. reflexivity.
Qed.

Theorem truncate_preserves_flow L tip cut a32 L' a n :
  InvG L -> NoDup (map nhash (dag L)) -> amounts_canon L ->
  truncate L tip cut a32 = (L', ROk) -> leaves L <> [] -> nmem a a32 = false ->
  In n (dag L) -> In cut (dag L) ->
  let Hs := map nhash (ancestors L cut) in
  let vs := map nv (ancestors L cut) in
  keep Hs (nhash n) = true ->
  (nhash n = nhash cut \/ anc (dag L) (nhash n) (nhash cut)) ->
  valZ (funds_of L a) + sumZ (inZ a) vs < LIMIT -> sumZ (outZ a) vs < LIMIT ->
  sumZ (outZ a) vs <= valZ (funds_of L a) + sumZ (inZ a) vs ->
  In (strip Hs n) (dag L') /\ flowZ L' a (strip Hs n) = flowZ L a n.
Proof.
  intros I Hnd Hca H Hlv Ha Hn Hc Hs vs Hk Hrel L1 L2 Hsolv.
  pose proof (truncate_dag _ _ _ _ _ H Hlv) as Hd. fold Hs in Hd.
  destruct (truncate_funds_value _ _ _ _ _ a H Hlv Hca Ha L1 L2 Hsolv) as [Cf Vf]. fold vs in Vf.
  destruct I as [A B C D Eo F G].
  assert (Hclosed : closed_in Hs (dag L)).
  { apply moved_closed; auto. intros m Hm p Hp. apply live_iff. exact (proj2 (A m Hm p Hp)). }
  split.
  - rewrite Hd. unfold stripped. apply in_map. apply filter_In. split; assumption.
  - assert (EA : map nv (ancestors L' (strip Hs n)) = map nv (filter (fun m => keep Hs (nhash m)) (ancestors L n))).
    { unfold ancestors. rewrite Hd. replace (nhash (strip Hs n)) with (nhash n) by reflexivity.
      apply (anc_from_stripped Hs (dag L) (nhash n) Hclosed Hk). }
    unfold flowZ, history. rewrite !EA.
    replace (nv (strip Hs n)) with (nv n) by reflexivity.
    assert (S : forall f, sumZ f (map nv (ancestors L n)) =
                          sumZ f (map nv (filter (fun m => keep Hs (nhash m)) (ancestors L n))) + sumZ f vs).
    { intros f. rewrite (sumZ_map_filter f (fun m => keep Hs (nhash m))). f_equal.
      apply sumZ_perm. apply Permutation_map. apply (removed_part_is_moved L n cut Eo Hnd Hn Hc Hrel). }
    unfold sumZ in *. cbn [fold_right]. fold (sumZ (inZ a)) in *. fold (sumZ (outZ a)) in *.
    rewrite (S (inZ a)), (S (outZ a)). unfold sumZ in *. lia.
Qed.

(* hence the reported balance is the same number before and after, for every tip that descends from the cut *)
Corollary truncate_preserves_balance L tip cut a32 L' a n b b' m m' :
  InvG L -> NoDup (map nhash (dag L)) -> amounts_canon L -> amounts_canon L' ->
  truncate L tip cut a32 = (L', ROk) -> leaves L <> [] -> nmem a a32 = false ->
  In n (dag L) -> In cut (dag L) ->
  let Hs := map nhash (ancestors L cut) in
  let vs := map nv (ancestors L cut) in
  keep Hs (nhash n) = true ->
  (nhash n = nhash cut \/ anc (dag L) (nhash n) (nhash cut)) ->
  valZ (funds_of L a) + sumZ (inZ a) vs < LIMIT -> sumZ (outZ a) vs < LIMIT ->
  sumZ (outZ a) vs <= valZ (funds_of L a) + sumZ (inZ a) vs ->
  balance L a n b = Some m -> balance L' a (strip Hs n) b' = Some m' -> m' = m.
Proof.
  intros I Hnd Hca Hca' H Hlv Ha Hn Hc Hs vs Hk Hrel L1 L2 Hsolv B1 B2.
  destruct (truncate_preserves_flow _ _ _ _ _ a n I Hnd Hca H Hlv Ha Hn Hc Hk Hrel L1 L2 Hsolv) as [Hin Hfl].
  destruct (balance_value _ _ _ _ _ Hca Hn B1) as [K1 V1]. destruct (balance_value _ _ _ _ _ Hca' Hin B2) as [K2 V2].
  apply canon_valZ_inj; auto. fold Hs in V2. rewrite V1, V2. exact Hfl.
Qed.

(* later transfers are validated against the same funds: the cover test of a surviving descendant of the cut is unchanged *)
Corollary truncate_preserves_cover L tip cut a32 L' n :
  InvG L -> NoDup (map nhash (dag L)) -> amounts_canon L ->
  truncate L tip cut a32 = (L', ROk) -> leaves L <> [] ->
  In n (dag L) -> In cut (dag L) ->
  let a := t_issuer (v_trx (nv n)) in
  let Hs := map nhash (ancestors L cut) in
  let vs := map nv (ancestors L cut) in
  nmem a a32 = false -> keep Hs (nhash n) = true ->
  (nhash n = nhash cut \/ anc (dag L) (nhash n) (nhash cut)) ->
  valZ (funds_of L a) + sumZ (inZ a) vs < LIMIT -> sumZ (outZ a) vs < LIMIT ->
  sumZ (outZ a) vs <= valZ (funds_of L a) + sumZ (inZ a) vs ->
  (coversZ L' (strip Hs n) <-> coversZ L n).
Proof.
  intros I Hnd Hca H Hlv Hn Hc a Hs vs Ha Hk Hrel L1 L2 Hsolv.
  destruct (truncate_preserves_flow _ _ _ _ _ a n I Hnd Hca H Hlv Ha Hn Hc Hk Hrel L1 L2 Hsolv) as [_ Hfl].
  unfold coversZ. replace (nv (strip Hs n)) with (nv n) by reflexivity. fold a. fold Hs in Hfl. unfold flowZ in Hfl. lia.
Qed.

(* ---------------------------------------------------------------- checkpointed funds = net flow of the checkpointed vertices *)
Definition netZ (a : N) (vs : list vertex) : Z := sumZ (inZ a) vs - sumZ (outZ a) vs.
Definition funds_net (L : ledger) (a : N) : Prop := valZ (funds_of L a) = netZ a (st_vtx L).

Lemma truncate_st_vtx L tip cut a32 L' :
  truncate L tip cut a32 = (L', ROk) -> leaves L <> [] -> st_vtx L' = st_vtx L ++ map nv (ancestors L cut).
Proof.
  intros H Hlv. unfold truncate in H. destruct (leaves L) as [|lf0 lfs0]; [contradiction|].
  destruct (_ || _); [inversion H|]. destruct (existsb _ _); inversion H; subst. reflexivity.
Qed.

(* each moved vertex is counted exactly once, on top of what was checkpointed before: holds across repeated truncations *)
Theorem truncate_funds_net L tip cut a32 L' a :
  truncate L tip cut a32 = (L', ROk) -> leaves L <> [] -> amounts_canon L -> nmem a a32 = false ->
  let vs := map nv (ancestors L cut) in
  valZ (funds_of L a) + sumZ (inZ a) vs < LIMIT -> sumZ (outZ a) vs < LIMIT ->
  sumZ (outZ a) vs <= valZ (funds_of L a) + sumZ (inZ a) vs ->
  funds_net L a -> funds_net L' a.
Proof.
  intros H Hlv Hca Ha vs L1 L2 Hsolv Hfn.
  destruct (truncate_funds_value _ _ _ _ _ a H Hlv Hca Ha L1 L2 Hsolv) as [_ Vf].
  unfold funds_net, netZ in *. rewrite (truncate_st_vtx _ _ _ _ _ H Hlv). rewrite !sumZ_app. fold vs in Vf |- *. lia.
Qed.

(* the moved vertices are pairwise different and none was checkpointed before: "each counted once" *)
Lemma truncate_moved_fresh L tip cut a32 L' :
  truncate L tip cut a32 = (L', ROk) -> leaves L <> [] -> NoDup (map nhash (dag L)) ->
  NoDup (map v_hash (map nv (ancestors L cut))) /\
  forall v, In v (map nv (ancestors L cut)) -> stored L (v_hash v) = false.
Proof.
  intros H Hlv Hnd. split.
  - rewrite map_map. apply (anc_from_nodup (nhash cut) (dag L) Hnd).
  - unfold truncate in H. destruct (leaves L) as [|lf0 lfs0]; [contradiction|].
    destruct (_ || _); [inversion H|]. destruct (existsb _ (ancestors L cut)) eqn:Ex; [inversion H|].
    intros v Hv. apply in_map_iff in Hv. destruct Hv as [m [E Hm]]. subst v.
    destruct (stored L (v_hash (nv m))) eqn:Es; [|reflexivity].
    assert (existsb (fun n => stored L (nhash n)) (ancestors L cut) = true) by (apply existsb_exists; exists m; split; assumption).
    congruence.
Qed.

(* every other operation leaves the checkpoint (stored vertices and stored funds) untouched *)
Definition store_eq (L L' : ledger) : Prop := st_vtx L' = st_vtx L /\ st_funds L' = st_funds L.
Lemma store_eq_refl L : store_eq L L. Proof. split; reflexivity. Qed.
Lemma same_store_eq L L' : same_store L L' -> store_eq L L'.
Proof. intros [A [B _]]. split; assumption. Qed.

Lemma create_genesis_store L recv amt data th h vok : store_eq L (fst (create_genesis L recv amt data th h vok)).
Proof. unfold create_genesis. repeat (match goal with |- context [if ?c then _ else _] => destruct c end); cbn; split; reflexivity. Qed.

Lemma create_leaf_store L t o1 o2 newh vok b : store_eq L (fst (fst (create_leaf L t o1 o2 newh vok b))).
Proof.
  unfold create_leaf.
  repeat (match goal with |- context [if ?c then _ else _] => destruct c; [cbn; apply store_eq_refl|] end).
  destruct (valid_leaves L o1 [] false b) as [[[L1 acc] e1] b1] eqn:E1.
  pose proof (same_store_eq _ _ (valid_leaves_store _ _ _ _ _ _ _ _ _ E1)) as [S1 S2].
  assert (Fin : forall L2 l r, store_eq L L2 ->
     store_eq L (fst (fst (let v := Vtx newh (nhash l) (nhash r) (wrap (Z.max (v_weight (nv l)) (v_weight (nv r)) + 1)) (self L) vok t in
       if has_trx L2 (t_hash t) then (L2, RRejected, None) else
       if live L2 newh then (L2, RRejected, None) else
       (insert L2 v (dedup2 (nhash l) (nhash r)), ROk, Some v))))).
  { intros L2 l r [A B]. cbn zeta. destruct (has_trx L2 (t_hash t)); [split; assumption|].
    destruct (live L2 newh); [split; assumption|]. split; cbn; assumption. }
  destruct e1; [cbn [fst]; split; assumption|].
  destruct acc as [|l [|r rest]].
  - destruct (valid_leaves L1 o2 [] false b1) as [[[L2 acc2] e2] b2] eqn:E2.
    pose proof (same_store_eq _ _ (valid_leaves_store _ _ _ _ _ _ _ _ _ E2)) as [T1 T2].
    assert (S12 : store_eq L L2) by (split; congruence).
    destruct e2; [destruct acc2 as [|x1 [|x2 xs]]; cbn [fst]; exact S12|]. destruct acc2 as [|l [|r rest]]; [cbn [fst]; exact S12|apply Fin; exact S12|apply Fin; exact S12].
  - apply Fin. split; assumption.
  - apply Fin. split; assumption.
Qed.

Lemma add_leaf_mem_store L v rep b : store_eq L (fst (add_leaf_mem L v rep b)).
Proof.
  unfold add_leaf_mem.
  repeat (match goal with |- context [if ?c then _ else _] => destruct c; [cbn; apply store_eq_refl|] end).
  destruct (link_parents L v rep [v_left v; v_right v] [] b) as [[[L1 r] ps] b1] eqn:E.
  pose proof (same_store_eq _ _ (link_parents_store _ _ _ _ _ _ _ _ _ _ E)) as [S1 S2].
  destruct r; try (split; assumption).
  destruct (has_trx L1 _); [split; assumption|]. destruct (live L1 _); [split; assumption|]. split; cbn; assumption.
Qed.
Lemma add_leaf_store L v b : store_eq L (fst (add_leaf L v b)).
Proof.
  unfold add_leaf. repeat (match goal with |- context [if ?c then _ else _] => destruct c; [cbn; apply store_eq_refl|] end).
  apply add_leaf_mem_store.
Qed.
Lemma retry_one_store L b : store_eq L (fst (retry_one L b)).
Proof.
  unfold retry_one. destruct (parked L) as [|[v rep] rest]; [apply store_eq_refl|].
  destruct (add_leaf_mem (set_parked L rest) v rep b) as [L' r] eqn:E. cbn [fst].
  pose proof (add_leaf_mem_store (set_parked L rest) v rep b) as S. rewrite E in S. exact S.
Qed.

Theorem non_truncate_store L o : (forall tip cut a32, o <> LTruncate tip cut a32) -> store_eq L (lstep L o).
Proof.
  intros Hnt. destruct o; cbn [lstep].
  - apply create_genesis_store.
  - apply create_leaf_store.
  - apply add_leaf_store.
  - apply retry_one_store.
  - exfalso. eapply Hnt. reflexivity.
  - split; reflexivity.
  - split; reflexivity.
Qed.
Corollary non_truncate_funds_net L o a :
  (forall tip cut a32, o <> LTruncate tip cut a32) -> funds_net L a -> funds_net (lstep L o) a.
Proof.
  intros Hnt H. destruct (non_truncate_store L o Hnt) as [A B]. unfold funds_net, funds_of in *. rewrite A, B. exact H.
Qed.
Lemma funds_net_init me a : funds_net (init me) a.
Proof. reflexivity. Qed.

(* ---------------------------------------------------------------- ... for every operation sequence, any number of truncations *)
Lemma truncate_unchanged L tip cut a32 L' r :
  truncate L tip cut a32 = (L', r) -> (r <> ROk \/ leaves L = []) -> L' = L.
Proof.
  intros H Hc. unfold truncate in H. destruct (leaves L) as [|lf0 lfs0]; [inversion H; reflexivity|].
  destruct (_ || _); [inversion H; reflexivity|]. destruct (existsb _ _); inversion H; subst; [reflexivity|].
  destruct Hc as [Hc|Hc]; [contradiction|discriminate].
Qed.

(* the side conditions of one effective truncation for address a: amounts canonical, the address is not one of the
   32-character strings the reload skips, the sums are representable, and a is not overdrawn below the cut *)
Definition trunc_side (a : N) (L : ledger) (cut : node) (a32 : list N) : Prop :=
  amounts_canon L /\ nmem a a32 = false /\
  let vs := map nv (ancestors L cut) in
  valZ (funds_of L a) + sumZ (inZ a) vs < LIMIT /\ sumZ (outZ a) vs < LIMIT /\
  sumZ (outZ a) vs <= valZ (funds_of L a) + sumZ (inZ a) vs.

Inductive sides (a : N) : ledger -> list lop -> Prop :=
  | sides_nil : forall L, sides a L []
  | sides_other : forall L o ops, (forall tip cut a32, o <> LTruncate tip cut a32) -> sides a (lstep L o) ops -> sides a L (o :: ops)
  | sides_trunc : forall L tip cut a32 ops,
      (snd (truncate L tip cut a32) = ROk -> leaves L <> [] -> trunc_side a L cut a32) ->
      sides a (lstep L (LTruncate tip cut a32)) ops -> sides a L (LTruncate tip cut a32 :: ops).

Theorem funds_net_all_sequences a ops : forall L, funds_net L a -> sides a L ops -> funds_net (fold_left lstep ops L) a.
Proof.
  induction ops as [|o ops IH]; intros L Hf Hs; cbn [fold_left]; [exact Hf|].
  inversion Hs as [|? ? ? Hnt Hrest|? tip cut a32 ? Hside Hrest]; subst.
  - apply IH; [apply non_truncate_funds_net; assumption|exact Hrest].
  - apply IH; [|exact Hrest]. cbn [lstep]. destruct (truncate L tip cut a32) as [L' r] eqn:E. cbn [fst snd] in *.
    destruct r; try (rewrite (truncate_unchanged _ _ _ _ _ _ E); [exact Hf|left; discriminate]).
    destruct (leaves L) as [|lf lfs] eqn:El.
    + rewrite (truncate_unchanged _ _ _ _ _ _ E); [exact Hf|right; exact El].
    + assert (Hlv : leaves L <> []) by (rewrite El; discriminate).
      destruct (Hside eq_refl) as [Hca [Ha [L1 [L2 Hsolv]]]]; [rewrite <- El; exact Hlv|].
      eapply truncate_funds_net; eauto.
Qed.
