(* Proofs/AdmitP.v — completeness of admission: the exact conditions under which validateLeaf passes a tip and
   under which a delivered or parked vertex is inserted.  (Soundness - what a pass implies - is LedgerFunds.) *)
From Verif Require Import U64 Spice SpiceP RepoConstants Ledger ListFacts LedgerInv LedgerGraph Ancestors LedgerFunds.
From Coq Require Import NArith Lia.

(* a caller that never cancels is never told "stopped": the budget None stays None *)
Lemma pour_walk_budget_none chk a l r ancs : forall io x b', pour_walk chk a l r ancs io None = (x, b') -> b' = None.
Proof.
  induction ancs as [|n rest IH]; intros io x b' H; cbn [pour_walk poll] in H.
  - inversion H. reflexivity.
  - destruct (chk && (N.eqb (v_hash (nv n)) l || N.eqb (v_hash (nv n)) r) && negb (v_ok (nv n))); [inversion H; reflexivity|].
    destruct (pour a (nv n) io); [eapply IH; exact H|inversion H; reflexivity].
Qed.

Lemma validate_budget_none L n r b' : validate L n None = (r, b') -> b' = None.
Proof.
  unfold validate. intros H.
  destruct (negb (valid_weight L (v_weight (nv n)))); [inversion H; reflexivity|].
  destruct (negb (v_ok (nv n))); [inversion H; reflexivity|].
  destruct (is_root n); [inversion H; reflexivity|].
  destruct (negb (is_spice (v_trx (nv n))) || nmem (v_signer (nv n)) (trusted L)).
  - destruct (live L (v_right (nv n)) && live L (v_left (nv n))); inversion H; reflexivity.
  - destruct (supply zero_mel (funds_of L (t_issuer (v_trx (nv n))))) as [i0 [e|]]; [inversion H; reflexivity|].
    destruct (pour (t_issuer (v_trx (nv n))) (nv n) (i0, zero_mel)) as [io|]; [|inversion H; reflexivity].
    destruct (pour_walk true (t_issuer (v_trx (nv n))) (v_left (nv n)) (v_right (nv n)) (ancestors L n) io None) as [[o vr] b2] eqn:Ew.
    pose proof (pour_walk_budget_none _ _ _ _ _ _ _ _ Ew) as Hb. subst b2.
    destruct o as [[i o]|]; [|inversion H; reflexivity].
    destruct (transfer o i zero_mel) as [p [e|]]; inversion H; reflexivity.
Qed.

(* the walk over verified ancestors completes when the flows are representable *)
Lemma pour_walk_total_ok chk a l r ancs : forall i o,
  canon i -> canon o -> (forall n, In n ancs -> canon (t_spice (v_trx (nv n))) /\ v_ok (nv n) = true) ->
  valZ i + sumZ (inZ a) (map nv ancs) < LIMIT -> valZ o + sumZ (outZ a) (map nv ancs) < LIMIT ->
  exists io' vr b', pour_walk chk a l r ancs (i, o) None = ((Some io', vr), b').
Proof.
  induction ancs as [|n rest IH]; intros i o Hi Ho Hc L1 L2; cbn [pour_walk]; [eauto|].
  cbn [poll]. destruct (Hc n (or_introl eq_refl)) as [Hcn Hok]. rewrite Hok. cbn [negb]. rewrite Bool.andb_false_r.
  unfold sumZ in L1, L2. cbn [map fold_right] in L1, L2. fold (sumZ (inZ a) (map nv rest)) in L1. fold (sumZ (outZ a) (map nv rest)) in L2.
  assert (N1 : 0 <= sumZ (inZ a) (map nv rest)).
  { apply sumZ_nonneg. intros v Hv. apply in_map_iff in Hv. destruct Hv as [x [E Hx]]. subst v. apply inZ_nonneg. apply Hc. right. exact Hx. }
  assert (N2 : 0 <= sumZ (outZ a) (map nv rest)).
  { apply sumZ_nonneg. intros v Hv. apply in_map_iff in Hv. destruct Hv as [x [E Hx]]. subst v. apply outZ_nonneg. apply Hc. right. exact Hx. }
  destruct (pour_total a (nv n) i o Hi Ho Hcn) as [[i1 o1] Ep]; [lia|lia|].
  rewrite Ep. destruct (pour_some _ _ _ _ _ _ Hi Ho Hcn Ep) as [Ci [Co [Vi Vo]]].
  apply IH; [exact Ci|exact Co|intros m Hm; apply Hc; right; exact Hm|lia|lia].
Qed.

(* what a tip must satisfy beyond weight and signature, by kind *)
Definition tip_condition (L : ledger) (n : node) : Prop :=
  is_root n = true \/
  ((is_spice (v_trx (nv n)) = false \/ nmem (v_signer (nv n)) (trusted L) = true) /\
     live L (v_right (nv n)) = true /\ live L (v_left (nv n)) = true) \/
  (needs_cover L n /\ coversZ L n /\
     (forall m, In m (ancestors L n) -> v_ok (nv m) = true) /\
     valZ (funds_of L (t_issuer (v_trx (nv n)))) + sumZ (inZ (t_issuer (v_trx (nv n)))) (history L n) < LIMIT /\
     sumZ (outZ (t_issuer (v_trx (nv n)))) (history L n) < LIMIT).

(* validateLeaf says yes to every tip that is inside the weight window, verified, and - if it is an
   ordinary spice transfer - covered in its own history (the converse of validate_ok_covers) *)
Theorem validate_complete L n :
  amounts_canon L -> In n (dag L) -> valid_weight L (v_weight (nv n)) = true -> v_ok (nv n) = true ->
  tip_condition L n -> validate L n None = (VOk, None).
Proof.
  intros [Hca Hcf] Hn Hw Hok Hc. unfold validate. rewrite Hw, Hok. cbn [negb].
  destruct Hc as [Hr|[[Hk [Hlr Hll]]|[[Hs [Ht Hr]] [Hcov [Hanc [L1 L2]]]]]].
  - rewrite Hr. reflexivity.
  - destruct (is_root n); [reflexivity|].
    assert (E : negb (is_spice (v_trx (nv n))) || nmem (v_signer (nv n)) (trusted L) = true)
      by (destruct Hk as [Hk|Hk]; rewrite Hk; cbn; [reflexivity|apply Bool.orb_true_r]).
    rewrite E, Hlr, Hll. reflexivity.
  - rewrite Hr, Hs, Ht. cbn [negb orb].
    set (a := t_issuer (v_trx (nv n))) in *. unfold coversZ in Hcov. fold a in Hcov.
    unfold history in *. unfold sumZ in L1, L2, Hcov. cbn [fold_right] in L1, L2, Hcov.
    fold (sumZ (inZ a) (map nv (ancestors L n))) in *. fold (sumZ (outZ a) (map nv (ancestors L n))) in *.
    assert (HancC : forall m, In m (ancestors L n) -> canon (t_spice (v_trx (nv m))) /\ v_ok (nv m) = true)
      by (intros m Hm; split; [apply Hca; eapply ancestors_sub; eauto|apply Hanc; exact Hm]).
    assert (N1 : 0 <= sumZ (inZ a) (map nv (ancestors L n))).
    { apply sumZ_nonneg. intros v Hv. apply in_map_iff in Hv. destruct Hv as [x [E Hx]]. subst v. apply inZ_nonneg. apply HancC. exact Hx. }
    assert (N2 : 0 <= sumZ (outZ a) (map nv (ancestors L n))).
    { apply sumZ_nonneg. intros v Hv. apply in_map_iff in Hv. destruct Hv as [x [E Hx]]. subst v. apply outZ_nonneg. apply HancC. exact Hx. }
    pose proof (canon_valZ_nonneg _ (Hcf a)) as N0.
    pose proof (inZ_nonneg a (nv n) (Hca n Hn)) as N3. pose proof (outZ_nonneg a (nv n) (Hca n Hn)) as N4.
    destruct (supply_ok zero_mel (funds_of L a) canon_zero (Hcf a)) as [i0 [E0 [Ci0 Vi0]]]; [rewrite valZ_zero; lia|].
    rewrite E0. rewrite valZ_zero in Vi0.
    destruct (pour_total a (nv n) i0 zero_mel Ci0 canon_zero (Hca n Hn)) as [[i1 o1] Ep]; [lia|rewrite valZ_zero; lia|].
    rewrite Ep. destruct (pour_some _ _ _ _ _ _ Ci0 canon_zero (Hca n Hn) Ep) as [Ci1 [Co1 [Vi1 Vo1]]]. rewrite valZ_zero in Vo1.
    destruct (pour_walk_total_ok true a (v_left (nv n)) (v_right (nv n)) (ancestors L n) i1 o1 Ci1 Co1 HancC) as [[i2 o2] [vr [b' Ew]]]; [lia|lia|].
    rewrite Ew. pose proof (pour_walk_budget_none _ _ _ _ _ _ _ _ Ew) as Hb. subst b'.
    destruct (pour_walk_some _ _ _ _ _ _ _ _ _ _ _ _ Ci1 Co1 (fun m Hm => proj1 (HancC m Hm)) Ew) as [Ci2 [Co2 [Vi2 [Vo2 _]]]].
    destruct (transfer_ok o2 i2 zero_mel Co2 Ci2 canon_zero) as [f2 [t2 [E2 _]]]; [lia|rewrite valZ_zero; lia|].
    rewrite E2. reflexivity.
Qed.

(* ---------------------------------------------------------------- admission *)
(* a parent is fine when it already has a child (it was confirmed before) or passes validation now *)
Definition parent_fine (L : ledger) (h : N) (p : node) : Prop :=
  has_child L h = true \/ validate L p None = (VOk, None).
Definition after_parent (L : ledger) (h : N) (p : node) : ledger :=
  if has_child L h then L else bump L (v_weight (nv p)).

Lemma find_node_bump L w h : find_node h (dag (bump L w)) = find_node h (dag L).
Proof. reflexivity. Qed.

Lemma link_parents_cons L v rep h rest acc b :
  link_parents L v rep (h :: rest) acc b =
  match find_node h (dag L) with
  | None => match park L v rep with
            | (L', true) => ((L', RParentMissing, acc), b)
            | (L', false) => ((L', RRejected, acc), b)
            end
  | Some p =>
    if negb (has_child L h) then
      match validate L p b with
      | (VOk, b') => link_parents (bump L (v_weight (nv p))) v rep rest (acc ++ [h]) b'
      | (_, b') => ((rm_tip L p, RRejected, acc), b')
      end
    else link_parents L v rep rest (acc ++ [h]) b
  end.
Proof. reflexivity. Qed.
Lemma link_parents_nil L v rep acc b : link_parents L v rep [] acc b = ((L, ROk, acc), b).
Proof. reflexivity. Qed.

Theorem admission_complete L v rep p1 p2 :
  N.eqb (t_issuer (v_trx v)) (genesis L) = false ->
  (N.eqb (t_receiver (v_trx v)) (genesis L) && is_spice (v_trx v)) = false ->
  live L (v_hash v) = false -> stored L (v_hash v) = false -> has_trx L (t_hash (v_trx v)) = false -> v_ok v = true ->
  find_node (v_left v) (dag L) = Some p1 -> find_node (v_right v) (dag L) = Some p2 ->
  parent_fine L (v_left v) p1 -> parent_fine (after_parent L (v_left v) p1) (v_right v) p2 ->
  add_leaf_mem L v rep None =
    (insert (after_parent (after_parent L (v_left v) p1) (v_right v) p2) v (dedup_adj [v_left v; v_right v]), ROk).
Proof.
  intros Hg Hr Hl Hs Ht Hok F1 F2 P1 P2. unfold add_leaf_mem. rewrite Hg, Hr, Hl, Hs, Ht, Hok. cbn [orb negb].
  rewrite link_parents_cons, F1.
  assert (Step2 : forall L1, dag L1 = dag L -> index L1 = index L -> parent_fine L1 (v_right v) p2 ->
            link_parents L1 v rep [v_right v] [v_left v] None = ((after_parent L1 (v_right v) p2, ROk, [v_left v; v_right v]), None)).
  { intros L1 Hd Hi Pf. rewrite link_parents_cons. rewrite Hd, F2. unfold after_parent.
    destruct (has_child L1 (v_right v)) eqn:Hc; cbn [negb]; [rewrite link_parents_nil; reflexivity|].
    destruct Pf as [Pf|Pf]; [congruence|]. rewrite Pf. rewrite link_parents_nil. reflexivity. }
  remember (after_parent L (v_left v) p1) as L1 eqn:EL. unfold after_parent in EL.
  assert (Hd1 : dag L1 = dag L) by (subst L1; destruct (has_child L (v_left v)); reflexivity).
  assert (Hi1 : index L1 = index L) by (subst L1; destruct (has_child L (v_left v)); reflexivity).
  assert (E1 : has_trx (after_parent L1 (v_right v) p2) (t_hash (v_trx v)) = false).
  { unfold after_parent, has_trx. destruct (has_child L1 (v_right v)); cbn [bump set_wt index]; rewrite Hi1; exact Ht. }
  assert (E2 : live (after_parent L1 (v_right v) p2) (v_hash v) = false).
  { unfold after_parent, live. destruct (has_child L1 (v_right v)); cbn [bump set_wt dag]; rewrite Hd1; exact Hl. }
  destruct (has_child L (v_left v)) eqn:Hc1; cbn [negb].
  - subst L1. cbn [app]. rewrite (Step2 L eq_refl eq_refl P2). rewrite E1, E2. reflexivity.
  - destruct P1 as [P1|P1]; [congruence|]. rewrite P1. cbn [app]. subst L1.
    rewrite (Step2 (bump L (v_weight (nv p1))) eq_refl eq_refl P2). rewrite E1, E2. reflexivity.
Qed.

Lemma after_parent_set_parked L q h p : after_parent (set_parked L q) h p = set_parked (after_parent L h p) q.
Proof. unfold after_parent. change (has_child (set_parked L q) h) with (has_child L h). destruct (has_child L h); reflexivity. Qed.

(* the retry tick: a parked vertex whose parents have arrived is admitted by the next tick that reaches it,
   with edges from exactly its declared parents, and leaves the buffer *)
Theorem parked_admitted_once_parents_present L v rep rest p1 p2 :
  parked L = (v, rep) :: rest ->
  N.eqb (t_issuer (v_trx v)) (genesis L) = false ->
  (N.eqb (t_receiver (v_trx v)) (genesis L) && is_spice (v_trx v)) = false ->
  live L (v_hash v) = false -> stored L (v_hash v) = false -> has_trx L (t_hash (v_trx v)) = false -> v_ok v = true ->
  find_node (v_left v) (dag L) = Some p1 -> find_node (v_right v) (dag L) = Some p2 ->
  parent_fine L (v_left v) p1 -> parent_fine (after_parent L (v_left v) p1) (v_right v) p2 ->
  exists L', retry_one L None = (L', Some ROk) /\
    parked L' = rest /\
    find_node (v_hash v) (dag L') = Some (Node v (dedup_adj [v_left v; v_right v])) /\
    assoc (t_hash (v_trx v)) (index L') = Some (v_hash v) /\
    (forall h, h <> v_hash v -> find_node h (dag L') = find_node h (dag L)).
Proof.
  intros Hp Hg Hr Hl Hs Ht Hok F1 F2 P1 P2. unfold retry_one. rewrite Hp.
  set (L0 := set_parked L rest).
  assert (A : add_leaf_mem L0 v rep None =
     (insert (after_parent (after_parent L0 (v_left v) p1) (v_right v) p2) v (dedup_adj [v_left v; v_right v]), ROk)).
  { apply admission_complete; try assumption. unfold L0. rewrite after_parent_set_parked. exact P2. }
  rewrite A. eexists. split; [reflexivity|].
  set (L2 := after_parent (after_parent L0 (v_left v) p1) (v_right v) p2).
  assert (Hd : dag L2 = dag L) by (unfold L2, after_parent; destruct (has_child L0 (v_left v)); destruct (has_child _ (v_right v)); reflexivity).
  assert (Hq : parked L2 = rest) by (unfold L2, after_parent; destruct (has_child L0 (v_left v)); destruct (has_child _ (v_right v)); reflexivity).
  assert (Hi : index L2 = index L) by (unfold L2, after_parent; destruct (has_child L0 (v_left v)); destruct (has_child _ (v_right v)); reflexivity).
  repeat split.
  - exact Hq.
  - unfold insert. cbn [dag set_dag set_index find_node find nhash nv]. rewrite N.eqb_refl. reflexivity.
  - unfold insert. cbn [index set_dag set_index assoc]. rewrite N.eqb_refl. reflexivity.
  - intros h Hh. unfold insert. cbn [dag set_dag set_index]. rewrite Hd. unfold find_node. cbn [find nhash nv].
    change (nhash (Node v (dedup_adj [v_left v; v_right v]))) with (v_hash v).
    destruct (N.eqb_spec (v_hash v) h) as [E|E]; [congruence|reflexivity].
Qed.

(* ---------------------------------------------------------------- the premises are met by a real run *)
From Verif Require Import LoadWitness.
Definition a_A := Vtx 11%N 10%N 10%N 1 5%N true (Trx 101%N 2%N 3%N (Mel 1 0) false).   (* on genesis: 2 pays 3 *)
Definition a_B := Vtx 12%N 11%N 11%N 2 5%N true (Trx 102%N 3%N 4%N (Mel 1 0) false).   (* on A: 3 spends what A gave it *)
Definition a_L1 := fst (deliver o_G [a_B; a_A]).                                         (* the child arrives first *)

Example orphan_scenario :
  snd (deliver o_G [a_B; a_A]) = [RParentMissing; ROk] /\ map fst (parked a_L1) = [a_B] /\
  (let '(L', r) := retry_one a_L1 None in (r, map nhash (dag L'), parked L')) = (Some ROk, [12; 11; 10]%N, []).
Proof. vm_compute. repeat split; reflexivity. Qed.

Example orphan_premises_hold : exists rep rest p1 p2,
  parked a_L1 = (a_B, rep) :: rest /\
  N.eqb (t_issuer (v_trx a_B)) (genesis a_L1) = false /\
  (N.eqb (t_receiver (v_trx a_B)) (genesis a_L1) && is_spice (v_trx a_B)) = false /\
  live a_L1 (v_hash a_B) = false /\ stored a_L1 (v_hash a_B) = false /\ has_trx a_L1 (t_hash (v_trx a_B)) = false /\ v_ok a_B = true /\
  find_node (v_left a_B) (dag a_L1) = Some p1 /\ find_node (v_right a_B) (dag a_L1) = Some p2 /\
  parent_fine a_L1 (v_left a_B) p1 /\ parent_fine (after_parent a_L1 (v_left a_B) p1) (v_right a_B) p2.
Proof.
  exists 1, [], (Node a_A [10%N]), (Node a_A [10%N]).
  repeat split; try (vm_compute; reflexivity); right; vm_compute; reflexivity.
Qed.

(* the covered-transfer case of tip_condition is met by the tip a_A of that run (2 received 1000 in genesis and pays 1) *)
Example covered_tip_example :
  amounts_canon a_L1 /\ In (Node a_A [10%N]) (dag a_L1) /\ valid_weight a_L1 (v_weight a_A) = true /\
  needs_cover a_L1 (Node a_A [10%N]) /\ coversZ a_L1 (Node a_A [10%N]).
Proof.
  split; [|split; [|split; [|split]]].
  - split.
    + intros m Hm. vm_compute in Hm. destruct Hm as [<-|[<-|[]]]; vm_compute; repeat split; intro; discriminate.
    + intros a. unfold funds_of. change (st_funds a_L1) with (@nil (N * mel)). cbn [assoc]. apply canon_zero.
  - vm_compute. left. reflexivity.
  - vm_compute. reflexivity.
  - repeat split; vm_compute; reflexivity.
  - vm_compute. intro; discriminate.
Qed.
