(* Proofs/HandlersP.v — C15: a verified static analysis over handler programs.
   [safe p F] tracks, through the guards, which fields are known to be exactly 32 bytes and which
   sub-messages are known to be present; a Conv32 / Deref is accepted only when its operand is known.
   Soundness: an accepted program cannot reach RPanic for ANY shape (all field lengths, all presence
   patterns) and ANY oracle outcomes. *)
From Coq Require Import List Arith Bool Lia.
From Verif Require Import Handlers.
Import ListNotations.

Record facts := Facts { k32 : list nat; kpresent : list nat }.
Definition nmemb (x : nat) (l : list nat) : bool := existsb (Nat.eqb x) l.

(* facts implied by the condition being FALSE *)
Fixpoint learn_neg (c : cond) (F : facts) : facts :=
  match c with
  | CLenNe f 32 => Facts (f :: k32 F) (kpresent F)
  | CAbsent s => Facts (k32 F) (s :: kpresent F)
  | COr a b => learn_neg a (learn_neg b F)
  | _ => F
  end.
(* facts implied by the condition being TRUE *)
Fixpoint learn_pos (c : cond) (F : facts) : facts :=
  match c with
  | CLenEq f 32 => Facts (f :: k32 F) (kpresent F)
  | CPresent s => Facts (k32 F) (s :: kpresent F)
  | CAnd a b => learn_pos a (learn_pos b F)
  | _ => F
  end.

Fixpoint safe (p : list instr) (F : facts) : bool :=
  match p with
  | [] => true
  | i :: r =>
    match i with
    | Conv32 c f => nmemb f (k32 (learn_pos c F)) && safe r F
    | Deref c s => nmemb s (kpresent (learn_pos c F)) && safe r F
    | ErrIf c | RespIf c => safe r (learn_neg c F)
    | Call _ _ _ _ | Mut _ => safe r F
    end
  end.

Definition holds (F : facts) (sh : shape) : Prop :=
  (forall f, In f (k32 F) -> flen sh f = 32) /\ (forall s, In s (kpresent F) -> sub sh s = true).

Lemma nmemb_In x l : nmemb x l = true -> In x l.
Proof. unfold nmemb. intros H. apply existsb_exists in H. destruct H as [y [Hy E]]. apply Nat.eqb_eq in E. subst. exact Hy. Qed.

Lemma learn_neg_holds c : forall F sh, holds F sh -> evalc sh c = false -> holds (learn_neg c F) sh.
Proof.
  induction c; intros F sh H E; cbn [learn_neg]; try exact H.
  - (* CLenNe f n *) destruct n as [|n]; [exact H|]. repeat (destruct n as [|n]; [exact H|]).
    destruct n; [|exact H]. cbn in E. apply negb_false_iff, Nat.eqb_eq in E.
    destruct H as [H1 H2]. split; [|exact H2]. cbn. intros x [Ex|Hx]; [subst; exact E|apply H1; exact Hx].
  - (* CAbsent *) cbn in E. apply negb_false_iff in E. destruct H as [H1 H2]. split; [exact H1|].
    cbn. intros x [Ex|Hx]; [subst; exact E|apply H2; exact Hx].
  - (* COr *) cbn in E. apply orb_false_iff in E. destruct E as [E1 E2]. apply IHc1; [apply IHc2; assumption|exact E1].
Qed.
Lemma learn_pos_holds c : forall F sh, holds F sh -> evalc sh c = true -> holds (learn_pos c F) sh.
Proof.
  induction c; intros F sh H E; cbn [learn_pos]; try exact H.
  - (* CLenEq f n *) destruct n as [|n]; [exact H|]. repeat (destruct n as [|n]; [exact H|]).
    destruct n; [|exact H]. cbn in E. apply Nat.eqb_eq in E.
    destruct H as [H1 H2]. split; [|exact H2]. cbn. intros x [Ex|Hx]; [subst; exact E|apply H1; exact Hx].
  - (* CPresent *) cbn in E. destruct H as [H1 H2]. split; [exact H1|].
    cbn. intros x [Ex|Hx]; [subst; exact E|apply H2; exact Hx].
  - (* CAnd *) cbn in E. apply andb_true_iff in E. destruct E as [E1 E2]. apply IHc1; [apply IHc2; assumption|exact E1].
Qed.

Theorem safe_sound p : forall F sh muts, safe p F = true -> holds F sh -> fst (exec p sh muts) <> Some RPanic.
Proof.
  induction p as [|i r IH]; intros F sh muts Hs Hh; cbn [exec]; [cbn; discriminate|].
  destruct i; cbn [safe] in Hs.
  - apply andb_true_iff in Hs. destruct Hs as [Hm Hr]. apply nmemb_In in Hm.
    destruct (evalc sh c) eqn:Ec; cbn [andb]; [|eapply IH; eauto].
    pose proof (learn_pos_holds c F sh Hh Ec) as [H32 _]. rewrite (H32 _ Hm). cbn. eapply IH; eauto.
  - apply andb_true_iff in Hs. destruct Hs as [Hm Hr]. apply nmemb_In in Hm.
    destruct (evalc sh c) eqn:Ec; cbn [andb]; [|eapply IH; eauto].
    pose proof (learn_pos_holds c F sh Hh Ec) as [_ Hp]. rewrite (Hp _ Hm). cbn. eapply IH; eauto.
  - destruct (evalc sh c) eqn:Ec; [cbn; discriminate|]. eapply IH; [exact Hs|]. apply learn_neg_holds; assumption.
  - destruct (evalc sh c) eqn:Ec; [cbn; discriminate|]. eapply IH; [exact Hs|]. apply learn_neg_holds; assumption.
  - destruct (evalc sh c); [|eapply IH; eauto]. destruct (orc sh o); [eapply IH; eauto|]. destruct fatal; [cbn; discriminate|eapply IH; eauto].
  - eapply IH; eauto.
Qed.

Definition no_facts : facts := Facts [] [].
Lemma holds_nothing sh : holds no_facts sh. Proof. split; intros x []. Qed.

Corollary safe_never_panics p sh : safe p no_facts = true -> fst (run p sh) <> RPanic.
Proof.
  intros Hs. unfold run. pose proof (safe_sound p no_facts sh [] Hs (holds_nothing sh)) as H.
  destruct (exec p sh []) as [[o|] ms]; cbn in *; [congruence|discriminate].
Qed.

(* every handler of the three services and the peer-vertex ingress passes the analysis *)
Lemma all_handlers_safe : forallb (fun h => safe (program h) no_facts) all_handlers = true.
Proof. vm_compute. reflexivity. Qed.

Theorem no_handler_panics h sh : In h all_handlers -> fst (run (program h) sh) <> RPanic.
Proof.
  intros Hin. apply safe_never_panics. pose proof all_handlers_safe as A. rewrite forallb_forall in A. exact (A h Hin).
Qed.

(* ---------------------------------------------------------------- a rejected request mutated nothing *)
(* [quiet p] : once a mutating call may have taken effect (under its condition c) the program cannot return an
   error any more: either no error-capable instruction follows, or a RespIf with the SAME condition c comes first *)
Fixpoint cond_eqb (a b : cond) : bool :=
  match a, b with
  | CLenEq f n, CLenEq g m | CLenNe f n, CLenNe g m | CLenGt f n, CLenGt g m | CLenDiff f n, CLenDiff g m => Nat.eqb f g && Nat.eqb n m
  | CAbsent s, CAbsent t | CPresent s, CPresent t | COrc s, COrc t => Nat.eqb s t
  | COr a1 a2, COr b1 b2 | CAnd a1 a2, CAnd b1 b2 => cond_eqb a1 b1 && cond_eqb a2 b2
  | CTrue, CTrue => true
  | _, _ => false
  end.
Lemma cond_eqb_eq a : forall b, cond_eqb a b = true -> a = b.
Proof.
  induction a; intros b H; destruct b; cbn in H; try discriminate;
    try (apply andb_true_iff in H; destruct H as [H1 H2]; apply Nat.eqb_eq in H1; apply Nat.eqb_eq in H2; subst; reflexivity);
    try (apply Nat.eqb_eq in H; subst; reflexivity);
    try (apply andb_true_iff in H; destruct H as [H1 H2]; rewrite (IHa1 _ H1), (IHa2 _ H2); reflexivity).
  reflexivity.
Qed.

Fixpoint no_err (c : cond) (p : list instr) : bool :=
  match p with
  | [] => true
  | RespIf c' :: r => cond_eqb c c' || no_err c r
  | ErrIf _ :: _ => false
  | Call _ _ _ true :: _ => false
  | _ :: r => no_err c r
  end.
Fixpoint quiet (p : list instr) : bool :=
  match p with
  | [] => true
  | Mut _ :: r => no_err CTrue r
  | Call c _ (Some _) _ :: r => no_err c r && quiet r
  | _ :: r => quiet r
  end.

Lemma no_err_sound c p : forall sh muts, evalc sh c = true -> no_err c p = true -> fst (exec p sh muts) <> Some RErr.
Proof.
  induction p as [|i r IH]; intros sh muts Hc H; cbn [exec]; [cbn; discriminate|].
  destruct i; cbn [no_err] in H; try discriminate.
  - destruct (_ && _); [cbn; discriminate|apply IH; assumption].
  - destruct (_ && _); [cbn; discriminate|apply IH; assumption].
  - apply orb_true_iff in H. destruct H as [H|H].
    + apply cond_eqb_eq in H. subst c0. rewrite Hc. cbn. discriminate.
    + destruct (evalc sh c0); [cbn; discriminate|apply IH; assumption].
  - destruct fatal; [discriminate|]. destruct (evalc sh c0); [|apply IH; assumption]. destruct (orc sh o); apply IH; assumption.
  - apply IH; assumption.
Qed.

Theorem quiet_sound : forall p sh, quiet p = true -> forall ms, exec p sh [] = (Some RErr, ms) -> ms = [].
Proof.
    induction p as [|i r IH]; intros sh H ms E; cbn [exec] in E; [inversion E|].
    destruct i; cbn [quiet] in H.
    - destruct (_ && _); [inversion E|eapply IH; eauto].
    - destruct (_ && _); [inversion E|eapply IH; eauto].
    - destruct (evalc sh c); [inversion E; reflexivity|eapply IH; eauto].
    - destruct (evalc sh c); [inversion E|eapply IH; eauto].
    - destruct m as [m|].
      + apply andb_true_iff in H. destruct H as [Hn Hq]. destruct (evalc sh c) eqn:Ec.
        * destruct (orc sh o).
          -- exfalso. pose proof (no_err_sound c r sh ([] ++ [m]) Ec Hn) as N. rewrite E in N. apply N. reflexivity.
          -- destruct fatal; [inversion E; reflexivity|eapply IH; eauto].
        * eapply IH; eauto.
      + destruct (evalc sh c); [|eapply IH; eauto]. destruct (orc sh o); [eapply IH; eauto|].
        destruct fatal; [inversion E; reflexivity|eapply IH; eauto].
    - exfalso. pose proof (no_err_sound CTrue r sh ([] ++ [m]) eq_refl H) as N. rewrite E in N. apply N. reflexivity.
Qed.

(* the handlers whose rejections are clean, and the two that are not (known findings) *)
Definition quiet_handlers : list nat := [1; 4; 5; 6; 7; 8; 9; 10; 11; 12; 13; 14; 15; 16; 17; 18].
Lemma quiet_handlers_ok : forallb (fun h => quiet (program h)) quiet_handlers = true.
Proof. vm_compute. reflexivity. Qed.

Theorem rejected_request_mutates_nothing h sh ms : In h quiet_handlers ->
  run (program h) sh = (RErr, ms) -> ms = [].
Proof.
  intros Hin Hr. pose proof quiet_handlers_ok as A. rewrite forallb_forall in A. specialize (A h Hin).
  unfold run in Hr. destruct (exec (program h) sh []) as [[o|] ms0] eqn:E; inversion Hr; subst.
  eapply quiet_sound; eauto.
Qed.

(* Confirm and Reject remove the awaiting transaction and may then fail to seal it: a witness shape *)
Definition cx_shape : shape :=
  Shape (fun f => match f with 0 | 1 | 2 => 3 | 3 => 32 | 4 => 1 | 5 => 64 | 11 | 12 => 32 | _ => 0 end)
        (fun _ => true)
        (fun o => match o with 0 | 1 | 3 => true | _ => false end).   (* verifications and the cache removal succeed, sealing fails *)
Lemma confirm_reject_lose_awaiting :
  run p_confirm cx_shape = (RErr, [mRemove]) /\ run p_reject cx_shape = (RErr, [mRemove]).
Proof. split; vm_compute; reflexivity. Qed.
