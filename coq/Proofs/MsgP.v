(* Proofs/MsgP.v — C04 / C12: what the signed messages pin down, under H-sha and H-sig. *)
From Coq Require Import List Arith NArith ZArith Lia Bool.
From Verif Require Import WalletFile Msg.
Import ListNotations.
Local Open Scope Z_scope.

Lemma le_bytes_length n x : length (le_bytes n x) = n.
Proof. revert x. induction n; intros x; cbn; [reflexivity|rewrite IHn; reflexivity]. Qed.
Lemma le_bytes_inj n : forall x y, 0 <= x < 256 ^ Z.of_nat n -> 0 <= y < 256 ^ Z.of_nat n ->
  le_bytes n x = le_bytes n y -> x = y.
Proof.
  induction n as [|n IH]; intros x y Hx Hy E.
  - cbn in Hx, Hy. lia.
  - cbn [le_bytes] in E. inversion E as [[E1 E2]].
    rewrite Nat2Z.inj_succ, Z.pow_succ_r in Hx, Hy by lia.
    assert (Hm : x mod 256 = y mod 256).
    { apply (f_equal Z.of_N) in E1. rewrite !Z2N.id in E1 by (apply Z.mod_pos_bound; lia). exact E1. }
    assert (Hd : x / 256 = y / 256).
    { apply IH; [| |exact E2]; split; try (apply Z.div_pos; lia); apply Z.div_lt_upper_bound; lia. }
    rewrite (Z.div_mod x 256), (Z.div_mod y 256) by lia. rewrite Hm, Hd. reflexivity.
Qed.
Lemma le64_inj x y : 0 <= x < 2 ^ 64 -> 0 <= y < 2 ^ 64 -> le64 x = le64 y -> x = y.
Proof. intros Hx Hy. apply (le_bytes_inj 8); assumption. Qed.
Lemma le64_length x : length (le64 x) = 8%nat. Proof. apply le_bytes_length. Qed.

Lemma app_inv_len {A} (a a' b b' : list A) : length a = length a' -> a ++ b = a' ++ b' -> a = a' /\ b = b'.
Proof.
  revert a'. induction a as [|x a IH]; intros [|y a'] Hl E; cbn in *; try discriminate; [auto|].
  inversion E; subst. destruct (IH a') as [E1 E2]; [lia|assumption|]. subst. auto.
Qed.
Lemma app_inv_tail_len {A} (a a' b b' : list A) : length b = length b' -> a ++ b = a' ++ b' -> a = a' /\ b = b'.
Proof.
  intros Hl E. assert (Hla : length a = length a').
  { apply (f_equal (@length A)) in E. rewrite !app_length in E. lia. }
  apply app_inv_len; assumption.
Qed.

Definition u64 (x : Z) : Prop := 0 <= x < 2 ^ 64.
Definition vtx_wf (v : vtxb) : Prop :=
  length (b_hash (vb_trx v)) = 32%nat /\ length (vb_left v) = 32%nat /\ length (vb_right v) = 32%nat /\
  u64 (vb_time v) /\ u64 (vb_weight v).

(* the sealed message determines every field it covers *)
Theorem vtx_msg_inj v v' : vtx_wf v -> vtx_wf v' -> vtx_msg v = vtx_msg v' ->
  b_hash (vb_trx v) = b_hash (vb_trx v') /\ vb_left v = vb_left v' /\ vb_right v = vb_right v' /\
  vb_time v = vb_time v' /\ vb_weight v = vb_weight v'.
Proof.
  intros [H1 [H2 [H3 [H4 H5]]]] [G1 [G2 [G3 [G4 G5]]]] E. unfold vtx_msg in E.
  apply app_inv_len in E; [|congruence]. destruct E as [E1 E].
  apply app_inv_len in E; [|congruence]. destruct E as [E2 E].
  apply app_inv_len in E; [|congruence]. destruct E as [E3 E].
  apply app_inv_len in E; [|rewrite !le64_length; reflexivity]. destruct E as [E4 E5].
  repeat split; auto; apply le64_inj; assumption.
Qed.

(* the transaction message pins the three numbers and the CONCATENATION of the four text fields *)
Theorem trx_msg_pins t t' : u64 (b_time t) -> u64 (b_cur t) -> u64 (b_sup t) ->
  u64 (b_time t') -> u64 (b_cur t') -> u64 (b_sup t') -> trx_msg t = trx_msg t' ->
  b_subject t ++ b_data t ++ b_issuer t ++ b_receiver t = b_subject t' ++ b_data t' ++ b_issuer t' ++ b_receiver t' /\
  b_time t = b_time t' /\ b_cur t = b_cur t' /\ b_sup t = b_sup t'.
Proof.
  intros A1 A2 A3 B1 B2 B3 E. unfold trx_msg in E.
  rewrite !app_assoc in E. apply app_inv_tail_len in E; [|rewrite !le64_length; reflexivity]. destruct E as [E E3].
  apply app_inv_tail_len in E; [|rewrite !le64_length; reflexivity]. destruct E as [E E2].
  apply app_inv_tail_len in E; [|rewrite !le64_length; reflexivity]. destruct E as [E E1].
  rewrite <- !app_assoc in E. repeat split; auto; apply le64_inj; assumption.
Qed.

(* ... but NOT the split between them: moving bytes across the subject|data boundary keeps the message *)
Theorem trx_msg_boundary_ambiguous :
  exists t t', b_subject t <> b_subject t' /\ b_data t <> b_data t' /\ trx_msg t = trx_msg t' /\
               b_hash t = b_hash t' /\ b_isig t = b_isig t' /\ b_issuer t = b_issuer t'.
Proof.
  exists (Trxb [116;114]%N []%N [1]%N [2]%N 0 0 0 [] [] []),
         (Trxb [116]%N [114]%N [1]%N [2]%N 0 0 0 [] [] []).
  repeat split; try reflexivity; cbn; discriminate.
Qed.

Section Sec.
  Variable sha : bytes -> bytes.
  Variable vrfy : bytes -> bytes -> bytes -> bool.
  Variable addr_pk : bytes -> option bytes.
  Hypothesis sha_inj : forall a b, sha a = sha b -> a = b.   (* H-sha: collision freeness *)

  Notation helper_verify := (helper_verify sha vrfy addr_pk).
  Notation vertex_verify := (vertex_verify sha vrfy addr_pk).
  Notation verify_issuer := (verify_issuer sha vrfy addr_pk).

  Lemma bytes_eqb_eq a b : bytes_eqb a b = true <-> a = b.
  Proof.
    revert b. induction a as [|x a IH]; intros [|y b]; cbn; split; intros H; try discriminate; try reflexivity.
    - apply andb_true_iff in H. destruct H as [H1 H2]. apply N.eqb_eq in H1. apply IH in H2. subst. reflexivity.
    - inversion H; subst. rewrite N.eqb_refl. cbn. apply IH. reflexivity.
  Qed.

  Lemma helper_verify_ok msg sig hash addr : helper_verify msg sig hash addr = Ok tt ->
    hash = sha msg /\ exists pk, addr_pk addr = Some pk /\ vrfy pk (sha msg) sig = true.
  Proof.
    unfold Msg.helper_verify. destruct (bytes_eqb hash (sha msg)) eqn:E; cbn [negb]; [|discriminate].
    apply bytes_eqb_eq in E. destruct (addr_pk addr) as [pk|]; [|discriminate].
    destruct (vrfy pk (sha msg) sig) eqn:V; [|discriminate]. intros _. eauto.
  Qed.

  (* verification never panics in the model: every failure is an error value *)
  Lemma vertex_verify_no_panic v : vertex_verify v <> Panic.
  Proof.
    unfold Msg.vertex_verify, Msg.verify_issuer_receiver, Msg.verify_issuer, Msg.helper_verify.
    repeat match goal with |- context [if ?b then _ else _] => destruct b | |- context [match addr_pk ?a with _ => _ end] => destruct (addr_pk a) end; discriminate.
  Qed.

  (* H-sig for one honest key pk0: whatever verifies under pk0 was signed by its holder, who signed exactly
     the digests in [signed0] *)
  Variable pk0 : bytes.
  Variable signed0 : bytes -> Prop.
  Hypothesis unforgeable : forall d s, vrfy pk0 d s = true -> signed0 d.

  (* a vertex that verifies under an honest sealer's address carries exactly the fields that sealer signed *)
  Theorem vertex_fields_pinned v0 v signer :
    addr_pk signer = Some pk0 -> (forall d, signed0 d -> d = sha (vtx_msg v0)) ->
    vtx_wf v0 -> vtx_wf v -> vb_signer v = signer -> vertex_verify v = Ok tt ->
    vb_hash v = sha (vtx_msg v0) /\
    b_hash (vb_trx v) = b_hash (vb_trx v0) /\ vb_left v = vb_left v0 /\ vb_right v = vb_right v0 /\
    vb_time v = vb_time v0 /\ vb_weight v = vb_weight v0.
  Proof.
    intros Hpk Honly W0 W Hs H. unfold Msg.vertex_verify in H.
    destruct (if negb (Nat.eqb (length (b_rsig (vb_trx v))) 0) then _ else _) as [[]| |]; try discriminate.
    apply helper_verify_ok in H. destruct H as [Hh [pk [Hp Hv]]]. rewrite Hs, Hpk in Hp. inversion Hp; subst pk.
    pose proof (Honly _ (unforgeable _ _ Hv)) as Hd. apply sha_inj in Hd.
    destruct (vtx_msg_inj _ _ W W0 Hd) as [E1 [E2 [E3 [E4 E5]]]]. rewrite Hh, Hd. repeat split; auto.
  Qed.

  (* a transaction that verifies under an honest issuer's address carries the signed numbers and the signed
     concatenation subject|data|issuer|receiver (partial: the boundaries inside it are not pinned) *)
  Theorem trx_fields_pinned_partial t0 t issuer :
    addr_pk issuer = Some pk0 -> (forall d, signed0 d -> d = sha (trx_msg t0)) ->
    u64 (b_time t0) -> u64 (b_cur t0) -> u64 (b_sup t0) -> u64 (b_time t) -> u64 (b_cur t) -> u64 (b_sup t) ->
    b_issuer t = issuer -> verify_issuer t = Ok tt ->
    b_hash t = sha (trx_msg t0) /\
    b_subject t ++ b_data t ++ b_issuer t ++ b_receiver t = b_subject t0 ++ b_data t0 ++ b_issuer t0 ++ b_receiver t0 /\
    b_time t = b_time t0 /\ b_cur t = b_cur t0 /\ b_sup t = b_sup t0.
  Proof.
    intros Hpk Honly A1 A2 A3 B1 B2 B3 Hi H. unfold Msg.verify_issuer in H.
    apply helper_verify_ok in H. destruct H as [Hh [pk [Hp Hv]]]. rewrite Hi, Hpk in Hp. inversion Hp; subst pk.
    pose proof (Honly _ (unforgeable _ _ Hv)) as Hd. apply sha_inj in Hd.
    destruct (trx_msg_pins _ _ B1 B2 B3 A1 A2 A3 Hd) as [E1 [E2 [E3 E4]]]. rewrite Hh, Hd. repeat split; auto.
  Qed.

  (* a signature the honest key never produced for this digest is rejected *)
  Theorem unsigned_digest_rejected msg sig hash addr :
    addr_pk addr = Some pk0 -> ~ signed0 (sha msg) -> helper_verify msg sig hash addr <> Ok tt.
  Proof.
    intros Hpk Hns H. apply helper_verify_ok in H. destruct H as [_ [pk [Hp Hv]]]. rewrite Hpk in Hp. inversion Hp; subst.
    exact (Hns (unforgeable _ _ Hv)).
  Qed.
End Sec.

(* stripping the receiver signature from a countersigned transaction keeps the vertex valid: the vertex
   digest covers only the transaction hash and an empty receiver signature selects the issuer-only check *)
Theorem receiver_strip_accepted sha vrfy addr_pk v :
  vertex_verify sha vrfy addr_pk v = Ok tt ->
  vertex_verify sha vrfy addr_pk
    (Vtxb (Trxb (b_subject (vb_trx v)) (b_data (vb_trx v)) (b_issuer (vb_trx v)) (b_receiver (vb_trx v)) (b_time (vb_trx v))
                (b_cur (vb_trx v)) (b_sup (vb_trx v)) (b_hash (vb_trx v)) (b_isig (vb_trx v)) [])
          (vb_left v) (vb_right v) (vb_time v) (vb_weight v) (vb_hash v) (vb_sig v) (vb_signer v)) = Ok tt.
Proof.
  unfold vertex_verify, verify_issuer_receiver, verify_issuer, vtx_msg, trx_msg. cbn [vb_trx b_rsig b_hash b_subject b_data b_issuer b_receiver b_time b_cur b_sup b_isig vb_left vb_right vb_time vb_weight vb_hash vb_sig vb_signer length Nat.eqb negb].
  destruct (negb (Nat.eqb (length (b_rsig (vb_trx v))) 0)).
  - destruct (helper_verify sha vrfy addr_pk _ (b_isig (vb_trx v)) _ _) as [[]| |]; try discriminate.
    destruct (helper_verify sha vrfy addr_pk _ (b_rsig (vb_trx v)) _ _) as [[]| |]; try discriminate. auto.
  - auto.
Qed.

(* C12: an address is in the verified set only with a signature by that address's key over address|hash *)
Theorem verified_gossiper_signed sha vrfy addr_pk hash l a :
  In a (verify_gossipers sha vrfy addr_pk hash l) ->
  exists d s pk, In (a, d, s) l /\ addr_pk a = Some pk /\ vrfy pk (sha (gossiper_msg a hash)) s = true /\ d = sha (gossiper_msg a hash).
Proof.
  unfold verify_gossipers. intros H. apply in_map_iff in H. destruct H as [[[a' d] s] [E H]]. cbn in E. subst a'.
  apply filter_In in H. destruct H as [Hin Hok]. unfold gossiper_ok in Hok.
  destruct (helper_verify sha vrfy addr_pk (gossiper_msg a hash) s d a) as [[]| |] eqn:Hv; try discriminate.
  unfold helper_verify in Hv. destruct (bytes_eqb d (sha (gossiper_msg a hash))) eqn:Eb; cbn [negb] in Hv; [|discriminate].
  destruct (addr_pk a) as [pk|]; [|discriminate]. destruct (vrfy pk _ s) eqn:V; [|discriminate].
  exists d, s, pk. repeat split; auto.
  clear -Eb. revert Eb. generalize (sha (gossiper_msg a hash)). induction d as [|x d IH]; intros [|y b]; cbn; intros H; try discriminate; [reflexivity|].
  apply andb_true_iff in H. destruct H as [H1 H2]. apply N.eqb_eq in H1. subst. f_equal. apply IH. exact H2.
Qed.

(* address|hash is injective in the pair when the hash has its fixed width *)
Theorem gossiper_msg_inj a h a' h' : length h = 32%nat -> length h' = 32%nat ->
  gossiper_msg a h = gossiper_msg a' h' -> a = a' /\ h = h'.
Proof. intros H1 H2 E. unfold gossiper_msg in E. apply app_inv_tail_len in E; [exact E|congruence]. Qed.
