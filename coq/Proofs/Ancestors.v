(* Proofs/Ancestors.v — the one-pass ancestor walk of the model computes exactly the declarative
   ancestor relation (transitive closure of the parent edges), given the graph invariant
   (children before parents in the list, duplicate-free ids). So "history" in the C01/C06/C07
   theorems is the set of true graph ancestors, independent of insertion order. *)
From Verif Require Import U64 Spice RepoConstants Ledger ListFacts LedgerInv LedgerGraph.
From Coq Require Import NArith.

Inductive anc (d : list node) : N -> N -> Prop :=
  | anc_par : forall n p, In n d -> In p (lp n) -> anc d (nhash n) p
  | anc_tr : forall c q p, anc d c q -> anc d q p -> anc d c p.

(* the last edge of an ancestor path *)
Lemma anc_last d c p : anc d c p ->
  exists z, In z d /\ In p (lp z) /\ (nhash z = c \/ anc d c (nhash z)).
Proof.
  induction 1 as [n p Hn Hp|c q p H1 IH1 H2 IH2].
  - exists n. auto.
  - destruct IH2 as [z [Hz [Hp [E|A]]]].
    + exists z. split; [exact Hz|]. split; [exact Hp|]. right. rewrite E. exact H1.
    + exists z. split; [exact Hz|]. split; [exact Hp|]. right. eapply anc_tr; eauto.
Qed.

(* ---------------------------------------------------------------- soundness of the pass *)
Lemma anc_pass_sound d l : forall w m, (forall x, In x l -> In x d) -> In m (anc_pass w l) ->
  In m l /\ (In (nhash m) w \/ exists q, In q w /\ anc d q (nhash m)).
Proof.
  induction l as [|x r IH]; intros w m Hsub Hm; cbn [anc_pass] in Hm; [destruct Hm|].
  assert (Hsubr : forall y, In y r -> In y d) by (intros y Hy; apply Hsub; right; exact Hy).
  destruct (nmem (nhash x) w) eqn:Ew.
  - apply nmem_In in Ew. destruct Hm as [E|Hm].
    + subst m. split; [left; reflexivity|left; exact Ew].
    + destruct (IH _ _ Hsubr Hm) as [Hin [Hw|[q [Hq Ha]]]]; (split; [right; exact Hin|]).
      * apply in_app_or in Hw. destruct Hw as [Hw|Hw]; [|left; exact Hw].
        right. exists (nhash x). split; [exact Ew|]. apply anc_par; [apply Hsub; left; reflexivity|exact Hw].
      * apply in_app_or in Hq. destruct Hq as [Hq|Hq]; [|right; exists q; auto].
        right. exists (nhash x). split; [exact Ew|]. eapply anc_tr; [|exact Ha]. apply anc_par; [apply Hsub; left; reflexivity|exact Hq].
  - destruct (IH _ _ Hsubr Hm) as [Hin Hr]. split; [right; exact Hin|exact Hr].
Qed.

Lemma anc_from_sound d : forall l n m, (forall x, In x l -> In x d) -> NoDup (map nhash l) -> In n l ->
  In m (anc_from (nhash n) l) -> In m l /\ anc d (nhash n) (nhash m).
Proof.
  induction l as [|x r IH]; intros n m Hsub Hnd Hn Hm; [destruct Hn|]. cbn [anc_from] in Hm.
  inversion Hnd as [|? ? Hx Hnd']; subst.
  destruct (N.eqb_spec (nhash x) (nhash n)) as [E|E].
  - assert (x = n).
    { destruct Hn as [Hn|Hn]; [exact Hn|]. exfalso. apply Hx. rewrite E. apply in_map. exact Hn. }
    subst x. destruct (anc_pass_sound d r _ _ (fun y Hy => Hsub y (or_intror Hy)) Hm) as [Hin [Hw|[q [Hq Ha]]]].
    + split; [right; exact Hin|]. apply anc_par; [apply Hsub; left; reflexivity|exact Hw].
    + split; [right; exact Hin|]. eapply anc_tr; [|exact Ha]. apply anc_par; [apply Hsub; left; reflexivity|exact Hq].
  - destruct Hn as [Hn|Hn]; [congruence|].
    destruct (IH n m (fun y Hy => Hsub y (or_intror Hy)) Hnd' Hn Hm) as [H1 H2]. split; [right; exact H1|exact H2].
Qed.

(* ---------------------------------------------------------------- completeness of the pass *)
Lemma ordered_app_r a b : ordered (a ++ b) -> ordered b.
Proof. induction a as [|x a IH]; cbn; [auto|]. intros [_ H]. auto. Qed.
Lemma ordered_lp_sub l : ordered l -> forall z, In z l -> forall p, In p (lp z) -> In p (map nhash l).
Proof.
  induction l as [|x r IH]; cbn; [tauto|]. intros [Hx Hr] z [E|Hz] p Hp.
  - subst z. right. apply Hx. exact Hp.
  - right. eapply IH; eauto.
Qed.

Lemma anc_pass_complete d h l : forall pre w,
  d = pre ++ l -> ordered d -> NoDup (map nhash d) ->
  (forall z, In z l -> nhash z <> h) ->
  (forall z, In z pre -> (nhash z = h \/ anc d h (nhash z)) -> forall p, In p (lp z) -> In p w) ->
  forall m, In m l -> anc d h (nhash m) -> In m (anc_pass w l).
Proof.
  induction l as [|y l' IH]; intros pre w Hd Ho Hnd Hnh I2 m Hm Ha; [destruct Hm|]. cbn [anc_pass].
  (* a reachable head is always wanted *)
  assert (Hy : anc d h (nhash y) -> nmem (nhash y) w = true).
  { intros Hay. destruct (anc_last _ _ _ Hay) as [z [Hz [Hp Hr]]].
    apply nmem_In. apply (I2 z); [|exact Hr|exact Hp].
    (* z cannot be y or later: its parent y would have to occur after it *)
    rewrite Hd in Hz. apply in_app_or in Hz. destruct Hz as [Hz|Hz]; [exact Hz|exfalso].
    assert (Hol : ordered (y :: l')) by (rewrite Hd in Ho; eapply ordered_app_r; eauto).
    assert (Hndl : NoDup (map nhash (y :: l'))).
    { rewrite Hd, map_app in Hnd. eapply NoDup_app_r; eauto. }
    cbn in Hol, Hndl. destruct Hol as [Hoy Hol']. inversion Hndl as [|? ? Hyn Hndl']; subst.
    destruct Hz as [Ez|Hz].
    - subst z. apply Hyn. apply Hoy. exact Hp.
    - apply Hyn. eapply ordered_lp_sub; eauto. }
  assert (Hpre' : d = (pre ++ [y]) ++ l') by (rewrite <- app_assoc; exact Hd).
  assert (Hnh' : forall z, In z l' -> nhash z <> h) by (intros z Hz; apply Hnh; right; exact Hz).
  destruct Hm as [Em|Hm].
  - subst m. rewrite (Hy Ha). left. reflexivity.
  - destruct (nmem (nhash y) w) eqn:Ew.
    + right. apply (IH (pre ++ [y])); auto.
      intros z Hz Hr p Hp. apply in_app_or in Hz. apply in_or_app. destruct Hz as [Hz|[Ez|[]]].
      * right. eapply I2; eauto.
      * subst z. left. exact Hp.
    + apply (IH (pre ++ [y])); auto.
      intros z Hz Hr p Hp. apply in_app_or in Hz. destruct Hz as [Hz|[Ez|[]]]; [eapply I2; eauto|].
      subst z. destruct Hr as [Eh|Hr].
      * exfalso. exact (Hnh y (or_introl eq_refl) Eh).
      * pose proof (Hy Hr) as Hy'. congruence.
Qed.

(* every ancestor of a node occurs after it in the list *)
Lemma in_split_hash (b : list node) q : In q (map nhash b) -> exists b1 y b2, b = b1 ++ y :: b2 /\ nhash y = q.
Proof.
  intros H. apply in_map_iff in H. destruct H as [y [E Hy]]. apply in_split in Hy. destruct Hy as [b1 [b2 Eb]].
  exists b1, y, b2. auto.
Qed.
Lemma NoDup_hash_eq d x z : NoDup (map nhash d) -> In x d -> In z d -> nhash z = nhash x -> z = x.
Proof. intros Hnd Hx Hz E. eapply (NoDup_map_inj nhash); eauto. Qed.

Lemma anc_in_suffix d : ordered d -> NoDup (map nhash d) -> forall c p, anc d c p ->
  forall a x b, d = a ++ x :: b -> nhash x = c -> In p (map nhash b).
Proof.
  intros Ho Hnd c p H. induction H as [z p Hz Hp|c q p H1 IH1 H2 IH2]; intros a x b Hd Ex.
  - assert (z = x).
    { eapply NoDup_hash_eq; eauto. rewrite Hd. apply in_or_app. right. left. reflexivity. }
    subst z. rewrite Hd in Ho. apply ordered_app_r in Ho. cbn in Ho. destruct Ho as [Hx _]. apply Hx. exact Hp.
  - pose proof (IH1 a x b Hd Ex) as Hq. destruct (in_split_hash _ _ Hq) as [b1 [y [b2 [Eb Ey]]]].
    assert (Hd2 : d = (a ++ x :: b1) ++ y :: b2) by (rewrite Hd, Eb, <- app_assoc; reflexivity).
    pose proof (IH2 _ _ _ Hd2 Ey) as Hp. rewrite Eb, map_app. apply in_or_app. right. right. exact Hp.
Qed.

Lemma anc_from_complete d : ordered d -> NoDup (map nhash d) -> forall l pre n m,
  d = pre ++ l -> In n l -> In m d -> anc d (nhash n) (nhash m) -> In m (anc_from (nhash n) l).
Proof.
  intros Ho Hnd. induction l as [|x r IH]; intros pre n m Hd Hn Hm Ha; [destruct Hn|]. cbn [anc_from].
  assert (Hndl : NoDup (map nhash (x :: r))) by (rewrite Hd, map_app in Hnd; eapply NoDup_app_r; eauto).
  cbn in Hndl. inversion Hndl as [|? ? Hx Hndr]; subst.
  destruct (N.eqb_spec (nhash x) (nhash n)) as [E|E].
  - assert (x = n).
    { destruct Hn as [Hn|Hn]; [exact Hn|]. exfalso. apply Hx. rewrite E. apply in_map. exact Hn. }
    subst x.
    assert (Hsuf : forall p, anc (pre ++ n :: r) (nhash n) p -> In p (map nhash r)).
    { intros p Hp. eapply anc_in_suffix; eauto. }
    assert (Hmr : In m r).
    { pose proof (Hsuf _ Ha) as Hin. apply in_map_iff in Hin. destruct Hin as [m' [Em Hm']].
      assert (m' = m); [|subst; exact Hm'].
      apply (NoDup_hash_eq (pre ++ n :: r) m m' Hnd Hm); [apply in_or_app; right; right; exact Hm'|exact Em]. }
    apply (anc_pass_complete (pre ++ n :: r) (nhash n) r (pre ++ [n]) (lp n)); auto.
    + rewrite <- app_assoc. reflexivity.
    + intros z Hz Ez. apply Hx. rewrite <- Ez. apply in_map. exact Hz.
    + intros z Hz Hr p Hp. apply in_app_or in Hz. destruct Hz as [Hz|[Ez|[]]]; [|subst z; exact Hp].
      exfalso. (* z occurs before n, so it is neither n nor one of n's ancestors *)
      assert (Hzr : ~ In (nhash z) (map nhash (n :: r))).
      { rewrite map_app in Hnd. clear -Hnd Hz. induction pre as [|y pre IHp]; [destruct Hz|].
        cbn in Hnd. inversion Hnd as [|? ? Hy Hnd']; subst. destruct Hz as [Ez|Hz]; [subst y|exact (IHp Hnd' Hz)].
        intros Hin. apply Hy. apply in_or_app. right. exact Hin. }
      destruct Hr as [Eh|Hr]; [apply Hzr; left; symmetry; exact Eh|].
      apply Hzr. right. apply Hsuf. exact Hr.
  - destruct Hn as [Hn|Hn]; [congruence|]. apply (IH (pre ++ [x])); auto. rewrite <- app_assoc. reflexivity.
Qed.

(* ---------------------------------------------------------------- the specification of [ancestors] *)
Theorem ancestors_spec L n m : ordered (dag L) -> NoDup (map nhash (dag L)) -> In n (dag L) ->
  (In m (ancestors L n) <-> In m (dag L) /\ anc (dag L) (nhash n) (nhash m)).
Proof.
  intros Ho Hnd Hn. unfold ancestors. split.
  - intros Hm. eapply anc_from_sound; eauto.
  - intros [Hm Ha]. apply (anc_from_complete (dag L) Ho Hnd (dag L) [] n m); auto.
Qed.
