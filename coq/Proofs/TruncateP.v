(* Proofs/TruncateP.v — truncation is transparent for lookups and uniqueness. *)
From Verif Require Import U64 Spice SpiceP RepoConstants Ledger ListFacts LedgerInv LedgerGraph Ancestors LedgerFunds LedgerReach.
From Coq Require Import NArith Permutation.

(* fewer than truncateDiff ancestors behind the chosen tip: refused, ledger untouched *)
Lemma truncate_short_history L tip cut a32 :
  Z.of_nat (length (ancestors L tip)) < truncateDiff -> leaves L <> [] ->
  truncate L tip cut a32 = (L, RRejected).
Proof.
  intros Hlt Hl. unfold truncate. destruct (leaves L); [contradiction|].
  apply Z.ltb_lt in Hlt. rewrite Hlt. reflexivity.
Qed.

(* find over duplicate-free lists *)
Lemma find_node_unique d n : NoDup (map nhash d) -> In n d -> find_node (nhash n) d = Some n.
Proof.
  intros Hnd Hn. destruct (find_node (nhash n) d) as [m|] eqn:E.
  - apply find_node_some in E. destruct E as [Hm Eh]. f_equal. eapply (NoDup_map_inj nhash); eauto.
  - exfalso. apply (find_node_none _ _ E). apply in_map. exact Hn.
Qed.
Lemma find_vtx_unique l v : NoDup (map v_hash l) -> In v l -> find_vtx (v_hash v) l = Some v.
Proof.
  intros Hnd Hv. destruct (find_vtx (v_hash v) l) as [u|] eqn:E.
  - apply find_vtx_some in E. destruct E as [Hu Eh]. f_equal. eapply (NoDup_map_inj v_hash); eauto.
  - exfalso. apply (find_vtx_none _ _ E). apply in_map. exact Hv.
Qed.
Lemma find_vtx_app h a b : find_vtx h (a ++ b) = match find_vtx h a with Some v => Some v | None => find_vtx h b end.
Proof. unfold find_vtx. induction a as [|x a IH]; cbn; [reflexivity|]. destruct (N.eqb (v_hash x) h); [reflexivity|exact IH]. Qed.

(* every vertex readable by hash before truncation reads back identically afterwards, and nothing new appears *)
Theorem truncate_read_vertex L tip cut a32 L' :
  Inv L -> truncate L tip cut a32 = (L', ROk) -> forall h, read_vertex L' h = read_vertex L h.
Proof.
  intros I H h. unfold truncate in H. destruct (leaves L) as [|lf0 lfs0]; [inversion H; subst; reflexivity|].
  destruct (_ || _); [discriminate|]. destruct (existsb _ _) eqn:Ex; [discriminate|]. inversion H; subst; clear H.
  set (moved := ancestors L cut). set (Hs := map nhash moved).
  pose proof (Inv_nodup_dag _ I) as Hnd.
  assert (Hmv : forall m, In m moved -> In m (dag L)) by (intros m; apply anc_from_sub).
  unfold read_vertex. cbn [dag st_vtx set_dag set_store]. rewrite fold_del_char. fold moved. fold Hs.
  set (d' := map (strip Hs) (filter (notin_hashes moved) (dag L))).
  destruct (find_node h (dag L)) as [n|] eqn:Ef.
  - apply find_node_some in Ef. destruct Ef as [Hn Eh]. subst h.
    destruct (in_dec N.eq_dec (nhash n) Hs) as [Hin|Hout].
    + (* moved: not live any more, found in the checkpoint with the same content *)
      assert (Hnone : find_node (nhash n) d' = None).
      { destruct (find_node (nhash n) d') as [x|] eqn:E; [|reflexivity]. exfalso. unfold d' in E. apply find_node_some in E. destruct E as [Hx Ex'].
        apply in_map_iff in Hx. destruct Hx as [y [Ey Hy]]. apply filter_In in Hy. destruct Hy as [Hy Hk]. subst x.
        unfold notin_hashes in Hk. apply negb_true_iff, nmem_false in Hk. apply Hk. unfold nhash in Ex'. cbn in Ex'. fold (nhash y) in Ex'. rewrite Ex'. exact Hin. }
      rewrite Hnone. rewrite find_vtx_app.
      assert (Hst : find_vtx (nhash n) (st_vtx L) = None).
      { destruct (find_vtx (nhash n) (st_vtx L)) as [u|] eqn:E; [|reflexivity]. exfalso. apply find_vtx_some in E. destruct E as [Hu Eu].
        pose proof (inv_nd_v _ I) as A. unfold vertices in A.
        eapply (NoDup_map_app_disj v_hash (map nv (dag L)) (st_vtx L) (nv n) u A); [apply in_map; exact Hn|exact Hu|symmetry; exact Eu]. }
      rewrite Hst. unfold Hs in Hin. apply in_map_iff in Hin. destruct Hin as [m [Em Hm]].
      assert (m = n) by (eapply (NoDup_map_inj nhash); eauto). subst m.
      change (nhash n) with (v_hash (nv n)). apply find_vtx_unique; [|apply in_map; exact Hm].
      rewrite map_map. apply (NoDup_map_filter nhash (fun x => nmem (nhash x) Hs)) in Hnd.
      pose proof (anc_from_perm (nhash cut) (dag L) (Inv_nodup_dag _ I)) as P. fold (ancestors L cut) in P. fold moved in P.
      apply (Permutation_map nhash) in P. rewrite map_app in P. apply Permutation_sym in P.
      eapply NoDup_app_l. eapply Permutation_NoDup; [exact (Permutation_sym P)|]. exact (Inv_nodup_dag _ I).
    + (* kept: still live, content unchanged (only edges were stripped) *)
      assert (Hs' : find_node (nhash n) d' = Some (strip Hs n)).
      { assert (E : nhash (strip Hs n) = nhash n) by reflexivity. rewrite <- E. unfold d'. apply find_node_unique.
        - rewrite map_map. cbn. change (fun x => nhash (strip Hs x)) with nhash. apply NoDup_map_filter. exact Hnd.
        - apply in_map. apply filter_In. split; [exact Hn|]. unfold notin_hashes. apply negb_true_iff, nmem_false. exact Hout. }
      rewrite Hs'. reflexivity.
  - (* not live before: not live after; the checkpoint only grew by vertices that were live *)
    assert (Hnone : find_node h d' = None).
    { destruct (find_node h d') as [x|] eqn:E; [|reflexivity]. exfalso. unfold d' in E. apply find_node_some in E. destruct E as [Hx Ex'].
      apply in_map_iff in Hx. destruct Hx as [y [Ey Hy]]. apply filter_In in Hy. destruct Hy as [Hy _]. subst x.
      apply (find_node_none _ _ Ef). unfold nhash in Ex'. cbn in Ex'. fold (nhash y) in Ex'. rewrite <- Ex'. apply in_map. exact Hy. }
    rewrite Hnone, find_vtx_app. destruct (find_vtx h (st_vtx L)); [reflexivity|].
    destruct (find_vtx h (map nv moved)) as [u|] eqn:E; [|reflexivity]. exfalso.
    apply find_vtx_some in E. destruct E as [Hu Eu]. apply in_map_iff in Hu. destruct Hu as [m [Em Hm]]. subst u.
    apply (find_node_none _ _ Ef). rewrite <- Eu. apply (in_map nhash). apply Hmv. exact Hm.
Qed.

Theorem truncate_read_trx L tip cut a32 L' :
  Inv L -> truncate L tip cut a32 = (L', ROk) -> forall th, read_trx L' th = read_trx L th.
Proof.
  intros I H th. unfold read_trx.
  assert (Hi : index L' = index L).
  { unfold truncate in H. destruct (leaves L); [inversion H; reflexivity|]. destruct (_ || _); [discriminate|].
    destruct (existsb _ _); [discriminate|]. inversion H; reflexivity. }
  rewrite Hi. destruct (assoc th (index L)); [|reflexivity]. rewrite (truncate_read_vertex _ _ _ _ _ I H). reflexivity.
Qed.

(* ---------------------------------------------------------------- orphan buffer (C13) *)
(* a vertex whose left parent is unknown is reported as such and parked once, nothing else changes *)
Lemma missing_left_parent_parked L v rep b :
  find_node (v_left v) (dag L) = None ->
  Z.of_nat (length (parked L)) <> maxArraySize -> rep <= maxRepeats ->
  link_parents L v rep [v_left v; v_right v] [] b = ((set_parked L (parked L ++ [(v, rep + 1)]), RParentMissing, []), b).
Proof.
  intros Hf Hlen Hrep. cbn [link_parents]. rewrite Hf. unfold park.
  destruct (Z.eqb_spec (Z.of_nat (length (parked L))) maxArraySize); [contradiction|].
  destruct (Z.ltb_spec maxRepeats rep); [lia|]. reflexivity.
Qed.

Lemma park_bounds L v rep : (Z.of_nat (length (parked L)) = maxArraySize \/ maxRepeats < rep) -> park L v rep = (L, false).
Proof.
  intros [H|H]; unfold park.
  - rewrite H, Z.eqb_refl. reflexivity.
  - destruct (_ =? _); [reflexivity|]. apply Z.ltb_lt in H. rewrite H. reflexivity.
Qed.

(* the retry tick re-enters exactly the admission path of gossip (no separate, weaker path) *)
Lemma retry_is_admission L v rep rest b :
  parked L = (v, rep) :: rest ->
  retry_one L b = (fst (add_leaf_mem (set_parked L rest) v rep b), Some (snd (add_leaf_mem (set_parked L rest) v rep b))).
Proof. intros H. unfold retry_one. rewrite H. destruct (add_leaf_mem _ _ _ _); reflexivity. Qed.

(* ---------------------------------------------------------------- LoadDag is all-or-nothing on the loaded flag (C14) *)
Lemma load_failure_not_loaded L s topo L' : loaded L = false -> load_dag L s topo = (L', false) -> loaded L' = false.
Proof.
  intros Hl. unfold load_dag. rewrite Hl.
  destruct (load_insert L s) as [L1|] eqn:Ei; [|intros H; inversion H; subst; exact Hl].
  assert (Hl1 : loaded L1 = false).
  { clear -Hl Ei. revert L Hl Ei. induction s as [|v r IH]; intros L Hl Ei; cbn in Ei; [inversion Ei; subst; exact Hl|].
    destruct (has_trx L _); [discriminate|]. destruct (live L _); [discriminate|]. eapply IH; [|exact Ei]. exact Hl. }
  destruct (2 <=? _)%nat; [intros H; inversion H; subst; exact Hl1|].
  destruct (existsb _ s); [intros H; inversion H; subst; exact Hl1|].
  destruct (existsb _ s); [intros H; inversion H; subst; exact Hl1|].
  destruct (negb _); [intros H; inversion H; subst; exact Hl1|].
  destruct (filter is_root _); intros H; inversion H; subst. exact Hl1.
Qed.

Lemma load_rejects_malformed L s topo :
  ( (2 <= length (filter (fun v => N.eqb (t_issuer (v_trx v)) (v_signer v)) s))%nat
    \/ existsb (fun v => is_empty_trx (v_trx v)) s = true
    \/ existsb (fun v => negb (canonb (t_spice (v_trx v)))) s = true
    \/ load_insert L s = None
    \/ (is_perm_hashes s topo && topo_ok topo) = false ) ->
  snd (load_dag L s topo) = false.
Proof.
  intros H. unfold load_dag. destruct (loaded L); [reflexivity|].
  destruct (load_insert L s) as [L1|] eqn:Ei; [|reflexivity].
  destruct (2 <=? length _)%nat eqn:E2; [reflexivity|].
  destruct (existsb (fun v => is_empty_trx (v_trx v)) s) eqn:E3; [reflexivity|].
  destruct (existsb (fun v => negb (canonb (t_spice (v_trx v)))) s) eqn:E4; [reflexivity|].
  destruct (is_perm_hashes s topo && topo_ok topo) eqn:E5; cbn [negb]; [|reflexivity].
  exfalso. destruct H as [H|[H|[H|[H|H]]]]; try congruence.
  apply Nat.leb_le in H. congruence.
Qed.

Lemma truncate_invs L tip cut a32 L' r :
  Inv L -> InvG L -> truncate L tip cut a32 = (L', r) -> Inv L' /\ InvG L'.
Proof. intros I G H. split; [eapply truncate_inv|eapply InvG_truncate]; eauto. Qed.
Lemma reach_nodup me L : reach me L -> NoDup (map v_hash (vertices L)) /\ NoDup (map thash (vertices L)).
Proof. intros R. destruct (reach_unique _ _ R) as [A [B _]]. auto. Qed.
