(* Proofs/Confluence.v — C13, the positive half: when no tip is ever refused (a valid history inside the weight window,
   see AdmitP.validate_complete) and the retry budget suffices, the vertices of a set S that is closed under parents,
   delivered in ANY order with retry ticks interleaved anywhere, all end up in the graph, each exactly once, with edges
   from exactly their declared parents, and the buffer ends empty.
   Part 1: the ledger model refines an abstract (admitted list, parked queue) machine.
   Part 2: the abstract machine drains.  Part 3: the theorem. *)
From Verif Require Import U64 Spice SpiceP RepoConstants Ledger ListFacts LedgerInv LedgerGraph Ancestors LedgerFunds AdmitP.
From Coq Require Import NArith Lia Permutation.

Definition node_of (v : vertex) : node := Node v (dedup_adj [v_left v; v_right v]).
Definition ix (v : vertex) : N * N := (t_hash (v_trx v), v_hash v).

(* ---------------------------------------------------------------- the abstract machine *)
Definition astate := (list vertex * list (vertex * Z))%type.
Definition apres (L0 : ledger) (A : list vertex) (h : N) : bool := nmem h (map v_hash A) || live L0 h.
Definition astep (L0 : ledger) (st : astate) (v : vertex) (rep : Z) : astate :=
  let '(A, Q) := st in
  if apres L0 A (v_left v) && apres L0 A (v_right v) then (v :: A, Q) else (A, Q ++ [(v, rep + 1)]).
Definition atick (L0 : ledger) (st : astate) : astate :=
  match snd st with [] => st | (v, rep) :: rest => astep L0 (fst st, rest) v rep end.
Inductive op := Deliver (v : vertex) | Tick.
Definition aop (L0 : ledger) (st : astate) (o : op) : astate :=
  match o with Deliver v => astep L0 st v 0 | Tick => atick L0 st end.
Definition arun (L0 : ledger) (st : astate) (ops : list op) : astate := fold_left (aop L0) ops st.

(* the model, with callers that never cancel *)
Definition mop (L : ledger) (o : op) : ledger :=
  match o with Deliver v => fst (add_leaf_mem L v 0 None) | Tick => fst (retry_one L None) end.
Definition mrun (L : ledger) (ops : list op) : ledger := fold_left mop ops L.

(* "no examined parent is refused" along a concrete run of the model: checkable by evaluation *)
Definition parent_fineb (L : ledger) (h : N) (p : node) : bool :=
  has_child L h || match validate L p None with (VOk, None) => true | _ => false end.
Definition fine_atb (L : ledger) (v : vertex) : bool :=
  match find_node (v_left v) (dag L) with
  | None => true
  | Some p1 =>
    parent_fineb L (v_left v) p1 &&
    match find_node (v_right v) (dag (after_parent L (v_left v) p1)) with
    | None => true
    | Some p2 => parent_fineb (after_parent L (v_left v) p1) (v_right v) p2
    end
  end.
Definition fine_opb (L : ledger) (o : op) : bool :=
  match o with
  | Deliver v => fine_atb L v
  | Tick => match parked L with [] => true | (v, _) :: rest => fine_atb (set_parked L rest) v end
  end.
Fixpoint fine_runb (L : ledger) (ops : list op) : bool :=
  match ops with [] => true | o :: r => fine_opb L o && fine_runb (mop L o) r end.

Lemma parent_fineb_ok L h p : parent_fineb L h p = true -> parent_fine L h p.
Proof.
  unfold parent_fineb, parent_fine. destruct (has_child L h); [left; reflexivity|]. cbn [orb].
  destruct (validate L p None) as [[] [b|]]; try discriminate. right. reflexivity.
Qed.

Section Refine.
  Variable L0 : ledger.
  Variable S : list vertex.

  Definition Rel (L : ledger) (A : list vertex) (Q : list (vertex * Z)) : Prop :=
    dag L = map node_of A ++ dag L0 /\ index L = map ix A ++ index L0 /\ parked L = Q /\
    st_vtx L = st_vtx L0 /\ st_funds L = st_funds L0 /\ trusted L = trusted L0 /\ genesis L = genesis L0 /\
    self L = self L0 /\ loaded L = loaded L0.

  (* what S must be with respect to the ledger it arrives at *)
  Definition S_ok : Prop :=
    NoDup (map v_hash S) /\ NoDup (map (fun v => t_hash (v_trx v)) S) /\
    forall v, In v S ->
      v_ok v = true /\ N.eqb (t_issuer (v_trx v)) (genesis L0) = false /\
      (N.eqb (t_receiver (v_trx v)) (genesis L0) && is_spice (v_trx v)) = false /\
      live L0 (v_hash v) = false /\ stored L0 (v_hash v) = false /\ has_trx L0 (t_hash (v_trx v)) = false.

  Hypothesis HS : S_ok.

  Lemma find_node_app h l1 l2 :
    find_node h (l1 ++ l2) = match find_node h l1 with Some n => Some n | None => find_node h l2 end.
  Proof. unfold find_node. induction l1 as [|x l1 IH]; cbn [find app]; [reflexivity|]. destruct (N.eqb (nhash x) h); [reflexivity|exact IH]. Qed.

  Lemma find_node_of_none h A : nmem h (map v_hash A) = false -> find_node h (map node_of A) = None.
  Proof.
    unfold find_node, nmem. induction A as [|x A IH]; cbn [map existsb find]; [reflexivity|].
    change (nhash (node_of x)) with (v_hash x). rewrite (N.eqb_sym h). destruct (N.eqb (v_hash x) h); cbn [orb]; [discriminate|exact IH].
  Qed.
  Lemma find_node_of_some h A : nmem h (map v_hash A) = true -> exists n, find_node h (map node_of A) = Some n.
  Proof.
    unfold find_node, nmem. induction A as [|x A IH]; cbn [map existsb find]; [discriminate|].
    change (nhash (node_of x)) with (v_hash x). rewrite (N.eqb_sym h). destruct (N.eqb (v_hash x) h); cbn [orb]; [eauto|exact IH].
  Qed.

  Lemma live_apres L A Q h : Rel L A Q -> live L h = apres L0 A h.
  Proof.
    intros (Hd & _). unfold live, apres. rewrite Hd, find_node_app.
    destruct (nmem h (map v_hash A)) eqn:E.
    - destruct (find_node_of_some h A E) as [n Hn]. rewrite Hn. reflexivity.
    - rewrite (find_node_of_none h A E). reflexivity.
  Qed.

  Lemma Rel_after_parent L A Q h p : Rel L A Q -> Rel (after_parent L h p) A Q.
  Proof. unfold after_parent, Rel. destruct (has_child L h); [auto|]. cbn [bump set_wt dag index parked st_vtx st_funds trusted genesis self loaded]. auto. Qed.
  Lemma Rel_set_parked L A Q Q' : Rel L A Q -> Rel (set_parked L Q') A Q'.
  Proof. unfold Rel. cbn [set_parked dag index parked st_vtx st_funds trusted genesis self loaded]. intuition. Qed.

  Lemma nmem_in x l : nmem x l = true <-> In x l.
  Proof.
    unfold nmem. rewrite existsb_exists. split.
    - intros [y [Hy E]]. apply N.eqb_eq in E. subst. exact Hy.
    - intros H. exists x. split; [exact H|apply N.eqb_refl].
  Qed.
  Lemma nmem_false x l : nmem x l = false <-> ~ In x l.
  Proof. rewrite <- nmem_in. destruct (nmem x l); split; intros; congruence. Qed.

  Lemma NoDup_map_notin {A B} (f : A -> B) (l : list A) x a : NoDup (map f l) -> In x l -> In a l -> x <> a -> f x <> f a.
  Proof.
    induction l as [|y l IH]; cbn [map]; intros Hn Hx Ha Hne; [contradiction|]. inversion Hn as [|? ? Hy Hn']; subst.
    destruct Hx as [->|Hx], Ha as [->|Ha].
    - congruence.
    - intros E. apply Hy. rewrite E. apply in_map. exact Ha.
    - intros E. apply Hy. rewrite <- E. apply in_map. exact Hx.
    - apply IH; assumption.
  Qed.

  (* a vertex of S that is not admitted yet is new to the ledger *)
  Lemma fresh_in L A Q v : Rel L A Q -> incl A S -> In v S -> ~ In v A ->
    live L (v_hash v) = false /\ stored L (v_hash v) = false /\ has_trx L (t_hash (v_trx v)) = false.
  Proof.
    intros R HA Hv Hn. destruct HS as (N1 & N2 & Hall). destruct (Hall v Hv) as (_ & _ & _ & F1 & F2 & F3).
    destruct R as (Hd & Hi & _ & Hsv & _).
    assert (E1 : nmem (v_hash v) (map v_hash A) = false).
    { apply nmem_false. intros Hin. apply in_map_iff in Hin. destruct Hin as [a [E Ha]].
      apply (NoDup_map_notin v_hash S a v N1 (HA a Ha) Hv); [intros ->; contradiction|exact E]. }
    repeat split.
    - unfold live. rewrite Hd, find_node_app, (find_node_of_none _ _ E1). exact F1.
    - unfold stored. rewrite Hsv. exact F2.
    - unfold has_trx. rewrite Hi. unfold has_trx in F3.
      assert (E2 : forall B, incl B S -> ~ In v B -> assoc (t_hash (v_trx v)) (map ix B ++ index L0) = assoc (t_hash (v_trx v)) (index L0)).
      { induction B as [|b B IH]; intros HB Hnb; [reflexivity|]. cbn [map app assoc ix fst snd].
        destruct (N.eqb_spec (t_hash (v_trx v)) (t_hash (v_trx b))) as [E|E].
        - exfalso. apply (NoDup_map_notin (fun x => t_hash (v_trx x)) S v b N2 Hv (HB b (or_introl eq_refl))); [intros ->; apply Hnb; left; reflexivity|exact E].
        - apply IH; [intros x Hx; apply HB; right; exact Hx|intros Hx; apply Hnb; right; exact Hx]. }
      rewrite (E2 A HA Hn). exact F3.
  Qed.

  Lemma live_find L h : live L h = true -> exists p, find_node h (dag L) = Some p.
  Proof. unfold live. destruct (find_node h (dag L)); [eauto|discriminate]. Qed.
  Lemma live_find_none L h : live L h = false -> find_node h (dag L) = None.
  Proof. unfold live. destruct (find_node h (dag L)); [discriminate|reflexivity]. Qed.

  Lemma park_ok L v rep : Z.of_nat (length (parked L)) <> maxArraySize -> rep <= maxRepeats ->
    park L v rep = (set_parked L (parked L ++ [(v, rep + 1)]), true).
  Proof.
    intros H1 H2. unfold park. destruct (Z.eqb_spec (Z.of_nat (length (parked L))) maxArraySize); [contradiction|].
    destruct (Z.ltb_spec maxRepeats rep); [lia|reflexivity].
  Qed.

  (* one admission attempt of the model is one step of the abstract machine *)
  Lemma attempt_refines L A Q v rep :
    Rel L A Q -> incl A S -> In v S -> ~ In v A ->
    Z.of_nat (length Q) <> maxArraySize -> rep <= maxRepeats -> fine_atb L v = true ->
    Rel (fst (add_leaf_mem L v rep None)) (fst (astep L0 (A, Q) v rep)) (snd (astep L0 (A, Q) v rep)).
  Proof.
    intros R HA Hv Hn Hlen Hrep Hfine.
    destruct (fresh_in L A Q v R HA Hv Hn) as (F1 & F2 & F3).
    destruct HS as (_ & _ & Hall). destruct (Hall v Hv) as (Hok & Hg & Hrg & _).
    assert (Hgen : genesis L = genesis L0) by (destruct R as (_ & _ & _ & _ & _ & _ & G & _); exact G).
    assert (Hpk : parked L = Q) by (destruct R as (_ & _ & P & _); exact P).
    unfold astep. rewrite <- (live_apres L A Q _ R), <- (live_apres L A Q _ R).
    destruct (live L (v_left v)) eqn:El; cbn [andb].
    - destruct (live_find _ _ El) as [p1 Fp1].
      unfold fine_atb in Hfine. rewrite Fp1 in Hfine. apply Bool.andb_true_iff in Hfine. destruct Hfine as [Hf1 Hf2].
      pose proof (parent_fineb_ok _ _ _ Hf1) as P1.
      set (L1 := after_parent L (v_left v) p1) in *.
      assert (R1 : Rel L1 A Q) by (apply Rel_after_parent; exact R).
      assert (Hd1 : dag L1 = dag L) by (unfold L1, after_parent; destruct (has_child L (v_left v)); reflexivity).
      destruct (live L (v_right v)) eqn:Er.
      + destruct (live_find _ _ Er) as [p2 Fp2].
        assert (Fp2' : find_node (v_right v) (dag L1) = Some p2) by (rewrite Hd1; exact Fp2).
        rewrite Fp2' in Hf2. pose proof (parent_fineb_ok _ _ _ Hf2) as P2.
        rewrite (admission_complete L v rep p1 p2); try assumption; try (rewrite Hgen; assumption).
        cbn [fst snd]. set (L2 := after_parent L1 (v_right v) p2).
        assert (R2 : Rel L2 A Q) by (apply Rel_after_parent; exact R1).
        destruct R2 as (D & I & P & X). unfold Rel, insert. cbn [set_dag set_index dag index parked st_vtx st_funds trusted genesis self loaded map app].
        unfold L2, L1 in D, I, P, X. rewrite D, I. repeat split; try reflexivity; try exact P; apply X.
      + (* left present, right missing: parked (after the left parent was looked at) *)
        assert (Fn : find_node (v_right v) (dag L1) = None) by (rewrite Hd1; apply live_find_none; exact Er).
        assert (Hq1 : parked L1 = Q) by (destruct R1 as (_ & _ & P & _); exact P).
        assert (E : add_leaf_mem L v rep None = (set_parked L1 (Q ++ [(v, rep + 1)]), RParentMissing)).
        { unfold add_leaf_mem. rewrite Hgen, Hg, Hrg, F1, F2, F3, Hok. cbn [orb negb].
          rewrite link_parents_cons, Fp1.
          assert (Step : link_parents L1 v rep [v_right v] ([] ++ [v_left v]) None = ((set_parked L1 (Q ++ [(v, rep + 1)]), RParentMissing, [] ++ [v_left v]), None)).
          { rewrite link_parents_cons, Fn, park_ok by (rewrite ?Hq1; assumption). rewrite Hq1. reflexivity. }
          unfold L1, after_parent in Step. unfold L1, after_parent.
          destruct (has_child L (v_left v)) eqn:Hc; cbn [negb].
          - rewrite Step. reflexivity.
          - destruct P1 as [P1|P1]; [congruence|]. rewrite P1, Step. reflexivity. }
        rewrite E. cbn [fst snd]. apply (Rel_set_parked _ _ Q). exact R1.
    - (* left missing *)
      assert (Fn : find_node (v_left v) (dag L) = None) by (apply live_find_none; exact El).
      assert (E : add_leaf_mem L v rep None = (set_parked L (Q ++ [(v, rep + 1)]), RParentMissing)).
      { unfold add_leaf_mem. rewrite Hgen, Hg, Hrg, F1, F2, F3, Hok. cbn [orb negb].
        rewrite link_parents_cons, Fn, park_ok by (rewrite ?Hpk; assumption). rewrite Hpk. reflexivity. }
      rewrite E. cbn [fst snd]. apply (Rel_set_parked _ _ Q). exact R.
  Qed.

  (* preconditions of an operation, read off the abstract state *)
  Definition aok (st : astate) (o : op) : Prop :=
    let '(A, Q) := st in
    match o with
    | Deliver v => In v S /\ ~ In v A /\ Z.of_nat (length Q) <> maxArraySize
    | Tick => match Q with
              | [] => True
              | (v, rep) :: rest => In v S /\ ~ In v A /\ Z.of_nat (length rest) <> maxArraySize /\ rep <= maxRepeats
              end
    end.

  Lemma op_refines L A Q o :
    Rel L A Q -> incl A S -> aok (A, Q) o -> fine_opb L o = true ->
    Rel (mop L o) (fst (aop L0 (A, Q) o)) (snd (aop L0 (A, Q) o)).
  Proof.
    intros R HA Hok Hf. destruct o as [v|]; cbn [mop aop aok fine_opb] in *.
    - destruct Hok as (Hv & Hn & Hl). apply attempt_refines; try assumption. unfold maxRepeats. lia.
    - unfold atick, retry_one. cbn [snd fst]. assert (Hp : parked L = Q) by (destruct R as (_ & _ & P & _); exact P). rewrite Hp in *.
      destruct Q as [|[v rep] rest]; [cbn [fst snd]; exact R|].
      destruct Hok as (Hv & Hn & Hl & Hr).
      pose proof (attempt_refines (set_parked L rest) A rest v rep (Rel_set_parked _ _ _ rest R) HA Hv Hn Hl Hr Hf) as X.
      destruct (add_leaf_mem (set_parked L rest) v rep None) as [L' r]. cbn [fst] in *. exact X.
  Qed.

  Lemma astep_incl A Q v rep : incl A S -> In v S -> incl (fst (astep L0 (A, Q) v rep)) S.
  Proof. intros HA Hv. unfold astep. destruct (_ && _); cbn [fst]; [intros x [<-|Hx]; auto|exact HA]. Qed.

  (* a whole schedule: if every operation's precondition holds along the abstract run, the model follows it *)
  Fixpoint aoks (st : astate) (ops : list op) : Prop :=
    match ops with [] => True | o :: r => aok st o /\ aoks (aop L0 st o) r end.

  Lemma aop_incl st o : incl (fst st) S -> aok st o -> incl (fst (aop L0 st o)) S.
  Proof.
    destruct st as [A Q]. intros HA Hok. destruct o as [v|]; cbn [aop aok fst] in *.
    - apply astep_incl; [exact HA|apply Hok].
    - unfold atick. cbn [snd fst]. destruct Q as [|[v rep] rest]; [exact HA|]. apply astep_incl; [exact HA|apply Hok].
  Qed.

  Theorem run_refines ops : forall L st,
    Rel L (fst st) (snd st) -> incl (fst st) S -> aoks st ops -> fine_runb L ops = true ->
    Rel (mrun L ops) (fst (arun L0 st ops)) (snd (arun L0 st ops)).
  Proof.
    induction ops as [|o ops IH]; intros L st R HA Hok Hf; cbn [mrun arun fold_left]; [exact R|].
    destruct Hok as [Ho Hrest]. destruct st as [A Q]. cbn [fst snd fine_runb] in *.
    apply Bool.andb_true_iff in Hf. destruct Hf as [Hf1 Hf2].
    apply IH; [apply op_refines; assumption|apply (aop_incl (A, Q)); assumption|exact Hrest|exact Hf2].
  Qed.
End Refine.

(* ================================================================ Part 2: the abstract machine drains *)
Section Drain.
  Variable L0 : ledger.
  Variable S : list vertex.
  Hypothesis Sdup : NoDup (map v_hash S).
  Hypothesis Ssmall : Z.of_nat (length S) < maxArraySize.

  Definition qv (Q : list (vertex * Z)) : list vertex := map fst Q.
  Definition adm (A : list vertex) (v : vertex) : bool := apres L0 A (v_left v) && apres L0 A (v_right v).

  Lemma nmem_in' x l : nmem x l = true <-> In x l.
  Proof.
    unfold nmem. rewrite existsb_exists. split.
    - intros [y [Hy E]]. apply N.eqb_eq in E. subst. exact Hy.
    - intros H. exists x. split; [exact H|apply N.eqb_refl].
  Qed.

  Lemma apres_mono A A' h : incl (map v_hash A) (map v_hash A') -> apres L0 A h = true -> apres L0 A' h = true.
  Proof.
    unfold apres. intros Hi H. apply Bool.orb_true_iff in H. apply Bool.orb_true_iff. destruct H as [H|H]; [left|right; exact H].
    apply nmem_in'. apply Hi. apply nmem_in'. exact H.
  Qed.
  Lemma adm_mono A A' v : incl (map v_hash A) (map v_hash A') -> adm A v = true -> adm A' v = true.
  Proof. unfold adm. intros Hi H. apply Bool.andb_true_iff in H. destruct H as [H1 H2]. rewrite (apres_mono _ _ _ Hi H1), (apres_mono _ _ _ Hi H2). reflexivity. Qed.

  (* one pass over a queue prefix: who is admitted, who is parked again *)
  Fixpoint round (A : list vertex) (Q : list (vertex * Z)) : list vertex * list (vertex * Z) :=
    match Q with
    | [] => (A, [])
    | (v, rep) :: q => if adm A v then round (v :: A) q else let '(A', R) := round A q in (A', (v, rep + 1) :: R)
    end.

  Definition ticks (n : nat) : list op := repeat Tick n.

  Lemma arun_app st a b : arun L0 st (a ++ b) = arun L0 (arun L0 st a) b.
  Proof. unfold arun. apply fold_left_app. Qed.

  Lemma round_is_ticks Qpre : forall A Qrest,
    arun L0 (A, Qpre ++ Qrest) (ticks (length Qpre)) = (fst (round A Qpre), Qrest ++ snd (round A Qpre)).
  Proof.
    induction Qpre as [|[v rep] q IH]; intros A Qrest; cbn [length ticks repeat arun fold_left round fst snd app].
    - rewrite app_nil_r. reflexivity.
    - unfold aop at 2. unfold atick. cbn [snd fst app]. unfold astep. fold (adm A v).
      destruct (adm A v) eqn:E.
      + apply IH.
      + rewrite <- app_assoc. fold (ticks (length q)). fold (arun L0 (A, q ++ Qrest ++ [(v, rep + 1)]) (ticks (length q))).
        rewrite IH. destruct (round A q) as [A' R]. cbn [fst snd]. rewrite <- app_assoc. reflexivity.
  Qed.

  Lemma round_perm Q : forall A, Permutation (fst (round A Q) ++ qv (snd (round A Q))) (A ++ qv Q).
  Proof.
    induction Q as [|[v rep] q IH]; intros A; cbn [round].
    - reflexivity.
    - destruct (adm A v).
      + rewrite IH. cbn [qv map fst app]. apply Permutation_middle.
      + specialize (IH A). destruct (round A q) as [A' R]. cbn [fst snd qv map] in *.
        rewrite <- Permutation_middle. rewrite <- Permutation_middle. apply perm_skip. exact IH.
  Qed.

  Lemma round_length Q : forall A, (length (snd (round A Q)) <= length Q)%nat.
  Proof.
    induction Q as [|[v rep] q IH]; intros A; cbn [round]; [cbn; lia|].
    destruct (adm A v); [specialize (IH (v :: A)); cbn [length]; lia|].
    specialize (IH A). destruct (round A q) as [A' R]. cbn [snd length] in *. lia.
  Qed.

  Lemma round_progress Q : forall A, (exists v rep, In (v, rep) Q /\ adm A v = true) ->
    (length (snd (round A Q)) < length Q)%nat.
  Proof.
    induction Q as [|[v rep] q IH]; intros A [w [r [Hin Hw]]]; [destruct Hin|]. cbn [round].
    destruct (adm A v) eqn:E.
    - pose proof (round_length q (v :: A)). cbn [length]. lia.
    - destruct Hin as [Heq|Hin]; [inversion Heq; subst; congruence|].
      specialize (IH A (ex_intro _ w (ex_intro _ r (conj Hin Hw)))).
      destruct (round A q) as [A' R]. cbn [snd length] in *. lia.
  Qed.

  Lemma round_reps Q B : forall A, (forall v r, In (v, r) Q -> r <= B) -> forall v r, In (v, r) (snd (round A Q)) -> r <= B + 1.
  Proof.
    induction Q as [|[w rep] q IH]; intros A Hb v r Hin; cbn [round] in Hin; [destruct Hin|].
    destruct (adm A w).
    - eapply IH; [|exact Hin]. intros x y Hx. apply (Hb x y). right. exact Hx.
    - specialize (IH A (fun x y Hx => Hb x y (or_intror Hx))). destruct (round A q) as [A' R]. cbn [snd] in *.
      destruct Hin as [Heq|Hin]; [inversion Heq; subst; pose proof (Hb _ _ (or_introl eq_refl)); lia|eauto].
  Qed.

  (* the standing invariant of abstract states *)
  Definition G (st : astate) : Prop :=
    NoDup (map v_hash (fst st ++ qv (snd st))) /\ incl (fst st ++ qv (snd st)) S.

  Lemma NoDup_map_inv_list {A B} (f : A -> B) l : NoDup (map f l) -> NoDup l.
  Proof.
    induction l as [|x l IH]; cbn [map]; intros H; [constructor|]. inversion H as [|? ? Hx Hl]; subst.
    constructor; [intros Hin; apply Hx; apply in_map; exact Hin|apply IH; exact Hl].
  Qed.

  Lemma G_length st : G st -> (length (fst st ++ qv (snd st)) <= length S)%nat.
  Proof. intros [Hn Hi]. apply NoDup_incl_length; [eapply NoDup_map_inv_list; exact Hn|exact Hi]. Qed.

  Lemma G_perm st st' : G st -> Permutation (fst st' ++ qv (snd st')) (fst st ++ qv (snd st)) -> G st'.
  Proof.
    intros [Hn Hi] P. split.
    - eapply Permutation_NoDup; [apply Permutation_sym; apply Permutation_map; exact P|exact Hn].
    - intros x Hx. apply Hi. eapply Permutation_in; [exact P|exact Hx].
  Qed.

  Lemma G_tick_ok A v rep rest : G (A, (v, rep) :: rest) -> rep <= maxRepeats ->
    In v S /\ ~ In v A /\ Z.of_nat (length rest) <> maxArraySize.
  Proof.
    intros Hg Hr. pose proof (G_length _ Hg) as Hl. destruct Hg as [Hn Hi]. cbn [fst snd qv map] in *.
    repeat split.
    - apply Hi. apply in_or_app. right. left. reflexivity.
    - intros Hin. rewrite map_app in Hn. cbn [map] in Hn. apply NoDup_remove_2 in Hn. apply Hn.
      apply in_or_app. left. apply in_map. exact Hin.
    - rewrite app_length in Hl. cbn [length] in Hl. rewrite map_length in Hl. lia.
  Qed.

  Lemma astep_perm A Q v rep : Permutation (fst (astep L0 (A, Q) v rep) ++ qv (snd (astep L0 (A, Q) v rep))) (v :: A ++ qv Q).
  Proof.
    unfold astep. destruct (_ && _); cbn [fst snd]; [reflexivity|].
    unfold qv. rewrite map_app. cbn [map fst]. rewrite app_assoc. apply Permutation_sym. apply Permutation_cons_append.
  Qed.

  (* a pass over a prefix whose retry counters are within budget meets every precondition *)
  Lemma round_aoks Qpre : forall A Qrest,
    G (A, Qpre ++ Qrest) -> (forall v r, In (v, r) Qpre -> r <= maxRepeats) ->
    aoks L0 S (A, Qpre ++ Qrest) (ticks (length Qpre)).
  Proof.
    induction Qpre as [|[v rep] q IH]; intros A Qrest Hg Hb; cbn [length ticks repeat aoks]; [exact I|].
    cbn [app] in Hg. pose proof (Hb v rep (or_introl eq_refl)) as Hr.
    destruct (G_tick_ok _ _ _ _ Hg Hr) as (H1 & H2 & H3).
    split; [cbn [aok app]; repeat split; assumption|].
    cbn [aop app]. unfold atick. cbn [snd fst]. unfold astep. fold (adm A v).
    assert (Hb' : forall w r, In (w, r) q -> r <= maxRepeats) by (intros w r Hw; apply (Hb w r); right; exact Hw).
    destruct (adm A v) eqn:E.
    - fold (ticks (length q)). apply IH; [|exact Hb'].
      eapply G_perm; [exact Hg|]. cbn [fst snd qv map app]. apply Permutation_middle.
    - rewrite <- app_assoc. fold (ticks (length q)). apply IH; [|exact Hb'].
      eapply G_perm; [exact Hg|]. cbn [fst snd]. unfold qv. cbn [map fst]. rewrite !map_app. cbn [map fst].
      apply Permutation_app_head. rewrite app_assoc. apply Permutation_sym. apply Permutation_cons_append.
  Qed.

  Lemma aoks_app a : forall st b, aoks L0 S st (a ++ b) <-> aoks L0 S st a /\ aoks L0 S (arun L0 st a) b.
  Proof.
    induction a as [|o a IH]; intros st b; cbn [app aoks arun fold_left]; [tauto|].
    fold (arun L0 (aop L0 st o) a). rewrite IH. tauto.
  Qed.

  (* ---------------------------------------------------------------- the delivery phase: any interleaving *)
  Definition reps_le (B : Z) (Q : list (vertex * Z)) : Prop := forall v r, In (v, r) Q -> r <= B.
  Fixpoint nticks (ops : list op) : nat :=
    match ops with [] => O | Tick :: r => Datatypes.S (nticks r) | Deliver _ :: r => nticks r end.
  Fixpoint delivered (ops : list op) : list vertex :=
    match ops with [] => [] | Deliver v :: r => v :: delivered r | Tick :: r => delivered r end.
  (* everything the schedule handles: admitted, parked, still to be delivered *)
  Definition M (st : astate) (ops : list op) : list vertex := (fst st ++ qv (snd st)) ++ delivered ops.
  Definition J (st : astate) (ops : list op) : Prop := NoDup (map v_hash (M st ops)) /\ incl (M st ops) S.

  Lemma step_M st o r : Permutation (M (aop L0 st o) r) (M st (o :: r)).
  Proof.
    destruct st as [A Q]. unfold M. destruct o as [v|]; cbn [aop delivered fst snd].
    - rewrite (astep_perm A Q v 0). cbn [app]. apply Permutation_middle.
    - unfold atick. cbn [snd fst]. destruct Q as [|[v rep] rest]; [reflexivity|].
      apply Permutation_app_tail. rewrite (astep_perm A rest v rep). cbn [qv map fst]. apply Permutation_middle.
  Qed.

  Lemma J_step st o r : J st (o :: r) -> J (aop L0 st o) r.
  Proof.
    intros [Hn Hi]. pose proof (step_M st o r) as P. split.
    - eapply Permutation_NoDup; [apply Permutation_sym; apply Permutation_map; exact P|exact Hn].
    - intros x Hx. apply Hi. eapply Permutation_in; [exact P|exact Hx].
  Qed.

  Lemma NoDup_app_l {X} (a b : list X) : NoDup (a ++ b) -> NoDup a.
  Proof. induction b as [|x b IH]; [rewrite app_nil_r; auto|]. intros H. apply IH. eapply NoDup_remove_1. exact H. Qed.

  Lemma J_G st ops : J st ops -> G st.
  Proof.
    intros [Hn Hi]. unfold M in *. split.
    - rewrite map_app in Hn. apply NoDup_app_l in Hn. exact Hn.
    - intros x Hx. apply Hi. apply in_or_app. left. exact Hx.
  Qed.

  Lemma reps_astep A Q v rep B : reps_le B Q -> rep + 1 <= B -> reps_le B (snd (astep L0 (A, Q) v rep)).
  Proof.
    intros Hq Hr. unfold astep. destruct (_ && _); cbn [snd]; [exact Hq|].
    intros w r Hin. apply in_app_or in Hin. destruct Hin as [Hin|[Heq|[]]]; [eauto|inversion Heq; subst; exact Hr].
  Qed.

  Lemma deliver_phase ops : forall st B,
    J st ops -> reps_le B (snd st) -> 1 <= B -> B + Z.of_nat (nticks ops) <= maxRepeats ->
    aoks L0 S st ops /\ J (arun L0 st ops) [] /\ reps_le (B + Z.of_nat (nticks ops)) (snd (arun L0 st ops)) /\
    Permutation (M (arun L0 st ops) []) (M st ops).
  Proof.
    induction ops as [|o ops IH]; intros st B Hj Hq HB Hmax; cbn [aoks arun fold_left nticks].
    - repeat split; [apply Hj|apply Hj|intros v r Hin; specialize (Hq v r Hin); lia|reflexivity].
    - fold (arun L0 (aop L0 st o) ops).
      pose proof (J_step _ _ _ Hj) as Hj'. pose proof (J_G _ _ Hj) as Hg. pose proof (G_length _ Hg) as Hlen.
      destruct st as [A Q]. destruct o as [v|].
      + (* a delivery *)
        cbn [nticks] in *.
        assert (Hv : In v S) by (apply Hj; unfold M; apply in_or_app; right; cbn [delivered]; left; reflexivity).
        assert (HnA : ~ In v A).
        { destruct Hj as [Hn _]. unfold M in Hn. cbn [fst snd delivered] in Hn. rewrite map_app in Hn. cbn [map] in Hn.
          apply NoDup_remove_2 in Hn. intros Hin. apply Hn. apply in_or_app. left. rewrite map_app. apply in_or_app. left. apply in_map. exact Hin. }
        assert (HlQ : Z.of_nat (length Q) <> maxArraySize).
        { cbn [fst snd] in Hlen. rewrite app_length in Hlen. unfold qv in Hlen. rewrite map_length in Hlen. lia. }
        destruct (IH (aop L0 (A, Q) (Deliver v)) B Hj') as (I1 & I2 & I3 & I4); [cbn [aop]; apply reps_astep; [exact Hq|lia]|exact HB|exact Hmax|].
        split; [split; [cbn [aok]; auto|exact I1]|split; [exact I2|split; [exact I3|rewrite I4; apply step_M]]].
      + (* a retry tick *)
        cbn [nticks] in *. rewrite Nat2Z.inj_succ in *.
        destruct Q as [|[v rep] rest].
        * change (aop L0 (A, []) Tick) with (A, @nil (vertex * Z)) in *.
          destruct (IH (A, []) B Hj') as (I1 & I2 & I3 & I4); [exact Hq|exact HB|lia|].
          split; [split; [cbn [aok]; exact I|exact I1]|split; [exact I2|split; [intros w r Hin; specialize (I3 w r Hin); lia|exact I4]]].
        * pose proof (Hq v rep (or_introl eq_refl)) as Hr.
          destruct (G_tick_ok _ _ _ _ Hg) as (H1 & H2 & H3); [lia|].
          assert (Hq' : reps_le (B + 1) (snd (aop L0 (A, (v, rep) :: rest) Tick))).
          { cbn [aop]. unfold atick. cbn [snd fst]. apply reps_astep; [|lia]. intros w r Hin. pose proof (Hq w r (or_intror Hin)). lia. }
          destruct (IH _ (B + 1) Hj' Hq') as (I1 & I2 & I3 & I4); [lia|lia|].
          split; [split; [cbn [aok]; repeat split; try assumption; lia|exact I1]|split; [exact I2|split; [intros w r Hin; specialize (I3 w r Hin); lia|rewrite I4; apply step_M]]].
  Qed.

  (* ---------------------------------------------------------------- progress: S has a parents-first order *)
  Fixpoint topo (done : list vertex) (l : list vertex) : Prop :=
    match l with [] => True | v :: r => adm done v = true /\ topo (v :: done) r end.

  Lemma first_missing l : forall done A, topo done l -> incl (map v_hash done) (map v_hash A) ->
    (exists v, In v l /\ nmem (v_hash v) (map v_hash A) = false) ->
    exists v, In v l /\ nmem (v_hash v) (map v_hash A) = false /\ adm A v = true.
  Proof.
    induction l as [|v r IH]; intros done A Ht Hi [w [Hw Hm]]; [destruct Hw|]. destruct Ht as [Hv Ht].
    destruct (nmem (v_hash v) (map v_hash A)) eqn:E.
    - destruct Hw as [->|Hw]; [congruence|].
      destruct (IH (v :: done) A Ht) as [x [Hx [Hxm Hxa]]].
      + intros h [<-|Hh]; [apply nmem_in'; exact E|apply Hi; exact Hh].
      + eauto.
      + exists x. repeat split; [right; exact Hx|exact Hxm|exact Hxa].
    - exists v. repeat split; [left; reflexivity|exact E|eapply adm_mono; [exact Hi|exact Hv]].
  Qed.

  Variable T : list vertex.
  Hypothesis HT : Permutation T S.
  Hypothesis Htopo : topo [] T.

  Lemma progress A Q : G (A, Q) -> Permutation (A ++ qv Q) S -> Q <> [] -> exists v rep, In (v, rep) Q /\ adm A v = true.
  Proof.
    intros [Hn _] HP Hne. destruct Q as [|[w r] rest]; [congruence|]. cbn [fst snd qv map] in *.
    assert (Hw : nmem (v_hash w) (map v_hash A) = false).
    { destruct (nmem (v_hash w) (map v_hash A)) eqn:E; [|reflexivity]. apply nmem_in' in E.
      rewrite map_app in Hn. cbn [map] in Hn. apply NoDup_remove_2 in Hn. exfalso. apply Hn. apply in_or_app. left. exact E. }
    assert (HwT : In w T).
    { eapply Permutation_in; [apply Permutation_sym; exact HT|]. eapply Permutation_in; [exact HP|]. apply in_or_app. right. left. reflexivity. }
    destruct (first_missing T [] A Htopo) as [v [Hv [Hvm Hva]]]; [intros h []|eauto|].
    assert (HvS : In v (A ++ w :: map fst rest)).
    { eapply Permutation_in; [apply Permutation_sym; exact HP|]. eapply Permutation_in; [exact HT|exact Hv]. }
    apply in_app_or in HvS. destruct HvS as [HvA|HvQ].
    - exfalso. assert (X : nmem (v_hash v) (map v_hash A) = true) by (apply nmem_in'; apply in_map; exact HvA). congruence.
    - change (w :: map fst rest) with (map fst ((w, r) :: rest)) in HvQ. apply in_map_iff in HvQ. destruct HvQ as [[v' rep] [E Hin]].
      cbn [fst] in E. subst v'. exists v, rep. auto.
  Qed.

  (* ---------------------------------------------------------------- draining by passes *)
  Fixpoint drain_ticks (n : nat) (A : list vertex) (Q : list (vertex * Z)) : list op :=
    match n with
    | O => []
    | Datatypes.S k => ticks (length Q) ++ drain_ticks k (fst (round A Q)) (snd (round A Q))
    end.

  Lemma drain_spec n : forall A Q B,
    G (A, Q) -> Permutation (A ++ qv Q) S -> reps_le B Q -> B + Z.of_nat n <= maxRepeats -> (length Q <= n)%nat ->
    aoks L0 S (A, Q) (drain_ticks n A Q) /\
    snd (arun L0 (A, Q) (drain_ticks n A Q)) = [] /\ Permutation (fst (arun L0 (A, Q) (drain_ticks n A Q))) S.
  Proof.
    induction n as [|k IH]; intros A Q B Hg HP Hq Hmax Hlen; cbn [drain_ticks].
    - destruct Q; [|cbn in Hlen; lia]. cbn [aoks arun fold_left fst snd]. cbn [qv map] in HP. rewrite app_nil_r in HP. auto.
    - rewrite Nat2Z.inj_succ in Hmax.
      pose proof (round_is_ticks Q A []) as Hrt. rewrite app_nil_r in Hrt. cbn [app] in Hrt.
      pose proof (round_aoks Q A []) as Hra. rewrite app_nil_r in Hra.
      assert (Hok1 : aoks L0 S (A, Q) (ticks (length Q))) by (apply Hra; [exact Hg|intros v r Hin; specialize (Hq v r Hin); lia]).
      set (A' := fst (round A Q)) in *. set (R := snd (round A Q)) in *.
      assert (HP' : Permutation (A' ++ qv R) S) by (unfold A', R; rewrite round_perm; exact HP).
      assert (Hg' : G (A', R)) by (eapply G_perm; [exact Hg|]; cbn [fst snd]; unfold A', R; apply round_perm).
      assert (Hq' : reps_le (B + 1) R) by (unfold R; intros v r Hin; eapply round_reps; [exact Hq|exact Hin]).
      assert (Hlen' : (length R <= k)%nat).
      { destruct Q as [|q0 Q0] eqn:EQ; [unfold R; cbn; lia|].
        assert (Hpr : (length R < length Q)%nat) by (rewrite EQ; unfold R; apply round_progress; apply progress; [exact Hg|exact HP|discriminate]).
        rewrite EQ in Hpr. cbn [length] in *. lia. }
      destruct (IH A' R (B + 1) Hg' HP' Hq') as (I1 & I2 & I3); [lia|exact Hlen'|].
      rewrite aoks_app, arun_app, Hrt. repeat split; assumption.
  Qed.
End Drain.

(* ================================================================ Part 3: the theorem *)
Lemma drain_ticks_are_ticks L0 n : forall A Q, exists k, drain_ticks L0 n A Q = ticks k.
Proof.
  induction n as [|n IH]; intros A Q; cbn [drain_ticks]; [exists O; reflexivity|].
  destruct (IH (fst (round L0 A Q)) (snd (round L0 A Q))) as [k Hk]. rewrite Hk.
  exists (length Q + k)%nat. unfold ticks. rewrite repeat_app. reflexivity.
Qed.

(* the number of retry ticks after which the buffer is empty: read off the abstract run *)
Definition drain_k (L0 : ledger) (S : list vertex) (ops : list op) : nat :=
  let st1 := arun L0 ([], []) ops in length (drain_ticks L0 (length S) (fst st1) (snd st1)).

Theorem any_order_all_admitted (L0 : ledger) (S T : list vertex) (ops : list op) :
  S_ok L0 S ->                                         (* S is new to the ledger, verified, hashes distinct *)
  Permutation T S -> topo L0 [] T ->                   (* S is closed under parents: it has a parents-first order *)
  parked L0 = [] ->
  Permutation (delivered ops) S ->                     (* every vertex of S is delivered once, in any order, ticks anywhere *)
  Z.of_nat (length S) < maxArraySize ->                (* within the buffer ... *)
  1 + Z.of_nat (nticks ops) + Z.of_nat (length S) <= maxRepeats ->   (* ... and retry bounds *)
  let sched := ops ++ ticks (drain_k L0 S ops) in
  fine_runb L0 sched = true ->                         (* and no examined parent tip is refused along the way *)
  let L' := mrun L0 sched in
  exists A, parked L' = [] /\ Permutation A S /\ dag L' = map node_of A ++ dag L0 /\ index L' = map ix A ++ index L0.
Proof.
  intros HS HT Htopo Hq0 Hdel Hsmall Hmax sched Hfine L'.
  set (st0 := (@nil vertex, @nil (vertex * Z))).
  assert (Hj0 : J S st0 ops).
  { unfold J, M, st0. cbn [fst snd qv map app]. split.
    - eapply Permutation_NoDup; [apply Permutation_sym; apply Permutation_map; exact Hdel|]. apply HS.
    - intros x Hx. eapply Permutation_in; [exact Hdel|exact Hx]. }
  destruct (deliver_phase L0 S Hsmall ops st0 1 Hj0) as (O1 & J1 & R1 & P1); [intros v r []|lia|lia|].
  unfold L', sched, drain_k in *. clear L' sched. fold st0 in Hfine |- *.
  destruct (arun L0 st0 ops) as [A1 Q1] eqn:E1.
  pose proof (J_G _ _ _ J1) as G1. pose proof (G_length _ _ G1) as Len1. cbn [fst snd] in *.
  assert (HP1 : Permutation (A1 ++ qv Q1) S).
  { unfold M in P1. cbn [fst snd delivered] in P1. rewrite !app_nil_r in P1. cbn [qv map app] in P1. rewrite P1. exact Hdel. }
  assert (LenQ : (length Q1 <= length S)%nat) by (rewrite app_length in Len1; unfold qv in Len1; rewrite map_length in Len1; lia).
  destruct (drain_spec L0 S Hsmall T HT Htopo (length S) A1 Q1 (1 + Z.of_nat (nticks ops)) G1 HP1 R1) as (O2 & E2 & P2); [lia|exact LenQ|].
  destruct (drain_ticks_are_ticks L0 (length S) A1 Q1) as [k Hk]. rewrite Hk in *.
  assert (Ek : length (ticks k) = k) by (unfold ticks; apply repeat_length). rewrite Ek in *.
  exists (fst (arun L0 (A1, Q1) (ticks k))).
  assert (Hr : Rel L0 (mrun L0 (ops ++ ticks k)) (fst (arun L0 st0 (ops ++ ticks k))) (snd (arun L0 st0 (ops ++ ticks k)))).
  { apply (run_refines L0 S HS).
    - unfold Rel, st0. cbn [fst snd map app]. repeat split; try reflexivity. exact Hq0.
    - intros x [].
    - apply aoks_app. split; [exact O1|rewrite E1; exact O2].
    - exact Hfine. }
  rewrite arun_app, E1 in Hr. destruct Hr as (Hd & Hi & Hp & _).
  rewrite E2 in Hp. repeat split; assumption.
Qed.

(* two delivery orders (for instance any order and the parents-first one) end with the same vertices, the same edges
   and the same index entries: the graphs differ at most in the order in which the library lists them *)
Corollary any_two_orders_agree (L0 : ledger) (S T : list vertex) (ops1 ops2 : list op) :
  S_ok L0 S -> Permutation T S -> topo L0 [] T -> parked L0 = [] -> Z.of_nat (length S) < maxArraySize ->
  Permutation (delivered ops1) S -> 1 + Z.of_nat (nticks ops1) + Z.of_nat (length S) <= maxRepeats ->
  Permutation (delivered ops2) S -> 1 + Z.of_nat (nticks ops2) + Z.of_nat (length S) <= maxRepeats ->
  let s1 := ops1 ++ ticks (drain_k L0 S ops1) in let s2 := ops2 ++ ticks (drain_k L0 S ops2) in
  fine_runb L0 s1 = true -> fine_runb L0 s2 = true ->
  exists A1 A2, Permutation A1 A2 /\
    dag (mrun L0 s1) = map node_of A1 ++ dag L0 /\ dag (mrun L0 s2) = map node_of A2 ++ dag L0 /\
    index (mrun L0 s1) = map ix A1 ++ index L0 /\ index (mrun L0 s2) = map ix A2 ++ index L0 /\
    parked (mrun L0 s1) = [] /\ parked (mrun L0 s2) = [].
Proof.
  intros HS HT Ht Hq Hsm D1 M1 D2 M2 s1 s2 F1 F2.
  destruct (any_order_all_admitted L0 S T ops1 HS HT Ht Hq D1 Hsm M1 F1) as (A1 & P1 & Q1 & E1 & I1).
  destruct (any_order_all_admitted L0 S T ops2 HS HT Ht Hq D2 Hsm M2 F2) as (A2 & P2 & Q2 & E2 & I2).
  exists A1, A2. repeat split; try assumption. rewrite Q1. apply Permutation_sym. exact Q2.
Qed.

(* ---------------------------------------------------------------- the premises are met by a real run *)
From Verif Require Import LoadWitness.
Definition c_A := Vtx 11%N 10%N 10%N 1 5%N true (Trx 101%N 2%N 3%N (Mel 1 0) false).   (* on genesis: 2 pays 3 *)
Definition c_B := Vtx 12%N 11%N 11%N 2 5%N true (Trx 102%N 3%N 4%N (Mel 1 0) false).   (* on A: 3 pays 4 *)
Definition c_C := Vtx 13%N 11%N 11%N 2 5%N true (Trx 103%N 2%N 5%N (Mel 1 0) false).   (* on A as well: 2 pays 5 *)
Definition c_D := Vtx 14%N 12%N 13%N 3 5%N true (Trx 104%N 4%N 6%N (Mel 1 0) false).   (* merges B and C: 4 pays 6 *)
Definition c_S := [c_A; c_B; c_C; c_D].
Definition c_ops := [Deliver c_D; Tick; Deliver c_C; Deliver c_B; Tick; Deliver c_A].  (* children first, ticks in between *)

Example confluence_premises_hold :
  S_ok o_G c_S /\ topo o_G [] c_S /\ parked o_G = [] /\ Permutation (delivered c_ops) c_S /\
  Z.of_nat (length c_S) < maxArraySize /\ 1 + Z.of_nat (nticks c_ops) + Z.of_nat (length c_S) <= maxRepeats /\
  fine_runb o_G (c_ops ++ ticks (drain_k o_G c_S c_ops)) = true.
Proof.
  split; [|split; [|split; [|split; [|split; [|split]]]]].
  - split; [|split].
    + repeat (apply NoDup_cons; [cbn; intros H; repeat (destruct H as [H|H]; [discriminate H|]); exact H|]). apply NoDup_nil.
    + repeat (apply NoDup_cons; [cbn; intros H; repeat (destruct H as [H|H]; [discriminate H|]); exact H|]). apply NoDup_nil.
    + intros v Hv. cbn in Hv. repeat (destruct Hv as [<-|Hv]; [vm_compute; repeat split; reflexivity|]). destruct Hv.
  - vm_compute. repeat split; reflexivity.
  - reflexivity.
  - change (delivered c_ops) with (rev c_S). apply Permutation_sym. apply Permutation_rev.
  - vm_compute. reflexivity.
  - vm_compute. intro; discriminate.
  - vm_compute. reflexivity.
Qed.

(* what the theorem then says about that run, and the same read off the run itself *)
Example confluence_instance :
  let L' := mrun o_G (c_ops ++ ticks (drain_k o_G c_S c_ops)) in
  (exists A, parked L' = [] /\ Permutation A c_S /\ dag L' = map node_of A ++ dag o_G /\ index L' = map ix A ++ index o_G) /\
  (drain_k o_G c_S c_ops, map nhash (dag L'), parked L') = (3%nat, [14; 12; 13; 11; 10]%N, []).
Proof.
  destruct confluence_premises_hold as (H1 & H2 & H3 & H4 & H5 & H6 & H7).
  split; [apply (any_order_all_admitted o_G c_S c_S c_ops H1 (Permutation_refl _) H2 H3 H4 H5 H6 H7)|].
  vm_compute. reflexivity.
Qed.

(* ---------------------------------------------------------------- where the no-refusal premise comes from *)
(* the no-refusal premise of one attempt follows from the static conditions of validate_complete on each examined tip *)
Definition tip_passes_cond (L : ledger) (p : node) : Prop :=
  amounts_canon L /\ In p (dag L) /\ valid_weight L (v_weight (nv p)) = true /\ v_ok (nv p) = true /\ tip_condition L p.

Lemma parent_fineb_from_cond L h p : (has_child L h = false -> tip_passes_cond L p) -> parent_fineb L h p = true.
Proof.
  intros H. unfold parent_fineb. destruct (has_child L h) eqn:E; [reflexivity|]. cbn [orb].
  destruct (H eq_refl) as (Hc & Hin & Hw & Hok & Ht). rewrite (validate_complete L p Hc Hin Hw Hok Ht). reflexivity.
Qed.

Theorem fine_atb_from_conditions L v :
  (forall p1, find_node (v_left v) (dag L) = Some p1 ->
     (has_child L (v_left v) = false -> tip_passes_cond L p1) /\
     forall p2, find_node (v_right v) (dag L) = Some p2 ->
       has_child (after_parent L (v_left v) p1) (v_right v) = false -> tip_passes_cond (after_parent L (v_left v) p1) p2) ->
  fine_atb L v = true.
Proof.
  intros H. unfold fine_atb. destruct (find_node (v_left v) (dag L)) as [p1|] eqn:F1; [|reflexivity].
  destruct (H p1 eq_refl) as [H1 H2]. rewrite (parent_fineb_from_cond _ _ _ H1). cbn [andb].
  assert (Hd : dag (after_parent L (v_left v) p1) = dag L) by (unfold after_parent; destruct (has_child L (v_left v)); reflexivity).
  rewrite Hd. destruct (find_node (v_right v) (dag L)) as [p2|] eqn:F2; [|reflexivity].
  apply parent_fineb_from_cond. apply H2. reflexivity.
Qed.
