(* Proofs/LocksetP.v — a reader/writer lock never has a writer together with anyone else, so two accesses that the
   table protects by a common lock (one side exclusive) are never enabled in two goroutines at once. *)
From Coq Require Import List String Arith Bool Lia.
From Verif Require Import Lockset.
Import ListNotations.

Lemma rw_inv s : lreach s -> forall t, wr s = Some t -> rd s = [].
Proof.
  induction 1 as [|s s' Hr IH Hs]; cbn; [discriminate|].
  inversion Hs; subst; cbn in *; intros t0 H0; try discriminate; reflexivity.
Qed.

Theorem rw_exclusion s t1 t2 m1 m2 :
  lreach s -> holds s t1 m1 -> holds s t2 m2 -> t1 <> t2 -> (m1 = 2 \/ m2 = 2) -> False.
Proof.
  intros Hr H1 H2 Hne Hm.
  destruct Hm as [-> | ->]; cbn in *.
  - pose proof (rw_inv s Hr t1 H1) as Hrd.
    destruct m2 as [|[|[|m2]]]; cbn in H2; try contradiction.
    + rewrite Hrd in H2; contradiction.
    + congruence.
  - pose proof (rw_inv s Hr t2 H2) as Hrd.
    destruct m1 as [|[|[|m1]]]; cbn in H1; try contradiction.
    + rewrite Hrd in H1; contradiction.
    + congruence.
Qed.

Lemma lmode_in l ls : 1 <= lmode l ls -> In (l, lmode l ls) ls.
Proof.
  induction ls as [|[l' m] t IH]; cbn; [lia|].
  destruct (String.eqb l l') eqn:E.
  - apply String.eqb_eq in E; subst; auto.
  - intros H; right; auto.
Qed.

Lemma racy_pairs_nil rs accs : racy_pairs rs accs = [] ->
  forall a b, In a accs -> In b accs -> conflict a b = true -> concurrent rs a b = true -> protected a b = true.
Proof.
  unfold racy_pairs; intros H a b Ha Hb Hc Hcc.
  destruct (protected a b) eqn:P; [reflexivity|exfalso].
  assert (Hin : In (a, b) (filter (fun p => racy rs (fst p) (snd p)) (list_prod accs accs))).
  { apply filter_In; split; [apply in_prod; assumption|]. cbn. unfold racy. rewrite Hc, Hcc, P. reflexivity. }
  rewrite H in Hin; contradiction.
Qed.

(* whatever the state of the locks (each reachable by acquire/release steps): two different goroutines cannot be at
   two conflicting, concurrently reachable accesses while holding the locks the table says they hold *)
Theorem lockset_no_simultaneous_access rs accs : racy_pairs rs accs = [] ->
  forall a b, In a accs -> In b accs -> conflict a b = true -> concurrent rs a b = true ->
  forall (st : string -> lockst), (forall l, lreach (st l)) ->
  forall t1 t2, t1 <> t2 ->
    (forall l m, In (l, m) (a_locks a) -> holds (st l) t1 m) ->
    (forall l m, In (l, m) (a_locks b) -> holds (st l) t2 m) -> False.
Proof.
  intros Hnil a b Ha Hb Hc Hcc st Hst t1 t2 Hne H1 H2.
  pose proof (racy_pairs_nil rs accs Hnil a b Ha Hb Hc Hcc) as P.
  unfold protected in P. apply existsb_exists in P. destruct P as [[l m] [_ Hex]]. cbn in Hex.
  unfold excluded_by in Hex.
  apply andb_prop in Hex; destruct Hex as [Hex Hw]. apply andb_prop in Hex; destruct Hex as [Hm1 Hm2].
  apply Nat.leb_le in Hm1, Hm2.
  pose proof (H1 _ _ (lmode_in l _ Hm1)) as Hh1. pose proof (H2 _ _ (lmode_in l _ Hm2)) as Hh2.
  apply (rw_exclusion (st l) t1 t2 _ _ (Hst l) Hh1 Hh2 Hne).
  apply orb_prop in Hw; destruct Hw as [Hw|Hw]; apply Nat.eqb_eq in Hw; auto.
Qed.

(* what the discipline excludes: the orphan buffer before fix ea90eff — the ticker goroutine pops without any lock
   while the admission path appends under the ledger lock only *)
Definition buffer_before_fix : list access :=
  [Acc "accountant.buffer.getNext" 54 "accountant.buffer.members" true [] ["accountant.buffer.run"];
   Acc "accountant.buffer.insert" 113 "accountant.buffer.members" true [("accountant.AccountingBook.mux", 2)] ["accountant.AccountingBook.AddLeaf"]]%string.
Definition roots_before_fix : list root :=
  [Root "accountant.buffer.run" false false; Root "accountant.AccountingBook.AddLeaf" true false]%string.
Lemma buffer_before_fix_racy : List.length (racy_pairs roots_before_fix buffer_before_fix) = 2.
Proof. vm_compute. reflexivity. Qed.
