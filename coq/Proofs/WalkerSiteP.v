(* Proofs/WalkerSiteP.v — from the site facts to the protocol theorems. *)
From Coq Require Import List String Arith Bool Lia.
From Verif Require Import Walker WalkerP StreamLock StreamLockP WalkerSite.
Import ListNotations.

Lemma wsite_ok_drain s : wsite_ok s = true -> strategy_of s = Drain.
Proof.
  unfold wsite_ok, strategy_of; intros H.
  repeat (apply andb_prop in H; destruct H as [H ?]).
  apply Nat.eqb_eq in H. rewrite H; cbn.
  match goal with H1 : (ws_defer s || _)%bool = true |- _ => rewrite H1 end. reflexivity.
Qed.

Lemma tree_ok_sites d sites ws : tree_ok d sites ws = true -> forall s, In s sites -> wsite_ok s = true.
Proof.
  unfold tree_ok; intros H s Hin. apply andb_prop in H; destruct H as [H _]. apply andb_prop in H; destruct H as [_ H].
  rewrite forallb_forall in H; auto.
Qed.

Lemma tree_ok_guarded d sites ws : tree_ok d sites ws = true -> guarded_of sites ws = true.
Proof.
  unfold tree_ok, guarded_of; intros H. apply andb_prop in H; destruct H as [H Hw]. apply andb_prop in H; destruct H as [_ Hs].
  rewrite Hw, andb_true_r. rewrite forallb_forall in *; intros s Hin. specialize (Hs s Hin).
  unfold wsite_ok in Hs. repeat (apply andb_prop in Hs; destruct Hs as [Hs ?]). assumption.
Qed.

(* every walk started at an accepted site ends with the graph lock released and the consumer returned, whatever the
   number n of ancestors, the point k at which the consumer gives up, and the interleaving; and it does end *)
Theorem sites_never_wedge d sites ws : tree_ok d sites ws = true ->
  forall s, In s sites -> forall n k st, Walker.reach n k (strategy_of s) st ->
    (good_end st \/ exists st', Walker.step n k (strategy_of s) st st')
    /\ (forall st', Walker.step n k (strategy_of s) st st' -> WalkerP.measure n st' < WalkerP.measure n st).
Proof.
  intros Hok s Hin n k st Hr. rewrite (wsite_ok_drain s (tree_ok_sites _ _ _ Hok s Hin)) in *.
  split.
  - apply drain_progress; assumption.
  - intros st' Hs. eapply drain_terminates; eauto. eapply dinv_reach; eauto.
Qed.

Theorem stream_never_deadlocks d sites ws : tree_ok d sites ws = true ->
  forall n writers s, StreamLock.reach n (guarded_of sites ws) writers s ->
    (StreamLock.final s \/ exists s', StreamLock.step n (guarded_of sites ws) s s')
    /\ (forall s', StreamLock.step n (guarded_of sites ws) s s' -> StreamLockP.measure n s' < StreamLockP.measure n s).
Proof.
  intros Hok n writers s Hr. rewrite (tree_ok_guarded _ _ _ Hok) in *. split.
  - eapply guarded_progress; eauto.
  - intros s' Hs. eapply step_decreases; eauto.
Qed.
