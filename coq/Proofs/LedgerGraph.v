(* Proofs/LedgerGraph.v — the graph invariant: edges are exactly the declared parents that are live,
   a declared parent that is not live is checkpointed (or the vertex is a genesis vertex), and the
   graph is acyclic (children occur before their parents in the list order). *)
From Verif Require Import U64 Spice RepoConstants Ledger ListFacts LedgerInv.
From Coq Require Import NArith Permutation.

Definition decl (v : vertex) : list N := [v_left v; v_right v].

Fixpoint ordered (l : list node) : Prop :=
  match l with
  | [] => True
  | n :: r => (forall p, In p (lp n) -> In p (map nhash r)) /\ ordered r
  end.

Record InvG (L : ledger) : Prop := {
  g_sound : forall n, In n (dag L) -> forall p, In p (lp n) -> In p (decl (nv n)) /\ live L p = true;
  g_complete : forall n, In n (dag L) -> forall p, In p (decl (nv n)) -> live L p = true -> In p (lp n);
  g_absent : forall n, In n (dag L) -> forall p, In p (decl (nv n)) -> live L p = false ->
             stored L p = true \/ (v_left (nv n) = 0 /\ v_right (nv n) = 0 /\ lp n = [])%N;
  g_nodup : forall n, In n (dag L) -> NoDup (lp n);
  g_order : ordered (dag L);
  g_nozero : ~ In 0%N (map nhash (dag L)) /\ ~ In 0%N (map v_hash (st_vtx L));
  g_parked : forall v r, In (v, r) (parked L) -> v_hash v <> 0%N
}.

Lemma InvG_ext L L' : dag L' = dag L -> st_vtx L' = st_vtx L -> parked L' = parked L -> InvG L -> InvG L'.
Proof.
  intros Hd Hs Hpk [A B C D E F G].
  assert (Hl : forall p, live L' p = live L p) by (intros; unfold live; rewrite Hd; reflexivity).
  assert (Hst : forall p, stored L' p = stored L p) by (intros; unfold stored; rewrite Hs; reflexivity).
  constructor; rewrite ?Hd, ?Hs, ?Hpk; intros; rewrite ?Hl, ?Hst in *; eauto.
Qed.
Lemma InvG_bump L w : InvG L -> InvG (bump L w). Proof. apply InvG_ext; reflexivity. Qed.
Lemma InvG_init me : InvG (init me).
Proof. constructor; cbn; try tauto; intros; contradiction. Qed.

(* ---------------------------------------------------------------- deleting a tip *)
Lemma nremove_notin x l : ~ In x l -> nremove x l = l.
Proof.
  intros H. unfold nremove. induction l as [|y l IH]; cbn; [reflexivity|].
  destruct (N.eqb_spec x y) as [E|E]; cbn.
  - exfalso. apply H. left. auto.
  - rewrite IH; [reflexivity|]. intros Hin. apply H. right. exact Hin.
Qed.

Lemma del_node_tip_list h d : (forall n, In n d -> ~ In h (lp n)) ->
  del_node h d = filter (fun m => negb (N.eqb (nhash m) h)) d.
Proof.
  unfold del_node. induction d as [|m d IH]; intros Hn; cbn; [reflexivity|].
  assert (IH' : map (fun n => Node (nv n) (nremove h (lp n))) (filter (fun n => negb (nhash n =? h)%N) d)
                = filter (fun n => negb (nhash n =? h)%N) d).
  { apply IH. intros n Hin. apply Hn. right. exact Hin. }
  destruct (negb (nhash m =? h)%N); cbn; [|exact IH'].
  rewrite IH'. f_equal. rewrite nremove_notin by (apply Hn; left; reflexivity). destruct m; reflexivity.
Qed.
Lemma del_node_tip L h : has_child L h = false ->
  del_node h (dag L) = filter (fun m => negb (N.eqb (nhash m) h)) (dag L).
Proof. intros Hc. apply del_node_tip_list. exact (proj1 (has_child_false L h) Hc). Qed.

Lemma ordered_filter p l : (forall n, In n l -> forall q, In q (lp n) -> p q = true) ->
  ordered l -> ordered (filter (fun m => p (nhash m)) l).
Proof.
  induction l as [|m r IH]; cbn; [auto|]. intros Hp [Ho Hr].
  assert (IHr : ordered (filter (fun m0 => p (nhash m0)) r)) by (apply IH; [intros n Hn; apply Hp; right; exact Hn|exact Hr]).
  destruct (p (nhash m)); cbn; [split|]; auto.
  intros q Hq. pose proof (Ho q Hq) as Hin. apply in_map_iff in Hin. destruct Hin as [x [E Hx]].
  apply in_map_iff. exists x. split; [exact E|]. apply filter_In. split; [exact Hx|].
  rewrite E. apply (Hp m); [left; reflexivity|exact Hq].
Qed.

Lemma InvG_rm_tip L n : InvG L -> In n (dag L) -> has_child L (nhash n) = false -> InvG (rm_tip L n).
Proof.
  intros [A B C D E F G] Hn Hc. pose proof (proj1 (has_child_false L _) Hc) as Hnc.
  set (h := nhash n) in *.
  assert (Hd : dag (rm_tip L n) = filter (fun m => negb (N.eqb (nhash m) h)) (dag L)).
  { unfold rm_tip. cbn. apply del_node_tip. exact Hc. }
  assert (Hlive : forall p, live (rm_tip L n) p = true <-> live L p = true /\ p <> h).
  { intros p. rewrite !live_iff. unfold rm_tip. cbn. apply del_node_hashes. }
  assert (Hst : forall p, stored (rm_tip L n) p = stored L p) by reflexivity.
  assert (Hin : forall m, In m (dag (rm_tip L n)) -> In m (dag L)).
  { intros m. rewrite Hd. intros Hm. apply filter_In in Hm. destruct Hm as [Hm _]. exact Hm. }
  constructor.
  - intros m Hm p Hp. destruct (A m (Hin m Hm) p Hp) as [A1 A2]. split; [exact A1|].
    apply Hlive. split; [exact A2|]. intros Eq. subst p. exact (Hnc m (Hin m Hm) Hp).
  - intros m Hm p Hp Hl. apply Hlive in Hl. destruct Hl as [Hl _]. apply B; [apply Hin; exact Hm|exact Hp|exact Hl].
  - intros m Hm p Hp Hl. rewrite Hst. destruct (live L p) eqn:El.
    + (* p was live and is not any more: p = h, but then h has the child m *)
      assert (p = h).
      { destruct (N.eq_dec p h) as [|Hne]; [assumption|]. assert (live (rm_tip L n) p = true) by (apply Hlive; auto). congruence. }
      subst p. exfalso. exact (Hnc m (Hin m Hm) (B m (Hin m Hm) h Hp El)).
    + apply C; auto.
  - intros m Hm. apply D. auto.
  - rewrite Hd. apply (ordered_filter (fun x => negb (N.eqb x h))); [|exact E].
    intros m Hm q Hq. apply negb_true_iff, N.eqb_neq. intros Eq. subst q. exact (Hnc m Hm Hq).
  - destruct F as [F1 F2]. split; [|exact F2]. intros H0. apply F1. unfold rm_tip in H0. cbn in H0.
    apply del_node_hashes in H0. tauto.
  - exact G.
Qed.

(* ---------------------------------------------------------------- inserting a vertex whose parents are all live *)
Lemma InvG_insert L v ps :
  InvG L -> v_hash v <> 0%N ->
  ~ In (v_hash v) (map nhash (dag L)) -> stored L (v_hash v) = false ->
  NoDup ps -> (forall p, In p ps <-> In p (decl v)) -> (forall p, In p ps -> live L p = true) ->
  InvG (insert L v ps).
Proof.
  intros [A B C D E F G] Hnz Hfresh Hns Hnd Hps Hlv.
  assert (Hlive : forall p, live (insert L v ps) p = true <-> p = v_hash v \/ live L p = true).
  { intros p. rewrite !live_iff. unfold insert. cbn. unfold nhash at 1. cbn. intuition. }
  assert (Hst : forall p, stored (insert L v ps) p = stored L p) by reflexivity.
  assert (Hold : forall n p, In n (dag L) -> In p (decl (nv n)) -> p <> v_hash v).
  { intros n p Hn Hp Eq. subst p. destruct (live L (v_hash v)) eqn:El.
    - apply live_iff in El. contradiction.
    - destruct (C n Hn _ Hp El) as [Hs|[Z1 [Z2 _]]]; [congruence|].
      cbn in Hp. destruct Hp as [Hp|[Hp|[]]]; congruence. }
  constructor.
  - intros n [En|Hn] p Hp.
    + subst n. cbn in *. split; [apply Hps; exact Hp|]. apply Hlive. right. apply Hlv. exact Hp.
    + destruct (A n Hn p Hp) as [A1 A2]. split; [exact A1|]. apply Hlive. right. exact A2.
  - intros n [En|Hn] p Hp Hl.
    + subst n. cbn in *. apply Hps. exact Hp.
    + apply Hlive in Hl. destruct Hl as [Hl|Hl]; [exfalso; exact (Hold n p Hn Hp Hl)|]. apply B; auto.
  - intros n [En|Hn] p Hp Hl.
    + subst n. cbn in *. exfalso. assert (live (insert L v ps) p = true); [|congruence].
      apply Hlive. right. apply Hlv. apply Hps. exact Hp.
    + rewrite Hst. apply C; auto. destruct (live L p) eqn:El; [|reflexivity].
      assert (live (insert L v ps) p = true) by (apply Hlive; right; exact El). congruence.
  - intros n [En|Hn]; [subst n; exact Hnd|apply D; exact Hn].
  - unfold insert. cbn. split; [|exact E]. intros p Hp. apply live_iff. apply Hlv. exact Hp.
  - destruct F as [F1 F2]. split; [|exact F2]. unfold insert. cbn. unfold nhash at 1. cbn. intros [H0|H0]; [congruence|exact (F1 H0)].
  - exact G.
Qed.

(* ---------------------------------------------------------------- loops *)
Lemma valid_leaves_invG order : forall L acc e b L' acc' e' b',
  InvG L -> valid_leaves L order acc e b = (((L', acc'), e'), b') -> InvG L'.
Proof.
  induction order as [|h rest IH]; intros L acc e b L' acc' e' b' I H; cbn [valid_leaves] in H.
  - inversion H; subst. exact I.
  - destruct (2 <=? length acc)%nat; [inversion H; subst; exact I|].
    destruct (find_node h (dag L)) as [n|] eqn:Ef; [|eapply IH; eauto].
    destruct (has_child L h) eqn:Hc; cbn [orb] in H; [eapply IH; eauto|].
    destruct (nmem h (map nhash acc)); [eapply IH; eauto|].
    apply find_node_some in Ef. destruct Ef as [Hn Eh].
    destruct (validate L n b) as [r b1].
    assert (Id : InvG (drop_tip L n)).
    { unfold drop_tip. apply InvG_bump. apply InvG_rm_tip; [exact I|exact Hn|rewrite Eh; exact Hc]. }
    destruct r; [eapply IH; [exact I|exact H]|..]; (eapply IH; [exact Id|exact H]).
Qed.

(* nodes handed back by getValidLeaves are live tips of the resulting ledger *)
Lemma in_dag_drop_tip L n m : has_child L (nhash n) = false -> In m (dag L) -> nhash m <> nhash n -> In m (dag (drop_tip L n)).
Proof.
  intros Hc Hm Hne. unfold drop_tip, rm_tip, bump. cbn. rewrite del_node_tip by exact Hc.
  apply filter_In. split; [exact Hm|]. apply negb_true_iff, N.eqb_neq. exact Hne.
Qed.
Lemma has_child_drop_tip L n h : has_child L h = false -> has_child (drop_tip L n) h = false.
Proof.
  intros Hc. apply has_child_false. intros m Hm Hin. unfold drop_tip, rm_tip, bump in Hm. cbn in Hm.
  apply del_node_In in Hm. destruct Hm as [m0 [Hm0 [_ Em]]]. subst m. cbn in Hin. apply nremove_In in Hin.
  exact (proj1 (has_child_false L h) Hc m0 Hm0 (proj1 Hin)).
Qed.

Lemma valid_leaves_acc order : forall L acc e b L' acc' e' b',
  (forall m, In m acc -> In m (dag L) /\ has_child L (nhash m) = false) ->
  valid_leaves L order acc e b = (((L', acc'), e'), b') ->
  (forall m, In m acc' -> In m (dag L') /\ has_child L' (nhash m) = false).
Proof.
  induction order as [|h rest IH]; intros L acc e b L' acc' e' b' Hacc H; cbn [valid_leaves] in H.
  - inversion H; subst. exact Hacc.
  - destruct (2 <=? length acc)%nat; [inversion H; subst; exact Hacc|].
    destruct (find_node h (dag L)) as [n|] eqn:Ef; [|eapply IH; eauto].
    destruct (has_child L h) eqn:Hc; cbn [orb] in H; [eapply IH; eauto|].
    destruct (nmem h (map nhash acc)) eqn:Hm; [eapply IH; eauto|].
    apply find_node_some in Ef. destruct Ef as [Hn Eh].
    destruct (validate L n b) as [r b1].
    assert (Hdrop : forall m, In m acc -> In m (dag (drop_tip L n)) /\ has_child (drop_tip L n) (nhash m) = false).
    { intros m Hin. destruct (Hacc m Hin) as [H1 H2]. split.
      - apply in_dag_drop_tip; [rewrite Eh; exact Hc|exact H1|].
        intros Eq. apply nmem_false in Hm. apply Hm. apply in_map_iff. exists m. split; [congruence|exact Hin].
      - apply has_child_drop_tip. exact H2. }
    destruct r; try (eapply IH; [exact Hdrop|exact H]).
    eapply IH; [|exact H]. intros m Hin. apply in_app_or in Hin. destruct Hin as [Hin|[Hin|[]]]; [auto|].
    subst m. split; [exact Hn|rewrite Eh; exact Hc].
Qed.

Lemma link_parents_invG hs : forall L v rep acc b L' r ps b',
  InvG L -> v_hash v <> 0%N -> link_parents L v rep hs acc b = ((L', r, ps), b') -> InvG L'.
Proof.
  induction hs as [|h rest IH]; intros L v rep acc b L' r ps b' I Hvz H; cbn [link_parents] in H.
  - inversion H; subst. exact I.
  - destruct (find_node h (dag L)) as [p|] eqn:Ef.
    + apply find_node_some in Ef. destruct Ef as [Hp Eh]. subst h.
      destruct (has_child L (nhash p)) eqn:Hc; cbn [negb] in H.
      * eapply IH; eauto.
      * destruct (validate L p b) as [vr b1].
        destruct vr; try (inversion H; subst; apply InvG_rm_tip; [exact I|exact Hp|exact Hc]).
        eapply IH; [|exact Hvz|exact H]. apply InvG_bump. exact I.
    + unfold park in H. destruct (_ =? _); [inversion H; subst; exact I|].
      destruct (_ <? _); inversion H; subst; [exact I|].
      destruct I as [A B C D E F G]. constructor; auto.
      cbn. intros u r0 Hin. apply in_app_or in Hin. destruct Hin as [Hin|[Hin|[]]]; [eapply G; eauto|].
      inversion Hin; subst. exact Hvz.
Qed.

(* on success every requested parent is live in the resulting ledger, in request order *)
Lemma link_parents_ok hs : forall L v rep acc b L' ps b',
  (forall p, In p acc -> live L p = true) ->
  link_parents L v rep hs acc b = ((L', ROk, ps), b') ->
  ps = acc ++ hs /\ (forall p, In p ps -> live L' p = true) /\ st_vtx L' = st_vtx L.
Proof.
  induction hs as [|h rest IH]; intros L v rep acc b L' ps b' Hacc H; cbn [link_parents] in H.
  - inversion H; subst. rewrite app_nil_r. auto.
  - destruct (find_node h (dag L)) as [p|] eqn:Ef.
    + assert (Hlh : live L h = true) by (unfold live; rewrite Ef; reflexivity).
      destruct (has_child L h) eqn:Hc; cbn [negb] in H.
      * assert (Hb0 : forall q, In q (acc ++ [h]) -> live L q = true).
        { intros q Hq. apply in_app_or in Hq. destruct Hq as [Hq|[Hq|[]]]; [exact (Hacc q Hq)|subst q; exact Hlh]. }
        destruct (IH _ _ _ _ _ _ _ _ Hb0 H) as [E1 [E2 E3]].
        split; [rewrite E1, <- app_assoc; reflexivity|auto].
      * destruct (validate L p b) as [vr b1]. destruct vr; try (inversion H; fail).
        assert (Hb : forall q, In q (acc ++ [h]) -> live (bump L (v_weight (nv p))) q = true).
        { intros q Hq. apply in_app_or in Hq. destruct Hq as [Hq|[Hq|[]]]; [exact (Hacc q Hq)|subst q; exact Hlh]. }
        destruct (IH _ _ _ _ _ _ _ _ Hb H) as [E1 [E2 E3]].
        split; [rewrite E1, <- app_assoc; reflexivity|auto].
    + unfold park in H. destruct (_ =? _); [inversion H|]. destruct (_ <? _); inversion H.
Qed.

(* ---------------------------------------------------------------- truncation: characterisation of the graph after deleting a set *)
Definition strip (H : list N) (n : node) : node := Node (nv n) (filter (fun p => negb (nmem p H)) (lp n)).

Lemma filter_true {A} (l : list A) : filter (fun _ => true) l = l.
Proof. induction l as [|x l IH]; cbn; [reflexivity|rewrite IH; reflexivity]. Qed.
Lemma strip_nil n : strip [] n = n.
Proof. unfold strip. cbn. rewrite filter_true. destruct n; reflexivity. Qed.
Lemma filter_filter {A} (p q : A -> bool) l : filter p (filter q l) = filter (fun x => q x && p x) l.
Proof.
  induction l as [|x l IH]; cbn; [reflexivity|]. destruct (q x); cbn; [destruct (p x); cbn|]; rewrite IH; reflexivity.
Qed.

Lemma fold_del_char ms : forall d,
  fold_left (fun d n => del_node (nhash n) d) ms d = map (strip (map nhash ms)) (filter (notin_hashes ms) d).
Proof.
  induction ms as [|m ms IH]; intros d; cbn [fold_left].
  - unfold notin_hashes. cbn. rewrite filter_true. rewrite (map_ext _ (fun n => n)) by (intros; apply strip_nil).
    rewrite map_id. reflexivity.
  - rewrite IH. unfold del_node.
    induction d as [|x d IHd]; [reflexivity|]. cbn [filter map].
    assert (Hx : notin_hashes (m :: ms) x = negb (nhash x =? nhash m)%N && notin_hashes ms x).
    { unfold notin_hashes, nmem. cbn [map existsb]. rewrite negb_orb. reflexivity. }
    rewrite Hx. destruct (N.eqb_spec (nhash x) (nhash m)) as [E|E]; cbn [negb andb filter map]; [exact IHd|].
    assert (Hy : notin_hashes ms (Node (nv x) (nremove (nhash m) (lp x))) = notin_hashes ms x) by reflexivity.
    rewrite Hy. destruct (notin_hashes ms x); cbn [map]; rewrite IHd; [|reflexivity].
    f_equal. unfold strip. cbn [nv lp map]. f_equal. unfold nremove. rewrite filter_filter.
    apply filter_ext. intros p. unfold nmem. cbn [existsb]. rewrite negb_orb. rewrite (N.eqb_sym p). reflexivity.
Qed.

Lemma In_fold_del ms d n' :
  In n' (fold_left (fun d n => del_node (nhash n) d) ms d) <->
  exists n, In n d /\ ~ In (nhash n) (map nhash ms) /\ n' = strip (map nhash ms) n.
Proof.
  rewrite fold_del_char, in_map_iff. split.
  - intros [n [E Hn]]. apply filter_In in Hn. destruct Hn as [Hn Hk]. exists n. split; [exact Hn|]. split; [|auto].
    unfold notin_hashes in Hk. apply negb_true_iff in Hk. apply nmem_false in Hk. exact Hk.
  - intros [n [Hn [Hk E]]]. exists n. split; [auto|]. apply filter_In. split; [exact Hn|].
    unfold notin_hashes. apply negb_true_iff. apply nmem_false. exact Hk.
Qed.

Lemma ordered_strip_filter H l :
  ordered l -> ordered (map (strip H) (filter (fun n => negb (nmem (nhash n) H)) l)).
Proof.
  induction l as [|m r IH]; cbn; [auto|]. intros [Ho Hr]. specialize (IH Hr).
  destruct (negb (nmem (nhash m) H)) eqn:Ek; cbn; [split; [|exact IH]|exact IH].
  intros p Hp. apply filter_In in Hp. destruct Hp as [Hp Hnp].
  pose proof (Ho p Hp) as Hin. apply in_map_iff in Hin. destruct Hin as [x [E Hx]].
  apply in_map_iff. exists (strip H x). split; [exact E|]. apply in_map. apply filter_In. split; [exact Hx|].
  rewrite E. exact Hnp.
Qed.

Lemma NoDup_filter {A} (p : A -> bool) l : NoDup l -> NoDup (filter p l).
Proof.
  induction l as [|x l IH]; cbn; [auto|]. intros H. inversion H as [|? ? Hx Hl]; subst.
  destruct (p x); [constructor|]; auto. intros Hin. apply filter_In in Hin. tauto.
Qed.

Lemma InvG_truncate L tip cut a32 L' r : InvG L -> truncate L tip cut a32 = (L', r) -> InvG L'.
Proof.
  intros I H. unfold truncate in H. destruct (leaves L) as [|lf0 lfs0]; [inversion H; subst; exact I|].
  destruct (_ || _); [inversion H; subst; exact I|]. destruct (existsb _ _); inversion H; subst; [exact I|]. clear H.
  destruct I as [A B C D Eo F G]. set (moved := ancestors L cut). set (Hs := map nhash moved).
  assert (Hmv : forall m, In m moved -> In m (dag L)) by (intros m; apply anc_from_sub).
  assert (Hdag : forall n', In n' (dag (set_dag (set_store L (st_vtx L ++ map nv moved)
                    (fold_left (fun acc p => assoc_set (fst p) (fm_result (snd p)) acc) (rev (fold_left fm_next (map nv moved)
                       (map (fun p => (fst p, (snd p, zero_mel))) (filter (fun p => negb (nmem (fst p) a32)) (st_funds L))))) (st_funds L)))
                    (fold_left (fun d n => del_node (nhash n) d) moved (dag L)))) <->
                  exists n, In n (dag L) /\ ~ In (nhash n) Hs /\ n' = strip Hs n).
  { intros n'. cbn [dag set_dag]. apply In_fold_del. }
  set (L' := set_dag _ _) in *.
  assert (Hlive : forall p, live L' p = true <-> live L p = true /\ ~ In p Hs).
  { intros p. rewrite !live_iff. split.
    - intros Hin. apply in_map_iff in Hin. destruct Hin as [n' [E Hn']]. apply Hdag in Hn'. destruct Hn' as [n [Hn [Hk En]]].
      subst n'. unfold nhash in E. cbn in E. fold (nhash n) in E. subst p. split; [apply in_map; exact Hn|exact Hk].
    - intros [Hin Hk]. apply in_map_iff in Hin. destruct Hin as [n [E Hn]]. apply in_map_iff. exists (strip Hs n).
      split; [exact E|]. apply Hdag. exists n. subst p. auto. }
  assert (Hst : forall p, stored L' p = true <-> stored L p = true \/ In p Hs).
  { intros p. rewrite !stored_iff. unfold L'. cbn [st_vtx set_dag set_store]. rewrite map_app, in_app_iff, map_map. reflexivity. }
  constructor.
  - intros n' Hn' p Hp. apply Hdag in Hn'. destruct Hn' as [n [Hn [Hk En]]]. subst n'. cbn in Hp.
    apply filter_In in Hp. destruct Hp as [Hp Hpk]. apply negb_true_iff, nmem_false in Hpk.
    destruct (A n Hn p Hp) as [A1 A2]. split; [exact A1|]. apply Hlive. auto.
  - intros n' Hn' p Hp Hl. apply Hdag in Hn'. destruct Hn' as [n [Hn [Hk En]]]. subst n'. cbn in *.
    apply Hlive in Hl. destruct Hl as [Hl Hpk]. apply filter_In. split; [apply B; auto|]. apply negb_true_iff, nmem_false. exact Hpk.
  - intros n' Hn' p Hp Hl. apply Hdag in Hn'. destruct Hn' as [n [Hn [Hk En]]]. subst n'. cbn [strip nv lp] in *.
    destruct (live L p) eqn:El.
    + left. apply Hst. right. destruct (in_dec N.eq_dec p Hs) as [Hi|Hi]; [exact Hi|].
      assert (live L' p = true) by (apply Hlive; auto). congruence.
    + destruct (C n Hn p Hp El) as [Hs1|[Z1 [Z2 Z3]]]; [left; apply Hst; left; exact Hs1|right].
      rewrite Z3. auto.
  - intros n' Hn'. apply Hdag in Hn'. destruct Hn' as [n [Hn [Hk En]]]. subst n'. cbn. apply NoDup_filter. apply D. exact Hn.
  - unfold L'. cbn [dag set_dag]. rewrite fold_del_char. apply ordered_strip_filter. exact Eo.
  - destruct F as [F1 F2]. split.
    + intros H0. apply live_iff in H0. apply Hlive in H0. apply F1. apply live_iff. tauto.
    + intros H0. apply stored_iff in H0. apply Hst in H0. destruct H0 as [H0|H0]; [apply F2; apply stored_iff; exact H0|].
      apply F1. apply in_map_iff in H0. destruct H0 as [m [E0 Hm]]. apply in_map_iff. exists m. split; [exact E0|apply Hmv; exact Hm].
  - exact G.
Qed.

(* ---------------------------------------------------------------- entry points *)
Lemma valid_leaves_st order : forall L acc e b L' acc' e' b',
  valid_leaves L order acc e b = (((L', acc'), e'), b') -> st_vtx L' = st_vtx L /\ parked L' = parked L.
Proof.
  induction order as [|h rest IH]; intros L acc e b L' acc' e' b' H; cbn [valid_leaves] in H.
  - inversion H; subst. auto.
  - destruct (2 <=? length acc)%nat; [inversion H; subst; auto|].
    destruct (find_node h (dag L)) as [n|]; [|eapply IH; eauto].
    destruct (_ || _); [eapply IH; eauto|].
    destruct (validate L n b) as [r b1]. destruct r; try (apply IH in H; exact H).
Qed.

Lemma nodup2 (a b : N) : a <> b -> NoDup [a; b].
Proof. intros E. constructor; [cbn; intros [H|[]]; congruence|]. constructor; [cbn; tauto|constructor]. Qed.
Lemma nodup1 (a : N) : NoDup [a].
Proof. constructor; [cbn; tauto|constructor]. Qed.
Lemma dedup_adj_spec a b : NoDup (dedup_adj [a; b]) /\ (forall p, In p (dedup_adj [a; b]) <-> In p [a; b]).
Proof.
  unfold dedup_adj. destruct (N.eqb_spec a b) as [E|E].
  - subst. split; [apply nodup1|]. intros p. cbn. tauto.
  - split; [apply nodup2; exact E|]. tauto.
Qed.
Lemma dedup2_spec a b : NoDup (dedup2 a b) /\ (forall p, In p (dedup2 a b) <-> In p [a; b]).
Proof.
  unfold dedup2. destruct (N.eqb_spec a b) as [E|E].
  - subst. split; [apply nodup1|]. intros p. cbn. tauto.
  - split; [apply nodup2; exact E|]. tauto.
Qed.

Lemma add_leaf_mem_invG L v rep b L' r :
  InvG L -> v_hash v <> 0%N -> add_leaf_mem L v rep b = (L', r) -> InvG L'.
Proof.
  intros I Hvz. unfold add_leaf_mem.
  destruct (N.eqb _ (genesis L)); [intros H; inversion H; subst; exact I|].
  destruct (_ && _); [intros H; inversion H; subst; exact I|].
  destruct (live L (v_hash v) || stored L (v_hash v)) eqn:Ex; [intros H; inversion H; subst; exact I|].
  destruct (has_trx L _); [intros H; inversion H; subst; exact I|].
  destruct (v_ok v); cbn [negb]; [|intros H; inversion H; subst; exact I].
  destruct (link_parents L v rep [v_left v; v_right v] [] b) as [[[L1 r1] ps] b1] eqn:El.
  pose proof (link_parents_invG _ _ _ _ _ _ _ _ _ _ I Hvz El) as I1.
  destruct r1; try (intros H; inversion H; subst; exact I1).
  destruct (link_parents_ok _ _ _ _ _ _ _ _ _ (fun p (F : In p []) => match F with end) El) as [Eps [Hlv Hst]].
  cbn [app] in Eps. subst ps.
  destruct (has_trx L1 _); [intros H; inversion H; subst; exact I1|].
  destruct (live L1 (v_hash v)) eqn:El1; intros H; inversion H; subst; [exact I1|].
  destruct (dedup_adj_spec (v_left v) (v_right v)) as [Hnd Hin].
  apply InvG_insert; auto.
  - apply live_false. exact El1.
  - apply orb_false_iff in Ex. destruct Ex as [_ Ex]. unfold stored in *. rewrite Hst. exact Ex.
  - intros p Hp. apply Hlv. apply Hin. exact Hp.
Qed.

Lemma add_leaf_invG L v b L' r : InvG L -> v_hash v <> 0%N -> add_leaf L v b = (L', r) -> InvG L'.
Proof.
  intros I Hvz. unfold add_leaf.
  destruct (loaded L); cbn [negb]; [|intros H; inversion H; subst; exact I].
  destruct (N.eqb _ (v_signer v)); [intros H; inversion H; subst; exact I|].
  destruct (is_empty_trx _); [intros H; inversion H; subst; exact I|].
  destruct (canonb _); cbn [negb]; [|intros H; inversion H; subst; exact I].
  apply add_leaf_mem_invG; assumption.
Qed.

Lemma retry_one_invG L b L' r : InvG L -> retry_one L b = (L', r) -> InvG L'.
Proof.
  intros I. unfold retry_one. destruct (parked L) as [|[v rep] rest] eqn:Ep; [intros H; inversion H; subst; exact I|].
  destruct (add_leaf_mem (set_parked L rest) v rep b) as [L1 r1] eqn:Ea. intros H; inversion H; subst.
  eapply add_leaf_mem_invG; [| |exact Ea].
  - destruct I as [A B C D E F G]. constructor; auto. cbn. intros u r0 Hin. eapply G. rewrite Ep. right. exact Hin.
  - eapply (g_parked _ I). rewrite Ep. left. reflexivity.
Qed.

Lemma create_leaf_invG L t o1 o2 newh vok b L' r ov :
  InvG L -> newh <> 0%N -> ~ In newh (map v_hash (st_vtx L)) ->
  create_leaf L t o1 o2 newh vok b = (L', r, ov) -> InvG L'.
Proof.
  intros I Hnz Hns. unfold create_leaf.
  destruct (loaded L); cbn [negb]; [|intros H; inversion H; subst; exact I].
  destruct (is_empty_trx t); [intros H; inversion H; subst; exact I|].
  destruct (canonb _); cbn [negb]; [|intros H; inversion H; subst; exact I].
  destruct (N.eqb _ (self L)); [intros H; inversion H; subst; exact I|].
  destruct (N.eqb _ (genesis L)); [intros H; inversion H; subst; exact I|].
  destruct (_ && _); [intros H; inversion H; subst; exact I|].
  destruct (has_trx L _); [intros H; inversion H; subst; exact I|].
  assert (Fin : forall L2 l r0 L3 r3 ov3, InvG L2 -> st_vtx L2 = st_vtx L ->
    In l (dag L2) -> In r0 (dag L2) ->
    (let v := Vtx newh (nhash l) (nhash r0) (wrap (Z.max (v_weight (nv l)) (v_weight (nv r0)) + 1)) (self L) vok t in
      if has_trx L2 (t_hash t) then (L2, RRejected, None) else
      if live L2 newh then (L2, RRejected, None) else
      (insert L2 v (dedup2 (nhash l) (nhash r0)), ROk, Some v)) = (L3, r3, ov3) -> InvG L3).
  { intros L2 l r0 L3 r3 ov3 I2 Hst Hl Hr. cbn zeta.
    destruct (has_trx L2 _); [intros H; inversion H; subst; exact I2|].
    destruct (live L2 newh) eqn:El2; intros H; inversion H; subst; [exact I2|].
    destruct (dedup2_spec (nhash l) (nhash r0)) as [Hnd Hin].
    apply InvG_insert; auto.
    - apply live_false. exact El2.
    - apply stored_false. cbn. rewrite Hst. exact Hns.
    - intros p Hp. apply Hin in Hp. apply live_iff. destruct Hp as [Hp|[Hp|[]]]; subst p; apply in_map; assumption. }
  destruct (valid_leaves L o1 [] false b) as [[[L1 acc] e1] b1] eqn:Ev1.
  pose proof (valid_leaves_invG _ _ _ _ _ _ _ _ _ I Ev1) as I1.
  pose proof (valid_leaves_acc _ _ _ _ _ _ _ _ _ (fun m (F : In m []) => match F with end) Ev1) as Hacc1.
  destruct (valid_leaves_st _ _ _ _ _ _ _ _ _ Ev1) as [Hst1 _].
  destruct e1; [intros H; inversion H; subst; exact I1|].
  destruct acc as [|l [|r0 rest]].
  - destruct (valid_leaves L1 o2 [] false b1) as [[[L2 acc2] e2] b2] eqn:Ev2.
    pose proof (valid_leaves_invG _ _ _ _ _ _ _ _ _ I1 Ev2) as I2.
    pose proof (valid_leaves_acc _ _ _ _ _ _ _ _ _ (fun m (F : In m []) => match F with end) Ev2) as Hacc2.
    destruct (valid_leaves_st _ _ _ _ _ _ _ _ _ Ev2) as [Hst2 _].
    destruct e2, acc2 as [|l [|r0 rest]]; intros H; try (inversion H; subst; exact I2).
    + eapply Fin; [exact I2|congruence| | |exact H]; apply Hacc2; cbn; auto.
    + eapply Fin; [exact I2|congruence| | |exact H]; apply Hacc2; cbn; auto.
  - intros H. eapply Fin; [exact I1|congruence| | |exact H]; apply Hacc1; cbn; auto.
  - intros H. eapply Fin; [exact I1|congruence| | |exact H]; apply Hacc1; cbn; auto.
Qed.

Lemma create_genesis_invG L recv amt data th h vok L' r :
  dag L = [] -> st_vtx L = [] -> parked L = [] -> h <> 0%N ->
  create_genesis L recv amt data th h vok = (L', r) -> InvG L'.
Proof.
  intros Hd Hs Hpk Hnz. unfold create_genesis.
  assert (I0 : InvG L).
  { constructor; rewrite ?Hd, ?Hs, ?Hpk; cbn; try tauto; intros; contradiction. }
  destruct (N.eqb recv (self L)); [intros H; inversion H; subst; exact I0|].
  destruct (canonb amt); cbn [negb]; [|intros H; inversion H; subst; exact I0].
  destruct (has_trx L th); [intros H; inversion H; subst; exact I0|].
  unfold live. cbn [dag set_index]. rewrite Hd. cbn [find_node find].
  intros H; inversion H; subst. clear H.
  assert (Hl : forall p, live (set_gen (bump (set_wt (set_dag (set_index L ((th, h) :: index L)) [Node (genesis_vertex L recv amt data th h vok) []])
                   (weight L) initialThroughput) initialThroughput) (self L) true) p = (N.eqb h p)).
  { intros p. unfold live, find_node. cbn. unfold nhash. cbn. destruct (N.eqb h p); reflexivity. }
  constructor.
  - cbn. intros n [En|[]] p Hp. subst n. cbn in Hp. contradiction.
  - cbn [dag set_gen bump set_wt set_dag]. intros n [En|[]] p Hp Hlp. subst n. rewrite Hl in Hlp. apply N.eqb_eq in Hlp.
    cbn in Hp. destruct Hp as [Hp|[Hp|[]]]; congruence.
  - cbn [dag set_gen bump set_wt set_dag]. intros n [En|[]] p Hp Hlp. subst n. right. cbn. auto.
  - cbn. intros n [En|[]]. subst n. constructor.
  - cbn. split; [intros p []|exact I].
  - cbn. rewrite Hs. cbn. split; [|tauto]. unfold nhash. cbn. intros [H0|[]]. congruence.
  - cbn. rewrite Hpk. intros v r0 [].
Qed.
