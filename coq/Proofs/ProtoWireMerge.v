(* Proofs/ProtoWireMerge.v — the record grammar is closed under concatenation: the concatenation of two parsable byte strings parses
   to the concatenation of their records.  This is what justifies modelling "every occurrence of an embedded message is unmarshalled
   into the same struct" (protobuf's merge) as "decode the concatenation of the occurrences" in Model/ProtoWire.v (dec_sub). *)
From Coq Require Import List Arith NArith ZArith Lia Bool.
From Verif Require Import WalletFile Msg Codec Msgpack.
From Verif Require Import ProtoWire ProtoWireP.
Import ListNotations.
Local Open Scope N_scope.

Lemma dec_varint_f_app fuel : forall l v r b, dec_varint_f fuel l = Some (v, r) -> dec_varint_f fuel (l ++ b) = Some (v, r ++ b).
Proof.
  induction fuel as [|f IH]; intros l v r b H; [discriminate|].
  destruct l as [|x l]; [discriminate|]. cbn [dec_varint_f app] in *.
  destruct (x <? 128).
  - injection H as <- <-. reflexivity.
  - destruct (dec_varint_f f l) as [[v' r']|] eqn:E; [|discriminate]. injection H as <- <-. rewrite (IH _ _ _ b E). reflexivity.
Qed.
Lemma dec_varint_app l v r b : dec_varint l = Some (v, r) -> dec_varint (l ++ b) = Some (v, r ++ b).
Proof.
  unfold dec_varint. intros H. destruct (dec_varint_f 10 l) as [[v' r']|] eqn:E; [|discriminate].
  rewrite (dec_varint_f_app _ _ _ _ b E). destruct (v' <? N64); [|discriminate]. injection H as <- <-. reflexivity.
Qed.

Lemma parse_step_mono (rec1 rec2 : bytes -> option (list wfield)) l fs :
  (forall x y, rec1 x = Some y -> rec2 x = Some y) -> parse_step rec1 l = Some fs -> parse_step rec2 l = Some fs.
Proof.
  intros M. unfold parse_step. destruct (dec_varint l) as [[tag r]|]; [|discriminate].
  destruct ((tag / 8 =? 0) || (max_field_number <? tag / 8)); [discriminate|].
  destruct (tag mod 8 =? 0).
  { destruct (dec_varint r) as [[v r']|]; [|discriminate]. destruct (rec1 r') as [y|] eqn:E; [|discriminate]. rewrite (M _ _ E). exact (fun H => H). }
  destruct (tag mod 8 =? 2).
  { destruct (dec_varint r) as [[n r']|]; [|discriminate]. destruct (n <=? nlen r'); [|discriminate].
    destruct (rec1 (skipn (N.to_nat n) r')) as [y|] eqn:E; [|discriminate]. rewrite (M _ _ E). exact (fun H => H). }
  destruct (tag mod 8 =? 1).
  { destruct (8 <=? nlen r); [|discriminate]. destruct (rec1 (skipn 8 r)) as [y|] eqn:E; [|discriminate]. rewrite (M _ _ E). exact (fun H => H). }
  destruct (tag mod 8 =? 5); [|discriminate].
  destruct (4 <=? nlen r); [|discriminate]. destruct (rec1 (skipn 4 r)) as [y|] eqn:E; [|discriminate]. rewrite (M _ _ E). exact (fun H => H).
Qed.

Lemma parse_mono fuel : forall l fs k, parse fuel l = Some fs -> parse (fuel + k) l = Some fs.
Proof.
  induction fuel as [|f IH]; intros l fs k H; [discriminate|].
  cbn [Nat.add parse] in *. destruct l as [|x l]; [exact H|].
  eapply parse_step_mono; [|exact H]. intros y z E. apply IH. exact E.
Qed.

Lemma firstn_app_le (n : nat) (a b : bytes) : (n <= List.length a)%nat -> firstn n (a ++ b) = firstn n a.
Proof. intros H. rewrite firstn_app. replace (n - List.length a)%nat with 0%nat by lia. cbn [firstn]. apply app_nil_r. Qed.
Lemma skipn_app_le (n : nat) (a b : bytes) : (n <= List.length a)%nat -> skipn n (a ++ b) = skipn n a ++ b.
Proof. intros H. rewrite skipn_app. replace (n - List.length a)%nat with 0%nat by lia. reflexivity. Qed.

Lemma parse_step_app (rec1 rec2 : bytes -> option (list wfield)) l b fs fb :
  (forall x y, rec1 x = Some y -> rec2 (x ++ b) = Some (y ++ fb)) -> parse_step rec1 l = Some fs -> parse_step rec2 (l ++ b) = Some (fs ++ fb).
Proof.
  intros M. unfold parse_step. destruct (dec_varint l) as [[tag r]|] eqn:D; [|discriminate]. rewrite (dec_varint_app _ _ _ b D).
  destruct ((tag / 8 =? 0) || (max_field_number <? tag / 8)); [discriminate|].
  destruct (tag mod 8 =? 0).
  { destruct (dec_varint r) as [[v r']|] eqn:D2; [|discriminate]. rewrite (dec_varint_app _ _ _ b D2).
    destruct (rec1 r') as [y|] eqn:E; [|discriminate]. rewrite (M _ _ E). cbn [option_map]. intros H; injection H as <-. reflexivity. }
  destruct (tag mod 8 =? 2).
  { destruct (dec_varint r) as [[n r']|] eqn:D2; [|discriminate]. rewrite (dec_varint_app _ _ _ b D2).
    destruct (N.leb_spec n (nlen r')) as [L|L]; [|discriminate].
    assert (Ln : (N.to_nat n <= List.length r')%nat) by (unfold nlen in L; lia).
    destruct (N.leb_spec n (nlen (r' ++ b))) as [L2|L2]; [|unfold nlen in *; rewrite app_length in L2; lia].
    rewrite firstn_app_le, skipn_app_le by exact Ln.
    destruct (rec1 (skipn (N.to_nat n) r')) as [y|] eqn:E; [|discriminate]. rewrite (M _ _ E). cbn [option_map]. intros H; injection H as <-. reflexivity. }
  destruct (tag mod 8 =? 1).
  { destruct (N.leb_spec 8 (nlen r)) as [L|L]; [|discriminate].
    assert (Ln : (8 <= List.length r)%nat) by (unfold nlen in L; lia).
    destruct (N.leb_spec 8 (nlen (r ++ b))) as [L2|L2]; [|unfold nlen in *; rewrite app_length in L2; lia].
    rewrite skipn_app_le by exact Ln.
    destruct (rec1 (skipn 8 r)) as [y|] eqn:E; [|discriminate]. rewrite (M _ _ E). cbn [option_map]. intros H; injection H as <-. reflexivity. }
  destruct (tag mod 8 =? 5); [|discriminate].
  destruct (N.leb_spec 4 (nlen r)) as [L|L]; [|discriminate].
  assert (Ln : (4 <= List.length r)%nat) by (unfold nlen in L; lia).
  destruct (N.leb_spec 4 (nlen (r ++ b))) as [L2|L2]; [|unfold nlen in *; rewrite app_length in L2; lia].
  rewrite skipn_app_le by exact Ln.
  destruct (rec1 (skipn 4 r)) as [y|] eqn:E; [|discriminate]. rewrite (M _ _ E). cbn [option_map]. intros H; injection H as <-. reflexivity.
Qed.

Lemma parse_app fuel : forall a fa b fb fuel2, parse fuel a = Some fa -> parse (S fuel2) b = Some fb ->
  parse (fuel + fuel2) (a ++ b) = Some (fa ++ fb).
Proof.
  induction fuel as [|f IH]; intros a fa b fb fuel2 Ha Hb; [discriminate|].
  destruct a as [|x a].
  - cbn [parse] in Ha. injection Ha as <-. cbn [app]. replace (S f + fuel2)%nat with (S fuel2 + f)%nat by lia. apply parse_mono. exact Hb.
  - cbn [Nat.add parse app] in *. change (x :: a ++ b) with ((x :: a) ++ b).
    eapply parse_step_app; [|exact Ha]. intros y z E. apply IH; assumption.
Qed.

(* whole inputs: two parsable byte strings, concatenated, parse to the concatenation of their records *)
Theorem parse_all_app a b fa fb : parse_all a = Some fa -> parse_all b = Some fb -> parse_all (a ++ b) = Some (fa ++ fb).
Proof.
  unfold parse_all. intros Ha Hb.
  replace (S (List.length (a ++ b))) with (S (List.length a) + List.length b)%nat by (rewrite app_length; lia).
  apply parse_app; assumption.
Qed.

(* hence for Spice, the one embedded message whose decoder is a pure look-up: reading the two occurrences one after the other into
   the same struct (later scalars win) is reading their concatenation *)
Corollary spice_merge_is_concat a b fa fb : parse_all a = Some fa -> parse_all b = Some fb ->
  dec_pspice (a ++ b) = Some (PSpice (geti 1 fb (geti 1 fa 0)) (geti 2 fb (geti 2 fa 0))).
Proof.
  intros Ha Hb. unfold dec_pspice. rewrite (parse_all_app _ _ _ _ Ha Hb), !geti_app. reflexivity.
Qed.
