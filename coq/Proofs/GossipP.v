(* Proofs/GossipP.v — C11 / C12 on the gossip model: for EVERY peer relation (any number of nodes),
   every origin and every schedule of deliveries and duplications. *)
From Coq Require Import List Arith NArith Bool Lia.
From Verif Require Import Gossip.
Import ListNotations.

Lemma gmem_In x l : gmem x l = true <-> In x l.
Proof.
  unfold gmem. rewrite existsb_exists. split.
  - intros [y [Hy E]]. apply N.eqb_eq in E. subst. exact Hy.
  - intros H. exists x. split; [exact H|apply N.eqb_refl].
Qed.
Lemma gmem_false x l : gmem x l = false <-> ~ In x l.
Proof. rewrite <- gmem_In. destruct (gmem x l); split; congruence. Qed.

Lemma remove_nth_In {A} i (l : list A) x : In x (remove_nth i l) -> In x l.
Proof.
  revert i. induction l as [|y l IH]; intros i H; destruct i; cbn in *; auto.
  destruct H as [H|H]; [left; exact H|right; eapply IH; eauto].
Qed.
Lemma remove_nth_length {A} i (l : list A) x : nth_error l i = Some x -> S (length (remove_nth i l)) = length l.
Proof.
  revert i. induction l as [|y l IH]; intros i H; destruct i; cbn in *; try discriminate; [reflexivity|].
  rewrite (IH _ H). reflexivity.
Qed.
Lemma filter_length_le {A} (p : A -> bool) l : length (filter p l) <= length l.
Proof. induction l as [|x l IH]; cbn; [lia|]. destruct (p x); cbn; lia. Qed.

Lemma NoDup_snoc {A} (l : list A) n : NoDup l -> ~ In n l -> NoDup (l ++ [n]).
Proof.
  induction l as [|x l IH]; cbn; intros Hnd Hn; [repeat constructor; tauto|].
  inversion Hnd as [|? ? Hx Hl]; subst. constructor.
  - rewrite in_app_iff. intros [H|[H|[]]]; [contradiction|subst; apply Hn; left; reflexivity].
  - apply IH; [exact Hl|]. intros H. apply Hn. right. exact H.
Qed.

Section P.
  Variable peers : N -> list N.
  Variable accept : N -> bool.
  Variable o : N.

  Notation handle := (handle peers accept).
  Notation gstep := (gstep peers accept).

  Definition outsum (l : list N) : nat := fold_right (fun n acc => length (peers n) + acc) 0 l.
  Lemma outsum_app a b : outsum (a ++ b) = outsum a + outsum b.
  Proof. unfold outsum. induction a as [|x a IH]; cbn [app fold_right]; [reflexivity|rewrite IH; lia]. Qed.

  Definition valid_list (g : list (N * bool)) : Prop := forall e, In e g -> snd e = true.
  Lemma verified_valid g : valid_list g -> verified g = map fst g.
  Proof.
    intros H. unfold verified. f_equal. induction g as [|e g IH]; cbn; [reflexivity|].
    rewrite (H e (or_introl eq_refl)). f_equal. apply IH. intros x Hx. apply H. right. exact Hx.
  Qed.

  Record GI (st : gstate) : Prop := {
    gi_nodup : NoDup (processed st);
    gi_proc : forall n, In n (processed st) -> n = o \/ In n (seen st);
    gi_flight : forall d g, In (d, g) (inflight st) ->
                  In o (verified g) /\ (forall x, In x (verified g) -> In x (processed st)) /\ ~ In d (verified g);
    gi_sent : sent st <= outsum (processed st);
    gi_origin : In o (processed st)
  }.

  Lemma GI_origin : GI (origin_state peers o).
  Proof.
    constructor; cbn.
    - repeat constructor. tauto.
    - intros n [E|[]]. left. auto.
    - intros d g Hin. apply in_map_iff in Hin. destruct Hin as [p [E Hp]]. inversion E; subst. cbn.
      split; [auto|]. split; [intros x [Ex|[]]; auto|].
      unfold origin_dests in Hp. apply filter_In in Hp. destruct Hp as [_ Hp]. apply negb_true_iff, gmem_false in Hp.
      intros [Ed|[]]. apply Hp. left. auto.
    - unfold origin_dests. pose proof (filter_length_le (fun p => negb (gmem p [o])) (peers o)). lia.
    - auto.
  Qed.

  (* the handler preserves the invariant, given the invariant facts about the message being handled *)
  Lemma GI_handle st n g st' out :
    GI st -> In o (verified g) -> (forall x, In x (verified g) -> In x (processed st)) ->
    handle st n g = (st', out) -> GI st'.
  Proof.
    intros [A B C D E] Ho Hsub H. unfold Gossip.handle in H.
    destruct (gmem n (seen st)) eqn:Hs; [inversion H; subst; constructor; assumption|].
    destruct (gmem n (verified g)) eqn:Hv.
    { inversion H; subst. constructor; cbn; auto. intros x Hx. destruct (B x Hx); auto. }
    destruct (accept n); cbn [negb] in H.
    2:{ inversion H; subst. constructor; cbn; auto. intros x Hx. destruct (B x Hx); auto. }
    inversion H; subst; clear H. apply gmem_false in Hs. apply gmem_false in Hv.
    assert (Hnp : ~ In n (processed st)).
    { intros Hp. destruct (B n Hp) as [En|Hn]; [subst n; exact (Hv Ho)|exact (Hs Hn)]. }
    constructor; cbn [seen processed inflight sent].
    - apply NoDup_snoc; assumption.
    - intros x Hx. apply in_app_or in Hx. destruct Hx as [Hx|[Hx|[]]]; [destruct (B x Hx); [left; assumption|right; right; assumption]|subst; right; left; reflexivity].
    - intros d g0 Hin. apply in_app_or in Hin. destruct Hin as [Hin|Hin].
      + destruct (C d g0 Hin) as [C1 [C2 C3]]. split; [exact C1|]. split; [|exact C3].
        intros x Hx. apply in_or_app. left. apply C2. exact Hx.
      + apply in_map_iff in Hin. destruct Hin as [p [Ep Hp]]. inversion Ep; subst d g0. clear Ep.
        apply filter_In in Hp. destruct Hp as [_ Hp]. apply negb_true_iff in Hp.
        assert (Hp' : ~ In p (n :: verified g)).
        { apply gmem_false. exact Hp. }
        clear Hp. rename Hp' into Hp.
        assert (Hver : verified ((n, true) :: filter snd g) = n :: verified g).
        { unfold verified. cbn. f_equal. f_equal. clear. induction g as [|[a b] g IH]; cbn; [reflexivity|].
          destruct b; cbn; [f_equal; exact IH|exact IH]. }
        rewrite Hver. split; [right; exact Ho|]. split; [|exact Hp].
        intros x [Ex|Hx]; apply in_or_app; [right; left; exact Ex|left; apply Hsub; exact Hx].
    - rewrite outsum_app. unfold outsum at 2. cbn [fold_right].
      match goal with |- context [length (filter ?f ?l)] => pose proof (filter_length_le f l) end. lia.
    - apply in_or_app. left. exact E.
  Qed.

  Lemma GI_step st s : GI st -> honest s = true -> GI (gstep st s).
  Proof.
    intros I Hh. destruct s as [i|i|n]; cbn in Hh; [| |discriminate]; cbn [Gossip.gstep].
    - destruct (nth_error (inflight st) i) as [[n g]|] eqn:En; [|exact I].
      pose proof (nth_error_In _ _ En) as Hin. destruct (gi_flight _ I _ _ Hin) as [C1 [C2 C3]].
      destruct (handle (GState (seen st) (processed st) (remove_nth i (inflight st)) (sent st)) n g) as [st' out] eqn:Eh.
      cbn. eapply GI_handle; [| | |exact Eh]; cbn; auto.
      destruct I as [A B C D E]. constructor; cbn; auto.
      intros d g0 Hd. apply C. eapply remove_nth_In; eauto.
    - destruct (nth_error (inflight st) i) as [m|] eqn:En; [|exact I].
      destruct I as [A B C D E]. constructor; cbn; auto.
      intros d g0 Hd. apply in_app_or in Hd. destruct Hd as [Hd|[Hd|[]]]; [apply C; exact Hd|].
      subst m. apply C. eapply nth_error_In; eauto.
  Qed.

  Theorem GI_run ss : forallb honest ss = true -> GI (grun peers accept o ss).
  Proof.
    unfold grun. assert (G : forall st, GI st -> forallb honest ss = true -> GI (fold_left gstep ss st)).
    { induction ss as [|s ss IH]; intros st I H; cbn [fold_left]; [exact I|]. cbn in H. apply andb_true_iff in H. destruct H as [H1 H2].
      apply IH; [apply GI_step; assumption|exact H2]. }
    intros H. apply G; [apply GI_origin|exact H].
  Qed.

  (* ---- C11: at most once; never to a listed node; bounded number of messages *)
  Theorem processed_at_most_once ss : forallb honest ss = true -> NoDup (processed (grun peers accept o ss)).
  Proof. intros H. exact (gi_nodup _ (GI_run ss H)). Qed.

  Theorem never_sent_to_listed ss d g : forallb honest ss = true ->
    In (d, g) (inflight (grun peers accept o ss)) -> ~ In d (verified g).
  Proof. intros H Hin. exact (proj2 (proj2 (gi_flight _ (GI_run ss H) d g Hin))). Qed.

  Theorem messages_bounded ss nodes : forallb honest ss = true -> NoDup nodes ->
    (forall n, In n (processed (grun peers accept o ss)) -> In n nodes) ->
    sent (grun peers accept o ss) <= outsum nodes.
  Proof.
    intros H Hnd Hsub. pose proof (GI_run ss H) as I. eapply Nat.le_trans; [exact (gi_sent _ I)|].
    (* a duplicate-free sublist sums to at most the whole *)
    pose proof (gi_nodup _ I) as Hp. revert Hp Hsub. generalize (processed (grun peers accept o ss)). intros l. revert nodes Hnd.
    induction l as [|x l IH]; intros nodes Hnd Hp Hsub; cbn; [lia|].
    inversion Hp as [|? ? Hx Hl]; subst.
    assert (Hin : In x nodes) by (apply Hsub; left; reflexivity).
    apply in_split in Hin. destruct Hin as [n1 [n2 En]]. subst nodes.
    rewrite outsum_app.
    assert (IHl : outsum l <= outsum (n1 ++ n2)).
    { apply IH; [eapply NoDup_remove_1; eauto|exact Hl|].
      intros y Hy. assert (Hy2 : In y (n1 ++ x :: n2)) by (apply Hsub; right; exact Hy).
      apply in_app_or in Hy2. apply in_or_app. destruct Hy2 as [Hy2|[Hy2|Hy2]]; [left; exact Hy2|subst; contradiction|right; exact Hy2]. }
    rewrite outsum_app in IHl. unfold outsum in *. cbn [fold_right] in *. lia.
  Qed.

  (* a node forwards only when its own check accepted the item *)
  Theorem forwards_only_after_accept st n g st' dests : handle st n g = (st', (false, dests)) -> dests = [] /\ inflight st' = inflight st.
  Proof.
    unfold Gossip.handle. destruct (gmem n (seen st)); [intros H; inversion H; auto|].
    destruct (gmem n (verified g)); [intros H; inversion H; auto|].
    destruct (accept n); cbn [negb]; intros H; inversion H; auto.
  Qed.
  Theorem rejected_item_not_forwarded st n g : accept n = false -> snd (handle st n g) = (false, []).
  Proof.
    intros Ha. unfold Gossip.handle. destruct (gmem n (seen st)); [reflexivity|].
    destruct (gmem n (verified g)); [reflexivity|]. rewrite Ha. reflexivity.
  Qed.
End P.

(* ---------------------------------------------------------------- reaches every node (every node accepts) *)
Section Reach.
  Variable peers : N -> list N.
  Variable o : N.
  Let accept := fun _ : N => true.
  Notation handle := (handle peers accept).
  Notation gstep := (gstep peers accept).

  Inductive reachable : N -> Prop :=
    | reach_origin : reachable o
    | reach_peer : forall u v, reachable u -> In v (peers u) -> reachable v.

  Record RI (st : gstate) : Prop := {
    ri_seen : forall n, In n (seen st) -> In n (processed st);
    ri_edge : forall u v, In u (processed st) -> In v (peers u) ->
              In v (processed st) \/ exists g, In (v, g) (inflight st)
  }.

  Lemma RI_origin : RI (origin_state peers o).
  Proof.
    constructor; cbn; [tauto|]. intros u v [Eu|[]] Hv. subst u.
    destruct (N.eq_dec v o) as [E|E]; [left; left; auto|right].
    exists [(o, true)]. apply in_map_iff. exists v. split; [reflexivity|]. unfold origin_dests. apply filter_In. split; [exact Hv|].
    apply negb_true_iff, gmem_false. intros [X|[]]. congruence.
  Qed.

  Lemma remove_nth_other {A} i (l : list A) x y : nth_error l i = Some y -> In x l -> x <> y -> In x (remove_nth i l).
  Proof.
    revert i. induction l as [|z l IH]; intros i Hn Hin Hne; [destruct Hin|].
    destruct i; cbn in *.
    - inversion Hn; subst. destruct Hin as [E|Hin]; [congruence|exact Hin].
    - destruct Hin as [E|Hin]; [left; exact E|right; eapply IH; eauto].
  Qed.

  Lemma RI_step st s : GI peers o st -> RI st -> honest s = true -> RI (gstep st s).
  Proof.
    intros G [S R] Hh. destruct s as [i|i|n]; cbn in Hh; [| |discriminate]; cbn [Gossip.gstep].
    - destruct (nth_error (inflight st) i) as [[n g]|] eqn:En; [|constructor; assumption].
      pose proof (nth_error_In _ _ En) as Hin. destruct (gi_flight _ _ _ G _ _ Hin) as [C1 [C2 C3]].
      unfold Gossip.handle. cbn [seen processed inflight sent].
      (* whatever branch is taken, n ends up processed; every other in-flight message survives *)
      assert (Hsurv : forall v g0, In (v, g0) (inflight st) -> v <> n -> In (v, g0) (remove_nth i (inflight st))).
      { intros v g0 Hv Hne. eapply remove_nth_other; eauto. intros E. inversion E. contradiction. }
      destruct (gmem n (seen st)) eqn:Hs.
      + cbn. constructor; cbn; [exact S|]. intros u v Hu Hv. destruct (R u v Hu Hv) as [Hp|[g0 Hg]]; [left; exact Hp|].
        destruct (N.eq_dec v n) as [E|E]; [left; subst; apply S; apply gmem_In; exact Hs|right; exists g0; apply Hsurv; assumption].
      + destruct (gmem n (verified g)) eqn:Hv0.
        * cbn. apply gmem_In in Hv0. constructor; cbn.
          -- intros x [Ex|Hx]; [subst; apply C2; exact Hv0|apply S; exact Hx].
          -- intros u v Hu Hv. destruct (R u v Hu Hv) as [Hp|[g0 Hg]]; [left; exact Hp|].
             destruct (N.eq_dec v n) as [E|E]; [left; subst; apply C2; exact Hv0|right; exists g0; apply Hsurv; assumption].
        * cbn. constructor; cbn.
          -- intros x [Ex|Hx]; apply in_or_app; [right; left; exact Ex|left; apply S; exact Hx].
          -- intros u v Hu Hv. apply in_app_or in Hu. destruct Hu as [Hu|[Eu|[]]].
             ++ destruct (R u v Hu Hv) as [Hp|[g0 Hg]]; [left; apply in_or_app; left; exact Hp|].
                destruct (N.eq_dec v n) as [E|E]; [left; subst; apply in_or_app; right; left; reflexivity|].
                right. exists g0. apply in_or_app. left. apply Hsurv; assumption.
             ++ subst u. destruct (gmem v (n :: verified g)) eqn:Hm.
                ** left. apply gmem_In in Hm. destruct Hm as [E|Hm]; apply in_or_app; [right; left; exact E|left; apply C2; exact Hm].
                ** right. eexists. apply in_or_app. right. apply in_map_iff. exists v. split; [reflexivity|].
                   apply filter_In. split; [exact Hv|]. apply negb_true_iff. exact Hm.
    - destruct (nth_error (inflight st) i) as [m|] eqn:En; [|constructor; assumption].
      constructor; cbn; [exact S|]. intros u v Hu Hv. destruct (R u v Hu Hv) as [Hp|[g0 Hg]]; [left; exact Hp|].
      right. exists g0. apply in_or_app. left. exact Hg.
  Qed.

  Theorem reaches_every_node ss : forallb honest ss = true ->
    inflight (grun peers accept o ss) = [] ->
    forall n, reachable n -> In n (processed (grun peers accept o ss)) /\ NoDup (processed (grun peers accept o ss)).
  Proof.
    intros Hh Hq.
    assert (G : forall st, GI peers o st -> RI st -> forall ss, forallb honest ss = true ->
                GI peers o (fold_left gstep ss st) /\ RI (fold_left gstep ss st)).
    { intros st Gi Ri ss0. revert st Gi Ri. induction ss0 as [|s ss0 IH]; intros st Gi Ri H; cbn [fold_left]; [auto|].
      cbn in H. apply andb_true_iff in H. destruct H as [H1 H2].
      apply IH; [apply GI_step; assumption|apply RI_step; assumption|exact H2]. }
    destruct (G _ (GI_origin peers accept o) RI_origin ss Hh) as [Gi Ri]. unfold grun in *.
    intros n Hr. split; [|exact (gi_nodup _ _ _ Gi)].
    induction Hr as [|u v Hu IH Hv]; [exact (gi_origin _ _ _ Gi)|].
    destruct (ri_edge _ Ri u v IH Hv) as [Hp|[g Hg]]; [exact Hp|]. rewrite Hq in Hg. destruct Hg.
  Qed.
End Reach.

(* ---------------------------------------------------------------- C12: forged entries change nothing *)
Theorem forged_entries_ignored peers accept st n g g' :
  filter snd g = filter snd g' -> handle peers accept st n g = handle peers accept st n g'.
Proof. intros E. unfold handle, verified. rewrite E. reflexivity. Qed.

Corollary invalid_entries_ignored peers accept st n g forged :
  (forall e, In e forged -> snd e = false) -> handle peers accept st n (g ++ forged) = handle peers accept st n g.
Proof.
  intros H. apply forged_entries_ignored. rewrite filter_app.
  assert (E : filter snd forged = []).
  { induction forged as [|e f IH]; [reflexivity|]. cbn. rewrite (H e (or_introl eq_refl)). apply IH. intros x Hx. apply H. right. exact Hx. }
  rewrite E, app_nil_r. reflexivity.
Qed.

(* listing a node without its valid signature neither makes it skip processing nor stops others forwarding to it *)
Corollary listing_without_signature_is_void peers accept st n g victim :
  handle peers accept st n (g ++ [(victim, false)]) = handle peers accept st n g.
Proof. apply invalid_entries_ignored. intros e [E|[]]. subst. reflexivity. Qed.

(* ---------------------------------------------------------------- the flash memory is marked before verification (known finding) *)
Definition px_peers (n : N) : list N :=
  match n with 1%N => [2%N; 3%N] | 2%N => [4%N] | 3%N => [4%N] | _ => [] end.
(* node 3 is Byzantine: it hands node 4 a corrupted copy first; the genuine copies from 2 and 3 are then dropped *)
Definition px_schedule : list sched := [Corrupt 4; Deliver 0; Deliver 0; Deliver 0; Deliver 0].
Lemma flash_poisoning :
  inflight (grun px_peers (fun _ => true) 1 px_schedule) = [] /\
  processed (grun px_peers (fun _ => true) 1 px_schedule) = [1%N; 2%N; 3%N] /\
  In 4%N (px_peers 2).
Proof. repeat split; try reflexivity. cbn. auto. Qed.

(* ---------------------------------------------------------------- termination: a ranking function *)
Section Term.
  Variable peers : N -> list N.
  Variable accept : N -> bool.
  Variable o : N.
  Variable nodes : list N.
  Hypothesis Hnd : NoDup nodes.
  Hypothesis Ho : In o nodes.
  Hypothesis Hclosed : forall n, In n nodes -> forall p, In p (peers n) -> In p nodes.
  Notation gstep := (gstep peers accept).

  Definition unproc_in (l : list N) (pr : list N) : nat :=
    fold_right (fun n acc => if gmem n pr then acc else length (peers n) + 1 + acc) 0 l.
  Definition rank (st : gstate) : nat := length (inflight st) + unproc_in nodes (processed st).

  Lemma gmem_snoc_other x pr n : x <> n -> gmem x (pr ++ [n]) = gmem x pr.
  Proof.
    intros Hne. unfold gmem. rewrite existsb_app. cbn. destruct (N.eqb_spec x n); [contradiction|]. rewrite !orb_false_r. reflexivity.
  Qed.
  Lemma unproc_add l pr n : ~ In n l -> unproc_in l (pr ++ [n]) = unproc_in l pr.
  Proof.
    unfold unproc_in. induction l as [|x l IH]; intros Hn; cbn [fold_right]; [reflexivity|].
    rewrite gmem_snoc_other by (intros E; apply Hn; left; exact E).
    rewrite IH by (intros H; apply Hn; right; exact H). reflexivity.
  Qed.
  Lemma unproc_process l pr n : NoDup l -> In n l -> ~ In n pr ->
    unproc_in l (pr ++ [n]) + (length (peers n) + 1) = unproc_in l pr.
  Proof.
    induction l as [|x l IH]; intros Hl Hin Hp; [destruct Hin|]. inversion Hl as [|? ? Hx Hl']; subst.
    unfold unproc_in in *. cbn [fold_right].
    destruct Hin as [E|Hin].
    - subst x. pose proof (unproc_add l pr n Hx) as Ua. unfold unproc_in in Ua. rewrite Ua.
      assert (E1 : gmem n (pr ++ [n]) = true) by (apply gmem_In; apply in_or_app; right; left; reflexivity).
      assert (E2 : gmem n pr = false) by (apply gmem_false; exact Hp). rewrite E1, E2. lia.
    - assert (Hne : x <> n) by (intros E; subst; contradiction).
      rewrite gmem_snoc_other by exact Hne. specialize (IH Hl' Hin Hp). destruct (gmem x pr); lia.
  Qed.

  Definition dests_in_nodes (st : gstate) : Prop := forall d g, In (d, g) (inflight st) -> In d nodes.

  Definition is_dup (s : sched) : nat := match s with Dup _ => 1 | _ => 0 end.
  Definition is_delivery (st : gstate) (s : sched) : nat :=
    match s with Deliver i => match nth_error (inflight st) i with Some _ => 1 | None => 0 end | _ => 0 end.

  Lemma rank_step st s : GI peers o st -> dests_in_nodes st -> honest s = true ->
    dests_in_nodes (gstep st s) /\ rank (gstep st s) + is_delivery st s <= rank st + is_dup s.
  Proof.
    intros G Hd Hh. destruct s as [i|i|n]; cbn in Hh; [| |discriminate]; cbn [Gossip.gstep is_delivery is_dup].
    - destruct (nth_error (inflight st) i) as [[n g]|] eqn:En; [|split; [exact Hd|lia]].
      pose proof (nth_error_In _ _ En) as Hin. pose proof (Hd _ _ Hin) as Hn.
      destruct (gi_flight _ _ _ G _ _ Hin) as [C1 [C2 C3]].
      pose proof (remove_nth_length _ _ _ En) as Hlen.
      assert (Hd' : forall d g0, In (d, g0) (remove_nth i (inflight st)) -> In d nodes) by (intros d g0 H; eapply Hd; eapply remove_nth_In; eauto).
      unfold Gossip.handle, rank. cbn [seen processed inflight sent].
      destruct (gmem n (seen st)) eqn:Hs; [cbn; split; [exact Hd'|lia]|].
      destruct (gmem n (verified g)) eqn:Hv; [cbn; split; [exact Hd'|lia]|].
      destruct (accept n); cbn [negb]; [|cbn; split; [exact Hd'|lia]].
      cbn [fst inflight processed]. split.
      + intros d g0 H. apply in_app_or in H. destruct H as [H|H]; [eapply Hd'; eauto|].
        apply in_map_iff in H. destruct H as [p [E Hp]]. inversion E; subst. apply filter_In in Hp. eapply Hclosed; [exact Hn|tauto].
      + assert (Hnp : ~ In n (processed st)).
        { intros Hp. apply gmem_false in Hv. apply gmem_false in Hs.
          destruct (gi_proc _ _ _ G n Hp) as [E|Hs']; [subst; contradiction|contradiction]. }
        rewrite app_length, map_length.
        pose proof (unproc_process nodes (processed st) n Hnd Hn Hnp) as U.
        match goal with |- context [length (filter ?f ?l)] => pose proof (filter_length_le f l) end. lia.
    - destruct (nth_error (inflight st) i) as [m|] eqn:En; [|split; [exact Hd|lia]].
      unfold rank. cbn. split.
      + intros d g H. apply in_app_or in H. destruct H as [H|[H|[]]]; [eapply Hd; eauto|subst; eapply Hd; eapply nth_error_In; eauto].
      + rewrite app_length. cbn. lia.
  Qed.

  (* over a whole honest schedule: effective deliveries are bounded by the initial rank plus the duplications *)
  Fixpoint deliveries (st : gstate) (ss : list sched) : nat :=
    match ss with [] => 0 | s :: r => is_delivery st s + deliveries (gstep st s) r end.
  Definition dups (ss : list sched) : nat := fold_right (fun s acc => is_dup s + acc) 0 ss.

  Lemma deliveries_bounded_from st ss : GI peers o st -> dests_in_nodes st -> forallb honest ss = true ->
    deliveries st ss + rank (fold_left gstep ss st) <= rank st + dups ss.
  Proof.
    revert st. induction ss as [|s ss IH]; intros st G Hd Hh; cbn [deliveries fold_left]; [unfold dups; cbn; lia|].
    cbn in Hh. apply andb_true_iff in Hh. destruct Hh as [H1 H2].
    destruct (rank_step st s G Hd H1) as [Hd' Hr].
    specialize (IH (gstep st s) (GI_step peers accept o st s G H1) Hd' H2). unfold dups in *. cbn [fold_right] in *. lia.
  Qed.

  Theorem deliveries_bounded ss : forallb honest ss = true ->
    deliveries (origin_state peers o) ss <= rank (origin_state peers o) + dups ss.
  Proof.
    intros Hh. pose proof (deliveries_bounded_from (origin_state peers o) ss (GI_origin peers accept o)) as B.
    assert (Hd : dests_in_nodes (origin_state peers o)).
    { intros d g Hin. cbn in Hin. apply in_map_iff in Hin. destruct Hin as [p [E Hp]]. inversion E; subst.
      unfold origin_dests in Hp. apply filter_In in Hp. eapply Hclosed; [exact Ho|tauto]. }
    specialize (B Hd Hh). lia.
  Qed.
End Term.
