(* Proofs/SpiceP.v — exactness of the modelled spice arithmetic on canonical operands. *)
From Verif Require Import U64 RepoConstants Spice.

Lemma MX_val : MX = 1000000000000000000. Proof. reflexivity. Qed.
Lemma MX_lt_W : MX < W. Proof. reflexivity. Qed.

Ltac unf := unfold canon, valZ, LIMIT, MX, MaxAmountPerSupplementaryCurrency, W, MAXU in *.
Ltac bdestr :=
  repeat match goal with
  | |- context [ ?a <? ?b ]  => destruct (Z.ltb_spec a b)
  | |- context [ ?a <=? ?b ] => destruct (Z.leb_spec a b)
  | |- context [ ?a =? ?b ]  => destruct (Z.eqb_spec a b)
  end.
Ltac wsolve := unfold wrap, W, MAXU in *; Z.div_mod_to_equations; lia.

Lemma supply_ok m a : canon m -> canon a -> valZ m + valZ a < LIMIT ->
  exists m', supply m a = (m', None) /\ canon m' /\ valZ m' = valZ m + valZ a.
Proof.
  destruct m as [mc ms], a as [ac as_]. unfold canon; cbn [cur sup]. intros [Hmc Hms] [Hac Has] Hlt.
  unfold valZ, LIMIT in Hlt; cbn [cur sup] in Hlt.
  assert (Hs: mc + ac < W \/ False) by (left; unfold MX, MaxAmountPerSupplementaryCurrency, W in *; nia).
  destruct Hs as [Hs|[]].
  unfold supply; cbn [cur sup].
  assert (E1: wrap (mc + ac) = mc + ac) by (apply wrap_small; lia). rewrite E1.
  assert (E2: wrap (MX - as_) = MX - as_) by (apply wrap_small; unfold MX, MaxAmountPerSupplementaryCurrency, W in *; lia). rewrite E2.
  assert (E3: wrap (ms + as_) = ms + as_) by (apply wrap_small; unfold MX, MaxAmountPerSupplementaryCurrency, W in *; lia). rewrite E3.
  destruct (Z.ltb_spec (MAXU - ac) mc) as [H1|H1]; [unfold MAXU, W in *; lia|].
  destruct (Z.leb_spec (MX - as_) ms) as [H2|H2]; cbn [andb].
  - destruct (Z.eqb_spec (mc + ac) MAXU) as [H3|H3].
    + exfalso. unfold MX, MaxAmountPerSupplementaryCurrency, W, MAXU in *. nia.
    + destruct (Z.leb_spec MX (ms + as_)) as [H4|H4]; [|lia].
      eexists; split; [reflexivity|]. unfold canon, valZ; cbn [cur sup].
      rewrite (wrap_small (mc + ac + 1)) by (unfold MAXU, W in *; lia).
      rewrite (wrap_small (ms + as_ - MX)) by (unfold MX, MaxAmountPerSupplementaryCurrency, W in *; lia).
      unfold MX, MaxAmountPerSupplementaryCurrency, W, MAXU in *. repeat split; lia.
  - destruct (Z.leb_spec MX (ms + as_)) as [H4|H4]; [lia|].
    eexists; split; [reflexivity|]. unfold canon, valZ; cbn [cur sup].
    unfold MX, MaxAmountPerSupplementaryCurrency, W, MAXU in *. repeat split; lia.
Qed.

Lemma supply_overflow m a : canon m -> canon a -> LIMIT <= valZ m + valZ a ->
  supply m a = (m, Some Overflow).
Proof.
  destruct m as [mc ms], a as [ac as_]. unfold canon; cbn [cur sup]. intros [Hmc Hms] [Hac Has] Hge.
  unfold valZ, LIMIT in Hge; cbn [cur sup] in Hge.
  unfold supply; cbn [cur sup].
  destruct (Z.ltb_spec (MAXU - ac) mc) as [H1|H1]; [reflexivity|].
  assert (Hs: mc + ac < W) by (unfold MAXU, W in *; lia).
  assert (E1: wrap (mc + ac) = mc + ac) by (apply wrap_small; lia). rewrite E1.
  assert (E2: wrap (MX - as_) = MX - as_) by (apply wrap_small; unfold MX, MaxAmountPerSupplementaryCurrency, W in *; lia). rewrite E2.
  destruct (Z.leb_spec (MX - as_) ms) as [H2|H2]; cbn [andb].
  - destruct (Z.eqb_spec (mc + ac) MAXU) as [H3|H3]; [reflexivity|].
    exfalso. unfold MX, MaxAmountPerSupplementaryCurrency, W, MAXU in *. nia.
  - exfalso. unfold MX, MaxAmountPerSupplementaryCurrency, W, MAXU in *. nia.
Qed.

(* Any outcome: an error leaves the receiver unchanged. *)
Lemma supply_err_unchanged m a r e : supply m a = (r, Some e) -> r = m.
Proof.
  unfold supply. repeat match goal with |- context [if ?b then _ else _] => destruct b end;
  intros H; inversion H; reflexivity.
Qed.

Ltac kn := unfold MX, MaxAmountPerSupplementaryCurrency, W, MAXU in *.

Lemma transfer_err_unchanged a f t r e : transfer a f t = (r, Some e) -> r = (f, t).
Proof.
  unfold transfer. repeat match goal with |- context [if ?b then _ else _] => destruct b end;
  intros H; inversion H; reflexivity.
Qed.

Lemma transfer_ok a f t : canon a -> canon f -> canon t ->
  valZ a <= valZ f -> valZ t + valZ a < LIMIT ->
  exists f' t', transfer a f t = ((f', t'), None) /\ canon f' /\ canon t' /\
                valZ f' = valZ f - valZ a /\ valZ t' = valZ t + valZ a.
Proof.
  destruct a as [ac as_], f as [fc fs], t as [tc ts]. unfold canon; cbn [cur sup].
  intros [Hac Has] [Hfc Hfs] [Htc Hts] Hle Hlt.
  unfold valZ, LIMIT in *; cbn [cur sup] in *.
  assert (Hc: ac <= fc) by (kn; nia).
  assert (Ht: tc + ac < W) by (kn; nia).
  unfold transfer; cbn [cur sup].
  destruct (Z.ltb_spec fc ac) as [H0|H0]; [lia|].
  destruct (Z.ltb_spec (MAXU - ac) tc) as [H1|H1]; [kn; lia|].
  rewrite (wrap_small (tc + ac)) by lia.
  rewrite (wrap_small (fc - ac)) by lia.
  rewrite (wrap_small (MX - as_)) by (kn; lia).
  rewrite (wrap_small (ts + as_)) by (kn; lia).
  destruct (Z.leb_spec (MX - as_) ts) as [H2|H2]; cbn [andb].
  - destruct (Z.eqb_spec (tc + ac) MAXU) as [H3|H3]; [exfalso; kn; nia|].
    destruct (Z.leb_spec MX (ts + as_)) as [H4|H4]; [|lia].
    rewrite (wrap_small (tc + ac + 1)) by (kn; lia).
    rewrite (wrap_small (ts + as_ - MX)) by (kn; lia).
    destruct (Z.ltb_spec fs as_) as [H5|H5].
    + destruct (Z.eqb_spec (fc - ac) 0) as [H6|H6]; [exfalso; kn; nia|].
      rewrite (wrap_small (fc - ac - 1)) by lia.
      rewrite (wrap_small (fs + MX)) by (kn; lia).
      rewrite (wrap_small (fs + MX - as_)) by (kn; lia).
      do 2 eexists; split; [reflexivity|]. cbn [cur sup]. kn. repeat split; lia.
    + rewrite (wrap_small (fs - as_)) by (kn; lia).
      do 2 eexists; split; [reflexivity|]. cbn [cur sup]. kn. repeat split; lia.
  - destruct (Z.leb_spec MX (ts + as_)) as [H4|H4]; [lia|].
    destruct (Z.ltb_spec fs as_) as [H5|H5].
    + destruct (Z.eqb_spec (fc - ac) 0) as [H6|H6]; [exfalso; kn; nia|].
      rewrite (wrap_small (fc - ac - 1)) by lia.
      rewrite (wrap_small (fs + MX)) by (kn; lia).
      rewrite (wrap_small (fs + MX - as_)) by (kn; lia).
      do 2 eexists; split; [reflexivity|]. cbn [cur sup]. kn. repeat split; lia.
    + rewrite (wrap_small (fs - as_)) by (kn; lia).
      do 2 eexists; split; [reflexivity|]. cbn [cur sup]. kn. repeat split; lia.
Qed.

Lemma transfer_fails a f t : canon a -> canon f -> canon t ->
  (valZ f < valZ a \/ LIMIT <= valZ t + valZ a) ->
  exists e, transfer a f t = ((f, t), Some e).
Proof.
  destruct a as [ac as_], f as [fc fs], t as [tc ts]. unfold canon; cbn [cur sup].
  intros [Hac Has] [Hfc Hfs] [Htc Hts] Hbad.
  unfold valZ, LIMIT in *; cbn [cur sup] in *.
  unfold transfer; cbn [cur sup].
  destruct (Z.ltb_spec fc ac) as [H0|H0]; [eexists; reflexivity|].
  destruct (Z.ltb_spec (MAXU - ac) tc) as [H1|H1]; [eexists; reflexivity|].
  assert (Ht: tc + ac < W) by (kn; lia).
  rewrite (wrap_small (tc + ac)) by lia.
  rewrite (wrap_small (fc - ac)) by lia.
  rewrite (wrap_small (MX - as_)) by (kn; lia).
  destruct (Z.leb_spec (MX - as_) ts) as [H2|H2]; cbn [andb].
  - destruct (Z.eqb_spec (tc + ac) MAXU) as [H3|H3]; [eexists; reflexivity|].
    destruct Hbad as [Hbad|Hbad]; [|exfalso; kn; nia].
    destruct (Z.ltb_spec fs as_) as [H5|H5]; [|exfalso; kn; nia].
    destruct (Z.eqb_spec (fc - ac) 0) as [H6|H6]; [eexists; reflexivity|exfalso; kn; nia].
  - destruct Hbad as [Hbad|Hbad]; [|exfalso; kn; nia].
    destruct (Z.ltb_spec fs as_) as [H5|H5]; [|exfalso; kn; nia].
    destruct (Z.eqb_spec (fc - ac) 0) as [H6|H6]; [eexists; reflexivity|exfalso; kn; nia].
Qed.

(* New normalises exactly one carry: canonical result iff sup < 2*10^18 and no currency wrap. *)
Lemma mnew_canon c s : 0 <= c < W -> 0 <= s < 2 * MX -> c + 1 < W ->
  canon (mnew c s) /\ valZ (mnew c s) = c * MX + s.
Proof.
  intros Hc Hs Hc1. unfold mnew.
  destruct (Z.leb_spec MX s) as [H|H]; unfold canon, valZ; cbn [cur sup].
  - rewrite (wrap_small (c + 1)) by lia. rewrite (wrap_small (s - MX)) by (kn; lia). kn. repeat split; lia.
  - kn. repeat split; lia.
Qed.

(* Non-canonical operands are NOT value preserving: a witness that wrap-around creates value. *)
Lemma supply_noncanonical_refuted :
  exists m a m', u64 (cur m) /\ u64 (sup m) /\ u64 (cur a) /\ u64 (sup a) /\
    supply m a = (m', None) /\ valZ m' <> valZ m + valZ a.
Proof.
  exists (Mel 0 (W - 1)), (Mel 0 (W - 1)), (Mel 1 (W - 2 - MX)).
  repeat split; try (vm_compute; congruence).
Qed.

(* Combined statements used by Properties/C05.v *)
Lemma supply_exact m a : canon m -> canon a ->
  (valZ m + valZ a < LIMIT ->
     exists m', supply m a = (m', None) /\ canon m' /\ valZ m' = valZ m + valZ a) /\
  (LIMIT <= valZ m + valZ a -> supply m a = (m, Some Overflow)).
Proof. intros Hm Ha; split; intros H; [apply supply_ok|apply supply_overflow]; assumption. Qed.

Lemma transfer_exact a f t : canon a -> canon f -> canon t ->
  (valZ a <= valZ f -> valZ t + valZ a < LIMIT ->
     exists f' t', transfer a f t = ((f', t'), None) /\ canon f' /\ canon t' /\
                   valZ f' = valZ f - valZ a /\ valZ t' = valZ t + valZ a) /\
  ((valZ f < valZ a \/ LIMIT <= valZ t + valZ a) ->
     exists e, transfer a f t = ((f, t), Some e)).
Proof. intros Ha Hf Ht; split; [apply transfer_ok|apply transfer_fails]; assumption. Qed.

Lemma drain_exact m a sink : canon a -> canon m -> canon sink ->
  (valZ a <= valZ m -> valZ sink + valZ a < LIMIT ->
     exists m' s', drain m a sink = ((m', s'), None) /\ canon m' /\ canon s' /\
                   valZ m' = valZ m - valZ a /\ valZ s' = valZ sink + valZ a) /\
  ((valZ m < valZ a \/ LIMIT <= valZ sink + valZ a) ->
     exists e, drain m a sink = ((m, sink), Some e)).
Proof. unfold drain. apply transfer_exact. Qed.

Lemma failure_atomic :
  (forall m a r e, supply m a = (r, Some e) -> r = m) /\
  (forall a f t r e, transfer a f t = (r, Some e) -> r = (f, t)).
Proof. split; [exact supply_err_unchanged|exact transfer_err_unchanged]. Qed.

(* Non-vacuity: the premises are met at the old failing boundary, and the fixed guard rejects it. *)
Example supply_boundary_witness :
  canon (Mel MAXU 500000000000000000) /\ canon (Mel 0 500000000000000000) /\
  supply (Mel MAXU 500000000000000000) (Mel 0 500000000000000000)
    = (Mel MAXU 500000000000000000, Some Overflow).
Proof. unfold canon. cbn [cur sup]. repeat split; try (vm_compute; congruence). Qed.
Example transfer_borrow_carry_witness :
  transfer (Mel 0 1) (Mel 1 0) (Mel 0 999999999999999999) =
    ((Mel 0 999999999999999999, Mel 1 0), None).
Proof. vm_compute. reflexivity. Qed.
