(* Proofs/Conservation.v — ledger-wide conservation over any set of vertices that obey the sealing
   rules: the balances of all wallets other than the genesis issuer add up to what genesis issued. *)
From Verif Require Import U64 Spice SpiceP RepoConstants Ledger ListFacts LedgerInv LedgerGraph LedgerFunds LedgerReach.
From Coq Require Import NArith Permutation.

Definition netZ (a : N) (S : list vertex) : Z := sumZ (inZ a) S - sumZ (outZ a) S.
Definition total (ws : list N) (S : list vertex) : Z := fold_right (fun a acc => netZ a S + acc) 0 ws.
Definition issuedZ (g : N) (S : list vertex) : Z :=
  sumZ (fun v => if is_spice (v_trx v) && N.eqb (t_issuer (v_trx v)) g then amountZ v else 0) S.

(* summing an indicator over a duplicate-free address list *)
Lemma sum_indicator (ws : list N) (x : N) (c : Z) : NoDup ws ->
  fold_right (fun a acc => (if N.eqb x a then c else 0) + acc) 0 ws = if nmem x ws then c else 0.
Proof.
  induction ws as [|w ws IH]; intros Hnd; cbn; [reflexivity|]. inversion Hnd as [|? ? Hw Hnd']; subst.
  rewrite (IH Hnd'). unfold nmem. cbn. destruct (N.eqb_spec x w) as [E|E]; cbn; [|lia].
  subst. apply nmem_false in Hw. unfold nmem in Hw. rewrite Hw. lia.
Qed.

Lemma netZ_cons a v S : netZ a (v :: S) = netZ a S + (inZ a v - outZ a v).
Proof. unfold netZ, sumZ. cbn. lia. Qed.
Lemma total_cons ws v S : total ws (v :: S) = total ws S + fold_right (fun a acc => (inZ a v - outZ a v) + acc) 0 ws.
Proof.
  unfold total. induction ws as [|w ws IH]; cbn [fold_right]; [lia|]. rewrite netZ_cons, IH. lia.
Qed.

Lemma total_nil ws : total ws [] = 0.
Proof. unfold total, netZ, sumZ. induction ws as [|w ws IH]; cbn; [reflexivity|]. cbn in IH. rewrite IH. reflexivity. Qed.

Lemma fold_zero (ws : list N) : fold_right (fun (_ : N) (acc : Z) => 0 + acc) 0 ws = 0.
Proof. induction ws as [|w ws IH]; cbn [fold_right]; [reflexivity|]. rewrite IH. reflexivity. Qed.

Lemma fold_split (f g : N -> Z) ws :
  fold_right (fun a acc => (f a - g a) + acc) 0 ws = fold_right (fun a acc => f a + acc) 0 ws - fold_right (fun a acc => g a + acc) 0 ws.
Proof. induction ws as [|w ws IH]; cbn; [lia|rewrite IH; lia]. Qed.

Theorem conservation g ws S :
  NoDup ws -> ~ In g ws ->
  (forall v, In v S -> seal_ok g v) ->
  (forall v, In v S -> is_spice (v_trx v) = true ->
     In (t_receiver (v_trx v)) ws /\ (t_issuer (v_trx v) = g \/ In (t_issuer (v_trx v)) ws)) ->
  total ws S = issuedZ g S.
Proof.
  intros Hnd Hg Hseal Hws. induction S as [|v S IH]; [rewrite total_nil; reflexivity|].
  rewrite total_cons. rewrite IH; [|intros u Hu; apply Hseal; right; exact Hu|intros u Hu; apply Hws; right; exact Hu].
  unfold issuedZ, sumZ. cbn [fold_right]. fold (sumZ (fun v0 => if is_spice (v_trx v0) && (t_issuer (v_trx v0) =? g)%N then amountZ v0 else 0) S).
  rewrite fold_split.
  assert (Ein : fold_right (fun a acc => inZ a v + acc) 0 ws = if is_spice (v_trx v) && nmem (t_receiver (v_trx v)) ws then amountZ v else 0).
  { unfold inZ. destruct (is_spice (v_trx v)); cbn [andb].
    - apply (sum_indicator ws (t_receiver (v_trx v)) (amountZ v) Hnd).
    - apply fold_zero. }
  assert (Eout : fold_right (fun a acc => outZ a v + acc) 0 ws = if is_spice (v_trx v) && nmem (t_issuer (v_trx v)) ws then amountZ v else 0).
  { unfold outZ. destruct (is_spice (v_trx v)); cbn [andb].
    - apply (sum_indicator ws (t_issuer (v_trx v)) (amountZ v) Hnd).
    - apply fold_zero. }
  rewrite Ein, Eout.
  destruct (is_spice (v_trx v)) eqn:Es; cbn [andb]; [|lia].
  destruct (Hws v (or_introl eq_refl) Es) as [Hr Hi].
  apply nmem_In in Hr. rewrite Hr.
  destruct (N.eqb_spec (t_issuer (v_trx v)) g) as [Eg|Eg].
  - rewrite Eg. apply nmem_false in Hg. rewrite Hg. lia.
  - destruct Hi as [Hi|Hi]; [contradiction|]. apply nmem_In in Hi. rewrite Hi. lia.
Qed.

(* every reachable ledger: over ALL its vertices, and over any sub-collection such as the confirmed ones *)
Corollary reach_conservation me L ws S : reach me L -> NoDup ws -> ~ In (genesis L) ws ->
  (forall v, In v S -> In v (vertices L)) ->
  (forall v, In v S -> is_spice (v_trx v) = true ->
     In (t_receiver (v_trx v)) ws /\ (t_issuer (v_trx v) = genesis L \/ In (t_issuer (v_trx v)) ws)) ->
  total ws S = issuedZ (genesis L) S.
Proof.
  intros R Hnd Hg Hsub Hws. apply conservation; auto. intros v Hv. apply (reach_sealing _ _ R). apply Hsub. exact Hv.
Qed.

(* ---------------------------------------------------------------- the merge counterexample (known finding) *)
(* wallets: 1 = genesis node, 2 = genesis receiver, 3,4 = users, 5 = another node *)
Definition cx_amt := Mel 100 0.
Definition cx_ops : list lop :=
  [ LGenesis 2 cx_amt false 10 11 true;
    LAdd (Vtx 21 11 11 51 5 true (Trx 20 2 3 cx_amt false)) None;   (* 2 pays 100 to 3, built on genesis *)
    LAdd (Vtx 31 11 11 51 5 true (Trx 30 2 4 cx_amt false)) None;   (* 2 pays the same 100 to 4, also built on genesis *)
    LCreate (Trx 40 3 4 (Mel 1 0) false) [21%N; 31%N] [] 41 true None ]. (* a proposal merges both branches *)
Definition cx_ledger : ledger := fold_left lstep cx_ops (init 1).
Definition confirmed (L : ledger) : list vertex :=
  map nv (filter (fun n => has_child L (nhash n)) (dag L)) ++ st_vtx L.

Lemma merge_double_spend :
  reach 1 cx_ledger /\
  (forall v, In v (confirmed cx_ledger) -> In v (vertices cx_ledger)) /\
  length (confirmed cx_ledger) = 3%nat /\
  netZ 2 (confirmed cx_ledger) < 0.
Proof.
  split; [|split; [|split]].
  - unfold cx_ledger, cx_ops. cbn [fold_left].
    apply reach_step; [apply reach_step; [apply reach_step; [apply reach_step; [apply reach_init|]|]|]|].
    + cbn. split; [reflexivity|discriminate].
    + cbn. discriminate.
    + cbn. discriminate.
    + split; [|discriminate]. unfold fresh. vm_compute. intros H. repeat (destruct H as [H|H]; [discriminate|]). exact H.
  - vm_compute. intros v H. repeat (destruct H as [H|H]; [subst; auto 10|]). contradiction.
  - vm_compute. reflexivity.
  - vm_compute. reflexivity.
Qed.
