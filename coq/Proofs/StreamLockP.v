(* Proofs/StreamLockP.v — with the ledger read lock held by the streamer (guarded) every reachable state that is
   not final can step, and every step lowers a measure: no deadlock for any number of ancestors, any number of
   writers, any interleaving.  Without it a deadlock is reachable with two ancestors and one writer. *)
From Coq Require Import List Arith Bool Lia.
From Verif Require Import StreamLock.
Import ListNotations.

Section Guarded.
  Variable n : nat.

  Definition ginv (s : st) : Prop :=
    (cs s <> CEnd -> act s = None) /\ (cs s = CEnd -> wk s = WOff) /\ (forall i, wk s = WHold i -> i <= n).

  Lemma ginv_init ws : ginv (init ws).
  Proof. unfold ginv, init; cbn; repeat split; intros; try discriminate; try congruence. inversion H; lia. Qed.

  Lemma ginv_step s s' : ginv s -> step n true s s' -> ginv s'.
  Proof.
    intros (H1 & H2 & H3) Hs; inversion Hs; subst; unfold ginv in *; cbn in *; repeat split; intros;
      try discriminate; try congruence; try (apply H1; congruence); try (apply H2; congruence);
      try (match goal with H : WHold _ = WHold _ |- _ => inversion H; subst end; try lia; eapply H3; eauto; fail);
      try (eapply H3; eauto; fail).
    - (* writer_ledger: cs must be CEnd *)
      unfold ledger_free_for_writer in H; cbn in H. destruct c0; try discriminate. congruence.
    - specialize (H1 ltac:(congruence)); discriminate.
    - specialize (H1 ltac:(congruence)); discriminate.
  Qed.

  Lemma ginv_reach ws s : reach n true ws s -> ginv s.
  Proof. induction 1; [apply ginv_init | eapply ginv_step; eauto]. Qed.

  Theorem guarded_progress ws s : reach n true ws s -> final s \/ exists s', step n true s s'.
  Proof.
    intros Hr; destruct (ginv_reach _ _ Hr) as (H1 & H2 & H3).
    destruct s as [w0 c0 a b x d]; cbn in *.
    destruct c0.
    - (* CWait *) destruct w0 as [i|].
      + specialize (H3 i eq_refl). destruct (Nat.eq_dec i n) as [->|Hne].
        * right; eexists; apply s_walker_done.
        * right; eexists; apply s_rendezvous; lia.
      + right; eexists; apply s_range_ends.
    - (* CWantR *) right; eexists; apply s_nested_rlock. unfold no_pending_graph_writer; cbn.
      rewrite (H1 ltac:(discriminate)); reflexivity.
    - right; eexists; apply s_nested_runlock.
    - (* CEnd *) specialize (H2 eq_refl); subst w0.
      destruct x as [[| |]|].
      + right; eexists; apply s_writer_wants_graph.
      + right; eexists; apply s_writer_graph; reflexivity.
      + right; eexists; apply s_writer_done.
      + destruct a as [|a].
        * destruct b as [|b].
          -- left; unfold final; cbn; auto.
          -- right; eexists; apply s_writer_ledger; reflexivity.
        * right; eexists; apply s_writer_arrives.
  Qed.
End Guarded.

Definition measure (n : nat) (s : st) : nat :=
  match wk s with WHold i => 4 * (n - i) + 1 | WOff => 0 end
  + match cs s with CWantR => 3 | CInR => 2 | CWait => 1 | CEnd => 0 end
  + 5 * idle s + 4 * wantl s
  + match act s with Some XHasL => 3 | Some XWantG => 2 | Some XHasG => 1 | None => 0 end.

Theorem step_decreases n g s s' : step n g s s' -> measure n s' < measure n s.
Proof. intros Hs; inversion Hs; subst; unfold measure; cbn [wk cs idle wantl act]; try lia. Qed.

(* without the ledger read lock: walker holds graph R and waits for the consumer, the consumer's nested RLock
   waits behind the pending writer, the writer waits for the walker's read lock *)
Definition deadlock_state : st := St (WHold 1) CWantR 0 0 (Some XWantG) 0.
Lemma unguarded_deadlock :
  reach 2 false 1 deadlock_state /\ ~ final deadlock_state /\ forall s', ~ step 2 false deadlock_state s'.
Proof.
  split; [|split].
  - unfold deadlock_state.
    eapply reachS. eapply reachS. eapply reachS. eapply reachS. apply reach0.
    + apply s_writer_arrives.
    + apply s_writer_ledger; reflexivity.
    + apply s_writer_wants_graph.
    + apply s_rendezvous; lia.
  - unfold final, deadlock_state; cbn; intros (H & _); discriminate.
  - intros s' Hs; inversion Hs; subst; try discriminate; try lia.
    all: try (match goal with H : no_pending_graph_writer _ = true |- _ => cbn in H; discriminate end).
    all: try (match goal with H : no_graph_reader _ = true |- _ => cbn in H; discriminate end).
Qed.
