(* Proofs/CodecP.v — round trips of the transcodings. *)
From Coq Require Import List Arith NArith ZArith Lia Bool.
From Verif Require Import WalletFile Msg Codec.
Import ListNotations.
Local Open Scope Z_scope.

Ltac Zify.zify_post_hook ::= Z.div_mod_to_equations.

Lemma time_wire_roundtrip n : - P63 <= n < P63 -> time_of_wire (time_to_wire n) = n.
Proof.
  intros H. unfold time_of_wire, time_to_wire, P63, P64 in *.
  destruct (Z.ltb_spec (n mod 18446744073709551616) 9223372036854775808); lia.
Qed.

Theorem proto_roundtrip {B} (v : avtx B) :
  - P63 <= a_created v < P63 -> - P63 <= at_created v < P63 -> of_proto (to_proto v) = v.
Proof.
  intros H1 H2. destruct v. unfold of_proto, to_proto. cbn in *. rewrite !time_wire_roundtrip by assumption. reflexivity.
Qed.

(* big-endian bytes *)
Lemma be_bytes_length n : forall x, length (be_bytes n x) = n.
Proof. induction n; intros x; cbn; [reflexivity|rewrite app_length, IHn; cbn; lia]. Qed.
Lemma be_roundtrip n : forall x, 0 <= x < 256 ^ Z.of_nat n -> be_decode (be_bytes n x) = x.
Proof.
  unfold be_decode. induction n as [|n IH]; intros x Hx.
  - cbn in *. lia.
  - cbn [be_bytes]. rewrite fold_left_app. cbn [fold_left].
    rewrite Nat2Z.inj_succ, Z.pow_succ_r in Hx by lia.
    rewrite IH by (split; [apply Z.div_pos; lia|apply Z.div_lt_upper_bound; lia]).
    rewrite Z2N.id by (apply Z.mod_pos_bound; lia). lia.
Qed.

Lemma firstn_app_len {A} (a b : list A) n : length a = n -> firstn n (a ++ b) = a.
Proof. intros H. subst n. induction a; cbn; [destruct b; reflexivity|f_equal; assumption]. Qed.
Lemma skipn_app_len {A} (a b : list A) n : length a = n -> skipn n (a ++ b) = b.
Proof. intros H. subst n. induction a; cbn; [reflexivity|assumption]. Qed.

Theorem u64_roundtrip x rest : 0 <= x < P64 -> dec_u64 (enc_u64 x ++ rest) = Some (x, rest).
Proof.
  intros Hx. unfold enc_u64, dec_u64. cbn [app]. cbn [N.ltb N.eqb N.compare Pos.compare Pos.compare_cont Pos.eqb].
  assert (Hl : Nat.leb 8 (length (be_bytes 8 x ++ rest)) = true) by (apply Nat.leb_le; rewrite app_length, be_bytes_length; lia).
  rewrite Hl. rewrite firstn_app_len, skipn_app_len by apply be_bytes_length.
  rewrite (be_roundtrip 8) by (unfold P64 in Hx; cbn; lia). reflexivity.
Qed.

Lemma to_i64_wrap s : - P63 <= s < P63 -> to_i64 (s mod P64) = s.
Proof. intros H. unfold to_i64, P63, P64 in *. destruct (Z.ltb_spec (s mod 18446744073709551616) 9223372036854775808); lia. Qed.

Theorem time_roundtrip sec nsec rest : - P63 <= sec < P63 -> 0 <= nsec < 1000000000 ->
  dec_time (enc_time sec nsec ++ rest) = Some (sec, nsec).
Proof.
  intros Hs Hn. unfold enc_time, time_payload.
  destruct (Z.eqb_spec ((sec mod P64) / P34) 0) as [E1|E1].
  - assert (Hsec : 0 <= sec < P34) by (unfold P63, P64, P34 in *; lia).
    assert (Hm : sec mod P64 = sec) by (unfold P64, P34 in *; apply Z.mod_small; lia). rewrite Hm.
    destruct (Z.eqb_spec ((nsec * P34 + sec) / P32) 0) as [E2|E2].
    + assert (Hd : nsec = 0 /\ sec < P32) by (unfold P34, P32 in *; lia). destruct Hd as [Hn0 Hs32]. subst nsec.
      rewrite be_bytes_length. cbn [ext_header Nat.eqb app].
      change (dec_time (214%N :: 255%N :: be_bytes 4 (0 * P34 + sec) ++ rest)) with (dec_time_payload (firstn 4 (be_bytes 4 (0 * P34 + sec) ++ rest))).
      rewrite firstn_app_len by apply be_bytes_length. unfold dec_time_payload. rewrite be_bytes_length.
      rewrite (be_roundtrip 4) by (unfold P32, P34 in *; cbn; lia). repeat f_equal; try lia.
    + rewrite be_bytes_length. cbn [ext_header Nat.eqb app].
      change (dec_time (215%N :: 255%N :: be_bytes 8 (nsec * P34 + sec) ++ rest)) with (dec_time_payload (firstn 8 (be_bytes 8 (nsec * P34 + sec) ++ rest))).
      rewrite firstn_app_len by apply be_bytes_length. unfold dec_time_payload. rewrite be_bytes_length.
      rewrite (be_roundtrip 8) by (unfold P34 in *; cbn; lia).
      assert (A : (nsec * P34 + sec) mod P34 = sec) by (unfold P34 in *; lia).
      assert (B : (nsec * P34 + sec) / P34 = nsec) by (unfold P34 in *; lia).
      rewrite A, B. unfold to_i64. destruct (Z.ltb_spec sec P63); [reflexivity|unfold P63, P34 in *; lia].
  - rewrite app_length, !be_bytes_length. cbn [plus ext_header Nat.eqb app N.of_nat Pos.of_succ_nat Pos.succ].
    rewrite <- app_assoc.
    change (dec_time (199%N :: 12%N :: 255%N :: be_bytes 4 nsec ++ be_bytes 8 (sec mod P64) ++ rest))
      with (dec_time_payload (firstn 12 (be_bytes 4 nsec ++ be_bytes 8 (sec mod P64) ++ rest))).
    rewrite app_assoc. rewrite firstn_app_len by (rewrite app_length, !be_bytes_length; reflexivity).
    unfold dec_time_payload. rewrite app_length, !be_bytes_length. cbn [plus].
    rewrite skipn_app_len, firstn_app_len by apply be_bytes_length.
    rewrite (be_roundtrip 8) by (unfold P64; cbn; apply Z.mod_pos_bound; lia).
    rewrite (be_roundtrip 4) by (cbn; lia). rewrite to_i64_wrap by exact Hs. reflexivity.
Qed.
