(* Proofs/LoadWitness.v — a loaded node holds the peer's vertices and edges but not its admission counters
   (weight / throughput restart at their initial value), so the two can disagree on the same later vertex. *)
From Verif Require Import U64 Spice RepoConstants Ledger.
From Coq Require Import NArith List. Import ListNotations.
Open Scope Z_scope.

(* peer 1: genesis pays wallet 2; three valid vertices arrive by gossip (sealed by wallet 5): a light tip, a heavy
   vertex, and a vertex on top of the heavy one (validating the heavy tip raises the peer's weight to 10^6) *)
Definition w_src0 := fst (create_genesis (init 1%N) 2%N (Mel 1000 0) false 100%N 10%N true).
Definition w_light := Vtx 13%N 10%N 10%N 1 5%N true (Trx 103%N 2%N 3%N (Mel 1 0) false).
Definition w_big := Vtx 11%N 10%N 10%N 1000000 5%N true (Trx 101%N 2%N 3%N (Mel 1 0) false).
Definition w_top := Vtx 12%N 11%N 11%N 1000001 5%N true (Trx 104%N 2%N 3%N (Mel 1 0) false).
Definition w_src := fst (add_leaf (fst (add_leaf (fst (add_leaf w_src0 w_light None)) w_big None)) w_top None).
Definition w_stream := map nv (dag w_src).
Definition w_dst := fst (load_dag (init 9%N) w_stream w_stream).
(* the same later vertex, built on the light tip *)
Definition w_follow := Vtx 14%N 13%N 13%N 2 5%N true (Trx 105%N 2%N 3%N (Mel 1 0) false).

Lemma load_counters_not_reproduced :
  snd (load_dag (init 9%N) w_stream w_stream) = true /\
  map nv (dag w_dst) = map nv (dag w_src) /\ map lp (dag w_dst) = map lp (dag w_src) /\ genesis w_dst = genesis w_src /\
  (weight w_src, throughput w_src) = (1000000, 62) /\ (weight w_dst, throughput w_dst) = (50, 50) /\
  snd (add_leaf w_src w_follow None) = RRejected /\ snd (add_leaf w_dst w_follow None) = ROk.
Proof. vm_compute. repeat split; reflexivity. Qed.

(* ---------------------------------------------------------------- weights are uint64: max(parent weights) + 1 wraps *)
Definition ww_src := fst (create_genesis (init 1%N) 2%N (Mel 1000 0) false 100%N 10%N true).
Definition ww_big := Vtx 11%N 10%N 10%N 18446744073709551615 5%N true (Trx 101%N 2%N 3%N (Mel 1 0) false).
Definition ww_L := fst (add_leaf ww_src ww_big None).
Definition ww_t := Trx 102%N 2%N 3%N (Mel 1 0) false.
Lemma created_weight_wraps :
  snd (add_leaf ww_src ww_big None) = ROk /\
  exists L' v, create_leaf ww_L ww_t [11%N] [11%N] 12%N true None = (L', ROk, Some v) /\
               v_left v = 11%N /\ v_weight ww_big = 18446744073709551615 /\ v_weight v = 0.
Proof. split; [vm_compute; reflexivity|]. eexists. eexists. vm_compute. repeat split; reflexivity. Qed.

(* ---------------------------------------------------------------- admission depends on the order of INDEPENDENT vertices *)
(* four valid vertices on genesis 10: A (weight 10^6) and B (weight 1) on genesis, C on A, D on B.  Both delivery orders
   are parents-first; validating the heavy tip A (when C arrives) raises the node's weight, after which the light tip B
   fails the weight window when D arrives. *)
Definition o_G := fst (create_genesis (init 1%N) 2%N (Mel 1000 0) false 100%N 10%N true).
Definition o_A := Vtx 11%N 10%N 10%N 1000000 5%N true (Trx 101%N 2%N 3%N (Mel 1 0) false).
Definition o_B := Vtx 12%N 10%N 10%N 1 5%N true (Trx 102%N 2%N 3%N (Mel 1 0) false).
Definition o_C := Vtx 13%N 11%N 11%N 1000001 5%N true (Trx 103%N 2%N 3%N (Mel 1 0) false).
Definition o_D := Vtx 14%N 12%N 12%N 2 5%N true (Trx 104%N 2%N 3%N (Mel 1 0) false).
Definition deliver (L : ledger) (vs : list vertex) : ledger * list res :=
  fold_left (fun acc v => let '(L, rs) := acc in let '(L', r) := add_leaf L v None in (L', rs ++ [r])) vs (L, []).
Lemma order_of_independent_vertices_matters :
  (let '(L, rs) := deliver o_G [o_A; o_B; o_C; o_D] in (rs, map nhash (dag L))) = ([ROk; ROk; ROk; RRejected], [13; 11; 10]%N) /\
  (let '(L, rs) := deliver o_G [o_A; o_B; o_D; o_C] in (rs, map nhash (dag L))) = ([ROk; ROk; ROk; ROk], [13; 14; 12; 11; 10]%N).
Proof. vm_compute. split; reflexivity. Qed.
