(* Proofs/LoadP.v — C14: a node that loads the stream of a never-truncated peer holds exactly the peer's vertices, parent
   links, transaction index and genesis wallet.  First: a reachable ledger has at most one parentless vertex, and it is
   the genesis vertex sealed by the genesis wallet (needed for LoadDag's "second self-sealed vertex" and root rules). *)
From Verif Require Import U64 Spice SpiceP RepoConstants Ledger ListFacts LedgerInv LedgerGraph Ancestors LedgerFunds LedgerReach TruncateFunds LoadWitness.
From Coq Require Import NArith Permutation.

(* ---------------------------------------------------------------- roots of a reachable ledger *)
Definition RootsV (g : N) (vs : list vertex) : Prop :=
  (forall v, In v vs -> v_left v = 0%N -> is_genesis_vtx v /\ v_signer v = g) /\
  (forall u v, In u vs -> In v vs -> v_left u = 0%N -> v_left v = 0%N -> u = v).

Lemma RootsV_incl g vs vs' : incl vs' vs -> RootsV g vs -> RootsV g vs'.
Proof. intros Hi [A B]. split; [intros v Hv; apply A; apply Hi; exact Hv|intros u v Hu Hv; apply B; apply Hi; assumption]. Qed.
Lemma RootsV_cons g vs v : v_left v <> 0%N -> RootsV g vs -> RootsV g (v :: vs).
Proof.
  intros Hn [A B]. split.
  - intros u Hu H0. destruct Hu as [E|Hu].
    + subst u. contradiction.
    + apply A; assumption.
  - intros u w Hu Hw H0 H1. destruct Hu as [E|Hu]; destruct Hw as [E'|Hw].
    + congruence.
    + subst u. contradiction.
    + subst w. contradiction.
    + apply B; assumption.
Qed.

Lemma incl_vertices_drop_tip L n : incl (vertices (drop_tip L n)) (vertices L).
Proof. intros v Hv. apply (In_vertices_rm_tip L n). exact Hv. Qed.

Lemma valid_leaves_incl order : forall L acc e b L' acc' e' b',
  valid_leaves L order acc e b = (((L', acc'), e'), b') -> incl (vertices L') (vertices L).
Proof.
  induction order as [|h rest IH]; intros L acc e b L' acc' e' b' H; cbn [valid_leaves] in H.
  - inversion H; subst. apply incl_refl.
  - destruct (2 <=? length acc)%nat; [inversion H; subst; apply incl_refl|].
    destruct (find_node h (dag L)) as [n|]; [|eapply IH; eauto].
    destruct (_ || _); [eapply IH; eauto|].
    destruct (validate L n b) as [r b1].
    destruct r; try (eapply incl_tran; [eapply IH; exact H|apply incl_vertices_drop_tip]).
    eapply IH; eauto.
Qed.

Lemma link_parents_incl hs : forall L v rep acc b L' r ps b',
  link_parents L v rep hs acc b = ((L', r, ps), b') -> incl (vertices L') (vertices L).
Proof.
  induction hs as [|h rest IH]; intros L v rep acc b L' r ps b' H; cbn [link_parents] in H.
  - inversion H; subst. apply incl_refl.
  - destruct (find_node h (dag L)) as [p|].
    + destruct (negb (has_child L h)); [|eapply IH; eauto].
      destruct (validate L p b) as [vr b1].
      destruct vr; try (inversion H; subst; intros x Hx; apply (In_vertices_rm_tip L p); exact Hx).
      eapply incl_tran; [eapply IH; exact H|]. apply incl_refl.
    + unfold park in H. destruct (_ =? _); [inversion H; subst; apply incl_refl|].
      destruct (_ <? _); inversion H; subst; apply incl_refl.
Qed.

Lemma link_parents_first_live L v rep h rest acc b L' ps b' :
  link_parents L v rep (h :: rest) acc b = ((L', ROk, ps), b') -> live L h = true.
Proof.
  cbn [link_parents]. unfold live. destruct (find_node h (dag L)) as [p|]; [reflexivity|].
  unfold park. destruct (_ =? _); [intros H; inversion H|]. destruct (_ <? _); intros H; inversion H.
Qed.

Lemma live_nonzero L h : InvG L -> live L h = true -> h <> 0%N.
Proof. intros I Hl E. subst h. apply live_iff in Hl. exact (proj1 (g_nozero L I) Hl). Qed.

Lemma add_leaf_mem_roots L v rep b L' r g :
  InvG L -> add_leaf_mem L v rep b = (L', r) -> RootsV g (vertices L) -> RootsV g (vertices L').
Proof.
  intros I. unfold add_leaf_mem.
  repeat (match goal with |- context [if ?c then _ else _] => destruct c; [intros H0; inversion H0; subst; clear H0; exact (fun x => x)|] end).
  destruct (link_parents L v rep [v_left v; v_right v] [] b) as [[[L1 r1] ps] b1] eqn:El.
  pose proof (link_parents_incl _ _ _ _ _ _ _ _ _ _ El) as Hi.
  destruct r1; try solve [intros H; inversion H; subst; intros R; eapply RootsV_incl; eauto].
  pose proof (link_parents_first_live _ _ _ _ _ _ _ _ _ _ El) as Hlv.
  destruct (has_trx L1 _); [intros H; inversion H; subst; intros R; eapply RootsV_incl; eauto|].
  destruct (live L1 _); intros H; inversion H; subst; intros R; [eapply RootsV_incl; eauto|].
  rewrite vertices_insert. apply RootsV_cons; [apply (live_nonzero L); assumption|eapply RootsV_incl; eauto].
Qed.

Lemma create_leaf_roots L t o1 o2 newh vok b L' r ov g :
  InvG L -> create_leaf L t o1 o2 newh vok b = (L', r, ov) -> RootsV g (vertices L) -> RootsV g (vertices L').
Proof.
  intros I. unfold create_leaf.
  repeat (match goal with |- context [if ?c then _ else _] => destruct c; [intros H0; inversion H0; subst; clear H0; exact (fun x => x)|] end).
  destruct (valid_leaves L o1 [] false b) as [[[L1 acc] e1] b1] eqn:E1.
  pose proof (valid_leaves_incl _ _ _ _ _ _ _ _ _ E1) as Hi1.
  pose proof (valid_leaves_invG _ _ _ _ _ _ _ _ _ I E1) as I1.
  pose proof (valid_leaves_acc _ _ _ _ _ _ _ _ _ (fun m (Hm : In m []) => match Hm with end) E1) as A1.
  assert (Fin : forall L2 l r0 L3 r3 ov3, InvG L2 -> incl (vertices L2) (vertices L) -> In l (dag L2) ->
    (let v := Vtx newh (nhash l) (nhash r0) (wrap (Z.max (v_weight (nv l)) (v_weight (nv r0)) + 1)) (self L) vok t in
      if has_trx L2 (t_hash t) then (L2, RRejected, None) else
      if live L2 newh then (L2, RRejected, None) else
      (insert L2 v (dedup2 (nhash l) (nhash r0)), ROk, Some v)) = (L3, r3, ov3) ->
    RootsV g (vertices L) -> RootsV g (vertices L3)).
  { intros L2 l r0 L3 r3 ov3 I2 Hi2 Hl. cbn zeta.
    destruct (has_trx L2 (t_hash t)); [intros H; inversion H; subst; intros R; eapply RootsV_incl; eauto|].
    destruct (live L2 newh); intros H; inversion H; subst; intros R; [eapply RootsV_incl; eauto|].
    rewrite vertices_insert. apply RootsV_cons; [|eapply RootsV_incl; eauto]. cbn.
    apply (live_nonzero L2 _ I2). apply live_iff. apply in_map. exact Hl. }
  destruct e1; [destruct acc as [|x1 [|x2 xs]]; intros H; inversion H; subst; intros R; eapply RootsV_incl; eassumption|].
  destruct acc as [|l [|r0 rest]].
  - destruct (valid_leaves L1 o2 [] false b1) as [[[L2 acc2] e2] b2] eqn:E2.
    pose proof (valid_leaves_incl _ _ _ _ _ _ _ _ _ E2) as Hi2.
    pose proof (valid_leaves_invG _ _ _ _ _ _ _ _ _ I1 E2) as I2.
    pose proof (valid_leaves_acc _ _ _ _ _ _ _ _ _ (fun m (Hm : In m []) => match Hm with end) E2) as A2.
    assert (Hi12 : incl (vertices L2) (vertices L)) by (eapply incl_tran; eauto).
    assert (Hrej : forall ov0, (L2, RRejected, ov0) = (L', r, ov) -> RootsV g (vertices L) -> RootsV g (vertices L')).
    { intros ov0 H R. inversion H; subst. exact (RootsV_incl _ _ _ Hi12 R). }
    destruct acc2 as [|l [|r0 rest]]; destruct e2; intros H.
    + eapply Hrej; exact H.
    + eapply Hrej; exact H.
    + eapply Hrej; exact H.
    + eapply Fin; [exact I2|exact Hi12|exact (proj1 (A2 l (or_introl eq_refl)))|exact H].
    + eapply Hrej; exact H.
    + eapply Fin; [exact I2|exact Hi12|exact (proj1 (A2 l (or_introl eq_refl)))|exact H].
  - intros H. eapply Fin; [exact I1|exact Hi1|exact (proj1 (A1 l (or_introl eq_refl)))|exact H].
  - intros H. eapply Fin; [exact I1|exact Hi1|exact (proj1 (A1 l (or_introl eq_refl)))|exact H].
Qed.

Lemma create_genesis_roots L recv amt data th h vok L' r :
  Inv L -> loaded L = false -> create_genesis L recv amt data th h vok = (L', r) ->
  RootsV (genesis L') (vertices L').
Proof.
  intros I Hl. destruct (inv_unl _ I Hl) as [Hd [Hs [Hp Hi]]]. unfold create_genesis.
  assert (E0 : vertices L = []) by (unfold vertices; rewrite Hd, Hs; reflexivity).
  assert (R0 : forall g, RootsV g (vertices L)) by (intros g; rewrite E0; split; intros; contradiction).
  destruct (N.eqb recv (self L)); [intros H; inversion H; subst; apply R0|].
  destruct (negb (canonb amt)); [intros H; inversion H; subst; apply R0|].
  destruct (has_trx L th); [intros H; inversion H; subst; apply R0|].
  destruct (live _ h); intros H; inversion H; subst; clear H.
  - unfold vertices. cbn. rewrite Hd, Hs. split; intros; contradiction.
  - unfold vertices. cbn. rewrite Hd, Hs. cbn. split.
    + intros v [E|[]] _. subst v. unfold is_genesis_vtx. cbn. auto.
    + intros u v [E|[]] [E'|[]] _ _. congruence.
Qed.

Lemma create_leaf_genesis L t o1 o2 newh vok b L' r ov :
  Inv L -> create_leaf L t o1 o2 newh vok b = (L', r, ov) -> genesis L' = genesis L.
Proof.
  intros I. unfold create_leaf.
  repeat (match goal with |- context [if ?c then _ else _] => destruct c; [intros H; inversion H; reflexivity|] end).
  destruct (valid_leaves L o1 [] false b) as [[[L1 acc] e1] b1] eqn:E1.
  destruct (valid_leaves_inv _ _ _ _ _ _ _ _ _ I E1) as [I1 [_ [G1 _]]].
  assert (Fin : forall L2 l r0, genesis L2 = genesis L ->
    (let v := Vtx newh (nhash l) (nhash r0) (wrap (Z.max (v_weight (nv l)) (v_weight (nv r0)) + 1)) (self L) vok t in
     if has_trx L2 (t_hash t) then (L2, RRejected, None) else
     if live L2 newh then (L2, RRejected, None) else
     (insert L2 v (dedup2 (nhash l) (nhash r0)), ROk, Some v)) = (L', r, ov) -> genesis L' = genesis L).
  { intros L2 l r0 G2. cbn zeta. destruct (has_trx L2 _); [intros H; inversion H; subst; exact G2|].
    destruct (live L2 _); intros H; inversion H; subst; exact G2. }
  destruct e1; [destruct acc as [|x1 [|x2 xs]]; intros H; inversion H; subst; exact G1|].
  destruct acc as [|l [|r0 rest]]; intros H; [|exact (Fin L1 l l G1 H)|exact (Fin L1 l r0 G1 H)].
  destruct (valid_leaves L1 o2 [] false b1) as [[[L2 acc2] e2] b2] eqn:E2.
  destruct (valid_leaves_inv _ _ _ _ _ _ _ _ _ I1 E2) as [_ [_ [G2 _]]].
  assert (G12 : genesis L2 = genesis L) by congruence.
  destruct e2; [destruct acc2 as [|x1 [|x2 xs]]; inversion H; subst; exact G12|].
  destruct acc2 as [|l [|r0 rest]]; [inversion H; subst; exact G12|exact (Fin L2 l l G12 H)|exact (Fin L2 l r0 G12 H)].
Qed.

Lemma lstep_roots L o : Inv L -> InvG L -> lop_ok L o -> RootsV (genesis L) (vertices L) ->
  RootsV (genesis (lstep L o)) (vertices (lstep L o)).
Proof.
  intros I G Hok R. destruct o; cbn [lstep lop_ok] in *.
  - destruct (create_genesis L recv amt data th h vok) as [L' r] eqn:E. cbn [fst].
    eapply create_genesis_roots; [exact I|apply Hok|exact E].
  - destruct (create_leaf L t o1 o2 newh vok b) as [[L' r] ov] eqn:E. cbn [fst].
    rewrite (create_leaf_genesis _ _ _ _ _ _ _ _ _ _ I E). eapply create_leaf_roots; eauto.
  - destruct (add_leaf L v b) as [L' r] eqn:E. cbn [fst].
    pose proof E as E0. unfold add_leaf in E.
    destruct (loaded L) eqn:Hl; cbn [negb] in E; [|inversion E; subst; exact R].
    destruct (N.eqb_spec (t_issuer (v_trx v)) (v_signer v)) as [Es|Es]; [inversion E; subst; exact R|].
    destruct (is_empty_trx (v_trx v)) eqn:Ee; [inversion E; subst; exact R|].
    destruct (canonb (t_spice (v_trx v))) eqn:Ec; cbn [negb] in E; [|inversion E; subst; exact R].
    assert (Hv : adm_ok v) by (repeat split; assumption).
    destruct (add_leaf_mem_inv _ _ _ _ _ _ I Hl Hv E) as [_ [_ [Hg _]]].
    rewrite Hg. eapply add_leaf_mem_roots; eauto.
  - destruct (retry_one L b) as [L' r] eqn:E. cbn [fst]. unfold retry_one in E.
    destruct (parked L) as [|[v rep] rest] eqn:Ep; [inversion E; subst; exact R|].
    destruct (add_leaf_mem (set_parked L rest) v rep b) as [L1 r1] eqn:Ea. inversion E; subst. clear E.
    assert (Hl : loaded L = true).
    { destruct (loaded L) eqn:Hl; [reflexivity|]. destruct (inv_unl _ I Hl) as [_ [_ [Hp _]]]. congruence. }
    assert (Hv : adm_ok v) by (eapply inv_park; [exact I|rewrite Ep; left; reflexivity]).
    assert (I0 : Inv (set_parked L rest)).
    { apply Inv_set_parked; auto. intros u r0 Hin. eapply inv_park; [exact I|rewrite Ep; right; exact Hin]. }
    assert (G0 : InvG (set_parked L rest)).
    { destruct G as [A B C D Eo F Gp]. constructor; auto. intros u r0 Hin. apply (Gp u r0). rewrite Ep. right. exact Hin. }
    destruct (add_leaf_mem_inv _ _ _ _ _ _ I0 Hl Hv Ea) as [_ [_ [Hg _]]]. cbn in Hg.
    rewrite Hg. eapply (add_leaf_mem_roots (set_parked L rest)); [exact G0|exact Ea|exact R].
  - destruct (truncate L tip cut a32) as [L' r] eqn:E. cbn [fst].
    destruct r; try (rewrite (truncate_unchanged _ _ _ _ _ _ E); [exact R|left; discriminate]).
    destruct (truncate_vertices_perm _ _ _ _ _ (Inv_nodup_dag _ I) E) as [P [_ [Hg _]]].
    rewrite Hg. eapply RootsV_incl; [|exact R]. intros x Hx. eapply Permutation_in; [exact P|exact Hx].
  - exact R.
  - exact R.
Qed.

Theorem reach_roots me L : reach me L -> RootsV (genesis L) (vertices L).
Proof.
  induction 1 as [|L o Hr IH Hok]; [split; cbn; intros; contradiction|].
  apply lstep_roots; [eapply reach_Inv; eauto|eapply reach_InvG; eauto|exact Hok|exact IH].
Qed.

(* ---------------------------------------------------------------- LoadDag on the stream of a never-truncated peer *)
Lemma assoc_none_notin {A} k (l : list (N * A)) : assoc k l = None <-> ~ In k (map fst l).
Proof.
  induction l as [|[k' a] l IH]; cbn; [tauto|]. destruct (N.eqb_spec k k') as [E|E].
  - subst. split; [discriminate|intros H; exfalso; apply H; left; reflexivity].
  - rewrite IH. split; [intros H [H1|H1]; [congruence|contradiction]|intros H H1; apply H; right; exact H1].
Qed.

Definition idx_of (s : list vertex) : list (N * N) := map (fun v => (thash v, v_hash v)) s.

Lemma load_insert_ok s : forall L,
  NoDup (map thash s) -> NoDup (map v_hash s) ->
  (forall v, In v s -> assoc (thash v) (index L) = None /\ ~ In (v_hash v) (map nhash (dag L))) ->
  exists L1, load_insert L s = Some L1 /\
    index L1 = rev (idx_of s) ++ index L /\ dag L1 = dag L ++ map (fun v => Node v []) s /\
    st_vtx L1 = st_vtx L /\ st_funds L1 = st_funds L /\ trusted L1 = trusted L /\ genesis L1 = genesis L /\
    loaded L1 = loaded L /\ weight L1 = weight L /\ throughput L1 = throughput L /\ parked L1 = parked L /\ self L1 = self L.
Proof.
  induction s as [|v s IH]; intros L Ht Hv Hfree; cbn [load_insert].
  - exists L. cbn. rewrite app_nil_r. repeat split; reflexivity.
  - destruct (Hfree v (or_introl eq_refl)) as [F1 F2].
    assert (E1 : has_trx L (t_hash (v_trx v)) = false) by (apply has_trx_false; exact F1). rewrite E1.
    assert (E2 : live L (v_hash v) = false) by (apply live_false; exact F2). rewrite E2.
    inversion Ht as [|? ? Ht1 Ht2]; subst. inversion Hv as [|? ? Hv1 Hv2]; subst.
    set (L2 := set_dag (set_index L ((t_hash (v_trx v), v_hash v) :: index L)) (dag L ++ [Node v []])).
    destruct (IH L2 Ht2 Hv2) as [L1 [E [A1 [A2 [A3 [A4 [A5 [A6 [A7 [A8 [A9 [A10 A11]]]]]]]]]]]].
    { intros u Hu. destruct (Hfree u (or_intror Hu)) as [G1 G2]. unfold L2. cbn [index dag set_dag set_index]. split.
      - cbn [assoc]. destruct (N.eqb_spec (thash u) (t_hash (v_trx v))) as [Eq|Eq]; [|exact G1].
        exfalso. apply Ht1. apply in_map_iff. exists u. split; [exact Eq|exact Hu].
      - rewrite map_app, in_app_iff. cbn. intros [H|[H|[]]]; [exact (G2 H)|].
        apply Hv1. apply in_map_iff. exists u. split; [symmetry; exact H|exact Hu]. }
    exists L1. split; [exact E|]. unfold L2 in *. cbn [index dag set_dag set_index st_vtx st_funds trusted genesis loaded weight throughput parked self] in *.
    repeat split; try assumption.
    + rewrite A1. unfold idx_of. cbn [map rev]. rewrite <- app_assoc. reflexivity.
    + rewrite A2. rewrite <- app_assoc. reflexivity.
Qed.

Lemma filter_le1 {A} (p : A -> bool) (l : list A) :
  NoDup l -> (forall x y, In x l -> In y l -> p x = true -> p y = true -> x = y) -> (length (filter p l) <= 1)%nat.
Proof.
  induction l as [|a l IH]; cbn; intros Hn Hu; [lia|]. inversion Hn as [|? ? Ha Hl]; subst.
  destruct (p a) eqn:Ea; cbn.
  - assert (E : filter p l = []).
    { destruct (filter p l) as [|b r] eqn:Ef; [reflexivity|]. exfalso.
      assert (Hb : In b (filter p l)) by (rewrite Ef; left; reflexivity). apply filter_In in Hb. destruct Hb as [Hb1 Hb2].
      assert (a = b) by (apply Hu; auto). subst. contradiction. }
    rewrite E. cbn. lia.
  - apply IH; [exact Hl|]. intros x y Hx Hy. apply Hu; right; assumption.
Qed.

(* what the stream is: the peer's live vertices, any order; the peer never truncated and still holds its genesis vertex *)
Record good_source (Ls : ledger) (s : list vertex) : Prop := {
  gs_inv : Inv Ls; gs_invg : InvG Ls; gs_roots : RootsV (genesis Ls) (vertices Ls);
  gs_nostore : st_vtx Ls = [];
  gs_perm : Permutation s (map nv (dag Ls));
  gs_genesis : exists gv, In gv (map nv (dag Ls)) /\ v_left gv = 0%N /\ is_empty_trx (v_trx gv) = false
}.

Lemma good_source_vertices Ls s : good_source Ls s -> forall v, In v s <-> In v (vertices Ls).
Proof.
  intros G v. unfold vertices. rewrite (gs_nostore _ _ G), app_nil_r. split; intros H.
  - eapply Permutation_in; [exact (gs_perm _ _ G)|exact H].
  - eapply Permutation_in; [apply Permutation_sym; exact (gs_perm _ _ G)|exact H].
Qed.

Lemma parents_live Ls n : InvG Ls -> st_vtx Ls = [] -> In n (dag Ls) -> v_left (nv n) <> 0%N ->
  In (v_left (nv n)) (lp n) /\ In (v_right (nv n)) (lp n).
Proof.
  intros G Hs Hn Hnz.
  assert (Hp : forall p, In p (decl (nv n)) -> In p (lp n)).
  { intros p Hp. destruct (live Ls p) eqn:El; [apply (g_complete Ls G n Hn p Hp El)|].
    destruct (g_absent Ls G n Hn p Hp El) as [Hst|[Z1 _]]; [|contradiction].
    apply stored_iff in Hst. rewrite Hs in Hst. contradiction. }
  split; apply Hp; unfold decl; cbn; auto.
Qed.

Lemma load_parents_set Ls n : InvG Ls -> st_vtx Ls = [] -> In n (dag Ls) ->
  forall p, In p (load_parents (nv n)) <-> In p (lp n).
Proof.
  intros G Hs Hn p. unfold load_parents.
  destruct (N.eqb_spec (v_left (nv n)) 0) as [Z|Z].
  - (* root: no live parent can be declared *)
    split; [intros []|]. intros Hp. exfalso. destruct (g_sound Ls G n Hn p Hp) as [Hd Hl].
    assert (p <> 0%N) by (apply (live_nonzero Ls); assumption).
    destruct (live Ls 0) eqn:E0; [apply (live_nonzero Ls 0 G E0); reflexivity|].
    destruct (g_absent Ls G n Hn (v_left (nv n))) as [Hst|[_ [Z2 _]]]; [unfold decl; cbn; auto|rewrite Z; exact E0| |].
    + apply stored_iff in Hst. rewrite Hs in Hst. contradiction.
    + unfold decl in Hd. cbn in Hd. destruct Hd as [Hd|[Hd|[]]]; congruence.
  - destruct (parents_live Ls n G Hs Hn Z) as [Pl Pr].
    assert (Hsub : forall q, In q (lp n) -> q = v_left (nv n) \/ q = v_right (nv n)).
    { intros q Hq. destruct (g_sound Ls G n Hn q Hq) as [Hd _]. unfold decl in Hd. cbn in Hd. destruct Hd as [Hd|[Hd|[]]]; auto. }
    destruct (N.eqb_spec (v_right (nv n)) (v_left (nv n))) as [E|E]; cbn.
    + split; [intros [H|[]]; subst; exact Pl|]. intros Hq. destruct (Hsub p Hq); [left; congruence|left; congruence].
    + split; [intros [H|[H|[]]]; subst; assumption|]. intros Hq. destruct (Hsub p Hq); [left; congruence|right; left; congruence].
Qed.

Lemma nmem_true_in x l : In x l -> nmem x l = true. Proof. intros H. apply nmem_In. exact H. Qed.

Lemma topo_ok_dag Ls : InvG Ls -> st_vtx Ls = [] -> NoDup (map nhash (dag Ls)) -> topo_ok (map nv (dag Ls)) = true.
Proof.
  intros G Hs Hnd.
  assert (H : forall d, (forall n, In n d -> In n (dag Ls)) -> ordered d -> NoDup (map nhash d) -> topo_ok (map nv d) = true).
  { induction d as [|n r IH]; intros Hin Ho Hn; cbn [map topo_ok]; [reflexivity|].
    destruct Ho as [Ho1 Ho2]. inversion Hn as [|? ? Hn1 Hn2]; subst.
    rewrite (IH (fun m Hm => Hin m (or_intror Hm)) Ho2 Hn2), andb_true_r.
    assert (Hh : map v_hash (map nv r) = map nhash r) by (rewrite map_map; reflexivity). rewrite Hh.
    apply andb_true_intro. split.
    - apply forallb_forall. intros p Hp. apply nmem_true_in. apply Ho1.
      apply (load_parents_set Ls n G Hs (Hin n (or_introl eq_refl))). exact Hp.
    - apply negb_true_iff. apply nmem_false. exact Hn1. }
  apply H; [auto|apply (g_order Ls G)|exact Hnd].
Qed.

Lemma is_perm_hashes_perm a b : Permutation a b -> is_perm_hashes a b = true.
Proof.
  intros P. unfold is_perm_hashes. rewrite (Permutation_length P), Nat.eqb_refl. cbn.
  apply andb_true_intro. split; apply forallb_forall; intros v Hv; apply nmem_true_in; apply in_map.
  - eapply Permutation_in; eauto.
  - eapply Permutation_in; [apply Permutation_sym; exact P|exact Hv].
Qed.

Definition rebuilt (Ls : ledger) : list node := map (fun v => Node v (load_parents v)) (map nv (dag Ls)).

(* the loaded node *)
Theorem load_reproduces Ls s me :
  good_source Ls s ->
  exists L', load_dag (init me) s (map nv (dag Ls)) = (L', true) /\
    dag L' = rebuilt Ls /\
    (forall th, assoc th (index L') = assoc th (index Ls)) /\
    genesis L' = genesis Ls /\ loaded L' = true /\ st_vtx L' = [] /\ st_funds L' = [] /\ parked L' = [].
Proof.
  intros G. pose proof (gs_inv _ _ G) as I. pose proof (gs_invg _ _ G) as IG. pose proof (gs_roots _ _ G) as [R1 R2].
  pose proof (gs_nostore _ _ G) as Hs. pose proof (gs_perm _ _ G) as P. destruct (gs_genesis _ _ G) as [gv [Hgv [Hg0 Hge]]].
  pose proof (good_source_vertices _ _ G) as Hvs.
  assert (Ev : vertices Ls = map nv (dag Ls)) by (unfold vertices; rewrite Hs, app_nil_r; reflexivity).
  assert (Nv : NoDup (map v_hash s)).
  { eapply Permutation_NoDup; [apply Permutation_map; apply Permutation_sym; exact P|]. rewrite <- Ev. apply (inv_nd_v _ I). }
  assert (Nt : NoDup (map thash s)).
  { eapply Permutation_NoDup; [apply Permutation_map; apply Permutation_sym; exact P|]. rewrite <- Ev. apply (inv_nd_t _ I). }
  unfold load_dag. cbn [loaded init].
  destruct (load_insert_ok s (init me) Nt Nv) as [L1 [E1 [A1 [A2 [A3 [A4 [A5 [A6 [A7 [A8 [A9 [A10 A11]]]]]]]]]]]].
  { intros v _. cbn. split; [reflexivity|intros []]. }
  rewrite E1.
  (* at most one self-sealed vertex *)
  assert (Hself : forall v, In v s -> N.eqb (t_issuer (v_trx v)) (v_signer v) = true -> v_left v = 0%N).
  { intros v Hv Hq. apply N.eqb_eq in Hq. destruct (inv_seal _ I v (proj1 (Hvs v) Hv)) as [_ [[[Hne _] _]|[[Z _] _]]]; [contradiction|exact Z]. }
  assert (C1 : (2 <=? length (filter (fun v => N.eqb (t_issuer (v_trx v)) (v_signer v)) s))%nat = false).
  { apply Nat.leb_gt. assert ((length (filter (fun v => N.eqb (t_issuer (v_trx v)) (v_signer v)) s) <= 1)%nat); [|lia].
    apply filter_le1; [apply (NoDup_map_inv v_hash); exact Nv|].
    intros x y Hx Hy Px Py. apply R2; [apply Hvs; exact Hx|apply Hvs; exact Hy|apply Hself; assumption|apply Hself; assumption]. }
  rewrite C1.
  assert (C2 : existsb (fun v => is_empty_trx (v_trx v)) s = false).
  { apply not_true_is_false. intros Hex. apply existsb_exists in Hex. destruct Hex as [v [Hv He]].
    destruct (inv_seal _ I v (proj1 (Hvs v) Hv)) as [_ [[[_ [Hne _]] _]|[[Z _] _]]]; [congruence|].
    assert (v = gv) by (apply R2; [apply Hvs; exact Hv|rewrite Ev; exact Hgv|exact Z|exact Hg0]). subst v. congruence. }
  rewrite C2.
  assert (C3 : existsb (fun v => negb (canonb (t_spice (v_trx v)))) s = false).
  { apply not_true_is_false. intros Hex. apply existsb_exists in Hex. destruct Hex as [v [Hv He]].
    destruct (inv_seal _ I v (proj1 (Hvs v) Hv)) as [Hc _]. rewrite Hc in He. discriminate. }
  rewrite C3.
  rewrite (is_perm_hashes_perm _ _ P), (topo_ok_dag Ls IG Hs (Inv_nodup_dag _ I)). cbn [andb negb].
  fold (rebuilt Ls).
  (* the roots of the rebuilt graph: exactly the genesis vertex *)
  assert (Hroot : forall n, In n (rebuilt Ls) -> is_root n = true -> nv n = gv).
  { intros n Hn Hr. unfold rebuilt in Hn. apply in_map_iff in Hn. destruct Hn as [v [En Hv]]. subst n. cbn in *.
    unfold is_root in Hr. cbn in Hr. unfold load_parents in Hr.
    destruct (N.eqb_spec (v_left v) 0) as [Z|Z].
    - apply R2; [rewrite Ev; exact Hv|rewrite Ev; exact Hgv|exact Z|exact Hg0].
    - destruct (N.eqb (v_right v) (v_left v)); discriminate. }
  destruct (filter is_root (rebuilt Ls)) as [|r0 rs] eqn:Ef.
  - exfalso. assert (Hin : In (Node gv (load_parents gv)) (filter is_root (rebuilt Ls))).
    { apply filter_In. split; [unfold rebuilt; apply (in_map (fun v => Node v (load_parents v))); exact Hgv|]. unfold is_root, load_parents. cbn. rewrite Hg0. reflexivity. }
    rewrite Ef in Hin. contradiction.
  - assert (Hr0 : In r0 (filter is_root (rebuilt Ls))) by (rewrite Ef; left; reflexivity). apply filter_In in Hr0.
    pose proof (Hroot r0 (proj1 Hr0) (proj2 Hr0)) as Er0.
    eexists. split; [reflexivity|].
    cbn [dag set_dag set_gen set_wt index st_vtx st_funds parked genesis loaded]. rewrite A1, A3, A4, A10. cbn.
    split; [reflexivity|]. split; [|split; [|repeat split]].
    + (* the index, as a map *)
      intros th. rewrite app_nil_r.
      destruct (assoc th (index Ls)) as [vh|] eqn:Ei.
      * destruct (inv_idx2 _ I th vh Ei) as [v [Hv [Et Eh]]].
        assert (Hin : In (th, vh) (rev (idx_of s))).
        { apply -> in_rev. unfold idx_of. apply in_map_iff. exists v. split; [rewrite Et, Eh; reflexivity|apply Hvs; exact Hv]. }
        assert (Nk : NoDup (map fst (rev (idx_of s)))).
        { rewrite map_rev. apply NoDup_rev. unfold idx_of. rewrite map_map. exact Nt. }
        clear - Hin Nk. induction (rev (idx_of s)) as [|[k x] l IH]; cbn in *; [contradiction|].
        inversion Nk as [|? ? Hk Hl]; subst. destruct Hin as [E|Hin].
        -- inversion E; subst. rewrite N.eqb_refl. reflexivity.
        -- destruct (N.eqb_spec th k) as [Eq|Eq]; [|apply IH; assumption].
           exfalso. apply Hk. subst k. apply in_map_iff. exists (th, vh). split; [reflexivity|exact Hin].
      * apply assoc_none_notin. intros Hin. rewrite map_rev in Hin. apply in_rev in Hin. unfold idx_of in Hin. rewrite map_map in Hin.
        apply in_map_iff in Hin. destruct Hin as [v [Et Hv]]. cbn in Et.
        pose proof (inv_idx1 _ I v (proj1 (Hvs v) Hv)) as Hi. rewrite Et in Hi. congruence.
    + (* the genesis wallet *)
      rewrite Er0. destruct (R1 gv) as [[_ [_ Eis]] Esg]; [rewrite Ev; exact Hgv|exact Hg0|]. congruence.
Qed.

(* ---------------------------------------------------------------- same vertices, same parent links, same balances *)
Definition node_equiv (n n' : node) : Prop := nv n = nv n' /\ forall p, In p (lp n) <-> In p (lp n').

Lemma nmem_equiv x w w' : (forall y, In y w <-> In y w') -> nmem x w = nmem x w'.
Proof.
  intros H. destruct (nmem x w) eqn:E.
  - symmetry. apply nmem_In. apply H. apply nmem_In. exact E.
  - symmetry. apply nmem_false. intros Hin. apply nmem_false in E. apply E. apply H. exact Hin.
Qed.

Lemma anc_pass_equiv l l' : Forall2 node_equiv l l' -> forall w w', (forall y, In y w <-> In y w') ->
  map nv (anc_pass w l) = map nv (anc_pass w' l').
Proof.
  induction 1 as [|n n' l l' [En El] HF IH]; intros w w' Hw; cbn [anc_pass]; [reflexivity|].
  assert (Eh : nhash n = nhash n') by (unfold nhash; rewrite En; reflexivity).
  rewrite <- Eh, (nmem_equiv (nhash n) w w' Hw).
  destruct (nmem (nhash n) w'); cbn [map].
  - rewrite En. f_equal. apply IH. intros y. rewrite !in_app_iff, El, Hw. reflexivity.
  - apply IH. exact Hw.
Qed.

Lemma anc_from_equiv l l' h : Forall2 node_equiv l l' -> map nv (anc_from h l) = map nv (anc_from h l').
Proof.
  induction 1 as [|n n' l l' [En El] HF IH]; cbn [anc_from]; [reflexivity|].
  assert (Eh : nhash n = nhash n') by (unfold nhash; rewrite En; reflexivity). rewrite <- Eh.
  destruct (N.eqb (nhash n) h); [apply anc_pass_equiv; [exact HF|exact El]|exact IH].
Qed.

Lemma rebuilt_equiv Ls : InvG Ls -> st_vtx Ls = [] -> Forall2 node_equiv (rebuilt Ls) (dag Ls).
Proof.
  intros G Hs. unfold rebuilt.
  assert (H : forall d, (forall n, In n d -> In n (dag Ls)) ->
              Forall2 node_equiv (map (fun v => Node v (load_parents v)) (map nv d)) d).
  { induction d as [|n r IH]; intros Hin; cbn; constructor.
    - split; [reflexivity|]. cbn. apply (load_parents_set Ls n G Hs). apply Hin. left. reflexivity.
    - apply IH. intros m Hm. apply Hin. right. exact Hm. }
  apply H. auto.
Qed.

Lemma pour_walk_nv chk a l r : forall ancs ancs' io b, map nv ancs = map nv ancs' ->
  pour_walk chk a l r ancs io b = pour_walk chk a l r ancs' io b.
Proof.
  induction ancs as [|n rest IH]; intros ancs' io b E; destruct ancs' as [|n' rest']; cbn in E; try discriminate; [reflexivity|].
  inversion E as [[En Er]]. cbn [pour_walk]. rewrite En. destruct (poll b); [|reflexivity].
  destruct (_ && _); [reflexivity|]. destruct (pour a (nv n') io); [|reflexivity]. apply IH. exact Er.
Qed.

(* every balance query gives the same answer on the loaded node as on the peer, tip by tip, for every cancellation point *)
Theorem load_same_balances Ls L' :
  InvG Ls -> st_vtx Ls = [] -> dag L' = rebuilt Ls -> st_funds L' = st_funds Ls ->
  forall a tip b, balance L' a (Node (nv tip) (load_parents (nv tip))) b = balance Ls a tip b.
Proof.
  intros G Hs Hd Hf a tip b. unfold balance, ancestors, funds_of. rewrite Hd, Hf. cbn [nv].
  replace (nhash (Node (nv tip) (load_parents (nv tip)))) with (nhash tip) by reflexivity.
  destruct (pour a (nv tip) (zero_mel, zero_mel)) as [io|]; [|reflexivity].
  rewrite (pour_walk_nv false a 0%N 0%N _ _ io b (anc_from_equiv _ _ (nhash tip) (rebuilt_equiv Ls G Hs))). reflexivity.
Qed.

(* for reachable peers *)
Theorem load_reproduces_reachable me Ls s me' :
  reach me Ls -> st_vtx Ls = [] -> Permutation s (map nv (dag Ls)) ->
  (exists gv, In gv (map nv (dag Ls)) /\ v_left gv = 0%N /\ is_empty_trx (v_trx gv) = false) ->
  exists L', load_dag (init me') s (map nv (dag Ls)) = (L', true) /\
    dag L' = rebuilt Ls /\ Forall2 node_equiv (dag L') (dag Ls) /\
    (forall th, assoc th (index L') = assoc th (index Ls)) /\
    genesis L' = genesis Ls /\ loaded L' = true /\
    (st_funds Ls = [] -> forall a tip b, balance L' a (Node (nv tip) (load_parents (nv tip))) b = balance Ls a tip b).
Proof.
  intros Hr Hs P Hg.
  assert (G : good_source Ls s).
  { constructor; [eapply reach_Inv; eauto|eapply reach_InvG; eauto|eapply reach_roots; eauto|exact Hs|exact P|exact Hg]. }
  destruct (load_reproduces Ls s me' G) as [L' [E [Hd [Hi [Hgen [Hl [Hsv [Hsf Hp]]]]]]]].
  exists L'. split; [exact E|]. split; [exact Hd|]. split; [rewrite Hd; apply rebuilt_equiv; [eapply reach_InvG; eauto|exact Hs]|].
  split; [exact Hi|]. split; [exact Hgen|]. split; [exact Hl|].
  intros Hf a tip b. apply load_same_balances; [eapply reach_InvG; eauto|exact Hs|exact Hd|congruence].
Qed.

(* ---------------------------------------------------------------- the premises are satisfiable: the witness peer of LoadWitness.v is reachable *)
Definition w_ops : list lop := [LGenesis 2%N (Mel 1000 0) false 100%N 10%N true; LAdd w_light None; LAdd w_big None; LAdd w_top None].
Lemma w_src_run : w_src = fold_left lstep w_ops (init 1%N).
Proof. vm_compute. reflexivity. Qed.
Lemma w_src_reach : reach 1%N w_src.
Proof.
  rewrite w_src_run. unfold w_ops. cbn [fold_left].
  apply reach_step; [apply reach_step; [apply reach_step; [apply reach_step; [apply reach_init|]|]|]|].
  - cbn. split; [reflexivity|discriminate].
  - cbn. discriminate.
  - cbn. discriminate.
  - cbn. discriminate.
Qed.
Lemma load_premises_satisfiable :
  reach 1%N w_src /\ st_vtx w_src = [] /\ Permutation w_stream (map nv (dag w_src)) /\
  (exists gv, In gv (map nv (dag w_src)) /\ v_left gv = 0%N /\ is_empty_trx (v_trx gv) = false).
Proof.
  split; [exact w_src_reach|]. split; [vm_compute; reflexivity|]. split; [apply Permutation_refl|].
  exists (Vtx 10%N 0%N 0%N 0 1%N true (Trx 100%N 1%N 2%N (Mel 1000 0) false)).
  split; [vm_compute; right; right; right; left; reflexivity|]. split; vm_compute; reflexivity.
Qed.
