(* Proofs/ProtoWireOrder.v — the wire decoder does not depend on the order of the records: any permutation of the records
   proto.Marshal writes for a vertex reads as the same vertex (what lets a peer built with another protobuf library, or a
   future version that serialises in another order, interoperate). *)
From Coq Require Import List Arith NArith ZArith Lia Bool Permutation.
From Verif Require Import WalletFile Msg Codec Msgpack.
From Verif Require Import ProtoWire ProtoWireP.
Import ListNotations.
Local Open Scope N_scope.

Definition keys (fs : list wfield) : list N := map fst fs.

Lemma eqb_two (a b k : N) : a <> b -> (a =? k) && (b =? k) = false.
Proof. intros H. destruct (N.eqb_spec a k), (N.eqb_spec b k); try reflexivity. congruence. Qed.

Lemma geti_perm k fs fs' : Permutation fs fs' -> NoDup (keys fs) -> forall acc, geti k fs' acc = geti k fs acc.
Proof.
  induction 1 as [|x l l' P IH|x y l|l l' l'' P1 IH1 P2 IH2]; intros ND acc.
  - reflexivity.
  - destruct x as [n w]. cbn [geti]. apply IH. inversion ND; assumption.
  - destruct x as [n w], y as [m u]. cbn [geti]. f_equal.
    assert (D : m <> n) by (cbn in ND; inversion ND as [|? ? NI _]; subst; intros ->; apply NI; left; reflexivity).
    pose proof (eqb_two m n k D) as E. destruct (m =? k), (n =? k); try discriminate; reflexivity.
  - rewrite IH2, IH1; [reflexivity|exact ND|]. unfold keys. eapply Permutation_NoDup; [apply Permutation_map; exact P1|exact ND].
Qed.
Lemma getb_perm k fs fs' : Permutation fs fs' -> NoDup (keys fs) -> forall acc, getb k fs' acc = getb k fs acc.
Proof.
  induction 1 as [|x l l' P IH|x y l|l l' l'' P1 IH1 P2 IH2]; intros ND acc.
  - reflexivity.
  - destruct x as [n w]. cbn [getb]. apply IH. inversion ND; assumption.
  - destruct x as [n w], y as [m u]. cbn [getb]. f_equal.
    assert (D : m <> n) by (cbn in ND; inversion ND as [|? ? NI _]; subst; intros ->; apply NI; left; reflexivity).
    pose proof (eqb_two m n k D) as E. destruct (m =? k), (n =? k); try discriminate; reflexivity.
  - rewrite IH2, IH1; [reflexivity|exact ND|]. unfold keys. eapply Permutation_NoDup; [apply Permutation_map; exact P1|exact ND].
Qed.
Lemma getm_perm k fs fs' : Permutation fs fs' -> NoDup (keys fs) -> getm k fs' = getm k fs.
Proof.
  induction 1 as [|x l l' P IH|x y l|l l' l'' P1 IH1 P2 IH2]; intros ND.
  - reflexivity.
  - destruct x as [n w]. cbn [getm]. rewrite IH by (inversion ND; assumption). reflexivity.
  - destruct x as [n w], y as [m u]. cbn [getm].
    assert (D : m <> n) by (cbn in ND; inversion ND as [|? ? NI _]; subst; intros ->; apply NI; left; reflexivity).
    pose proof (eqb_two m n k D) as E. destruct (m =? k), (n =? k); try discriminate; reflexivity.
  - rewrite IH2, IH1; [reflexivity|exact ND|]. unfold keys. eapply Permutation_NoDup; [apply Permutation_map; exact P1|exact ND].
Qed.
Lemma strs_ok_perm strs fs fs' : Permutation fs fs' -> strs_ok strs fs' = strs_ok strs fs.
Proof.
  intros P. unfold strs_ok. induction P as [|x l l' P IH|x y l|l l' l'' P1 IH1 P2 IH2]; cbn [forallb].
  - reflexivity.
  - rewrite IH. reflexivity.
  - rewrite !andb_assoc. f_equal. apply andb_comm.
  - congruence.
Qed.

(* the message a list of records stands for *)
Definition build_pvtx (fs : list wfield) : option pvtx :=
  if strs_ok vtx_strings fs then
    match dec_sub dec_ptrx (getm 4 fs) with
    | Some tr => Some (PVtx (getb 1 fs []) (geti 2 fs 0) (getb 3 fs []) tr (getb 5 fs []) (getb 6 fs []) (getb 7 fs []) (geti 8 fs 0))
    | None => None
    end
  else None.
Lemma dec_pvtx_build b : dec_pvtx b = match parse_all b with Some fs => build_pvtx fs | None => None end.
Proof. reflexivity. Qed.

Lemma build_perm fs fs' : Permutation fs fs' -> NoDup (keys fs) -> build_pvtx fs' = build_pvtx fs.
Proof.
  intros P ND. unfold build_pvtx. rewrite (strs_ok_perm _ _ _ P), (getm_perm _ _ _ P ND), !(getb_perm _ _ _ P ND), !(geti_perm _ _ _ P ND). reflexivity.
Qed.

Lemma keys_app a b : keys (a ++ b) = keys a ++ keys b.
Proof. apply map_app. Qed.
Lemma keys_ifield k v : keys (ifield k v) = if v =? 0 then [] else [k].
Proof. unfold ifield. destruct (v =? 0); reflexivity. Qed.
Lemma keys_bfield k b : keys (bfield k b) = match b with [] => [] | _ :: _ => [k] end.
Proof. unfold bfield. destruct b; reflexivity. Qed.
Lemma keys_mfield k o : keys (mfield k o) = match o with Some _ => [k] | None => [] end.
Proof. unfold mfield. destruct o; reflexivity. Qed.

(* the records of a vertex carry pairwise different field numbers: a sub-list of 1..8 in order *)
Fixpoint increasing (lo : N) (l : list N) : Prop := match l with [] => True | x :: r => lo < x /\ increasing x r end.
Lemma increasing_NoDup : forall l lo, increasing lo l -> NoDup l /\ forall x, In x l -> lo < x.
Proof.
  induction l as [|a l IH]; intros lo H; cbn in *.
  - split; [constructor|intros x []].
  - destruct H as [H1 H2]. destruct (IH a H2) as [ND LT]. split.
    + constructor; [intros I; specialize (LT a I); lia|exact ND].
    + intros x [<-|I]; [exact H1|specialize (LT x I); lia].
Qed.
Lemma vtx_wire_keys_NoDup v : NoDup (keys (vtx_wire v)).
Proof.
  unfold vtx_wire. rewrite !keys_app, !keys_ifield, !keys_bfield, keys_mfield.
  apply (increasing_NoDup _ 0).
  destruct (pv_signer v), (pv_created v =? 0), (pv_sig v), (option_map enc_ptrx (pv_trx v)), (pv_hash v), (pv_left v), (pv_right v), (pv_weight v =? 0);
    cbn [app increasing]; repeat split; lia.
Qed.

Lemma build_vtx_wire v : wf_pvtx v -> strings_valid_pvtx v = true -> build_pvtx (vtx_wire v) = Some v.
Proof.
  intros W V. pose proof (pvtx_roundtrip v W V) as R. rewrite dec_pvtx_build in R. unfold enc_pvtx in R.
  rewrite parse_all_fields in R; [exact R|].
  destruct W as (H1 & H2 & H3 & H4 & H5 & H6 & H7 & H8).
  unfold vtx_wire. repeat (apply Forall_app; split); try (apply wf_bfield; [fnum|assumption]); try (apply wf_ifield; [fnum|assumption]).
  apply wf_mfield; [fnum|]. destruct (pv_trx v) as [t|]; cbn [option_map]; [apply H4|exact I].
Qed.
Lemma vtx_wire_wf v : wf_pvtx v -> Forall wf_field (vtx_wire v).
Proof.
  intros (H1 & H2 & H3 & H4 & H5 & H6 & H7 & H8).
  unfold vtx_wire. repeat (apply Forall_app; split); try (apply wf_bfield; [fnum|assumption]); try (apply wf_ifield; [fnum|assumption]).
  apply wf_mfield; [fnum|]. destruct (pv_trx v) as [t|]; cbn [option_map]; [apply H4|exact I].
Qed.

Theorem any_record_order v fs' : wf_pvtx v -> strings_valid_pvtx v = true -> Permutation (vtx_wire v) fs' ->
  dec_pvtx (enc_fields fs') = Some v.
Proof.
  intros W V P. rewrite dec_pvtx_build, parse_all_fields.
  - rewrite (build_perm _ _ P (vtx_wire_keys_NoDup v)). apply build_vtx_wire; assumption.
  - eapply Permutation_Forall; [exact P|apply vtx_wire_wf; exact W].
Qed.
