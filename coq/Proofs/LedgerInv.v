(* Proofs/LedgerInv.v — the vertex-set invariant of the ledger model, preserved by every operation
   for every hint (tip order, cancellation budget, cut): uniqueness of vertex and transaction hashes
   over live graph + checkpoint, exactness of the transaction index, sealing rules, canonical amounts. *)
From Verif Require Import U64 Spice RepoConstants Ledger ListFacts.
From Coq Require Import NArith Permutation.

Definition vertices (L : ledger) : list vertex := map nv (dag L) ++ st_vtx L.
Definition thash (v : vertex) : N := t_hash (v_trx v).

(* what the admission guards establish about a vertex, independently of the ledger *)
Definition adm_ok (v : vertex) : Prop :=
  t_issuer (v_trx v) <> v_signer v /\ is_empty_trx (v_trx v) = false /\ canonb (t_spice (v_trx v)) = true.
Definition is_genesis_vtx (v : vertex) : Prop :=
  v_left v = 0%N /\ v_right v = 0%N /\ t_issuer (v_trx v) = v_signer v.

Definition seal_ok (g : N) (v : vertex) : Prop :=
  canonb (t_spice (v_trx v)) = true /\
  ((adm_ok v /\ t_issuer (v_trx v) <> g /\ ~ (t_receiver (v_trx v) = g /\ is_spice (v_trx v) = true)) \/
   (is_genesis_vtx v /\ v_signer v = g /\ t_receiver (v_trx v) <> t_issuer (v_trx v))).

Record Inv (L : ledger) : Prop := {
  inv_nd_v : NoDup (map v_hash (vertices L));
  inv_nd_t : NoDup (map thash (vertices L));
  inv_idx1 : forall v, In v (vertices L) -> assoc (thash v) (index L) = Some (v_hash v);
  inv_idx2 : forall th vh, assoc th (index L) = Some vh ->
             exists v, In v (vertices L) /\ thash v = th /\ v_hash v = vh;
  inv_seal : forall v, In v (vertices L) -> seal_ok (genesis L) v;
  inv_park : forall v r, In (v, r) (parked L) -> adm_ok v;
  inv_unl : loaded L = false -> dag L = [] /\ st_vtx L = [] /\ parked L = [] /\ index L = []
}.

(* Inv only looks at these fields *)
Lemma Inv_ext L L' :
  dag L' = dag L -> index L' = index L -> st_vtx L' = st_vtx L -> parked L' = parked L ->
  genesis L' = genesis L -> loaded L' = loaded L -> Inv L -> Inv L'.
Proof.
  intros Hd Hi Hs Hp Hg Hl [A B C D E F G].
  assert (Hv : vertices L' = vertices L) by (unfold vertices; rewrite Hd, Hs; reflexivity).
  constructor; rewrite ?Hv, ?Hi, ?Hg, ?Hp, ?Hl, ?Hd, ?Hs; auto.
Qed.

Lemma Inv_bump L w : Inv L -> Inv (bump L w).
Proof. apply Inv_ext; reflexivity. Qed.
Lemma Inv_set_wt L w t : Inv L -> Inv (set_wt L w t).
Proof. apply Inv_ext; reflexivity. Qed.
Lemma Inv_set_trusted L t : Inv L -> Inv (set_trusted L t).
Proof. apply Inv_ext; reflexivity. Qed.

Lemma Inv_init me : Inv (init me).
Proof.
  constructor; cbn; try (intros; contradiction); try constructor; auto.
  intros th vh H; discriminate.
Qed.

(* ---------------------------------------------------------------- removing a live vertex (rm_tip) *)
Lemma vertices_rm_tip L n :
  vertices (rm_tip L n) = map nv (filter (fun m => negb (N.eqb (nhash m) (nhash n))) (dag L)) ++ st_vtx L.
Proof. unfold vertices, rm_tip. cbn. rewrite del_node_nv. reflexivity. Qed.

Lemma In_vertices_rm_tip L n v :
  In v (vertices (rm_tip L n)) -> In v (vertices L).
Proof.
  rewrite vertices_rm_tip. unfold vertices. rewrite !in_app_iff, !in_map_iff.
  intros [[m [E Hm]]|H]; [left|right; exact H]. apply filter_In in Hm. exists m. tauto.
Qed.

Lemma Inv_rm_tip L n : Inv L -> In n (dag L) -> Inv (rm_tip L n).
Proof.
  intros I Hn. destruct I as [A B C D E F G].
  assert (Hnv : In (nv n) (vertices L)) by (unfold vertices; apply in_or_app; left; apply in_map; exact Hn).
  (* any vertex that survives has a different transaction hash than the removed one *)
  assert (Hdiff : forall v, In v (vertices (rm_tip L n)) -> thash v <> thash (nv n)).
  { intros v Hv Et. pose proof (In_vertices_rm_tip _ _ _ Hv) as Hv0.
    assert (v = nv n) by (eapply NoDup_map_inj; eauto). subst v.
    rewrite vertices_rm_tip in Hv. apply in_app_or in Hv. destruct Hv as [Hv|Hv].
    - apply in_map_iff in Hv. destruct Hv as [m [Em Hm]]. apply filter_In in Hm. destruct Hm as [Hm Hh].
      apply negb_true_iff, N.eqb_neq in Hh. apply Hh. unfold nhash. rewrite Em. reflexivity.
    - unfold vertices in A. eapply (NoDup_map_app_disj v_hash); [exact A| | |reflexivity].
      + apply in_map. exact Hn. + exact Hv. }
  constructor.
  - rewrite vertices_rm_tip. unfold vertices in A. rewrite map_app, map_map in *.
    apply NoDup_app_filter_l. exact A.
  - rewrite vertices_rm_tip. unfold vertices in B. rewrite map_app, map_map in *.
    apply NoDup_app_filter_l. exact B.
  - intros v Hv. cbn [rm_tip index set_index set_dag]. rewrite assoc_del_neq by (apply Hdiff; exact Hv).
    apply C. eapply In_vertices_rm_tip; eauto.
  - intros th vh H. cbn [rm_tip index set_index set_dag] in H.
    destruct (N.eq_dec th (thash (nv n))) as [Et|Et].
    + subst th. unfold thash in H. rewrite assoc_del_eq in H. discriminate.
    + rewrite assoc_del_neq in H by exact Et. destruct (D _ _ H) as [v [Hv [E1 E2]]].
      exists v. split; [|auto]. rewrite vertices_rm_tip. unfold vertices in Hv. apply in_app_or in Hv. apply in_or_app.
      destruct Hv as [Hv|Hv]; [left|right; exact Hv]. apply in_map_iff in Hv. destruct Hv as [m [Em Hm]].
      apply in_map_iff. exists m. split; [exact Em|]. apply filter_In. split; [exact Hm|].
      apply negb_true_iff, N.eqb_neq. intros Eh.
      assert (m = n).
      { eapply (NoDup_map_inj (fun x => v_hash (nv x)) (dag L)); eauto.
        unfold vertices in A. rewrite map_app, map_map in A. apply NoDup_app_l in A. exact A. }
      subst m. apply Et. rewrite <- E1, <- Em. reflexivity.
  - intros v Hv. apply E. eapply In_vertices_rm_tip; eauto.
  - exact F.
  - intros Hl. destruct (G Hl) as [Hd _]. rewrite Hd in Hn. contradiction.
Qed.

Lemma Inv_drop_tip L n : Inv L -> In n (dag L) -> Inv (drop_tip L n).
Proof. intros I Hn. unfold drop_tip. apply Inv_bump. apply Inv_rm_tip; assumption. Qed.

(* ---------------------------------------------------------------- inserting a vertex *)
Lemma vertices_insert L v ps : vertices (insert L v ps) = v :: vertices L.
Proof. reflexivity. Qed.

Lemma Inv_insert L v ps :
  Inv L -> loaded L = true ->
  ~ In (v_hash v) (map v_hash (vertices L)) ->
  assoc (thash v) (index L) = None ->
  seal_ok (genesis L) v ->
  Inv (insert L v ps).
Proof.
  intros [A B C D E F G] Hl Hfresh Hidx Hseal.
  assert (Ht : ~ In (thash v) (map thash (vertices L))).
  { intros Hin. apply in_map_iff in Hin. destruct Hin as [u [Eu Hu]]. pose proof (C _ Hu) as Cu.
    rewrite Eu in Cu. congruence. }
  constructor; rewrite ?vertices_insert.
  - cbn. constructor; assumption.
  - cbn. constructor; assumption.
  - intros u [Eu|Hu]; cbn [insert index set_index set_dag assoc].
    + subst u. unfold thash. rewrite N.eqb_refl. reflexivity.
    + destruct (N.eqb_spec (thash u) (t_hash (v_trx v))) as [Et|Et].
      * exfalso. apply Ht. unfold thash in *. rewrite <- Et. apply (in_map thash). exact Hu.
      * apply C. exact Hu.
  - intros th vh H. cbn [insert index set_index set_dag assoc] in H.
    destruct (N.eqb_spec th (t_hash (v_trx v))) as [Et|Et].
    + inversion H; subst. exists v. split; [left; reflexivity|split; reflexivity].
    + destruct (D _ _ H) as [u [Hu Hu2]]. exists u. split; [right; exact Hu|exact Hu2].
  - intros u [Eu|Hu]; [subst; exact Hseal|apply E; exact Hu].
  - exact F.
  - cbn. intros Hl'. congruence.
Qed.

(* ---------------------------------------------------------------- parked buffer *)
Lemma Inv_set_parked L p :
  Inv L -> loaded L = true -> (forall v r, In (v, r) p -> adm_ok v) -> Inv (set_parked L p).
Proof.
  intros [A B C D E F G] Hl Hp. constructor; auto. cbn. intros H; congruence.
Qed.

Lemma Inv_park L v rep L' ok :
  Inv L -> loaded L = true -> adm_ok v -> park L v rep = (L', ok) -> Inv L'.
Proof.
  intros I Hl Hv. unfold park.
  destruct (_ =? _); [intros H; inversion H; subst; exact I|].
  destruct (_ <? _); intros H; inversion H; subst; [exact I|].
  apply Inv_set_parked; auto. intros u r Hin. apply in_app_or in Hin. destruct Hin as [Hin|[Hin|[]]].
  - eapply inv_park; eauto.
  - inversion Hin; subst; exact Hv.
Qed.
Lemma park_loaded L v rep L' ok : park L v rep = (L', ok) -> loaded L' = loaded L /\ genesis L' = genesis L.
Proof.
  unfold park. destruct (_ =? _); [intros H; inversion H; auto|].
  destruct (_ <? _); intros H; inversion H; auto.
Qed.

(* ---------------------------------------------------------------- fields the admission paths never touch *)
Definition same_meta (L L' : ledger) : Prop :=
  loaded L' = loaded L /\ genesis L' = genesis L /\ self L' = self L /\ st_vtx L' = st_vtx L /\
  st_funds L' = st_funds L /\ trusted L' = trusted L.
Lemma same_meta_refl L : same_meta L L. Proof. repeat split. Qed.
Lemma same_meta_trans A B C : same_meta A B -> same_meta B C -> same_meta A C.
Proof. unfold same_meta. intuition congruence. Qed.
Lemma same_meta_rm_tip L n : same_meta L (rm_tip L n). Proof. repeat split. Qed.
Lemma same_meta_bump L w : same_meta L (bump L w). Proof. repeat split. Qed.
Lemma same_meta_drop_tip L n : same_meta L (drop_tip L n). Proof. repeat split. Qed.

(* ---------------------------------------------------------------- getValidLeaves *)
Lemma valid_leaves_inv order : forall L acc e b L' acc' e' b',
  Inv L -> valid_leaves L order acc e b = (((L', acc'), e'), b') ->
  Inv L' /\ same_meta L L'.
Proof.
  induction order as [|h rest IH]; intros L acc e b L' acc' e' b' I H; cbn [valid_leaves] in H.
  - inversion H; subst. split; [exact I|apply same_meta_refl].
  - destruct (2 <=? length acc)%nat; [inversion H; subst; split; [exact I|apply same_meta_refl]|].
    destruct (find_node h (dag L)) as [n|] eqn:Ef; [|eapply IH; eauto].
    destruct (has_child L h || nmem h (map nhash acc)); [eapply IH; eauto|].
    apply find_node_some in Ef. destruct Ef as [Hn _].
    destruct (validate L n b) as [r b1]. destruct r;
      try (destruct (IH _ _ _ _ _ _ _ _ (Inv_drop_tip _ _ I Hn) H) as [I' M']; split;
           [exact I'|eapply same_meta_trans; [apply same_meta_drop_tip|exact M']]).
    eapply IH; eauto.
Qed.

(* ---------------------------------------------------------------- addLeafMemorized: the parent loop *)
Lemma link_parents_inv hs : forall L v rep acc b L' r ps b',
  Inv L -> loaded L = true -> adm_ok v ->
  link_parents L v rep hs acc b = ((L', r, ps), b') ->
  Inv L' /\ same_meta L L'.
Proof.
  induction hs as [|h rest IH]; intros L v rep acc b L' r ps b' I Hl Hv H; cbn [link_parents] in H.
  - inversion H; subst. split; [exact I|apply same_meta_refl].
  - destruct (find_node h (dag L)) as [p|] eqn:Ef.
    + apply find_node_some in Ef. destruct Ef as [Hp _].
      destruct (negb (has_child L h)).
      * destruct (validate L p b) as [vr b1]. destruct vr;
          try (inversion H; subst; split; [apply Inv_rm_tip; assumption|apply same_meta_rm_tip]).
        destruct (IH _ _ _ _ _ _ _ _ _ (Inv_bump _ (v_weight (nv p)) I) Hl Hv H) as [I' M'].
        split; [exact I'|eapply same_meta_trans; [apply same_meta_bump|exact M']].
      * eapply IH; eauto.
    + destruct (park L v rep) as [Lp ok] eqn:Ep. pose proof (Inv_park _ _ _ _ _ I Hl Hv Ep) as Ip.
      assert (same_meta L Lp).
      { unfold park in Ep. destruct (_ =? _); [inversion Ep; apply same_meta_refl|].
        destruct (_ <? _); inversion Ep; subst; repeat split. }
      destruct ok; inversion H; subst; auto.
Qed.

(* ---------------------------------------------------------------- addLeafMemorized / AddLeaf / retry *)
Lemma add_leaf_mem_inv L v rep b L' r :
  Inv L -> loaded L = true -> adm_ok v -> add_leaf_mem L v rep b = (L', r) -> Inv L' /\ same_meta L L'.
Proof.
  intros I Hl Hv. unfold add_leaf_mem.
  destruct (N.eqb_spec (t_issuer (v_trx v)) (genesis L)) as [Eg|Eg]; [intros H; inversion H; subst; split; [auto|apply same_meta_refl]|].
  destruct (N.eqb (t_receiver (v_trx v)) (genesis L) && is_spice (v_trx v)) eqn:Erg; [intros H; inversion H; subst; split; [auto|apply same_meta_refl]|].
  destruct (live L (v_hash v) || stored L (v_hash v)) eqn:Ex; [intros H; inversion H; subst; split; [auto|apply same_meta_refl]|].
  destruct (has_trx L (thash v)) eqn:Et; unfold thash in Et; rewrite Et; [intros H; inversion H; subst; split; [auto|apply same_meta_refl]|].
  destruct (v_ok v); cbn [negb]; [|intros H; inversion H; subst; split; [auto|apply same_meta_refl]].
  destruct (link_parents L v rep [v_left v; v_right v] [] b) as [[[L1 r1] ps] b1] eqn:El.
  destruct (link_parents_inv _ _ _ _ _ _ _ _ _ _ I Hl Hv El) as [I1 M1].
  destruct r1; try (intros H; inversion H; subst; split; assumption).
  destruct (has_trx L1 (t_hash (v_trx v))) eqn:Et1; [intros H; inversion H; subst; split; assumption|].
  destruct (live L1 (v_hash v)) eqn:El1; intros H; inversion H; subst; [split; assumption|].
  destruct M1 as [Ml [Mg [Ms [Mst [Mf Mt]]]]].
  split; [|repeat split; cbn; assumption].
  apply Inv_insert; auto.
  - congruence.
  - unfold vertices. rewrite map_app, in_app_iff, map_map. intros [Hin|Hin].
    + apply live_false in El1. apply El1. exact Hin.
    + apply orb_false_iff in Ex. destruct Ex as [_ Ex]. apply stored_false in Ex. apply Ex. rewrite <- Mst. exact Hin.
  - apply has_trx_false. exact Et1.
  - destruct Hv as [Hv1 [Hv2 Hv3]]. split; [exact Hv3|]. left. rewrite Mg. split; [repeat split; assumption|].
    split; [exact Eg|]. intros [Er Es]. rewrite Er, Es, N.eqb_refl in Erg. discriminate.
Qed.

Lemma add_leaf_inv L v b L' r : Inv L -> add_leaf L v b = (L', r) -> Inv L'.
Proof.
  intros I. unfold add_leaf.
  destruct (loaded L) eqn:Hl; cbn [negb]; [|intros H; inversion H; subst; exact I].
  destruct (N.eqb_spec (t_issuer (v_trx v)) (v_signer v)) as [Es|Es]; [intros H; inversion H; subst; exact I|].
  destruct (is_empty_trx (v_trx v)) eqn:Ee; [intros H; inversion H; subst; exact I|].
  destruct (canonb (t_spice (v_trx v))) eqn:Ec; cbn [negb]; [|intros H; inversion H; subst; exact I].
  intros H. eapply add_leaf_mem_inv; eauto. repeat split; assumption.
Qed.

Lemma retry_one_inv L b L' r : Inv L -> retry_one L b = (L', r) -> Inv L'.
Proof.
  intros I. unfold retry_one. destruct (parked L) as [|[v rep] rest] eqn:Ep; [intros H; inversion H; subst; exact I|].
  destruct (add_leaf_mem (set_parked L rest) v rep b) as [L1 r1] eqn:Ea. intros H; inversion H; subst.
  assert (Hl : loaded L = true).
  { destruct (loaded L) eqn:Hl; [reflexivity|]. destruct (inv_unl _ I Hl) as [_ [_ [Hp _]]]. congruence. }
  assert (Hv : adm_ok v) by (eapply inv_park; [exact I|rewrite Ep; left; reflexivity]).
  eapply add_leaf_mem_inv; [| |exact Hv|exact Ea]; [|exact Hl].
  apply Inv_set_parked; auto. intros u r Hin. eapply inv_park; [exact I|rewrite Ep; right; exact Hin].
Qed.

(* ---------------------------------------------------------------- CreateLeaf *)
Definition fresh (L : ledger) (h : N) : Prop := ~ In h (map v_hash (vertices L)).

Lemma create_leaf_inv L t o1 o2 newh vok b L' r ov :
  Inv L -> fresh L newh -> create_leaf L t o1 o2 newh vok b = (L', r, ov) -> Inv L'.
Proof.
  intros I Hf. unfold create_leaf.
  destruct (loaded L) eqn:Hl; cbn [negb]; [|intros H; inversion H; subst; exact I].
  destruct (is_empty_trx t) eqn:Ee; [intros H; inversion H; subst; exact I|].
  destruct (canonb (t_spice t)) eqn:Ec; cbn [negb]; [|intros H; inversion H; subst; exact I].
  destruct (N.eqb_spec (t_issuer t) (self L)) as [Es|Es]; [intros H; inversion H; subst; exact I|].
  destruct (N.eqb_spec (t_issuer t) (genesis L)) as [Eg|Eg]; [intros H; inversion H; subst; exact I|].
  destruct (N.eqb (t_receiver t) (genesis L) && is_spice t) eqn:Erg; [intros H; inversion H; subst; exact I|].
  destruct (has_trx L (t_hash t)) eqn:Et; [intros H; inversion H; subst; exact I|].
  (* the final insertion, from any intermediate ledger that kept the meta fields *)
  assert (Fin : forall L2 l r0 L3 r3 ov3, Inv L2 -> same_meta L L2 ->
    (let v := Vtx newh (nhash l) (nhash r0) (wrap (Z.max (v_weight (nv l)) (v_weight (nv r0)) + 1)) (self L) vok t in
      if has_trx L2 (t_hash t) then (L2, RRejected, None) else
      if live L2 newh then (L2, RRejected, None) else
      (insert L2 v (dedup2 (nhash l) (nhash r0)), ROk, Some v)) = (L3, r3, ov3) -> Inv L3).
  { intros L2 l r0 L3 r3 ov3 I2 [Ml [Mg [Ms [Mst _]]]]. cbn zeta.
    destruct (has_trx L2 (t_hash t)) eqn:Et2; [intros H; inversion H; subst; exact I2|].
    destruct (live L2 newh) eqn:El2; intros H; inversion H; subst; [exact I2|].
    apply Inv_insert; auto.
    - congruence.
    - cbn. unfold vertices. rewrite map_app, in_app_iff, map_map. intros [Hin|Hin].
      + apply live_false in El2. apply El2. exact Hin.
      + apply Hf. unfold vertices. rewrite map_app, in_app_iff. right. rewrite <- Mst. exact Hin.
    - apply has_trx_false. exact Et2.
    - split; [exact Ec|]. left. rewrite Mg. cbn. split; [repeat split; auto|].
      split; [exact Eg|]. intros [Er Esp]. rewrite Er, Esp, N.eqb_refl in Erg. discriminate. }
  destruct (valid_leaves L o1 [] false b) as [[[L1 acc] e1] b1] eqn:Ev1.
  destruct (valid_leaves_inv _ _ _ _ _ _ _ _ _ I Ev1) as [I1 M1].
  destruct e1; [intros H; inversion H; subst; exact I1|].
  destruct acc as [|l [|r0 rest]].
  - destruct (valid_leaves L1 o2 [] false b1) as [[[L2 acc2] e2] b2] eqn:Ev2.
    destruct (valid_leaves_inv _ _ _ _ _ _ _ _ _ I1 Ev2) as [I2 M2].
    pose proof (same_meta_trans _ _ _ M1 M2) as M12.
    destruct e2, acc2 as [|l [|r0 rest]]; intros H; try (inversion H; subst; exact I2); eapply Fin; eauto.
  - intros H; eapply Fin; eauto.
  - intros H; eapply Fin; eauto.
Qed.

(* ---------------------------------------------------------------- CreateGenesis (on a ledger that is not loaded) *)
Lemma create_genesis_inv L recv amt data th h vok L' r :
  Inv L -> loaded L = false -> create_genesis L recv amt data th h vok = (L', r) -> Inv L'.
Proof.
  intros I Hl. destruct (inv_unl _ I Hl) as [Hd [Hs [Hp Hi]]]. unfold create_genesis.
  destruct (N.eqb_spec recv (self L)) as [Er|Er]; [intros H; inversion H; subst; exact I|].
  destruct (canonb amt) eqn:Ec; cbn [negb]; [|intros H; inversion H; subst; exact I].
  unfold has_trx, live. rewrite Hi. cbn [assoc set_index dag find_node]. rewrite Hd. cbn [find].
  intros H; inversion H; subst. clear H.
  constructor; unfold vertices; cbn; rewrite ?Hd, ?Hs, ?Hi, ?Hp; cbn.
  - repeat constructor. tauto.
  - repeat constructor. tauto.
  - intros v [E|[]]. subst v. unfold thash. cbn. rewrite N.eqb_refl. reflexivity.
  - intros th' vh. destruct (N.eqb_spec th' th); [|discriminate]. intros E; inversion E; subst.
    eexists. split; [left; reflexivity|split; reflexivity].
  - intros v [E|[]]. subst v. split; [exact Ec|]. right. unfold is_genesis_vtx. cbn. repeat split; auto.
  - tauto.
  - discriminate.
Qed.

(* ---------------------------------------------------------------- truncation *)
Lemma anc_pass_sub l : forall w n, In n (anc_pass w l) -> In n l.
Proof.
  induction l as [|m r IH]; cbn; [tauto|]. intros w n. destruct (nmem (nhash m) w); cbn.
  - intros [E|H]; [left; exact E|right; eapply IH; eauto].
  - intros H; right; eapply IH; eauto.
Qed.
Lemma anc_from_sub h l : forall n, In n (anc_from h l) -> In n l.
Proof.
  induction l as [|m r IH]; cbn; [tauto|]. intros n. destruct (N.eqb (nhash m) h).
  - intros H; right; eapply anc_pass_sub; eauto.
  - intros H; right; eapply IH; eauto.
Qed.

Definition notin_hashes (s : list node) (n : node) : bool := negb (nmem (nhash n) (map nhash s)).

Lemma perm_cons_skip m r s :
  ~ In (nhash m) (map nhash s) ->
  Permutation r (s ++ filter (notin_hashes s) r) ->
  Permutation (m :: r) (s ++ filter (notin_hashes s) (m :: r)).
Proof.
  intros Hn Hp. cbn. unfold notin_hashes at 1. apply nmem_false in Hn. rewrite Hn. cbn.
  apply Permutation_cons_app. exact Hp.
Qed.

Lemma filter_notin_cons m s r :
  ~ In (nhash m) (map nhash r) ->
  filter (notin_hashes (m :: s)) r = filter (notin_hashes s) r.
Proof.
  intros Hn. apply filter_ext_in. intros x Hx. unfold notin_hashes. cbn [map nmem existsb].
  destruct (N.eqb_spec (nhash x) (nhash m)) as [E|E]; [|reflexivity].
  exfalso. apply Hn. rewrite <- E. apply in_map. exact Hx.
Qed.

Lemma anc_pass_perm l : forall w, NoDup (map nhash l) ->
  Permutation l (anc_pass w l ++ filter (notin_hashes (anc_pass w l)) l).
Proof.
  induction l as [|m r IH]; intros w Hnd; cbn [anc_pass]; [constructor|].
  inversion Hnd as [|? ? Hm Hr]; subst.
  destruct (nmem (nhash m) w).
  - cbn [app filter]. unfold notin_hashes at 1. cbn [map nmem existsb]. rewrite N.eqb_refl. cbn.
    constructor. rewrite filter_notin_cons by exact Hm. apply IH. exact Hr.
  - apply perm_cons_skip; [|apply IH; exact Hr].
    intros Hin. apply Hm. apply in_map_iff in Hin. destruct Hin as [x [E Hx]]. rewrite <- E. apply in_map.
    eapply anc_pass_sub; eauto.
Qed.
Lemma anc_from_perm h l : NoDup (map nhash l) ->
  Permutation l (anc_from h l ++ filter (notin_hashes (anc_from h l)) l).
Proof.
  induction l as [|m r IH]; intros Hnd; cbn [anc_from]; [constructor|].
  inversion Hnd as [|? ? Hm Hr]; subst.
  destruct (N.eqb (nhash m) h).
  - apply perm_cons_skip; [|apply anc_pass_perm; exact Hr].
    intros Hin. apply Hm. apply in_map_iff in Hin. destruct Hin as [x [E Hx]]. rewrite <- E. apply in_map.
    eapply anc_pass_sub; eauto.
  - apply perm_cons_skip; [|apply IH; exact Hr].
    intros Hin. apply Hm. apply in_map_iff in Hin. destruct Hin as [x [E Hx]]. rewrite <- E. apply in_map.
    eapply anc_from_sub; eauto.
Qed.

(* deleting a set of vertices from the graph keeps exactly the others (contents unchanged, edges stripped) *)
Lemma del_node_filter_nv m ms d :
  map nv (filter (notin_hashes ms) (del_node (nhash m) d)) = map nv (filter (notin_hashes (m :: ms)) d).
Proof.
  induction d as [|x d IH]; [reflexivity|].
  unfold del_node in *. cbn [filter map].
  assert (Hx : notin_hashes (m :: ms) x = negb (nhash x =? nhash m)%N && notin_hashes ms x).
  { unfold notin_hashes, nmem. cbn [map existsb]. rewrite negb_orb. reflexivity. }
  rewrite Hx.
  destruct (N.eqb_spec (nhash x) (nhash m)) as [E|E]; cbn [negb andb filter map].
  - exact IH.
  - assert (Hy : notin_hashes ms (Node (nv x) (nremove (nhash m) (lp x))) = notin_hashes ms x) by reflexivity.
    rewrite Hy. destruct (notin_hashes ms x); cbn [map]; rewrite IH; reflexivity.
Qed.
Lemma fold_del_nv ms : forall d,
  map nv (fold_left (fun d n => del_node (nhash n) d) ms d) = map nv (filter (notin_hashes ms) d).
Proof.
  induction ms as [|m ms IH]; intros d; cbn [fold_left].
  - f_equal. symmetry. induction d as [|x d IHd]; cbn; [reflexivity|]. rewrite IHd. reflexivity.
  - rewrite IH. apply del_node_filter_nv.
Qed.

Lemma truncate_vertices_perm L tip cut a32 L' :
  NoDup (map nhash (dag L)) -> truncate L tip cut a32 = (L', ROk) ->
  Permutation (vertices L') (vertices L) /\ index L' = index L /\ genesis L' = genesis L /\
  loaded L' = loaded L /\ parked L' = parked L /\ self L' = self L.
Proof.
  intros Hnd. unfold truncate. destruct (leaves L); [intros H; inversion H; subst; repeat split; apply Permutation_refl|].
  destruct (_ || _); [discriminate|]. destruct (existsb _ _); [discriminate|].
  intros H; inversion H; subst; clear H. split; [|repeat split].
  unfold vertices. cbn [dag st_vtx set_dag set_store]. rewrite fold_del_nv.
  set (moved := ancestors L cut).
  pose proof (anc_from_perm (nhash cut) (dag L) Hnd) as P. fold (ancestors L cut) in P. fold moved in P.
  apply (Permutation_map nv) in P. rewrite map_app in P.
  apply Permutation_sym.
  transitivity ((map nv moved ++ map nv (filter (notin_hashes moved) (dag L))) ++ st_vtx L).
  { apply Permutation_app_tail. exact P. }
  rewrite <- app_assoc.
  etransitivity; [apply Permutation_app_comm|].
  rewrite <- app_assoc. apply Permutation_refl.
Qed.

Lemma Inv_perm L L' :
  Permutation (vertices L') (vertices L) -> index L' = index L -> genesis L' = genesis L ->
  loaded L' = loaded L -> parked L' = parked L -> (loaded L = true) -> Inv L -> Inv L'.
Proof.
  intros P Hi Hg Hl Hp Hld [A B C D E F G]. constructor; rewrite ?Hi, ?Hg, ?Hp.
  - eapply Permutation_NoDup; [apply Permutation_map; apply Permutation_sym; exact P|exact A].
  - eapply Permutation_NoDup; [apply Permutation_map; apply Permutation_sym; exact P|exact B].
  - intros v Hv. apply C. eapply Permutation_in; eauto.
  - intros th vh H. destruct (D _ _ H) as [v [Hv Hv2]]. exists v. split; [|exact Hv2].
    eapply Permutation_in; [apply Permutation_sym; exact P|exact Hv].
  - intros v Hv. apply E. eapply Permutation_in; eauto.
  - exact F.
  - rewrite Hl. congruence.
Qed.

Lemma Inv_nodup_dag L : Inv L -> NoDup (map nhash (dag L)).
Proof.
  intros I. pose proof (inv_nd_v _ I) as A. unfold vertices in A. rewrite map_app, map_map in A.
  apply NoDup_app_l in A. exact A.
Qed.

Lemma truncate_inv L tip cut a32 L' r : Inv L -> truncate L tip cut a32 = (L', r) -> Inv L'.
Proof.
  intros I H. destruct r; try (unfold truncate in H; destruct (leaves L); [inversion H|];
    destruct (_ || _); [inversion H; subst; exact I|]; destruct (existsb _ _); inversion H; subst; exact I).
  destruct (loaded L) eqn:Hl.
  - destruct (truncate_vertices_perm _ _ _ _ _ (Inv_nodup_dag _ I) H) as [P [Hi [Hg [Hld [Hp Hs]]]]].
    eapply Inv_perm; eauto.
  - destruct (inv_unl _ I Hl) as [Hd _]. unfold truncate, leaves in H. rewrite Hd in H. cbn in H.
    inversion H; subst; exact I.
Qed.
