(* Properties/C07.v — truncation is transparent: lookups and uniqueness survive it.
   (The balance / checkpoint-funds statements are evaluated on the implementation by the monitors of
   the truncation histories; their Coq statements are listed in DESIGN as work in progress.) *)
From Verif Require Import U64 Spice SpiceP RepoConstants Ledger ListFacts LedgerInv LedgerGraph Ancestors LedgerFunds LedgerReach TruncateP.
From Coq Require Import NArith Permutation.

(* No confirmed vertex or transaction is lost and nothing new appears: every by-hash read gives the same
   answer (same content) after truncation as before, for every cut and tip. *)
Theorem C07_vertex_lookup_preserved : forall L tip cut a32 L',
  Inv L -> truncate L tip cut a32 = (L', ROk) -> forall h, read_vertex L' h = read_vertex L h.
Proof. exact truncate_read_vertex. Qed.
Print Assumptions C07_vertex_lookup_preserved.

Theorem C07_transaction_lookup_preserved : forall L tip cut a32 L',
  Inv L -> truncate L tip cut a32 = (L', ROk) -> forall th, read_trx L' th = read_trx L th.
Proof. exact truncate_read_trx. Qed.
Print Assumptions C07_transaction_lookup_preserved.

(* The ledger's vertex collection (live + checkpoint) is only permuted; index, genesis wallet, loaded flag
   and orphan buffer are untouched.  Hence every uniqueness / replay theorem of C03 applies unchanged
   after any number of truncations (truncate preserves Inv and is a step of [reach]). *)
Theorem C07_collection_permuted : forall L tip cut a32 L',
  NoDup (map nhash (dag L)) -> truncate L tip cut a32 = (L', ROk) ->
  Permutation (vertices L') (vertices L) /\ index L' = index L /\ genesis L' = genesis L /\
  loaded L' = loaded L /\ parked L' = parked L /\ self L' = self L.
Proof. exact truncate_vertices_perm. Qed.
Print Assumptions C07_collection_permuted.

Theorem C07_invariants_survive : forall L tip cut a32 L' r,
  Inv L -> InvG L -> truncate L tip cut a32 = (L', r) -> Inv L' /\ InvG L'.
Proof. exact truncate_invs. Qed.
Print Assumptions C07_invariants_survive.

(* Only vertices that already had a child are checkpointed. *)
Theorem C07_checkpoints_confirmed_only : forall L tip cut a32 L' r, truncate L tip cut a32 = (L', r) ->
  forall v, In v (st_vtx L') -> In v (st_vtx L) \/ exists n, In n (dag L) /\ nv n = v /\ has_child L (nhash n) = true.
Proof. exact truncate_checkpoints_confirmed. Qed.
Print Assumptions C07_checkpoints_confirmed_only.

(* Fewer than truncateDiff (a constant regenerated from the source) ancestors: refused, ledger untouched. *)
Theorem C07_short_history_refused : forall L tip cut a32,
  Z.of_nat (length (ancestors L tip)) < truncateDiff -> leaves L <> [] ->
  truncate L tip cut a32 = (L, RRejected).
Proof. exact truncate_short_history. Qed.
Print Assumptions C07_short_history_refused.

(* Checkpointed funds stay canonical across any number of truncations. *)
Theorem C07_checkpoint_funds_canonical : forall L tip cut a32 L' r,
  funds_canon (st_funds L) -> (forall m, In m (dag L) -> canon (t_spice (v_trx (nv m)))) ->
  truncate L tip cut a32 = (L', r) -> funds_canon (st_funds L').
Proof. exact truncate_funds_canon. Qed.
Print Assumptions C07_checkpoint_funds_canonical.
