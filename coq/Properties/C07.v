(* Properties/C07.v — truncation is transparent: balances, lookups and uniqueness survive it, and the checkpointed
   funds are the net flow of exactly the checkpointed vertices, across any number of truncations. *)
From Verif Require Import U64 Spice SpiceP RepoConstants Ledger ListFacts LedgerInv LedgerGraph Ancestors LedgerFunds LedgerReach TruncateP TruncateFunds.
From Coq Require Import NArith Permutation.

(* No confirmed vertex or transaction is lost and nothing new appears: every by-hash read gives the same
   answer (same content) after truncation as before, for every cut and tip. *)
Theorem C07_vertex_lookup_preserved : forall L tip cut a32 L',
  Inv L -> truncate L tip cut a32 = (L', ROk) -> forall h, read_vertex L' h = read_vertex L h.
Proof. exact truncate_read_vertex. Qed.
Print Assumptions C07_vertex_lookup_preserved.

Theorem C07_transaction_lookup_preserved : forall L tip cut a32 L',
  Inv L -> truncate L tip cut a32 = (L', ROk) -> forall th, read_trx L' th = read_trx L th.
Proof. exact truncate_read_trx. Qed.
Print Assumptions C07_transaction_lookup_preserved.

(* The ledger's vertex collection (live + checkpoint) is only permuted; index, genesis wallet, loaded flag
   and orphan buffer are untouched.  Hence every uniqueness / replay theorem of C03 applies unchanged
   after any number of truncations (truncate preserves Inv and is a step of [reach]). *)
Theorem C07_collection_permuted : forall L tip cut a32 L',
  NoDup (map nhash (dag L)) -> truncate L tip cut a32 = (L', ROk) ->
  Permutation (vertices L') (vertices L) /\ index L' = index L /\ genesis L' = genesis L /\
  loaded L' = loaded L /\ parked L' = parked L /\ self L' = self L.
Proof. exact truncate_vertices_perm. Qed.
Print Assumptions C07_collection_permuted.

Theorem C07_invariants_survive : forall L tip cut a32 L' r,
  Inv L -> InvG L -> truncate L tip cut a32 = (L', r) -> Inv L' /\ InvG L'.
Proof. exact truncate_invs. Qed.
Print Assumptions C07_invariants_survive.

(* Only vertices that already had a child are checkpointed. *)
Theorem C07_checkpoints_confirmed_only : forall L tip cut a32 L' r, truncate L tip cut a32 = (L', r) ->
  forall v, In v (st_vtx L') -> In v (st_vtx L) \/ exists n, In n (dag L) /\ nv n = v /\ has_child L (nhash n) = true.
Proof. exact truncate_checkpoints_confirmed. Qed.
Print Assumptions C07_checkpoints_confirmed_only.

(* Fewer than truncateDiff (a constant regenerated from the source) ancestors: refused, ledger untouched. *)
Theorem C07_short_history_refused : forall L tip cut a32,
  Z.of_nat (length (ancestors L tip)) < truncateDiff -> leaves L <> [] ->
  truncate L tip cut a32 = (L, RRejected).
Proof. exact truncate_short_history. Qed.
Print Assumptions C07_short_history_refused.

(* Checkpointed funds stay canonical across any number of truncations. *)
Theorem C07_checkpoint_funds_canonical : forall L tip cut a32 L' r,
  funds_canon (st_funds L) -> (forall m, In m (dag L) -> canon (t_spice (v_trx (nv m)))) ->
  truncate L tip cut a32 = (L', r) -> funds_canon (st_funds L').
Proof. exact truncate_funds_canon. Qed.
Print Assumptions C07_checkpoint_funds_canonical.

(* ---------------------------------------------------------------- balances *)
(* Truncating changes no balance: for every surviving vertex n that is the cut or descends from it (every tip of a
   single-tip ledger does), every address a that is not one of the 32-character strings the funds reload skips, the
   exact reference sum the balance query reports (C06) is the same number before and after.  Side conditions: the
   sums are representable and a is not overdrawn below the cut (otherwise: KNOWN-FINDING overdrawn-wallet-reset). *)
Theorem C07_balance_preserved : forall L tip cut a32 L' a n,
  InvG L -> NoDup (map nhash (dag L)) -> amounts_canon L ->
  truncate L tip cut a32 = (L', ROk) -> leaves L <> [] -> nmem a a32 = false ->
  In n (dag L) -> In cut (dag L) ->
  let Hs := map nhash (ancestors L cut) in
  let vs := map nv (ancestors L cut) in
  keep Hs (nhash n) = true ->
  (nhash n = nhash cut \/ anc (dag L) (nhash n) (nhash cut)) ->
  valZ (funds_of L a) + sumZ (inZ a) vs < LIMIT -> sumZ (outZ a) vs < LIMIT ->
  sumZ (outZ a) vs <= valZ (funds_of L a) + sumZ (inZ a) vs ->
  In (strip Hs n) (dag L') /\ flowZ L' a (strip Hs n) = flowZ L a n.
Proof. exact truncate_preserves_flow. Qed.
Print Assumptions C07_balance_preserved.

Theorem C07_reported_balance_unchanged : forall L tip cut a32 L' a n b b' m m',
  InvG L -> NoDup (map nhash (dag L)) -> amounts_canon L -> amounts_canon L' ->
  truncate L tip cut a32 = (L', ROk) -> leaves L <> [] -> nmem a a32 = false ->
  In n (dag L) -> In cut (dag L) ->
  let Hs := map nhash (ancestors L cut) in
  let vs := map nv (ancestors L cut) in
  keep Hs (nhash n) = true ->
  (nhash n = nhash cut \/ anc (dag L) (nhash n) (nhash cut)) ->
  valZ (funds_of L a) + sumZ (inZ a) vs < LIMIT -> sumZ (outZ a) vs < LIMIT ->
  sumZ (outZ a) vs <= valZ (funds_of L a) + sumZ (inZ a) vs ->
  balance L a n b = Some m -> balance L' a (strip Hs n) b' = Some m' -> m' = m.
Proof. exact truncate_preserves_balance. Qed.
Print Assumptions C07_reported_balance_unchanged.

(* Later transfers are validated against the same funds: the cover test (C01) of a surviving descendant of the cut
   gives the same verdict before and after. *)
Theorem C07_validation_preserved : forall L tip cut a32 L' n,
  InvG L -> NoDup (map nhash (dag L)) -> amounts_canon L ->
  truncate L tip cut a32 = (L', ROk) -> leaves L <> [] ->
  In n (dag L) -> In cut (dag L) ->
  let a := t_issuer (v_trx (nv n)) in
  let Hs := map nhash (ancestors L cut) in
  let vs := map nv (ancestors L cut) in
  nmem a a32 = false -> keep Hs (nhash n) = true ->
  (nhash n = nhash cut \/ anc (dag L) (nhash n) (nhash cut)) ->
  valZ (funds_of L a) + sumZ (inZ a) vs < LIMIT -> sumZ (outZ a) vs < LIMIT ->
  sumZ (outZ a) vs <= valZ (funds_of L a) + sumZ (inZ a) vs ->
  (coversZ L' (strip Hs n) <-> coversZ L n).
Proof. exact truncate_preserves_cover. Qed.
Print Assumptions C07_validation_preserved.

(* ---------------------------------------------------------------- checkpointed funds *)
(* One truncation: the funds written for a are the old funds plus the exact net flow of the moved vertices; the moved
   vertices are pairwise different and none was checkpointed before (each counted once). *)
Theorem C07_checkpoint_adds_net_flow_of_moved : forall L tip cut a32 L' a,
  truncate L tip cut a32 = (L', ROk) -> leaves L <> [] -> amounts_canon L -> nmem a a32 = false ->
  let vs := map nv (ancestors L cut) in
  valZ (funds_of L a) + sumZ (inZ a) vs < LIMIT -> sumZ (outZ a) vs < LIMIT ->
  sumZ (outZ a) vs <= valZ (funds_of L a) + sumZ (inZ a) vs ->
  canon (funds_of L' a) /\ valZ (funds_of L' a) = valZ (funds_of L a) + sumZ (inZ a) vs - sumZ (outZ a) vs.
Proof. exact truncate_funds_value. Qed.
Print Assumptions C07_checkpoint_adds_net_flow_of_moved.

Theorem C07_moved_counted_once : forall L tip cut a32 L',
  truncate L tip cut a32 = (L', ROk) -> leaves L <> [] -> NoDup (map nhash (dag L)) ->
  st_vtx L' = st_vtx L ++ map nv (ancestors L cut) /\
  NoDup (map v_hash (map nv (ancestors L cut))) /\
  forall v, In v (map nv (ancestors L cut)) -> stored L (v_hash v) = false.
Proof.
  intros L tip cut a32 L' H Hlv Hnd. split; [exact (truncate_st_vtx _ _ _ _ _ H Hlv)|exact (truncate_moved_fresh _ _ _ _ _ H Hlv Hnd)].
Qed.
Print Assumptions C07_moved_counted_once.

(* Every operation sequence, any number of truncations (each effective one meeting the side conditions for a):
   checkpointed funds of a = net flow of the checkpointed vertices; operations other than truncation touch neither. *)
Theorem C07_checkpoint_is_net_flow : forall a ops L,
  funds_net L a -> sides a L ops -> funds_net (fold_left lstep ops L) a.
Proof. exact funds_net_all_sequences. Qed.
Print Assumptions C07_checkpoint_is_net_flow.

Theorem C07_other_operations_leave_checkpoint : forall L o,
  (forall tip cut a32, o <> LTruncate tip cut a32) -> st_vtx (lstep L o) = st_vtx L /\ st_funds (lstep L o) = st_funds L.
Proof. exact non_truncate_store. Qed.
Print Assumptions C07_other_operations_leave_checkpoint.
