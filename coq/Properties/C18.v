(* Properties/C18.v — concurrent use of a node is free of data races (static half: the lockset discipline).
   roots / accesses are regenerated from /repo's src/accountant, src/cache and src/gossip on every run
   (harness/cmd/extract locks): every access to a field of a lock-owning struct that is written somewhere, the
   locks held there (own Lock/defer Unlock, inline Lock..Unlock regions, locks inherited from every call site),
   and the goroutine roots (API calls, background loops, `go` statements) that reach it. *)
From Coq Require Import List String Arith Bool.
From Verif Require Import Lockset LocksetP LockSites.
Import ListNotations.

(* the current tree: every two accesses to the same field, at least one a write, that two goroutines of a serving
   node can perform (different roots, or one root that runs many times) hold a common lock, one side exclusively *)
Theorem C18_lockset_discipline : racy_pairs roots accesses = [].
Proof. vm_compute. reflexivity. Qed.
Print Assumptions C18_lockset_discipline.

(* a reader/writer lock reached by any sequence of acquire/release steps never has a writer together with
   another holder *)
Theorem C18_rw_lock_excludes : forall s t1 t2 m1 m2,
  lreach s -> holds s t1 m1 -> holds s t2 m2 -> t1 <> t2 -> (m1 = 2 \/ m2 = 2) -> False.
Proof. exact rw_exclusion. Qed.
Print Assumptions C18_rw_lock_excludes.

(* hence, in every state of the locks, no two goroutines are simultaneously at two conflicting accesses of the
   table while holding the locks the table lists: every conflicting pair is ordered by a lock hand-over, which is
   what the race detector's happens-before relation asks for *)
Theorem C18_no_simultaneous_conflicting_access :
  forall a b, In a accesses -> In b accesses -> conflict a b = true -> concurrent roots a b = true ->
  forall (st : string -> lockst), (forall l, lreach (st l)) ->
  forall t1 t2, t1 <> t2 ->
    (forall l m, In (l, m) (a_locks a) -> holds (st l) t1 m) ->
    (forall l m, In (l, m) (a_locks b) -> holds (st l) t2 m) -> False.
Proof. exact (lockset_no_simultaneous_access roots accesses C18_lockset_discipline). Qed.
Print Assumptions C18_no_simultaneous_conflicting_access.

(* what the discipline excludes: the orphan buffer before fix ea90eff (ticker pops with no lock, admission appends
   under the ledger lock only) has two unordered conflicting pairs *)
Theorem C18_buffer_before_fix_refuted : List.length (racy_pairs roots_before_fix buffer_before_fix) = 2.
Proof. exact buffer_before_fix_racy. Qed.
Print Assumptions C18_buffer_before_fix_refuted.
