(* Properties/C19.v — vertices and transactions survive every transcoding unchanged. *)
From Coq Require Import List Arith NArith ZArith Lia Bool Permutation.
From Verif Require Import WalletFile Msg Codec CodecP Msgpack CodecFields MsgpackP ProtoWire ProtoWireP ProtoWireOrder ProtoWireMerge.
Import ListNotations.
Local Open Scope Z_scope.

(* Wire (protobuf) mapping: every field comes back identical — byte strings are copied, integers are
   uint64 on both sides, and the timestamps survive uint64(UnixNano) / time.Unix(0, int64(u)) for every
   instant whose UnixNano is an int64 (negative ones included). B is any type of copied values. *)
Theorem C19_proto_roundtrip : forall (B : Type) (v : avtx B),
  - P63 <= a_created v < P63 -> - P63 <= at_created v < P63 -> of_proto (to_proto v) = v.
Proof. exact @proto_roundtrip. Qed.
Print Assumptions C19_proto_roundtrip.

(* msgpack primitives of the storage/cache codecs: a uint64 written as 0xcf + 8 big-endian bytes reads
   back, whatever follows it, for all 2^64 values ... *)
Theorem C19_msgpack_uint64_roundtrip : forall x rest, 0 <= x < P64 -> dec_u64 (enc_u64 x ++ rest) = Some (x, rest).
Proof. exact u64_roundtrip. Qed.
Print Assumptions C19_msgpack_uint64_roundtrip.

(* ... and a timestamp written as ext -1 in its 4-, 8- or 12-byte form (34-bit seconds packing) reads back
   to the same seconds and nanoseconds, for all int64 seconds (negative included) and all nanoseconds. *)
Theorem C19_msgpack_time_roundtrip : forall sec nsec rest, - P63 <= sec < P63 -> 0 <= nsec < 1000000000 ->
  dec_time (enc_time sec nsec ++ rest) = Some (sec, nsec).
Proof. exact time_roundtrip. Qed.
Print Assumptions C19_msgpack_time_roundtrip.

(* The storage / cache (msgpack) form, whole structs.  (1) The layout the model encodes - msgpack tags, their order
   and the kind of every field of Melange, Transaction and Vertex - is the one declared in the Go source NOW
   (Gen/CodecFields.v is regenerated from the struct declarations on every run; a renamed tag, a reordered, added,
   retyped or omitempty field makes this evaluation false) ... *)
Theorem C19_msgpack_layout_is_the_source_layout :
  fields_eqb gen_mel_fields mel_fields && fields_eqb gen_trx_fields trx_fields && fields_eqb gen_vtx_fields vtx_fields = true.
Proof. vm_compute. reflexivity. Qed.
Print Assumptions C19_msgpack_layout_is_the_source_layout.

(* ... (2) the model's encoders are exactly those tables read in order (a fixmap of the fields, each as key then value
   in the encoding of its kind); the encoders are compared byte for byte with msgpack.Marshal on every run ... *)
Theorem C19_msgpack_encoders_follow_layout :
  (forall m, enc_mel m = enc_struct mel_fields (mel_vals m) /\ map kind_of (mel_vals m) = map snd mel_fields) /\
  (forall t, enc_trx t = enc_struct trx_fields (trx_vals t) /\ map kind_of (trx_vals t) = map snd trx_fields) /\
  (forall v, enc_vtx v = enc_struct vtx_fields (vtx_vals v) /\ map kind_of (vtx_vals v) = map snd vtx_fields).
Proof. exact encoders_follow_tables. Qed.
Print Assumptions C19_msgpack_encoders_follow_layout.

(* ... (3) and every transaction and every vertex decodes back to exactly itself, whatever follows it in the input:
   for ALL field contents - strings and byte strings of any length below 2^32 (fixstr/str8/str16/str32,
   bin8/bin16/bin32 and the nil slice), any bytes in them (UTF-8 or not), all 2^64 amounts and weights, all int64
   seconds with any nanoseconds. *)
Theorem C19_msgpack_transaction_roundtrip : forall t rest, wf_trx t -> dec_trx (enc_trx t ++ rest) = Some (t, rest).
Proof. exact trx_roundtrip. Qed.
Print Assumptions C19_msgpack_transaction_roundtrip.

Theorem C19_msgpack_vertex_roundtrip : forall v rest, wf_vtx v -> dec_vtx (enc_vtx v ++ rest) = Some (v, rest).
Proof. exact vtx_roundtrip. Qed.
Print Assumptions C19_msgpack_vertex_roundtrip.

(* Two different vertices never share a stored form. *)
Theorem C19_msgpack_encoding_injective : forall v w, wf_vtx v -> wf_vtx w -> enc_vtx v = enc_vtx w -> v = w.
Proof. exact vtx_encoding_injective. Qed.
Print Assumptions C19_msgpack_encoding_injective.

(* The well-formedness premise is what every Go value satisfies; a concrete one with a nil slice, an empty and a
   40-byte string, a 300-byte signature and extreme numbers. *)
Example C19_wf_nonvacuous :
  wf_vtx (MVtx (repeat 1%N 51) (17179869184, 999999999) (Some (repeat 7%N 64))
               (MTrx (-1, 5) (repeat 2%N 51) [] (repeat 0%N 40) None (Some []) (Some (repeat 9%N 300)) (repeat 200%N 32) (MMel 18446744073709551615 0))
               (repeat 3%N 32) (repeat 0%N 32) (repeat 255%N 32) 18446744073709551615).
Proof. unfold wf_vtx, wf_trx, wf_time, wf_obin, wf_mel, zlen, P32', P63, P64; cbn [mv_signer mv_created mv_sig mv_trx mv_hash mv_left mv_right mv_weight mt_created mt_issuer mt_receiver mt_subject mt_data mt_isig mt_rsig mt_hash mt_spice mm_cur mm_sup fst snd]; rewrite ?repeat_length; cbn [List.length]; repeat split; lia. Qed.

(* The gossip (protobuf WIRE) form, byte level.  `enc_pvtx` is what proto.Marshal writes for protobufcompiled.Vertex with its embedded
   Transaction and Spice (proto3 presence rules, base-128 varints, length-delimited strings / byte strings / sub-messages) and is compared
   byte for byte with proto.Marshal on every run; `dec_pvtx` is the general record grammar (any order, unknown fields skipped, last
   scalar wins, repeated sub-messages merged) and is compared with proto.Unmarshal on those bytes and on every prefix of them.
   (1) varints: all 2^64 values, whatever follows ... *)
Theorem C19_protowire_varint_roundtrip : forall n rest, (n < N64)%N -> dec_varint (enc_varint n ++ rest) = Some (n, rest).
Proof. exact varint_roundtrip. Qed.
Print Assumptions C19_protowire_varint_roundtrip.

(* ... (2) every wire struct whose string fields are UTF-8 - any field empty or not, sub-messages present or nil, all 2^64 integers,
   every length below 2^64 - decodes back to exactly itself ... *)
Theorem C19_protowire_message_roundtrip : forall p, wf_pvtx p -> strings_valid_pvtx p = true -> dec_pvtx (enc_pvtx p) = Some p.
Proof. exact pvtx_roundtrip. Qed.
Print Assumptions C19_protowire_message_roundtrip.

(* ... which is: whatever proto.Marshal hands out, proto.Unmarshal reads back as the same message ... *)
Theorem C19_protowire_marshal_unmarshal : forall p b, wf_pvtx p -> marshal_pvtx p = Some b -> dec_pvtx b = Some p.
Proof. exact marshal_unmarshal. Qed.
Print Assumptions C19_protowire_marshal_unmarshal.

(* ... (3) the known finding as a theorem of the model: a message has NO wire form exactly when one of its string fields (signer,
   subject, receiver, issuer) is not valid UTF-8 - such a vertex, which the ledger accepts and the storage codec keeps, is never
   gossiped - and bytes that carry such a signer address are refused on the way in ... *)
Theorem C19_protowire_non_utf8_has_no_wire_form : forall p, strings_valid_pvtx p = false <-> marshal_pvtx p = None.
Proof. exact marshal_refuses_non_utf8. Qed.
Print Assumptions C19_protowire_non_utf8_has_no_wire_form.
Theorem C19_protowire_non_utf8_not_read : forall p, wf_pvtx p -> utf8_valid (pv_signer p) = false -> dec_pvtx (enc_pvtx p) = None.
Proof. exact unmarshal_refuses_non_utf8. Qed.
Print Assumptions C19_protowire_non_utf8_not_read.

(* ... (4) in particular the wire struct src/gossip builds from ANY vertex a node can hold (the well-formedness of the storage model:
   fields below 2^32 bytes, 32-byte hashes, uint64 amounts and weight, int64 seconds) whose text fields are UTF-8 - with the negative /
   wrapped timestamps, nil and empty byte strings and zero amounts that proto3 leaves out of the message ... *)
Theorem C19_protowire_vertex_roundtrip : forall v, wf_vtx v -> strings_valid_pvtx (to_pvtx v) = true ->
  dec_pvtx (enc_pvtx (to_pvtx v)) = Some (to_pvtx v).
Proof. exact vertex_wire_roundtrip. Qed.
Print Assumptions C19_protowire_vertex_roundtrip.

(* ... (5) and two different wire structs never share their bytes. *)
Theorem C19_protowire_encoding_injective : forall v w, wf_pvtx v -> wf_pvtx w -> strings_valid_pvtx v = true -> strings_valid_pvtx w = true ->
  enc_pvtx v = enc_pvtx w -> v = w.
Proof. exact pvtx_encoding_injective. Qed.
Print Assumptions C19_protowire_encoding_injective.

(* ... (6) The order of the records does not matter: ANY permutation of the records proto.Marshal writes for a vertex reads as that
   vertex (a peer whose library serialises in another order interoperates); the harness feeds the reversed order to proto.Unmarshal. *)
Theorem C19_protowire_any_record_order : forall v fs', wf_pvtx v -> strings_valid_pvtx v = true -> Permutation (vtx_wire v) fs' ->
  dec_pvtx (enc_fields fs') = Some v.
Proof. exact any_record_order. Qed.
Print Assumptions C19_protowire_any_record_order.

(* ... (7) The messages actually sent - VrxMsgGossip and TrxMsgGossip: the item plus a REPEATED Gossiper field - come back identical:
   the vertex / transaction, and the gossiper list with the same entries in the same order, none added and none dropped (what C11/C12
   rely on when they reason about "the list the sender wrote"). *)
Theorem C19_protowire_vertex_envelope_roundtrip : forall m, wf_pvmsg m -> dec_pvmsg (enc_pvmsg m) = Some m.
Proof. exact pvmsg_roundtrip. Qed.
Print Assumptions C19_protowire_vertex_envelope_roundtrip.
Theorem C19_protowire_transaction_envelope_roundtrip : forall m, wf_ptmsg m -> dec_ptmsg (enc_ptmsg m) = Some m.
Proof. exact ptmsg_roundtrip. Qed.
Print Assumptions C19_protowire_transaction_envelope_roundtrip.

(* ... (8) The record grammar is closed under concatenation: two parsable byte strings, concatenated, parse to the concatenation of
   their records. This is what protobuf's MERGE of repeated occurrences of an embedded message amounts to, and what justifies the
   model's "decode the concatenation of the occurrences" (every occurrence also has to decode on its own, dec_sub). *)
Theorem C19_protowire_concatenation_is_merge : forall a b fa fb, parse_all a = Some fa -> parse_all b = Some fb ->
  parse_all (a ++ b) = Some (fa ++ fb).
Proof. exact parse_all_app. Qed.
Print Assumptions C19_protowire_concatenation_is_merge.

(* The decoder is order-insensitive and skips unknown fields (what lets a newer peer add a field), shown on Spice. *)
Theorem C19_protowire_unknown_field_skipped : forall s k w, wf_pspice s -> wf_field (k, w) -> (3 <= k)%N ->
  dec_pspice (enc_fields (spice_wire s ++ [(k, w)])) = Some s.
Proof. exact pspice_unknown_field_skipped. Qed.
Print Assumptions C19_protowire_unknown_field_skipped.

Example C19_protowire_nonvacuous :
  enc_pvtx (PVtx [65%N] 300%N [] (Some (PTrx [66%N] [] [] 1%N [] [] [] [] (Some (PSpice 0 0)))) [] [] [] 0%N)
  = [10; 1; 65; 16; 172; 2; 34; 7; 10; 1; 66; 32; 1; 74; 0]%N.
Proof. vm_compute. reflexivity. Qed.

(* UTF-8 as unicode/utf8.Valid decides it: the euro sign is text; an overlong slash, a surrogate and a lone continuation byte are not *)
Example C19_utf8_examples :
  utf8_valid [226; 130; 172]%N = true /\ utf8_valid [192; 175]%N = false /\ utf8_valid [237; 160; 128]%N = false /\ utf8_valid [128]%N = false /\
  utf8_valid [240; 159; 146; 169; 65]%N = true /\ utf8_valid [244; 144; 128; 128]%N = false.
Proof. vm_compute. repeat split; reflexivity. Qed.
