(* Properties/C19.v — vertices and transactions survive every transcoding unchanged. *)
From Coq Require Import List Arith NArith ZArith Lia Bool.
From Verif Require Import WalletFile Msg Codec CodecP.
Import ListNotations.
Local Open Scope Z_scope.

(* Wire (protobuf) mapping: every field comes back identical — byte strings are copied, integers are
   uint64 on both sides, and the timestamps survive uint64(UnixNano) / time.Unix(0, int64(u)) for every
   instant whose UnixNano is an int64 (negative ones included). B is any type of copied values. *)
Theorem C19_proto_roundtrip : forall (B : Type) (v : avtx B),
  - P63 <= a_created v < P63 -> - P63 <= at_created v < P63 -> of_proto (to_proto v) = v.
Proof. exact @proto_roundtrip. Qed.
Print Assumptions C19_proto_roundtrip.

(* msgpack primitives of the storage/cache codecs: a uint64 written as 0xcf + 8 big-endian bytes reads
   back, whatever follows it, for all 2^64 values ... *)
Theorem C19_msgpack_uint64_roundtrip : forall x rest, 0 <= x < P64 -> dec_u64 (enc_u64 x ++ rest) = Some (x, rest).
Proof. exact u64_roundtrip. Qed.
Print Assumptions C19_msgpack_uint64_roundtrip.

(* ... and a timestamp written as ext -1 in its 4-, 8- or 12-byte form (34-bit seconds packing) reads back
   to the same seconds and nanoseconds, for all int64 seconds (negative included) and all nanoseconds. *)
Theorem C19_msgpack_time_roundtrip : forall sec nsec rest, - P63 <= sec < P63 -> 0 <= nsec < 1000000000 ->
  dec_time (enc_time sec nsec ++ rest) = Some (sec, nsec).
Proof. exact time_roundtrip. Qed.
Print Assumptions C19_msgpack_time_roundtrip.
