(* Properties/C08.v — ledger operations never wedge the node.
   walker_sites / graph_writers / drain_fn_ok are regenerated from /repo's src/accountant on every run
   (harness/cmd/extract walker): every consumer of dag.AncestorsWalker and every graph-mutating call. *)
From Coq Require Import List String Arith Bool Lia.
From Verif Require Import Walker WalkerP StreamLock StreamLockP WalkerSite WalkerSiteP WalkerSites.
From Verif Require LockSites.
Import ListNotations.

(* the current tree: every consumer drains (deferred, or before every early exit), never touches the signal
   channel, checks the walker's error, walks under the ledger lock; every graph write holds the ledger write
   lock and none happens inside a walk or walk callback; drainWalker is `for range c {}` *)
Theorem C08_tree_discipline : tree_ok drain_fn_ok walker_sites graph_writers = true.
Proof. vm_compute. reflexivity. Qed.
Print Assumptions C08_tree_discipline.

(* For every consumer in the code, every number n of ancestors, every point k (0..n, or never) at which the caller's
   context is cancelled / the cut is found / validation fails, and every interleaving of walker and consumer:
   a reachable state is either the good end (graph read lock released, channels closed, consumer returned) or can
   step, and every step lowers a measure — so every run ends, and ends in the good end. *)
Theorem C08_no_walk_wedges : forall s, In s walker_sites -> forall n k st,
  Walker.reach n k (strategy_of s) st ->
    (good_end st \/ exists st', Walker.step n k (strategy_of s) st st')
    /\ (forall st', Walker.step n k (strategy_of s) st st' -> WalkerP.measure n st' < WalkerP.measure n st).
Proof. exact (sites_never_wedge _ _ _ C08_tree_discipline). Qed.
Print Assumptions C08_no_walk_wedges.

(* Streaming the DAG (walker holding the graph read lock, consumer re-taking it between receives) while any number
   of writers arrive, in any interleaving: never a deadlock, and it ends — because the stream holds the ledger lock. *)
Theorem C08_stream_never_deadlocks : forall n writers s,
  StreamLock.reach n (guarded_of walker_sites graph_writers) writers s ->
    (StreamLock.final s \/ exists s', StreamLock.step n (guarded_of walker_sites graph_writers) s s')
    /\ (forall s', StreamLock.step n (guarded_of walker_sites graph_writers) s s' -> StreamLockP.measure n s' < StreamLockP.measure n s).
Proof. exact (stream_never_deadlocks _ _ _ C08_tree_discipline). Qed.
Print Assumptions C08_stream_never_deadlocks.

(* what the discipline excludes (the code before fixes dce7b54 and 3c95971) *)
Theorem C08_signal_then_return_leaks_lock :
  Walker.reach 2 1 SignalThenReturn stuck_state /\ terminal 2 1 SignalThenReturn stuck_state /\ ~ good_end stuck_state.
Proof. exact signal_then_return_leaks_lock. Qed.
Print Assumptions C08_signal_then_return_leaks_lock.
Theorem C08_signal_after_finish_panics : Walker.reach 1 1 SignalThenReturn panic_state.
Proof. exact signal_then_return_send_on_closed. Qed.
Print Assumptions C08_signal_after_finish_panics.
Theorem C08_abandoned_walk_leaks_lock :
  Walker.reach 2 1 ReturnNoSignal abandoned_state /\ terminal 2 1 ReturnNoSignal abandoned_state /\ ~ good_end abandoned_state.
Proof. exact return_no_signal_leaks_lock. Qed.
Print Assumptions C08_abandoned_walk_leaks_lock.
Theorem C08_unguarded_stream_deadlocks :
  StreamLock.reach 2 false 1 deadlock_state /\ ~ StreamLock.final deadlock_state /\ forall s', ~ StreamLock.step 2 false deadlock_state s'.
Proof. exact unguarded_deadlock. Qed.
Print Assumptions C08_unguarded_stream_deadlocks.

(* No function of the ledger, the cache or the gossiper can leave with a lock still held: every lock taken without a
   deferred unlock is released on every way out (may-analysis of harness/cmd/extract over /repo's current source; the
   table lists the exits on which a lock may still be held). A lock that is never released wedges every later caller. *)
Theorem C08_no_lock_left_held : LockSites.lock_leaks = [].
Proof. vm_compute. reflexivity. Qed.
Print Assumptions C08_no_lock_left_held.
