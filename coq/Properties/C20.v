(* Properties/C20.v — a wallet file yields the original wallet or an error, never anything else.
   The cryptographic content (AES-GCM authenticity, gob round trip) enters as premises; the theorems'
   own content is the framing (nonce prefix), the length guards and the error plumbing. *)
From Coq Require Import List Arith NArith ZArith Lia Bool.
From Verif Require Import RepoConstants WalletFile WalletFileP.
Local Open Scope nat_scope.

Theorem C20_roundtrip : forall (wallet : Type) (seal : bytes -> bytes -> bytes -> bytes) (open : bytes -> bytes -> bytes -> option bytes) (gob_enc : wallet -> bytes) (gob_dec : bytes -> option wallet),
  (forall k n p, open k n (seal k n p) = Some p) -> forall k0 n0 p0,
  (forall w : wallet, gob_dec (gob_enc w) = Some w) -> length n0 = nonce_len ->
  forall w, key_ok k0 = true -> p0 = gob_enc w ->
  exists f, save_wallet wallet seal gob_enc k0 n0 w = Ok f /\ read_wallet wallet open gob_dec k0 f = Ok w.
Proof. exact roundtrip. Qed.
Print Assumptions C20_roundtrip.

Theorem C20_never_crashes : forall (wallet : Type) (open : bytes -> bytes -> bytes -> option bytes) (gob_dec : bytes -> option wallet) (k f : bytes),
  read_wallet wallet open gob_dec k f <> Panic.
Proof. exact never_panics. Qed.
Print Assumptions C20_never_crashes.

Theorem C20_wrong_key_is_error : forall (wallet : Type) (seal : bytes -> bytes -> bytes -> bytes) (open : bytes -> bytes -> bytes -> option bytes) (gob_dec : bytes -> option wallet) (k0 n0 p0 : bytes),
  (forall k n p, k <> k0 -> open k n (seal k0 n0 p0) = Some p -> False) -> length n0 = nonce_len ->
  forall k, k <> k0 -> read_wallet wallet open gob_dec k (n0 ++ seal k0 n0 p0) = Err.
Proof. exact wrong_key_error. Qed.
Print Assumptions C20_wrong_key_is_error.

Theorem C20_altered_file_is_error : forall (wallet : Type) (seal : bytes -> bytes -> bytes -> bytes) (open : bytes -> bytes -> bytes -> option bytes) (gob_dec : bytes -> option wallet) (k0 n0 p0 : bytes),
  (forall n c p, open k0 n c = Some p -> n = n0 /\ c = seal k0 n0 p0) ->
  forall f, f <> n0 ++ seal k0 n0 p0 -> read_wallet wallet open gob_dec k0 f = Err.
Proof. exact altered_file_error. Qed.
Print Assumptions C20_altered_file_is_error.

Theorem C20_truncated_file_is_error : forall (wallet : Type) (seal : bytes -> bytes -> bytes -> bytes) (open : bytes -> bytes -> bytes -> option bytes) (gob_dec : bytes -> option wallet) (k0 n0 p0 : bytes),
  (forall n c p, open k0 n c = Some p -> n = n0 /\ c = seal k0 n0 p0) -> length n0 = nonce_len ->
  forall m, m < length (n0 ++ seal k0 n0 p0) -> read_wallet wallet open gob_dec k0 (firstn m (n0 ++ seal k0 n0 p0)) = Err.
Proof. exact truncation_error. Qed.
Print Assumptions C20_truncated_file_is_error.
