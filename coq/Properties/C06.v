(* Properties/C06.v — reported balances equal the reference sum and agree across nodes.
   [flowZ L a tip] = valZ(checkpointed funds of a) + received - sent over {tip} ∪ ancestors(tip), in Z.
   The balance query of the model returns a value, not a ledger: it cannot change the ledger. *)
From Verif Require Import U64 Spice SpiceP RepoConstants Ledger ListFacts LedgerInv LedgerGraph LedgerFunds LedgerReach.
From Coq Require Import NArith Permutation.

(* Whatever number is reported is canonical and equals the reference sum — for every reachable ledger
   (amounts_canon, C01_reachable_amounts_canonical), every address (unknown ones, issuer = receiver
   included), every tip the map range may end on, every cancellation point. *)
Theorem C06_balance_is_reference_sum : forall L a tip b m,
  amounts_canon L -> In tip (dag L) -> balance L a tip b = Some m -> canon m /\ valZ m = flowZ L a tip.
Proof. exact balance_value. Qed.
Print Assumptions C06_balance_is_reference_sum.

(* A negative sum is an error, never a number. *)
Theorem C06_negative_is_error : forall L a tip b,
  amounts_canon L -> In tip (dag L) -> flowZ L a tip < 0 -> balance L a tip b = None.
Proof. exact balance_negative_is_error. Qed.
Print Assumptions C06_negative_is_error.

(* A non-negative sum IS reported when the caller does not cancel, provided the accumulated inflow and
   outflow are representable in 2^64 currency units (forced hypothesis: the code accumulates them in
   the two-part uint64 format before subtracting). *)
Theorem C06_nonnegative_is_reported : forall L a tip,
  amounts_canon L -> In tip (dag L) ->
  valZ (funds_of L a) + sumZ (inZ a) (history L tip) < LIMIT -> sumZ (outZ a) (history L tip) < LIMIT ->
  0 <= flowZ L a tip -> exists m, balance L a tip None = Some m.
Proof. exact balance_complete. Qed.
Print Assumptions C06_nonnegative_is_reported.

(* Nodes whose tip histories hold the same vertices (any insertion order) and the same checkpointed funds
   report the same balance for every address. *)
Theorem C06_same_vertices_same_balance : forall L1 L2 a t1 t2 b1 b2 m1 m2,
  amounts_canon L1 -> amounts_canon L2 -> In t1 (dag L1) -> In t2 (dag L2) ->
  Permutation (history L1 t1) (history L2 t2) -> funds_of L1 a = funds_of L2 a ->
  balance L1 a t1 b1 = Some m1 -> balance L2 a t2 b2 = Some m2 -> m1 = m2.
Proof. exact balance_set_determined. Qed.
Print Assumptions C06_same_vertices_same_balance.
