(* Properties/C05.v — Spice arithmetic is exact, atomic and (in the ledger) canonical.
   Only property theorems, each closed by [exact] and followed by Print Assumptions. *)
From Verif Require Import U64 RepoConstants Spice SpiceP Ledger ListFacts LedgerInv LedgerReach.

(* Supplying behaves like + on the unbounded integer cur*10^18+sup: success iff representable. *)
Theorem C05_supply_exact : forall m a, canon m -> canon a ->
  (valZ m + valZ a < LIMIT ->
     exists m', supply m a = (m', None) /\ canon m' /\ valZ m' = valZ m + valZ a) /\
  (LIMIT <= valZ m + valZ a -> supply m a = (m, Some Overflow)).
Proof. exact supply_exact. Qed.
Print Assumptions C05_supply_exact.

(* Transferring: success iff funds suffice and the target can hold them; exact on both sides. *)
Theorem C05_transfer_exact : forall a f t, canon a -> canon f -> canon t ->
  (valZ a <= valZ f -> valZ t + valZ a < LIMIT ->
     exists f' t', transfer a f t = ((f', t'), None) /\ canon f' /\ canon t' /\
                   valZ f' = valZ f - valZ a /\ valZ t' = valZ t + valZ a) /\
  ((valZ f < valZ a \/ LIMIT <= valZ t + valZ a) ->
     exists e, transfer a f t = ((f, t), Some e)).
Proof. exact transfer_exact. Qed.
Print Assumptions C05_transfer_exact.

Theorem C05_drain_exact : forall m a sink, canon a -> canon m -> canon sink ->
  (valZ a <= valZ m -> valZ sink + valZ a < LIMIT ->
     exists m' s', drain m a sink = ((m', s'), None) /\ canon m' /\ canon s' /\
                   valZ m' = valZ m - valZ a /\ valZ s' = valZ sink + valZ a) /\
  ((valZ m < valZ a \/ LIMIT <= valZ sink + valZ a) ->
     exists e, drain m a sink = ((m, sink), Some e)).
Proof. exact drain_exact. Qed.
Print Assumptions C05_drain_exact.

(* A failing operation changes neither side — for ALL 64-bit operands, canonical or not. *)
Theorem C05_failure_atomic :
  (forall m a r e, supply m a = (r, Some e) -> r = m) /\
  (forall a f t r e, transfer a f t = (r, Some e) -> r = (f, t)).
Proof. exact failure_atomic. Qed.
Print Assumptions C05_failure_atomic.

(* Why canonicity must be enforced at the ledger boundary: with a non-canonical operand the
   arithmetic is NOT value preserving (wrap-around of the supplementary word). *)
Theorem C05_noncanonical_wraps_refuted :
  exists m a m', u64 (cur m) /\ u64 (sup m) /\ u64 (cur a) /\ u64 (sup a) /\
    supply m a = (m', None) /\ valZ m' <> valZ m + valZ a.
Proof. exact supply_noncanonical_refuted. Qed.
Print Assumptions C05_noncanonical_wraps_refuted.

(* Ledger part: no sequence of entry-point calls gets a non-canonical amount into the ledger
   (live DAG or checkpoint), so the exactness theorems above apply to every amount a ledger holds. *)
Theorem C05_ledger_amounts_canonical : forall me L, reach me L ->
  forall v, In v (vertices L) -> canon (t_spice (v_trx v)).
Proof. exact reach_canonical. Qed.
Print Assumptions C05_ledger_amounts_canonical.
