(* Properties/C02.v — ledger-wide conservation.
   [total ws S]   : sum over the wallets ws of (received - sent) over the vertex collection S, in Z.
   [issuedZ g S]  : what the genesis wallet g issued in S.
   [confirmed L]  : live vertices that have a child, plus the checkpoint. *)
From Verif Require Import U64 Spice SpiceP RepoConstants Ledger ListFacts LedgerInv LedgerGraph LedgerFunds LedgerReach Conservation.
From Coq Require Import NArith.

(* Supply never grows and never shrinks: over ANY collection S of vertices of a reachable ledger
   (all of them, or the confirmed ones, per branch or in union), the balances of all wallets other than
   the genesis issuer add up to exactly what genesis issued in S.  Rests on the sealing rules (C10):
   only genesis vertices are issued by the genesis wallet and nobody pays spice to it. *)
Theorem C02_supply_conserved : forall me L ws S, reach me L -> NoDup ws -> ~ In (genesis L) ws ->
  (forall v, In v S -> In v (vertices L)) ->
  (forall v, In v S -> is_spice (v_trx v) = true ->
     In (t_receiver (v_trx v)) ws /\ (t_issuer (v_trx v) = genesis L \/ In (t_issuer (v_trx v)) ws)) ->
  total ws S = issuedZ (genesis L) S.
Proof. exact reach_conservation. Qed.
Print Assumptions C02_supply_conserved.

(* "No wallet overdrawn over the union of confirmed vertices" is REFUTED by the faithful model (and by
   the code: KNOWN-FINDING merge-double-spend): validation walks one tip's own ancestors only, so two
   branches spending the same 100 units are each covered in their own history and a proposal that
   merges them confirms both.  Four operations from the empty ledger; wallet 2 ends at -100. *)
Theorem C02_solvent_refuted_by_merge :
  reach 1 cx_ledger /\
  (forall v, In v (confirmed cx_ledger) -> In v (vertices cx_ledger)) /\
  length (confirmed cx_ledger) = 3%nat /\
  netZ 2 (confirmed cx_ledger) < 0.
Proof. exact merge_double_spend. Qed.
Print Assumptions C02_solvent_refuted_by_merge.

(* What does hold per branch is C01: every vertex that gets a child is covered within its own history
   (C01_gossip_confirms_only_covered, C01_proposal_confirms_only_covered), which on a chain-shaped
   ledger is solvency of every spender over everything (C01_chain). *)
Theorem C02_solvent_on_chain : forall L n, Permutation.Permutation (history L n) (map nv (dag L)) -> coversZ L n ->
  let a := t_issuer (v_trx (nv n)) in
  valZ (funds_of L a) + sumZ (inZ a) (map nv (dag L)) >= sumZ (outZ a) (map nv (dag L)).
Proof. exact covers_on_chain. Qed.
Print Assumptions C02_solvent_on_chain.
