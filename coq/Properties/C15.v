(* Properties/C15.v — no request can crash a node.
   Handler programs: coq/Model/Handlers.v (one per RPC of the notary, gossip and webhook services, plus the
   peer-vertex ingress used while syncing and fetching parents).  A shape gives EVERY bytes/string field an
   arbitrary length, every sub-message an arbitrary presence and every dependency an arbitrary outcome. *)
From Coq Require Import List Arith Bool Lia.
From Verif Require Import Handlers HandlersP.
Import ListNotations.

(* The static analysis is sound: a program it accepts cannot panic, whatever the message and the dependencies do. *)
Theorem C15_analysis_sound : forall p sh, safe p no_facts = true -> fst (run p sh) <> RPanic.
Proof. exact safe_never_panics. Qed.
Print Assumptions C15_analysis_sound.

(* Every handler is accepted, hence: no message shape, however short, long or incomplete its fields, and no
   dependency outcome makes any of the 18 handlers / ingress paths panic. *)
Theorem C15_no_handler_panics : forall h sh, In h all_handlers -> fst (run (program h) sh) <> RPanic.
Proof. exact no_handler_panics. Qed.
Print Assumptions C15_no_handler_panics.

(* A rejected request made no mutating call (awaiting cache, ledger, challenge store, peer table, webhooks)
   — for all handlers except Confirm and Reject. *)
Theorem C15_rejected_request_mutates_nothing : forall h sh ms, In h quiet_handlers ->
  run (program h) sh = (RErr, ms) -> ms = [].
Proof. exact rejected_request_mutates_nothing. Qed.
Print Assumptions C15_rejected_request_mutates_nothing.

(* KNOWN-FINDING: Confirm and Reject take the transaction out of the awaiting cache and only then try to seal it;
   when sealing fails the request is rejected but the awaiting entry is gone. *)
Theorem C15_confirm_reject_refuted :
  run p_confirm cx_shape = (RErr, [mRemove]) /\ run p_reject cx_shape = (RErr, [mRemove]).
Proof. exact confirm_reject_lose_awaiting. Qed.
Print Assumptions C15_confirm_reject_refuted.
