(* Properties/C14.v — syncing: loading is all-or-nothing on the loaded flag. *)
From Verif Require Import U64 Spice SpiceP RepoConstants Ledger ListFacts LedgerInv LedgerGraph Ancestors LedgerFunds LedgerReach TruncateP LoadWitness.
From Coq Require Import NArith.

(* Whatever the stream, a load that does not succeed leaves the node marked as not loaded. *)
Theorem C14_failure_leaves_not_loaded : forall L s topo L',
  loaded L = false -> load_dag L s topo = (L', false) -> loaded L' = false.
Proof. exact load_failure_not_loaded. Qed.
Print Assumptions C14_failure_leaves_not_loaded.

(* Every malformed stream of the property's list is refused: second self-sealed vertex, empty
   transaction, non-canonical amount, duplicate vertex or transaction ([load_insert] = None), unknown
   parent or a cycle (no children-first arrangement of the stream exists: [topo_ok] fails). *)
Theorem C14_malformed_stream_refused : forall L s topo,
  ( (2 <= length (filter (fun v => N.eqb (t_issuer (v_trx v)) (v_signer v)) s))%nat
    \/ existsb (fun v => is_empty_trx (v_trx v)) s = true
    \/ existsb (fun v => negb (canonb (t_spice (v_trx v)))) s = true
    \/ load_insert L s = None
    \/ (is_perm_hashes s topo && topo_ok topo) = false ) ->
  snd (load_dag L s topo) = false.
Proof. exact load_rejects_malformed. Qed.
Print Assumptions C14_malformed_stream_refused.

(* "From then on accepts and rejects gossip exactly as the peer does" is FALSE of the faithful model (and of the code:
   KNOWN-FINDING followup-gossip-differs:weight-window-not-reproduced): the loaded node holds the peer's vertices,
   edges and genesis wallet, but its admission counters restart (weight 50 / throughput 50), so a vertex built on a
   light tip is refused by a peer whose weight has grown and accepted by the node that synced from it. *)
Theorem C14_followup_verdicts_refuted :
  snd (load_dag (init 9%N) w_stream w_stream) = true /\
  map nv (dag w_dst) = map nv (dag w_src) /\ map lp (dag w_dst) = map lp (dag w_src) /\ genesis w_dst = genesis w_src /\
  (weight w_src, throughput w_src) = (1000000, 62)%Z /\ (weight w_dst, throughput w_dst) = (50, 50)%Z /\
  snd (add_leaf w_src w_follow None) = RRejected /\ snd (add_leaf w_dst w_follow None) = ROk.
Proof. exact load_counters_not_reproduced. Qed.
Print Assumptions C14_followup_verdicts_refuted.
