(* Properties/C14.v — syncing: a node that loads the stream of a never-truncated peer reproduces its vertices, parent
   links, transaction index, genesis wallet and every balance; loading is all-or-nothing on the loaded flag; what is NOT
   reproduced (admission counters; a truncated peer) is refuted / a known finding. *)
From Verif Require Import U64 Spice SpiceP RepoConstants Ledger ListFacts LedgerInv LedgerGraph Ancestors LedgerFunds LedgerReach TruncateP TruncateFunds LoadWitness LoadP.
From Coq Require Import Permutation.
From Coq Require Import NArith.

(* Whatever the stream, a load that does not succeed leaves the node marked as not loaded. *)
Theorem C14_failure_leaves_not_loaded : forall L s topo L',
  loaded L = false -> load_dag L s topo = (L', false) -> loaded L' = false.
Proof. exact load_failure_not_loaded. Qed.
Print Assumptions C14_failure_leaves_not_loaded.

(* Every malformed stream of the property's list is refused: second self-sealed vertex, empty
   transaction, non-canonical amount, duplicate vertex or transaction ([load_insert] = None), unknown
   parent or a cycle (no children-first arrangement of the stream exists: [topo_ok] fails). *)
Theorem C14_malformed_stream_refused : forall L s topo,
  ( (2 <= length (filter (fun v => N.eqb (t_issuer (v_trx v)) (v_signer v)) s))%nat
    \/ existsb (fun v => is_empty_trx (v_trx v)) s = true
    \/ existsb (fun v => negb (canonb (t_spice (v_trx v)))) s = true
    \/ load_insert L s = None
    \/ (is_perm_hashes s topo && topo_ok topo) = false ) ->
  snd (load_dag L s topo) = false.
Proof. exact load_rejects_malformed. Qed.
Print Assumptions C14_malformed_stream_refused.

(* Every reachable ledger has at most one parentless vertex, and it is the genesis vertex sealed by the genesis wallet
   (so a peer's own stream never trips LoadDag's "second self-sealed vertex" rule). *)
Theorem C14_one_genesis : forall me L, reach me L ->
  (forall v, In v (vertices L) -> v_left v = 0%N -> is_genesis_vtx v /\ v_signer v = genesis L) /\
  (forall u v, In u (vertices L) -> In v (vertices L) -> v_left u = 0%N -> v_left v = 0%N -> u = v).
Proof. exact reach_roots. Qed.
Print Assumptions C14_one_genesis.

(* The stream of a reachable peer that never truncated and still holds its (non-empty) genesis vertex, in ANY order,
   loads; the loaded node holds exactly the peer's vertices in the peer's order with set-equal parent links, maps every
   transaction hash to the same vertex, recognises the same genesis wallet, and answers every balance query (any address,
   any tip, any cancellation point) exactly as the peer does. *)
Theorem C14_load_reproduces_peer : forall me Ls s me',
  reach me Ls -> st_vtx Ls = [] -> Permutation s (map nv (dag Ls)) ->
  (exists gv, In gv (map nv (dag Ls)) /\ v_left gv = 0%N /\ is_empty_trx (v_trx gv) = false) ->
  exists L', load_dag (init me') s (map nv (dag Ls)) = (L', true) /\
    dag L' = rebuilt Ls /\ Forall2 node_equiv (dag L') (dag Ls) /\
    (forall th, assoc th (index L') = assoc th (index Ls)) /\
    genesis L' = genesis Ls /\ loaded L' = true /\
    (st_funds Ls = [] -> forall a tip b, balance L' a (Node (nv tip) (load_parents (nv tip))) b = balance Ls a tip b).
Proof. exact load_reproduces_reachable. Qed.
Print Assumptions C14_load_reproduces_peer.

(* the premises are met by a concrete reachable peer (the one of the refutation below): the theorem is not vacuous *)
Theorem C14_premises_satisfiable :
  reach 1%N w_src /\ st_vtx w_src = [] /\ Permutation w_stream (map nv (dag w_src)) /\
  (exists gv, In gv (map nv (dag w_src)) /\ v_left gv = 0%N /\ is_empty_trx (v_trx gv) = false).
Proof. exact load_premises_satisfiable. Qed.
Print Assumptions C14_premises_satisfiable.

(* "From then on accepts and rejects gossip exactly as the peer does" is FALSE of the faithful model (and of the code:
   KNOWN-FINDING followup-gossip-differs:weight-window-not-reproduced): the loaded node holds the peer's vertices,
   edges and genesis wallet, but its admission counters restart (weight 50 / throughput 50), so a vertex built on a
   light tip is refused by a peer whose weight has grown and accepted by the node that synced from it. *)
Theorem C14_followup_verdicts_refuted :
  snd (load_dag (init 9%N) w_stream w_stream) = true /\
  map nv (dag w_dst) = map nv (dag w_src) /\ map lp (dag w_dst) = map lp (dag w_src) /\ genesis w_dst = genesis w_src /\
  (weight w_src, throughput w_src) = (1000000, 62)%Z /\ (weight w_dst, throughput w_dst) = (50, 50)%Z /\
  snd (add_leaf w_src w_follow None) = RRejected /\ snd (add_leaf w_dst w_follow None) = ROk.
Proof. exact load_counters_not_reproduced. Qed.
Print Assumptions C14_followup_verdicts_refuted.
