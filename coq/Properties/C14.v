(* Properties/C14.v — syncing: loading is all-or-nothing on the loaded flag. *)
From Verif Require Import U64 Spice SpiceP RepoConstants Ledger ListFacts LedgerInv LedgerGraph Ancestors LedgerFunds LedgerReach TruncateP.
From Coq Require Import NArith.

(* Whatever the stream, a load that does not succeed leaves the node marked as not loaded. *)
Theorem C14_failure_leaves_not_loaded : forall L s topo L',
  loaded L = false -> load_dag L s topo = (L', false) -> loaded L' = false.
Proof. exact load_failure_not_loaded. Qed.
Print Assumptions C14_failure_leaves_not_loaded.

(* Every malformed stream of the property's list is refused: second self-sealed vertex, empty
   transaction, non-canonical amount, duplicate vertex or transaction ([load_insert] = None), unknown
   parent or a cycle (no children-first arrangement of the stream exists: [topo_ok] fails). *)
Theorem C14_malformed_stream_refused : forall L s topo,
  ( (2 <= length (filter (fun v => N.eqb (t_issuer (v_trx v)) (v_signer v)) s))%nat
    \/ existsb (fun v => is_empty_trx (v_trx v)) s = true
    \/ existsb (fun v => negb (canonb (t_spice (v_trx v)))) s = true
    \/ load_insert L s = None
    \/ (is_perm_hashes s topo && topo_ok topo) = false ) ->
  snd (load_dag L s topo) = false.
Proof. exact load_rejects_malformed. Qed.
Print Assumptions C14_malformed_stream_refused.
