(* Properties/C17.v — the awaiting-transaction index never loses or invents entries.
   [listed c a]  : what the address entry of a lists (what ReadTransactions can return);
   [listing c a] : hashes of the transactions saved and not removed that have a as issuer or receiver. *)
From Coq Require Import List Arith NArith Bool Lia.
From Verif Require Import Cache CacheP.
From Verif Require LockSites.
Import ListNotations.

(* For EVERY sequence of save / remove / read calls (each atomic: they run under one mutex), for every
   address, exactly the saved-and-not-removed transactions involving it are listed; no hash twice. *)
Theorem C17_listed_is_saved_not_removed : forall ops,
  let c := fold_left cstep ops (Cache [] []) in
  NoDup (map c_hash (trxs c)) /\ forall a h, In h (listed c a) <-> In h (listing c a).
Proof. exact CInv_all_sequences. Qed.
Print Assumptions C17_listed_is_saved_not_removed.

(* Saving: a new transaction is added (and, by the invariant, listed for issuer and receiver);
   a transaction that is already awaiting is refused and nothing changes. *)
Theorem C17_save : forall c t c' r, CInv c -> save c t = (c', r) ->
  CInv c' /\
  (r = CExists -> c' = c /\ In (c_hash t) (map c_hash (trxs c))) /\
  (r = COk -> ~ In (c_hash t) (map c_hash (trxs c)) /\ trxs c' = t :: trxs c) /\
  (r <> CNotFound /\ r <> CUnauthorized).
Proof. exact save_refines. Qed.
Print Assumptions C17_save.

(* Removal: only the receiver can remove; removal by the receiver takes the transaction out (hence, by the
   invariant, off both lists); an unknown hash or a caller that is not the receiver changes nothing. *)
Theorem C17_remove : forall c h a c' r, CInv c -> remove c h a = (c', r) ->
  CInv c' /\
  (r = CNotFound -> c' = c /\ ~ In h (map c_hash (trxs c))) /\
  (r = CUnauthorized -> c' = c /\ exists t, In t (trxs c) /\ c_hash t = h /\ c_receiver t <> a) /\
  (r = COk -> exists t, In t (trxs c) /\ c_hash t = h /\ c_receiver t = a /\
              trxs c' = filter (fun x => negb (N.eqb (c_hash x) h)) (trxs c)) /\
  r <> CExists.
Proof. exact remove_refines. Qed.
Print Assumptions C17_remove.

(* Reading returns exactly the listing and never changes what is saved. *)
Theorem C17_read : forall c a c' r, CInv c -> read c a = (c', r) ->
  CInv c' /\ trxs c' = trxs c /\
  match r with
  | Some l => forall h, In h l <-> In h (listing c a)
  | None => listing c a = []
  end.
Proof. exact read_refines. Qed.
Print Assumptions C17_read.

(* Why the mutex is needed: with the get / set actions of two saves interleaved, an entry is lost; with
   the operations atomic every interleaving IS a sequential order, and the first theorem applies. *)
Theorem C17_interleaved_rmw_refuted :
  run_rmw 1 2 [AGet true; AGet false; ASet true; ASet false] = [2%N] /\
  run_rmw 1 2 [AGet true; ASet true; AGet false; ASet false] = [1%N; 2%N].
Proof. exact interleaved_rmw_loses_entry. Qed.
Print Assumptions C17_interleaved_rmw_refuted.

(* The premise "each operation is atomic": in the source as it is now, every call that Save / Remove / ReadTransactions
   (and whatever they call) make on the store happens with the cache object's lock held exclusively
   (Gen/LockSites.v, regenerated on every run; at least the three operations' own calls are listed). *)
Theorem C17_operations_run_under_the_lock :
  forallb (fun s => Nat.eqb (snd s) 2) LockSites.cache_store_sites && Nat.leb 6 (length LockSites.cache_store_sites) = true.
Proof. vm_compute. reflexivity. Qed.
Print Assumptions C17_operations_run_under_the_lock.
