(* Properties/C01.v — no confirmed transfer overdraws its issuer within the history it builds on.

   [coversZ L n]   : valZ(checkpointed funds of issuer) + received over {n} ∪ ancestors(n) >= spent over the same
                     set, in unbounded integers (Z), n's own transfer included.
   [needs_cover]   : n moves spice, its sealer is not in the trusted store, n is not a root.
   [covered L n]   : needs_cover L n -> coversZ L n.
   A vertex becomes confirmed through the API exactly when a new vertex names it as a parent while it
   is a tip ([has_child = false]); truncation confirms nothing new.  *)
From Verif Require Import U64 Spice SpiceP RepoConstants Ledger ListFacts LedgerInv LedgerGraph LedgerFunds LedgerReach.
From Coq Require Import NArith Permutation.

(* The accounting of validateLeaf — two-part uint64 arithmetic with wrap-around written out — accepts a
   tip only if the inequality holds over Z.  For every reachable ledger, every cancellation budget. *)
Theorem C01_validation_sound : forall L n b b',
  amounts_canon L -> In n (dag L) -> validate L n b = (VOk, b') -> needs_cover L n -> coversZ L n.
Proof. exact validate_ok_covers. Qed.
Print Assumptions C01_validation_sound.

Theorem C01_reachable_amounts_canonical : forall me L, reach me L -> amounts_canon L.
Proof. exact reach_amounts_canon. Qed.
Print Assumptions C01_reachable_amounts_canonical.

(* Gossip path (and, below, the orphan-retry path): when a delivered vertex is admitted, each declared
   parent that was a tip — i.e. each vertex this operation confirms — is covered. *)
Theorem C01_gossip_confirms_only_covered : forall me L v b L', reach me L -> add_leaf L v b = (L', ROk) ->
  forall h p, In h (decl v) -> find_node h (dag L) = Some p -> has_child L h = false -> covered L p.
Proof. exact gossip_confirms_only_covered. Qed.
Print Assumptions C01_gossip_confirms_only_covered.

Theorem C01_retry_confirms_only_covered : forall me L v rep b L', reach me L -> add_leaf_mem L v rep b = (L', ROk) ->
  forall h p, In h (decl v) -> find_node h (dag L) = Some p -> has_child L h = false -> covered L p.
Proof. exact retry_confirms_only_covered. Qed.
Print Assumptions C01_retry_confirms_only_covered.

(* Proposal path, for every tip visiting order (Go map order) and cancellation point: the new vertex is
   inserted into a ledger L2 in which both parents are tips that are covered (dropping other tips on the
   way does not change a tip's history: coversZ_drop_tip). *)
Theorem C01_proposal_confirms_only_covered : forall me L t o1 o2 newh vok b L' v, reach me L ->
  create_leaf L t o1 o2 newh vok b = (L', ROk, Some v) ->
  exists l r L2, L' = insert L2 v (dedup2 (nhash l) (nhash r)) /\ v_left v = nhash l /\ v_right v = nhash r /\
    In l (dag L2) /\ In r (dag L2) /\ has_child L2 (nhash l) = false /\ has_child L2 (nhash r) = false /\
    covered L2 l /\ covered L2 r.
Proof. exact proposal_confirms_only_covered. Qed.
Print Assumptions C01_proposal_confirms_only_covered.

(* A tip that fails the test is dropped — vertex, edges and index entry — instead of being built upon. *)
Theorem C01_failing_tip_dropped : forall L n b r b' e,
  find_node (nhash n) (dag L) = Some n -> has_child L (nhash n) = false -> validate L n b = (r, b') -> r <> VOk ->
  valid_leaves L [nhash n] [] e b = (((drop_tip L n, []), true), b').
Proof. exact failing_tip_dropped. Qed.
Print Assumptions C01_failing_tip_dropped.

(* Truncation checkpoints only vertices that already had a child: it confirms nothing new. *)
Theorem C01_truncation_confirms_nothing_new : forall L tip cut a32 L' r, truncate L tip cut a32 = (L', r) ->
  forall v, In v (st_vtx L') -> In v (st_vtx L) \/ exists n, In n (dag L) /\ nv n = v /\ has_child L (nhash n) = true.
Proof. exact truncate_checkpoints_confirmed. Qed.
Print Assumptions C01_truncation_confirms_nothing_new.

(* On a single chain the tip's history is the whole live graph, so coverage is exactly
   "the wallet never spends more than it holds". *)
Theorem C01_chain : forall L n, Permutation (history L n) (map nv (dag L)) -> coversZ L n ->
  let a := t_issuer (v_trx (nv n)) in
  valZ (funds_of L a) + sumZ (inZ a) (map nv (dag L)) >= sumZ (outZ a) (map nv (dag L)).
Proof. exact covers_on_chain. Qed.
Print Assumptions C01_chain.
