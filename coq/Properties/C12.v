(* Properties/C12.v — gossiper lists cannot be forged to suppress delivery. *)
From Coq Require Import List Arith NArith ZArith Bool Lia.
From Verif Require Import WalletFile Msg MsgP Gossip GossipP.
Import ListNotations.

(* An address counts as "already informed" only if the entry carries a signature that verifies under THAT
   address's key over address | THIS item's hash (and the entry's digest is that message's digest). *)
Theorem C12_verified_entry_is_signed : forall sha vrfy addr_pk hash l a,
  In a (verify_gossipers sha vrfy addr_pk hash l) ->
  exists d s pk, In (a, d, s) l /\ addr_pk a = Some pk /\ vrfy pk (sha (gossiper_msg a hash)) s = true /\ d = sha (gossiper_msg a hash).
Proof. exact verified_gossiper_signed. Qed.
Print Assumptions C12_verified_entry_is_signed.

(* address | hash is injective (fixed-width hash suffix): a signature for another item or another address
   is a signature over a different message. *)
Theorem C12_signed_message_injective : forall a h a' h', length h = 32%nat -> length h' = 32%nat ->
  gossiper_msg a h = gossiper_msg a' h' -> a = a' /\ h = h'.
Proof. exact gossiper_msg_inj. Qed.
Print Assumptions C12_signed_message_injective.

(* Entries that do not verify (unsigned, signed for a different item, signed by a different key) are
   ignored: the handler behaves exactly as if they were not there — the listed node still processes, and
   others still forward to it. *)
Theorem C12_invalid_entries_ignored : forall peers accept st n g forged,
  (forall e, In e forged -> snd e = false) -> handle peers accept st n (g ++ forged) = handle peers accept st n g.
Proof. exact invalid_entries_ignored. Qed.
Print Assumptions C12_invalid_entries_ignored.

(* Hence with any amount of forged entries on any message, an honest network still delivers to every
   reachable node exactly once (C11 applies to the verified sets). What a malicious relay CAN do is refuted
   below. *)

(* KNOWN-FINDING flash-poisoning: the duplicate-suppression memory is marked BEFORE the item is verified.
   A Byzantine relay (node 3) that hands node 4 a corrupted copy carrying the same hash first makes node 4
   drop the genuine copies arriving from the honest node 2: at quiescence node 4 has not admitted the
   item although it has the honest path 1 -> 2 -> 4. *)
Theorem C12_flash_poisoning_refuted :
  inflight (grun px_peers (fun _ => true) 1 px_schedule) = [] /\
  processed (grun px_peers (fun _ => true) 1 px_schedule) = [1%N; 2%N; 3%N] /\
  In 4%N (px_peers 2).
Proof. exact flash_poisoning. Qed.
Print Assumptions C12_flash_poisoning_refuted.
