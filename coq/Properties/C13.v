(* Properties/C13.v — vertices arriving before their parents are parked and later admitted. *)
From Verif Require Import U64 Spice SpiceP RepoConstants Ledger ListFacts LedgerInv LedgerGraph Ancestors LedgerFunds LedgerReach TruncateP LoadWitness.
From Coq Require Import NArith.

(* A vertex whose (left) parent is still unknown is reported as "parent missing" and parked exactly
   once, with its retry counter bumped; nothing else in the ledger changes. *)
Theorem C13_unknown_parent_reported_and_parked : forall L v rep b,
  find_node (v_left v) (dag L) = None ->
  Z.of_nat (length (parked L)) <> maxArraySize -> rep <= maxRepeats ->
  link_parents L v rep [v_left v; v_right v] [] b = ((set_parked L (parked L ++ [(v, rep + 1)]), RParentMissing, []), b).
Proof. exact missing_left_parent_parked. Qed.
Print Assumptions C13_unknown_parent_reported_and_parked.

(* Bounds (constants regenerated from the source): a full buffer or an exhausted retry budget refuses. *)
Theorem C13_buffer_and_retry_bounds : forall L v rep,
  (Z.of_nat (length (parked L)) = maxArraySize \/ maxRepeats < rep) -> park L v rep = (L, false).
Proof. exact park_bounds. Qed.
Print Assumptions C13_buffer_and_retry_bounds.

(* The retry tick is the normal admission path: same guards, same validation, same insertion. *)
Theorem C13_retry_is_admission_path : forall L v rep rest b,
  parked L = (v, rep) :: rest ->
  retry_one L b = (fst (add_leaf_mem (set_parked L rest) v rep b), Some (snd (add_leaf_mem (set_parked L rest) v rep b))).
Proof. exact retry_is_admission. Qed.
Print Assumptions C13_retry_is_admission_path.

(* Invalid vertices are never admitted through the retry path (nor parked by the gossip path). *)
Theorem C13_invalid_never_admitted : forall L v b, v_ok v = false ->
  (exists r, add_leaf L v b = (L, r) /\ r <> ROk /\ r <> RParentMissing) /\
  (forall rep, exists r, add_leaf_mem L v rep b = (L, r) /\ r <> ROk /\ r <> RParentMissing).
Proof. exact unverified_never_admitted. Qed.
Print Assumptions C13_invalid_never_admitted.

(* Nothing is admitted twice, whatever the delivery order, duplicates and retries: in every reachable
   ledger vertex and transaction hashes are duplicate-free over live graph + checkpoint. *)
Theorem C13_nothing_admitted_twice : forall me L, reach me L ->
  NoDup (map v_hash (vertices L)) /\ NoDup (map thash (vertices L)).
Proof. exact reach_nodup. Qed.
Print Assumptions C13_nothing_admitted_twice.

(* Every tip that a retried vertex confirms is covered (C01 on the retry path). *)
Theorem C13_retry_respects_funds : forall me L v rep b L', reach me L -> add_leaf_mem L v rep b = (L', ROk) ->
  forall h p, In h (decl v) -> find_node h (dag L) = Some p -> has_child L h = false -> covered L p.
Proof. exact retry_confirms_only_covered. Qed.
Print Assumptions C13_retry_respects_funds.

(* "Any order gives exactly the ledger of parents-first delivery" is FALSE of the faithful model (KNOWN-FINDING
   not-confluent:weight-window, reproduced on the real code on every run): admission depends on the node's weight /
   throughput counters, which depend on the order in which INDEPENDENT vertices arrive.  Both orders below are
   parents-first and every vertex is valid; in the first the light tip 12 is dropped and vertex 14 refused. *)
Theorem C13_order_independence_refuted :
  (let '(L, rs) := deliver o_G [o_A; o_B; o_C; o_D] in (rs, map nhash (dag L))) = ([ROk; ROk; ROk; RRejected], [13; 11; 10]%N) /\
  (let '(L, rs) := deliver o_G [o_A; o_B; o_D; o_C] in (rs, map nhash (dag L))) = ([ROk; ROk; ROk; ROk], [13; 14; 12; 11; 10]%N).
Proof. exact order_of_independent_vertices_matters. Qed.
Print Assumptions C13_order_independence_refuted.
