(* Properties/C13.v — vertices arriving before their parents are parked and later admitted. *)
From Verif Require Import U64 Spice SpiceP RepoConstants Ledger ListFacts LedgerInv LedgerGraph Ancestors LedgerFunds LedgerReach TruncateP LoadWitness AdmitP Confluence.
From Coq Require Import NArith Permutation.

(* A vertex whose (left) parent is still unknown is reported as "parent missing" and parked exactly
   once, with its retry counter bumped; nothing else in the ledger changes. *)
Theorem C13_unknown_parent_reported_and_parked : forall L v rep b,
  find_node (v_left v) (dag L) = None ->
  Z.of_nat (length (parked L)) <> maxArraySize -> rep <= maxRepeats ->
  link_parents L v rep [v_left v; v_right v] [] b = ((set_parked L (parked L ++ [(v, rep + 1)]), RParentMissing, []), b).
Proof. exact missing_left_parent_parked. Qed.
Print Assumptions C13_unknown_parent_reported_and_parked.

(* Bounds (constants regenerated from the source): a full buffer or an exhausted retry budget refuses. *)
Theorem C13_buffer_and_retry_bounds : forall L v rep,
  (Z.of_nat (length (parked L)) = maxArraySize \/ maxRepeats < rep) -> park L v rep = (L, false).
Proof. exact park_bounds. Qed.
Print Assumptions C13_buffer_and_retry_bounds.

(* The retry tick is the normal admission path: same guards, same validation, same insertion. *)
Theorem C13_retry_is_admission_path : forall L v rep rest b,
  parked L = (v, rep) :: rest ->
  retry_one L b = (fst (add_leaf_mem (set_parked L rest) v rep b), Some (snd (add_leaf_mem (set_parked L rest) v rep b))).
Proof. exact retry_is_admission. Qed.
Print Assumptions C13_retry_is_admission_path.

(* Invalid vertices are never admitted through the retry path (nor parked by the gossip path). *)
Theorem C13_invalid_never_admitted : forall L v b, v_ok v = false ->
  (exists r, add_leaf L v b = (L, r) /\ r <> ROk /\ r <> RParentMissing) /\
  (forall rep, exists r, add_leaf_mem L v rep b = (L, r) /\ r <> ROk /\ r <> RParentMissing).
Proof. exact unverified_never_admitted. Qed.
Print Assumptions C13_invalid_never_admitted.

(* Nothing is admitted twice, whatever the delivery order, duplicates and retries: in every reachable
   ledger vertex and transaction hashes are duplicate-free over live graph + checkpoint. *)
Theorem C13_nothing_admitted_twice : forall me L, reach me L ->
  NoDup (map v_hash (vertices L)) /\ NoDup (map thash (vertices L)).
Proof. exact reach_nodup. Qed.
Print Assumptions C13_nothing_admitted_twice.

(* Every tip that a retried vertex confirms is covered (C01 on the retry path). *)
Theorem C13_retry_respects_funds : forall me L v rep b L', reach me L -> add_leaf_mem L v rep b = (L', ROk) ->
  forall h p, In h (decl v) -> find_node h (dag L) = Some p -> has_child L h = false -> covered L p.
Proof. exact retry_confirms_only_covered. Qed.
Print Assumptions C13_retry_respects_funds.

(* "Any order gives exactly the ledger of parents-first delivery" is FALSE of the faithful model (KNOWN-FINDING
   not-confluent:weight-window, reproduced on the real code on every run): admission depends on the node's weight /
   throughput counters, which depend on the order in which INDEPENDENT vertices arrive.  Both orders below are
   parents-first and every vertex is valid; in the first the light tip 12 is dropped and vertex 14 refused. *)
Theorem C13_order_independence_refuted :
  (let '(L, rs) := deliver o_G [o_A; o_B; o_C; o_D] in (rs, map nhash (dag L))) = ([ROk; ROk; ROk; RRejected], [13; 11; 10]%N) /\
  (let '(L, rs) := deliver o_G [o_A; o_B; o_D; o_C] in (rs, map nhash (dag L))) = ([ROk; ROk; ROk; ROk], [13; 14; 12; 11; 10]%N).
Proof. exact order_of_independent_vertices_matters. Qed.
Print Assumptions C13_order_independence_refuted.

(* "... and admitted automatically once its parents are present": the retry tick that reaches a parked vertex whose
   parents have arrived - each either confirmed already or passing validation now - inserts it with edges from exactly
   its declared parents, indexes its transaction, removes it from the buffer and touches no other vertex. *)
Theorem C13_parked_vertex_admitted_once_parents_present : forall L v rep rest p1 p2,
  parked L = (v, rep) :: rest ->
  N.eqb (t_issuer (v_trx v)) (genesis L) = false ->
  (N.eqb (t_receiver (v_trx v)) (genesis L) && is_spice (v_trx v)) = false ->
  live L (v_hash v) = false -> stored L (v_hash v) = false -> has_trx L (t_hash (v_trx v)) = false -> v_ok v = true ->
  find_node (v_left v) (dag L) = Some p1 -> find_node (v_right v) (dag L) = Some p2 ->
  parent_fine L (v_left v) p1 -> parent_fine (after_parent L (v_left v) p1) (v_right v) p2 ->
  exists L', retry_one L None = (L', Some ROk) /\
    parked L' = rest /\
    find_node (v_hash v) (dag L') = Some (Node v (dedup_adj [v_left v; v_right v])) /\
    assoc (t_hash (v_trx v)) (index L') = Some (v_hash v) /\
    (forall h, h <> v_hash v -> find_node h (dag L') = find_node h (dag L)).
Proof. exact parked_admitted_once_parents_present. Qed.
Print Assumptions C13_parked_vertex_admitted_once_parents_present.

(* ... and a parent tip passes validation whenever it is inside the weight window, verified and - for an ordinary
   spice transfer - covered in its own history with representable sums (the converse of C01_validation_sound):
   a valid vertex is never refused for funds it has. *)
Theorem C13_valid_parent_passes : forall L n,
  amounts_canon L -> In n (dag L) -> valid_weight L (v_weight (nv n)) = true -> v_ok (nv n) = true ->
  tip_condition L n -> validate L n None = (VOk, None).
Proof. exact validate_complete. Qed.
Print Assumptions C13_valid_parent_passes.

(* "If the vertices of a valid history reach a node in any order, the node ends with exactly the ledger it would have had
   with parents-first delivery": for every set S that is new to the ledger and closed under parents (it has SOME
   parents-first order T), every schedule that delivers each vertex of S once - in ANY order, with retry ticks anywhere -
   within the buffer and retry bounds, followed by drain_k further ticks: if no examined parent tip is refused along
   the way (the valid-history premise; C13_valid_parent_passes says when a tip passes; the refutation above shows an
   order-dependent refusal), then the buffer ends empty and the graph holds exactly S on top of what was there - each
   vertex once, with edges from exactly its declared parents, its transaction indexed. *)
Theorem C13_any_order_all_admitted : forall (L0 : ledger) (S T : list vertex) (ops : list op),
  S_ok L0 S -> Permutation T S -> topo L0 [] T -> parked L0 = [] ->
  Permutation (delivered ops) S ->
  Z.of_nat (length S) < maxArraySize ->
  1 + Z.of_nat (nticks ops) + Z.of_nat (length S) <= maxRepeats ->
  let sched := ops ++ ticks (drain_k L0 S ops) in
  fine_runb L0 sched = true ->
  let L' := mrun L0 sched in
  exists A, parked L' = [] /\ Permutation A S /\ dag L' = map node_of A ++ dag L0 /\ index L' = map ix A ++ index L0.
Proof. exact any_order_all_admitted. Qed.
Print Assumptions C13_any_order_all_admitted.

(* ... hence any two such schedules - e.g. an arbitrary one and the parents-first one - end with the same vertices,
   edges and index entries. *)
Theorem C13_any_two_orders_agree : forall (L0 : ledger) (S T : list vertex) (ops1 ops2 : list op),
  S_ok L0 S -> Permutation T S -> topo L0 [] T -> parked L0 = [] -> Z.of_nat (length S) < maxArraySize ->
  Permutation (delivered ops1) S -> 1 + Z.of_nat (nticks ops1) + Z.of_nat (length S) <= maxRepeats ->
  Permutation (delivered ops2) S -> 1 + Z.of_nat (nticks ops2) + Z.of_nat (length S) <= maxRepeats ->
  let s1 := ops1 ++ ticks (drain_k L0 S ops1) in let s2 := ops2 ++ ticks (drain_k L0 S ops2) in
  fine_runb L0 s1 = true -> fine_runb L0 s2 = true ->
  exists A1 A2, Permutation A1 A2 /\
    dag (mrun L0 s1) = map node_of A1 ++ dag L0 /\ dag (mrun L0 s2) = map node_of A2 ++ dag L0 /\
    index (mrun L0 s1) = map ix A1 ++ index L0 /\ index (mrun L0 s2) = map ix A2 ++ index L0 /\
    parked (mrun L0 s1) = [] /\ parked (mrun L0 s2) = [].
Proof. exact any_two_orders_agree. Qed.
Print Assumptions C13_any_two_orders_agree.

(* The no-refusal premise, attempt by attempt: it holds whenever every parent that is still a tip is inside the weight
   window, verified and meets the tip condition of C13_valid_parent_passes (in the ledger as it is when looked at). *)
Theorem C13_no_refusal_from_tip_conditions : forall L v,
  (forall p1, find_node (v_left v) (dag L) = Some p1 ->
     (has_child L (v_left v) = false -> tip_passes_cond L p1) /\
     forall p2, find_node (v_right v) (dag L) = Some p2 ->
       has_child (after_parent L (v_left v) p1) (v_right v) = false -> tip_passes_cond (after_parent L (v_left v) p1) p2) ->
  fine_atb L v = true.
Proof. exact fine_atb_from_conditions. Qed.
Print Assumptions C13_no_refusal_from_tip_conditions.
