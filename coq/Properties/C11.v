(* Properties/C11.v — gossip reaches every node exactly once and terminates.
   Model: coq/Model/Gossip.v (one item; any peer relation = any topology with any number of nodes; the
   scheduler delivers any in-flight message in any order and may duplicate messages; "delay" = not yet
   chosen).  [forallb honest ss]: no corrupted copies are injected (that is C12's adversary). *)
From Coq Require Import List Arith NArith Bool Lia.
From Verif Require Import Gossip GossipP.
Import ListNotations.

(* Every node admits the item at most once, whatever is delivered, re-delivered or duplicated. *)
Theorem C11_at_most_once : forall peers accept o ss, forallb honest ss = true ->
  NoDup (processed (grun peers accept o ss)).
Proof. exact processed_at_most_once. Qed.
Print Assumptions C11_at_most_once.

(* No message is ever addressed to a node that is in its own verified gossiper list. *)
Theorem C11_never_sent_to_listed : forall peers accept o ss d g, forallb honest ss = true ->
  In (d, g) (inflight (grun peers accept o ss)) -> ~ In d (verified g).
Proof. exact never_sent_to_listed. Qed.
Print Assumptions C11_never_sent_to_listed.

(* A node forwards only after its own ledger / signature check accepted the item. *)
Theorem C11_forward_only_after_accept : forall peers accept st n g, accept n = false ->
  snd (handle peers accept st n g) = (false, []).
Proof. exact rejected_item_not_forwarded. Qed.
Print Assumptions C11_forward_only_after_accept.

(* Finite: the number of messages ever sent is at most the sum of the out-degrees (each node forwards once). *)
Theorem C11_messages_bounded : forall peers accept o ss nodes, forallb honest ss = true -> NoDup nodes ->
  (forall n, In n (processed (grun peers accept o ss)) -> In n nodes) ->
  sent (grun peers accept o ss) <= outsum peers nodes.
Proof. exact messages_bounded. Qed.
Print Assumptions C11_messages_bounded.

(* Terminates: in any schedule the number of deliveries is bounded by a ranking of the initial state plus
   the number of duplications the network makes. *)
Theorem C11_terminates : forall peers accept o nodes, NoDup nodes -> In o nodes ->
  (forall n, In n nodes -> forall p, In p (peers n) -> In p nodes) ->
  forall ss, forallb honest ss = true ->
  deliveries peers accept (origin_state peers o) ss <= rank peers nodes (origin_state peers o) + dups ss.
Proof. exact deliveries_bounded. Qed.
Print Assumptions C11_terminates.

(* Reaches all: when nothing is in flight any more, every node reachable from the origin along the peer
   relation has admitted the item — exactly once — for every delivery order and every duplication. *)
Theorem C11_reaches_every_node_exactly_once : forall peers o ss, forallb honest ss = true ->
  inflight (grun peers (fun _ => true) o ss) = [] ->
  forall n, reachable peers o n ->
  In n (processed (grun peers (fun _ => true) o ss)) /\ NoDup (processed (grun peers (fun _ => true) o ss)).
Proof. exact reaches_every_node. Qed.
Print Assumptions C11_reaches_every_node_exactly_once.
