(* Properties/C09.v — the ledger is a well-formed DAG of self-authenticating vertices. *)
From Verif Require Import U64 Spice RepoConstants Ledger ListFacts LedgerInv LedgerGraph LedgerReach LoadWitness.
From Coq Require Import NArith Relations.

(* Acyclic, on every reachable ledger: no vertex reaches itself along parent->child edges. *)
Theorem C09_acyclic : forall me L, reach me L -> forall h, ~ clos_trans N (edge L) h h.
Proof. exact reach_acyclic. Qed.
Print Assumptions C09_acyclic.

(* Every live vertex has an edge from each declared parent that is still live and from nothing else
   (and no edge twice); a declared parent that is not live has been checkpointed — unless the vertex
   is a genesis vertex (both declared parents are the zero hash, no edges). Holds after rejected and
   rolled-back additions, equal left/right parents, dropped tips and truncation. *)
Theorem C09_edges_exact : forall me L, reach me L -> forall n, In n (dag L) ->
  NoDup (lp n) /\
  (forall p, In p (lp n) <-> In p (decl (nv n)) /\ live L p = true) /\
  (forall p, In p (decl (nv n)) -> live L p = false ->
     stored L p = true \/ (v_left (nv n) = 0 /\ v_right (nv n) = 0 /\ lp n = [])%N).
Proof. exact reach_edges_exact. Qed.
Print Assumptions C09_edges_exact.

(* A vertex created by the node references two (possibly equal) live tips of the ledger it is inserted
   into — the ones its validation pass handed back — is sealed by the node, and weighs
   max(parent weights) + 1 (as a uint64: the +1 wraps at 2^64-1, see DESIGN). *)
Theorem C09_created_vertex : forall L t o1 o2 newh vok b L' v,
  create_leaf L t o1 o2 newh vok b = (L', ROk, Some v) ->
  exists l r L2, In l (dag L2) /\ In r (dag L2) /\ has_child L2 (nhash l) = false /\ has_child L2 (nhash r) = false /\
    L' = insert L2 v (dedup2 (nhash l) (nhash r)) /\
    v_left v = nhash l /\ v_right v = nhash r /\ v_signer v = self L /\ v_trx v = t /\ v_hash v = newh /\
    v_weight v = wrap (Z.max (v_weight (nv l)) (v_weight (nv r)) + 1).
Proof. exact created_vertex_shape. Qed.
Print Assumptions C09_created_vertex.

(* Self-authentication at the ledger boundary: a vertex whose hash/signatures do not verify is refused
   by the gossip path and by the retry path with the ledger unchanged (never admitted, never parked). *)
Theorem C09_unverified_never_admitted : forall L v b, v_ok v = false ->
  (exists r, add_leaf L v b = (L, r) /\ r <> ROk /\ r <> RParentMissing) /\
  (forall rep, exists r, add_leaf_mem L v rep b = (L, r) /\ r <> ROk /\ r <> RParentMissing).
Proof. exact unverified_never_admitted. Qed.
Print Assumptions C09_unverified_never_admitted.

(* "... carries weight max(parent weights) + 1" fails at the top of the uint64 range (KNOWN-FINDING created-weight-wrapped):
   a valid gossiped vertex of weight 2^64-1 is admitted (the weight window has no upper bound) and the vertex the node
   creates on it weighs 0. *)
Theorem C09_created_weight_wraps_refuted :
  snd (add_leaf ww_src ww_big None) = ROk /\
  exists L' v, create_leaf ww_L ww_t [11%N] [11%N] 12%N true None = (L', ROk, Some v) /\
               v_left v = 11%N /\ v_weight ww_big = 18446744073709551615%Z /\ v_weight v = 0%Z.
Proof. exact created_weight_wraps. Qed.
Print Assumptions C09_created_weight_wraps_refuted.
