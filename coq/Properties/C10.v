(* Properties/C10.v — sealing rules: no self-sealed transfers, the genesis wallet never spends,
   no empty transactions, genesis does not pay its own issuer. *)
From Verif Require Import U64 Spice RepoConstants Ledger ListFacts LedgerInv LedgerReach.
From Coq Require Import NArith.

(* [seal_ok g v]: v's amount is canonical and EITHER v passed the admission guards (issuer <> sealer,
   not empty, issuer <> genesis wallet g, no spice sent to g) OR v is the genesis vertex (no parents,
   issued and sealed by g, receiver <> issuer).  Holds for every vertex — live or checkpointed — of
   every reachable ledger, whether it was proposed locally, arrived by gossip, or was replayed from
   the orphan buffer (retry re-enters the same admission path). *)
Theorem C10_sealing_rules : forall me L, reach me L ->
  forall v, In v (vertices L) -> seal_ok (genesis L) v.
Proof. exact reach_sealing. Qed.
Print Assumptions C10_sealing_rules.

(* The three admission guards, as implications on the model's entry points (any state). *)
Theorem C10_gossip_guards : forall L v b L' r, add_leaf L v b = (L', r) ->
  (t_issuer (v_trx v) = v_signer v \/ is_empty_trx (v_trx v) = true) -> L' = L /\ r <> ROk.
Proof. exact gossip_guards. Qed.
Print Assumptions C10_gossip_guards.

Theorem C10_proposal_guards : forall L t o1 o2 h vok b L' r ov, create_leaf L t o1 o2 h vok b = (L', r, ov) ->
  (t_issuer t = self L \/ t_issuer t = genesis L \/ is_empty_trx t = true) -> L' = L /\ r <> ROk /\ ov = None.
Proof. exact proposal_guards. Qed.
Print Assumptions C10_proposal_guards.

Theorem C10_genesis_receiver_not_issuer : forall L amt data th h vok L' r,
  create_genesis L (self L) amt data th h vok = (L', r) -> L' = L /\ r = RRejected.
Proof. exact genesis_receiver_not_issuer. Qed.
Print Assumptions C10_genesis_receiver_not_issuer.
