(* Properties/C16.v — contracts need the receiver; reads need proof of key ownership. *)
From Coq Require Import List Arith NArith Bool Lia.
From Verif Require Import Notary NotaryP.
Import ListNotations.

(* Over ALL sequences of propose / confirm / reject / data / waiting / history / balance calls by honest and
   dishonest clients (each call carries whether its signatures verify; H-sig turns "verifies under the
   receiver's key" into "the receiver acted"): a data-carrying transaction is sealed only by Confirm or
   Reject, a Propose seals only transactions without data, no hash is sealed twice, and only
   data-carrying transactions are ever awaiting. *)
Theorem C16_invariant_all_sequences : forall ops, NInv (nrun ops).
Proof. exact nrun_inv. Qed.
Print Assumptions C16_invariant_all_sequences.

(* The one call that seals a data-carrying transaction is a Confirm carrying valid issuer AND receiver
   signatures for a transaction awaiting here under the same receiver, or a Reject whose signature verifies
   under the address of the awaiting transaction's receiver. *)
Theorem C16_contract_needs_receiver : forall st o t k,
  ~ In (t, k) (sealed st) -> In (t, k) (sealed (fst (nstep st o))) -> n_data t = true -> NInv st ->
  (exists isig rsig lok, o = NConfirm t isig rsig lok /\ isig = true /\ rsig = true /\
        exists c, find_await (n_hash t) st = Some c /\ n_receiver c = n_receiver t) \/
  (exists addr lok, o = NReject (n_hash t) addr true lok /\ find_await (n_hash t) st = Some t /\ n_receiver t = addr).
Proof. exact contract_sealed_only_by_receiver_action. Qed.
Print Assumptions C16_contract_needs_receiver.

Theorem C16_bad_signature_changes_nothing : forall st,
  (forall t lok, nstep st (NPropose t false lok) = (st, NErr)) /\
  (forall t rsig lok, nstep st (NConfirm t false rsig lok) = (st, NErr)) /\
  (forall t isig lok, nstep st (NConfirm t isig false lok) = (st, NErr)) /\
  (forall h a lok, nstep st (NReject h a false lok) = (st, NErr)).
Proof. exact bad_signature_changes_nothing. Qed.
Print Assumptions C16_bad_signature_changes_nothing.

Theorem C16_pure_transfer_on_issuer_signature : forall st t,
  n_data t = false -> is_sealed (n_hash t) st = false ->
  nstep st (NPropose t true true) = (NState (awaiting st) ((t, ByPropose) :: sealed st) (challenges st), NOk).
Proof. exact pure_transfer_sealed_on_issuer_signature. Qed.
Print Assumptions C16_pure_transfer_on_issuer_signature.

(* Waiting lists and DAG history: only against the unexpired challenge issued for that very address, signed
   with that address's key; balance: only for data = own address signed with that key; an expired
   challenge is refused. *)
Theorem C16_waiting_needs_challenge : forall st addr blob sig l,
  snd (nstep st (NWaiting addr blob sig)) = NList l -> get_chall addr st = Some blob /\ sig = true.
Proof. exact reads_need_the_challenge. Qed.
Print Assumptions C16_waiting_needs_challenge.
Theorem C16_history_needs_challenge : forall st addr blob sig thr,
  snd (nstep st (NHistory addr blob sig thr)) = NOk -> get_chall addr st = Some blob /\ sig = true.
Proof. exact history_needs_the_challenge. Qed.
Print Assumptions C16_history_needs_challenge.
Theorem C16_balance_needs_own_signature : forall st addr d sig thr,
  snd (nstep st (NBalance addr d sig thr)) = NOk -> d = true /\ sig = true.
Proof. exact balance_needs_own_signature. Qed.
Print Assumptions C16_balance_needs_own_signature.
Theorem C16_expired_challenge_refused : forall st addr blob sig,
  snd (nstep (fst (nstep st (NExpire addr))) (NWaiting addr blob sig)) = NErr.
Proof. exact expired_challenge_is_refused. Qed.
Print Assumptions C16_expired_challenge_refused.
