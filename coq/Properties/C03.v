(* Properties/C03.v — a transaction is sealed in at most one vertex per ledger (replay protection). *)
From Verif Require Import U64 Spice RepoConstants Ledger ListFacts LedgerInv LedgerReach.
From Coq Require Import NArith.

(* On every reachable ledger — any sequence of genesis / propose / gossip-add / orphan retry / truncate
   / trusted-set calls with arbitrary arguments, tip orders, cancellation points and cuts — no vertex
   hash and no transaction hash occurs twice over live DAG + checkpoint, and the index is exact. *)
Theorem C03_unique_and_index_exact : forall me L, reach me L ->
  NoDup (map v_hash (vertices L)) /\ NoDup (map thash (vertices L)) /\
  (forall v, In v (vertices L) -> assoc (thash v) (index L) = Some (v_hash v)) /\
  (forall th vh, assoc th (index L) = Some vh -> exists v, In v (vertices L) /\ thash v = th /\ v_hash v = vh).
Proof. exact reach_unique. Qed.
Print Assumptions C03_unique_and_index_exact.

(* Re-offering a held vertex by gossip (also after truncation: [vertices] spans the checkpoint) is
   refused with "vertex exists" and leaves the ledger exactly as it was. *)
Theorem C03_replayed_vertex_rejected : forall L v b,
  Inv L -> loaded L = true -> In v (vertices L) -> adm_ok v -> t_issuer (v_trx v) <> genesis L ->
  ~ (t_receiver (v_trx v) = genesis L /\ is_spice (v_trx v) = true) ->
  add_leaf L v b = (L, RVertexExists).
Proof. exact replay_vertex_rejected. Qed.
Print Assumptions C03_replayed_vertex_rejected.

(* A held transaction wrapped into a new vertex by any sealing node with any parents is refused
   (never admitted, never parked), ledger unchanged. *)
Theorem C03_replayed_trx_in_new_vertex_rejected : forall L v u b,
  Inv L -> In u (vertices L) -> thash v = thash u -> ~ In (v_hash v) (map v_hash (vertices L)) ->
  exists r, add_leaf L v b = (L, r) /\ r <> ROk /\ r <> RParentMissing.
Proof. exact replay_trx_in_new_vertex_rejected. Qed.
Print Assumptions C03_replayed_trx_in_new_vertex_rejected.

(* Proposing a held transaction again is refused, for every tip order and cancellation point. *)
Theorem C03_replayed_proposal_rejected : forall L t u o1 o2 newh vok b,
  Inv L -> In u (vertices L) -> t_hash t = thash u ->
  exists r, create_leaf L t o1 o2 newh vok b = (L, r, None) /\ r <> ROk.
Proof. exact replay_proposal_rejected. Qed.
Print Assumptions C03_replayed_proposal_rejected.

(* When a tentative vertex is dropped its index entry goes with it: the transaction can be proposed again. *)
Theorem C03_dropped_can_be_reproposed : forall L n, Inv L -> In n (dag L) ->
  has_trx (drop_tip L n) (thash (nv n)) = false /\ live (drop_tip L n) (nhash n) = false.
Proof. exact dropped_trx_free. Qed.
Print Assumptions C03_dropped_can_be_reproposed.
