(* Properties/C04.v — tamper evidence: what verification pins down, and the two places where it does not.
   sha256, ed25519 and address decoding are premises (H-sha, H-sig, H-b58), never axioms. *)
From Coq Require Import List Arith NArith ZArith Lia Bool.
From Verif Require Import WalletFile Msg MsgP.
Import ListNotations.
Local Open Scope Z_scope.

(* The sealed vertex message (fixed-width fields) determines transaction hash, both parents, time, weight. *)
Theorem C04_vertex_message_injective : forall v v', vtx_wf v -> vtx_wf v' -> vtx_msg v = vtx_msg v' ->
  b_hash (vb_trx v) = b_hash (vb_trx v') /\ vb_left v = vb_left v' /\ vb_right v = vb_right v' /\
  vb_time v = vb_time v' /\ vb_weight v = vb_weight v'.
Proof. exact vtx_msg_inj. Qed.
Print Assumptions C04_vertex_message_injective.

(* A vertex that verifies under an honest sealer's address carries exactly the hash, transaction hash,
   parents, time and weight that sealer signed: altering any of them, or the signature, or naming another
   sealer's address while keeping the signature, is rejected. *)
Theorem C04_vertex_fields_pinned : forall sha vrfy addr_pk,
  (forall a b, sha a = sha b -> a = b) -> forall pk0 (signed0 : bytes -> Prop),
  (forall d s, vrfy pk0 d s = true -> signed0 d) -> forall v0 v signer,
  addr_pk signer = Some pk0 -> (forall d, signed0 d -> d = sha (vtx_msg v0)) ->
  vtx_wf v0 -> vtx_wf v -> vb_signer v = signer -> vertex_verify sha vrfy addr_pk v = Ok tt ->
  vb_hash v = sha (vtx_msg v0) /\
  b_hash (vb_trx v) = b_hash (vb_trx v0) /\ vb_left v = vb_left v0 /\ vb_right v = vb_right v0 /\
  vb_time v = vb_time v0 /\ vb_weight v = vb_weight v0.
Proof. exact vertex_fields_pinned. Qed.
Print Assumptions C04_vertex_fields_pinned.

(* PARTIAL for transactions: time, both amounts, the hash and the CONCATENATION subject|data|issuer|receiver
   are pinned by the issuer's signature ... *)
Theorem C04_trx_fields_pinned_partial : forall sha vrfy addr_pk,
  (forall a b, sha a = sha b -> a = b) -> forall pk0 (signed0 : bytes -> Prop),
  (forall d s, vrfy pk0 d s = true -> signed0 d) -> forall t0 t issuer,
  addr_pk issuer = Some pk0 -> (forall d, signed0 d -> d = sha (trx_msg t0)) ->
  u64 (b_time t0) -> u64 (b_cur t0) -> u64 (b_sup t0) -> u64 (b_time t) -> u64 (b_cur t) -> u64 (b_sup t) ->
  b_issuer t = issuer -> verify_issuer sha vrfy addr_pk t = Ok tt ->
  b_hash t = sha (trx_msg t0) /\
  b_subject t ++ b_data t ++ b_issuer t ++ b_receiver t = b_subject t0 ++ b_data t0 ++ b_issuer t0 ++ b_receiver t0 /\
  b_time t = b_time t0 /\ b_cur t = b_cur t0 /\ b_sup t = b_sup t0.
Proof. exact trx_fields_pinned_partial. Qed.
Print Assumptions C04_trx_fields_pinned_partial.

(* ... but the boundaries inside that concatenation are NOT (KNOWN-FINDING shift.subject>data): two
   transactions with different subject and data have the same message, hence the same hash and the same
   valid signatures. *)
Theorem C04_message_boundary_refuted :
  exists t t', b_subject t <> b_subject t' /\ b_data t <> b_data t' /\ trx_msg t = trx_msg t' /\
               b_hash t = b_hash t' /\ b_isig t = b_isig t' /\ b_issuer t = b_issuer t'.
Proof. exact trx_msg_boundary_ambiguous. Qed.
Print Assumptions C04_message_boundary_refuted.

(* Stripping the receiver's signature from a countersigned transaction is NOT detected (KNOWN-FINDING
   strip.receiver_signature): for every valid vertex the stripped one verifies too. *)
Theorem C04_receiver_strip_refuted : forall sha vrfy addr_pk v,
  vertex_verify sha vrfy addr_pk v = Ok tt ->
  vertex_verify sha vrfy addr_pk
    (Vtxb (Trxb (b_subject (vb_trx v)) (b_data (vb_trx v)) (b_issuer (vb_trx v)) (b_receiver (vb_trx v)) (b_time (vb_trx v))
                (b_cur (vb_trx v)) (b_sup (vb_trx v)) (b_hash (vb_trx v)) (b_isig (vb_trx v)) [])
          (vb_left v) (vb_right v) (vb_time v) (vb_weight v) (vb_hash v) (vb_sig v) (vb_signer v)) = Ok tt.
Proof. exact receiver_strip_accepted. Qed.
Print Assumptions C04_receiver_strip_refuted.

(* A signature the honest key never produced for this message is rejected; verification never panics. *)
Theorem C04_unsigned_rejected : forall sha vrfy addr_pk pk0 (signed0 : bytes -> Prop),
  (forall d s, vrfy pk0 d s = true -> signed0 d) -> forall msg sig hash addr,
  addr_pk addr = Some pk0 -> ~ signed0 (sha msg) -> helper_verify sha vrfy addr_pk msg sig hash addr <> Ok tt.
Proof. exact unsigned_digest_rejected. Qed.
Print Assumptions C04_unsigned_rejected.

Theorem C04_verify_never_panics : forall sha vrfy addr_pk v, vertex_verify sha vrfy addr_pk v <> Panic.
Proof. exact vertex_verify_no_panic. Qed.
Print Assumptions C04_verify_never_panics.
