(* Model/StreamLock.v — the lock protocol between StreamDAG (src/accountant/accountant.go), the graph walker it
   consumes (heimdalr/dag AncestorsWalker, which holds the GRAPH read lock for the whole walk), the nested
   graph reads the consumer makes between two receives (dag.GetVertex = graph RLock/RUnlock), and any number
   of writers (CreateLeaf/AddLeaf/truncate: LEDGER write lock, then dag.AddVertex = graph write lock).
   Go's sync.RWMutex blocks new readers as soon as a writer is waiting; that is what makes a recursive read
   lock deadlock-prone.  [guarded] = the streamer holds the ledger read lock for the whole walk (fix 3c95971). *)
From Coq Require Import List Arith Bool Lia.
Import ListNotations.

Inductive wst := WHold (i : nat) | WOff.                  (* WHold i: holds graph R, about to offer ancestor i *)
Inductive cst := CWait | CWantR | CInR | CEnd.            (* consumer: waiting for an id / wants nested graph R / in it / finished *)
Inductive xact := XHasL | XWantG | XHasG.                 (* the one writer past the ledger lock *)
Record st := St { wk : wst; cs : cst; idle : nat; wantl : nat; act : option xact; fin : nat }.

Section P.
  Variable n : nat.          (* ancestors offered by the walker *)
  Variable guarded : bool.

  Definition ledger_free_for_writer (s : st) : bool :=
    match act s with Some _ => false | None => if guarded then match cs s with CEnd => true | _ => false end else true end.
  Definition no_pending_graph_writer (s : st) : bool :=
    match act s with Some XWantG => false | Some XHasG => false | _ => true end.
  Definition no_graph_reader (s : st) : bool :=
    match wk s, cs s with WOff, CInR => false | WOff, _ => true | _, _ => false end.

  Inductive step : st -> st -> Prop :=
    | s_rendezvous : forall i a b x d, i < n ->
        step (St (WHold i) CWait a b x d) (St (WHold (S i)) CWantR a b x d)
    | s_walker_done : forall c0 a b x d, step (St (WHold n) c0 a b x d) (St WOff c0 a b x d)
    | s_range_ends : forall a b x d, step (St WOff CWait a b x d) (St WOff CEnd a b x d)
    | s_nested_rlock : forall w0 a b x d, no_pending_graph_writer (St w0 CWantR a b x d) = true ->
        step (St w0 CWantR a b x d) (St w0 CInR a b x d)
    | s_nested_runlock : forall w0 a b x d, step (St w0 CInR a b x d) (St w0 CWait a b x d)
    | s_writer_arrives : forall w0 c0 a b x d, step (St w0 c0 (S a) b x d) (St w0 c0 a (S b) x d)
    | s_writer_ledger : forall w0 c0 a b d, ledger_free_for_writer (St w0 c0 a (S b) None d) = true ->
        step (St w0 c0 a (S b) None d) (St w0 c0 a b (Some XHasL) d)
    | s_writer_wants_graph : forall w0 c0 a b d, step (St w0 c0 a b (Some XHasL) d) (St w0 c0 a b (Some XWantG) d)
    | s_writer_graph : forall w0 c0 a b d, no_graph_reader (St w0 c0 a b (Some XWantG) d) = true ->
        step (St w0 c0 a b (Some XWantG) d) (St w0 c0 a b (Some XHasG) d)
    | s_writer_done : forall w0 c0 a b d, step (St w0 c0 a b (Some XHasG) d) (St w0 c0 a b None (S d)).

  Definition init (writers : nat) : st := St (WHold 0) CWait writers 0 None 0.
  Definition final (s : st) : Prop := wk s = WOff /\ cs s = CEnd /\ idle s = 0 /\ wantl s = 0 /\ act s = None.

  Inductive reach (writers : nat) : st -> Prop :=
    | reach0 : reach writers (init writers)
    | reachS : forall s s', reach writers s -> step s s' -> reach writers s'.
End P.
