(* Model/Cache.v — src/cache/cache.go: the awaiting-transaction index (Hippocampus) over a key-value
   store. The per address value is the comma-joined hex list, modelled as its token list exactly as
   bytes.Split sees it (None = empty token; the leading-comma quirk of remove() is kept). Each operation
   is the sequence of get/set/delete actions of the code; since the fix they run under one mutex. *)
From Coq Require Import List Arith NArith Bool.
Import ListNotations.

Record atrx := ATrx { c_hash : N; c_issuer : N; c_receiver : N }.
Definition token := option N.
Record cache := Cache { trxs : list atrx; addrs : list (N * list token) }.
Inductive cres := COk | CExists | CNotFound | CUnauthorized.

Fixpoint cassoc {A} (k : N) (l : list (N * A)) : option A :=
  match l with [] => None | (k', a) :: r => if N.eqb k k' then Some a else cassoc k r end.
Definition cdel {A} (k : N) (l : list (N * A)) : list (N * A) := filter (fun p => negb (N.eqb k (fst p))) l.
Definition cset {A} (k : N) (a : A) (l : list (N * A)) : list (N * A) := (k, a) :: cdel k l.

Definition find_trx (h : N) (c : cache) : option atrx := find (fun t => N.eqb (c_hash t) h) (trxs c).
Definition tok_eqb (a b : token) : bool :=
  match a, b with Some x, Some y => N.eqb x y | None, None => true | _, _ => false end.

(* add(): append ",hex" unless the value is empty *)
Definition tok_add (l : list token) (h : N) : list token := match l with [] => [Some h] | _ => l ++ [Some h] end.
(* remove(): every kept token is re-emitted with a comma in front, so a non-empty result starts with an empty token *)
Definition tok_remove (l : list token) (h : N) : list token :=
  match filter (fun t => negb (tok_eqb t (Some h))) l with [] => [] | k => None :: k end.
(* read(): empty tokens are skipped *)
Fixpoint tok_read (l : list token) : list N :=
  match l with [] => [] | Some h :: r => h :: tok_read r | None :: r => tok_read r end.

Definition set_addr (a : N) (l : list token) (c : cache) : cache := Cache (trxs c) (cset a l (addrs c)).
Definition del_addr (a : N) (c : cache) : cache := Cache (trxs c) (cdel a (addrs c)).

Definition save_addr (h : N) (c : cache) (a : N) : cache :=
  match cassoc a (addrs c) with
  | None => set_addr a [Some h] c
  | Some l => set_addr a (tok_add l h) c
  end.

(* SaveAwaitedTransaction *)
Definition save (c : cache) (t : atrx) : cache * cres :=
  match find_trx (c_hash t) c with
  | Some _ => (c, CExists)
  | None =>
    let c1 := Cache (t :: trxs c) (addrs c) in
    let al := if N.eqb (c_issuer t) (c_receiver t) then [c_receiver t] else [c_issuer t; c_receiver t] in
    (fold_left (save_addr (c_hash t)) al c1, COk)
  end.

Definition remove_addr (h : N) (c : cache) (a : N) : cache :=
  match cassoc a (addrs c) with
  | None => c
  | Some [] => del_addr a c
  | Some l => set_addr a (tok_remove l h) c
  end.

(* RemoveAwaitedTransaction: only the receiver may remove *)
Definition remove (c : cache) (h a : N) : cache * cres :=
  match find_trx h c with
  | None => (c, CNotFound)
  | Some t =>
    if negb (N.eqb (c_receiver t) a) then (c, CUnauthorized) else
    let c1 := Cache (filter (fun x => negb (N.eqb (c_hash x) h)) (trxs c)) (addrs c) in
    (fold_left (remove_addr h) [c_issuer t; c_receiver t] c1, COk)
  end.

(* ReadTransactions: listed hashes whose transaction is present; stale ones are pruned from the list *)
Definition prune (a : N) (c : cache) (h : N) : cache :=
  match cassoc a (addrs c) with
  | None | Some [] => c
  | Some l => set_addr a (tok_remove l h) c
  end.
Definition read (c : cache) (a : N) : cache * option (list N) :=
  match cassoc a (addrs c) with
  | None => (c, None)
  | Some [] => (del_addr a c, None)
  | Some l =>
    let hs := tok_read l in
    let present := filter (fun h => match find_trx h c with Some _ => true | None => false end) hs in
    let stale := filter (fun h => match find_trx h c with Some _ => false | None => true end) hs in
    (fold_left (prune a) stale c, Some present)
  end.

(* ---------------------------------------------------------------- specification *)
Definition involves (t : atrx) (a : N) : bool := N.eqb (c_issuer t) a || N.eqb (c_receiver t) a.
Definition listing (c : cache) (a : N) : list N := map c_hash (filter (fun t => involves t a) (trxs c)).
Definition listed (c : cache) (a : N) : list N :=
  match cassoc a (addrs c) with Some l => tok_read l | None => [] end.

(* ---------------------------------------------------------------- concurrency: the unsynchronised read-modify-write *)
(* one Save split into its two actions on the address entry; a schedule interleaves two of them *)
Inductive action := AGet (who : bool) | ASet (who : bool).
Record rmw := Rmw { store : list token; seenA : list token; seenB : list token }.
Definition act (hA hB : N) (s : rmw) (x : action) : rmw :=
  match x with
  | AGet true => Rmw (store s) (store s) (seenB s)
  | AGet false => Rmw (store s) (seenA s) (store s)
  | ASet true => Rmw (tok_add (seenA s) hA) (seenA s) (seenB s)
  | ASet false => Rmw (tok_add (seenB s) hB) (seenA s) (seenB s)
  end.
Definition run_rmw (hA hB : N) (sched : list action) : list N :=
  tok_read (store (fold_left (act hA hB) sched (Rmw [] [] []))).
