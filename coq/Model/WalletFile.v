(* Model/WalletFile.v — src/aeswrapper/aes.wrapper.go (Encrypt/Decrypt framing) and
   src/fileoperations/wallet.go (SaveWallet/ReadWallet), over an abstract AEAD and an abstract
   wallet codec (Section variables; their assumed behaviour = H-aead / H-gob in the trusted base). *)
From Coq Require Import List Arith NArith ZArith Lia Bool.
From Verif Require Import RepoConstants.
Import ListNotations.
Local Open Scope nat_scope.

Definition bytes := list N.
Inductive outcome (A : Type) := Ok (a : A) | Err | Panic.
Arguments Ok {A} a. Arguments Err {A}. Arguments Panic {A}.

Definition nonce_len : nat := Z.to_nat nonceSize.
Definition key_ok (k : bytes) : bool := Nat.eqb (length k) 32 || Nat.eqb (length k) 16.

Section WalletFile.
  Variable wallet : Type.
  Variable seal : bytes -> bytes -> bytes -> bytes.           (* key nonce plaintext -> ciphertext||tag *)
  Variable open : bytes -> bytes -> bytes -> option bytes.    (* key nonce ciphertext -> plaintext *)
  Variable gob_enc : wallet -> bytes.
  Variable gob_dec : bytes -> option wallet.

  (* Encrypt: key length check, fresh nonce (an input here), nonce || seal *)
  Definition encrypt (k nonce data : bytes) : outcome bytes :=
    if negb (key_ok k) then Err else Ok (nonce ++ seal k nonce data).

  (* Decrypt: key length check, length guard (a Go slice expression panics when out of range), open *)
  Definition decrypt (k data : bytes) : outcome bytes :=
    if negb (key_ok k) then Err else
    if Nat.ltb (length data) nonce_len then Err else
    match open k (firstn nonce_len data) (skipn nonce_len data) with
    | Some p => Ok p
    | None => Err
    end.

  Definition save_wallet (k nonce : bytes) (w : wallet) : outcome bytes := encrypt k nonce (gob_enc w).
  Definition read_wallet (k file : bytes) : outcome wallet :=
    match decrypt k file with
    | Ok p => match gob_dec p with Some w => Ok w | None => Err end
    | Err => Err
    | Panic => Panic
    end.
End WalletFile.

(* decision list used by the correspondence check: outcome class from (key length, file length,
   does the AEAD open) *)
Inductive cls := CWallet | CErr | CPanic.
Definition read_class (klen flen : nat) (opens decodes : bool) : cls :=
  if negb (Nat.eqb klen 32 || Nat.eqb klen 16) then CErr else
  if Nat.ltb flen nonce_len then CErr else
  if opens && decodes then CWallet else CErr.
