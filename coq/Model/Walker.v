(* Model/Walker.v — the protocol between heimdalr/dag's AncestorsWalker goroutine and its consumers in
   src/accountant/accountant.go.  Walker (dag.go:574-627): holds the graph read lock; for each of the n
   ancestors it polls the 1-buffered signal channel and then blocks sending the id on an UNBUFFERED
   channel; when done it releases the lock and closes both channels.  Consumer: ranges over the ids and
   leaves after k of them (k = n: runs to the end) using one of the exit strategies found in the code. *)
From Coq Require Import List Arith Bool Lia.
Import ListNotations.

Inductive strategy :=
  | Drain               (* drainWalker(vertices): keep receiving until the channel is closed *)
  | SignalThenReturn    (* signal <- true; return            (the code before fix dce7b54) *)
  | ReturnNoSignal.     (* return                            (the code before fix dce7b54) *)

Inductive wstate := WPoll (i : nat) | WSend (i : nat) | WDone.             (* WDone: lock released, channels closed *)
Inductive cstate := CRecv (j : nat) | CDrain | CSignal | CExit | CPanic.  (* CSignal: about to send on signal *)

Record sys := Sys { w : wstate; c : cstate; sig : bool (* signal buffer holds a value *) }.

Section Protocol.
  Variable n : nat.        (* number of ancestors the walker will offer *)
  Variable k : nat.        (* the consumer leaves after receiving k ids (k >= n: never early) *)
  Variable strat : strategy.

  Definition after_recv (j : nat) : cstate :=
    if Nat.eqb (S j) k then match strat with Drain => CDrain | SignalThenReturn => CSignal | ReturnNoSignal => CExit end
    else CRecv (S j).

  Inductive step : sys -> sys -> Prop :=
    | s_poll_stop : forall i c0, i < n -> step (Sys (WPoll i) c0 true) (Sys WDone c0 false)      (* signal seen: return *)
    | s_poll_go : forall i c0, i < n -> step (Sys (WPoll i) c0 false) (Sys (WSend i) c0 false)
    | s_finish : forall c0 s, step (Sys (WPoll n) c0 s) (Sys WDone c0 s)                         (* fifo empty: done *)
    | s_rendezvous : forall i j s, step (Sys (WSend i) (CRecv j) s) (Sys (WPoll (S i)) (after_recv j) s)
    | s_drain_recv : forall i s, step (Sys (WSend i) CDrain s) (Sys (WPoll (S i)) CDrain s)
    | s_closed_recv : forall j s, step (Sys WDone (CRecv j) s) (Sys WDone CExit s)               (* range ends *)
    | s_closed_drain : forall s, step (Sys WDone CDrain s) (Sys WDone CExit s)
    | s_signal_ok : forall w0, w0 <> WDone -> step (Sys w0 CSignal false) (Sys w0 CExit true)
    | s_signal_closed : forall s, step (Sys WDone CSignal s) (Sys WDone CPanic s).              (* send on closed channel *)
  (* CSignal with a full buffer and a live walker cannot happen: the consumer signals once *)

  Definition init_sys : sys := Sys (WPoll 0) (if Nat.eqb k 0 then match strat with Drain => CDrain | SignalThenReturn => CSignal | ReturnNoSignal => CExit end else CRecv 0) false.
  Definition terminal (s : sys) : Prop := forall s', ~ step s s'.
  Definition good_end (s : sys) : Prop := w s = WDone /\ c s = CExit.   (* lock released, consumer returned normally *)

  Inductive reach : sys -> Prop :=
    | reach0 : reach init_sys
    | reachS : forall s s', reach s -> step s s' -> reach s'.
End Protocol.
