(* Model/Ledger.v — executable model of src/accountant (accountant.go, founds.go, precalculate.go,
   replier.go, storage.go), path by path, quirks included.  Definitions only (proofs in Proofs/).

   Hashes and addresses are N identifiers (canonicalised by the harness; 0 = all-zero hash / "").
   uint64 quantities are Z with explicit wrap.  Go map iteration order, the tip picked by a map
   range, the truncation cut and caller cancellation are explicit hint arguments; theorems
   quantify over all hints.  The result of Vertex.verify is carried by the vertex (v_ok); that it
   equals what the code computes is C04's subject. *)
From Verif Require Export U64 Spice.
From Verif Require Import RepoConstants.
From Coq Require Import NArith.

(* ---------------------------------------------------------------- data *)
Record trx := Trx { t_hash : N; t_issuer : N; t_receiver : N; t_spice : mel; t_data : bool }.
Record vertex := Vtx { v_hash : N; v_left : N; v_right : N; v_weight : Z; v_signer : N;
                       v_ok : bool; v_trx : trx }.
(* a live vertex with its inbound edges (ids of parents that are in the graph) *)
Record node := Node { nv : vertex; lp : list N }.

Record ledger := Ledger {
  dag : list node;              (* live graph, newest first *)
  index : list (N * N);         (* transaction hash -> vertex hash (trxsToVertxDB) *)
  st_vtx : list vertex;         (* checkpointed vertices (verticesDB, 32-byte keys) *)
  st_funds : list (N * mel);    (* checkpointed funds (verticesDB, address keys) *)
  trusted : list N;
  genesis : N;                  (* genesisPublicAddress, 0 = "" *)
  loaded : bool;
  weight : Z;
  throughput : Z;
  parked : list (vertex * Z);   (* replier buffer: vertex, repeated *)
  self : N                      (* signer address of this node *)
}.

Definition init (me : N) : ledger :=
  Ledger [] [] [] [] [] 0 false 0 0 [] me.

Inductive res :=
  | ROk | RNotLoaded | REmpty | ROwnNode | RGenesisIssuer | RVertexExists | RTrxExists
  | RParentMissing | RRejected | RPanic.

Definition res_eqb (a b : res) : bool :=
  match a, b with
  | ROk, ROk | RNotLoaded, RNotLoaded | REmpty, REmpty | ROwnNode, ROwnNode
  | RGenesisIssuer, RGenesisIssuer | RVertexExists, RVertexExists | RTrxExists, RTrxExists
  | RParentMissing, RParentMissing | RRejected, RRejected | RPanic, RPanic => true
  | _, _ => false
  end.

(* ---------------------------------------------------------------- small helpers *)
Definition nmem (x : N) (l : list N) : bool := existsb (N.eqb x) l.
Definition nremove (x : N) (l : list N) : list N := filter (fun y => negb (N.eqb x y)) l.
Definition nhash (n : node) : N := v_hash (nv n).

Definition is_spice (t : trx) : bool := negb (mel_empty (t_spice t)).
Definition is_empty_trx (t : trx) : bool := negb (t_data t) && negb (is_spice t).

Definition find_node (h : N) (l : list node) : option node := find (fun n => N.eqb (nhash n) h) l.
Definition find_vtx (h : N) (l : list vertex) : option vertex := find (fun v => N.eqb (v_hash v) h) l.
Fixpoint assoc {A} (k : N) (l : list (N * A)) : option A :=
  match l with [] => None | (k', a) :: r => if N.eqb k k' then Some a else assoc k r end.
Definition assoc_del {A} (k : N) (l : list (N * A)) : list (N * A) :=
  filter (fun p => negb (N.eqb k (fst p))) l.
Definition assoc_set {A} (k : N) (a : A) (l : list (N * A)) : list (N * A) := (k, a) :: assoc_del k l.

Definition live (L : ledger) (h : N) : bool :=
  match find_node h (dag L) with Some _ => true | None => false end.
Definition stored (L : ledger) (h : N) : bool :=
  match find_vtx h (st_vtx L) with Some _ => true | None => false end.
Definition has_trx (L : ledger) (th : N) : bool :=
  match assoc th (index L) with Some _ => true | None => false end.

(* graph library views *)
Definition is_root (n : node) : bool := match lp n with [] => true | _ => false end.
(* leaves in one pass, newest first: a vertex is a leaf iff no newer vertex lists it as parent *)
Fixpoint leaves_pass (seen : list N) (l : list node) : list node :=
  match l with
  | [] => []
  | n :: r => if nmem (nhash n) seen then leaves_pass (lp n ++ nremove (nhash n) seen) r
              else n :: leaves_pass (lp n ++ seen) r
  end.
Definition leaves (L : ledger) : list node := leaves_pass [] (dag L).
Definition is_leaf (L : ledger) (h : N) : bool := nmem h (map nhash (leaves L)).
(* independent of list order: h is a leaf iff no node lists it as a parent *)
Definition has_child (L : ledger) (h : N) : bool := existsb (fun n => nmem h (lp n)) (dag L).

(* ancestors in one pass (relies on: parents occur later in the list than their children) *)
Fixpoint anc_pass (wanted : list N) (l : list node) : list node :=
  match l with
  | [] => []
  | n :: r => if nmem (nhash n) wanted then n :: anc_pass (lp n ++ wanted) r
              else anc_pass wanted r
  end.
Fixpoint anc_from (h : N) (l : list node) : list node :=
  match l with
  | [] => []
  | m :: r => if N.eqb (nhash m) h then anc_pass (lp m) r else anc_from h r
  end.
Definition ancestors (L : ledger) (n : node) : list node := anc_from (nhash n) (dag L).

(* DeleteVertex: remove the vertex and every edge attached to it *)
Definition del_node (h : N) (l : list node) : list node :=
  map (fun n => Node (nv n) (nremove h (lp n))) (filter (fun n => negb (N.eqb (nhash n) h)) l).

Definition set_dag (L : ledger) d := Ledger d (index L) (st_vtx L) (st_funds L) (trusted L) (genesis L) (loaded L) (weight L) (throughput L) (parked L) (self L).
Definition set_index (L : ledger) i := Ledger (dag L) i (st_vtx L) (st_funds L) (trusted L) (genesis L) (loaded L) (weight L) (throughput L) (parked L) (self L).
Definition set_wt (L : ledger) w t := Ledger (dag L) (index L) (st_vtx L) (st_funds L) (trusted L) (genesis L) (loaded L) w t (parked L) (self L).
Definition set_parked (L : ledger) p := Ledger (dag L) (index L) (st_vtx L) (st_funds L) (trusted L) (genesis L) (loaded L) (weight L) (throughput L) p (self L).
Definition set_store (L : ledger) sv sf := Ledger (dag L) (index L) sv sf (trusted L) (genesis L) (loaded L) (weight L) (throughput L) (parked L) (self L).
Definition set_trusted (L : ledger) t := Ledger (dag L) (index L) (st_vtx L) (st_funds L) t (genesis L) (loaded L) (weight L) (throughput L) (parked L) (self L).
Definition set_gen (L : ledger) g ld := Ledger (dag L) (index L) (st_vtx L) (st_funds L) (trusted L) g ld (weight L) (throughput L) (parked L) (self L).

(* updateWeightAndThroughput *)
Definition bump (L : ledger) (w : Z) : ledger :=
  let w' := if weight L <? w then w else weight L in
  set_wt L w' (wrap (throughput L + Z.of_nat (length (leaves L)) + 1)).

(* isValidWeight *)
Definition valid_weight (L : ledger) (w : Z) : bool :=
  if weight L <? throughput L then true else wrap (weight L - throughput L) <=? w.

(* delete an invalid tip: DeleteVertex + removeTrxInVertex (+ updateWeightAndThroughput in getValidLeaves) *)
Definition rm_tip (L : ledger) (n : node) : ledger :=
  let L1 := set_dag L (del_node (nhash n) (dag L)) in
  set_index L1 (assoc_del (t_hash (v_trx (nv n))) (index L1)).
Definition drop_tip (L : ledger) (n : node) : ledger := bump (rm_tip L n) (v_weight (nv n)).

(* ---------------------------------------------------------------- founds.go *)
(* pourFunds: returns None on a Supply error *)
Definition pour (addr : N) (v : vertex) (io : mel * mel) : option (mel * mel) :=
  let t := v_trx v in
  if negb (is_spice t) then Some io else
  let '(i, o) := io in
  match (if N.eqb (t_issuer t) addr then
           match supply o (t_spice t) with (o', None) => Some o' | _ => None end
         else Some o) with
  | None => None
  | Some o' =>
    if N.eqb (t_receiver t) addr then
      match supply i (t_spice t) with (i', None) => Some (i', o') | _ => None end
    else Some (i, o')
  end.

Definition zero_mel := Mel 0 0.
Definition funds_of (L : ledger) (a : N) : mel :=
  match assoc a (st_funds L) with Some m => m | None => zero_mel end.

(* walk over a list of ancestors with a poll budget (None = caller never cancels):
   each visited ancestor costs one poll of ctx.Done() BEFORE it is processed *)
Definition budget := option nat.
Definition poll (b : budget) : option budget :=
  match b with None => Some None | Some O => None | Some (S k) => Some (Some k) end.

Inductive vres := VOk | VWeight | VSig | VParent | VFundsErr | VNoFunds | VStopped.
Definition vres_ok (r : vres) : bool := match r with VOk => true | _ => false end.

Fixpoint pour_walk (chk : bool) (addr : N) (l r : N) (ancs : list node) (io : mel * mel) (b : budget)
  : (option (mel * mel) * vres) * budget :=
  match ancs with
  | [] => ((Some io, VOk), b)
  | n :: rest =>
    match poll b with
    | None => ((None, VStopped), b)
    | Some b' =>
      let v := nv n in
      if chk && ((N.eqb (v_hash v) l) || (N.eqb (v_hash v) r)) && negb (v_ok v) then ((None, VSig), b')
      else match pour addr v io with
           | None => ((None, VFundsErr), b')
           | Some io' => pour_walk chk addr l r rest io' b'
           end
    end
  end.

(* validateLeaf *)
Definition validate (L : ledger) (n : node) (b : budget) : vres * budget :=
  let v := nv n in
  if negb (valid_weight L (v_weight v)) then (VWeight, b) else
  if negb (v_ok v) then (VSig, b) else
  if is_root n then (VOk, b) else
  if negb (is_spice (v_trx v)) || nmem (v_signer v) (trusted L) then
    (if live L (v_right v) && live L (v_left v) then (VOk, b) else (VParent, b))
  else
    let addr := t_issuer (v_trx v) in
    match supply zero_mel (funds_of L addr) with
    | (_, Some _) => (VFundsErr, b)
    | (i0, None) =>
      match pour addr v (i0, zero_mel) with
      | None => (VFundsErr, b)
      | Some io =>
        match pour_walk true addr (v_left v) (v_right v) (ancestors L n) io b with
        | ((None, r), b') => (r, b')
        | ((Some (i, o), _), b') =>
          match transfer o i zero_mel with
          | (_, None) => (VOk, b')
          | (_, Some _) => (VNoFunds, b')
          end
        end
      end
    end.

(* getValidLeaves: visit tips (ids) in the given order (Go map order); stop after two valid ones;
   the returned flag is whether the LAST visited tip failed (the named return err) *)
Fixpoint valid_leaves (L : ledger) (order : list N) (acc : list node) (lasterr : bool) (b : budget)
  : ((ledger * list node) * bool) * budget :=
  match order with
  | [] => (((L, acc), lasterr), b)
  | h :: rest =>
    if (2 <=? length acc)%nat then (((L, acc), lasterr), b) else
    (* the code ranges over GetLeaves(): an id that is not a current tip cannot occur; such hints are skipped *)
    match find_node h (dag L) with
    | None => valid_leaves L rest acc lasterr b
    | Some n =>
      if has_child L h || nmem h (map nhash acc) then valid_leaves L rest acc lasterr b else
      match validate L n b with
      | (VOk, b') => valid_leaves L rest (acc ++ [n]) false b'
      | (_, b') => valid_leaves (drop_tip L n) rest acc true b'
      end
    end
  end.

(* insert a vertex with edges from the given parents *)
Definition insert (L : ledger) (v : vertex) (ps : list N) : ledger :=
  let L1 := set_index L ((t_hash (v_trx v), v_hash v) :: index L) in
  set_dag L1 (Node v ps :: dag L1).

Definition dedup2 (a b : N) : list N := if N.eqb a b then [a] else [a; b].

(* ---------------------------------------------------------------- entry points *)
(* CreateGenesis: th / h are the hashes of the transaction and vertex the code created (observed);
   the vertex itself is built here as the code builds it: issued and sealed by this node, no parents, weight 0 *)
Definition genesis_vertex (L : ledger) (recv : N) (amt : mel) (data : bool) (th h : N) (vok : bool) : vertex :=
  Vtx h 0 0 0 (self L) vok (Trx th (self L) recv amt data).
Definition create_genesis (L : ledger) (recv : N) (amt : mel) (data : bool) (th h : N) (vok : bool) : ledger * res :=
  let v := genesis_vertex L recv amt data th h vok in
  if N.eqb recv (self L) then (L, RRejected) else
  if negb (canonb amt) then (L, RRejected) else
  if has_trx L th then (L, RRejected) else
  let L1 := set_index L ((th, h) :: index L) in
  if live L1 h then (L1, RRejected) else
  let L2 := set_dag L1 (Node v [] :: dag L1) in
  let L3 := bump (set_wt L2 (weight L2) initialThroughput) initialThroughput in
  (set_gen L3 (self L) true, ROk).

(* CreateLeaf. order1/order2: visiting orders of the tips for the first / second getValidLeaves;
   newh: hash of the created vertex (observed); b: cancellation budget. Returns created vertex. *)
Definition create_leaf (L : ledger) (t : trx) (order1 order2 : list N) (newh : N) (vok : bool) (b : budget)
  : ledger * res * option vertex :=
  if negb (loaded L) then (L, RNotLoaded, None) else
  if is_empty_trx t then (L, REmpty, None) else
  if negb (canonb (t_spice t)) then (L, RRejected, None) else
  if N.eqb (t_issuer t) (self L) then (L, ROwnNode, None) else
  if N.eqb (t_issuer t) (genesis L) then (L, RGenesisIssuer, None) else
  if N.eqb (t_receiver t) (genesis L) && is_spice t then (L, RRejected, None) else
  if has_trx L (t_hash t) then (L, RTrxExists, None) else
  match valid_leaves L order1 [] false b with
  | (((L1, _), true), _) => (L1, RRejected, None)
  | (((L1, acc), false), b1) =>
    let finish (L2 : ledger) (l r : node) :=
      let v := Vtx newh (nhash l) (nhash r) (wrap (Z.max (v_weight (nv l)) (v_weight (nv r)) + 1)) (self L) vok t in
      if has_trx L2 (t_hash t) then (L2, RRejected, None) else
      if live L2 newh then (L2, RRejected, None) else
      (insert L2 v (dedup2 (nhash l) (nhash r)), ROk, Some v) in
    match acc with
    | l :: r :: _ => finish L1 l r
    | [l] => finish L1 l l
    | [] =>
      match valid_leaves L1 order2 [] false b1 with
      | (((L2, _), true), _) => (L2, RRejected, None)
      | (((L2, l :: r :: _), false), _) => finish L2 l r
      | (((L2, [l]), false), _) => finish L2 l l
      | (((L2, []), false), _) => (L2, RRejected, None)   (* "expected at least one leaf but got zero" *)
      end
    end
  end.

(* buffer.insert *)
Definition park (L : ledger) (v : vertex) (rep : Z) : ledger * bool :=
  if (Z.of_nat (length (parked L)) =? maxArraySize) then (L, false) else
  if maxRepeats <? rep then (L, false) else
  (set_parked L (parked L ++ [(v, rep + 1)]), true).

(* the locked part of addLeafMemorized: parents left then right *)
Fixpoint link_parents (L : ledger) (v : vertex) (rep : Z) (hs : list N) (acc : list N) (b : budget)
  : (ledger * res * list N) * budget :=
  match hs with
  | [] => ((L, ROk, acc), b)
  | h :: rest =>
    match find_node h (dag L) with
    | None => match park L v rep with
              | (L', true) => ((L', RParentMissing, acc), b)
              | (L', false) => ((L', RRejected, acc), b)
              end
    | Some p =>
      if negb (has_child L h) then
        match validate L p b with
        | (VOk, b') => link_parents (bump L (v_weight (nv p))) v rep rest (acc ++ [h]) b'
        | (_, b') => ((rm_tip L p, RRejected, acc), b')
        end
      else link_parents L v rep rest (acc ++ [h]) b
    end
  end.

Definition dedup_adj (l : list N) : list N :=
  match l with a :: b :: _ => if N.eqb a b then [a] else l | _ => l end.

Definition add_leaf_mem (L : ledger) (v : vertex) (rep : Z) (b : budget) : ledger * res :=
  if N.eqb (t_issuer (v_trx v)) (genesis L) then (L, RGenesisIssuer) else
  if N.eqb (t_receiver (v_trx v)) (genesis L) && is_spice (v_trx v) then (L, RRejected) else
  if live L (v_hash v) || stored L (v_hash v) then (L, RVertexExists) else
  if has_trx L (t_hash (v_trx v)) then (L, RTrxExists) else
  if negb (v_ok v) then (L, RRejected) else
  match link_parents L v rep [v_left v; v_right v] [] b with
  | ((L1, ROk, ps), _) =>
    if has_trx L1 (t_hash (v_trx v)) then (L1, RRejected) else
    if live L1 (v_hash v) then (L1, RRejected) else
    (insert L1 v (dedup_adj ps), ROk)
  | ((L1, r, _), _) => (L1, r)
  end.

Definition add_leaf (L : ledger) (v : vertex) (b : budget) : ledger * res :=
  if negb (loaded L) then (L, RNotLoaded) else
  if N.eqb (t_issuer (v_trx v)) (v_signer v) then (L, ROwnNode) else
  if is_empty_trx (v_trx v) then (L, REmpty) else
  if negb (canonb (t_spice (v_trx v))) then (L, RRejected) else
  add_leaf_mem L v 0 b.

(* one tick of the replier: getNext (stable sort with a comparator that never reorders) + addLeafMemorized *)
Definition retry_one (L : ledger) (b : budget) : ledger * option res :=
  match parked L with
  | [] => (L, None)
  | (v, rep) :: rest =>
    let '(L', r) := add_leaf_mem (set_parked L rest) v rep b in (L', Some r)
  end.

(* ---------------------------------------------------------------- truncate (precalculate.go) *)
(* fundsMemMap as assoc list address -> (in, out); Supply errors ignored as in the code *)
Definition fm := list (N * (mel * mel)).
Definition fm_get (a : N) (m : fm) : mel * mel :=
  match assoc a m with Some p => p | None => (zero_mel, zero_mel) end.
Definition fm_next (m : fm) (v : vertex) : fm :=
  let t := v_trx v in
  if negb (is_spice t) then m else
  let ip := fm_get (t_issuer t) m in
  let m1 := assoc_set (t_issuer t) (fst ip, fst (supply (snd ip) (t_spice t))) m in
  let rp := fm_get (t_receiver t) m1 in
  assoc_set (t_receiver t) (fst (supply (fst rp) (t_spice t)), snd rp) m1.
Definition fm_result (p : mel * mel) : mel := fst (fst (transfer (snd p) (fst p) zero_mel)).

(* addr32: addresses whose string form is exactly 32 bytes are skipped when stored funds are reloaded *)
Definition truncate (L : ledger) (tip cut : node) (addr32 : list N) : ledger * res :=
  match leaves L with
  | [] => (L, ROk)
  | _ =>
    let ancs_tip := ancestors L tip in
    if (Z.of_nat (length ancs_tip) <? truncateDiff) || negb (nmem (nhash cut) (map nhash ancs_tip)) then (L, RRejected) else
    let moved := ancestors L cut in
    let m0 : fm := map (fun p => (fst p, (snd p, zero_mel))) (filter (fun p => negb (nmem (fst p) addr32)) (st_funds L)) in
    if existsb (fun n => stored L (nhash n)) moved then (L, RRejected) (* saveVertexToStorage refuses; partial state not modelled *) else
    let m1 := fold_left fm_next (map nv moved) m0 in
    let sf := fold_left (fun acc p => assoc_set (fst p) (fm_result (snd p)) acc) (rev m1) (st_funds L) in
    let L1 := set_store L (st_vtx L ++ map nv moved) sf in
    (set_dag L1 (fold_left (fun d n => del_node (nhash n) d) moved (dag L1)), ROk)
  end.

(* ---------------------------------------------------------------- reads *)
(* CalculateBalance with the tip the map range ended on *)
Definition balance (L : ledger) (addr : N) (tip : node) (b : budget) : option mel :=
  match pour addr (nv tip) (zero_mel, zero_mel) with
  | None => None
  | Some io =>
    match pour_walk false addr 0 0 (ancestors L tip) io b with
    | ((Some (i, o), _), _) =>
      match supply (funds_of L addr) i with
      | (s, None) => match transfer o s zero_mel with
                     | ((s', _), None) => Some s'
                     | _ => None
                     end
      | _ => None
      end
    | _ => None
    end
  end.

Definition read_vertex (L : ledger) (h : N) : option vertex :=
  match find_node h (dag L) with
  | Some n => Some (nv n)
  | None => find_vtx h (st_vtx L)
  end.
Definition read_trx (L : ledger) (th : N) : option trx :=
  match assoc th (index L) with
  | None => None
  | Some vh => match read_vertex L vh with Some v => Some (v_trx v) | None => None end
  end.

(* ---------------------------------------------------------------- LoadDag *)
(* stream: vertices as received; topo: the same vertices children-before-parents (witness that the
   edge insertion meets no loop; the graph library checks loops itself).  *)
Fixpoint load_insert (L : ledger) (s : list vertex) : option ledger :=
  match s with
  | [] => Some L
  | v :: r =>
    if has_trx L (t_hash (v_trx v)) then None else
    if live L (v_hash v) then None else
    load_insert (set_dag (set_index L ((t_hash (v_trx v), v_hash v) :: index L)) (dag L ++ [Node v []])) r
  end.
(* edges of one vertex as LoadDag adds them: left, then right unless equal to the previous; a parent
   equal to the zero hash before anything was added stops the loop (genesis) *)
Definition load_parents (v : vertex) : list N :=
  if N.eqb (v_left v) 0 then [] else
  if N.eqb (v_right v) (v_left v) then [v_left v] else [v_left v; v_right v].
Definition is_perm_hashes (a b : list vertex) : bool :=
  (length a =? length b)%nat && forallb (fun v => nmem (v_hash v) (map v_hash b)) a
  && forallb (fun v => nmem (v_hash v) (map v_hash a)) b.
Fixpoint topo_ok (l : list vertex) : bool :=
  match l with
  | [] => true
  | v :: r => forallb (fun p => nmem p (map v_hash r)) (load_parents v) && negb (nmem (v_hash v) (map v_hash r)) && topo_ok r
  end.
Definition load_dag (L : ledger) (s topo : list vertex) : ledger * bool :=
  if loaded L then (L, false) else
  let fin (L' : ledger) := set_wt L' (if weight L' <? initialThroughput then initialThroughput else weight L') initialThroughput in
  match load_insert L s with
  | None => (fin L, false)  (* partial insertions are not modelled: callers must treat the node as unusable *)
  | Some L1 =>
    if (2 <=? length (filter (fun v => N.eqb (t_issuer (v_trx v)) (v_signer v)) s))%nat then (fin L1, false) else
    if existsb (fun v => is_empty_trx (v_trx v)) s then (fin L1, false) else
    if existsb (fun v => negb (canonb (t_spice (v_trx v)))) s then (fin L1, false) else
    if negb (is_perm_hashes s topo && topo_ok topo) then (fin L1, false) else
    let d := map (fun v => Node v (load_parents v)) topo in
    let L2 := set_dag L1 d in
    match filter is_root d with
    | [] => (fin L2, false)
    | r :: _ => (fin (set_gen L2 (t_issuer (v_trx (nv r))) true), true)
    end
  end.

Definition add_trusted (L : ledger) (a : N) : ledger := set_trusted L (a :: nremove a (trusted L)).
Definition remove_trusted (L : ledger) (a : N) : ledger := set_trusted L (nremove a (trusted L)).
