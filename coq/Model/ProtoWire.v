(* Model/ProtoWire.v — the protobuf WIRE form of the gossip messages that carry a vertex, byte by byte:
   what google.golang.org/protobuf's proto.Marshal writes for protobufcompiled.Vertex / Transaction / Spice
   (proto3: fields in field-number order, a field holding its zero value - 0, "", empty bytes, nil message - is
   left out; varint fields as tag (num*8) + base-128 varint; strings, byte strings and embedded messages as tag
   (num*8+2) + varint length + payload), and a decoder for the general wire grammar restricted to the two wire types
   these messages use: a sequence of (tag, value) records in ANY order, unknown field numbers skipped, the last
   occurrence of a scalar winning, repeated occurrences of an embedded message merged (= their payloads concatenated),
   absent fields read as zero values.  `to_pvtx` is mapAccountantVertexToProtoVertex on the msgpack model's vertex.
   The encoder is compared BYTE-EXACT with proto.Marshal on every generated case and the decoder with
   proto.Unmarshal on those bytes and on every prefix of them (Run/CheckCodec.v).  Fixed-width records (wire types 1 and 5) are skipped as unknown
   fields, string fields (Vertex 1; Transaction 1, 5, 6) must be valid UTF-8 in every record that carries them - on the way out
   (`marshal_pvtx` refuses, the known finding C19 non-UTF-8) and on the way in -, every occurrence of an embedded message must
   decode on its own.  Not modelled: groups (wire types 3 and 4, deprecated, never produced: the model refuses them; the library
   skips a well-nested unknown group).  Definitions only. *)
From Coq Require Import List Arith NArith ZArith Bool.
From Verif Require Import WalletFile Msg Codec Msgpack.
Import ListNotations.
Local Open Scope N_scope.

Definition N64 : N := 18446744073709551616.
Definition nlen (b : bytes) : N := N.of_nat (List.length b).

(* ---------------------------------------------------------------- base-128 varints (at most 10 bytes for a uint64) *)
Fixpoint enc_varint_f (fuel : nat) (n : N) : bytes :=
  match fuel with
  | O => []
  | S f => if n <? 128 then [n] else (n mod 128 + 128) :: enc_varint_f f (n / 128)
  end.
Definition enc_varint (n : N) : bytes := enc_varint_f 10 n.
Fixpoint dec_varint_f (fuel : nat) (l : bytes) : option (N * bytes) :=
  match fuel with
  | O => None
  | S f =>
    match l with
    | [] => None
    | b :: r =>
      if b <? 128 then Some (b, r)
      else match dec_varint_f f r with Some (v, r') => Some (b - 128 + 128 * v, r') | None => None end
    end
  end.
(* protowire.ConsumeVarint: at most ten bytes, and the tenth may only carry the 64th bit *)
Definition dec_varint (l : bytes) : option (N * bytes) :=
  match dec_varint_f 10 l with
  | Some (v, r) => if v <? N64 then Some (v, r) else None
  | None => None
  end.

(* ---------------------------------------------------------------- records of the wire grammar *)
Inductive wval := WInt (v : N) | WBytes (b : bytes) | WSkip.   (* WSkip: a fixed32 / fixed64 record, always an unknown field here *)
Definition wfield : Type := N * wval.
Definition enc_field (f : wfield) : bytes :=
  match snd f with
  | WInt v => enc_varint (fst f * 8) ++ enc_varint v
  | WBytes b => enc_varint (fst f * 8 + 2) ++ enc_varint (nlen b) ++ b
  | WSkip => []                                                  (* never written *)
  end.
Definition enc_fields (fs : list wfield) : bytes := flat_map enc_field fs.

Definition max_field_number : N := 536870911.
Definition parse_step (rec : bytes -> option (list wfield)) (l : bytes) : option (list wfield) :=
  match dec_varint l with
  | None => None
  | Some (tag, r) =>
    if (tag / 8 =? 0) || (max_field_number <? tag / 8) then None
    else if tag mod 8 =? 0 then
      match dec_varint r with
      | Some (v, r') => option_map (cons (tag / 8, WInt v)) (rec r')
      | None => None
      end
    else if tag mod 8 =? 2 then
      match dec_varint r with
      | Some (n, r') =>
        if n <=? nlen r' then option_map (cons (tag / 8, WBytes (firstn (N.to_nat n) r'))) (rec (skipn (N.to_nat n) r'))
        else None
      | None => None
      end
    else if tag mod 8 =? 1 then
      if 8 <=? nlen r then option_map (cons (tag / 8, WSkip)) (rec (skipn 8 r)) else None
    else if tag mod 8 =? 5 then
      if 4 <=? nlen r then option_map (cons (tag / 8, WSkip)) (rec (skipn 4 r)) else None
    else None
  end.
Fixpoint parse (fuel : nat) (l : bytes) : option (list wfield) :=
  match fuel with
  | O => None
  | S f => match l with [] => Some [] | _ :: _ => parse_step (parse f) l end
  end.
Definition parse_all (l : bytes) : option (list wfield) := parse (S (List.length l)) l.

(* field look-up: last scalar wins, embedded messages merge; a record of the other wire type is an unknown field *)
Fixpoint geti (k : N) (fs : list wfield) (acc : N) : N :=
  match fs with
  | [] => acc
  | (n, w) :: r => geti k r (if n =? k then match w with WInt v => v | _ => acc end else acc)
  end.
Fixpoint getb (k : N) (fs : list wfield) (acc : bytes) : bytes :=
  match fs with
  | [] => acc
  | (n, w) :: r => getb k r (if n =? k then match w with WBytes b => b | _ => acc end else acc)
  end.
(* every occurrence of an embedded message, in order *)
Fixpoint getm (k : N) (fs : list wfield) : list bytes :=
  match fs with
  | [] => []
  | (n, w) :: r => if n =? k then match w with WBytes b => b :: getm k r | _ => getm k r end else getm k r
  end.

(* ---------------------------------------------------------------- UTF-8 (RFC 3629, what unicode/utf8.Valid accepts) *)
Definition between (lo b hi : N) : bool := (lo <=? b) && (b <=? hi).
Definition cont (b : N) : bool := between 128 b 191.
Fixpoint utf8_valid (l : bytes) : bool :=
  match l with
  | [] => true
  | a :: r =>
    if a <? 128 then utf8_valid r else
    match r with
    | [] => false
    | b :: r1 =>
      if between 194 a 223 then cont b && utf8_valid r1 else
      match r1 with
      | [] => false
      | c :: r2 =>
        if a =? 224 then between 160 b 191 && cont c && utf8_valid r2
        else if between 225 a 236 || between 238 a 239 then cont b && cont c && utf8_valid r2
        else if a =? 237 then between 128 b 159 && cont c && utf8_valid r2
        else
        match r2 with
        | [] => false
        | d :: r3 =>
          if a =? 240 then between 144 b 191 && cont c && cont d && utf8_valid r3
          else if between 241 a 243 then cont b && cont c && cont d && utf8_valid r3
          else if a =? 244 then between 128 b 143 && cont c && cont d && utf8_valid r3
          else false
        end
      end
    end
  end.
Definition mem (k : N) (l : list N) : bool := existsb (N.eqb k) l.
(* every length-delimited record of a string field carries valid UTF-8 (checked per record, also for one a later record overrides) *)
Definition strs_ok (strs : list N) (fs : list wfield) : bool :=
  forallb (fun f : wfield => match snd f with WBytes b => if mem (fst f) strs then utf8_valid b else true | _ => true end) fs.

(* ---------------------------------------------------------------- the three messages *)
Record pspice := PSpice { ps_cur : N; ps_sup : N }.
Record ptrx := PTrx {
  pt_subject : bytes; pt_data : bytes; pt_hash : bytes; pt_created : N; pt_receiver : bytes; pt_issuer : bytes;
  pt_rsig : bytes; pt_isig : bytes; pt_spice : option pspice }.
Record pvtx := PVtx {
  pv_signer : bytes; pv_created : N; pv_sig : bytes; pv_trx : option ptrx;
  pv_hash : bytes; pv_left : bytes; pv_right : bytes; pv_weight : N }.

(* proto3 presence: zero values are not written *)
Definition ifield (k v : N) : list wfield := if v =? 0 then [] else [(k, WInt v)].
Definition bfield (k : N) (b : bytes) : list wfield := match b with [] => [] | _ :: _ => [(k, WBytes b)] end.
Definition mfield (k : N) (o : option bytes) : list wfield := match o with None => [] | Some b => [(k, WBytes b)] end.

Definition spice_wire (s : pspice) : list wfield := ifield 1 (ps_cur s) ++ ifield 2 (ps_sup s).
Definition enc_pspice (s : pspice) : bytes := enc_fields (spice_wire s).
Definition trx_wire (t : ptrx) : list wfield :=
  bfield 1 (pt_subject t) ++ bfield 2 (pt_data t) ++ bfield 3 (pt_hash t) ++ ifield 4 (pt_created t) ++
  bfield 5 (pt_receiver t) ++ bfield 6 (pt_issuer t) ++ bfield 7 (pt_rsig t) ++ bfield 8 (pt_isig t) ++
  mfield 9 (option_map enc_pspice (pt_spice t)).
Definition enc_ptrx (t : ptrx) : bytes := enc_fields (trx_wire t).
Definition vtx_wire (v : pvtx) : list wfield :=
  bfield 1 (pv_signer v) ++ ifield 2 (pv_created v) ++ bfield 3 (pv_sig v) ++ mfield 4 (option_map enc_ptrx (pv_trx v)) ++
  bfield 5 (pv_hash v) ++ bfield 6 (pv_left v) ++ bfield 7 (pv_right v) ++ ifield 8 (pv_weight v).
Definition enc_pvtx (v : pvtx) : bytes := enc_fields (vtx_wire v).

Definition is_some {A} (o : option A) : bool := match o with Some _ => true | None => false end.
Definition dec_pspice (b : bytes) : option pspice :=
  match parse_all b with
  | Some fs => Some (PSpice (geti 1 fs 0) (geti 2 fs 0))
  | None => None
  end.
(* embedded message: absent -> nil; otherwise every occurrence must decode on its own, and the result is the merge of the
   occurrences = the decoding of their concatenation *)
Definition dec_sub {A} (dec : bytes -> option A) (bodies : list bytes) : option (option A) :=
  match bodies with
  | [] => Some None
  | _ :: _ => if forallb (fun b => is_some (dec b)) bodies then option_map Some (dec (concat bodies)) else None
  end.
Definition trx_strings : list N := [1; 5; 6].
Definition vtx_strings : list N := [1].
Definition dec_ptrx (b : bytes) : option ptrx :=
  match parse_all b with
  | Some fs =>
    if strs_ok trx_strings fs then
      match dec_sub dec_pspice (getm 9 fs) with
      | Some sp => Some (PTrx (getb 1 fs []) (getb 2 fs []) (getb 3 fs []) (geti 4 fs 0) (getb 5 fs []) (getb 6 fs [])
                              (getb 7 fs []) (getb 8 fs []) sp)
      | None => None
      end
    else None
  | None => None
  end.
Definition dec_pvtx (b : bytes) : option pvtx :=
  match parse_all b with
  | Some fs =>
    if strs_ok vtx_strings fs then
      match dec_sub dec_ptrx (getm 4 fs) with
      | Some tr => Some (PVtx (getb 1 fs []) (geti 2 fs 0) (getb 3 fs []) tr (getb 5 fs []) (getb 6 fs []) (getb 7 fs []) (geti 8 fs 0))
      | None => None
      end
    else None
  | None => None
  end.

(* proto.Marshal refuses a message with a string field that is not valid UTF-8 *)
Definition strings_valid_ptrx (t : ptrx) : bool := utf8_valid (pt_subject t) && utf8_valid (pt_receiver t) && utf8_valid (pt_issuer t).
Definition strings_valid_pvtx (v : pvtx) : bool :=
  utf8_valid (pv_signer v) && match pv_trx v with Some t => strings_valid_ptrx t | None => true end.
Definition marshal_pvtx (v : pvtx) : option bytes := if strings_valid_pvtx v then Some (enc_pvtx v) else None.

(* ---------------------------------------------------------------- what Go values can be *)
Definition wf_pspice (s : pspice) : Prop := ps_cur s < N64 /\ ps_sup s < N64.
Definition wf_ptrx (t : ptrx) : Prop :=
  nlen (pt_subject t) < N64 /\ nlen (pt_data t) < N64 /\ nlen (pt_hash t) < N64 /\ pt_created t < N64 /\
  nlen (pt_receiver t) < N64 /\ nlen (pt_issuer t) < N64 /\ nlen (pt_rsig t) < N64 /\ nlen (pt_isig t) < N64 /\
  match pt_spice t with Some s => wf_pspice s | None => True end.
Definition wf_pvtx (v : pvtx) : Prop :=
  nlen (pv_signer v) < N64 /\ pv_created v < N64 /\ nlen (pv_sig v) < N64 /\
  match pv_trx v with Some t => wf_ptrx t /\ nlen (enc_ptrx t) < N64 | None => True end /\
  nlen (pv_hash v) < N64 /\ nlen (pv_left v) < N64 /\ nlen (pv_right v) < N64 /\ pv_weight v < N64.

(* ---------------------------------------------------------------- the mapping of src/gossip (vertex -> wire struct) *)
Definition ob (o : option bytes) : bytes := match o with Some b => b | None => [] end.
Definition unixnano_u64 (t : Z * Z) : N := Z.to_N ((fst t * 1000000000 + snd t) mod P64).
Definition to_ptrx (t : mtrx) : ptrx :=
  PTrx (mt_subject t) (ob (mt_data t)) (mt_hash t) (unixnano_u64 (mt_created t)) (mt_receiver t) (mt_issuer t)
       (ob (mt_rsig t)) (ob (mt_isig t)) (Some (PSpice (Z.to_N (mm_cur (mt_spice t))) (Z.to_N (mm_sup (mt_spice t))))).
Definition to_pvtx (v : mvtx) : pvtx :=
  PVtx (mv_signer v) (unixnano_u64 (mv_created v)) (ob (mv_sig v)) (Some (to_ptrx (mv_trx v)))
       (mv_hash v) (mv_left v) (mv_right v) (Z.to_N (mv_weight v)).

(* ---------------------------------------------------------------- the gossip envelopes: VrxMsgGossip / TrxMsgGossip = the item + a REPEATED Gossiper *)
Record pgos := PGos { pg_address : bytes; pg_digest : bytes; pg_sig : bytes }.
Definition gos_strings : list N := [1].
Definition gos_wire (g : pgos) : list wfield := bfield 1 (pg_address g) ++ bfield 2 (pg_digest g) ++ bfield 3 (pg_sig g).
Definition enc_pgos (g : pgos) : bytes := enc_fields (gos_wire g).
Definition dec_pgos (b : bytes) : option pgos :=
  match parse_all b with
  | Some fs => if strs_ok gos_strings fs then Some (PGos (getb 1 fs []) (getb 2 fs []) (getb 3 fs [])) else None
  | None => None
  end.
(* a repeated message field: one record per element, an empty element included *)
Definition rfield (k : N) (bodies : list bytes) : list wfield := map (fun b => (k, WBytes b)) bodies.
Fixpoint dec_all {A} (dec : bytes -> option A) (l : list bytes) : option (list A) :=
  match l with
  | [] => Some []
  | b :: r => match dec b, dec_all dec r with Some a, Some t => Some (a :: t) | _, _ => None end
  end.
Record pvmsg := PVMsg { pm_vertex : option pvtx; pm_gossipers : list pgos }.
Definition vmsg_wire (m : pvmsg) : list wfield :=
  mfield 1 (option_map enc_pvtx (pm_vertex m)) ++ rfield 2 (map enc_pgos (pm_gossipers m)).
Definition enc_pvmsg (m : pvmsg) : bytes := enc_fields (vmsg_wire m).
Definition dec_pvmsg (b : bytes) : option pvmsg :=
  match parse_all b with
  | Some fs =>
    match dec_sub dec_pvtx (getm 1 fs), dec_all dec_pgos (getm 2 fs) with
    | Some v, Some gs => Some (PVMsg v gs)
    | _, _ => None
    end
  | None => None
  end.
Record ptmsg := PTMsg { pq_trx : option ptrx; pq_gossipers : list pgos }.
Definition tmsg_wire (m : ptmsg) : list wfield :=
  mfield 1 (option_map enc_ptrx (pq_trx m)) ++ rfield 2 (map enc_pgos (pq_gossipers m)).
Definition enc_ptmsg (m : ptmsg) : bytes := enc_fields (tmsg_wire m).
Definition dec_ptmsg (b : bytes) : option ptmsg :=
  match parse_all b with
  | Some fs =>
    match dec_sub dec_ptrx (getm 1 fs), dec_all dec_pgos (getm 2 fs) with
    | Some t, Some gs => Some (PTMsg t gs)
    | _, _ => None
    end
  | None => None
  end.
Definition wf_pgos (g : pgos) : Prop :=
  nlen (pg_address g) < N64 /\ nlen (pg_digest g) < N64 /\ nlen (pg_sig g) < N64 /\ utf8_valid (pg_address g) = true /\ nlen (enc_pgos g) < N64.
Definition wf_pvmsg (m : pvmsg) : Prop :=
  match pm_vertex m with Some v => wf_pvtx v /\ strings_valid_pvtx v = true /\ nlen (enc_pvtx v) < N64 | None => True end /\
  Forall wf_pgos (pm_gossipers m).
Definition wf_ptmsg (m : ptmsg) : Prop :=
  match pq_trx m with Some t => wf_ptrx t /\ strings_valid_ptrx t = true /\ nlen (enc_ptrx t) < N64 | None => True end /\
  Forall wf_pgos (pq_gossipers m).
