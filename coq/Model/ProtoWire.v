(* Model/ProtoWire.v — the protobuf WIRE form of the gossip messages that carry a vertex, byte by byte:
   what google.golang.org/protobuf's proto.Marshal writes for protobufcompiled.Vertex / Transaction / Spice
   (proto3: fields in field-number order, a field holding its zero value - 0, "", empty bytes, nil message - is
   left out; varint fields as tag (num*8) + base-128 varint; strings, byte strings and embedded messages as tag
   (num*8+2) + varint length + payload), and a decoder for the general wire grammar restricted to the two wire types
   these messages use: a sequence of (tag, value) records in ANY order, unknown field numbers skipped, the last
   occurrence of a scalar winning, repeated occurrences of an embedded message merged (= their payloads concatenated),
   absent fields read as zero values.  `to_pvtx` is mapAccountantVertexToProtoVertex on the msgpack model's vertex.
   The encoder is compared BYTE-EXACT with proto.Marshal on every generated case and the decoder with
   proto.Unmarshal on those bytes and on every prefix of them (Run/CheckCodec.v).  Not modelled: wire types 1, 3, 4, 5
   (never produced for these messages; the model decoder refuses them, the library skips them), UTF-8 validation of
   string fields (known finding C19 non-UTF-8).  Definitions only. *)
From Coq Require Import List Arith NArith ZArith Bool.
From Verif Require Import WalletFile Msg Codec Msgpack.
Import ListNotations.
Local Open Scope N_scope.

Definition N64 : N := 18446744073709551616.
Definition nlen (b : bytes) : N := N.of_nat (List.length b).

(* ---------------------------------------------------------------- base-128 varints (at most 10 bytes for a uint64) *)
Fixpoint enc_varint_f (fuel : nat) (n : N) : bytes :=
  match fuel with
  | O => []
  | S f => if n <? 128 then [n] else (n mod 128 + 128) :: enc_varint_f f (n / 128)
  end.
Definition enc_varint (n : N) : bytes := enc_varint_f 10 n.
Fixpoint dec_varint_f (fuel : nat) (l : bytes) : option (N * bytes) :=
  match fuel with
  | O => None
  | S f =>
    match l with
    | [] => None
    | b :: r =>
      if b <? 128 then Some (b, r)
      else match dec_varint_f f r with Some (v, r') => Some (b - 128 + 128 * v, r') | None => None end
    end
  end.
(* protowire.ConsumeVarint: at most ten bytes, and the tenth may only carry the 64th bit *)
Definition dec_varint (l : bytes) : option (N * bytes) :=
  match dec_varint_f 10 l with
  | Some (v, r) => if v <? N64 then Some (v, r) else None
  | None => None
  end.

(* ---------------------------------------------------------------- records of the wire grammar *)
Inductive wval := WInt (v : N) | WBytes (b : bytes).
Definition wfield : Type := N * wval.
Definition enc_field (f : wfield) : bytes :=
  match snd f with
  | WInt v => enc_varint (fst f * 8) ++ enc_varint v
  | WBytes b => enc_varint (fst f * 8 + 2) ++ enc_varint (nlen b) ++ b
  end.
Definition enc_fields (fs : list wfield) : bytes := flat_map enc_field fs.

Definition max_field_number : N := 536870911.
Definition parse_step (rec : bytes -> option (list wfield)) (l : bytes) : option (list wfield) :=
  match dec_varint l with
  | None => None
  | Some (tag, r) =>
    if (tag / 8 =? 0) || (max_field_number <? tag / 8) then None
    else if tag mod 8 =? 0 then
      match dec_varint r with
      | Some (v, r') => option_map (cons (tag / 8, WInt v)) (rec r')
      | None => None
      end
    else if tag mod 8 =? 2 then
      match dec_varint r with
      | Some (n, r') =>
        if n <=? nlen r' then option_map (cons (tag / 8, WBytes (firstn (N.to_nat n) r'))) (rec (skipn (N.to_nat n) r'))
        else None
      | None => None
      end
    else None
  end.
Fixpoint parse (fuel : nat) (l : bytes) : option (list wfield) :=
  match fuel with
  | O => None
  | S f => match l with [] => Some [] | _ :: _ => parse_step (parse f) l end
  end.
Definition parse_all (l : bytes) : option (list wfield) := parse (S (List.length l)) l.

(* field look-up: last scalar wins, embedded messages merge; a record of the other wire type is an unknown field *)
Fixpoint geti (k : N) (fs : list wfield) (acc : N) : N :=
  match fs with
  | [] => acc
  | (n, w) :: r => geti k r (if n =? k then match w with WInt v => v | WBytes _ => acc end else acc)
  end.
Fixpoint getb (k : N) (fs : list wfield) (acc : bytes) : bytes :=
  match fs with
  | [] => acc
  | (n, w) :: r => getb k r (if n =? k then match w with WBytes b => b | WInt _ => acc end else acc)
  end.
Definition merge (acc : option bytes) (b : bytes) : option bytes :=
  Some (match acc with None => b | Some a => a ++ b end).
Fixpoint getm (k : N) (fs : list wfield) (acc : option bytes) : option bytes :=
  match fs with
  | [] => acc
  | (n, w) :: r => getm k r (if n =? k then match w with WBytes b => merge acc b | WInt _ => acc end else acc)
  end.

(* ---------------------------------------------------------------- the three messages *)
Record pspice := PSpice { ps_cur : N; ps_sup : N }.
Record ptrx := PTrx {
  pt_subject : bytes; pt_data : bytes; pt_hash : bytes; pt_created : N; pt_receiver : bytes; pt_issuer : bytes;
  pt_rsig : bytes; pt_isig : bytes; pt_spice : option pspice }.
Record pvtx := PVtx {
  pv_signer : bytes; pv_created : N; pv_sig : bytes; pv_trx : option ptrx;
  pv_hash : bytes; pv_left : bytes; pv_right : bytes; pv_weight : N }.

(* proto3 presence: zero values are not written *)
Definition ifield (k v : N) : list wfield := if v =? 0 then [] else [(k, WInt v)].
Definition bfield (k : N) (b : bytes) : list wfield := match b with [] => [] | _ :: _ => [(k, WBytes b)] end.
Definition mfield (k : N) (o : option bytes) : list wfield := match o with None => [] | Some b => [(k, WBytes b)] end.

Definition spice_wire (s : pspice) : list wfield := ifield 1 (ps_cur s) ++ ifield 2 (ps_sup s).
Definition enc_pspice (s : pspice) : bytes := enc_fields (spice_wire s).
Definition trx_wire (t : ptrx) : list wfield :=
  bfield 1 (pt_subject t) ++ bfield 2 (pt_data t) ++ bfield 3 (pt_hash t) ++ ifield 4 (pt_created t) ++
  bfield 5 (pt_receiver t) ++ bfield 6 (pt_issuer t) ++ bfield 7 (pt_rsig t) ++ bfield 8 (pt_isig t) ++
  mfield 9 (option_map enc_pspice (pt_spice t)).
Definition enc_ptrx (t : ptrx) : bytes := enc_fields (trx_wire t).
Definition vtx_wire (v : pvtx) : list wfield :=
  bfield 1 (pv_signer v) ++ ifield 2 (pv_created v) ++ bfield 3 (pv_sig v) ++ mfield 4 (option_map enc_ptrx (pv_trx v)) ++
  bfield 5 (pv_hash v) ++ bfield 6 (pv_left v) ++ bfield 7 (pv_right v) ++ ifield 8 (pv_weight v).
Definition enc_pvtx (v : pvtx) : bytes := enc_fields (vtx_wire v).

Definition dec_pspice (b : bytes) : option pspice :=
  match parse_all b with
  | Some fs => Some (PSpice (geti 1 fs 0) (geti 2 fs 0))
  | None => None
  end.
Definition dec_sub {A} (dec : bytes -> option A) (o : option bytes) : option (option A) :=
  match o with
  | None => Some None
  | Some b => match dec b with Some a => Some (Some a) | None => None end
  end.
Definition dec_ptrx (b : bytes) : option ptrx :=
  match parse_all b with
  | Some fs =>
    match dec_sub dec_pspice (getm 9 fs None) with
    | Some sp => Some (PTrx (getb 1 fs []) (getb 2 fs []) (getb 3 fs []) (geti 4 fs 0) (getb 5 fs []) (getb 6 fs [])
                            (getb 7 fs []) (getb 8 fs []) sp)
    | None => None
    end
  | None => None
  end.
Definition dec_pvtx (b : bytes) : option pvtx :=
  match parse_all b with
  | Some fs =>
    match dec_sub dec_ptrx (getm 4 fs None) with
    | Some tr => Some (PVtx (getb 1 fs []) (geti 2 fs 0) (getb 3 fs []) tr (getb 5 fs []) (getb 6 fs []) (getb 7 fs []) (geti 8 fs 0))
    | None => None
    end
  | None => None
  end.

(* ---------------------------------------------------------------- what Go values can be *)
Definition wf_pspice (s : pspice) : Prop := ps_cur s < N64 /\ ps_sup s < N64.
Definition wf_ptrx (t : ptrx) : Prop :=
  nlen (pt_subject t) < N64 /\ nlen (pt_data t) < N64 /\ nlen (pt_hash t) < N64 /\ pt_created t < N64 /\
  nlen (pt_receiver t) < N64 /\ nlen (pt_issuer t) < N64 /\ nlen (pt_rsig t) < N64 /\ nlen (pt_isig t) < N64 /\
  match pt_spice t with Some s => wf_pspice s | None => True end.
Definition wf_pvtx (v : pvtx) : Prop :=
  nlen (pv_signer v) < N64 /\ pv_created v < N64 /\ nlen (pv_sig v) < N64 /\
  match pv_trx v with Some t => wf_ptrx t /\ nlen (enc_ptrx t) < N64 | None => True end /\
  nlen (pv_hash v) < N64 /\ nlen (pv_left v) < N64 /\ nlen (pv_right v) < N64 /\ pv_weight v < N64.

(* ---------------------------------------------------------------- the mapping of src/gossip (vertex -> wire struct) *)
Definition ob (o : option bytes) : bytes := match o with Some b => b | None => [] end.
Definition unixnano_u64 (t : Z * Z) : N := Z.to_N ((fst t * 1000000000 + snd t) mod P64).
Definition to_ptrx (t : mtrx) : ptrx :=
  PTrx (mt_subject t) (ob (mt_data t)) (mt_hash t) (unixnano_u64 (mt_created t)) (mt_receiver t) (mt_issuer t)
       (ob (mt_rsig t)) (ob (mt_isig t)) (Some (PSpice (Z.to_N (mm_cur (mt_spice t))) (Z.to_N (mm_sup (mt_spice t))))).
Definition to_pvtx (v : mvtx) : pvtx :=
  PVtx (mv_signer v) (unixnano_u64 (mv_created v)) (ob (mv_sig v)) (Some (to_ptrx (mv_trx v)))
       (mv_hash v) (mv_left v) (mv_right v) (Z.to_N (mv_weight v)).
