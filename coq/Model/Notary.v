(* Model/Notary.v — src/notaryserver/notary.server.go as a state machine: awaiting cache (C17's
   sequential specification), sealed transactions (the ledger through CreateLeaf; whether the ledger
   accepts the leaf is an oracle input), challenge store (src/dataprovider).  Signature checks are
   booleans supplied with the call (H-sig turns "the receiver's signature verifies" into "the receiver
   acted").  [how] records, for every sealed transaction, which call sealed it. *)
From Coq Require Import List Arith NArith Bool.
Import ListNotations.

Record ntrx := NTrx { n_hash : N; n_issuer : N; n_receiver : N; n_data : bool }.
Inductive how := ByPropose | ByConfirm | ByReject.
Record nstate := NState {
  awaiting : list ntrx;
  sealed : list (ntrx * how);
  challenges : list (N * N)      (* address -> unexpired blob *)
}.
Definition ninit : nstate := NState [] [] [].

Inductive nop :=
  | NPropose (t : ntrx) (isig : bool) (ledger_ok : bool)
  | NConfirm (t : ntrx) (isig rsig : bool) (ledger_ok : bool)
  | NReject (h : N) (addr : N) (sig : bool) (ledger_ok : bool)
  | NData (addr : N) (blob : N)
  | NExpire (addr : N)
  | NWaiting (addr : N) (blob : N) (sig : bool)
  | NHistory (addr : N) (blob : N) (sig throttled : bool)
  | NBalance (addr : N) (data_is_addr sig throttled : bool).

Inductive nres := NOk | NErr | NList (l : list N).

Definition find_await (h : N) (st : nstate) : option ntrx := find (fun t => N.eqb (n_hash t) h) (awaiting st).
Definition del_await (h : N) (st : nstate) : list ntrx := filter (fun t => negb (N.eqb (n_hash t) h)) (awaiting st).
Definition is_sealed (h : N) (st : nstate) : bool := existsb (fun p => N.eqb (n_hash (fst p)) h) (sealed st).
Definition get_chall (a : N) (st : nstate) : option N :=
  match find (fun p => N.eqb (fst p) a) (challenges st) with Some p => Some (snd p) | None => None end.
Definition set_chall (a b : N) (st : nstate) : list (N * N) := (a, b) :: filter (fun p => negb (N.eqb (fst p) a)) (challenges st).
Definition involved (a : N) (t : ntrx) : bool := N.eqb (n_issuer t) a || N.eqb (n_receiver t) a.

(* CreateLeaf: the ledger holds a transaction at most once (C03); otherwise its verdict is the oracle *)
Definition seal (st : nstate) (t : ntrx) (k : how) (ledger_ok : bool) : option (list (ntrx * how)) :=
  if is_sealed (n_hash t) st || negb ledger_ok then None else Some ((t, k) :: sealed st).

Definition nstep (st : nstate) (o : nop) : nstate * nres :=
  match o with
  | NPropose t isig lok =>
    if negb isig then (st, NErr) else
    if n_data t then
      match find_await (n_hash t) st with
      | Some _ => (st, NErr)
      | None => (NState (t :: awaiting st) (sealed st) (challenges st), NOk)
      end
    else match seal st t ByPropose lok with
         | Some s => (NState (awaiting st) s (challenges st), NOk)
         | None => (st, NErr)
         end
  | NConfirm t isig rsig lok =>
    if negb (isig && rsig) then (st, NErr) else
    match find_await (n_hash t) st with
    | None => (st, NErr)
    | Some c =>
      if negb (N.eqb (n_receiver c) (n_receiver t)) then (st, NErr) else
      let st1 := NState (del_await (n_hash t) st) (sealed st) (challenges st) in
      match seal st1 t ByConfirm lok with
      | Some s => (NState (awaiting st1) s (challenges st1), NOk)
      | None => (st1, NErr)                       (* the awaiting entry is gone although the request failed *)
      end
    end
  | NReject h addr sig lok =>
    if negb sig then (st, NErr) else
    match find_await h st with
    | None => (st, NErr)
    | Some c =>
      if negb (N.eqb (n_receiver c) addr) then (st, NErr) else
      let st1 := NState (del_await h st) (sealed st) (challenges st) in
      match seal st1 c ByReject lok with
      | Some s => (NState (awaiting st1) s (challenges st1), NOk)
      | None => (st1, NErr)
      end
    end
  | NData addr blob => (NState (awaiting st) (sealed st) (set_chall addr blob st), NOk)
  | NExpire addr => (NState (awaiting st) (sealed st) (filter (fun p => negb (N.eqb (fst p) addr)) (challenges st)), NOk)
  | NWaiting addr blob sig =>
    match get_chall addr st with
    | Some b => if N.eqb b blob && sig then (st, NList (map n_hash (filter (involved addr) (awaiting st)))) else (st, NErr)
    | None => (st, NErr)
    end
  | NHistory addr blob sig throttled =>
    if throttled then (st, NErr) else
    match get_chall addr st with
    | Some b => if N.eqb b blob && sig then (st, NOk) else (st, NErr)
    | None => (st, NErr)
    end
  | NBalance addr data_is_addr sig throttled =>
    if throttled then (st, NErr) else if data_is_addr && sig then (st, NOk) else (st, NErr)
  end.

Definition nrun (ops : list nop) : nstate := fold_left (fun st o => fst (nstep st o)) ops ninit.
