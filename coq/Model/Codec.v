(* Model/Codec.v — transcodings: (a) vertex/transaction <-> protobuf wire records
   (src/gossip/gossip.go mapAccountantVertexToProtoVertex / mapProtoVertexToAccountantVertex,
   src/transformers/transaction.go), with the uint64(UnixNano) / time.Unix(0,int64(u)) arithmetic;
   (b) the msgpack primitives the storage/cache codecs are built from: uint64 (vmihailenco v4.0.4 writes
   0xcf + 8 bytes big endian) and time.Time as ext -1 in its 4/8/12-byte forms with the 34-bit packing
   (vmihailenco encode, shamaton/vmihailenco decode). Shifts are written as * and / by powers of two. *)
From Coq Require Import List Arith NArith ZArith Lia Bool.
From Verif Require Import WalletFile Msg.
Import ListNotations.
Local Open Scope Z_scope.

Definition P64 : Z := 18446744073709551616.
Definition P63 : Z := 9223372036854775808.
Definition P34 : Z := 17179869184.
Definition P32 : Z := 4294967296.

(* ---------------------------------------------------------------- (a) protobuf timestamps *)
Definition time_to_wire (unixnano : Z) : Z := unixnano mod P64.              (* uint64(t.UnixNano()) *)
Definition time_of_wire (u : Z) : Z := if u <? P63 then u else u - P64.      (* int64(u) *)

(* a vertex as the ledger holds it; byte strings that the mapping only copies are abstract values *)
Record avtx (B : Type) := AVtx {
  a_signer : B; a_created : Z; a_sig : B; a_hash : B; a_left : B; a_right : B; a_weight : Z;
  at_created : Z; at_issuer : B; at_receiver : B; at_subject : B; at_data : B; at_isig : B; at_rsig : B; at_hash : B;
  at_cur : Z; at_sup : Z }.
Arguments AVtx {B}. Arguments a_signer {B}. Arguments a_created {B}. Arguments a_sig {B}. Arguments a_hash {B}.
Arguments a_left {B}. Arguments a_right {B}. Arguments a_weight {B}. Arguments at_created {B}. Arguments at_issuer {B}.
Arguments at_receiver {B}. Arguments at_subject {B}. Arguments at_data {B}. Arguments at_isig {B}. Arguments at_rsig {B}.
Arguments at_hash {B}. Arguments at_cur {B}. Arguments at_sup {B}.

Definition to_proto {B} (v : avtx B) : avtx B :=     (* times become uint64 on the wire *)
  AVtx (a_signer v) (time_to_wire (a_created v)) (a_sig v) (a_hash v) (a_left v) (a_right v) (a_weight v)
       (time_to_wire (at_created v)) (at_issuer v) (at_receiver v) (at_subject v) (at_data v) (at_isig v) (at_rsig v) (at_hash v)
       (at_cur v) (at_sup v).
Definition of_proto {B} (p : avtx B) : avtx B :=
  AVtx (a_signer p) (time_of_wire (a_created p)) (a_sig p) (a_hash p) (a_left p) (a_right p) (a_weight p)
       (time_of_wire (at_created p)) (at_issuer p) (at_receiver p) (at_subject p) (at_data p) (at_isig p) (at_rsig p) (at_hash p)
       (at_cur p) (at_sup p).

(* ---------------------------------------------------------------- (b) msgpack primitives *)
Fixpoint be_bytes (n : nat) (x : Z) : bytes :=
  match n with O => [] | S k => be_bytes k (x / 256) ++ [Z.to_N (x mod 256)] end.
Definition be_decode (b : bytes) : Z := fold_left (fun acc y => acc * 256 + Z.of_N y) b 0.

Definition enc_u64 (x : Z) : bytes := 207%N :: be_bytes 8 x.                (* 0xcf *)
Definition dec_u64 (b : bytes) : option (Z * bytes) :=
  match b with
  | c :: r =>
    if N.ltb c 128 then Some (Z.of_N c, r)                                     (* positive fixint *)
    else if N.eqb c 204 then match r with a :: r' => Some (Z.of_N a, r') | _ => None end
    else if N.eqb c 205 then if Nat.leb 2 (length r) then Some (be_decode (firstn 2 r), skipn 2 r) else None
    else if N.eqb c 206 then if Nat.leb 4 (length r) then Some (be_decode (firstn 4 r), skipn 4 r) else None
    else if N.eqb c 207 then if Nat.leb 8 (length r) then Some (be_decode (firstn 8 r), skipn 8 r) else None
    else None
  | [] => None
  end.

(* time = (seconds as int64, nanoseconds in [0, 10^9)) *)
Definition time_payload (sec nsec : Z) : bytes :=
  let secs := sec mod P64 in                                   (* uint64(tm.Unix()) *)
  if secs / P34 =? 0 then
    let data := nsec * P34 + secs in                           (* nsec<<34 | secs *)
    if data / P32 =? 0 then be_bytes 4 data else be_bytes 8 data
  else be_bytes 4 nsec ++ be_bytes 8 secs.
Definition ext_header (len : nat) : bytes :=
  if Nat.eqb len 4 then [214%N] else if Nat.eqb len 8 then [215%N] else [199%N; N.of_nat len].   (* d6 / d7 / c7 len *)
Definition enc_time (sec nsec : Z) : bytes :=
  let p := time_payload sec nsec in ext_header (length p) ++ [255%N] ++ p.                        (* type -1 *)
Definition to_i64 (u : Z) : Z := if u <? P63 then u else u - P64.
Definition dec_time_payload (p : bytes) : option (Z * Z) :=
  match length p with
  | 4%nat => Some (be_decode p, 0)
  | 8%nat => let d := be_decode p in Some (to_i64 (d mod P34), d / P34)
  | 12%nat => Some (to_i64 (be_decode (skipn 4 p)), be_decode (firstn 4 p))
  | _ => None
  end.
Definition dec_time (b : bytes) : option (Z * Z) :=
  match b with
  | 214%N :: 255%N :: p => dec_time_payload (firstn 4 p)
  | 215%N :: 255%N :: p => dec_time_payload (firstn 8 p)
  | 199%N :: 12%N :: 255%N :: p => dec_time_payload (firstn 12 p)
  | _ => None
  end.
