(* Model/Handlers.v — the RPC handlers of src/notaryserver, src/gossip, src/webhooksserver and the peer-vertex
   ingress, as programs over message SHAPES: each bytes/string field is abstracted to its length (any nat),
   each sub-message to present/absent, each dependency call (verifier, cache, ledger, challenge store,
   flash, webhook store) to an oracle outcome.  Two primitives can crash a Go handler:
     Conv32 f  = [32]byte(x.f)  panics when len < 32;   Deref s = x.s.y  panics when s is absent.
   A program returns Resp | RErr | RPanic and the list of mutating dependency calls that took effect. *)
From Coq Require Import List Arith Bool Lia.
Import ListNotations.

Inductive outcome3 := Resp | RErr | RPanic.
Record shape := Shape { flen : nat -> nat; sub : nat -> bool; orc : nat -> bool }.

Inductive cond :=
  | CLenEq (f n : nat) | CLenNe (f n : nat) | CLenGt (f n : nat) | CLenDiff (f g : nat)
  | CAbsent (s : nat) | CPresent (s : nat) | COrc (o : nat) | COr (a b : cond) | CAnd (a b : cond) | CTrue.

Fixpoint evalc (sh : shape) (c : cond) : bool :=
  match c with
  | CLenEq f n => Nat.eqb (flen sh f) n
  | CLenNe f n => negb (Nat.eqb (flen sh f) n)
  | CLenGt f n => Nat.ltb n (flen sh f)
  | CLenDiff f g => negb (Nat.eqb (flen sh f) (flen sh g))
  | CAbsent s => negb (sub sh s)
  | CPresent s => sub sh s
  | COrc o => orc sh o
  | COr a b => evalc sh a || evalc sh b
  | CAnd a b => evalc sh a && evalc sh b
  | CTrue => true
  end.

(* every instruction carries a condition under which it executes (CTrue = always): no nesting needed *)
Inductive instr :=
  | Conv32 (c : cond) (f : nat)                      (* if c: [32]byte(x.f), panics when the field is shorter *)
  | Deref (c : cond) (s : nat)                       (* if c: x.s.y, panics when the sub-message is absent *)
  | ErrIf (c : cond)                                 (* if c: return an error *)
  | RespIf (c : cond)                                (* if c: return a response *)
  | Call (c : cond) (o : nat) (m : option nat) (fatal : bool)
       (* if c: dependency call; oracle o succeeds: record mutation m, go on; fails: fatal -> error, else go on *)
  | Mut (m : nat).                                   (* a mutating call that always takes effect *)

(* None = fell off the end of the program *)
Fixpoint exec (p : list instr) (sh : shape) (muts : list nat) : option outcome3 * list nat :=
  match p with
  | [] => (None, muts)
  | i :: r =>
    match i with
    | Conv32 c f => if evalc sh c && Nat.ltb (flen sh f) 32 then (Some RPanic, muts) else exec r sh muts
    | Deref c s => if evalc sh c && negb (sub sh s) then (Some RPanic, muts) else exec r sh muts
    | ErrIf c => if evalc sh c then (Some RErr, muts) else exec r sh muts
    | RespIf c => if evalc sh c then (Some Resp, muts) else exec r sh muts
    | Call c o m fatal =>
      if evalc sh c then
        if orc sh o then exec r sh (match m with Some x => muts ++ [x] | None => muts end)
        else if fatal then (Some RErr, muts) else exec r sh muts
      else exec r sh muts
    | Mut m => exec r sh (muts ++ [m])
    end
  end.

Definition run (p : list instr) (sh : shape) : outcome3 * list nat :=
  match exec p sh [] with (Some o, ms) => (o, ms) | (None, ms) => (Resp, ms) end.

(* ---------------------------------------------------------------- field / sub-message / oracle / mutation numbering *)
(* transaction: 0 subject 1 issuer 2 receiver 3 hash 4 created_at(0 = zero) 5 issuer sig 6 data 7 receiver sig; sub 0 spice
   signed hash: 10 address 11 data 12 hash 13 signature;  vertex: 20 hash 21 left 22 right 23 sig 24 signer; sub 1 transaction, 2 vertex
   gossiper entry: sub 3 present, 30 digest;  sub 4 trx of a TrxMsgGossip;  connection data: 40 digest;  address: 50 public *)
Definition oVerify1 := 0. Definition oVerify2 := 1. Definition oSave := 2. Definition oRemove := 3. Definition oSeal := 4.
Definition oChall := 5. Definition oFlash := 6. Definition oRead := 7. Definition oBalHit := 8. Definition oHook := 9.
Definition oGossiperSig := 10. Definition oDial := 11.
Definition mSave := 0. Definition mRemove := 1. Definition mSeal := 2. Definition mChall := 3. Definition mPeer := 4. Definition mHook := 5.

Fixpoint orl (l : list cond) : cond := match l with [] => CLenNe 99 0 | [c] => c | c :: r => COr c (orl r) end.

(* transformers.ProtoTrxToTrx (after fix 61edbd9: hash must be 32 bytes, spice present) *)
Definition proto_trx_to_trx : list instr :=
  [ErrIf (orl [CLenEq 0 0; CLenEq 1 0; CLenEq 2 0; CLenNe 3 32; CAbsent 0; CLenEq 4 0; CLenEq 5 0]); Conv32 CTrue 3; Deref CTrue 0].
Definition valid_proto_trx_fails : cond := COr (CLenNe 3 32) (CAbsent 0).
Definition valid_proto_vertex_fails : cond := orl [CLenNe 20 32; CLenNe 21 32; CLenNe 22 32; CAbsent 1; CLenNe 3 32; CAbsent 0].
Definition map_proto_vertex : list instr := [Conv32 CTrue 3; Deref CTrue 0; Conv32 CTrue 20; Conv32 CTrue 21; Conv32 CTrue 22].
(* verifyGossipers over the (at most one, in the enumeration) entry: sub 3 = an entry is present, field 30 = its
   digest; entries with a digest of the wrong size are skipped like entries with a bad signature *)
Definition entry_ok : cond := CAnd (CPresent 3) (CLenEq 30 32).
Definition gossipers_loop : list instr := [Conv32 entry_ok 30; Call entry_ok oGossiperSig None false].

Definition is_contract : cond := CLenNe 6 0.
Definition p_propose : list instr :=
  proto_trx_to_trx ++
  [Call CTrue oVerify1 None true;
   ErrIf (CAnd is_contract (CLenGt 6 1024)); Call is_contract oSave (Some mSave) true; RespIf is_contract;
   Call CTrue oSeal (Some mSeal) true].
Definition p_confirm : list instr :=
  proto_trx_to_trx ++
  [Call CTrue oVerify1 None true; Call CTrue oVerify2 None true; Call CTrue oRemove (Some mRemove) true; Call CTrue oSeal (Some mSeal) true].
Definition p_reject : list instr :=
  [ErrIf (COr (CLenNe 12 32) (CLenNe 11 32)); Conv32 CTrue 12; Call CTrue oVerify1 None true; Conv32 CTrue 11;
   Call CTrue oRemove (Some mRemove) true; Call CTrue oSeal (Some mSeal) true].
Definition p_waiting : list instr :=
  [ErrIf (CLenNe 12 32); Call CTrue oChall None true; Conv32 CTrue 12; Call CTrue oVerify1 None true].
Definition p_saved : list instr :=
  [ErrIf (COr (CLenNe 12 32) (CLenNe 11 32)); Conv32 CTrue 12; Call CTrue oVerify1 None true; Conv32 CTrue 11; Call CTrue oRead None true].
Definition p_data : list instr := [ErrIf (CLenEq 50 0); Mut mChall].
Definition p_balance : list instr :=
  [ErrIf (CLenNe 12 32); ErrIf (COrc oFlash); ErrIf (CLenDiff 11 10); Conv32 CTrue 12; Call CTrue oVerify1 None true;
   RespIf (COrc oBalHit); Call CTrue oRead None true].
Definition p_trxs_in_dag : list instr :=
  [ErrIf (CLenNe 12 32); ErrIf (COrc oFlash); Call CTrue oChall None true; Conv32 CTrue 12; Call CTrue oVerify1 None true; Call CTrue oRead None true].
Definition p_alive : list instr := [].
Definition p_gossip_vrx : list instr :=
  [ErrIf (CAbsent 2); ErrIf (CAbsent 1); ErrIf valid_proto_vertex_fails; RespIf (COrc oFlash); Conv32 CTrue 20] ++ gossipers_loop ++
  map_proto_vertex ++
  [Call CTrue oSeal (Some mSeal) true; Conv32 CTrue 3; Call CTrue oRemove (Some mRemove) false; Conv32 CTrue 20].
Definition p_gossip_trx : list instr :=
  [ErrIf (CAbsent 4); ErrIf valid_proto_trx_fails; RespIf (COrc oFlash); Conv32 CTrue 3] ++ gossipers_loop ++
  proto_trx_to_trx ++
  [Call CTrue oVerify1 None true; Call CTrue oSave (Some mSave) false; Conv32 CTrue 3].
Definition p_get_vertex : list instr :=
  [ErrIf (COr (CLenNe 12 32) (CLenNe 11 32)); Conv32 CTrue 12; Call CTrue oVerify1 None true; Conv32 CTrue 11; Call CTrue oRead None true].
Definition p_announce : list instr := [ErrIf (CLenNe 40 32); Conv32 CTrue 40; Call CTrue oVerify1 None true; Call CTrue oDial (Some mPeer) true].
Definition p_discover : list instr := [ErrIf (CLenNe 40 32); Conv32 CTrue 40; Call CTrue oVerify1 None true; Call CTrue oDial (Some mPeer) true].
Definition p_webhooks : list instr := [ErrIf (CLenNe 12 32); Conv32 CTrue 12; Call CTrue oVerify1 None true; Call CTrue oHook (Some mHook) true].
Definition p_ingest_vertex : list instr := [ErrIf valid_proto_vertex_fails] ++ map_proto_vertex.
(* gossiper.processLackingParent, one peer: the vertex a peer returns is validated, mapped and offered to the ledger; an invalid
   answer is skipped (the function returns normally); sub 2 = the peer answered with a vertex at all *)
Definition p_fetch_parent : list instr :=
  [RespIf (CAbsent 2); RespIf valid_proto_vertex_fails] ++ map_proto_vertex ++ [Call CTrue oSeal (Some mSeal) false].

Definition program (h : nat) : list instr :=
  match h with
  | 1 => p_propose | 2 => p_confirm | 3 => p_reject | 4 => p_waiting | 5 => p_saved | 6 => p_data | 7 => p_balance
  | 8 => p_trxs_in_dag | 9 => p_alive | 10 => p_gossip_vrx | 11 => p_gossip_trx | 12 => p_get_vertex | 13 => p_announce
  | 14 => p_discover | 15 => p_alive | 16 => p_webhooks | 17 => p_ingest_vertex | 18 => p_fetch_parent | _ => []
  end.
Definition all_handlers : list nat := seq 1 18.

(* ---------------------------------------------------------------- correspondence cases *)
Definition hcase := (nat * list (nat * nat) * list (nat * nat) * list (nat * nat) * nat * list nat)%type.
Fixpoint alook (k : nat) (l : list (nat * nat)) : nat :=
  match l with [] => 0 | (k', v) :: r => if Nat.eqb k k' then v else alook k r end.
Definition shape_of (lens subs orcs : list (nat * nat)) : shape :=
  Shape (fun f => alook f lens) (fun s => Nat.eqb (alook s subs) 1) (fun o => Nat.eqb (alook o orcs) 1).
Definition out_code (o : outcome3) : nat := match o with Resp => 0 | RErr => 1 | RPanic => 2 end.
Fixpoint nat_list_eqb (a b : list nat) : bool :=
  match a, b with [], [] => true | x :: a', y :: b' => Nat.eqb x y && nat_list_eqb a' b' | _, _ => false end.
Fixpoint nins (x : nat) (l : list nat) : list nat :=
  match l with [] => [x] | y :: r => if Nat.leb x y then x :: l else y :: nins x r end.
Definition hcase_ok (c : hcase) : bool :=
  match c with
  | (h, lens, subs, orcs, out, muts) =>
    let '(o, ms) := run (program h) (shape_of lens subs orcs) in
    Nat.eqb (out_code o) out && nat_list_eqb (fold_right nins [] ms) muts
  end.
Definition hmismatches (chunk : nat) (cs : list hcase) : list (nat * nat) :=
  map (fun p => (chunk, fst p)) (filter (fun p => negb (hcase_ok (snd p))) (combine (seq 0 (length cs)) cs)).
