(* Model/Gossip.v — src/gossip/gossip.go GossipVrx / GossipTrx for ONE item (a vertex whose parents are
   already everywhere, or an awaiting transaction): the duplicate-suppression memory (flash), the verified
   gossiper set, process-then-forward.  Nodes are N; the network is any peer function; the scheduler may
   deliver any in-flight message, duplicate it, or (adversary) deliver a corrupted copy carrying the same
   hash.  An entry of a gossiper list is (address, does its signature verify for address|this hash). *)
From Coq Require Import List Arith NArith Bool.
Import ListNotations.

Definition gmem (x : N) (l : list N) : bool := existsb (N.eqb x) l.

Record gstate := GState {
  seen : list N;                         (* flash: nodes that have seen this hash *)
  processed : list N;                    (* nodes whose ledger / signature check admitted the item, in order *)
  inflight : list (N * list (N * bool)); (* destination, gossiper list as carried on the wire *)
  sent : nat                             (* messages ever sent *)
}.

Section Net.
  Variable peers : N -> list N.
  Variable accept : N -> bool.           (* AddLeaf ok / issuer signature ok at that node *)

  (* verifyGossipers: only entries whose signature verifies count *)
  Definition verified (g : list (N * bool)) : list N := map fst (filter snd g).

  (* origin: the locally created item is sent to every peer not in the (one-element) gossiper set *)
  Definition origin_dests (o : N) : list N := filter (fun p => negb (gmem p [o])) (peers o).
  Definition origin_state (o : N) : gstate :=
    GState [] [o] (map (fun p => (p, [(o, true)])) (origin_dests o)) (length (origin_dests o)).

  (* the handler at node n for a message carrying list g *)
  Definition handle (st : gstate) (n : N) (g : list (N * bool)) : gstate * (bool * list N) :=
    if gmem n (seen st) then (st, (false, [])) else
    let st1 := GState (n :: seen st) (processed st) (inflight st) (sent st) in
    let vs := verified g in
    if gmem n vs then (st1, (false, [])) else
    if negb (accept n) then (st1, (false, [])) else
    let g' := (n, true) :: filter snd g in          (* toSlice(set) with the own signature added *)
    let dests := filter (fun p => negb (gmem p (n :: vs))) (peers n) in
    (GState (n :: seen st) (processed st ++ [n]) (inflight st ++ map (fun p => (p, g')) dests) (sent st + length dests),
     (true, dests)).

  Fixpoint remove_nth {A} (i : nat) (l : list A) : list A :=
    match i, l with
    | _, [] => []
    | O, _ :: r => r
    | S k, x :: r => x :: remove_nth k r
    end.

  Inductive sched :=
    | Deliver (i : nat)                    (* deliver the i-th in-flight message and consume it *)
    | Dup (i : nat)                        (* the network duplicates the i-th in-flight message *)
    | Corrupt (n : N).                     (* a Byzantine relay hands node n a corrupted copy with the same hash *)

  Definition gstep (st : gstate) (s : sched) : gstate :=
    match s with
    | Deliver i =>
      match nth_error (inflight st) i with
      | None => st
      | Some (n, g) =>
        fst (handle (GState (seen st) (processed st) (remove_nth i (inflight st)) (sent st)) n g)
      end
    | Dup i =>
      match nth_error (inflight st) i with
      | None => st
      | Some m => GState (seen st) (processed st) (inflight st ++ [m]) (sent st)
      end
    | Corrupt n =>
      (* HasHash marks the hash before anything is verified; the ledger then rejects the corrupted copy *)
      if gmem n (seen st) then st else GState (n :: seen st) (processed st) (inflight st) (sent st)
    end.

  Definition grun (o : N) (ss : list sched) : gstate := fold_left gstep ss (origin_state o).
  Definition honest (s : sched) : bool := match s with Corrupt _ => false | _ => true end.
End Net.
