(* Model/Spice.v — src/spice/spice.go: New, Supply, Transfer, Drain, statement by statement,
   every uint64 + and - wrapped explicitly.  Definitions only. *)
From Verif Require Export U64.
From Verif Require Import RepoConstants.

Definition MX : Z := MaxAmountPerSupplementaryCurrency.

Record mel := Mel { cur : Z; sup : Z }.

Inductive serr := Overflow | NoFunds.

Definition mel_eqb (a b : mel) : bool := (cur a =? cur b) && (sup a =? sup b).
Definition mel_empty (m : mel) : bool := (cur m =? 0) && (sup m =? 0).

(* func New(currency, supplementaryCurrency uint64) Melange *)
Definition mnew (c s : Z) : mel :=
  if MX <=? s then Mel (wrap (c + 1)) (wrap (s - MX)) else Mel c s.

(* func (m *Melange) Supply(amount Melange) error — returns the receiver's final value *)
Definition supply (m a : mel) : mel * option serr :=
  if (MAXU - cur a) <? cur m then (m, Some Overflow) else
  let c1 := wrap (cur m + cur a) in
  if (wrap (MX - sup a) <=? sup m) && (c1 =? MAXU) then (m, Some Overflow) else
  let s1 := wrap (sup m + sup a) in
  if MX <=? s1 then (Mel (wrap (c1 + 1)) (wrap (s1 - MX)), None)
  else (Mel c1 s1, None).

(* func Transfer(amount Melange, from, to *Melange) error — returns (from', to') *)
Definition transfer (a f t : mel) : (mel * mel) * option serr :=
  if cur f <? cur a then ((f, t), Some NoFunds) else
  if (MAXU - cur a) <? cur t then ((f, t), Some Overflow) else
  let tc := wrap (cur t + cur a) in
  let fc := wrap (cur f - cur a) in
  if (wrap (MX - sup a) <=? sup t) && (tc =? MAXU) then ((f, t), Some Overflow) else
  if sup f <? sup a then
    if fc =? 0 then ((f, t), Some NoFunds) else
    let fc' := wrap (fc - 1) in
    let fs' := wrap (wrap (sup f + MX) - sup a) in
    let ts := wrap (sup t + sup a) in
    if MX <=? ts then ((Mel fc' fs', Mel (wrap (tc + 1)) (wrap (ts - MX))), None)
    else ((Mel fc' fs', Mel tc ts), None)
  else
    let fs' := wrap (sup f - sup a) in
    let ts := wrap (sup t + sup a) in
    if MX <=? ts then ((Mel fc fs', Mel (wrap (tc + 1)) (wrap (ts - MX))), None)
    else ((Mel fc fs', Mel tc ts), None).

(* func (m *Melange) Drain(amount Melange, sink *Melange) error = Transfer(amount, m, sink) *)
Definition drain (m a sink : mel) : (mel * mel) * option serr := transfer a m sink.

(* Specification side: the unbounded integer currency*10^18 + supplementary. *)
Definition valZ (m : mel) : Z := cur m * MX + sup m.
Definition canon (m : mel) : Prop := 0 <= cur m < W /\ 0 <= sup m < MX.
Definition canonb (m : mel) : bool :=
  (0 <=? cur m) && (cur m <? W) && (0 <=? sup m) && (sup m <? MX).
Definition is_u64_mel (m : mel) : Prop := u64 (cur m) /\ u64 (sup m).
Definition LIMIT : Z := W * MX.   (* first value that is not representable *)
