(* Model/Msgpack.v — the storage / cache form of a Transaction and a Vertex, byte by byte:
   what vmihailenco/msgpack v4.0.4 Marshal writes for the structs of src/transaction/transaction.go,
   src/accountant/vertex.go and src/spice/spice.go (a fixmap in field order, fixstr keys = the msgpack
   struct tags, str / bin / ext(-1) time / 0xcf uint64 values, nested structs as nested maps), and a
   sequential decoder for exactly that layout (what shamaton/msgpack v2 accepts for these structs).
   The field tables (tag, kind, order) are regenerated from the Go structs into Gen/CodecFields.v and
   compared with the tables below by a kernel-evaluated theorem; the encoder is compared BYTE-EXACT with
   the real Marshal output on every generated case. Definitions only. *)
From Coq Require Import List Arith NArith ZArith Bool String Ascii.
From Verif Require Import WalletFile Msg Codec.
Import ListNotations.
Local Open Scope Z_scope.

Definition bind {A B} (o : option A) (f : A -> option B) : option B :=
  match o with Some a => f a | None => None end.

(* ---------------------------------------------------------------- lengths and raw runs *)
Definition zlen (b : bytes) : Z := Z.of_nat (List.length b).
Definition take (n : Z) (b : bytes) : option (bytes * bytes) :=
  if zlen b <? n then None else Some (firstn (Z.to_nat n) b, skipn (Z.to_nat n) b).

(* ---------------------------------------------------------------- str *)
Definition enc_str (s : bytes) : bytes :=
  let l := zlen s in
  if l <? 32 then Z.to_N (160 + l) :: s                       (* fixstr 0xa0 | len *)
  else if l <? 256 then 217%N :: be_bytes 1 l ++ s            (* str8  0xd9 *)
  else if l <? 65536 then 218%N :: be_bytes 2 l ++ s          (* str16 0xda *)
  else 219%N :: be_bytes 4 l ++ s.                            (* str32 0xdb *)
Definition dec_len (n : nat) (b : bytes) : option (Z * bytes) :=
  if Nat.leb n (List.length b) then Some (be_decode (firstn n b), skipn n b) else None.
Definition dec_str (b : bytes) : option (bytes * bytes) :=
  match b with
  | c :: r =>
    if N.leb 160 c && N.ltb c 192 then take (Z.of_N c - 160) r
    else if N.eqb c 217 then bind (dec_len 1 r) (fun p => take (fst p) (snd p))
    else if N.eqb c 218 then bind (dec_len 2 r) (fun p => take (fst p) (snd p))
    else if N.eqb c 219 then bind (dec_len 4 r) (fun p => take (fst p) (snd p))
    else None
  | [] => None
  end.

(* ---------------------------------------------------------------- bin (a nil slice is written as nil) *)
Definition enc_bin (o : option bytes) : bytes :=
  match o with
  | None => [192%N]                                            (* 0xc0 nil *)
  | Some s =>
    let l := zlen s in
    if l <? 256 then 196%N :: be_bytes 1 l ++ s               (* bin8  0xc4 *)
    else if l <? 65536 then 197%N :: be_bytes 2 l ++ s        (* bin16 0xc5 *)
    else 198%N :: be_bytes 4 l ++ s                           (* bin32 0xc6 *)
  end.
Definition some_fst (p : bytes * bytes) : option bytes * bytes := (Some (fst p), snd p).
Definition dec_bin (b : bytes) : option (option bytes * bytes) :=
  match b with
  | c :: r =>
    if N.eqb c 192 then Some (None, r)
    else if N.eqb c 196 then bind (dec_len 1 r) (fun p => option_map some_fst (take (fst p) (snd p)))
    else if N.eqb c 197 then bind (dec_len 2 r) (fun p => option_map some_fst (take (fst p) (snd p)))
    else if N.eqb c 198 then bind (dec_len 4 r) (fun p => option_map some_fst (take (fst p) (snd p)))
    else None
  | [] => None
  end.
(* a [32]byte array: bin8 of List.length 32, nothing else *)
Definition enc_h32 (h : bytes) : bytes := enc_bin (Some h).
Definition dec_h32 (b : bytes) : option (bytes * bytes) :=
  match dec_bin b with
  | Some (Some h, r) => if Nat.eqb (List.length h) 32 then Some (h, r) else None
  | _ => None
  end.

(* ---------------------------------------------------------------- time with the remaining input *)
Definition time_len (b : bytes) : nat :=
  match b with 214%N :: _ => 6%nat | 215%N :: _ => 10%nat | 199%N :: _ => 15%nat | _ => 0%nat end.
Definition dec_time_r (b : bytes) : option ((Z * Z) * bytes) :=
  match dec_time b with
  | Some t => if Nat.leb (time_len b) (List.length b) then Some (t, skipn (time_len b) b) else None
  | None => None
  end.

(* ---------------------------------------------------------------- keys *)
Definition ascii_bytes (s : string) : bytes := map (fun a => N.of_nat (nat_of_ascii a)) (list_ascii_of_string s).
Definition enc_key (k : string) : bytes := enc_str (ascii_bytes k).
Fixpoint strip (p b : bytes) : option bytes :=
  match p with
  | [] => Some b
  | x :: p' => match b with y :: b' => if N.eqb x y then strip p' b' else None | [] => None end
  end.
Definition dec_key (k : string) (b : bytes) : option bytes := strip (enc_key k) b.

(* ---------------------------------------------------------------- the structs *)
Record mmel := MMel { mm_cur : Z; mm_sup : Z }.
Record mtrx := MTrx {
  mt_created : Z * Z;                 (* seconds, nanoseconds *)
  mt_issuer : bytes; mt_receiver : bytes; mt_subject : bytes;
  mt_data : option bytes; mt_isig : option bytes; mt_rsig : option bytes;
  mt_hash : bytes; mt_spice : mmel }.
Record mvtx := MVtx {
  mv_signer : bytes; mv_created : Z * Z; mv_sig : option bytes; mv_trx : mtrx;
  mv_hash : bytes; mv_left : bytes; mv_right : bytes; mv_weight : Z }.

(* field kinds, as the translator names them *)
Inductive fkind := KTime | KStr | KBin | KArr32 | KU64 | KStruct (name : string).
Definition fkind_eqb (a b : fkind) : bool :=
  match a, b with
  | KTime, KTime | KStr, KStr | KBin, KBin | KArr32, KArr32 | KU64, KU64 => true
  | KStruct x, KStruct y => String.eqb x y
  | _, _ => false
  end.
Definition fields_eqb (a b : list (string * fkind)) : bool :=
  Nat.eqb (List.length a) (List.length b) &&
  forallb (fun p => String.eqb (fst (fst p)) (fst (snd p)) && fkind_eqb (snd (fst p)) (snd (snd p))) (combine a b).

Definition mel_fields : list (string * fkind) := [("currency", KU64); ("supplementary_currency", KU64)]%string.
Definition trx_fields : list (string * fkind) :=
  [("created_at", KTime); ("issuer_address", KStr); ("receiver_address", KStr); ("subject", KStr);
   ("data", KBin); ("issuer_signature", KBin); ("receiver_signature", KBin); ("hash", KArr32);
   ("spice", KStruct "Melange")]%string.
Definition vtx_fields : list (string * fkind) :=
  [("signer_public_address", KStr); ("created_at", KTime); ("signature", KBin); ("transaction", KStruct "Transaction");
   ("hash", KArr32); ("left_parent_hash", KArr32); ("right_parent_hash", KArr32); ("weight", KU64)]%string.

Definition fixmap (n : N) : N := (128 + n)%N.

Definition enc_mel (m : mmel) : bytes :=
  fixmap 2 :: (enc_key "currency" ++ enc_u64 (mm_cur m) ++ (enc_key "supplementary_currency" ++ enc_u64 (mm_sup m))).
Definition dec_mel (b : bytes) : option (mmel * bytes) :=
  match b with
  | 130%N :: b0 =>
    bind (dec_key "currency" b0) (fun b1 => bind (dec_u64 b1) (fun p1 =>
    bind (dec_key "supplementary_currency" (snd p1)) (fun b2 => bind (dec_u64 b2) (fun p2 =>
    Some (MMel (fst p1) (fst p2), snd p2)))))
  | _ => None
  end.

Definition enc_trx (t : mtrx) : bytes :=
  fixmap 9 ::
  (enc_key "created_at" ++ enc_time (fst (mt_created t)) (snd (mt_created t)) ++
  (enc_key "issuer_address" ++ enc_str (mt_issuer t) ++
  (enc_key "receiver_address" ++ enc_str (mt_receiver t) ++
  (enc_key "subject" ++ enc_str (mt_subject t) ++
  (enc_key "data" ++ enc_bin (mt_data t) ++
  (enc_key "issuer_signature" ++ enc_bin (mt_isig t) ++
  (enc_key "receiver_signature" ++ enc_bin (mt_rsig t) ++
  (enc_key "hash" ++ enc_h32 (mt_hash t) ++
  (enc_key "spice" ++ enc_mel (mt_spice t)))))))))).
Definition dec_trx (b : bytes) : option (mtrx * bytes) :=
  match b with
  | 137%N :: b0 =>
    bind (dec_key "created_at" b0) (fun b1 => bind (dec_time_r b1) (fun p1 =>
    bind (dec_key "issuer_address" (snd p1)) (fun b2 => bind (dec_str b2) (fun p2 =>
    bind (dec_key "receiver_address" (snd p2)) (fun b3 => bind (dec_str b3) (fun p3 =>
    bind (dec_key "subject" (snd p3)) (fun b4 => bind (dec_str b4) (fun p4 =>
    bind (dec_key "data" (snd p4)) (fun b5 => bind (dec_bin b5) (fun p5 =>
    bind (dec_key "issuer_signature" (snd p5)) (fun b6 => bind (dec_bin b6) (fun p6 =>
    bind (dec_key "receiver_signature" (snd p6)) (fun b7 => bind (dec_bin b7) (fun p7 =>
    bind (dec_key "hash" (snd p7)) (fun b8 => bind (dec_h32 b8) (fun p8 =>
    bind (dec_key "spice" (snd p8)) (fun b9 => bind (dec_mel b9) (fun p9 =>
    Some (MTrx (fst p1) (fst p2) (fst p3) (fst p4) (fst p5) (fst p6) (fst p7) (fst p8) (fst p9), snd p9)))))))))))))))))))
  | _ => None
  end.

Definition enc_vtx (v : mvtx) : bytes :=
  fixmap 8 ::
  (enc_key "signer_public_address" ++ enc_str (mv_signer v) ++
  (enc_key "created_at" ++ enc_time (fst (mv_created v)) (snd (mv_created v)) ++
  (enc_key "signature" ++ enc_bin (mv_sig v) ++
  (enc_key "transaction" ++ enc_trx (mv_trx v) ++
  (enc_key "hash" ++ enc_h32 (mv_hash v) ++
  (enc_key "left_parent_hash" ++ enc_h32 (mv_left v) ++
  (enc_key "right_parent_hash" ++ enc_h32 (mv_right v) ++
  (enc_key "weight" ++ enc_u64 (mv_weight v))))))))).
Definition dec_vtx (b : bytes) : option (mvtx * bytes) :=
  match b with
  | 136%N :: b0 =>
    bind (dec_key "signer_public_address" b0) (fun b1 => bind (dec_str b1) (fun p1 =>
    bind (dec_key "created_at" (snd p1)) (fun b2 => bind (dec_time_r b2) (fun p2 =>
    bind (dec_key "signature" (snd p2)) (fun b3 => bind (dec_bin b3) (fun p3 =>
    bind (dec_key "transaction" (snd p3)) (fun b4 => bind (dec_trx b4) (fun p4 =>
    bind (dec_key "hash" (snd p4)) (fun b5 => bind (dec_h32 b5) (fun p5 =>
    bind (dec_key "left_parent_hash" (snd p5)) (fun b6 => bind (dec_h32 b6) (fun p6 =>
    bind (dec_key "right_parent_hash" (snd p6)) (fun b7 => bind (dec_h32 b7) (fun p7 =>
    bind (dec_key "weight" (snd p7)) (fun b8 => bind (dec_u64 b8) (fun p8 =>
    Some (MVtx (fst p1) (fst p2) (fst p3) (fst p4) (fst p5) (fst p6) (fst p7) (fst p8), snd p8)))))))))))))))))
  | _ => None
  end.

(* ---------------------------------------------------------------- well-formedness: what Go values can be *)
Definition P32' : Z := 4294967296.
Definition wf_time (t : Z * Z) : Prop := - P63 <= fst t < P63 /\ 0 <= snd t < 1000000000.
Definition wf_obin (o : option bytes) : Prop := match o with Some s => zlen s < P32' | None => True end.
Definition wf_mel (m : mmel) : Prop := 0 <= mm_cur m < P64 /\ 0 <= mm_sup m < P64.
Definition wf_trx (t : mtrx) : Prop :=
  wf_time (mt_created t) /\ zlen (mt_issuer t) < P32' /\ zlen (mt_receiver t) < P32' /\ zlen (mt_subject t) < P32' /\
  wf_obin (mt_data t) /\ wf_obin (mt_isig t) /\ wf_obin (mt_rsig t) /\ List.length (mt_hash t) = 32%nat /\ wf_mel (mt_spice t).
Definition wf_vtx (v : mvtx) : Prop :=
  zlen (mv_signer v) < P32' /\ wf_time (mv_created v) /\ wf_obin (mv_sig v) /\ wf_trx (mv_trx v) /\
  List.length (mv_hash v) = 32%nat /\ List.length (mv_left v) = 32%nat /\ List.length (mv_right v) = 32%nat /\ 0 <= mv_weight v < P64.

(* ---------------------------------------------------------------- the encoders follow the field tables *)
Inductive fval := VTime (t : Z * Z) | VStr (s : bytes) | VBin (o : option bytes) | VArr (h : bytes) | VU64 (x : Z) | VMel (m : mmel) | VTrx (t : mtrx).
Definition enc_val (v : fval) : bytes :=
  match v with
  | VTime t => enc_time (fst t) (snd t) | VStr s => enc_str s | VBin o => enc_bin o | VArr h => enc_h32 h
  | VU64 x => enc_u64 x | VMel m => enc_mel m | VTrx t => enc_trx t
  end.
Definition kind_of (v : fval) : fkind :=
  match v with
  | VTime _ => KTime | VStr _ => KStr | VBin _ => KBin | VArr _ => KArr32 | VU64 _ => KU64
  | VMel _ => KStruct "Melange" | VTrx _ => KStruct "Transaction"
  end.
Fixpoint enc_fields (l : list (string * fval)) : bytes :=
  match l with [] => [] | (k, v) :: r => enc_key k ++ enc_val v ++ enc_fields r end.
Definition enc_struct (fields : list (string * fkind)) (vals : list fval) : bytes :=
  fixmap (N.of_nat (List.length fields)) :: enc_fields (combine (map fst fields) vals).
Definition mel_vals (m : mmel) : list fval := [VU64 (mm_cur m); VU64 (mm_sup m)].
Definition trx_vals (t : mtrx) : list fval :=
  [VTime (mt_created t); VStr (mt_issuer t); VStr (mt_receiver t); VStr (mt_subject t); VBin (mt_data t); VBin (mt_isig t);
   VBin (mt_rsig t); VArr (mt_hash t); VMel (mt_spice t)].
Definition vtx_vals (v : mvtx) : list fval :=
  [VStr (mv_signer v); VTime (mv_created v); VBin (mv_sig v); VTrx (mv_trx v); VArr (mv_hash v); VArr (mv_left v); VArr (mv_right v);
   VU64 (mv_weight v)].
