(* Model/Msg.v — byte layouts of the signed messages and the verification decision lists:
   src/transaction/transaction.go (GetMessage, VerifyIssuer, VerifyIssuerReceiver),
   src/accountant/vertex.go (initData, verify), src/wallet/verifier.go (Verify),
   src/gossip/gossip.go (createGossiperMessageToSign, initConnectionData).
   sha256 / ed25519 / address decoding are Section variables (H-sha, H-sig, H-b58). *)
From Coq Require Import List Arith NArith ZArith Lia Bool.
From Verif Require Import WalletFile.
Import ListNotations.
Local Open Scope Z_scope.

Fixpoint le_bytes (n : nat) (x : Z) : bytes :=
  match n with O => [] | S k => Z.to_N (x mod 256) :: le_bytes k (x / 256) end.
Definition le64 (x : Z) : bytes := le_bytes 8 x.

Record trxb := Trxb { b_subject : bytes; b_data : bytes; b_issuer : bytes; b_receiver : bytes;
                      b_time : Z; b_cur : Z; b_sup : Z; b_hash : bytes; b_isig : bytes; b_rsig : bytes }.
Record vtxb := Vtxb { vb_trx : trxb; vb_left : bytes; vb_right : bytes; vb_time : Z; vb_weight : Z;
                      vb_hash : bytes; vb_sig : bytes; vb_signer : bytes }.

(* GetMessage: subject|data|issuer|receiver|LE64 time|LE64 currency|LE64 supplementary — no length prefixes *)
Definition trx_msg (t : trxb) : bytes :=
  b_subject t ++ b_data t ++ b_issuer t ++ b_receiver t ++ le64 (b_time t) ++ le64 (b_cur t) ++ le64 (b_sup t).
(* initData: trx hash|left|right|LE64 time|LE64 weight — all fixed width *)
Definition vtx_msg (v : vtxb) : bytes :=
  b_hash (vb_trx v) ++ vb_left v ++ vb_right v ++ le64 (vb_time v) ++ le64 (vb_weight v).
Definition gossiper_msg (addr hash : bytes) : bytes := addr ++ hash.
Definition conn_msg (addr url : bytes) (created : Z) : bytes := addr ++ url ++ le64 created.

Fixpoint bytes_eqb (a b : bytes) : bool :=
  match a, b with
  | [], [] => true
  | x :: a', y :: b' => N.eqb x y && bytes_eqb a' b'
  | _, _ => false
  end.

Section Verify.
  Variable sha : bytes -> bytes.
  Variable vrfy : bytes -> bytes -> bytes -> bool.     (* public key, digest, signature *)
  Variable addr_pk : bytes -> option bytes.            (* AddressToPubKey; None = error *)

  (* Helper.Verify *)
  Definition helper_verify (msg sig hash addr : bytes) : outcome unit :=
    if negb (bytes_eqb hash (sha msg)) then Err else
    match addr_pk addr with
    | None => Err
    | Some pk => if vrfy pk (sha msg) sig then Ok tt else Err
    end.

  Definition verify_issuer (t : trxb) : outcome unit :=
    helper_verify (trx_msg t) (b_isig t) (b_hash t) (b_issuer t).
  Definition verify_issuer_receiver (t : trxb) : outcome unit :=
    match verify_issuer t with
    | Ok _ => helper_verify (trx_msg t) (b_rsig t) (b_hash t) (b_receiver t)
    | e => e
    end.
  (* Vertex.verify: the receiver signature is checked only when present *)
  Definition vertex_verify (v : vtxb) : outcome unit :=
    match (if negb (Nat.eqb (length (b_rsig (vb_trx v))) 0) then verify_issuer_receiver (vb_trx v)
           else verify_issuer (vb_trx v)) with
    | Ok _ => helper_verify (vtx_msg v) (vb_sig v) (vb_hash v) (vb_signer v)
    | e => e
    end.

  (* verifyGossipers keeps the entries whose signature verifies for address|hash under that address *)
  Definition gossiper_ok (hash : bytes) (g : bytes * bytes * bytes) : bool :=   (* address, digest, signature *)
    let '(a, d, s) := g in
    match helper_verify (gossiper_msg a hash) s d a with Ok _ => true | _ => false end.
  Definition verify_gossipers (hash : bytes) (l : list (bytes * bytes * bytes)) : list bytes :=
    map (fun g => fst (fst g)) (filter (gossiper_ok hash) l).
End Verify.

(* decision list over ground-truth facts, used by the correspondence check: the harness establishes each
   fact independently (own sha256 / ed25519 with the known keys) and the real Vertex.verify must agree *)
Record facts := Facts {
  f_trx_hash_ok : bool;      (* transaction hash = sha256(transaction message) *)
  f_issuer_addr_ok : bool;   (* issuer address decodes (base58, checksum, 32-byte key) *)
  f_isig_ok : bool;          (* issuer signature verifies under that key on that digest *)
  f_rsig_present : bool;
  f_recv_addr_ok : bool;
  f_rsig_ok : bool;
  f_vtx_hash_ok : bool;
  f_signer_addr_ok : bool;
  f_vsig_ok : bool
}.
Definition verify_dec (f : facts) : bool :=
  f_trx_hash_ok f && f_issuer_addr_ok f && f_isig_ok f &&
  (if f_rsig_present f then f_recv_addr_ok f && f_rsig_ok f else true) &&
  f_vtx_hash_ok f && f_signer_addr_ok f && f_vsig_ok f.
