(* Model/Lockset.v — the lockset discipline over the access table the translator (harness/cmd/extract locks) reads
   off src/accountant, src/cache and src/gossip, and the reader/writer lock semantics it rests on. *)
From Coq Require Import List String Arith Bool.
Import ListNotations.

Record root := Root { r_name : string; r_multi : bool; r_ctor : bool }.
Record access := Acc {
  a_unit : string; a_line : nat; a_var : string; a_write : bool;
  a_locks : list (string * nat);     (* lock held at the access: 1 = read mode, 2 = write mode (a Mutex is always 2) *)
  a_roots : list string }.           (* goroutine roots (API calls, background loops) that can reach the access *)

(* C18 speaks about a node whose DAG is loaded: the two loading entry points run before the node serves, and
   constructors run before the object is shared *)
Definition load_phase : list string :=
  ["accountant.AccountingBook.CreateGenesis"; "accountant.AccountingBook.LoadDag"]%string.
Definition in_strs (s : string) (l : list string) : bool := existsb (String.eqb s) l.

Fixpoint find_root (rs : list root) (n : string) : option root :=
  match rs with [] => None | r :: t => if String.eqb (r_name r) n then Some r else find_root t n end.

Definition serving (rs : list root) (n : string) : bool :=
  match find_root rs n with
  | Some r => negb (r_ctor r) && negb (in_strs n load_phase)
  | None => true                                   (* unknown root: assume it can run at any time *)
  end.
Definition multi (rs : list root) (n : string) : bool :=
  match find_root rs n with Some r => r_multi r | None => true end.

(* two accesses can be performed by two different goroutines at the same time *)
Definition concurrent (rs : list root) (a b : access) : bool :=
  existsb (fun r1 => existsb (fun r2 => serving rs r1 && serving rs r2 && (negb (String.eqb r1 r2) || multi rs r1)) (a_roots b)) (a_roots a).
Definition conflict (a b : access) : bool := String.eqb (a_var a) (a_var b) && (a_write a || a_write b).

Fixpoint lmode (l : string) (ls : list (string * nat)) : nat :=
  match ls with [] => 0 | (l', m) :: t => if String.eqb l l' then m else lmode l t end.
(* a lock both hold, at least one of them exclusively *)
Definition excluded_by (l : string) (a b : access) : bool :=
  let m := lmode l (a_locks a) in let m' := lmode l (a_locks b) in
  Nat.leb 1 m && Nat.leb 1 m' && (Nat.eqb m 2 || Nat.eqb m' 2).
Definition protected (a b : access) : bool := existsb (fun lm => excluded_by (fst lm) a b) (a_locks a).

Definition racy (rs : list root) (a b : access) : bool := conflict a b && concurrent rs a b && negb (protected a b).
Definition racy_pairs (rs : list root) (accs : list access) : list (access * access) :=
  filter (fun p => racy rs (fst p) (snd p)) (list_prod accs accs).

(* ---------------------------------------------------------------- reader/writer lock semantics *)
(* one lock: who holds it in write mode, who holds it in read mode *)
Record lockst := LockSt { wr : option nat; rd : list nat }.
Inductive lstep : lockst -> lockst -> Prop :=
  | l_acq_w : forall t, lstep (LockSt None []) (LockSt (Some t) [])
  | l_rel_w : forall t, lstep (LockSt (Some t) []) (LockSt None [])
  | l_acq_r : forall t rs, lstep (LockSt None rs) (LockSt None (t :: rs))
  | l_rel_r : forall t rs1 rs2, lstep (LockSt None (rs1 ++ t :: rs2)) (LockSt None (rs1 ++ rs2)).
Inductive lreach : lockst -> Prop :=
  | lreach0 : lreach (LockSt None [])
  | lreachS : forall s s', lreach s -> lstep s s' -> lreach s'.
Definition holds (s : lockst) (t : nat) (mode : nat) : Prop :=
  match mode with 2 => wr s = Some t | 1 => In t (rd s) | _ => False end.
